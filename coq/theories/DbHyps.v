(* DbHyps.v — the database hypotheses of C10 / C11 / C16 (DecoderCtlProofs.v: db_pgn_ok, db_claim_id_ok,
   `is_fast CLAIM = Ok (Some false)`) as DECIDABLE conditions on the translated tables, with the proofs that the
   composed decode function `EndToEnd.tbl_decode` of tables passing them satisfies the hypotheses.  The per-run
   instance (tools/templates/OblC10.v) evaluates the conditions on the tables regenerated from /repo inside the
   kernel and so states C10 / C11 for the code of this run with no hypothesis left. *)
From NV Require Import Base Defn Fields Dispatch DecoderCtl DecoderCtlProofs EndToEnd.

Section T.
  Variable code_dec : list (fname * ddef).
  Variable code_disp : list disp.
  Variable L LB : lookups.
  Variable LI : ilookups.

  (* decode_pgn_<N>[_id] builds a message with PGN N *)
  Definition dec_pgn_okb : bool := forallb (fun e => Defn.c_pgn (snd e) =? fst (fst e)) code_dec.
  (* every dispatcher of PGN N is found under N and only reaches functions decode_pgn_<N>_<id> *)
  Definition disp_okb : bool :=
    forallb (fun d => forallb (fun a => fst (a_target a) =? dp_pgn d) (dp_arms d) &&
                      match dp_fallback d with Some fn => fst fn =? dp_pgn d | None => true end) code_disp.
  (* the id isoAddressClaim (case-insensitively) belongs to PGN 60928 and only to it *)
  Definition claim_id_okb : bool :=
    forallb (fun e => Bool.eqb (fst (fst e) =? CLAIM)
                               (str_eqb (lower (bytes_of_str (Defn.c_id (snd e)))) (lower claim_id))) code_dec.

  Lemma find_fname_in {A} fn (l : list (fname * A)) x :
    find_fname fn l = Some x -> exists fn', In (fn', x) l /\ fst fn' = fst fn.
  Proof.
    unfold find_fname. destruct (find (fun p => fname_eqb (fst p) fn) l) as [[fn' y]|] eqn:F; [|discriminate].
    intros H. inversion H; subst y. apply find_some in F. destruct F as [I E]. exists fn'. split; [exact I|].
    unfold fname_eqb in E. cbn [fst] in E. apply andb_true_iff in E. destruct E as [E _]. apply Z.eqb_eq. exact E.
  Qed.

  Lemma run_disp_target arms fb p fn :
    run_disp arms fb p = Some fn -> (exists a, In a arms /\ a_target a = fn) \/ fb = Some fn.
  Proof.
    induction arms as [|a t IH]; simpl; intros H; [right; exact H|].
    destruct (arm_taken p a).
    - inversion H. left. exists a. split; [left; reflexivity | reflexivity].
    - destruct (IH H) as [[a' [I E]]|E]; [left; exists a'; split; [right; exact I | exact E] | right; exact E].
  Qed.

  Lemma run_ddef_pgn_id p cd m : run_ddef L LB LI p cd = Ok m -> Fields.m_pgn m = Defn.c_pgn cd /\ Fields.m_id m = Defn.c_id cd.
  Proof.
    unfold run_ddef. destruct (run_steps _ _ _ _ _ _) as [s|e|]; cbn [bind]; try discriminate.
    intros H. inversion H. split; reflexivity.
  Qed.

  (* which translated function produced the message *)
  Lemma tbl_decode_source pgn x m : dec_pgn_okb = true -> disp_okb = true ->
    tbl_decode code_dec code_disp L LB LI pgn x = Ok (Some m) ->
    exists fn cd mm, In (fn, cd) code_dec /\ fst fn = pgn /\ run_ddef L LB LI x cd = Ok mm /\ m = to_dmsg mm.
  Proof.
    intros Hd Hp. unfold tbl_decode.
    destruct (find_disp code_disp pgn) as [d|] eqn:Fd.
    - unfold find_disp in Fd. apply find_some in Fd. destruct Fd as [Id Ed]. apply Z.eqb_eq in Ed.
      unfold disp_okb in Hp. rewrite forallb_forall in Hp. specialize (Hp d Id).
      apply andb_true_iff in Hp. destruct Hp as [Ha Hf]. rewrite forallb_forall in Ha.
      destruct (run_disp (dp_arms d) (dp_fallback d) x) as [fn|] eqn:R; [|discriminate].
      assert (Pf : fst fn = pgn).
      { destruct (run_disp_target _ _ _ _ R) as [[a [Ia Ea]]|Ef].
        - specialize (Ha a Ia). apply Z.eqb_eq in Ha. rewrite Ea in Ha. lia.
        - rewrite Ef in Hf. apply Z.eqb_eq in Hf. lia. }
      unfold run_fn. destruct (find_fname fn code_dec) as [cd|] eqn:Ff; [|discriminate].
      destruct (find_fname_in _ _ _ Ff) as [fn' [I E]].
      destruct (run_ddef L LB LI x cd) as [mm|e|] eqn:Rd; cbn [bind]; try discriminate.
      intros H. inversion H. exists fn', cd, mm. repeat split; try assumption. lia.
    - destruct (find_fname (pgn, None) code_dec) as [cd|] eqn:Ff; [|discriminate].
      destruct (find_fname_in _ _ _ Ff) as [fn' [I E]]. cbn [fst] in E.
      destruct (run_ddef L LB LI x cd) as [mm|e|] eqn:Rd; cbn [bind]; try discriminate.
      intros H. inversion H. exists fn', cd, mm. repeat split; assumption.
  Qed.

  Theorem tbl_db_pgn_ok : dec_pgn_okb = true -> disp_okb = true ->
    db_pgn_ok (tbl_decode code_dec code_disp L LB LI).
  Proof.
    intros Hd Hp pgn x m D. destruct (tbl_decode_source pgn x m Hd Hp D) as [fn [cd [mm [I [E [R ->]]]]]].
    destruct (run_ddef_pgn_id _ _ _ R) as [P _]. cbn [to_dmsg d_pgn]. rewrite P.
    unfold dec_pgn_okb in Hd. rewrite forallb_forall in Hd. specialize (Hd (fn, cd) I). cbn [fst snd] in Hd.
    apply Z.eqb_eq in Hd. lia.
  Qed.

  Theorem tbl_db_claim_id_ok : dec_pgn_okb = true -> disp_okb = true -> claim_id_okb = true ->
    db_claim_id_ok (tbl_decode code_dec code_disp L LB LI).
  Proof.
    intros Hd Hp Hc pgn x m D. destruct (tbl_decode_source pgn x m Hd Hp D) as [fn [cd [mm [I [E [R ->]]]]]].
    destruct (run_ddef_pgn_id _ _ _ R) as [_ Q]. cbn [to_dmsg d_id]. rewrite Q.
    unfold claim_id_okb in Hc. rewrite forallb_forall in Hc. specialize (Hc (fn, cd) I). cbn [fst snd] in Hc.
    rewrite E in Hc. apply eqb_prop in Hc.
    split.
    - intros ->. rewrite Z.eqb_refl in Hc. symmetry in Hc.
      apply (list_eqb_eq Z.eqb); [intros a b; apply Z.eqb_eq | exact Hc].
    - intros Hl. assert (S : str_eqb (lower (bytes_of_str (Defn.c_id cd))) (lower claim_id) = true).
      { apply (list_eqb_eq Z.eqb); [intros a b; apply Z.eqb_eq | exact Hl]. }
      rewrite S in Hc. apply Z.eqb_eq. exact Hc.
  Qed.
End T.
