(* SendModel.v — AsyncIOClient.send (ioclient.py 233-256, REPAIRED: a dedicated asyncio.Lock around
   the write/drain loop, F-sendlock) for several concurrent callers, as a labelled transition system.
   Models only, no proofs.

     async def send(self, m):
         try:
             msgs = self._encode_impl(m)               # packet list | ValueError | other exception
             assert self.writer is not None
             async with self._send_lock:               # uselock = true (repaired); false = code as it was
                 for msg in msgs:
                     self.writer.write(msg)            # may raise (environment)
                     await self.writer.drain()         # returns at once | suspends | raises (environment)
         except ValueError: log                        # encoding failure: nothing else happens
         except Exception:
             if self._state != State.CLOSED:
                 await self._update_state(State.DISCONNECTED)   # status callback may suspend
                 asyncio.create_task(self.connect())

   One transition = one atomic block between two suspension points of one task. Splitting a block
   (LStart / LAcquire are separate although an uncontended lock does not suspend) only adds
   interleavings, so statements "for every run" cover asyncio's real schedules.
   `encode` is a Section variable: a state-passing function (the encoder keeps a sequence counter). *)
From NV Require Import Base.

Inductive cst := Disc | Conn | Closed.
Definition cst_eqb (a b : cst) : bool :=
  match a, b with Disc, Disc | Conn, Conn | Closed, Closed => true | _, _ => false end.

Definition pkt := list Z.
Inductive enc_outcome := EncOk (ps : list pkt) | EncValueError | EncOther.
Inductive sout := OSent | OEncFail | OFault | OFaultClosed.
Inductive cbo := CbNow | CbSusp.                 (* status callback: returns/raises at once | suspends *)
Inductive wres := WRaise | DrRet | DrSusp | DrRaise. (* write raises | drain returns | drain suspends | drain raises *)

Inductive saction :=
| AStart (cb : cbo)              (* entry of send() up to its first suspension point *)
| AAcquire                       (* the lock is free and this waiter gets it *)
| AWrite (r : wres) (cb : cbo)   (* writer.write(next packet); await drain() up to the next suspension *)
| ADrained (ok : bool) (cb : cbo)(* a suspended drain() resumes: returns / raises *)
| AFaultCbDone.                  (* the status callback of the fault handler finishes *)

Inductive label :=
| LSend (i : nat) (a : saction)
| LReconnect                     (* environment: a connect() program completes: new writer, CONNECTED *)
| LClose.                        (* environment: close() sets CLOSED *)

Section Send.
Variables E M : Type.
Variable encode : E -> M -> E * enc_outcome.
Variable uselock : bool.

Definition call := (E * M)%type.               (* ghost: encoder state and message of a send's encode call *)
Definition enc_of (c : call) : enc_outcome := snd (encode (fst c) (snd c)).

Inductive spc :=
| SNew (m : M)                                  (* send(m) called, not yet run *)
| SWaitLock (c : call) (ps : list pkt)          (* encoded; at `async with self._send_lock` *)
| SWrite (c : call) (rest : list pkt)           (* in the loop (lock held); next: write (hd rest) *)
| SDrain (c : call) (rest : list pkt)           (* wrote a packet, suspended in drain (lock held); rest still to write *)
| SFaultCb (c : call)                           (* handler: inside _update_state(DISCONNECTED), callback suspended *)
| SDone (c : call) (o : sout).

Definition holds (p : spc) : bool := match p with SWrite _ _ | SDrain _ _ => true | _ => false end.
Definition fresh (p : spc) : bool := match p with SNew _ | SWaitLock _ _ => true | _ => false end.

Record g := {
  st : cst;
  wr : option nat; next_w : nat;               (* self.writer as a connection number *)
  lockh : option nat;                           (* holder of self._send_lock *)
  pcs : list spc;                               (* one program counter per send() call *)
  encst : E;
  log : list (nat * nat * pkt);                 (* the gateway's byte log, NEWEST FIRST: (sender, writer, packet) *)
  pend : nat;                                   (* number of asyncio.create_task(self.connect()) issued by fault handlers so far *)
  trace : list cst;                             (* arguments of the status callback (if one is registered), newest first *)
  has_cb : bool
}.

Definition with_pcs (x : g) (p : list spc) : g :=
  {| st := st x; wr := wr x; next_w := next_w x; lockh := lockh x; pcs := p; encst := encst x; log := log x;
     pend := pend x; trace := trace x; has_cb := has_cb x |}.
Definition with_enc (x : g) (e : E) : g :=
  {| st := st x; wr := wr x; next_w := next_w x; lockh := lockh x; pcs := pcs x; encst := e; log := log x;
     pend := pend x; trace := trace x; has_cb := has_cb x |}.
Definition with_lock (x : g) (l : option nat) : g :=
  {| st := st x; wr := wr x; next_w := next_w x; lockh := l; pcs := pcs x; encst := encst x; log := log x;
     pend := pend x; trace := trace x; has_cb := has_cb x |}.
Definition release (x : g) : g := with_lock x None.
Definition add_log (x : g) (i w : nat) (p : pkt) : g :=
  {| st := st x; wr := wr x; next_w := next_w x; lockh := lockh x; pcs := pcs x; encst := encst x;
     log := (i, w, p) :: log x; pend := pend x; trace := trace x; has_cb := has_cb x |}.
Definition spawn_connect (x : g) : g :=
  {| st := st x; wr := wr x; next_w := next_w x; lockh := lockh x; pcs := pcs x; encst := encst x; log := log x;
     pend := S (pend x); trace := trace x; has_cb := has_cb x |}.
(* _update_state up to the callback's first suspension *)
Definition set_state (x : g) (s : cst) : g :=
  if cst_eqb (st x) s then x else
  {| st := s; wr := wr x; next_w := next_w x; lockh := lockh x; pcs := pcs x; encst := encst x; log := log x;
     pend := pend x; trace := (if has_cb x then s :: trace x else trace x); has_cb := has_cb x |}.

(* `except Exception:` branch of send (the lock has been released by `async with` on the way out) *)
Definition fault (x : g) (c : call) (cb : cbo) : g * spc :=
  match st x with
  | Closed => (x, SDone c OFaultClosed)
  | Disc => (spawn_connect x, SDone c OFault)             (* _update_state returns at once: no change, no callback *)
  | Conn =>
      let y := set_state x Disc in
      if has_cb x then
        match cb with
        | CbNow => (spawn_connect y, SDone c OFault)
        | CbSusp => (y, SFaultCb c)
        end
      else (spawn_connect y, SDone c OFault)
  end.

Definition finish_or_continue (x : g) (c : call) (rest : list pkt) : g * spc :=
  match rest with [] => (release x, SDone c OSent) | _ => (x, SWrite c rest) end.

Definition sender_step (x : g) (i : nat) (pc : spc) (a : saction) : option (g * spc) :=
  match a, pc with
  | AStart cb, SNew m =>
      let c := (encst x, m) in
      let '(e', o) := encode (encst x) m in
      let y := with_enc x e' in
      match o with
      | EncValueError => Some (y, SDone c OEncFail)
      | EncOther => Some (fault y c cb)
      | EncOk ps =>
          match wr y with
          | None => Some (fault y c cb)                    (* AssertionError *)
          | Some _ =>
              if uselock then Some (y, SWaitLock c ps)
              else Some (match ps with [] => (y, SDone c OSent) | _ => (y, SWrite c ps) end)
          end
      end
  | AAcquire, SWaitLock c ps =>
      match lockh x with
      | Some _ => None
      | None => match ps with
                | [] => Some (x, SDone c OSent)
                | _ => Some (with_lock x (Some i), SWrite c ps)
                end
      end
  | AWrite r cb, SWrite c (p :: rest) =>
      match wr x with
      | None => Some (fault (release x) c cb)
      | Some w =>
          match r with
          | WRaise => Some (fault (release x) c cb)
          | DrRet => Some (finish_or_continue (add_log x i w p) c rest)
          | DrSusp => Some (add_log x i w p, SDrain c rest)
          | DrRaise => Some (fault (release (add_log x i w p)) c cb)
          end
      end
  | ADrained ok cb, SDrain c rest =>
      if ok then Some (finish_or_continue x c rest) else Some (fault (release x) c cb)
  | AFaultCbDone, SFaultCb c => Some (spawn_connect x, SDone c OFault)
  | _, _ => None
  end.

Fixpoint upd {A} (i : nat) (v : A) (l : list A) : list A :=
  match l, i with
  | [], _ => []
  | _ :: t, O => v :: t
  | h :: t, S j => h :: upd j v t
  end.

Definition reconnect (x : g) : g :=
  let y := set_state x Conn in
  {| st := st y; wr := Some (next_w y); next_w := S (next_w y); lockh := lockh y; pcs := pcs y; encst := encst y;
     log := log y; pend := pend y; trace := trace y; has_cb := has_cb y |}.

Definition step (x : g) (l : label) : option g :=
  match l with
  | LSend i a =>
      match nth_error (pcs x) i with
      | None => None
      | Some pc =>
          match sender_step x i pc a with
          | None => None
          | Some (y, pc') => Some (with_pcs y (upd i pc' (pcs y)))
          end
      end
  | LReconnect => match st x with Closed => None | _ => Some (reconnect x) end
  | LClose => Some (set_state x Closed)
  end.

Fixpoint run (x : g) (ls : list label) : option g :=
  match ls with
  | [] => Some x
  | l :: t => match step x l with Some y => run y t | None => None end
  end.

Definition init (s : cst) (w : option nat) (e : E) (cb : bool) (ms : list M) : g :=
  {| st := s; wr := w; next_w := match w with Some n => S n | None => O end; lockh := None; pcs := map SNew ms;
     encst := e; log := []; pend := O; trace := []; has_cb := cb |}.

(* observations on the byte log *)
Definition senders (lg : list (nat * nat * pkt)) : list nat := map (fun e => fst (fst e)) lg.
(* packets written by sender i, in the order written *)
Fixpoint sent (i : nat) (lg : list (nat * nat * pkt)) : list pkt :=
  match lg with
  | [] => []
  | (j, _, p) :: t => if (j =? i)%nat then sent i t ++ [p] else sent i t
  end.

(* two sends interleave: between two packets of i there is a packet of j <> i *)
Definition interleaved (s : list nat) : Prop :=
  exists i j a b c d, i <> j /\ s = a ++ i :: b ++ j :: c ++ i :: d.

End Send.

Arguments SNew {E M}. Arguments SWaitLock {E M}. Arguments SWrite {E M}. Arguments SDrain {E M}.
Arguments SFaultCb {E M}. Arguments SDone {E M}.
Arguments st {E M}. Arguments wr {E M}. Arguments next_w {E M}. Arguments lockh {E M}. Arguments pcs {E M}.
Arguments encst {E M}. Arguments log {E M}. Arguments pend {E M}. Arguments trace {E M}. Arguments has_cb {E M}.
