(* SpecVar.v — the declarative specification of decoding for definitions of VARIABLE layout:
   fields after a STRING_LAU, fields without a database BitOffset, STRING_LZ, BINARY fields whose
   length is announced by another field (BitLengthField), INDIRECT_LOOKUP.

   The specification walks the database fields in order and threads explicitly
     pos    the bit position where the next field starts,
     fixed  whether every field so far had a size fixed by the database,
     acc    the fields decoded so far (a BINARY field with BitLengthField reads its length there).
   Per field it states value, raw value and SIZE; the next field starts at start + size.

   WHERE A FIELD STARTS. A field without BitOffset starts where the previous field ended
   (canboat omits BitOffset exactly when the position depends on the data). A field WITH a
   database BitOffset is specified at that offset as long as the layout is fixed up to there
   (`fixed = true`: this is the reading of Spec.v, each field independently at its BitOffset), and
   at the running position once a variable-size field has been passed — there a static offset
   cannot be right for every payload, the database meaning is "fields are consecutive". In
   canboat.json the second case never occurs (no field after a variable-size field carries a
   BitOffset) and in the first case the two readings coincide: every BitOffset equals the sum of
   the sizes before it (`offsets_consistent`, evaluated per run on the real table in OblC01.v;
   `spec_offsets_agree` below proves that under this check "at BitOffset" = "at the running
   position"). The code generator emits `running_bit_offset = BitOffset` whenever the attribute is
   present; `var_def` (SpecVarProofs.v) therefore admits a BitOffset only in the fixed prefix.

   SIZES (canboat field types):
     fixed-size types     BitLength
     STRING_LAU           first byte n = total length in bytes INCLUDING the two header bytes, second
                          byte = encoding (0 UTF-16, otherwise UTF-8/ASCII), then n-2 bytes of text:
                          size 8*n
     STRING_LZ            length byte n, n bytes of text, terminating zero: BitLength when the
                          database gives one (a fixed-size area), otherwise 8*(n+2)
     BINARY+BitLengthField  the value of field number BitLengthField (its Order), in bits

   END OF THE PAYLOAD. The decoder's argument is an integer, not a byte string: trailing zero
   bytes of the frame are not represented. The specification therefore reads a payload as followed
   by zero bits, and text that is declared longer than the payload is cut one byte after the last
   non-zero byte of the payload (`present`). `lau_declared` proves that a STRING_LAU whose declared
   length stays within that bound denotes exactly its n-2 declared bytes.
   Malformed input (canboat: a STRING_LAU length byte below 2 is invalid) is given the lenient
   reading "no text; the field occupies n bytes"; when no payload bit at or after the field's start
   is set the field is absent: value None, size 0. *)
From NV Require Import Base Bits Defn PyNum Fields Dispatch Template Spec.

(* number of bytes of x up to its last non-zero byte *)
Definition extent (x : Z) : Z := (bit_length x + 7) / 8.
(* k consecutive payload bytes starting at bit pos *)
Definition payload_bytes (p pos : Z) (k : nat) : list Z :=
  map (fun i => field_bits p (pos + 8 * Z.of_nat i) 8) (seq 0 k).

Definition known_type (f : dbfield) : bool :=
  is_numberlike f || is_t f T_LOOKUP || is_t f T_BITLOOKUP || is_t f T_STRING_FIX || is_t f T_STRING_LZ
  || is_t f T_STRING_LAU || is_t f T_FLOAT || is_t f T_TIME || is_t f T_DATE
  || (is_t f T_RESERVED || is_t f T_SPARE) || is_t f T_INDIRECT || is_t f T_BINARY.

(* the size of the field is fixed by the database *)
Definition fixed_size (f : dbfield) : bool :=
  match f_bitlen f with Some _ => negb (is_t f T_STRING_LAU) | None => false end.

Section SpecVar.
  Variable L LB : lookups.
  Variable LI : ilookups.
  Variable p : Z.
  Variable all : list dbfield.     (* the whole definition: INDIRECT_LOOKUP names another field by Order *)

  (* bytes after a string header that the payload has, counted to one byte past its last non-zero byte *)
  Definition present (pos : Z) : nat := Z.to_nat (extent (p / 2 ^ pos) - 1).

  (* (text or None, size in bits) *)
  Definition spec_string_lau (pos : Z) : result (value * Z) :=
    if p / 2 ^ pos =? 0 then Ok (VNone, 0)
    else
      let n := field_bits p pos 8 in
      let enc := field_bits p (pos + 8) 8 in
      do t <- lau_text enc (firstn (Z.to_nat (n - 2)) (payload_bytes p (pos + 16) (present pos)));
      Ok (VText t, 8 * n).

  Definition spec_string_lz (pos : Z) : result value :=
    if p / 2 ^ pos =? 0 then Ok (VText [])
    else
      let n := field_bits p pos 8 in
      do t <- utf8_ignore (firstn (Z.to_nat n) (payload_bytes p (pos + 8) (present pos)));
      Ok (VText t).
  Definition lz_size (pos : Z) : Z := 8 * (field_bits p pos 8 + 2).

  Definition field_by_order (k : Z) : option dbfield := nth_error all (Z.to_nat (k - 1)).

  (* (value, raw value, size) of field f starting at bit pos; acc = the fields decoded before it *)
  Definition spec_value_var (pos : Z) (acc : list field) (f : dbfield) : result (value * value * Z) :=
    if negb (known_type f) then Err EUnsupported
    else if is_t f T_STRING_LAU then
      do r <- spec_string_lau pos; Ok (fst r, fst r, snd r)
    else if is_t f T_STRING_LZ then
      do v <- spec_string_lz pos;
      Ok (v, v, match f_bitlen f with Some l => l | None => lz_size pos end)
    else if is_t f T_INDIRECT then
      (* the pair (bits of the field named by IndirectOrder, own bits) in the two-key table *)
      match f_bitlen f, f_indirect f, f_indirect_order f with
      | Some len, Some t, Some k =>
          match field_by_order k with
          | Some r =>
              match f_bitoff r, f_bitlen r, find_tbl t LI with
              | Some offk, Some lenk, Some tb =>
                  let own := field_bits p pos len in
                  Ok (match get_zz (field_bits p offk lenk, own) tb with
                      | Some nm => VText (bytes_of_str nm) | None => VNone end, VInt own, len)
              | _, _, _ => Err EOther
              end
          | None => Err EOther
          end
      | _, _, _ => Err EOther
      end
    else
      match f_bitlen f with
      | Some len => do vr <- spec_value L LB p f pos len; Ok (fst vr, snd vr, len)
      | None =>
          if is_t f T_BINARY then
            (* length in bits = the decoded value of field number BitLengthField; a payload whose
               length field is not available (or not an integer) is refused *)
            match f_bitlenfield f with
            | Some k =>
                match nth_error acc (Z.to_nat (k - 1)) with
                | Some lf =>
                    match fl_val lf with
                    | VInt n => if n <? 0 then Err EOther
                                else let b := VBytes (int_to_bytes (field_bits p pos n)) in Ok (b, b, n)
                    | _ => Err EAssert
                    end
                | None => Err EOther
                end
            | None => Err EOther
            end
          else Err EOther
      end.

  Definition mk_field (f : dbfield) (v raw : value) : field :=
    mkField (field_id f) (f_name f) (f_descr f) (f_unit f) v raw (f_pq f) (f_type f)
            (match f_pk f with Some b => b | None => false end).

  (* use_db = true is the specification; use_db = false ignores every BitOffset (pure running
     position) and exists only to state spec_offsets_agree *)
  Definition start_of (use_db fixed : bool) (pos : Z) (f : dbfield) : Z :=
    match f_bitoff f with
    | Some off => if use_db && fixed then off else pos
    | None => pos
    end.

  Fixpoint spec_fields_gen (use_db : bool) (pos : Z) (fixed : bool) (acc : list field) (fs : list dbfield)
    : result (list field) :=
    match fs with
    | [] => Ok acc
    | f :: t =>
        let start := start_of use_db fixed pos f in
        do r <- spec_value_var start acc f;
        spec_fields_gen use_db (start + snd r) (fixed && fixed_size f)
                        (acc ++ [mk_field f (fst (fst r)) (snd (fst r))]) t
    end.

  Definition spec_fields_var := spec_fields_gen true.
End SpecVar.

Definition spec_decode_var (L LB : lookups) (LI : ilookups) (p : Z) (d : dbdef) : result msg :=
  do fs <- spec_fields_var L LB LI p (d_fields d) 0 true [] (d_fields d);
  Ok (mkMsg (d_pgn d) (d_id d) (d_descr d) (d_interval d) fs).

(* every BitOffset of the fixed-layout prefix equals the sum of the sizes before it *)
Fixpoint offsets_consistent (pos : Z) (fs : list dbfield) : bool :=
  match fs with
  | [] => true
  | f :: t =>
      match f_bitoff f with Some off => off =? pos | None => true end
      && (if fixed_size f
          then match f_bitlen f with Some l => offsets_consistent (pos + l) t | None => true end
          else true)
  end.

(* ---------------- the class of definitions covered by the theorem (SpecVarProofs.v) ---------------- *)
(* one field: fixed = no variable-size field before it, last = no field after it.
   - a BitOffset only in the fixed prefix (after a variable-size field the generated code would jump to
     the static offset, the specification stays at the running position);
   - STRING_LAU carries no BitLength (the template would add it on top of the announced length);
   - a STRING_LZ without BitLength and a BINARY with BitLengthField are the last field: the generated
     code does not advance past them (canboat: 8*(n+2) bits, resp. the announced number of bits);
   - BitLengthField names an earlier field;
   - INDIRECT_LOOKUP is treated by indirect_def below. *)
Definition var_field_ok (i : nat) (fixed last : bool) (f : dbfield) : bool :=
  match f_bitoff f with Some off => fixed && (0 <=? off) | None => true end
  && (if negb (known_type f) then true
      else if is_t f T_STRING_LAU then match f_bitlen f with None => true | Some _ => false end
      else if is_t f T_STRING_LZ then match f_bitlen f with Some l => 0 <=? l | None => last end
      else if is_t f T_INDIRECT then false
      else match f_bitlen f with
           | Some l => 1 <=? l
           | None => is_t f T_BINARY && last
                     && match f_bitlenfield f with
                        | Some k => (1 <=? k) && (k <=? Z.of_nat i)
                        | None => false
                        end
           end).

(* the template stops at the first field of a type it does not support: nothing is asked of later fields *)
Fixpoint var_fields_ok (i : nat) (fixed : bool) (fs : list dbfield) : bool :=
  match fs with
  | [] => true
  | f :: t =>
      var_field_ok i fixed (match t with [] => true | _ => false end) f
      && (if known_type f then var_fields_ok (S i) (fixed && fixed_size f) t else true)
  end.
Definition var_layout_def (d : dbdef) : bool := var_fields_ok 0 true (d_fields d).

(* ---- definitions carrying an INDIRECT_LOOKUP field ----
   The value of such a field is looked up under the pair (bits of the field named by
   LookupIndirectEnumerationFieldOrder, own bits). The specification above reads the other field's bits
   at its database position, so the class asks: every field has a known type, a database BitOffset and
   BitLength and is not a variable-length string; Order = place in the list; exactly one
   INDIRECT_LOOKUP field; it names a LATER field (the generated code resolves the value when it reaches
   that field; a reference backwards is never resolved by the template) whose raw value is its bits
   (LOOKUP, BITLOOKUP, RESERVED, SPARE). *)
Definition sint_type (f : dbfield) : bool :=
  is_t f T_LOOKUP || is_t f T_BITLOOKUP || is_t f T_RESERVED || is_t f T_SPARE.

Definition ifield_ok (i : nat) (f : dbfield) : bool :=
  (f_order f =? Z.of_nat i + 1) && known_type f
  && negb (is_t f T_STRING_LAU) && negb (is_t f T_STRING_LZ)
  && match f_bitoff f, f_bitlen f with Some off, Some len => (0 <=? off) && (1 <=? len) | _, _ => false end.

Fixpoint after_ok (i : nat) (fs : list dbfield) : bool :=
  match fs with
  | [] => true
  | f :: t => ifield_ok i f && negb (is_t f T_INDIRECT) && after_ok (S i) t
  end.

Fixpoint before_ok (all : list dbfield) (i : nat) (fs : list dbfield) : bool :=
  match fs with
  | [] => false            (* no INDIRECT_LOOKUP field: the definition belongs to var_layout_def *)
  | f :: t =>
      ifield_ok i f &&
      if is_t f T_INDIRECT then
        match f_indirect f, f_indirect_order f with
        | Some _, Some k =>
            (Z.of_nat i + 1 <? k)
            && match nth_error all (Z.to_nat (k - 1)) with
               | Some r => sint_type r
                           && match f_bitoff r, f_bitlen r with Some _, Some _ => true | _, _ => false end
               | None => false
               end
            && after_ok (S i) t
        | _, _ => false
        end
      else before_ok all (S i) t
  end.
Definition indirect_def (d : dbdef) : bool := before_ok (d_fields d) 0 (d_fields d).

(* the two-key table every INDIRECT_LOOKUP field names exists *)
Definition indirect_tables_ok (LI : ilookups) (d : dbdef) : bool :=
  forallb (fun f => if is_t f T_INDIRECT
                    then match f_indirect f with
                         | Some t => match find_tbl t LI with Some _ => true | None => false end
                         | None => false
                         end
                    else true) (d_fields d).

(* the class of the theorem def_ok_sound_var *)
Definition var_def (d : dbdef) : bool := var_layout_def d || indirect_def d.
