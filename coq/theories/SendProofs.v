(* SendProofs.v — invariants of the send LTS (SendModel.v) and the C19 statements. *)
From NV Require Import Base SendModel.

Lemma nth_error_upd_same {A} (l : list A) i v x : nth_error l i = Some x -> nth_error (upd i v l) i = Some v.
Proof.
  revert i. induction l as [|h t IH]; intros [|i]; simpl; intros H; try discriminate; [reflexivity|].
  apply IH. exact H.
Qed.

Lemma nth_error_upd_other {A} (l : list A) i j v : i <> j -> nth_error (upd i v l) j = nth_error l j.
Proof.
  revert i j. induction l as [|h t IH]; intros [|i] [|j] H; simpl; try reflexivity; try congruence.
  apply IH. congruence.
Qed.

Lemma length_upd {A} (l : list A) i v : length (upd i v l) = length l.
Proof. revert i. induction l as [|h t IH]; intros [|i]; simpl; auto. Qed.

(* ------------------------------------------------------------------ interleaving on sender lists *)
Lemma not_interleaved_nil : ~ interleaved [].
Proof. intros (i & j & a & b & c & d & _ & H). destruct a; discriminate. Qed.

Lemma not_interleaved_cons h s :
  ~ interleaved s -> (~ In h s \/ hd_error s = Some h) -> ~ interleaved (h :: s).
Proof.
  intros N Hh (i & j & a & b & c & d & Hij & H).
  destruct a as [|x a]; simpl in H; inversion H; subst; clear H.
  - assert (I : In i (b ++ j :: c ++ i :: d)).
    { apply in_or_app. right. right. apply in_or_app. right. left. reflexivity. }
    destruct Hh as [Hh|Hh]; [exact (Hh I)|].
    destruct b as [|y b]; simpl in Hh; inversion Hh; subst; [congruence|].
    apply N. exists i, j, [], b, c, d. split; [exact Hij | reflexivity].
  - apply N. exists i, j, a, b, c, d. split; [exact Hij | reflexivity].
Qed.

Section Proofs.
Variables E M : Type.
Variable encode : E -> M -> E * enc_outcome.

Notation g := (g E M).
Notation spc := (spc E M).
Notation enc_of := (enc_of E M encode).

(* ------------------------------------------------------------------ small facts *)
Lemma set_state_core (x : g) s :
  pcs (set_state E M x s) = pcs x /\ lockh (set_state E M x s) = lockh x /\ log (set_state E M x s) = log x /\
  wr (set_state E M x s) = wr x /\ encst (set_state E M x s) = encst x /\ pend (set_state E M x s) = pend x /\
  has_cb (set_state E M x s) = has_cb x /\ next_w (set_state E M x s) = next_w x.
Proof. unfold set_state. destruct (cst_eqb (st x) s); simpl; repeat split; reflexivity. Qed.

Lemma set_state_st (x : g) s : st (set_state E M x s) = s.
Proof.
  unfold set_state. destruct (cst_eqb (st x) s) eqn:Eq; [|reflexivity].
  destruct (st x), s; simpl in Eq; congruence.
Qed.

Lemma fault_facts (x : g) c cb y pc' : fault E M x c cb = (y, pc') ->
  log y = log x /\ lockh y = lockh x /\ pcs y = pcs x /\ wr y = wr x /\ encst y = encst x /\
  holds E M pc' = false /\ fresh E M pc' = false /\
  (pc' = SFaultCb c \/ pc' = SDone c OFault \/ pc' = SDone c OFaultClosed).
Proof.
  unfold fault. destruct (set_state_core x Disc) as (A1 & A2 & A3 & A4 & A5 & _).
  destruct (st x).
  - intros H; inversion H; subst; simpl. repeat split; auto.
  - destruct (has_cb x); [destruct cb|]; intros H; inversion H; subst; simpl; repeat split; auto.
  - intros H; inversion H; subst; simpl. repeat split; auto.
Qed.

Lemma finish_facts (x : g) c rest y pc' : finish_or_continue E M x c rest = (y, pc') ->
  log y = log x /\ pcs y = pcs x /\ wr y = wr x /\ encst y = encst x /\ st y = st x /\ pend y = pend x /\
  trace y = trace x /\
  ((rest = [] /\ pc' = SDone c OSent /\ lockh y = None) \/ (rest <> [] /\ pc' = SWrite c rest /\ lockh y = lockh x)).
Proof.
  unfold finish_or_continue. destruct rest; intros H; inversion H; subst; simpl; repeat split; auto.
  right. repeat split; auto. discriminate.
Qed.

(* ------------------------------------------------------------------ the lock invariant (repaired code) *)
Notation sender_step := (sender_step E M encode true).
Notation step := (step E M encode true).
Notation run := (run E M encode true).

Ltac fin := repeat split; intros; try discriminate; try congruence; eauto 7.

Lemma sender_step_facts (x : g) i pc a y pc' : sender_step x i pc a = Some (y, pc') ->
  pcs y = pcs x /\
  (log y = log x \/ (exists w p, log y = (i, w, p) :: log x /\ holds E M pc = true)) /\
  (holds E M pc' = true -> lockh y = Some i \/ (holds E M pc = true /\ lockh y = lockh x)) /\
  (holds E M pc = false -> lockh y = lockh x \/ lockh x = None) /\
  (lockh y = lockh x \/ lockh y = None \/ (lockh y = Some i /\ fresh E M pc = true /\ log y = log x)) /\
  (fresh E M pc' = true -> fresh E M pc = true /\ log y = log x).
Proof.
  destruct a; destruct pc; simpl; try discriminate.
  - (* AStart *)
    destruct (encode (encst x) m) as [e' o]. destruct o.
    + simpl. destruct (wr x).
      * intros H; inversion H; subst; simpl. fin.
      * intros H. inversion H as [H1]. apply fault_facts in H1. destruct H1 as (A1 & A2 & A3 & _ & _ & A6 & A7 & _).
        simpl in *. rewrite A6, A7. fin.
    + intros H; inversion H; subst; simpl. fin.
    + intros H. inversion H as [H1]. apply fault_facts in H1. destruct H1 as (A1 & A2 & A3 & _ & _ & A6 & A7 & _).
      simpl in *. rewrite A6, A7. fin.
  - (* AAcquire *)
    destruct (lockh x) eqn:L; [discriminate|]. destruct ps.
    + intros H; inversion H; subst; simpl. rewrite L. fin.
    + intros H; inversion H; subst; simpl. fin.
  - (* AWrite *)
    destruct rest as [|p rest]; [discriminate|]. destruct (wr x) as [w|].
    + destruct r.
      * intros H. inversion H as [H1]. apply fault_facts in H1. destruct H1 as (A1 & A2 & A3 & _ & _ & A6 & A7 & _).
        simpl in *. rewrite A6, A7, A2. fin.
      * intros H. inversion H as [H1]. apply finish_facts in H1.
        destruct H1 as (A1 & A2 & _ & _ & _ & _ & _ & [(B1 & B2 & B3) | (B1 & B2 & B3)]); subst pc'; simpl in *;
          rewrite A1, B3; fin.
      * intros H; inversion H; subst; simpl. fin.
      * intros H. inversion H as [H1]. apply fault_facts in H1. destruct H1 as (A1 & A2 & A3 & _ & _ & A6 & A7 & _).
        simpl in *. rewrite A6, A7, A2, A1. fin.
    + intros H. inversion H as [H1]. apply fault_facts in H1. destruct H1 as (A1 & A2 & A3 & _ & _ & A6 & A7 & _).
      simpl in *. rewrite A6, A7, A2. fin.
  - (* ADrained *)
    destruct ok.
    + intros H. inversion H as [H1]. apply finish_facts in H1.
      destruct H1 as (A1 & A2 & _ & _ & _ & _ & _ & [(B1 & B2 & B3) | (B1 & B2 & B3)]); subst pc'; simpl in *;
        rewrite B3; fin.
    + intros H. inversion H as [H1]. apply fault_facts in H1. destruct H1 as (A1 & A2 & A3 & _ & _ & A6 & A7 & _).
      simpl in *. rewrite A6, A7, A2. fin.
  - (* AFaultCbDone *)
    intros H; inversion H; subst; simpl. fin.
Qed.

(* a sender past SWrite/SDrain holds the lock, so: *)
Lemma sender_step_holder (x : g) i pc a y pc' : sender_step x i pc a = Some (y, pc') ->
  holds E M pc = true -> lockh x = Some i -> lockh y = None \/ lockh y = Some i.
Proof.
  intros H Hh L. destruct (sender_step_facts _ _ _ _ _ _ H) as (_ & _ & _ & _ & F & _).
  destruct F as [F | [F | (F & Fr & _)]]; [right; congruence | left; exact F | right; exact F].
Qed.

Definition inv (x : g) : Prop :=
  (forall i pc, nth_error (pcs x) i = Some pc -> holds E M pc = true -> lockh x = Some i) /\
  (forall h, lockh x = Some h -> ~ In h (senders (log x)) \/ hd_error (senders (log x)) = Some h) /\
  (forall i pc, nth_error (pcs x) i = Some pc -> fresh E M pc = true -> ~ In i (senders (log x))) /\
  ~ interleaved (senders (log x)).

Lemma inv_core (x y : g) : pcs y = pcs x -> lockh y = lockh x -> log y = log x -> inv x -> inv y.
Proof. unfold inv. intros -> -> ->. tauto. Qed.

Lemma step_inv (x x' : g) l : step x l = Some x' -> inv x -> inv x'.
Proof.
  destruct l as [i a| |]; simpl.
  - destruct (nth_error (pcs x) i) as [pc|] eqn:P; [|discriminate].
    destruct (sender_step x i pc a) as [[y pc']|] eqn:S; [|discriminate].
    intros H; inversion H; subst; clear H. intros (Ia & Ib & Ic & Id).
    destruct (sender_step_facts _ _ _ _ _ _ S) as (Fp & Fl & F1 & F2 & F4 & F5).
    unfold inv. simpl. rewrite Fp.
    assert (Hold : holds E M pc = true -> lockh x = Some i) by (intros; eapply Ia; eassumption).
    (* the new sender list *)
    assert (Snd : senders (log y) = senders (log x) \/
                  (senders (log y) = i :: senders (log x) /\ holds E M pc = true)).
    { destruct Fl as [-> | (w & p & -> & Hh)]; [left; reflexivity | right; split; [reflexivity | exact Hh]]. }
    split; [|split; [|split]].
    + (* (a) *)
      intros j pcj Hj Hhj. destruct (Nat.eq_dec i j) as [->|Ne].
      * rewrite (nth_error_upd_same _ _ _ _ P) in Hj. inversion Hj; subst.
        destruct (F1 Hhj) as [F | (Fh & F)]; [exact F | rewrite F; apply Hold; exact Fh].
      * rewrite nth_error_upd_other in Hj by exact Ne.
        pose proof (Ia _ _ Hj Hhj) as Lj.
        destruct (holds E M pc) eqn:Hp.
        -- rewrite (Hold eq_refl) in Lj. congruence.
        -- destruct (F2 eq_refl) as [F|F]; congruence.
    + (* (b) *)
      intros h Lh. destruct Snd as [-> | (-> & Hp)].
      * destruct F4 as [F | [F | (F & Fr & Fg)]].
        -- apply Ib. congruence.
        -- congruence.
        -- rewrite F in Lh. inversion Lh; subst. left. eapply Ic; eassumption.
      * right. simpl. pose proof (Hold Hp) as Lx.
        destruct (sender_step_holder _ _ _ _ _ _ S Hp Lx) as [F|F]; congruence.
    + (* (c) *)
      intros j pcj Hj Hfj. destruct (Nat.eq_dec i j) as [->|Ne].
      * rewrite (nth_error_upd_same _ _ _ _ P) in Hj. inversion Hj; subst.
        destruct (F5 Hfj) as [Fr Fg]. rewrite Fg. eapply Ic; eassumption.
      * rewrite nth_error_upd_other in Hj by exact Ne.
        pose proof (Ic _ _ Hj Hfj) as Nj.
        destruct Snd as [-> | (-> & _)]; [exact Nj|]. simpl. intros [X|X]; [congruence | exact (Nj X)].
    + (* (d) *)
      destruct Snd as [-> | (-> & Hp)]; [exact Id|].
      apply not_interleaved_cons; [exact Id|]. apply Ib. apply Hold. exact Hp.
  - destruct (st x); try discriminate; intros H; inversion H; subst; clear H;
      (apply inv_core; unfold reconnect; simpl; apply set_state_core).
  - intros H; inversion H; subst; clear H. apply inv_core; apply set_state_core.
Qed.

Definition initial (x : g) : Prop :=
  log x = [] /\ lockh x = None /\ Forall (fun p => exists m, p = SNew m) (pcs x).

Lemma init_initial s w e cb ms : initial (init E M s w e cb ms).
Proof.
  unfold initial, init. simpl. repeat split. apply Forall_forall. intros p H. apply in_map_iff in H.
  destruct H as (m & <- & _). eauto.
Qed.

Lemma initial_inv x : initial x -> inv x.
Proof.
  intros (L & K & F). unfold inv. rewrite L, K. simpl. repeat split.
  - intros i pc Hn Hh. apply nth_error_In in Hn. rewrite Forall_forall in F. destruct (F _ Hn) as [m ->]. discriminate.
  - discriminate.
  - tauto.
  - apply not_interleaved_nil.
Qed.

Lemma run_inv ls : forall x y, run x ls = Some y -> inv x -> inv y.
Proof.
  induction ls as [|l t IH]; simpl; intros x y H I.
  - inversion H; subst; exact I.
  - destruct (step x l) as [z|] eqn:S; [|discriminate]. eapply IH; [exact H|]. eapply step_inv; eassumption.
Qed.

Theorem contiguous x ls y : initial x -> run x ls = Some y -> ~ interleaved (senders (log y)).
Proof. intros I R. apply (run_inv _ _ _ R (initial_inv _ I)). Qed.

(* only the lock holder writes *)
Theorem writer_holds_lock x ls y i w p rest :
  initial x -> run x ls = Some y -> nth_error (pcs y) i = Some (SWrite w (p :: rest)) -> lockh y = Some i.
Proof.
  intros I R H. destruct (run_inv _ _ _ R (initial_inv _ I)) as (Ia & _). eapply Ia; [exact H | reflexivity].
Qed.

End Proofs.

(* ------------------------------------------------------------------ exactness (with or without the lock) *)
Section Exact.
Variables E M : Type.
Variable encode : E -> M -> E * enc_outcome.
Variable uselock : bool.

Notation g := (g E M).
Notation spc := (spc E M).
Notation enc_of := (enc_of E M encode).
Notation sender_step := (sender_step E M encode uselock).
Notation step := (step E M encode uselock).
Notation run := (run E M encode uselock).

(* what a program counter says about the packets this send has written so far *)
Definition pc_ok (pc : spc) (s : list pkt) : Prop :=
  match pc with
  | SNew _ => s = []
  | SWaitLock c ps => enc_of c = EncOk ps /\ s = []
  | SWrite c rest | SDrain c rest => enc_of c = EncOk (s ++ rest)
  | SDone c OSent => enc_of c = EncOk s
  | SDone c OEncFail => enc_of c = EncValueError /\ s = []
  | SFaultCb c | SDone c OFault | SDone c OFaultClosed =>
      (enc_of c = EncOther /\ s = []) \/ (exists rest, enc_of c = EncOk (s ++ rest))
  end.

Definition inv_exact (x : g) : Prop :=
  forall i pc, nth_error (pcs x) i = Some pc -> pc_ok pc (sent i (log x)).

Lemma sent_cons_same i w p lg : sent i ((i, w, p) :: lg) = sent i lg ++ [p].
Proof. simpl. rewrite Nat.eqb_refl. reflexivity. Qed.
Lemma sent_cons_other i j w p lg : i <> j -> sent j ((i, w, p) :: lg) = sent j lg.
Proof. intros H. simpl. apply Nat.eqb_neq in H. rewrite H. reflexivity. Qed.

Lemma fault_exact (z : g) c cb y pc' i : fault E M z c cb = (y, pc') ->
  ((enc_of c = EncOther /\ sent i (log z) = []) \/ (exists rest, enc_of c = EncOk (sent i (log z) ++ rest))) ->
  pc_ok pc' (sent i (log y)) /\ log y = log z /\ pcs y = pcs z.
Proof.
  intros H K. apply fault_facts in H. destruct H as (A1 & _ & A3 & _ & _ & _ & _ & [-> | [-> | ->]]);
    rewrite A1; simpl; auto.
Qed.

Lemma finish_exact (z : g) c rest y pc' i : finish_or_continue E M z c rest = (y, pc') ->
  enc_of c = EncOk (sent i (log z) ++ rest) ->
  pc_ok pc' (sent i (log y)) /\ log y = log z /\ pcs y = pcs z.
Proof.
  unfold finish_or_continue. destruct rest; intros H K; inversion H; subst; simpl; repeat split; auto.
  rewrite app_nil_r in K. exact K.
Qed.

Lemma sender_step_exact (x : g) i pc a y pc' :
  sender_step x i pc a = Some (y, pc') -> pc_ok pc (sent i (log x)) ->
  pc_ok pc' (sent i (log y)) /\ (forall j, j <> i -> sent j (log y) = sent j (log x)) /\ pcs y = pcs x.
Proof.
  destruct a; destruct pc; simpl; try discriminate.
  - (* AStart *)
    intros H S0.
    assert (Eo : enc_of (encst x, m) = snd (encode (encst x) m)) by reflexivity.
    destruct (encode (encst x) m) as [e' o]. simpl in Eo. destruct o.
    + simpl in H. destruct (wr x).
      * destruct uselock.
        -- inversion H; subst; simpl. rewrite S0. auto.
        -- destruct ps; inversion H; subst; simpl; rewrite S0; auto.
      * injection H as H. destruct (fault_exact _ _ _ _ _ i H) as (A & B & C).
        { right. exists ps. simpl. rewrite S0. exact Eo. }
        rewrite B, C. simpl. rewrite B in A. auto.
    + inversion H; subst; simpl. rewrite S0. auto.
    + injection H as H. destruct (fault_exact _ _ _ _ _ i H) as (A & B & C).
      { left. simpl. auto. }
      rewrite B, C. simpl. rewrite B in A. auto.
  - (* AAcquire *)
    intros H (K1 & K2). destruct (lockh x); [discriminate|].
    destruct ps; inversion H; subst; simpl; rewrite K2; auto.
  - (* AWrite *)
    destruct rest as [|p rest]; [discriminate|]. intros H K. destruct (wr x) as [w|].
    + destruct r.
      * injection H as H. destruct (fault_exact _ _ _ _ _ i H) as (A & B & C).
        { right. eexists. simpl. exact K. }
        rewrite B, C. simpl. rewrite B in A. auto.
      * injection H as H. destruct (finish_exact _ _ _ _ _ i H) as (A & B & C).
        { simpl. rewrite Nat.eqb_refl, <- app_assoc. exact K. }
        rewrite B, C. rewrite B in A. simpl pcs. repeat split; auto.
        intros j Hj. apply sent_cons_other. congruence.
      * inversion H; subst; simpl. rewrite Nat.eqb_refl. rewrite <- app_assoc. repeat split; auto.
        intros j Hj. apply Nat.eqb_neq in Hj. rewrite Nat.eqb_sym, Hj. reflexivity.
      * injection H as H. destruct (fault_exact _ _ _ _ _ i H) as (A & B & C).
        { right. exists rest. simpl. rewrite Nat.eqb_refl, <- app_assoc. exact K. }
        rewrite B, C. rewrite B in A. simpl pcs. repeat split; auto.
        intros j Hj. simpl log. apply sent_cons_other. congruence.
    + injection H as H. destruct (fault_exact _ _ _ _ _ i H) as (A & B & C).
      { right. eexists. simpl. exact K. }
      rewrite B, C. simpl. rewrite B in A. auto.
  - (* ADrained *)
    intros H K. destruct ok.
    + injection H as H. destruct (finish_exact _ _ _ _ _ i H K) as (A & B & C).
      rewrite B, C. rewrite B in A. auto.
    + injection H as H. destruct (fault_exact _ _ _ _ _ i H) as (A & B & C).
      { right. eexists. simpl. exact K. }
      rewrite B, C. simpl. rewrite B in A. auto.
  - (* AFaultCbDone *)
    intros H K. inversion H; subst; simpl. auto.
Qed.

Lemma step_exact (x x' : g) l : step x l = Some x' -> inv_exact x -> inv_exact x'.
Proof.
  destruct l as [i a| |]; simpl.
  - destruct (nth_error (pcs x) i) as [pc|] eqn:P; [|discriminate].
    destruct (sender_step x i pc a) as [[y pc']|] eqn:S; [|discriminate].
    intros H I; inversion H; subst; clear H.
    destruct (sender_step_exact _ _ _ _ _ _ S (I _ _ P)) as (A & B & C).
    intros j pcj Hj. simpl in *. rewrite C in Hj. destruct (Nat.eq_dec i j) as [->|Ne].
    + rewrite (nth_error_upd_same _ _ _ _ P) in Hj. inversion Hj; subst. exact A.
    + rewrite nth_error_upd_other in Hj by exact Ne. rewrite B by congruence. apply I. exact Hj.
  - destruct (st x); try discriminate; intros H I; inversion H; subst; clear H;
      intros j pcj Hj; unfold reconnect in *; simpl in *;
      destruct (set_state_core E M x Conn) as (A1 & _ & A3 & _); rewrite A1 in Hj; rewrite A3; apply I; exact Hj.
  - intros H I; inversion H; subst; clear H. intros j pcj Hj.
    destruct (set_state_core E M x Closed) as (A1 & _ & A3 & _). rewrite A1 in Hj. rewrite A3. apply I. exact Hj.
Qed.

Lemma initial_exact x : initial E M x -> inv_exact x.
Proof.
  intros (L & _ & F) i pc Hn. rewrite L. apply nth_error_In in Hn. rewrite Forall_forall in F.
  destruct (F _ Hn) as [m ->]. reflexivity.
Qed.

Lemma run_exact ls : forall x y, run x ls = Some y -> inv_exact x -> inv_exact y.
Proof.
  induction ls as [|l t IH]; simpl; intros x y H I.
  - inversion H; subst; exact I.
  - destruct (step x l) as [z|] eqn:S; [|discriminate]. eapply IH; [exact H|]. eapply step_exact; eassumption.
Qed.

(* a completed send has written exactly the encoder's packets for its message, in order;
   a send in flight or faulted has written a prefix; a failed encoding has written nothing *)
Theorem exact x ls y i pc : initial E M x -> run x ls = Some y -> nth_error (pcs y) i = Some pc ->
  match pc with
  | SDone c OSent => enc_of c = EncOk (sent i (log y))
  | SDone c OEncFail => enc_of c = EncValueError /\ sent i (log y) = []
  | SNew _ | SWaitLock _ _ => sent i (log y) = []
  | SWrite c rest | SDrain c rest => enc_of c = EncOk (sent i (log y) ++ rest)
  | SFaultCb c | SDone c _ =>
      (enc_of c = EncOther /\ sent i (log y) = []) \/ exists rest, enc_of c = EncOk (sent i (log y) ++ rest)
  end.
Proof.
  intros I R H. pose proof (run_exact _ _ _ R (initial_exact _ I) _ _ H) as K.
  destruct pc as [| | | | |c o]; simpl in K; try tauto; try (destruct o; tauto).
Qed.

(* the call recorded in a program counter is the encoder's own outcome at the moment send() ran *)
Lemma start_records_call (x : g) i m cb y pc' :
  sender_step x i (SNew m) (AStart cb) = Some (y, pc') ->
  encst y = fst (encode (encst x) m) /\
  match pc' with
  | SWaitLock c _ | SWrite c _ | SDrain c _ | SFaultCb c | SDone c _ => c = (encst x, m)
  | SNew _ => False
  end.
Proof.
  simpl. destruct (encode (encst x) m) as [e' o]. destruct o.
  - simpl. destruct (wr x).
    + destruct uselock; [|destruct ps]; intros H; inversion H; subst; simpl; auto.
    + intros H; inversion H as [H1]. apply fault_facts in H1. simpl in H1.
      destruct H1 as (_ & _ & _ & _ & A & _ & _ & [-> | [-> | ->]]); auto.
  - intros H; inversion H; subst; simpl; auto.
  - intros H; inversion H as [H1]. apply fault_facts in H1. simpl in H1.
    destruct H1 as (_ & _ & _ & _ & A & _ & _ & [-> | [-> | ->]]); auto.
Qed.

(* ------------------------------------------------------------------ bad messages are harmless *)
Theorem bad_message (x x' : g) i m cb :
  nth_error (pcs x) i = Some (SNew m) -> snd (encode (encst x) m) = EncValueError ->
  step x (LSend i (AStart cb)) = Some x' ->
  log x' = log x /\ st x' = st x /\ wr x' = wr x /\ next_w x' = next_w x /\ lockh x' = lockh x /\
  pend x' = pend x /\ trace x' = trace x /\ has_cb x' = has_cb x /\
  pcs x' = upd i (SDone (encst x, m) OEncFail) (pcs x) /\
  (forall j, j <> i -> nth_error (pcs x') j = nth_error (pcs x) j) /\
  (forall a, step x' (LSend i a) = None).
Proof.
  intros P Ev. simpl. rewrite P. simpl. destruct (encode (encst x) m) as [e' o]. simpl in Ev. subst o.
  intros H; inversion H; subst; clear H. simpl. repeat split.
  - intros j Hj. apply nth_error_upd_other. congruence.
  - intros a. rewrite (nth_error_upd_same _ _ _ _ P). destruct a; reflexivity.
Qed.

(* a client without an encoder (Actisense, repaired: its failure is an encoding failure) *)
Definition no_encoder_outcome : Prop := forall e m, snd (encode e m) = EncValueError.

Corollary bad_message_no_encoder (x x' : g) i m cb : no_encoder_outcome ->
  nth_error (pcs x) i = Some (SNew m) -> step x (LSend i (AStart cb)) = Some x' ->
  log x' = log x /\ st x' = st x /\ wr x' = wr x /\ lockh x' = lockh x /\ pend x' = pend x /\ trace x' = trace x /\
  (forall j, j <> i -> nth_error (pcs x') j = nth_error (pcs x) j) /\ (forall a, step x' (LSend i a) = None).
Proof.
  intros N P S. destruct (bad_message x x' i m cb P (N _ _) S) as (A1 & A2 & A3 & _ & A5 & A6 & A7 & _ & _ & A10 & A11).
  repeat split; assumption.
Qed.

(* a finished send never acts again *)
Lemma done_is_final (x : g) i c o a : nth_error (pcs x) i = Some (SDone c o) -> step x (LSend i a) = None.
Proof. intros P. simpl. rewrite P. destruct a; reflexivity. Qed.

(* ------------------------------------------------------------------ write faults *)
Definition is_write_fault (a : saction) : bool :=
  match a with AWrite WRaise _ | AWrite DrRaise _ | ADrained false _ => true | _ => false end.

Lemma fault_effect (x : g) c cb y pc' : fault E M x c cb = (y, pc') ->
  match st x with
  | Closed => y = x /\ pc' = SDone c OFaultClosed
  | Disc => st y = Disc /\ trace y = trace x /\ pend y = S (pend x) /\ pc' = SDone c OFault
  | Conn => st y = Disc /\ trace y = (if has_cb x then Disc :: trace x else trace x) /\
            ((pend y = S (pend x) /\ pc' = SDone c OFault) \/
             (pend y = pend x /\ pc' = SFaultCb c /\ has_cb x = true /\ cb = CbSusp))
  end.
Proof.
  unfold fault. destruct (st x) eqn:S.
  - intros H; inversion H; subst; simpl. auto.
  - assert (Y : set_state E M x Disc =
                {| st := Disc; wr := wr x; next_w := next_w x; lockh := lockh x; pcs := pcs x; encst := encst x;
                   log := log x; pend := pend x; trace := (if has_cb x then Disc :: trace x else trace x); has_cb := has_cb x |}).
    { unfold set_state. rewrite S. reflexivity. }
    rewrite Y. destruct (has_cb x) eqn:Hc; [destruct cb|]; intros H; inversion H; subst; simpl;
      (split; [reflexivity|]); (split; [reflexivity|]); [left | right | left]; repeat split; auto.
  - intros H; inversion H; subst; simpl. auto.
Qed.

Theorem write_fault (x x' : g) i pc a :
  nth_error (pcs x) i = Some pc -> is_write_fault a = true -> step x (LSend i a) = Some x' ->
  lockh x' = None /\
  exists c pc', nth_error (pcs x') i = Some pc' /\
  match st x with
  | Closed => st x' = Closed /\ pend x' = pend x /\ trace x' = trace x /\ pc' = SDone c OFaultClosed
  | Disc => st x' = Disc /\ trace x' = trace x /\ pend x' = S (pend x) /\ pc' = SDone c OFault
  | Conn => st x' = Disc /\ trace x' = (if has_cb x then Disc :: trace x else trace x) /\
            ((pend x' = S (pend x) /\ pc' = SDone c OFault) \/
             (pend x' = pend x /\ pc' = SFaultCb c /\
              forall x'', step x' (LSend i AFaultCbDone) = Some x'' ->
                          pend x'' = S (pend x') /\ st x'' = st x' /\ nth_error (pcs x'') i = Some (SDone c OFault)))
  end.
Proof.
  intros P W. simpl. rewrite P.
  assert (K : forall (z : g) c cb y pc', st z = st x -> pend z = pend x -> trace z = trace x -> lockh z = None ->
              pcs z = pcs x -> has_cb z = has_cb x -> fault E M z c cb = (y, pc') ->
              lockh (with_pcs E M y (upd i pc' (pcs y))) = None /\
              exists c0 pc0, nth_error (pcs (with_pcs E M y (upd i pc' (pcs y)))) i = Some pc0 /\
              match st x with
              | Closed => st y = Closed /\ pend y = pend x /\ trace y = trace x /\ pc0 = SDone c0 OFaultClosed
              | Disc => st y = Disc /\ trace y = trace x /\ pend y = S (pend x) /\ pc0 = SDone c0 OFault
              | Conn => st y = Disc /\ trace y = (if has_cb x then Disc :: trace x else trace x) /\
                        ((pend y = S (pend x) /\ pc0 = SDone c0 OFault) \/
                         (pend y = pend x /\ pc0 = SFaultCb c0 /\
                          forall x'', SendModel.step E M encode uselock (with_pcs E M y (upd i pc' (pcs y)))
                                         (LSend i AFaultCbDone) = Some x'' ->
                                      pend x'' = S (pend y) /\ st x'' = st y /\
                                      nth_error (pcs x'') i = Some (SDone c0 OFault)))
              end).
  { intros z c cb y pc' Z1 Z2 Z3 Z4 Z5 Z6 F. pose proof (fault_facts _ _ _ _ _ _ _ F) as (_ & L & Pc & _).
    pose proof (fault_effect _ _ _ _ _ F) as Ef. simpl. split; [congruence|].
    assert (N : nth_error (upd i pc' (pcs y)) i = Some pc').
    { rewrite Pc, Z5. eapply nth_error_upd_same. exact P. }
    exists c, pc'. split; [exact N|]. rewrite Z1 in Ef. destruct (st x).
    - destruct Ef as (A & B & C0 & Dd). repeat split; congruence.
    - destruct Ef as (A & B & Cs). rewrite Z6, Z3 in B. split; [exact A|]. split; [exact B|].
      destruct Cs as [(C0 & Dd) | (C0 & Dd & _)].
      + left. split; congruence.
      + right. split; [congruence|]. split; [exact Dd|].
        intros x''. simpl. rewrite N. rewrite Dd. simpl. intros H; inversion H; subst; clear H. simpl.
        repeat split. eapply nth_error_upd_same. exact N.
    - destruct Ef as (-> & Dd). repeat split; congruence. }
  destruct a as [| |r cb|ok cb|]; try discriminate; destruct pc; simpl; try discriminate.
  - destruct rest as [|p rest]; [discriminate|]. destruct (wr x) as [w|]; destruct r; try discriminate.
    + destruct (fault E M (release E M x) c cb) as [y pc'] eqn:F. intros H; inversion H; subst; clear H.
      eapply K; [| | | | | |exact F]; reflexivity.
    + destruct (fault E M (release E M (add_log E M x i w p)) c cb) as [y pc'] eqn:F.
      intros H; inversion H; subst; clear H. eapply K; [| | | | | |exact F]; reflexivity.
    + destruct (fault E M (release E M x) c cb) as [y pc'] eqn:F. intros H; inversion H; subst; clear H.
      eapply K; [| | | | | |exact F]; reflexivity.
    + destruct (fault E M (release E M x) c cb) as [y pc'] eqn:F. intros H; inversion H; subst; clear H.
      eapply K; [| | | | | |exact F]; reflexivity.
  - destruct ok; [discriminate|].
    destruct (fault E M (release E M x) c cb) as [y pc'] eqn:F. intros H; inversion H; subst; clear H.
    eapply K; [| | | | | |exact F]; reflexivity.
Qed.

End Exact.

(* ------------------------------------------------------------------ the code as it was: no lock *)
(* two senders, two packets each, drain suspends after each first packet: the log interleaves 0,1,0,1 *)
Definition demo_encode (e : unit) (m : nat) : unit * enc_outcome :=
  (tt, EncOk [[Z.of_nat m; 1]; [Z.of_nat m; 2]]).
Definition demo_run : list label :=
  [LSend 0 (AStart CbNow); LSend 0 (AWrite DrSusp CbNow); LSend 1 (AStart CbNow); LSend 1 (AWrite DrSusp CbNow);
   LSend 0 (ADrained true CbNow); LSend 0 (AWrite DrRet CbNow); LSend 1 (ADrained true CbNow);
   LSend 1 (AWrite DrRet CbNow)].

Example unlocked_interleaves :
  exists y, run unit nat demo_encode false (init unit nat Conn (Some 0%nat) tt true [0%nat; 1%nat]) demo_run = Some y /\
            rev (senders (log y)) = [0; 1; 0; 1]%nat /\ interleaved (senders (log y)).
Proof.
  eexists. split; [vm_compute; reflexivity|]. split; [reflexivity|].
  exists 1%nat, 0%nat, [], [], [], [0%nat]. split; [discriminate | reflexivity].
Qed.

(* the same schedule is not a run of the repaired code: sender 1 must wait for the lock *)
Example locked_rejects_demo :
  run unit nat demo_encode true (init unit nat Conn (Some 0%nat) tt true [0%nat; 1%nat]) demo_run = None.
Proof. vm_compute. reflexivity. Qed.

(* a client without an encoder (Actisense, repaired: the failure is an encoding failure) *)
Definition no_encoder {E M} (e : E) (_ : M) : E * enc_outcome := (e, EncValueError).
