(* AssembledInst.v — the abstract segmenter / reassembler of WireProofs.assembled (C07, second sentence)
   instantiated with the concrete fast-packet functions of FastPacket.v (C03): no abstract hypothesis is left.

     seg seq payload = FastPacket.segment seq payload                      (encoder, wire byte order)
     reasm datas     = what the reassembly state machine `run`, started from a fresh record with a PGN decode
                       function that always returns, delivers at the LAST frame of `datas`, provided every
                       earlier frame returned None without calling the decode function.  `datas` are the
                       `can_data` arguments of successive `_decode` calls, i.e. each frame REVERSED (every
                       front-end reverses the data); the model `run` works in wire order, hence `map rev`.
                       The result is the argument of _call_decode_function: the payload reversed.

   WireProofs.assembled quantifies its two hypotheses over ALL payloads, and a fast packet carries at most 223
   bytes; its proof uses them only at the payload in question, so `assembled_at` repeats that proof with the
   hypotheses taken at that payload, and `assembled_fastpacket` discharges them from C03 (segment_shape,
   inverse_run) under the extra hypothesis zlen payload <= 223. *)
From NV Require Import Base Header PyText Wire WireProofs FastPacket.
From NV Require FastPacketProofs.

(* ------------------------------------------------------------------------------------------------ *)
(** * The concrete pair *)

Definition seg (seq : Z) (payload : list Z) : list (list Z) := segment seq payload.

Definition is_nothing (o : out) : bool := match o with Nothing => true | _ => false end.

Definition reasm (datas : list (list Z)) : option (list Z) :=
  match rev (snd (run (fun _ => true) None (map (@rev Z) datas))) with
  | Deliver p :: earlier => if forallb is_nothing earlier then Some (rev p) else None
  | _ => None
  end.

(* ------------------------------------------------------------------------------------------------ *)
(** * H1: the frames of a byte payload are byte strings *)

Lemma bytes_ok_cons b l : bytes_ok (b :: l) = byte_ok b && bytes_ok l.
Proof. reflexivity. Qed.

Lemma bytes_ok_concat cs : bytes_ok (concat cs) = true -> Forall (fun c => bytes_ok c = true) cs.
Proof.
  induction cs as [|c t IH]; intros H; [constructor|].
  cbn [concat] in H. rewrite bytes_ok_app in H. apply andb_true_iff in H. destruct H as [Hc Ht].
  constructor; [exact Hc | apply IH; exact Ht].
Qed.

Lemma number_bytes_ok seq : 0 <= seq < 8 -> forall cs k, 0 <= k -> k + zlen cs <= 32 ->
  Forall (fun c => bytes_ok c = true) cs ->
  Forall (fun f => bytes_ok f = true) (FastPacketProofs.number k seq cs).
Proof.
  intros Hs. induction cs as [|c t IH]; intros k Hk Hl HF; cbn [FastPacketProofs.number]; [constructor|].
  inversion HF as [|? ? Hc Ht]; subst.
  assert (Hz : zlen (c :: t) = 1 + zlen t) by (unfold zlen; cbn [length]; lia).
  assert (Hzt : 0 <= zlen t) by (unfold zlen; lia).
  constructor.
  - rewrite bytes_ok_cons, Hc. unfold byte_ok. lia.
  - apply IH; [lia | lia | exact Ht].
Qed.

Theorem seg_bytes_at seq payload : bytes_ok payload = true -> zlen payload <= 223 -> 0 <= seq < 8 ->
  Forall (fun f => bytes_ok f = true) (segment seq payload).
Proof.
  intros Hb Hn Hs.
  destruct (FastPacketProofs.segment_shape seq payload Hs Hn) as (d0 & cs & Hseg & Hcat & _ & _ & _ & _ & Hcs & _).
  rewrite Hseg. rewrite <- Hcat in Hb. rewrite bytes_ok_app in Hb. apply andb_true_iff in Hb. destruct Hb as [Hd0 Hc].
  assert (Hz : 0 <= zlen payload) by (unfold zlen; lia).
  constructor.
  - rewrite !bytes_ok_cons, Hd0. unfold byte_ok. lia.
  - apply number_bytes_ok; [exact Hs | lia | lia | apply bytes_ok_concat; exact Hc].
Qed.

(* ------------------------------------------------------------------------------------------------ *)
(** * H2: reassembling the reversed frames yields the reversed payload *)

Lemma map_rev_rev (l : list (list Z)) : map (@rev Z) (map (@rev Z) l) = l.
Proof. induction l as [|x t IH]; cbn [map]; [reflexivity | rewrite rev_involutive, IH; reflexivity]. Qed.

Lemma forallb_nothing_rev_repeat n : forallb is_nothing (rev (repeat Nothing n)) = true.
Proof.
  apply forallb_forall. intros x Hx. apply in_rev in Hx. apply repeat_spec in Hx. subst x. reflexivity.
Qed.

Theorem seg_reasm_at seq payload : 0 <= seq < 8 -> zlen payload <= 223 ->
  reasm (map (@rev Z) (segment seq payload)) = Some (rev payload).
Proof.
  intros Hs Hn. unfold reasm. rewrite map_rev_rev.
  destruct (FastPacketProofs.inverse_run (fun _ => true) seq payload None Hs Hn (or_introl eq_refl))
    as (st' & Hrun & _).
  rewrite Hrun. cbn [snd]. rewrite rev_app_distr. cbn [rev app]. unfold call.
  rewrite forallb_nothing_rev_repeat. reflexivity.
Qed.

(* ------------------------------------------------------------------------------------------------ *)
(** * WireProofs.assembled with its two hypotheses taken at the given payload only (same proof) *)

Section AssembledAt.
Variable ts_ok : Z -> list Z -> bool.
Variable segm : list Z -> list (list Z).
Variable reas : list (list Z) -> option (list Z).

Theorem assembled_at id payload inputs :
  Forall (fun f => bytes_ok f = true) (segm payload) ->
  reas (map (@rev Z) (segm payload)) = Some (rev payload) ->
  0 <= id < 536870912 -> bytes_ok payload = true -> payload <> [] ->
  Forall2 (renders ts_ok id) (segm payload) inputs ->
  let '(pgn, src, dst, prio) := extract_header id in
  (exists datas,
      map (parse_frame_input ts_ok) inputs = map (fun d => Ok (Some (pgn, prio, src, dst, d, false))) datas /\
      reas datas = Some (rev payload)) /\
  (forall sec ms ntok ptok dtoks tail,
      acti_ts_ok sec ms -> tokval 16 ntok = Some (acti_build src dst prio) -> tokval 16 ptok = Some pgn ->
      Forall2 (fun t b => length t = 2%nat /\ tokval 16 t = Some b) dtoks payload -> forallb is_ws tail = true ->
      parse_acti (acti_line sec ms ntok ptok (concat dtoks) tail) = Ok (Some (pgn, prio, src, dst, rev payload, true))) /\
  (forall ts ptok gtok stok dtok ltok dts extra,
      basic_ts ts_ok ts -> dec_tok ptok prio -> dec_tok gtok pgn -> dec_tok stok src -> dec_tok dtok dst ->
      dec_tok ltok (zlen payload) -> Forall2 (fun t b => tokval 16 t = Some b) dts payload ->
      Forall (fun t => nocomma t /\ all_ascii t = true) extra -> dts ++ extra <> [] ->
      parse_basic ts_ok (basic_line ts ptok gtok stok dtok ltok dts extra) true
      = Ok (Some (pgn, prio, src, dst, rev payload, true))).
Proof.
  intros Hsb Hsr Hid Hb Hne HF.
  pose proof (frontends ts_ok id payload Hid Hb) as HX.
  destruct (extract_header id) as [[[pgn src] dst] prio] eqn:E. cbv zeta in HX.
  destruct HX as (_ & _ & Hbasic & _ & Hacti).
  split; [|split].
  - exists (map (@rev Z) (segm payload)). split; [|exact Hsr].
    clear Hbasic Hacti Hsr.
    induction HF as [|f i fs is Hr HF IH]; [reflexivity|].
    inversion Hsb as [|? ? Hbf Hbfs]; subst. cbn [map].
    rewrite (renders_parse ts_ok id f i Hid Hbf Hr). unfold target. rewrite E. cbn [mk_args].
    f_equal. apply IH. exact Hbfs.
  - intros. apply Hacti; assumption.
  - intros. apply Hbasic; assumption.
Qed.
End AssembledAt.

(* ------------------------------------------------------------------------------------------------ *)
(** * The corollary for the fast-packet functions *)

Theorem assembled_fastpacket : forall (ts_ok : Z -> list Z -> bool) seq id payload inputs,
  0 <= seq < 8 -> 0 <= id < 536870912 -> bytes_ok payload = true -> payload <> [] -> zlen payload <= 223 ->
  Forall2 (renders ts_ok id) (segment seq payload) inputs ->
  let '(pgn, src, dst, prio) := extract_header id in
  (exists datas,
      map (parse_frame_input ts_ok) inputs = map (fun d => Ok (Some (pgn, prio, src, dst, d, false))) datas /\
      reasm datas = Some (rev payload)) /\
  (forall sec ms ntok ptok dtoks tail,
      acti_ts_ok sec ms -> tokval 16 ntok = Some (acti_build src dst prio) -> tokval 16 ptok = Some pgn ->
      Forall2 (fun t b => length t = 2%nat /\ tokval 16 t = Some b) dtoks payload -> forallb is_ws tail = true ->
      parse_acti (acti_line sec ms ntok ptok (concat dtoks) tail) = Ok (Some (pgn, prio, src, dst, rev payload, true))) /\
  (forall ts ptok gtok stok dtok ltok dts extra,
      basic_ts ts_ok ts -> dec_tok ptok prio -> dec_tok gtok pgn -> dec_tok stok src -> dec_tok dtok dst ->
      dec_tok ltok (zlen payload) -> Forall2 (fun t b => tokval 16 t = Some b) dts payload ->
      Forall (fun t => nocomma t /\ all_ascii t = true) extra -> dts ++ extra <> [] ->
      parse_basic ts_ok (basic_line ts ptok gtok stok dtok ltok dts extra) true
      = Ok (Some (pgn, prio, src, dst, rev payload, true))).
Proof.
  intros ts_ok seq id payload inputs Hs Hid Hb Hne Hn HF.
  exact (assembled_at ts_ok (segment seq) reasm id payload inputs
           (seg_bytes_at seq payload Hb Hn Hs) (seg_reasm_at seq payload Hs Hn) Hid Hb Hne HF).
Qed.
Print Assumptions assembled_fastpacket.
