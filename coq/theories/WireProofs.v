(* WireProofs.v — C06 / C07: the wire formats round-trip, obey their framing, and all front-ends agree.
   Part 1: lemmas about the text layer PyText.v.  Part 2: the wire formats (Wire.v).
   All statements are for every input in the stated ranges; no enumeration of inputs. *)
From NV Require Import Base Bits Header HeaderProofs PyText Wire.
From Coq Require Import ZifyBool.

(* ====================================================================== *)
(* Part 1 — text layer                                                     *)
(* ====================================================================== *)
Ltac Zify.zify_post_hook ::= Z.to_euclidean_division_equations.

(* ====================================================================== *)
(* (D) 4-byte conversions                                                  *)
(* ====================================================================== *)
Lemma be4_bytes_ok : forall n, 0 <= n < 4294967296 -> bytes_ok (be4 n) = true.
Proof.
  intros n H. unfold be4, bytes_ok, byte_ok. cbn [forallb]. lia.
Qed.

Lemma from_be_be4 : forall n, 0 <= n < 4294967296 -> from_be (be4 n) = n.
Proof.
  intros n H. unfold from_be, be4. cbn [fold_left]. lia.
Qed.

Lemma from_le_le4 : forall n, 0 <= n < 4294967296 -> from_le (rev (be4 n)) = n.
Proof.
  intros n H. unfold from_le. rewrite rev_involutive. apply from_be_be4. exact H.
Qed.

(* ====================================================================== *)
(* (A) splitting                                                           *)
(* ====================================================================== *)
Lemma join_single (sep x : list Z) : join sep [x] = x.
Proof. reflexivity. Qed.
Lemma join_cons2 (sep x y : list Z) r : join sep (x :: y :: r) = x ++ sep ++ join sep (y :: r).
Proof. reflexivity. Qed.

Lemma rev_nonempty {A} (x : list A) : x <> [] -> rev x <> [].
Proof.
  intros H E. apply H. rewrite <- (rev_involutive x), E. reflexivity.
Qed.

Lemma split_ws_aux_app : forall t cur s,
  forallb (fun c => negb (is_ws c)) t = true ->
  split_ws_aux cur (t ++ s) = split_ws_aux (rev t ++ cur) s.
Proof.
  induction t as [|c t IH]; intros cur s H; cbn [app rev]; [reflexivity|].
  cbn [forallb] in H. apply andb_true_iff in H. destruct H as [Hc Ht].
  cbn [split_ws_aux]. apply negb_true_iff in Hc. rewrite Hc.
  rewrite IH by assumption. rewrite <- app_assoc. reflexivity.
Qed.

Lemma split_ws_aux_tail : forall tail cur, forallb is_ws tail = true ->
  split_ws_aux cur tail = match cur with [] => [] | _ => [rev cur] end.
Proof.
  induction tail as [|c tail IH]; intros cur H; cbn [split_ws_aux]; [reflexivity|].
  cbn [forallb] in H. apply andb_true_iff in H. destruct H as [Hc Ht]. rewrite Hc.
  rewrite (IH [] Ht). destruct cur; reflexivity.
Qed.

Lemma split_ws_aux_sep : forall cur s, cur <> [] ->
  split_ws_aux cur (32 :: s) = rev cur :: split_ws_aux [] s.
Proof.
  intros cur s H. destruct cur; [contradiction|]. reflexivity.
Qed.

Lemma split_ws_join : forall toks tail,
  Forall clean toks -> forallb is_ws tail = true -> split_ws (join [32] toks ++ tail) = toks.
Proof.
  intros toks tail HF Ht. unfold split_ws.
  induction HF as [|x rest [Hne Hx] HF IH].
  - cbn [join app]. rewrite split_ws_aux_tail by assumption. reflexivity.
  - destruct rest as [|y r].
    + rewrite join_single. rewrite split_ws_aux_app by assumption. rewrite app_nil_r.
      rewrite split_ws_aux_tail by assumption.
      pose proof (rev_nonempty x Hne) as Hr.
      destruct (rev x) eqn:E; [contradiction|].
      rewrite <- E, rev_involutive. reflexivity.
    + rewrite join_cons2. rewrite <- !app_assoc. rewrite split_ws_aux_app by assumption.
      rewrite app_nil_r. cbn [app].
      rewrite split_ws_aux_sep by (apply rev_nonempty; assumption).
      rewrite rev_involutive. f_equal. exact IH.
Qed.

Lemma split_on_aux_app : forall sep t cur s,
  forallb (fun c => negb (c =? sep)) t = true ->
  split_on_aux sep cur (t ++ s) = split_on_aux sep (rev t ++ cur) s.
Proof.
  intros sep. induction t as [|c t IH]; intros cur s H; cbn [app rev]; [reflexivity|].
  cbn [forallb] in H. apply andb_true_iff in H. destruct H as [Hc Ht].
  cbn [split_on_aux]. apply negb_true_iff in Hc. rewrite Hc.
  rewrite IH by assumption. rewrite <- app_assoc. reflexivity.
Qed.

Lemma split_on_join : forall sep toks,
  toks <> [] -> Forall (fun t => forallb (fun c => negb (c =? sep)) t = true) toks ->
  split_on sep (join [sep] toks) = toks.
Proof.
  intros sep toks Hne HF. unfold split_on. revert Hne.
  induction HF as [|x rest Hx HF IH]; intros Hne; [contradiction|].
  destruct rest as [|y r].
  - rewrite join_single.
    pose proof (split_on_aux_app sep x [] [] Hx) as E. rewrite !app_nil_r in E. rewrite E.
    cbn [split_on_aux]. rewrite rev_involutive. reflexivity.
  - rewrite join_cons2, split_on_aux_app by assumption. rewrite app_nil_r. cbn [app split_on_aux].
    rewrite Z.eqb_refl, rev_involutive. f_equal. apply IH. discriminate.
Qed.

(* ====================================================================== *)
(* (B) int() on plain digit tokens                                         *)
(* ====================================================================== *)
Lemma digit_val_spec c d : digit_val c = Some d ->
  (48 <= c <= 57 /\ d = c - 48) \/ (97 <= c <= 122 /\ d = c - 87) \/ (65 <= c <= 90 /\ d = c - 55).
Proof.
  unfold digit_val. intros H.
  destruct ((48 <=? c) && (c <=? 57)) eqn:E1; [injection H as <-; lia|].
  destruct ((97 <=? c) && (c <=? 122)) eqn:E2; [injection H as <-; lia|].
  destruct ((65 <=? c) && (c <=? 90)) eqn:E3; [injection H as <-; lia|]. discriminate.
Qed.

Lemma digit_char_ok base c d : (base = 10 \/ base = 16) -> digit_val c = Some d -> (d <? base) = true ->
  is_ascii c = true /\
  (negb (is_ws c) && negb (is_cspace c) && negb (c =? 44) && negb (c =? 46) && negb (c =? 10)
   && negb (c =? 95) && negb (c =? 43) && negb (c =? 45) && negb (c =? 120) && negb (c =? 88)) = true.
Proof.
  intros Hb Hd Hlt. apply digit_val_spec in Hd. unfold is_ascii, is_ws, is_cspace. split; lia.
Qed.

Lemma digs_chars : forall t base acc v, (base = 10 \/ base = 16) -> digs base acc t = Some v ->
  all_ascii t = true /\
  forallb (fun c => negb (is_ws c) && negb (is_cspace c) && negb (c =? 44) && negb (c =? 46) && negb (c =? 10)
                    && negb (c =? 95) && negb (c =? 43) && negb (c =? 45) && negb (c =? 120) && negb (c =? 88)) t = true.
Proof.
  induction t as [|c t IH]; intros base acc v Hb H.
  - split; reflexivity.
  - cbn [digs] in H.
    destruct (digit_val c) as [d|] eqn:Ed; [|discriminate].
    destruct (d <? base) eqn:Elt; [|discriminate].
    destruct (digit_char_ok base c d Hb Ed Elt) as [A1 A2].
    destruct (IH _ _ _ Hb H) as [B1 B2].
    unfold all_ascii in *. cbn [forallb]. rewrite A1, A2, B1, B2. split; reflexivity.
Qed.

Lemma tokval_chars : forall base t v, (base = 10 \/ base = 16) -> tokval base t = Some v ->
  t <> [] /\ all_ascii t = true /\
  forallb (fun c => negb (is_ws c) && negb (is_cspace c) && negb (c =? 44) && negb (c =? 46) && negb (c =? 10)
                    && negb (c =? 95) && negb (c =? 43) && negb (c =? 45) && negb (c =? 120) && negb (c =? 88)) t = true.
Proof.
  intros base t v Hb H. destruct t as [|c t]; [discriminate|].
  split; [discriminate|]. unfold tokval in H. exact (digs_chars _ _ _ _ Hb H).
Qed.

Lemma forallb_impl {A} (f g : A -> bool) l :
  (forall x, f x = true -> g x = true) -> forallb f l = true -> forallb g l = true.
Proof.
  intros H. induction l as [|a l IH]; cbn [forallb]; [reflexivity|].
  intros E. apply andb_true_iff in E. destruct E as [E1 E2].
  rewrite (H _ E1), (IH E2). reflexivity.
Qed.

Lemma tokval_clean : forall base t v, (base = 10 \/ base = 16) -> tokval base t = Some v -> clean t.
Proof.
  intros base t v Hb H. destruct (tokval_chars base t v Hb H) as (Hne & _ & Hch).
  split; [exact Hne|]. revert Hch. apply forallb_impl. intros c Hc.
  rewrite !andb_true_iff in Hc. tauto.
Qed.

Lemma digs_nonneg : forall t base acc v, (base = 10 \/ base = 16) -> 0 <= acc ->
  digs base acc t = Some v -> 0 <= v.
Proof.
  induction t as [|c t IH]; intros base acc v Hb Ha H; cbn [digs] in H.
  - injection H as <-. exact Ha.
  - destruct (digit_val c) as [d|] eqn:Ed; [|discriminate].
    destruct (d <? base) eqn:Elt; [|discriminate].
    apply digit_val_spec in Ed.
    apply (IH base (acc * base + d) v Hb); [|exact H].
    destruct Hb as [-> | ->]; lia.
Qed.

Lemma tokval_nonneg : forall base t v, (base = 10 \/ base = 16) -> tokval base t = Some v -> 0 <= v.
Proof.
  intros base t v Hb H. destruct t as [|c t]; [discriminate|]. unfold tokval in H.
  apply (digs_nonneg _ _ _ _ Hb (Z.le_refl 0) H).
Qed.

Lemma lstrip_c_id : forall s, forallb (fun c => negb (is_cspace c)) s = true -> lstrip_c s = s.
Proof.
  intros [|c s] H; [reflexivity|]. cbn [forallb] in H. apply andb_true_iff in H. destruct H as [Hc _].
  apply negb_true_iff in Hc. cbn [lstrip_c]. rewrite Hc. reflexivity.
Qed.

Lemma forallb_rev {A} (f : A -> bool) l : forallb f l = true -> forallb f (rev l) = true.
Proof.
  rewrite !forallb_forall. intros H x Hx. apply H. apply in_rev. exact Hx.
Qed.

Lemma strip_c_id : forall s, forallb (fun c => negb (is_cspace c)) s = true -> strip_c s = s.
Proof.
  intros s H. unfold strip_c. rewrite (lstrip_c_id s H).
  rewrite (lstrip_c_id (rev s)) by (apply forallb_rev; exact H).
  apply rev_involutive.
Qed.

Lemma digs_digits_us : forall t base acc nd v,
  digs base acc t = Some v -> (t <> [] \/ nd = true) ->
  digits_us base acc false nd t = Some v.
Proof.
  induction t as [|c t IH]; intros base acc nd v H Hnd.
  - cbn [digs] in H. cbn [digits_us]. destruct Hnd as [Hnd | ->]; [contradiction|]. exact H.
  - cbn [digs] in H. cbn [digits_us].
    destruct (digit_val c) as [d|] eqn:Ed; [|discriminate].
    destruct (d <? base) eqn:Elt; [|discriminate].
    assert (Hc : (c =? 95) = false) by (apply digit_val_spec in Ed; lia).
    rewrite Hc. apply IH; [exact H|]. right; reflexivity.
Qed.

Lemma py_int_tok : forall base t v, (base = 10 \/ base = 16) -> tokval base t = Some v ->
  (base = 10 -> (length t <= 4300)%nat) -> py_int base t = Ok v.
Proof.
  intros base t v Hb Ht Hlen.
  destruct (tokval_chars base t v Hb Ht) as (Hne & Hasc & Hch).
  assert (Hdigs : digs base 0 t = Some v) by (destruct t; [contradiction|exact Ht]).
  assert (Hcs : forallb (fun c => negb (is_cspace c)) t = true).
  { revert Hch. apply forallb_impl. intros c Hc. rewrite !andb_true_iff in Hc. tauto. }
  assert (Hl : ((base =? 10) && (4300 <? zlen t)) = false).
  { destruct Hb as [-> | ->]; [specialize (Hlen eq_refl); unfold zlen; lia | reflexivity]. }
  unfold py_int. rewrite Hasc. cbn [negb]. rewrite Hl.
  rewrite (strip_c_id t Hcs).
  destruct t as [|c t']; [contradiction|].
  cbn [forallb] in Hch. apply andb_true_iff in Hch. destruct Hch as [Hc Hch'].
  rewrite !andb_true_iff, !negb_true_iff in Hc.
  destruct Hc as [[[[[[[[[H1 H2] H3] H4] H5] H6] H7] H8] H9] H10].
  unfold strip_sign. rewrite H7, H8. cbv beta iota zeta.
  assert (Hs3 : (if base =? 16 then strip_0x (c :: t') else c :: t') = c :: t').
  { destruct (base =? 16); [|reflexivity]. destruct t' as [|x t'']; [reflexivity|].
    cbn [forallb] in Hch'. apply andb_true_iff in Hch'. destruct Hch' as [Hx _].
    rewrite !andb_true_iff, !negb_true_iff in Hx.
    destruct Hx as [[_ Hx9] Hx10].
    unfold strip_0x. rewrite Hx9, Hx10. cbn [orb]. rewrite andb_false_r. reflexivity. }
  rewrite Hs3. cbn [starts_us]. rewrite H6.
  rewrite (digs_digits_us _ _ _ false v Hdigs) by (left; discriminate).
  reflexivity.
Qed.

Lemma map_py_int_toks : forall toks vals,
  Forall2 (fun t v => tokval 16 t = Some v) toks vals ->
  map_result (py_int 16) toks = Ok vals.
Proof.
  intros toks vals H. induction H as [|t v toks vals Ht HF IH]; cbn [map_result]; [reflexivity|].
  rewrite (py_int_tok 16 t v) by (auto || discriminate). cbn [bind]. rewrite IH. reflexivity.
Qed.

(* ====================================================================== *)
(* (C) formatting                                                          *)
(* ====================================================================== *)
Lemma hex_fixed_length : forall k n, length (hex_fixed k n) = k.
Proof.
  induction k as [|k IH]; intros n; cbn [hex_fixed length]; [reflexivity|]. rewrite IH. reflexivity.
Qed.

Lemma digit_val_hexchar d : 0 <= d < 16 -> digit_val (hexchar_u d) = Some d.
Proof.
  intros H. unfold hexchar_u, digit_val. destruct (d <? 10) eqn:E.
  - replace ((48 <=? 48 + d) && (48 + d <=? 57)) with true by lia. f_equal. lia.
  - replace ((48 <=? 55 + d) && (55 + d <=? 57)) with false by lia.
    replace ((97 <=? 55 + d) && (55 + d <=? 122)) with false by lia.
    replace ((65 <=? 55 + d) && (55 + d <=? 90)) with true by lia. f_equal. lia.
Qed.

Lemma pow16_pos k : 0 < 16 ^ Z.of_nat k.
Proof. apply Z.pow_pos_nonneg; lia. Qed.

Lemma digs_hex_fixed : forall k n acc,
  digs 16 acc (hex_fixed k n) = Some (acc * 16 ^ Z.of_nat k + n mod 16 ^ Z.of_nat k).
Proof.
  induction k as [|k IH]; intros n acc.
  - cbn [hex_fixed digs]. change (Z.of_nat 0) with 0. rewrite Z.pow_0_r, Z.mod_1_r. f_equal. lia.
  - cbn [hex_fixed digs].
    pose proof (pow16_pos k) as Hp.
    set (p := 16 ^ Z.of_nat k) in *.
    set (d := (n / p) mod 16).
    assert (Hd : 0 <= d < 16) by (apply Z.mod_pos_bound; lia).
    rewrite (digit_val_hexchar d Hd).
    destruct (d <? 16) eqn:E; [|lia].
    rewrite IH. fold p. f_equal.
    rewrite Nat2Z.inj_succ, Z.pow_succ_r by lia. fold p.
    rewrite (Z.mul_comm 16 p). rewrite Z.rem_mul_r by lia. fold d. ring.
Qed.

Lemma tokval_digs base s : s <> [] -> tokval base s = digs base 0 s.
Proof. destruct s; [contradiction|reflexivity]. Qed.

Lemma hex_fixed_nonempty k n : (0 < k)%nat -> hex_fixed k n <> [].
Proof.
  intros H E. apply (f_equal (@length Z)) in E. rewrite hex_fixed_length in E. cbn [length] in E. lia.
Qed.

Lemma tokval_hex_fixed : forall k n, (0 < k)%nat -> 0 <= n -> tokval 16 (hex_fixed k n) = Some (n mod 16 ^ Z.of_nat k).
Proof.
  intros k n Hk _. rewrite tokval_digs by (apply hex_fixed_nonempty; exact Hk).
  rewrite digs_hex_fixed. f_equal.
Qed.

Lemma pow16_pow2 m : 0 <= m -> 16 ^ m = 2 ^ (4 * m).
Proof. intros H. change 16 with (2 ^ 4). rewrite <- Z.pow_mul_r by lia. reflexivity. Qed.

Lemma ndigits16_bound n : 0 <= n -> n < 16 ^ Z.of_nat (ndigits16 n).
Proof.
  intros H. unfold ndigits16. destruct (n <=? 0) eqn:E.
  - change (Z.of_nat 1) with 1. rewrite Z.pow_1_r. lia.
  - assert (Hn : 0 < n) by lia.
    pose proof (Z.log2_nonneg n) as Hl.
    assert (Hq : 0 <= Z.log2 n / 4) by (apply Z.div_pos; lia).
    rewrite Nat2Z.inj_succ, Z2Nat.id by exact Hq.
    rewrite pow16_pow2 by lia.
    destruct (Z.log2_spec n Hn) as [_ Hlt].
    eapply Z.lt_le_trans; [exact Hlt|].
    apply Z.pow_le_mono_r; lia.
Qed.

Lemma ndigits16_le n w : 0 <= n < 16 ^ Z.of_nat w -> (0 < w)%nat -> (ndigits16 n <= w)%nat.
Proof.
  intros H Hw. unfold ndigits16. destruct (n <=? 0) eqn:E; [lia|].
  assert (Hn : 0 < n) by lia.
  pose proof (Z.log2_nonneg n) as Hl.
  rewrite pow16_pow2 in H by lia.
  assert (Hlt : Z.log2 n < 4 * Z.of_nat w) by (apply Z.log2_lt_pow2; lia).
  lia.
Qed.

Lemma tokval_fmt_X : forall w n, 0 <= n -> tokval 16 (fmt_X w n) = Some n.
Proof.
  intros w n H. unfold fmt_X. destruct (n <? 0) eqn:E; [lia|].
  set (k := Nat.max w (ndigits16 n)).
  assert (Hk : (0 < k)%nat).
  { unfold k, ndigits16. destruct (n <=? 0); lia. }
  rewrite tokval_hex_fixed by assumption. f_equal. apply Z.mod_small. split; [exact H|].
  eapply Z.lt_le_trans; [apply ndigits16_bound; exact H|].
  apply Z.pow_le_mono_r; [lia|]. unfold k. lia.
Qed.

Lemma fmt_X_length_small : forall w n, 0 <= n < 16 ^ Z.of_nat w -> (0 < w)%nat -> fmt_X w n = hex_fixed w n.
Proof.
  intros w n H Hw. unfold fmt_X. destruct (n <? 0) eqn:E; [lia|].
  pose proof (ndigits16_le n w H Hw) as Hle.
  replace (Nat.max w (ndigits16 n)) with w by lia. reflexivity.
Qed.

Lemma fmt_X_length_bound : forall w n, 0 <= n < 16 ^ 8 -> (w <= 8)%nat -> (length (fmt_X w n) <= 8)%nat.
Proof.
  intros w n H Hw. unfold fmt_X. destruct (n <? 0) eqn:E; [lia|].
  rewrite hex_fixed_length.
  assert (Hle : (ndigits16 n <= 8)%nat).
  { apply ndigits16_le; [|lia]. change (Z.of_nat 8) with 8. exact H. }
  lia.
Qed.

Ltac norm_pow16 :=
  repeat match goal with
  | |- context [16 ^ Z.of_nat ?k] =>
      let v := eval vm_compute in (16 ^ Z.of_nat k) in change (16 ^ Z.of_nat k) with v
  end.

Lemma hex_bytes_be4 : forall id, 0 <= id < 4294967296 -> hex_bytes_u (be4 id) = hex_fixed 8 id.
Proof.
  intros id H. unfold hex_bytes_u, be4. cbn [flat_map hex_fixed app]. norm_pow16.
  repeat (apply f_equal2; [apply f_equal; lia|]). reflexivity.
Qed.

Lemma pair_tok a c b : tokval 16 [a; c] = Some b ->
  exists x y, hexd a = Some x /\ hexd c = Some y /\ b = x * 16 + y /\
              is_cspace a = false /\ is_ascii a = true /\ is_ascii c = true.
Proof.
  unfold tokval. cbn [digs]. unfold hexd.
  destruct (digit_val a) as [x|] eqn:Ea; [|discriminate].
  destruct (x <? 16) eqn:Ex; [|discriminate].
  destruct (digit_val c) as [y|] eqn:Ec; [|discriminate].
  destruct (y <? 16) eqn:Ey; [|discriminate].
  intros H. injection H as <-. exists x, y.
  apply digit_val_spec in Ea. apply digit_val_spec in Ec.
  unfold is_cspace, is_ascii. repeat split; lia.
Qed.

Lemma fromhex_aux_pair a c rest x y r :
  is_cspace a = false -> hexd a = Some x -> hexd c = Some y -> fromhex_aux rest = Some r ->
  fromhex_aux (a :: c :: rest) = Some (x * 16 + y :: r).
Proof.
  intros Hcs Hx Hy Hr.
  change (fromhex_aux (a :: c :: rest)) with
    (if is_cspace a then fromhex_aux (c :: rest)
     else match hexd a, hexd c with
          | Some x, Some y => match fromhex_aux rest with Some r => Some (x * 16 + y :: r) | None => None end
          | _, _ => None
          end).
  rewrite Hcs, Hx, Hy, Hr. reflexivity.
Qed.

Lemma fromhex_pairs_aux : forall toks data,
  Forall2 (fun t b => length t = 2%nat /\ tokval 16 t = Some b) toks data ->
  all_ascii (concat toks) = true /\ fromhex_aux (concat toks) = Some data.
Proof.
  intros toks data H. induction H as [|t b toks data [Hl Ht] HF [IH1 IH2]]; cbn [concat].
  - split; reflexivity.
  - destruct t as [|a [|c [|? ?]]]; try discriminate Hl.
    destruct (pair_tok a c b Ht) as (x & y & Hx & Hy & -> & Hcs & Ha & Hc).
    cbn [app]. split.
    + unfold all_ascii in *. cbn [forallb]. rewrite Ha, Hc, IH1. reflexivity.
    + apply fromhex_aux_pair; assumption.
Qed.

Lemma fromhex_pairs : forall toks data,
  Forall2 (fun t b => length t = 2%nat /\ tokval 16 t = Some b) toks data ->
  fromhex (concat toks) = Some data.
Proof.
  intros toks data H. destruct (fromhex_pairs_aux toks data H) as [H1 H2].
  unfold fromhex. rewrite H1. exact H2.
Qed.

Lemma fromhex_hex_bytes_u : forall l, bytes_ok l = true -> fromhex (hex_bytes_u l) = Some l.
Proof.
  intros l H. unfold hex_bytes_u. rewrite flat_map_concat_map. apply fromhex_pairs.
  unfold bytes_ok in H. induction l as [|b l IH]; cbn [map]; [constructor|].
  cbn [forallb] in H. apply andb_true_iff in H. destruct H as [Hb Hl].
  constructor; [|apply IH; exact Hl].
  split; [apply hex_fixed_length|].
  unfold byte_ok in Hb.
  rewrite tokval_hex_fixed by lia. change (16 ^ Z.of_nat 2) with 256.
  f_equal. apply Z.mod_small. lia.
Qed.

Lemma hex_fixed_chars : forall k n, 0 <= n ->
  forallb (fun c => ((48 <=? c) && (c <=? 57)) || ((65 <=? c) && (c <=? 70))) (hex_fixed k n) = true.
Proof.
  intros k n _. induction k as [|k IH]; cbn [hex_fixed forallb]; [reflexivity|].
  rewrite IH, andb_true_r.
  pose proof (pow16_pos k) as Hp. set (p := 16 ^ Z.of_nat k) in *.
  set (d := (n / p) mod 16).
  assert (Hd : 0 <= d < 16) by (apply Z.mod_pos_bound; lia).
  unfold hexchar_u. destruct (d <? 10) eqn:E; lia.
Qed.

(* ====================================================================== *)
(* Part 2 — wire formats                                                   *)
(* ====================================================================== *)
Definition hdr_ok (pgn src dst prio : Z) : Prop :=
  0 <= prio < 8 /\ 0 <= src < 256 /\ 0 <= dst < 256 /\ pgn_canonical pgn = true.

Lemma firstn_len_app {A} (l1 l2 : list A) : firstn (length l1) (l1 ++ l2) = l1.
Proof. induction l1 as [|x l IH]; cbn [length firstn app]; [destruct l2; reflexivity | rewrite IH; reflexivity]. Qed.

Lemma zlen_to_nat {A} (l : list A) : Z.to_nat (zlen l) = length l.
Proof. unfold zlen. apply Nat2Z.id. Qed.

Lemma zlen_nonneg {A} (l : list A) : 0 <= zlen l.
Proof. unfold zlen. lia. Qed.

Lemma enc_check_ok pgn src dst prio : hdr_ok pgn src dst prio -> enc_check pgn src prio = Ok tt.
Proof.
  intros (Hq & Hs & Hd & Hc). unfold pgn_canonical in Hc. unfold enc_check.
  replace ((0 <=? prio) && (prio <=? 7)) with true by lia.
  replace ((0 <=? src) && (src <=? 255)) with true by lia.
  replace ((0 <=? pgn) && (pgn <=? 262143)) with true by lia.
  reflexivity.
Qed.

Lemma build_header_range pgn src dst prio : hdr_ok pgn src dst prio ->
  0 <= build_header pgn src dst prio < 536870912.
Proof.
  intros (Hq & Hs & Hd & Hc). rewrite build_header_arith by assumption. unfold build_arith.
  set (dp := (pgn / 65536) mod 4). set (pf := (pgn / 256) mod 256).
  assert (Hdp : 0 <= dp < 4) by (apply Z.mod_pos_bound; lia).
  assert (Hpf : 0 <= pf < 256) by (apply Z.mod_pos_bound; lia).
  assert (Hlo : 0 <= pgn mod 256 < 256) by (apply Z.mod_pos_bound; lia).
  destruct (pf <? 240); lia.
Qed.

Lemma to_be4_ok n : 0 <= n < 536870912 -> to_be4 n = Ok (be4 n).
Proof. intros H. unfold to_be4. replace ((0 <=? n) && (n <? 4294967296)) with true by lia. reflexivity. Qed.
Lemma to_le4_ok n : 0 <= n < 536870912 -> to_le4 n = Ok (rev (be4 n)).
Proof. intros H. unfold to_le4. replace ((0 <=? n) && (n <? 4294967296)) with true by lia. reflexivity. Qed.

(* what a parser hands to `_decode` for the frame (identifier id, data) *)
Definition target (id : Z) (data : list Z) (combined : bool) : option dec_args :=
  Some (mk_args (extract_header id) (rev data) combined).

Lemma target_build pgn src dst prio data c : hdr_ok pgn src dst prio ->
  target (build_header pgn src dst prio) data c
  = Some (pgn, prio, src, (if is_pdu1 pgn then dst else 255), rev data, c).
Proof.
  intros (Hq & Hs & Hd & Hc). unfold target. rewrite build_then_extract by assumption. reflexivity.
Qed.

(* ---------------- EByte ---------------- *)
Lemma type_byte_len n : 0 <= n <= 8 -> Z.land (Z.lor (Z.land n 15) 128) 15 = n.
Proof.
  intros H. rewrite !land15. rewrite Z.lor_comm. rewrite (lor_add 128 (n mod 16) 7) by lia. lia.
Qed.

Theorem parse_tcp_render t id data pad :
  0 <= id < 4294967296 -> Z.land t 15 = zlen data ->
  parse_tcp (t :: be4 id ++ data ++ pad) = Ok (target id data false).
Proof.
  intros Hid Ht. unfold parse_tcp, target. rewrite Ht, zlen_to_nat.
  unfold be4. cbn [app skipn firstn].
  change [id / 16777216; (id / 65536) mod 256; (id / 256) mod 256; id mod 256] with (be4 id).
  rewrite from_be_be4 by assumption. rewrite firstn_len_app. reflexivity.
Qed.

Lemma map_map_ext {A B C} (f : A -> B) (g : B -> C) (h : A -> C) l :
  (forall x, In x l -> g (f x) = h x) -> map g (map f l) = map h l.
Proof. intros H. rewrite map_map. apply map_ext_in. exact H. Qed.

Theorem roundtrip_ebyte pgn src dst prio msgs :
  hdr_ok pgn src dst prio -> Forall (fun d => (length d <= 8)%nat) msgs ->
  exists pkts, enc_ebyte pgn src dst prio msgs = Ok pkts /\
    map parse_tcp pkts
    = map (fun d => Ok (Some (pgn, prio, src, (if is_pdu1 pgn then dst else 255), rev d, false))) msgs.
Proof.
  intros Hh Hm. pose proof (build_header_range _ _ _ _ Hh) as Hr.
  unfold enc_ebyte. rewrite (enc_check_ok _ _ _ _ Hh). cbn [bind]. rewrite to_be4_ok by assumption. cbn [bind].
  eexists; split; [reflexivity|].
  apply map_map_ext. intros d Hd. rewrite Forall_forall in Hm. specialize (Hm d Hd).
  unfold enc_ebyte1. rewrite parse_tcp_render.
  - rewrite target_build by assumption. reflexivity.
  - lia.
  - apply type_byte_len. unfold zlen. lia.
Qed.

Lemma zeros_length n : length (zeros n) = Z.to_nat n.
Proof. unfold zeros. apply repeat_length. Qed.

Theorem ebyte_size idb data : length idb = 4%nat -> (length data <= 8)%nat -> length (enc_ebyte1 idb data) = 13%nat.
Proof.
  intros Hi Hd. unfold enc_ebyte1. cbn [length]. rewrite !app_length, zeros_length, Hi. unfold zlen. lia.
Qed.

(* ---------------- USB ---------------- *)
Lemma list_len_S {A} (l : list A) n : length l = S n -> exists x t, l = x :: t /\ length t = n.
Proof. destruct l as [|x t]; cbn [length]; intros H; [discriminate|]. exists x, t. split; [reflexivity | lia]. Qed.
Lemma list_len_0 {A} (l : list A) : length l = O -> l = [].
Proof. destruct l; [reflexivity | discriminate]. Qed.
Ltac explode_list H :=
  repeat (let x := fresh "x" in let t := fresh "t" in let E := fresh "E" in
          apply list_len_S in H; destruct H as (x & t & E & H); subst);
  apply list_len_0 in H; subst.

Lemma len8 {A} (l : list A) : length l = 8%nat ->
  exists d0 d1 d2 d3 d4 d5 d6 d7, l = [d0; d1; d2; d3; d4; d5; d6; d7].
Proof. intros H. explode_list H. repeat eexists. Qed.

Definition usb_render (b2 b3 b4 id : Z) (data pad : list Z) (r : Z) : list Z :=
  let body := [170; 85; b2; b3; b4] ++ rev (be4 id) ++ [zlen data] ++ data ++ pad ++ [r] in
  body ++ [checksum body].

Lemma parse_usb_explicit b2 b3 b4 i0 i1 i2 i3 dl d0 d1 d2 d3 d4 d5 d6 d7 r c :
  c = Z.land (b2+(b3+(b4+(i0+(i1+(i2+(i3+(dl+(d0+(d1+(d2+(d3+(d4+(d5+(d6+(d7+(r+0))))))))))))))))) 255 ->
  parse_usb [170;85;b2;b3;b4;i0;i1;i2;i3;dl;d0;d1;d2;d3;d4;d5;d6;d7;r;c] =
  Ok (Some (mk_args (extract_header (from_le [i0;i1;i2;i3]))
                    (rev (firstn (Z.to_nat dl) [d0;d1;d2;d3;d4;d5;d6;d7;r;c])) false)).
Proof.
  intros Hc. unfold parse_usb, checksum.
  cbn [firstn skipn nth zsum fold_right]. rewrite <- Hc.
  change (170 =? 170) with true. change (85 =? 85) with true. rewrite (Z.eqb_refl c).
  change (zlen [170; 85; b2; b3; b4; i0; i1; i2; i3; dl; d0; d1; d2; d3; d4; d5; d6; d7; r; c] =? 20) with true.
  reflexivity.
Qed.

Theorem parse_usb_render b2 b3 b4 id data pad r :
  0 <= id < 4294967296 -> (length data + length pad = 8)%nat ->
  parse_usb (usb_render b2 b3 b4 id data pad r) = Ok (target id data false).
Proof.
  intros Hid Hl.
  assert (H8 : length (data ++ pad) = 8%nat) by (rewrite app_length; exact Hl).
  destruct (len8 _ H8) as (d0 & d1 & d2 & d3 & d4 & d5 & d6 & d7 & E8).
  unfold usb_render.
  replace (data ++ pad ++ [r]) with ([d0; d1; d2; d3; d4; d5; d6; d7] ++ [r]) by (rewrite <- E8, <- app_assoc; reflexivity).
  set (dl := zlen data).
  unfold be4. cbn [rev app]. unfold checksum. cbn [firstn skipn zsum fold_right app].
  rewrite parse_usb_explicit by reflexivity.
  unfold target. f_equal. f_equal. f_equal.
  - change [id mod 256; (id / 256) mod 256; (id / 65536) mod 256; id / 16777216] with (rev (be4 id)).
    rewrite from_le_le4 by assumption. reflexivity.
  - f_equal. unfold dl. rewrite zlen_to_nat.
    match goal with |- firstn _ (?a :: ?b :: ?c :: ?d :: ?e :: ?f :: ?g :: ?h :: ?rest) = _ =>
      change (a :: b :: c :: d :: e :: f :: g :: h :: rest) with ([a;b;c;d;e;f;g;h] ++ rest) end.
    rewrite <- E8, <- app_assoc. apply firstn_len_app.
Qed.

Lemma enc_usb1_render id data : (length data <= 8)%nat ->
  enc_usb1 (rev (be4 id)) data = Ok (usb_render 1 2 1 id data (zeros (8 - zlen data)) 0).
Proof.
  intros H. unfold enc_usb1. replace (255 <? zlen data) with false by (unfold zlen; lia).
  unfold usb_render, usb_body. rewrite <- !app_assoc. reflexivity.
Qed.

Lemma map_result_ok {A B} (f : A -> result B) (g : A -> B) l :
  (forall x, In x l -> f x = Ok (g x)) -> map_result f l = Ok (map g l).
Proof.
  induction l as [|x l IH]; intros H; cbn [map_result map]; [reflexivity|].
  rewrite (H x) by (left; reflexivity). cbn [bind]. rewrite IH by (intros; apply H; right; assumption).
  reflexivity.
Qed.

Theorem roundtrip_usb pgn src dst prio msgs :
  hdr_ok pgn src dst prio -> Forall (fun d => (length d <= 8)%nat) msgs ->
  exists pkts, enc_usb pgn src dst prio msgs = Ok pkts /\
    map parse_usb pkts
    = map (fun d => Ok (Some (pgn, prio, src, (if is_pdu1 pgn then dst else 255), rev d, false))) msgs.
Proof.
  intros Hh Hm. pose proof (build_header_range _ _ _ _ Hh) as Hr. rewrite Forall_forall in Hm.
  unfold enc_usb. rewrite (enc_check_ok _ _ _ _ Hh). cbn [bind]. rewrite to_le4_ok by assumption. cbn [bind].
  rewrite (map_result_ok _ (fun d => usb_render 1 2 1 (build_header pgn src dst prio) d (zeros (8 - zlen d)) 0))
    by (intros d Hd; apply enc_usb1_render, Hm, Hd).
  eexists; split; [reflexivity|].
  apply map_map_ext. intros d Hd. specialize (Hm d Hd).
  rewrite parse_usb_render.
  - rewrite target_build by assumption. reflexivity.
  - lia.
  - rewrite zeros_length. unfold zlen. lia.
Qed.

Theorem usb_size b2 b3 b4 id data pad r :
  (length data + length pad = 8)%nat -> length (usb_render b2 b3 b4 id data pad r) = 20%nat.
Proof.
  intros H. unfold usb_render, be4. repeat (rewrite app_length || cbn [length rev app]). lia.
Qed.

(* ---- the checksum exposes any single corrupted byte among positions 2..19 ---- *)
Theorem usb_corruption p a k v :
  length p = 20%nat -> bytes_ok p = true -> parse_usb p = Ok (Some a) ->
  (2 <= k <= 19)%nat -> byte_ok v = true -> v <> nth k p 0 ->
  parse_usb (set_nth k v p) = Ok None.
Proof.
  intros Hl Hb Hp Hk Hv Hne.
  explode_list Hl.
  unfold bytes_ok in Hb. cbn [forallb] in Hb. unfold byte_ok in Hb, Hv.
  unfold parse_usb in Hp. cbn [firstn skipn nth] in Hp.
  destruct (x =? 170) eqn:E0; cbn [negb] in Hp; [|discriminate].
  destruct (x0 =? 85) eqn:E1; cbn [negb] in Hp; [|discriminate].
  match type of Hp with context [zlen ?l =? 20] => change (zlen l =? 20) with true in Hp end.
  cbn [negb] in Hp.
  match type of Hp with context [checksum ?l =? ?c] => destruct (checksum l =? c) eqn:EC end; cbn [negb] in Hp; [|discriminate].
  clear Hp. unfold checksum in EC. cbn [firstn skipn zsum fold_right] in EC. rewrite land255 in EC.
  destruct k as [|k]; [lia|]. destruct k as [|k]; [lia|].
  do 18 (destruct k as [|k];
    [ cbn [nth] in Hne; unfold set_nth; cbn [firstn skipn app]; unfold parse_usb; rewrite E0, E1; cbn [negb];
      match goal with |- context [zlen ?l =? 20] => change (zlen l =? 20) with true end; cbn [negb];
      unfold checksum; cbn [firstn skipn zsum fold_right nth]; rewrite land255;
      match goal with |- context [?s mod 256 =? ?c] => replace (s mod 256 =? c) with false by lia end;
      reflexivity | ]).
  lia.
Qed.

(* ---- encoder-produced USB packets are byte strings, so the corruption theorem applies ---- *)
Lemma bytes_ok_app a b : bytes_ok (a ++ b) = bytes_ok a && bytes_ok b.
Proof. apply forallb_app. Qed.
Lemma bytes_ok_zeros n : bytes_ok (zeros n) = true.
Proof. unfold zeros. induction (Z.to_nat n); [reflexivity | cbn [repeat bytes_ok forallb]; exact IHn0]. Qed.
Lemma bytes_ok_rev l : bytes_ok l = true -> bytes_ok (rev l) = true.
Proof. apply forallb_rev. Qed.

Lemma usb_render_bytes_ok b2 b3 b4 id data pad r :
  byte_ok b2 = true -> byte_ok b3 = true -> byte_ok b4 = true -> byte_ok r = true ->
  0 <= id < 4294967296 -> bytes_ok data = true -> bytes_ok pad = true -> (length data <= 255)%nat ->
  bytes_ok (usb_render b2 b3 b4 id data pad r) = true.
Proof.
  intros H2 H3 H4 Hr Hid Hd Hp Hl. unfold usb_render.
  rewrite !bytes_ok_app. rewrite (bytes_ok_rev _ (be4_bytes_ok id Hid)), Hd, Hp.
  cbn [bytes_ok forallb]. rewrite H2, H3, H4, Hr.
  assert (Hc : forall x, byte_ok (Z.land x 255) = true) by (intros x; rewrite land255; unfold byte_ok; lia).
  unfold checksum. rewrite Hc.
  replace (byte_ok (zlen data)) with true by (unfold byte_ok, zlen; lia).
  reflexivity.
Qed.

Theorem usb_checksum_exposes pgn src dst prio data k v :
  hdr_ok pgn src dst prio -> bytes_ok data = true -> (length data <= 8)%nat ->
  exists pkt, enc_usb pgn src dst prio [data] = Ok [pkt] /\ length pkt = 20%nat /\
    ((2 <= k <= 19)%nat -> byte_ok v = true -> v <> nth k pkt 0 -> parse_usb (set_nth k v pkt) = Ok None).
Proof.
  intros Hh Hb Hl. pose proof (build_header_range _ _ _ _ Hh) as Hr.
  set (id := build_header pgn src dst prio) in *.
  exists (usb_render 1 2 1 id data (zeros (8 - zlen data)) 0).
  assert (Hlen : (length data + length (zeros (8 - zlen data)) = 8)%nat) by (rewrite zeros_length; unfold zlen; lia).
  split; [|split].
  - unfold enc_usb. rewrite (enc_check_ok _ _ _ _ Hh). cbn [bind]. fold id. rewrite to_le4_ok by assumption.
    cbn [bind map_result]. rewrite enc_usb1_render by assumption. reflexivity.
  - apply usb_size. exact Hlen.
  - intros Hk Hv Hne. eapply usb_corruption; try eassumption.
    + apply usb_size. exact Hlen.
    + apply usb_render_bytes_ok; try reflexivity; try assumption; try lia. apply bytes_ok_zeros.
    + apply parse_usb_render; [lia | exact Hlen].
Qed.

(* ---------------- framing: fixed-size blocks ---------------- *)
Lemma skipn_len_app {A} (l1 l2 : list A) : skipn (length l1) (l1 ++ l2) = l2.
Proof. induction l1 as [|x l IH]; cbn [length skipn app]; [reflexivity | exact IH]. Qed.

Lemma chunks_f_concat n pkts : (0 < n)%nat -> Forall (fun p => length p = n) pkts ->
  forall fuel, (length pkts <= fuel)%nat -> chunks_f n fuel (concat pkts) = pkts.
Proof.
  intros Hn HF. induction HF as [|p ps Hp HF IH]; intros fuel Hfuel.
  - cbn [concat]. destruct fuel; cbn [chunks_f length]; [reflexivity|].
    replace (0 <? n)%nat with true by (symmetry; apply Nat.ltb_lt; exact Hn). reflexivity.
  - cbn [length] in Hfuel. destruct fuel as [|f]; [lia|]. cbn [concat chunks_f].
    replace (length (p ++ concat ps) <? n)%nat with false
      by (symmetry; apply Nat.ltb_ge; rewrite app_length; lia).
    replace (firstn n (p ++ concat ps)) with p by (rewrite <- Hp; symmetry; apply firstn_len_app).
    replace (skipn n (p ++ concat ps)) with (concat ps) by (rewrite <- Hp; symmetry; apply skipn_len_app).
    f_equal. apply IH. lia.
Qed.

Lemma concat_length_ge n (pkts : list (list Z)) : (0 < n)%nat -> Forall (fun p => length p = n) pkts ->
  (length pkts <= length (concat pkts))%nat.
Proof.
  intros Hn HF. induction HF as [|p ps Hp HF IH]; cbn [concat length]; [lia|]. rewrite app_length. lia.
Qed.

Theorem chunks_concat n pkts : (0 < n)%nat -> Forall (fun p => length p = n) pkts ->
  chunks n (concat pkts) = pkts.
Proof.
  intros Hn HF. unfold chunks. destruct n as [|n']; [lia|].
  apply chunks_f_concat; [lia | exact HF | apply (concat_length_ge (S n')); [lia | exact HF]].
Qed.

(* ---------------- framing: lines ---------------- *)
Definition is_line (l : list Z) : Prop :=
  exists body, l = body ++ [10] /\ forallb (fun c => negb (c =? 10)) body = true.

Lemma lines_aux_line body : forall cur rest, forallb (fun c => negb (c =? 10)) body = true ->
  lines_aux cur (body ++ 10 :: rest) = (rev cur ++ body ++ [10]) :: lines_aux [] rest.
Proof.
  induction body as [|x b IH]; intros cur rest H.
  - cbn [app lines_aux]. change (10 =? 10) with true. cbn [rev]. reflexivity.
  - cbn [forallb] in H. apply andb_true_iff in H. destruct H as [Hx Hb]. apply negb_true_iff in Hx.
    cbn [app lines_aux]. rewrite Hx. rewrite (IH (x :: cur) rest Hb). cbn [rev]. rewrite <- app_assoc. reflexivity.
Qed.

Theorem lines_concat ls : Forall is_line ls -> lines (concat ls) = ls.
Proof.
  intros HF. unfold lines. induction HF as [|l ls (body & -> & Hb) HF IH]; [reflexivity|].
  cbn [concat]. rewrite <- app_assoc. cbn [app]. rewrite lines_aux_line by assumption. cbn [rev app]. f_equal. exact IH.
Qed.

(* ---------------- framing: the serial client's marker search ---------------- *)
Definition usb_shaped (p : list Z) : Prop := length p = 20%nat /\ exists t, p = 170 :: 85 :: t.

Lemma serial_frames_f_concat pkts : Forall usb_shaped pkts ->
  forall fuel, (length pkts <= fuel)%nat -> serial_frames_f fuel (concat pkts) = pkts.
Proof.
  intros HF. induction HF as [|p ps (Hl & t & ->) HF IH]; intros fuel Hfuel.
  - destruct fuel; reflexivity.
  - cbn [length] in Hfuel. destruct fuel as [|f]; [lia|]. cbn [concat serial_frames_f].
    cbn [app find_marker]. change (170 =? 170) with true. change (85 =? 85) with true. cbn [andb].
    change (0 + 20)%nat with 20%nat.
    change (170 :: 85 :: t ++ concat ps) with ((170 :: 85 :: t) ++ concat ps).
    replace (Nat.ltb (length ((170 :: 85 :: t) ++ concat ps)) 20) with false
      by (symmetry; apply Nat.ltb_ge; rewrite app_length; lia).
    change (skipn 0 ((170 :: 85 :: t) ++ concat ps)) with ((170 :: 85 :: t) ++ concat ps).
    replace (firstn 20 ((170 :: 85 :: t) ++ concat ps)) with (170 :: 85 :: t) by (rewrite <- Hl; symmetry; apply firstn_len_app).
    replace (skipn 20 ((170 :: 85 :: t) ++ concat ps)) with (concat ps) by (rewrite <- Hl; symmetry; apply skipn_len_app).
    f_equal. apply IH. lia.
Qed.

Theorem serial_frames_concat pkts : Forall usb_shaped pkts -> serial_frames (concat pkts) = pkts.
Proof.
  intros HF. unfold serial_frames. apply serial_frames_f_concat; [exact HF|].
  apply (concat_length_ge 20); [lia|]. revert HF. apply Forall_impl. intros p [H _]. exact H.
Qed.

Lemma usb_render_shaped b2 b3 b4 id data pad r : (length data + length pad = 8)%nat ->
  usb_shaped (usb_render b2 b3 b4 id data pad r).
Proof.
  intros H. split; [apply usb_size; exact H|]. unfold usb_render. cbn [app]. eexists. reflexivity.
Qed.

(* ---------------- text formats: shared ---------------- *)
Lemma all_ascii_app a b : all_ascii (a ++ b) = all_ascii a && all_ascii b.
Proof. apply forallb_app. Qed.

Lemma all_ascii_join sep toks : all_ascii sep = true -> Forall (fun t => all_ascii t = true) toks ->
  all_ascii (join sep toks) = true.
Proof.
  intros Hs HF. induction HF as [|x r Hx HF IH]; [reflexivity|].
  destruct r as [|y r']; [rewrite join_single; exact Hx|].
  rewrite join_cons2, !all_ascii_app, Hx, Hs, IH. reflexivity.
Qed.

Lemma ws_ascii tail : forallb is_ws tail = true -> all_ascii tail = true.
Proof. apply forallb_impl. intros c. unfold is_ws, is_ascii. lia. Qed.

Lemma tokval_ascii base t v : (base = 10 \/ base = 16) -> tokval base t = Some v -> all_ascii t = true.
Proof. intros Hb H. destruct (tokval_chars base t v Hb H) as (_ & Ha & _). exact Ha. Qed.

Lemma tokval_nochar base t v c : (base = 10 \/ base = 16) -> tokval base t = Some v -> (c = 44 \/ c = 46) ->
  forallb (fun x => negb (x =? c)) t = true.
Proof.
  intros Hb H Hc. destruct (tokval_chars base t v Hb H) as (_ & _ & Hch). revert Hch. apply forallb_impl.
  intros x Hx. rewrite !andb_true_iff, !negb_true_iff in Hx. destruct Hc as [-> | ->]; apply negb_true_iff; tauto.
Qed.

Lemma Forall2_rev {A B} (P : A -> B -> Prop) l l' : Forall2 P l l' -> Forall2 P (rev l) (rev l').
Proof.
  induction 1 as [|x y l l' Hxy HF IH]; cbn [rev]; [constructor|].
  apply Forall2_app; [exact IH | constructor; [exact Hxy | constructor]].
Qed.

Lemma Forall2_Forall_l {A B} (P : A -> B -> Prop) (Q : A -> Prop) l l' :
  (forall x y, P x y -> Q x) -> Forall2 P l l' -> Forall Q l.
Proof. intros H. induction 1; constructor; eauto. Qed.

Lemma Forall2_len {A B} (P : A -> B -> Prop) l l' : Forall2 P l l' -> length l = length l'.
Proof. induction 1; cbn [length]; congruence. Qed.

Lemma bytes_of_ints_ok l : bytes_ok l = true -> bytes_of_ints l = Ok l.
Proof. intros H. unfold bytes_of_ints. rewrite H. reflexivity. Qed.

Definition dir_tok (d : list Z) : Prop := d = [82] \/ d = [84].

(* ---------------- Actisense N2K ASCII ---------------- *)
Definition acti_ts (sec ms : list Z) : list Z := 65 :: sec ++ [46] ++ ms.
Definition acti_line (sec ms ntok ptok dtok tail : list Z) : list Z :=
  join [32] [acti_ts sec ms; ntok; ptok; dtok] ++ tail.
Definition acti_ts_ok (sec ms : list Z) : Prop :=
  exists vs vm, tokval 10 sec = Some vs /\ tokval 10 ms = Some vm /\ vs <= ts_limit /\ vm <= ts_limit /\
                (length sec <= 4300)%nat /\ (length ms <= 4300)%nat.

Lemma acti_ts_facts sec ms : acti_ts_ok sec ms ->
  clean (acti_ts sec ms) /\ all_ascii (acti_ts sec ms) = true /\ split_on 46 (sec ++ [46] ++ ms) = [sec; ms].
Proof.
  intros (vs & vm & Hs & Hm & _).
  assert (H10 : (10 = 10 \/ 10 = 16)) by (left; reflexivity).
  destruct (tokval_clean 10 sec vs H10 Hs) as [_ Hsc]. destruct (tokval_clean 10 ms vm H10 Hm) as [_ Hmc].
  split; [|split].
  - split; [discriminate|]. unfold acti_ts. cbn [forallb]. rewrite !forallb_app, Hsc, Hmc. reflexivity.
  - unfold acti_ts. cbn [all_ascii forallb]. fold (all_ascii (sec ++ [46] ++ ms)).
    rewrite !all_ascii_app, (tokval_ascii 10 sec vs H10 Hs), (tokval_ascii 10 ms vm H10 Hm). reflexivity.
  - change (sec ++ [46] ++ ms) with (join [46] [sec; ms]). apply split_on_join; [discriminate|].
    constructor; [apply (tokval_nochar 10 sec vs 46 H10 Hs); right; reflexivity |
                  constructor; [apply (tokval_nochar 10 ms vm 46 H10 Hm); right; reflexivity | constructor]].
Qed.

Theorem parse_acti_render sec ms ntok ptok dtoks tail n pgn data :
  acti_ts_ok sec ms -> tokval 16 ntok = Some n -> tokval 16 ptok = Some pgn ->
  Forall2 (fun t b => length t = 2%nat /\ tokval 16 t = Some b) dtoks data -> data <> [] ->
  forallb is_ws tail = true ->
  parse_acti (acti_line sec ms ntok ptok (concat dtoks) tail)
  = Ok (Some (let '(src, dst, prio) := acti_parse n in (pgn, prio, src, dst, rev data, true))).
Proof.
  intros Hts Hn Hp HF Hne Htail.
  assert (H16 : (16 = 10 \/ 16 = 16)) by (right; reflexivity).
  assert (H10 : (10 = 10 \/ 10 = 16)) by (left; reflexivity).
  destruct (acti_ts_facts sec ms Hts) as (Hcl & Hasc & Hsplit).
  destruct Hts as (vs & vm & Hs & Hm & Hvs & Hvm & Hls & Hlm).
  assert (Hdasc : all_ascii (concat dtoks) = true).
  { clear Hne. induction HF as [|t b ts bs [_ Ht] HF IH]; [reflexivity|]. cbn [concat].
    rewrite all_ascii_app, IH, (tokval_ascii 16 t b H16 Ht). reflexivity. }
  assert (Hdcl : clean (concat dtoks)).
  { split.
    - destruct HF as [|t b ts bs [Hl _] HF]; [contradiction|]. cbn [concat]. destruct t as [|z t]; [discriminate Hl|]. cbn [app]. discriminate.
    - clear Hne Hdasc. induction HF as [|t b ts bs [_ Ht] HF IH]; [reflexivity|]. cbn [concat].
      rewrite forallb_app. destruct (tokval_clean 16 t b H16 Ht) as [_ Hc]. rewrite Hc, IH. reflexivity. }
  unfold parse_acti, acti_line.
  rewrite all_ascii_app, (ws_ascii _ Htail), andb_true_r.
  rewrite all_ascii_join;
    [| reflexivity | constructor; [exact Hasc | constructor; [exact (tokval_ascii 16 ntok n H16 Hn) | constructor;
       [exact (tokval_ascii 16 ptok pgn H16 Hp) | constructor; [exact Hdasc | constructor]]]]].
  cbn [negb].
  rewrite split_ws_join;
    [| constructor; [exact Hcl | constructor; [exact (tokval_clean 16 ntok n H16 Hn) | constructor;
       [exact (tokval_clean 16 ptok pgn H16 Hp) | constructor; [exact Hdcl | constructor]]]] | exact Htail].
  unfold acti_ts at 1. change (65 =? 65) with true. cbn [negb]. rewrite Hsplit.
  rewrite (py_int_tok 10 sec vs H10 Hs) by (intros _; exact Hls). cbn [bind].
  rewrite (py_int_tok 10 ms vm H10 Hm) by (intros _; exact Hlm). cbn [bind].
  pose proof (tokval_nonneg 10 sec vs H10 Hs). pose proof (tokval_nonneg 10 ms vm H10 Hm).
  replace ((ts_limit <? Z.abs vs) || (ts_limit <? Z.abs vm)) with false by (unfold ts_limit in *; lia).
  rewrite (py_int_tok 16 ntok n H16 Hn) by discriminate. cbn [bind].
  destruct (acti_parse n) as [[src dst] prio].
  rewrite (py_int_tok 16 ptok pgn H16 Hp) by discriminate. cbn [bind].
  rewrite (fromhex_pairs _ _ HF). reflexivity.
Qed.

Section Text.
Variable ts_ok : Z -> list Z -> bool.

(* a time-stamp token as the parser sees it: one whitespace-free ASCII token that strptime accepts *)
Definition ts_tok (fmt : Z) (ts : list Z) : Prop := clean ts /\ all_ascii ts = true /\ ts_ok fmt ts = true.

(* ---------------- Yacht Devices RAW ---------------- *)
Definition yd_line (ts dir idt : list Z) (dts : list (list Z)) (tail : list Z) : list Z :=
  join [32] (ts :: dir :: idt :: dts) ++ tail.

Theorem parse_yd_render ts dir idt dts tail id data :
  ts_tok 0 ts -> dir_tok dir -> tokval 16 idt = Some id ->
  Forall2 (fun t b => tokval 16 t = Some b) dts data -> bytes_ok data = true -> data <> [] ->
  forallb is_ws tail = true ->
  parse_yd ts_ok (yd_line ts dir idt dts tail) = Ok (target id data false).
Proof.
  intros (Hcl & Hasc & Hts) Hdir Hid HF Hb Hne Htail.
  assert (H16 : (16 = 10 \/ 16 = 16)) by (right; reflexivity).
  assert (Hdc : clean dir /\ all_ascii dir = true /\ (str_eqb dir [82] || str_eqb dir [84]) = true).
  { destruct Hdir as [-> | ->]; (split; [split; [discriminate | reflexivity] | split; reflexivity]). }
  destruct Hdc as (Hdcl & Hdasc & Hdeq).
  assert (Hdts_clean : Forall clean dts).
  { eapply Forall2_Forall_l; [|exact HF]. intros t b Ht. exact (tokval_clean 16 t b H16 Ht). }
  assert (Hdts_asc : Forall (fun t => all_ascii t = true) dts).
  { eapply Forall2_Forall_l; [|exact HF]. intros t b Ht. exact (tokval_ascii 16 t b H16 Ht). }
  unfold parse_yd, yd_line.
  rewrite all_ascii_app, (ws_ascii _ Htail), andb_true_r.
  rewrite all_ascii_join;
    [| reflexivity | constructor; [exact Hasc | constructor; [exact Hdasc | constructor;
       [exact (tokval_ascii 16 idt id H16 Hid) | exact Hdts_asc]]]].
  cbn [negb].
  rewrite split_ws_join;
    [| constructor; [exact Hcl | constructor; [exact Hdcl | constructor;
       [exact (tokval_clean 16 idt id H16 Hid) | exact Hdts_clean]]] | exact Htail].
  destruct HF as [|d0 b0 drest brest Hd0 HF]; [contradiction|].
  rewrite Hdeq, Hts. cbn [negb].
  rewrite (py_int_tok 16 idt id H16 Hid) by discriminate. cbn [bind].
  assert (HF' : Forall2 (fun t b => tokval 16 t = Some b) (d0 :: drest) (b0 :: brest)) by (constructor; assumption).
  rewrite (map_py_int_toks _ _ (Forall2_rev _ _ _ HF')). cbn [bind].
  rewrite bytes_of_ints_ok by (apply bytes_ok_rev; exact Hb). cbn [bind].
  reflexivity.
Qed.

(* ---------------- canboat plain ---------------- *)
Definition nocomma (t : list Z) : Prop := forallb (fun c => negb (c =? 44)) t = true.
Definition basic_ts (ts : list Z) : Prop :=
  nocomma ts /\ all_ascii ts = true /\ ts_ok (if ends_with ts 90 then 1 else 2) ts = true.
Definition dec_tok (t : list Z) (v : Z) : Prop := tokval 10 t = Some v /\ (length t <= 4300)%nat.
Definition basic_line (ts ptok gtok stok dtok ltok : list Z) (dts extra : list (list Z)) : list Z :=
  join [44] (ts :: ptok :: gtok :: stok :: dtok :: ltok :: dts ++ extra).

Lemma py_slice_mid {A} (pre mid post : list A) :
  py_slice (pre ++ mid ++ post) (zlen pre) (zlen pre + zlen mid) = mid.
Proof.
  unfold py_slice, clamp_idx.
  assert (Hn : zlen (pre ++ mid ++ post) = zlen pre + zlen mid + zlen post)
    by (unfold zlen; rewrite !app_length; lia).
  pose proof (zlen_nonneg pre). pose proof (zlen_nonneg mid). pose proof (zlen_nonneg post).
  replace (zlen pre <? 0) with false by lia. replace (zlen pre + zlen mid <? 0) with false by lia.
  rewrite Hn, !Z.min_l by lia.
  replace (zlen pre + zlen mid - zlen pre) with (zlen mid) by lia.
  rewrite !zlen_to_nat, skipn_len_app, firstn_len_app. reflexivity.
Qed.

Theorem parse_basic_render ts ptok gtok stok dtok ltok dts extra combined prio pgn src dst data :
  basic_ts ts -> dec_tok ptok prio -> dec_tok gtok pgn -> dec_tok stok src -> dec_tok dtok dst ->
  dec_tok ltok (zlen data) ->
  Forall2 (fun t b => tokval 16 t = Some b) dts data -> bytes_ok data = true ->
  Forall (fun t => nocomma t /\ all_ascii t = true) extra -> dts ++ extra <> [] ->
  parse_basic ts_ok (basic_line ts ptok gtok stok dtok ltok dts extra) combined
  = Ok (Some (pgn, prio, src, dst, rev data, combined)).
Proof.
  intros (Hnc & Hasc & Hts) [Hp Hpl] [Hg Hgl] [Hs Hsl] [Hd Hdl] [Hl Hll] HF Hb Hex Hne.
  assert (H16 : (16 = 10 \/ 16 = 16)) by (right; reflexivity).
  assert (H10 : (10 = 10 \/ 10 = 16)) by (left; reflexivity).
  assert (Hdts_nc : Forall (fun t => forallb (fun c => negb (c =? 44)) t = true) dts).
  { eapply Forall2_Forall_l; [|exact HF]. intros t b Ht. apply (tokval_nochar 16 t b 44 H16 Ht). left; reflexivity. }
  assert (Hdts_asc : Forall (fun t => all_ascii t = true) dts).
  { eapply Forall2_Forall_l; [|exact HF]. intros t b Ht. exact (tokval_ascii 16 t b H16 Ht). }
  assert (Hex_nc : Forall (fun t => forallb (fun c => negb (c =? 44)) t = true) extra)
    by (revert Hex; apply Forall_impl; intros t [H _]; exact H).
  assert (Hex_asc : Forall (fun t => all_ascii t = true) extra)
    by (revert Hex; apply Forall_impl; intros t [_ H]; exact H).
  unfold parse_basic, basic_line.
  assert (C44 : 44 = 44 \/ 44 = 46) by (left; reflexivity).
  rewrite all_ascii_join;
    [| reflexivity | constructor; [exact Hasc | constructor; [exact (tokval_ascii 10 ptok prio H10 Hp) | constructor;
       [exact (tokval_ascii 10 gtok pgn H10 Hg) | constructor; [exact (tokval_ascii 10 stok src H10 Hs) | constructor;
       [exact (tokval_ascii 10 dtok dst H10 Hd) | constructor; [exact (tokval_ascii 10 ltok _ H10 Hl) |
        apply Forall_app; split; assumption]]]]]]].
  cbn [negb].
  rewrite split_on_join;
    [| discriminate | constructor; [exact Hnc | constructor; [exact (tokval_nochar 10 ptok prio 44 H10 Hp C44) | constructor;
       [exact (tokval_nochar 10 gtok pgn 44 H10 Hg C44) | constructor; [exact (tokval_nochar 10 stok src 44 H10 Hs C44) | constructor;
       [exact (tokval_nochar 10 dtok dst 44 H10 Hd C44) | constructor; [exact (tokval_nochar 10 ltok _ 44 H10 Hl C44) |
        apply Forall_app; split; assumption]]]]]]].
  destruct (dts ++ extra) as [|x rest] eqn:Erest; [contradiction|].
  rewrite Hts. cbn [negb].
  rewrite (py_int_tok 10 ptok prio H10 Hp) by (intros _; exact Hpl). cbn [bind].
  rewrite (py_int_tok 10 gtok pgn H10 Hg) by (intros _; exact Hgl). cbn [bind].
  rewrite (py_int_tok 10 stok src H10 Hs) by (intros _; exact Hsl). cbn [bind].
  rewrite (py_int_tok 10 dtok dst H10 Hd) by (intros _; exact Hdl). cbn [bind].
  rewrite (py_int_tok 10 ltok (zlen data) H10 Hl) by (intros _; exact Hll). cbn [bind].
  rewrite <- Erest.
  assert (Hlen : zlen data = zlen dts) by (unfold zlen; rewrite (Forall2_len _ _ _ HF); reflexivity).
  rewrite Hlen.
  change (ts :: ptok :: gtok :: stok :: dtok :: ltok :: dts ++ extra)
    with ([ts; ptok; gtok; stok; dtok; ltok] ++ dts ++ extra).
  change 6 with (zlen [ts; ptok; gtok; stok; dtok; ltok]).
  rewrite py_slice_mid.
  rewrite (map_py_int_toks _ _ (Forall2_rev _ _ _ HF)). cbn [bind].
  rewrite bytes_of_ints_ok by (apply bytes_ok_rev; exact Hb). cbn [bind].
  reflexivity.
Qed.
End Text.

(* ---------------- encoder output as token renderings ---------------- *)
Lemma byte_tokens data : bytes_ok data = true ->
  Forall2 (fun t b => tokval 16 t = Some b) (map (fmt_X 2) data) data.
Proof.
  induction data as [|b l IH]; intros H; cbn [map]; [constructor|].
  cbn [bytes_ok forallb] in H. apply andb_true_iff in H. destruct H as [Hb Hl].
  constructor; [apply tokval_fmt_X; unfold byte_ok in Hb; lia | apply IH; exact Hl].
Qed.

Lemma byte_pairs data : bytes_ok data = true ->
  Forall2 (fun t b => length t = 2%nat /\ tokval 16 t = Some b) (map (hex_fixed 2) data) data.
Proof.
  induction data as [|b l IH]; intros H; cbn [map]; [constructor|].
  cbn [bytes_ok forallb] in H. apply andb_true_iff in H. destruct H as [Hb Hl].
  constructor; [|apply IH; exact Hl]. split; [apply hex_fixed_length|].
  rewrite tokval_hex_fixed by (unfold byte_ok in Hb; lia). change (16 ^ Z.of_nat 2) with 256.
  f_equal. unfold byte_ok in Hb. lia.
Qed.

Lemma id_token id : 0 <= id < 4294967296 -> tokval 16 (hex_bytes_u (be4 id)) = Some id.
Proof.
  intros H. rewrite hex_bytes_be4 by assumption. rewrite tokval_hex_fixed by lia.
  change (16 ^ Z.of_nat 8) with 4294967296. f_equal. lia.
Qed.

Lemma yd_line_enc ts dir idb d : d <> [] ->
  ts ++ [32] ++ dir ++ [32] ++ enc_yd1 idb d = yd_line ts dir (hex_bytes_u idb) (map (fmt_X 2) d) [13; 10].
Proof.
  intros Hne. unfold yd_line, enc_yd1. destruct d as [|b l]; [contradiction|]. cbn [map].
  rewrite !join_cons2. rewrite <- !app_assoc. reflexivity.
Qed.

(* characters of the Yacht Devices packet body *)
Definition hexch (c : Z) : bool := ((48 <=? c) && (c <=? 57)) || ((65 <=? c) && (c <=? 70)).
Lemma forallb_join (P : Z -> bool) sep toks : forallb P sep = true -> Forall (fun t => forallb P t = true) toks ->
  forallb P (join sep toks) = true.
Proof.
  intros Hs HF. induction HF as [|x r Hx HF IH]; [reflexivity|].
  destruct r as [|y r']; [rewrite join_single; exact Hx|].
  rewrite join_cons2, !forallb_app, Hx, Hs, IH. reflexivity.
Qed.
Lemma fmt_X_chars w n : 0 <= n -> forallb hexch (fmt_X w n) = true.
Proof. intros H. unfold fmt_X. replace (n <? 0) with false by lia. apply hex_fixed_chars. exact H. Qed.
Lemma hex_bytes_u_chars l : bytes_ok l = true -> forallb hexch (hex_bytes_u l) = true.
Proof.
  induction l as [|b l IH]; intros H; [reflexivity|].
  cbn [bytes_ok forallb] in H. apply andb_true_iff in H. destruct H as [Hb Hl].
  unfold hex_bytes_u. cbn [flat_map]. rewrite forallb_app. fold (hex_bytes_u l). rewrite (IH Hl), andb_true_r.
  apply hex_fixed_chars. unfold byte_ok in Hb. lia.
Qed.

Theorem yd_packet_is_line idb data : bytes_ok idb = true -> bytes_ok data = true ->
  exists body, enc_yd1 idb data = body ++ [13; 10] /\ forallb (fun c => negb (c =? 10) && negb (c =? 13)) body = true.
Proof.
  intros Hi Hd. exists (hex_bytes_u idb ++ [32] ++ join [32] (map (fmt_X 2) data)). split.
  - unfold enc_yd1. rewrite <- !app_assoc. reflexivity.
  - assert (Himp : forall l, forallb hexch l = true -> forallb (fun c => negb (c =? 10) && negb (c =? 13)) l = true).
    { intros l. apply forallb_impl. intros c. unfold hexch. lia. }
    rewrite !forallb_app. rewrite (Himp _ (hex_bytes_u_chars idb Hi)). cbn [forallb andb].
    change (negb (32 =? 10) && negb (32 =? 13)) with true. cbn [andb].
    apply forallb_join; [reflexivity|].
    clear Hi. induction data as [|b l IH]; cbn [map]; [constructor|].
    cbn [bytes_ok forallb] in Hd. apply andb_true_iff in Hd. destruct Hd as [Hb Hl].
    constructor; [apply Himp, fmt_X_chars; unfold byte_ok in Hb; lia | apply IH; exact Hl].
Qed.

Corollary yd_packet_line idb data : bytes_ok idb = true -> bytes_ok data = true -> is_line (enc_yd1 idb data).
Proof.
  intros Hi Hd. destruct (yd_packet_is_line idb data Hi Hd) as (body & E & Hb).
  exists (body ++ [13]). split; [rewrite E, <- app_assoc; reflexivity|].
  rewrite forallb_app. cbn [forallb]. change (negb (13 =? 10)) with true. rewrite andb_true_r.
  revert Hb. apply forallb_impl. intros c. lia.
Qed.

Section Text2.
Variable ts_ok : Z -> list Z -> bool.

Theorem roundtrip_yd pgn src dst prio msgs ts dir :
  hdr_ok pgn src dst prio -> ts_tok ts_ok 0 ts -> dir_tok dir ->
  Forall (fun d => bytes_ok d = true /\ d <> []) msgs ->
  exists pkts, enc_yd pgn src dst prio msgs = Ok pkts /\
    map (fun p => parse_yd ts_ok (ts ++ [32] ++ dir ++ [32] ++ p)) pkts
    = map (fun d => Ok (Some (pgn, prio, src, (if is_pdu1 pgn then dst else 255), rev d, false))) msgs.
Proof.
  intros Hh Hts Hdir Hm. pose proof (build_header_range _ _ _ _ Hh) as Hr. rewrite Forall_forall in Hm.
  unfold enc_yd. rewrite (enc_check_ok _ _ _ _ Hh). cbn [bind]. rewrite to_be4_ok by assumption. cbn [bind].
  eexists; split; [reflexivity|].
  apply map_map_ext. intros d Hd. destruct (Hm d Hd) as [Hb Hne].
  rewrite yd_line_enc by assumption.
  rewrite (parse_yd_render ts_ok ts dir _ _ _ (build_header pgn src dst prio) d); try assumption.
  - rewrite target_build by assumption. reflexivity.
  - apply id_token. lia.
  - apply byte_tokens. exact Hb.
  - reflexivity.
Qed.
End Text2.

Theorem roundtrip_actisense pgn src dst prio payload sec ms :
  0 <= pgn < 16777216 -> 0 <= src < 256 -> 0 <= dst < 256 -> 0 <= prio < 8 ->
  bytes_ok payload = true -> payload <> [] -> acti_ts_ok sec ms ->
  parse_acti (acti_ts sec ms ++ [32] ++ enc_actisense pgn src dst prio payload)
  = Ok (Some (pgn, prio, src, dst, rev payload, true)).
Proof.
  intros Hp Hs Hd Hq Hb Hne Hts.
  assert (E : acti_ts sec ms ++ [32] ++ enc_actisense pgn src dst prio payload
              = acti_line sec ms (fmt_X 5 (acti_build src dst prio)) (fmt_X 5 (Z.land pgn 16777215))
                          (concat (map (hex_fixed 2) payload)) []).
  { unfold acti_line, enc_actisense, hex_bytes_u. rewrite flat_map_concat_map.
    rewrite !join_cons2, join_single, app_nil_r. reflexivity. }
  rewrite E.
  assert (Hn : 0 <= acti_build src dst prio).
  { unfold acti_build. rewrite !land255, land15, shl12, shl4.
    rewrite (lor12 (src mod 256 * 4096)) by lia. rewrite lor4 by lia. lia. }
  assert (Hl : Z.land pgn 16777215 = pgn).
  { change 16777215 with (2 ^ 24 - 1). rewrite land_mask_mod by lia. change (2 ^ 24) with 16777216. lia. }
  rewrite (parse_acti_render sec ms _ _ _ [] (acti_build src dst prio) pgn payload); try assumption.
  - rewrite acti_roundtrip by assumption. reflexivity.
  - apply tokval_fmt_X. exact Hn.
  - rewrite Hl. apply tokval_fmt_X. lia.
  - apply byte_pairs. exact Hb.
  - reflexivity.
Qed.

(* ---------------- C07: all five front-ends hand `_decode` the same tuple ---------------- *)
Theorem frontends (ts_ok : Z -> list Z -> bool) id data :
  0 <= id < 536870912 -> bytes_ok data = true ->
  let '(pgn, src, dst, prio) := extract_header id in
  let T := fun c : bool => Ok (Some (pgn, prio, src, dst, rev data, c)) in
  (forall t pad, Z.land t 15 = zlen data -> parse_tcp (t :: be4 id ++ data ++ pad) = T false) /\
  (forall b2 b3 b4 pad r, (length data + length pad = 8)%nat ->
      parse_usb (usb_render b2 b3 b4 id data pad r) = T false) /\
  (forall ts ptok gtok stok dtok ltok dts extra c,
      basic_ts ts_ok ts -> dec_tok ptok prio -> dec_tok gtok pgn -> dec_tok stok src -> dec_tok dtok dst ->
      dec_tok ltok (zlen data) -> Forall2 (fun t b => tokval 16 t = Some b) dts data ->
      Forall (fun t => nocomma t /\ all_ascii t = true) extra -> dts ++ extra <> [] ->
      parse_basic ts_ok (basic_line ts ptok gtok stok dtok ltok dts extra) c = T c) /\
  (data <> [] -> forall ts dir idt dts tail,
      ts_tok ts_ok 0 ts -> dir_tok dir -> tokval 16 idt = Some id ->
      Forall2 (fun t b => tokval 16 t = Some b) dts data -> forallb is_ws tail = true ->
      parse_yd ts_ok (yd_line ts dir idt dts tail) = T false) /\
  (data <> [] -> forall sec ms ntok ptok dtoks tail,
      acti_ts_ok sec ms -> tokval 16 ntok = Some (acti_build src dst prio) -> tokval 16 ptok = Some pgn ->
      Forall2 (fun t b => length t = 2%nat /\ tokval 16 t = Some b) dtoks data -> forallb is_ws tail = true ->
      parse_acti (acti_line sec ms ntok ptok (concat dtoks) tail) = T true).
Proof.
  intros Hid Hb. pose proof (extract_then_build id Hid) as HX.
  destruct (extract_header id) as [[[pgn src] dst] prio] eqn:E.
  destruct HX as (_ & _ & Hq & Hs & Hd).
  assert (HT : forall c, Ok (target id data c) = Ok (Some (pgn, prio, src, dst, rev data, c)))
    by (intros c; unfold target; rewrite E; reflexivity).
  cbv zeta. repeat split.
  - intros t pad Ht. rewrite parse_tcp_render by (assumption || lia). apply HT.
  - intros b2 b3 b4 pad r Hl. rewrite parse_usb_render by (assumption || lia). apply HT.
  - intros. apply parse_basic_render; assumption.
  - intros Hne ts dir idt dts tail Hts Hdir Hidt HF Htail.
    rewrite (parse_yd_render ts_ok ts dir idt dts tail id data); try assumption. apply HT.
  - intros Hne sec ms ntok ptok dtoks tail Hts Hn Hp HF Htail.
    rewrite (parse_acti_render sec ms ntok ptok dtoks tail (acti_build src dst prio) pgn data); try assumption.
    rewrite acti_roundtrip by assumption. reflexivity.
Qed.

(* ---------------- packets produced by the encoders ---------------- *)
Definition frames_ok (msgs : list (list Z)) : Prop :=
  Forall (fun d => bytes_ok d = true /\ (length d <= 8)%nat) msgs.
Definition produced (enc : Z -> Z -> Z -> Z -> list (list Z) -> result (list (list Z))) (p : list Z) : Prop :=
  exists pgn src dst prio msgs pk,
    hdr_ok pgn src dst prio /\ frames_ok msgs /\ enc pgn src dst prio msgs = Ok pk /\ In p pk.

Lemma ebyte_produced p : produced enc_ebyte p -> length p = 13%nat.
Proof.
  intros (pgn & src & dst & prio & msgs & pk & Hh & Hm & He & Hin).
  pose proof (build_header_range _ _ _ _ Hh) as Hr. unfold enc_ebyte in He.
  rewrite (enc_check_ok _ _ _ _ Hh) in He. cbn [bind] in He. rewrite to_be4_ok in He by assumption. cbn [bind] in He.
  injection He as <-. apply in_map_iff in Hin. destruct Hin as (d & <- & Hd).
  unfold frames_ok in Hm. rewrite Forall_forall in Hm. destruct (Hm d Hd) as [_ Hl].
  apply ebyte_size; [reflexivity | exact Hl].
Qed.

Definition usb_pkt (id : Z) (d : list Z) : list Z := usb_render 1 2 1 id d (zeros (8 - zlen d)) 0.
Lemma usb_produced p : produced enc_usb p -> usb_shaped p.
Proof.
  intros (pgn & src & dst & prio & msgs & pk & Hh & Hm & He & Hin).
  pose proof (build_header_range _ _ _ _ Hh) as Hr. unfold frames_ok in Hm. rewrite Forall_forall in Hm.
  unfold enc_usb in He.
  rewrite (enc_check_ok _ _ _ _ Hh) in He. cbn [bind] in He. rewrite to_le4_ok in He by assumption. cbn [bind] in He.
  rewrite (map_result_ok _ (usb_pkt (build_header pgn src dst prio))) in He
    by (intros d Hd; apply enc_usb1_render; destruct (Hm d Hd) as [_ Hl]; exact Hl).
  injection He as <-. apply in_map_iff in Hin. destruct Hin as (d & <- & Hd).
  destruct (Hm d Hd) as [_ Hl]. unfold usb_pkt. apply usb_render_shaped. rewrite zeros_length. unfold zlen. lia.
Qed.

Lemma usb_produced_accepted p : produced enc_usb p -> exists a, parse_usb p = Ok (Some a).
Proof.
  intros (pgn & src & dst & prio & msgs & pk & Hh & Hm & He & Hin).
  pose proof (build_header_range _ _ _ _ Hh) as Hr. unfold frames_ok in Hm. rewrite Forall_forall in Hm.
  unfold enc_usb in He.
  rewrite (enc_check_ok _ _ _ _ Hh) in He. cbn [bind] in He. rewrite to_le4_ok in He by assumption. cbn [bind] in He.
  rewrite (map_result_ok _ (usb_pkt (build_header pgn src dst prio))) in He
    by (intros d Hd; apply enc_usb1_render; destruct (Hm d Hd) as [_ Hl]; exact Hl).
  injection He as <-. apply in_map_iff in Hin. destruct Hin as (d & <- & Hd).
  destruct (Hm d Hd) as [_ Hl]. unfold usb_pkt. eexists. apply parse_usb_render; [lia|].
  rewrite zeros_length. unfold zlen. lia.
Qed.

(* a packet decode_usb hands on has a valid checksum byte *)
Lemma parse_usb_valid p a : parse_usb p = Ok (Some a) -> checksum p = nth 19 p 0.
Proof.
  unfold parse_usb. destruct p as [|x [|y t]]; try discriminate.
  - destruct (negb (x =? 170)); discriminate.
  - destruct (negb (x =? 170)); [discriminate|]. destruct (negb (y =? 85)); [discriminate|].
    destruct (negb (zlen (x :: y :: t) =? 20)); [discriminate|].
    destruct (checksum (x :: y :: t) =? nth 19 (x :: y :: t) 0) eqn:E; cbn [negb]; [|discriminate].
    intros _. apply Z.eqb_eq. exact E.
Qed.

Lemma yd_produced p : produced enc_yd p ->
  exists body, p = body ++ [13; 10] /\ forallb (fun c => negb (c =? 10) && negb (c =? 13)) body = true.
Proof.
  intros (pgn & src & dst & prio & msgs & pk & Hh & Hm & He & Hin).
  pose proof (build_header_range _ _ _ _ Hh) as Hr. unfold enc_yd in He.
  rewrite (enc_check_ok _ _ _ _ Hh) in He. cbn [bind] in He. rewrite to_be4_ok in He by assumption. cbn [bind] in He.
  injection He as <-. apply in_map_iff in Hin. destruct Hin as (d & <- & Hd).
  unfold frames_ok in Hm. rewrite Forall_forall in Hm. destruct (Hm d Hd) as [Hb _].
  apply yd_packet_is_line; [apply be4_bytes_ok; lia | exact Hb].
Qed.

Lemma yd_produced_line p : produced enc_yd p -> is_line p.
Proof.
  intros H. destruct (yd_produced p H) as (body & -> & Hb).
  exists (body ++ [13]). split; [rewrite <- app_assoc; reflexivity|].
  rewrite forallb_app. cbn [forallb]. change (negb (13 =? 10)) with true. rewrite andb_true_r.
  revert Hb. apply forallb_impl. intros c. lia.
Qed.

(* C06_sizes *)
Theorem packet_sizes p :
  (produced enc_ebyte p -> length p = 13%nat) /\
  (produced enc_usb p -> length p = 20%nat /\ checksum p = nth 19 p 0) /\
  (produced enc_yd p -> exists body, p = body ++ [13; 10] /\
                          forallb (fun c => negb (c =? 10) && negb (c =? 13)) body = true).
Proof.
  split; [apply ebyte_produced | split; [|apply yd_produced]]. intros H. destruct (usb_produced p H) as [Hl _].
  split; [exact Hl|]. destruct (usb_produced_accepted p H) as [a Ha]. exact (parse_usb_valid p a Ha).
Qed.

(* C06_split *)
Theorem split_back pkts :
  (Forall (produced enc_ebyte) pkts -> chunks 13 (concat pkts) = pkts) /\
  (Forall (produced enc_usb) pkts -> chunks 20 (concat pkts) = pkts /\ serial_frames (concat pkts) = pkts) /\
  (Forall (produced enc_yd) pkts -> lines (concat pkts) = pkts).
Proof.
  split; [|split].
  - intros H. apply chunks_concat; [lia|]. revert H. apply Forall_impl. exact ebyte_produced.
  - intros H. assert (Hs : Forall usb_shaped pkts) by (revert H; apply Forall_impl; exact usb_produced).
    split; [|apply serial_frames_concat; exact Hs].
    apply chunks_concat; [lia|]. revert Hs. apply Forall_impl. intros p [Hl _]. exact Hl.
  - intros H. apply lines_concat. revert H. apply Forall_impl. exact yd_produced_line.
Qed.

(* the encoders do produce packets for every in-range frame list (non-vacuity of `produced`) *)
Lemma produced_ebyte_ex pgn src dst prio d : hdr_ok pgn src dst prio -> bytes_ok d = true -> (length d <= 8)%nat ->
  exists p, produced enc_ebyte p.
Proof.
  intros Hh Hb Hl. destruct (roundtrip_ebyte pgn src dst prio [d] Hh) as (pk & He & Hp); [constructor; [exact Hl | constructor]|].
  destruct pk as [|p pk]; [discriminate Hp|]. exists p, pgn, src, dst, prio, [d], (p :: pk).
  split; [exact Hh|]. split; [constructor; [split; assumption | constructor]|]. split; [exact He | left; reflexivity].
Qed.

(* ---------------- C07, second sentence: frame by frame versus pre-assembled ---------------- *)
(* a frame delivered through one of the three frame-level formats *)
Inductive frame_input := InTcp (p : list Z) | InUsb (p : list Z) | InYd (s : list Z).
Definition parse_frame_input (ts_ok : Z -> list Z -> bool) (i : frame_input) : result (option dec_args) :=
  match i with InTcp p => parse_tcp p | InUsb p => parse_usb p | InYd s => parse_yd ts_ok s end.
Inductive renders (ts_ok : Z -> list Z -> bool) (id : Z) (f : list Z) : frame_input -> Prop :=
| R_tcp t pad : Z.land t 15 = zlen f -> renders ts_ok id f (InTcp (t :: be4 id ++ f ++ pad))
| R_usb b2 b3 b4 pad r : (length f + length pad = 8)%nat -> renders ts_ok id f (InUsb (usb_render b2 b3 b4 id f pad r))
| R_yd ts dir idt dts tail :
    f <> [] -> ts_tok ts_ok 0 ts -> dir_tok dir -> tokval 16 idt = Some id ->
    Forall2 (fun t b => tokval 16 t = Some b) dts f -> forallb is_ws tail = true ->
    renders ts_ok id f (InYd (yd_line ts dir idt dts tail)).

Lemma renders_parse ts_ok id f i : 0 <= id < 536870912 -> bytes_ok f = true -> renders ts_ok id f i ->
  parse_frame_input ts_ok i = Ok (target id f false).
Proof.
  intros Hid Hb H. destruct H; cbn [parse_frame_input].
  - apply parse_tcp_render; [lia | assumption].
  - apply parse_usb_render; [lia | assumption].
  - apply parse_yd_render; assumption.
Qed.

Section Assembled.
Variable ts_ok : Z -> list Z -> bool.
(* the fast-packet segmenter (any sequence counter) and the decoder's reassembly of the `can_data` arguments of
   successive `_decode` calls for one (pgn, source, destination) from a fresh state: C03 / C04 provide them *)
Variable segment : list Z -> list (list Z).
Variable reasm : list (list Z) -> option (list Z).
Hypothesis seg_bytes : forall payload, bytes_ok payload = true -> Forall (fun f => bytes_ok f = true) (segment payload).
Hypothesis seg_reasm : forall payload, bytes_ok payload = true -> payload <> [] ->
  reasm (map (@rev Z) (segment payload)) = Some (rev payload).

Theorem assembled id payload inputs :
  0 <= id < 536870912 -> bytes_ok payload = true -> payload <> [] ->
  Forall2 (renders ts_ok id) (segment payload) inputs ->
  let '(pgn, src, dst, prio) := extract_header id in
  (exists datas,
      map (parse_frame_input ts_ok) inputs = map (fun d => Ok (Some (pgn, prio, src, dst, d, false))) datas /\
      reasm datas = Some (rev payload)) /\
  (forall sec ms ntok ptok dtoks tail,
      acti_ts_ok sec ms -> tokval 16 ntok = Some (acti_build src dst prio) -> tokval 16 ptok = Some pgn ->
      Forall2 (fun t b => length t = 2%nat /\ tokval 16 t = Some b) dtoks payload -> forallb is_ws tail = true ->
      parse_acti (acti_line sec ms ntok ptok (concat dtoks) tail) = Ok (Some (pgn, prio, src, dst, rev payload, true))) /\
  (forall ts ptok gtok stok dtok ltok dts extra,
      basic_ts ts_ok ts -> dec_tok ptok prio -> dec_tok gtok pgn -> dec_tok stok src -> dec_tok dtok dst ->
      dec_tok ltok (zlen payload) -> Forall2 (fun t b => tokval 16 t = Some b) dts payload ->
      Forall (fun t => nocomma t /\ all_ascii t = true) extra -> dts ++ extra <> [] ->
      parse_basic ts_ok (basic_line ts ptok gtok stok dtok ltok dts extra) true
      = Ok (Some (pgn, prio, src, dst, rev payload, true))).
Proof.
  intros Hid Hb Hne HF.
  pose proof (frontends ts_ok id payload Hid Hb) as HX.
  destruct (extract_header id) as [[[pgn src] dst] prio] eqn:E. cbv zeta in HX.
  destruct HX as (_ & _ & Hbasic & _ & Hacti).
  split; [|split].
  - exists (map (@rev Z) (segment payload)). split; [|apply seg_reasm; assumption].
    pose proof (seg_bytes payload Hb) as Hsb. clear Hbasic Hacti.
    induction HF as [|f i fs is Hr HF IH]; [reflexivity|].
    inversion Hsb as [|? ? Hbf Hbfs]; subst. cbn [map].
    rewrite (renders_parse ts_ok id f i Hid Hbf Hr). unfold target. rewrite E. cbn [mk_args].
    f_equal. apply IH. exact Hbfs.
  - intros. apply Hacti; assumption.
  - intros. apply Hbasic; assumption.
Qed.
End Assembled.
