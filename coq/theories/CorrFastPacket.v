(* CorrFastPacket.v — checkers used by the C03 / C04 correspondence cases (tools/props/c03.py, c04.py). *)
From NV Require Import Base Header FastPacket.

(* ---- encoder: ((seq, payload), (observed frames or None for ValueError, observed counter afterwards)) *)
Definition frames_eqb (a b : list (list Z)) : bool := list_eqb (list_eqb Z.eqb) a b.
Definition chk_enc (c : (Z * list Z) * (option (list (list Z)) * Z)) : bool :=
  let '((seq, payload), (obs, seq')) := c in
  let '(r, s) := encode_fast seq payload in
  (s =? seq') &&
  match r, obs with
  | Ok fs, Some fs' => frames_eqb fs fs'
  | Err _, None => true
  | _, _ => false
  end.

(* a list of payloads through ONE encoder object: ((seq0, payloads), observed frames per message) *)
Definition chk_enc_run (c : (Z * list (list Z)) * list (list (list Z))) : bool :=
  let '((seq, ps), obs) := c in list_eqb frames_eqb (enc_run seq ps) obs.

(* ---- decoder: histories of 13-byte EByte packets through NMEA2000Decoder.decode_tcp *)
Inductive obs :=
| ONone                 (* returned None *)
| OMsg (z : Z)          (* returned the fallback definition's message; z = the payload integer rebuilt from its fields *)
| ODec                  (* the PGN decode function raised *)
| OIndex                (* IndexError *)
| OOther.               (* anything else (never equal to a model output) *)
Definition obs_eqb (a b : obs) : bool :=
  match a, b with
  | ONone, ONone | ODec, ODec | OIndex, OIndex => true
  | OMsg x, OMsg y => x =? y
  | _, _ => false
  end.

(* little-endian integer of wire-order bytes = int.from_bytes(reversed, "big") *)
Fixpoint le_int (l : list Z) : Z := match l with [] => 0 | b :: t => b + 256 * le_int t end.

(* decode_tcp (decoder.py:297-321): length nibble, big-endian identifier, data in wire order *)
Definition tcp_frame (packet : list Z) : key * list Z :=
  let dl := Z.land (nth 0 packet 0) 15 in
  let id := fold_left (fun a b => a * 256 + b) (firstn 4 (skipn 1 packet)) 0 in
  let '(pgn, src, dst, _) := extract_header id in
  ((pgn, src, dst), firstn (Z.to_nat dl) (skipn 5 packet)).

(* the fallback definitions of 126720 / 130816 expose 16 + 1768 payload bits *)
Definition obs_of (o : out) : obs :=
  match o with
  | Nothing => ONone
  | Deliver p => OMsg (Z.land (le_int p) (Z.ones 1784))
  | DecRaise _ => ODec
  | Raise => OIndex
  end.

Definition zmem (x : Z) (l : list Z) : bool := existsb (Z.eqb x) l.

(* the reassembly buffers left at the end of a history (decoder.data), when the harness could read them:
   per key (payload_length, bytes_stored, sequence_counter) and the stored frames by frame counter, wire order *)
Definition fr_eqb (a b : fr) : bool := (fst a =? fst b) && list_eqb Z.eqb (snd a) (snd b).
Definition rec_obs := ((Z * Z * Z) * list fr)%type.
Definition rec_eqb (r : rec) (o : rec_obs) : bool :=
  let '((pl, sv, sq), fs) := o in
  (plen r =? pl) && (stored r =? sv) && (rseq r =? sq) && list_eqb fr_eqb (frames r) fs.
Definition state_ok (g : gstate) (o : option (list (key * rec_obs))) : bool :=
  match o with
  | None => true
  | Some l => Nat.eqb (length g) (length l) &&
              forallb (fun ko => match lookup (fst ko) g with Some r => rec_eqb r (snd ko) | None => false end) l
  end.

(* (((((fast PGNs, single-frame PGNs), PGNs whose decode function raises on every payload), packets),
      observed per packet), final buffers); any other PGN has no is_fast_pgn_N function *)
Definition chk_hist (c : ((((list Z * list Z) * list Z) * list (list Z)) * list obs) * option (list (key * rec_obs))) : bool :=
  let '(((((fast, single), raising), packets), observed), final) := c in
  let isfast pgn := if zmem pgn fast then Some true else if zmem pgn single then Some false else None in
  let dok (k : key) (_ : list Z) := let '(pgn, _, _) := k in negb (zmem pgn raising) in
  let '(g, outs) := dec_run isfast dok [] (map tcp_frame packets) in
  list_eqb obs_eqb (map (fun ko => obs_of (snd ko)) outs) observed && state_ok g final.
