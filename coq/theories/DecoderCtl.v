(* DecoderCtl.v — model of the filter / identity / reassembly control layer of
   nmea2000/decoder.py (REPAIRED code: fixes F-include, F-unknown-mfr, F-pad):
     NMEA2000Decoder.__init__ (27-76), split_pgn_list (78-92),
     _decode (383-423), _call_decode_function (425-471),
     _decode_fast_message (94-178)  [step function copied from DESIGN Appendix C /
                                     FastPacket.v, which another file owns],
   and nmea2000/message.py IsoName.__init__ (196-214), add_data (37-44).
   Models only, no proofs.  Python int = Z, str = list Z (bytes of the ASCII text),
   bytes = list Z in WIRE order (the code works on the reversed byte string; its
   `can_data[-1]` is the first wire byte).  The per-PGN decode function, `is_fast`
   are Section variables: everything below is generic in the database. *)
From NV Require Import Base.

(* ------------------------------------------------------------------ strings *)
Definition str := list Z.
Definition lower_ch (c : Z) : Z := if (65 <=? c) && (c <=? 90) then c + 32 else c.
Definition lower (s : str) : str := map lower_ch s.
Definition ascii (s : str) : bool := forallb (fun c => (0 <=? c) && (c <? 128)) s.
Definition str_eqb (a b : str) : bool := list_eqb Z.eqb a b.
Definition mem_z (x : Z) (l : list Z) : bool := existsb (Z.eqb x) l.
Definition mem_s (x : str) (l : list str) : bool := existsb (str_eqb x) l.
Definition is_nil {A} (l : list A) : bool := match l with [] => true | _ => false end.

Definition EValue : err := ERange.      (* Python ValueError *)
Definition CLAIM : Z := 60928.          (* ISO_CLAIM_PGN *)
(* ISO_CLAIM_PGN_ID = "isoAddressClaim" *)
Definition claim_id : str := [105;115;111;65;100;100;114;101;115;115;67;108;97;105;109].

(* ------------------------------------------------------------------ configuration *)
Inductive pitem := PInt (n : Z) | PStr (s : str) | POther.

(* split_pgn_list: ints and lower-cased strs, in order; anything else raises ValueError *)
Fixpoint split_pgn_list (l : list pitem) : result (list Z * list str) :=
  match l with
  | [] => Ok ([], [])
  | PInt n :: t => do r <- split_pgn_list t; Ok (n :: fst r, snd r)
  | PStr s :: t => if ascii s then do r <- split_pgn_list t; Ok (fst r, lower s :: snd r) else Unmodelled
  | POther :: _ => Err EValue
  end.

Record cfg := {
  ex_nums : list Z; ex_ids : list str;       (* self.exclude_pgns, self.exclude_pgns_ids *)
  inc_nums : list Z; inc_ids : list str;     (* self.include_pgns, self.include_pgns_ids *)
  ex_mfr : list str; inc_mfr : list str;     (* the two lower-cased manufacturer sets *)
  netmap : bool;                             (* build_network_map *)
  claim_filter : bool                        (* self.iso_claim_filter *)
}.

Definition remove_z (x : Z) (l : list Z) : list Z := filter (fun y => negb (x =? y)) l.
Definition remove_s (x : str) (l : list str) : list str := filter (fun y => negb (str_eqb x y)) l.
Definition has_inc (c : cfg) : bool := negb (is_nil (inc_nums c)) || negb (is_nil (inc_ids c)).

(* __init__ (repaired lines 62-70): the claim is filtered exactly when the general rule rejects
   (60928, "isoaddressclaim"); then the in-place removals *)
Definition mk_cfg (ex inc : list pitem) (exm incm : list str) (nm : bool) : result cfg :=
  if negb (is_nil ex) && negb (is_nil inc) then Err EValue else
  do e <- split_pgn_list ex;
  do i <- split_pgn_list inc;
  if negb (forallb ascii exm && forallb ascii incm) then Unmodelled else
  let cid := lower claim_id in
  let f := mem_z CLAIM (fst e) || mem_s cid (snd e) ||
           ((negb (is_nil (fst i)) || negb (is_nil (snd i))) && negb (mem_z CLAIM (fst i)) && negb (mem_s cid (snd i))) in
  Ok {| ex_nums := if f then remove_z CLAIM (fst e) else fst e;
        ex_ids := if f then remove_s cid (snd e) else snd e;
        inc_nums := fst i; inc_ids := snd i;
        ex_mfr := map lower exm; inc_mfr := map lower incm;
        netmap := nm; claim_filter := f |}.

(* ------------------------------------------------------------------ identity (message.py IsoName) *)
Inductive fval := FInt (z : Z) | FStr (s : str) | FNone | FOther.

Record iso := {
  i_unique : Z; i_mfr : option str; i_inst : Z; i_func : option str; i_class : option str;
  i_sys : Z; i_ind : option str; i_aac : bool; i_name : Z }.

Fixpoint field_by_id (id : str) (fs : list (str * fval)) : result fval :=   (* get_field_by_id *)
  match fs with
  | [] => Err EValue
  | (k, v) :: t => if str_eqb k id then Ok v else field_by_id id t
  end.
(* get_field_int_value_by_id(id, 0) *)
Definition field_int0 (id : str) (fs : list (str * fval)) : result Z :=
  do v <- field_by_id id fs; match v with FInt z => Ok z | _ => Ok 0 end.
(* get_field_str_value_by_id(id) *)
Definition field_str (id : str) (fs : list (str * fval)) : result (option str) :=
  do v <- field_by_id id fs;
  match v with FStr s => Ok (Some s) | FNone => Ok None | _ => Err EValue end.

Definition s_uniqueNumber : str := [117;110;105;113;117;101;78;117;109;98;101;114].
Definition s_manufacturerCode : str := [109;97;110;117;102;97;99;116;117;114;101;114;67;111;100;101].
Definition s_deviceInstanceUpper : str := [100;101;118;105;99;101;73;110;115;116;97;110;99;101;85;112;112;101;114].
Definition s_deviceInstanceLower : str := [100;101;118;105;99;101;73;110;115;116;97;110;99;101;76;111;119;101;114].
Definition s_deviceFunction : str := [100;101;118;105;99;101;70;117;110;99;116;105;111;110].
Definition s_deviceClass : str := [100;101;118;105;99;101;67;108;97;115;115].
Definition s_systemInstance : str := [115;121;115;116;101;109;73;110;115;116;97;110;99;101].
Definition s_industryGroup : str := [105;110;100;117;115;116;114;121;71;114;111;117;112].
Definition s_arbitraryAddressCapable : str :=
  [97;114;98;105;116;114;97;114;121;65;100;100;114;101;115;115;67;97;112;97;98;108;101].
Definition s_Yes : str := [89;101;115].

Definition opt_str_eqb (a b : option str) : bool := option_eqb str_eqb a b.

(* IsoName.__init__(message, name) *)
Definition iso_of_fields (fs : list (str * fval)) (name : Z) : result iso :=
  do u <- field_int0 s_uniqueNumber fs;
  do m <- field_str s_manufacturerCode fs;
  do up <- field_int0 s_deviceInstanceUpper fs;
  do lo <- field_int0 s_deviceInstanceLower fs;
  do fn <- field_str s_deviceFunction fs;
  do cl <- field_str s_deviceClass fs;
  do sy <- field_int0 s_systemInstance fs;
  do ig <- field_str s_industryGroup fs;
  do aac <- field_str s_arbitraryAddressCapable fs;
  Ok {| i_unique := u; i_mfr := m; i_inst := Z.lor (Z.shiftl up 3) lo; i_func := fn; i_class := cl;
        i_sys := sy; i_ind := ig; i_aac := opt_str_eqb aac (Some s_Yes); i_name := name |}.

(* ------------------------------------------------------------------ reassembly record (Appendix C) *)
Definition fr := (Z * list Z)%type.
Record rec := { frames : list fr; plen : Z; stored : Z; rseq : Z }.
Definition new_rec := {| frames := []; plen := 0; stored := 0; rseq := -1 |}.

Fixpoint has (k : Z) (fs : list fr) : bool :=
  match fs with [] => false | (k',_) :: t => (k =? k') || has k t end.
Fixpoint ins (k : Z) (d : list Z) (fs : list fr) : list fr :=
  match fs with
  | [] => [(k,d)]
  | (k',d') :: t => if k <? k' then (k,d) :: fs else (k',d') :: ins k d t
  end.
Definition payload_of (fs : list fr) : list Z := concat (map snd fs).
(* F-pad repair: wire-order concatenation cut to the announced length *)
Definition delivered (r : rec) : list Z := firstn (Z.to_nat (plen r)) (payload_of (frames r)).

(* the record is mutated in place; every outcome carries the record as it is afterwards *)
Inductive fp_out := FpNothing (r : rec) | FpRaise (r : rec) | FpDeliver (r : rec) (p : list Z).

Definition finish (r : rec) : fp_out :=
  if plen r <=? stored r then FpDeliver r (delivered r) else FpNothing r.

Definition fp_step (st : option rec) (can : list Z) : fp_out :=
  let r := match st with Some r => r | None => new_rec end in
  match can with
  | [] => FpRaise r
  | b0 :: rest =>
    let sc := (b0 / 32) mod 8 in
    let fc := b0 mod 32 in
    if negb (fc =? 0) && (plen r =? 0) then FpNothing r
    else if (fc =? 0) && negb (sc =? rseq r) then
      match rest with
      | [] => FpRaise r
      | total :: data =>
        finish {| frames := [(0, data)]; plen := total; stored := zlen data; rseq := sc |}
      end
    else if negb (sc =? rseq r) then FpNothing r
    else if has fc (frames r) then FpNothing r
    else finish {| frames := ins fc rest (frames r); plen := plen r; stored := stored r + zlen rest; rseq := rseq r |}
  end.

(* ------------------------------------------------------------------ state *)
Definition key := (Z * Z * Z)%type.    (* f"{pgn}_{src}_{dest}" *)
Definition key_eqb (a b : key) : bool :=
  let '(p,s,d) := a in let '(p',s',d') := b in (p =? p') && (s =? s') && (d =? d').

Fixpoint klookup {V} (k : key) (l : list (key * V)) : option V :=
  match l with [] => None | (k', v) :: t => if key_eqb k k' then Some v else klookup k t end.
Definition kremove {V} (k : key) (l : list (key * V)) : list (key * V) :=
  filter (fun kv => negb (key_eqb k (fst kv))) l.
Definition kset {V} (k : key) (v : V) (l : list (key * V)) : list (key * V) := (k, v) :: kremove k l.

Fixpoint zlookup {V} (k : Z) (l : list (Z * V)) : option V :=
  match l with [] => None | (k', v) :: t => if k =? k' then Some v else zlookup k t end.
Definition zset {V} (k : Z) (v : V) (l : list (Z * V)) : list (Z * V) :=
  (k, v) :: filter (fun kv => negb (k =? fst kv)) l.

Record state := { reasm : list (key * rec); srcmap : list (Z * iso) }.
Definition init : state := {| reasm := []; srcmap := [] |}.

(* one call of _decode: header fields, CAN data in wire order, and the clock input
   `started_at > now - 10 min` *)
Record call := { c_pgn : Z; c_src : Z; c_dst : Z; c_data : list Z; c_win : bool }.

(* what a per-PGN decode function returns: message PGN, id, the fields IsoName reads, a digest of the content *)
Record dmsg := { d_pgn : Z; d_id : str; d_fields : list (str * fval); d_body : Z }.
(* what the caller receives *)
Record msg := { m_pgn : Z; m_id : str; m_src : Z; m_dst : Z; m_iso : option iso; m_body : Z }.

Fixpoint le_int (l : list Z) : Z :=       (* int.from_bytes(reversed wire bytes, "big") *)
  match l with [] => 0 | b :: t => b + 256 * le_int t end.

Section Ctl.
  (* decode_pgn_<pgn>(data_int): Ok None = no function / dispatcher found nothing; Err = it raised *)
  Variable decode : Z -> Z -> result (option dmsg).
  (* _isFastPGN: Ok None = no is_fast_pgn_<pgn>; Err = it raised *)
  Variable is_fast : Z -> result (option bool).

  (* manufacturer test of _decode (repaired line 403): a claimed source with an unknown
     manufacturer (None) is in no list *)
  Definition mfr_blocked (c : cfg) (i : iso) : bool :=
    match i_mfr i with
    | Some s => mem_s (lower s) (ex_mfr c) || (negb (is_nil (inc_mfr c)) && negb (mem_s (lower s) (inc_mfr c)))
    | None => negb (is_nil (inc_mfr c))
    end.
  Definition mfr_modelled (i : iso) : bool := match i_mfr i with Some s => ascii s | None => true end.

  Inductive pre := PreDrop | PreUnmodelled | PreGo (i : option iso).

  (* _decode lines 386-411 *)
  Definition prefilter (c : cfg) (st : state) (cl : call) : pre :=
    let pgn := c_pgn cl in
    if pgn =? CLAIM then PreGo None
    else if mem_z pgn (ex_nums c) then PreDrop
    else if negb (is_nil (inc_nums c)) && is_nil (inc_ids c) && negb (mem_z pgn (inc_nums c)) then PreDrop
    else match zlookup (c_src cl) (srcmap st) with
         | None => if netmap c && c_win cl then PreDrop else PreGo None
         | Some i => if negb (mfr_modelled i) then PreUnmodelled
                     else if mfr_blocked c i then PreDrop else PreGo (Some i)
         end.

  (* claim handling of _call_decode_function lines 440-449 *)
  Definition claim_update (sm : list (Z * iso)) (src data_int : Z) (m : dmsg) : result (list (Z * iso) * iso) :=
    let fresh := do n <- iso_of_fields (d_fields m) data_int; Ok (zset src n sm, n) in
    match zlookup src sm with
    | Some o => if i_name o =? data_int then Ok (sm, o) else fresh
    | None => fresh
    end.

  (* id-based filter, lines 454-461 (repaired) *)
  Definition id_dropped (c : cfg) (pgn : Z) (id : str) : bool :=
    let lid := lower id in
    mem_s lid (ex_ids c) || (has_inc c && negb (mem_z pgn (inc_nums c)) && negb (mem_s lid (inc_ids c))).

  (* _call_decode_function, lines 425-449: find and run the decode function, claim handling; the result is the
     message as add_data (line 463) will complete it.  (The ASCII gate belongs to the model, not to the code:
     ids are lower-cased below, and non-ASCII ids are outside the model.) *)
  Definition decode_and_claim (sm : list (Z * iso)) (pgn src dst data_int : Z) (i : option iso)
    : list (Z * iso) * result (option msg) :=
    match decode pgn data_int with
    | Err e => (sm, Err e)
    | Unmodelled => (sm, Unmodelled)
    | Ok None => (sm, Ok None)
    | Ok (Some m) =>
      let after_claim :=
        if d_pgn m =? CLAIM
        then do r <- claim_update sm src data_int m; Ok (fst r, Some (snd r))
        else Ok (sm, i) in
      match after_claim with
      | Err e => (sm, Err e)
      | Unmodelled => (sm, Unmodelled)
      | Ok (sm', i') =>
        if negb (ascii (d_id m)) then (sm', Unmodelled)
        else (sm', Ok (Some {| m_pgn := d_pgn m; m_id := d_id m; m_src := src; m_dst := dst;
                               m_iso := i'; m_body := d_body m |}))
      end
    end.

  (* lines 450-461: suppression of a filtered claim, id-based exclude / include *)
  Definition id_filter (c : cfg) (pgn : Z) (m : msg) : option msg :=
    if (m_pgn m =? CLAIM) && claim_filter c then None
    else if id_dropped c pgn (m_id m) then None
    else Some m.

  Definition call_decode (c : cfg) (sm : list (Z * iso)) (pgn src dst data_int : Z) (i : option iso)
    : list (Z * iso) * result (option msg) :=
    let '(sm', r) := decode_and_claim sm pgn src dst data_int i in
    (sm', match r with Ok (Some m) => Ok (id_filter c pgn m) | other => other end).

  Definition is_ok {A} (r : result A) : bool := match r with Ok _ => true | _ => false end.

  (* _decode *)
  Definition ctl_step (c : cfg) (st : state) (cl : call) : state * result (option msg) :=
    match prefilter c st cl with
    | PreDrop => (st, Ok None)
    | PreUnmodelled => (st, Unmodelled)
    | PreGo i =>
      match is_fast (c_pgn cl) with
      | Err e => (st, Err e)
      | Unmodelled => (st, Unmodelled)
      | Ok None => (st, Ok None)
      | Ok (Some false) =>
        let '(sm', r) := call_decode c (srcmap st) (c_pgn cl) (c_src cl) (c_dst cl) (le_int (c_data cl)) i in
        ({| reasm := reasm st; srcmap := sm' |}, r)
      | Ok (Some true) =>
        let k := (c_pgn cl, c_src cl, c_dst cl) in
        match fp_step (klookup k (reasm st)) (c_data cl) with
        | FpNothing r => ({| reasm := kset k r (reasm st); srcmap := srcmap st |}, Ok None)
        | FpRaise r => ({| reasm := kset k r (reasm st); srcmap := srcmap st |}, Err EIndex)
        | FpDeliver r p =>
          let '(sm', res) := call_decode c (srcmap st) (c_pgn cl) (c_src cl) (c_dst cl) (le_int p) i in
          (* `del self.data[key]` is only reached when _call_decode_function returned *)
          ({| reasm := if is_ok res then kremove k (reasm st) else kset k r (reasm st); srcmap := sm' |}, res)
        end
      end
    end.

  (* a history *)
  Fixpoint run (c : cfg) (st : state) (h : list call) : list (state * result (option msg)) :=
    match h with
    | [] => []
    | cl :: t => let so := ctl_step c st cl in so :: run c (fst so) t
    end.
  Definition final (c : cfg) (st : state) (h : list call) : state :=
    fold_left (fun s cl => fst (ctl_step c s cl)) h st.
End Ctl.

(* a raising call counts as "no message" *)
Definition as_msg (r : result (option msg)) : option msg := match r with Ok (Some m) => Some m | _ => None end.
