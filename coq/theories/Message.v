(* Message.v — model of nmea2000/message.py (add_data hash 37-55, apply_preferred_units 58-87,
   to_json/from_json 99-114, NMEA2000Field), the conversions of nmea2000/utils.py 9-85 and the
   tail of decoder._call_decode_function (decoder.py 57-58, 463-471: hash before unit conversion,
   dump filter and write).  Models only, no proofs (MessageProofs.v), no axioms.

   Conventions: a Python str that is only carried around is a [zstr] (Z numeral
   int.from_bytes(b'\x01'+utf8,'big'), as in Defn.v); a str whose characters matter (definition id,
   field id, text values, unit preferences) is [bytes] = its UTF-8 bytes.  Python float = primitive
   float (bit exact).  datetime / date / time are carried as: time-stamp = its ISO text (zstr, opaque),
   date = days since 1970-01-01, time = seconds since midnight.
   External behaviour is a Section variable: md5, str(float), round(x, n), math.degrees, the JSON
   text layer of orjson. *)
From NV Require Import Base.
From Coq Require Import PrimFloat Uint63.

Definition bytes := list Z.
Definition zstr := Z.

(* ------------------------------------------------------------------ strings *)
Definition bytes_str (b : bytes) : zstr := fold_left (fun a x => a * 256 + x) b 1.
Fixpoint str_bytes_aux (fuel : nat) (z : Z) (acc : bytes) : bytes :=
  match fuel with
  | O => acc
  | S k => if z <=? 1 then acc else str_bytes_aux k (z / 256) (z mod 256 :: acc)
  end.
Definition str_bytes (z : zstr) : bytes := str_bytes_aux (S (Z.to_nat (Z.log2 z))) z [].

Definition bytes_eqb (a b : bytes) : bool := list_eqb Z.eqb a b.
Definition ascii_lower_b (b : Z) : Z := if (65 <=? b) && (b <=? 90) then b + 32 else b.
(* str.lower(): modelled on ASCII; other text is outside the model (full Unicode case mapping) *)
Definition py_lower (s : bytes) : result bytes :=
  if forallb (fun b => (0 <=? b) && (b <? 128)) s then Ok (map ascii_lower_b s) else Unmodelled.

Fixpoint mapM {A B} (f : A -> result B) (l : list A) : result (list B) :=
  match l with
  | [] => Ok []
  | x :: r => do y <- f x; do ys <- mapM f r; Ok (y :: ys)
  end.

(* ------------------------------------------------------------------ floats *)
Definition fsame (a b : float) : bool :=          (* identical IEEE datum (all NaNs identified) *)
  match classify a, classify b with
  | FloatClass.NaN, FloatClass.NaN => true
  | FloatClass.PZero, FloatClass.PZero => true
  | FloatClass.NZero, FloatClass.NZero => true
  | FloatClass.NaN, _ | _, FloatClass.NaN => false
  | FloatClass.PZero, _ | _, FloatClass.PZero => false
  | FloatClass.NZero, _ | _, FloatClass.NZero => false
  | _, _ => (a =? b)%float
  end.
Definition is_finite (f : float) : bool := (abs f <? infinity)%float.   (* false on NaN, +-inf *)
(* int -> float, exact for |z| <= 2^53 (callers guard) *)
Definition z2f (z : Z) : float :=
  if z <? 0 then (- of_uint63 (Uint63.of_Z (- z)))%float else of_uint63 (Uint63.of_Z z).
Definition exact_int (z : Z) : bool := Z.abs z <=? 9007199254740992.

(* ------------------------------------------------------------------ values, fields, messages *)
Inductive value :=
| VNone | VInt (z : Z) | VFloat (f : float) | VText (s : bytes) | VBytes (b : bytes)
| VDate (days : Z) | VTime (secs : Z).

(* an Enum member whose value is the 1-tuple (n,)  |  the list [n] that from_json leaves there *)
Inductive pqv := PqNone | PqEnum (n : Z) | PqList (n : Z).
Inductive tyv := TyEnum (n : Z) | TyList (n : Z).

Record field := mkField {
  f_id : bytes; f_name : option zstr; f_descr : option zstr; f_unit : option zstr;
  f_value : value; f_raw : value; f_pq : pqv; f_type : tyv; f_pk : bool }.

Record isoname := mkIso {
  i_name : Z; i_unique : Z; i_mfr : option zstr; i_devinst : Z; i_func : option zstr;
  i_class : option zstr; i_sysinst : Z; i_group : option zstr; i_aac : bool }.
Inductive isov := IsoNone | IsoObj (i : isoname) | IsoDict (i : isoname).  (* object | dict after from_json *)
Inductive ttlv := TtlNone | TtlMs (n : Z) | TtlSecs (f : float).           (* timedelta(milliseconds=n) | float after from_json *)
Inductive rawv := RawNone | RawBytes (b : bytes) | RawStr (s : zstr).

Record msg := mkMsg {
  m_pgn : Z; m_id : bytes; m_descr : zstr; m_ttl : ttlv; m_fields : list field;
  m_src : Z; m_dst : Z; m_prio : Z; m_ts : zstr; m_iso : isov; m_hash : option zstr; m_raw : rawv }.

Definition set_fields (m : msg) (fs : list field) : msg :=
  mkMsg (m_pgn m) (m_id m) (m_descr m) (m_ttl m) fs (m_src m) (m_dst m) (m_prio m) (m_ts m) (m_iso m)
        (m_hash m) (m_raw m).

(* PhysicalQuantities / FieldTypes numbering of consts.py (auto(): 1-based position) *)
Definition PQ_SPEED := 11. Definition PQ_ANGLE := 12.
Definition PQ_TEMPERATURE := 23. Definition PQ_PRESSURE := 24.

(* ================================================================== C17: identity hash *)
Definition US := 95.                                   (* '_' *)
Definition s_None : bytes := [78; 111; 110; 101].      (* "None" *)

Fixpoint uint_bytes (u : Decimal.uint) : bytes :=
  match u with
  | Decimal.Nil => []
  | Decimal.D0 r => 48 :: uint_bytes r | Decimal.D1 r => 49 :: uint_bytes r
  | Decimal.D2 r => 50 :: uint_bytes r | Decimal.D3 r => 51 :: uint_bytes r
  | Decimal.D4 r => 52 :: uint_bytes r | Decimal.D5 r => 53 :: uint_bytes r
  | Decimal.D6 r => 54 :: uint_bytes r | Decimal.D7 r => 55 :: uint_bytes r
  | Decimal.D8 r => 56 :: uint_bytes r | Decimal.D9 r => 57 :: uint_bytes r
  end.
(* str(int): decimal digits, leading '-' *)
Definition py_str_int (z : Z) : bytes :=
  match Z.to_int z with
  | Decimal.Pos u => uint_bytes u
  | Decimal.Neg u => 45 :: uint_bytes u
  end.

Section Hash.
  Variable md5 : bytes -> zstr.                  (* hashlib.md5(b).hexdigest() *)
  Variable py_str_float : float -> bytes.        (* str(float).encode() *)

  (* str(raw_value).encode(); bytes / date / time raw values never occur in key fields: outside the model *)
  Definition py_str (v : value) : result bytes :=
    match v with
    | VNone => Ok s_None
    | VInt z => Ok (py_str_int z)
    | VFloat f => Ok (py_str_float f)
    | VText s => Ok s
    | _ => Unmodelled
    end.

  (* message.py 51-53: for nmea_field in self.fields: if part_of_primary_key: key += "_" + str(raw_value) *)
  Fixpoint key_parts (fs : list field) : result (list bytes) :=
    match fs with
    | [] => Ok []
    | f :: r => if f_pk f then do s <- py_str (f_raw f); do t <- key_parts r; Ok (s :: t)
                else key_parts r
    end.
  Definition join_key (id : bytes) (parts : list bytes) : bytes := id ++ concat (map (cons US) parts).
  Definition hash_key (m : msg) : result bytes :=
    do ps <- key_parts (m_fields m); Ok (join_key (m_id m) ps).

  (* message.py 37-55 *)
  Record addr := mkAddr { a_src : Z; a_dst : Z; a_prio : Z; a_ts : zstr; a_iso : isov; a_raw : rawv }.
  Definition add_data (a : addr) (build_network_map : bool) (m : msg) : result msg :=
    let mk h := mkMsg (m_pgn m) (m_id m) (m_descr m) (m_ttl m) (m_fields m)
                      (a_src a) (a_dst a) (a_prio a) (a_ts a) (a_iso a) h (a_raw a) in
    if build_network_map then do k <- hash_key m; Ok (mk (Some (md5 k))) else Ok (mk None).
End Hash.

Definition key_raws (m : msg) : list value := map f_raw (filter f_pk (m_fields m)).

(* key signatures: what kind of raw value each key field of a definition carries *)
Inductive kkind := KNum | KText.
Definition kconf (k : kkind) (v : value) : Prop :=
  match k, v with
  | KNum, (VNone | VInt _ | VFloat _) => True
  | KText, VNone => True
  | KText, VText s => s <> s_None                (* F-none-text: the literal text "None" is excluded *)
  | _, _ => False
  end.
Definition kconf_b (k : kkind) (v : value) : bool :=
  match k, v with
  | KNum, (VNone | VInt _ | VFloat _) => true
  | KText, VNone => true
  | KText, VText s => negb (bytes_eqb s s_None)
  | _, _ => false
  end.
Definition no_us (s : bytes) : bool := forallb (fun b => negb (b =? US)) s.
(* a text-valued key field is the last key field *)
Fixpoint sig_ok (s : list kkind) : bool :=
  match s with
  | [] => true
  | [_] => true
  | k :: r => match k with KNum => sig_ok r | KText => false end
  end.
Fixpoint conf_list (s : list kkind) (vs : list value) : bool :=
  match s, vs with
  | [], [] => true
  | k :: s', v :: vs' => kconf_b k v && conf_list s' vs'
  | _, _ => false
  end.
Definition conf_b (sig_of : bytes -> list kkind) (m : msg) : bool :=
  no_us (m_id m) && conf_list (sig_of (m_id m)) (key_raws m).

(* ================================================================== C18: unit preferences *)
Definition prefs := list (Z * bytes).      (* PhysicalQuantities member number -> requested unit text *)
Fixpoint pref_get (q : Z) (p : prefs) : option bytes :=
  match p with [] => None | (k, v) :: r => if k =? q then Some v else pref_get q r end.

(* decoder.py 58: {k: v.lower() for k, v in preferred_units.items()} *)
Definition decoder_prefs (p : prefs) : result prefs :=
  mapM (fun kv => do l <- py_lower (snd kv); Ok (fst kv, l)) p.

Inductive target := TCelsius | TFahrenheit | TBar | TPsi | TDeg | TKts.
Definition label (t : target) : zstr :=
  match t with
  | TCelsius => 0x143 | TFahrenheit => 0x146 | TBar => 0x1426172 | TPsi => 0x1505349
  | TDeg => 0x1446567 | TKts => 0x16b7473
  end.                                      (* "C" "F" "Bar" "PSI" "Deg" "kts" *)
Definition u_c : bytes := [99]. Definition u_f : bytes := [102].
Definition u_bar : bytes := [98; 97; 114]. Definition u_psi : bytes := [112; 115; 105].
Definition u_deg : bytes := [100; 101; 103]. Definition u_kts : bytes := [107; 116; 115].

(* message.py 62-87: the four `if f.physical_quantities == ...` blocks *)
Definition recognise (p : prefs) (q : pqv) : option target :=
  match q with
  | PqEnum n =>
      if n =? PQ_TEMPERATURE then
        match pref_get PQ_TEMPERATURE p with
        | Some u => if bytes_eqb u u_c then Some TCelsius else if bytes_eqb u u_f then Some TFahrenheit else None
        | None => None end
      else if n =? PQ_PRESSURE then
        match pref_get PQ_PRESSURE p with
        | Some u => if bytes_eqb u u_bar then Some TBar else if bytes_eqb u u_psi then Some TPsi else None
        | None => None end
      else if n =? PQ_ANGLE then
        match pref_get PQ_ANGLE p with
        | Some u => if bytes_eqb u u_deg then Some TDeg else None
        | None => None end
      else if n =? PQ_SPEED then
        match pref_get PQ_SPEED p with
        | Some u => if bytes_eqb u u_kts then Some TKts else None
        | None => None end
      else None
  | _ => None
  end.

Section Units.
  Variable py_round_ndigits : float -> Z -> float.   (* round(x, n) on a float *)
  Variable math_degrees : float -> float.

  (* utils.py 9-85 on a float argument *)
  Definition conv (t : target) (x : float) : float :=
    match t with
    | TCelsius => py_round_ndigits (x - 0x1.1126666666666p+8) 2                       (* round(k - 273.15, 2) *)
    | TFahrenheit => py_round_ndigits ((x - 0x1.1126666666666p+8) * 0x1.ccccccccccccdp+0 + 32) 0
                                                                                     (* round((k - 273.15) * (9/5) + 32, 0) *)
    | TBar => x / 100000                                                              (* pascal / 100000 *)
    | TPsi => x / 0x1.aeec28f5c28f6p+12                                               (* pascal / 6894.76 *)
    | TDeg => py_round_ndigits (math_degrees x) 0                                     (* round(math.degrees(r), 0) *)
    | TKts => py_round_ndigits (x * (3600 / 1852)) 1                                  (* round(mps * (3600/1852), 1) *)
    end%float.

  (* `if x is None: return None`; int operands are converted exactly (|z| <= 2^53; int/int true
     division then equals the IEEE quotient); wider ints: correctly rounded long arithmetic, outside the
     model; str/bytes/date/time operands raise TypeError *)
  Definition convert_value (t : target) (v : value) : result value :=
    match v with
    | VNone => Ok VNone
    | VInt z => if exact_int z then Ok (VFloat (conv t (z2f z))) else Unmodelled
    | VFloat x => Ok (VFloat (conv t x))
    | _ => Err EOther
    end.

  Definition set_value_unit (f : field) (v : value) (u : option zstr) : field :=
    mkField (f_id f) (f_name f) (f_descr f) u v (f_raw f) (f_pq f) (f_type f) (f_pk f).

  Definition apply_field (p : prefs) (f : field) : result field :=
    match recognise p (f_pq f) with
    | None => Ok f
    | Some t => do v <- convert_value t (f_value f); Ok (set_value_unit f v (Some (label t)))
    end.

  (* message.py 58-87 *)
  Definition apply_units (p : prefs) (m : msg) : result msg :=
    match p with
    | [] => Ok m
    | _ => do fs <- mapM (apply_field p) (m_fields m); Ok (set_fields m fs)
    end.
End Units.

(* ================================================================== C15: JSON *)
Inductive jtree :=
| JNull | JBool (b : bool) | JInt (z : Z) | JFloat (f : float) | JStr (s : zstr)
| JList (l : list jtree) | JObj (kv : list (zstr * jtree)).

Fixpoint jeqb (a b : jtree) {struct a} : bool :=
  match a, b with
  | JNull, JNull => true
  | JBool x, JBool y => Bool.eqb x y
  | JInt x, JInt y => x =? y
  | JFloat x, JFloat y => fsame x y
  | JStr x, JStr y => x =? y
  | JList l1, JList l2 =>
      (fix go (l1 l2 : list jtree) : bool :=
         match l1, l2 with
         | [], [] => true
         | x :: r1, y :: r2 => jeqb x y && go r1 r2
         | _, _ => false
         end) l1 l2
  | JObj l1, JObj l2 =>
      (fix go (l1 l2 : list (zstr * jtree)) : bool :=
         match l1, l2 with
         | [], [] => true
         | (k1, x) :: r1, (k2, y) :: r2 => (k1 =? k2) && jeqb x y && go r1 r2
         | _, _ => false
         end) l1 l2
  | _, _ => false
  end.

(* renderings *)
Definition hexd (n : Z) : Z := if n <? 10 then 48 + n else 87 + n.
Definition hex_bytes (b : bytes) : bytes := flat_map (fun x => [hexd (x / 16); hexd (x mod 16)]) b.
Definition dig2 (n : Z) : bytes := [48 + n / 10; 48 + n mod 10].
Definition dig4 (n : Z) : bytes := [48 + n / 1000; 48 + (n / 100) mod 10; 48 + (n / 10) mod 10; 48 + n mod 10].
(* proleptic Gregorian calendar date of 1970-01-01 + days (date.isoformat) *)
Definition civil (days : Z) : Z * Z * Z :=
  let z := days + 719468 in
  let era := z / 146097 in
  let doe := z mod 146097 in
  let yoe := (doe - doe / 1460 + doe / 36524 - doe / 146096) / 365 in
  let doy := doe - (365 * yoe + yoe / 4 - yoe / 100) in
  let mp := (5 * doy + 2) / 153 in
  let d := doy - (153 * mp + 2) / 5 + 1 in
  let m := if mp <? 10 then mp + 3 else mp - 9 in
  let y := yoe + era * 400 + (if m <=? 2 then 1 else 0) in
  (y, m, d).
Definition iso_date (days : Z) : result bytes :=
  let '(y, m, d) := civil days in
  if (1 <=? y) && (y <=? 9999) then Ok (dig4 y ++ [45] ++ dig2 m ++ [45] ++ dig2 d) else Unmodelled.
Definition iso_time (secs : Z) : result bytes :=
  if (0 <=? secs) && (secs <? 86400)
  then Ok (dig2 (secs / 3600) ++ [58] ++ dig2 ((secs mod 3600) / 60) ++ [58] ++ dig2 (secs mod 60))
  else Unmodelled.

(* orjson: int outside [-2^63, 2^64) -> TypeError *)
Definition j_int (z : Z) : result jtree :=
  if (-9223372036854775808 <=? z) && (z <? 18446744073709551616) then Ok (JInt z) else Err EOther.
Definition j_float (f : float) : jtree := if is_finite f then JFloat f else JNull.   (* NaN, inf -> null *)
Definition j_ostr (o : option zstr) : jtree := match o with Some s => JStr s | None => JNull end.

Definition value_tree (v : value) : result jtree :=
  match v with
  | VNone => Ok JNull
  | VInt z => j_int z
  | VFloat f => Ok (j_float f)
  | VText s => Ok (JStr (bytes_str s))
  | VBytes b => Ok (JStr (bytes_str (hex_bytes b)))          (* default(): obj.hex() *)
  | VDate d => do s <- iso_date d; Ok (JStr (bytes_str s))
  | VTime t => do s <- iso_time t; Ok (JStr (bytes_str s))
  end.

(* JSON keys *)
Definition k_PGN := 0x150474e. Definition k_id := 0x16964. Definition k_description := 0x16465736372697074696f6e.
Definition k_ttl := 0x174746c. Definition k_fields := 0x16669656c6473. Definition k_source := 0x1736f75726365.
Definition k_destination := 0x164657374696e6174696f6e. Definition k_priority := 0x17072696f72697479.
Definition k_timestamp := 0x174696d657374616d70. Definition k_source_iso_name := 0x1736f757263655f69736f5f6e616d65.
Definition k_hash := 0x168617368. Definition k_raw_can_data := 0x17261775f63616e5f64617461.
Definition k_name := 0x16e616d65. Definition k_unit := 0x1756e69745f6f665f6d6561737572656d656e74.
Definition k_value := 0x176616c7565. Definition k_raw_value := 0x17261775f76616c7565.
Definition k_pq := 0x1706879736963616c5f7175616e746974696573. Definition k_type := 0x174797065.
Definition k_pk := 0x1706172745f6f665f7072696d6172795f6b6579.
Definition k_unique_number := 0x1756e697175655f6e756d626572. Definition k_manufacturer_code := 0x16d616e7566616374757265725f636f6465.
Definition k_device_instance := 0x16465766963655f696e7374616e6365. Definition k_device_function := 0x16465766963655f66756e6374696f6e.
Definition k_device_class := 0x16465766963655f636c617373. Definition k_system_instance := 0x173797374656d5f696e7374616e6365.
Definition k_industry_group := 0x1696e6475737472795f67726f7570.
Definition k_aac := 0x16172626974726172795f616464726573735f63617061626c65.

Definition pq_tree (q : pqv) : jtree :=
  match q with PqNone => JNull | PqEnum n | PqList n => JList [JInt n] end.
Definition ty_tree (t : tyv) : jtree := match t with TyEnum n | TyList n => JList [JInt n] end.

(* dataclass NMEA2000Field, attributes in definition order *)
Definition field_tree (f : field) : result jtree :=
  do v <- value_tree (f_value f);
  do r <- value_tree (f_raw f);
  Ok (JObj [(k_id, JStr (bytes_str (f_id f))); (k_name, j_ostr (f_name f)); (k_description, j_ostr (f_descr f));
            (k_unit, j_ostr (f_unit f)); (k_value, v); (k_raw_value, r); (k_pq, pq_tree (f_pq f));
            (k_type, ty_tree (f_type f)); (k_pk, JBool (f_pk f))]).

(* IsoName: __dict__ order of its hand-written __init__ (name first) *)
Definition iso_fields (i : isoname) : result jtree :=
  do n <- j_int (i_name i); do u <- j_int (i_unique i); do d <- j_int (i_devinst i); do s <- j_int (i_sysinst i);
  Ok (JObj [(k_name, n); (k_unique_number, u); (k_manufacturer_code, j_ostr (i_mfr i)); (k_device_instance, d);
            (k_device_function, j_ostr (i_func i)); (k_device_class, j_ostr (i_class i)); (k_system_instance, s);
            (k_industry_group, j_ostr (i_group i)); (k_aac, JBool (i_aac i))]).
Definition iso_tree (i : isov) : result jtree :=
  match i with IsoNone => Ok JNull | IsoObj i | IsoDict i => iso_fields i end.
(* timedelta.total_seconds() = microseconds / 10**6 *)
Definition ttl_tree (t : ttlv) : result jtree :=
  match t with
  | TtlNone => Ok JNull
  | TtlMs n => if exact_int (n * 1000) then Ok (j_float (z2f (n * 1000) / 1000000)%float) else Unmodelled
  | TtlSecs f => Ok (j_float f)
  end.
Definition raw_tree (r : rawv) : jtree :=
  match r with RawNone => JNull | RawBytes b => JStr (bytes_str (hex_bytes b)) | RawStr s => JStr s end.

(* message.py 99-107: orjson.dumps(self.__dict__, default=...) above the text layer *)
Definition to_tree (m : msg) : result jtree :=
  do pgn <- j_int (m_pgn m);
  do ttl <- ttl_tree (m_ttl m);
  do fs <- mapM field_tree (m_fields m);
  do src <- j_int (m_src m); do dst <- j_int (m_dst m); do prio <- j_int (m_prio m);
  do iso <- iso_tree (m_iso m);
  Ok (JObj [(k_PGN, pgn); (k_id, JStr (bytes_str (m_id m))); (k_description, JStr (m_descr m)); (k_ttl, ttl);
            (k_fields, JList fs); (k_source, src); (k_destination, dst); (k_priority, prio);
            (k_timestamp, JStr (m_ts m)); (k_source_iso_name, iso); (k_hash, j_ostr (m_hash m));
            (k_raw_can_data, raw_tree (m_raw m))]).

(* ---- from_json above the text layer: NMEA2000Message(kwargs = data), NMEA2000Field(kwargs = field).
   Modelled on objects that carry every attribute (any order) with leaves of the shapes to_tree
   produces; a missing attribute (dataclass defaults, datetime.now()) or another leaf shape is outside
   the model; an unknown attribute is a TypeError. *)
Fixpoint assoc (k : zstr) (kv : list (zstr * jtree)) : option jtree :=
  match kv with [] => None | (k', v) :: r => if k' =? k then Some v else assoc k r end.
Definition need (k : zstr) (kv : list (zstr * jtree)) : result jtree :=
  match assoc k kv with Some v => Ok v | None => Unmodelled end.
Definition keys_known (known : list zstr) (kv : list (zstr * jtree)) : bool :=
  forallb (fun p => existsb (Z.eqb (fst p)) known) kv.

Definition t_int (t : jtree) : result Z := match t with JInt z => Ok z | _ => Unmodelled end.
Definition t_str (t : jtree) : result zstr := match t with JStr s => Ok s | _ => Unmodelled end.
Definition t_ostr (t : jtree) : result (option zstr) :=
  match t with JStr s => Ok (Some s) | JNull => Ok None | _ => Unmodelled end.
Definition t_bool (t : jtree) : result bool := match t with JBool b => Ok b | _ => Unmodelled end.
Definition t_value (t : jtree) : result value :=
  match t with
  | JNull => Ok VNone | JInt z => Ok (VInt z) | JFloat f => Ok (VFloat f) | JStr s => Ok (VText (str_bytes s))
  | _ => Unmodelled
  end.
Definition t_pq (t : jtree) : result pqv :=
  match t with JNull => Ok PqNone | JList [JInt n] => Ok (PqList n) | _ => Unmodelled end.
Definition t_ty (t : jtree) : result tyv := match t with JList [JInt n] => Ok (TyList n) | _ => Unmodelled end.
Definition t_ttl (t : jtree) : result ttlv :=
  match t with JNull => Ok TtlNone | JFloat f => Ok (TtlSecs f) | _ => Unmodelled end.
Definition t_raw (t : jtree) : result rawv :=
  match t with JNull => Ok RawNone | JStr s => Ok (RawStr s) | _ => Unmodelled end.

Definition field_keys := [k_id; k_name; k_description; k_unit; k_value; k_raw_value; k_pq; k_type; k_pk].
Definition msg_keys := [k_PGN; k_id; k_description; k_ttl; k_fields; k_source; k_destination; k_priority;
                        k_timestamp; k_source_iso_name; k_hash; k_raw_can_data].
Definition iso_keys := [k_name; k_unique_number; k_manufacturer_code; k_device_instance; k_device_function;
                        k_device_class; k_system_instance; k_industry_group; k_aac].

Definition field_of_tree (t : jtree) : result field :=
  match t with
  | JObj kv =>
      if negb (keys_known field_keys kv) then Err EOther else
      do i <- bind (need k_id kv) t_str; do n <- bind (need k_name kv) t_ostr;
      do d <- bind (need k_description kv) t_ostr; do u <- bind (need k_unit kv) t_ostr;
      do v <- bind (need k_value kv) t_value; do r <- bind (need k_raw_value kv) t_value;
      do q <- bind (need k_pq kv) t_pq; do ty <- bind (need k_type kv) t_ty; do pk <- bind (need k_pk kv) t_bool;
      Ok (mkField (str_bytes i) n d u v r q ty pk)
  | _ => Unmodelled
  end.
Definition iso_of_tree (t : jtree) : result isov :=
  match t with
  | JNull => Ok IsoNone
  | JObj kv =>                               (* stays a plain dict: nothing is checked *)
      do n <- bind (need k_name kv) t_int; do u <- bind (need k_unique_number kv) t_int;
      do m <- bind (need k_manufacturer_code kv) t_ostr; do d <- bind (need k_device_instance kv) t_int;
      do f <- bind (need k_device_function kv) t_ostr; do c <- bind (need k_device_class kv) t_ostr;
      do s <- bind (need k_system_instance kv) t_int; do g <- bind (need k_industry_group kv) t_ostr;
      do a <- bind (need k_aac kv) t_bool;
      if keys_known iso_keys kv then Ok (IsoDict (mkIso n u m d f c s g a)) else Unmodelled
  | _ => Unmodelled
  end.
Definition of_tree (t : jtree) : result msg :=
  match t with
  | JObj kv =>
      if negb (keys_known msg_keys kv) then Err EOther else
      do pgn <- bind (need k_PGN kv) t_int; do i <- bind (need k_id kv) t_str;
      do de <- bind (need k_description kv) t_str; do ttl <- bind (need k_ttl kv) t_ttl;
      do fl <- need k_fields kv;
      do fs <- match fl with JList l => mapM field_of_tree l | _ => Unmodelled end;
      do src <- bind (need k_source kv) t_int; do dst <- bind (need k_destination kv) t_int;
      do prio <- bind (need k_priority kv) t_int; do ts <- bind (need k_timestamp kv) t_str;
      do iso <- bind (need k_source_iso_name kv) iso_of_tree; do h <- bind (need k_hash kv) t_ostr;
      do raw <- bind (need k_raw_can_data kv) t_raw;
      Ok (mkMsg pgn (str_bytes i) de ttl fs src dst prio ts iso h raw)
  | _ => Unmodelled
  end.

(* what a value looks like after the JSON round trip ("binary rendered as hex, dates and times as ISO text") *)
Definition render (v : value) : result value :=
  match v with
  | VBytes b => Ok (VText (hex_bytes b))
  | VDate d => do s <- iso_date d; Ok (VText s)
  | VTime t => do s <- iso_time t; Ok (VText s)
  | VFloat f => Ok (if is_finite f then VFloat f else VNone)
  | _ => Ok v
  end.
(* values JSON carries exactly *)
Definition json_exact (v : value) : bool :=
  match v with
  | VNone => true
  | VInt z => (-9223372036854775808 <=? z) && (z <? 18446744073709551616)
  | VFloat f => is_finite f
  | VText s => bytes_ok s
  | _ => false
  end.
(* F-nan-json guard: no non-finite double among values and raw values *)
Definition value_finite (v : value) : bool := match v with VFloat f => is_finite f | _ => true end.
Definition json_ok (m : msg) : bool :=
  forallb (fun f => value_finite (f_value f) && value_finite (f_raw f)) (m_fields m).

(* ================================================================== decoder tail + dump *)
Record dcfg := mkCfg {
  c_build_map : bool; c_prefs : prefs;                 (* already lower-cased (decoder_prefs) *)
  c_dump_on : bool; c_dump_pgns : list Z; c_dump_ids : list bytes }.   (* ids lower-cased by split_pgn_list *)

(* decoder.py 79-92 on the dump list: ints and lower-cased strs *)
Definition split_ids (ids : list bytes) : result (list bytes) := mapM py_lower ids.

(* decoder.py 467 (with the F-dumpid repair: the id is lower-cased like the list) *)
Definition dump_match (c : dcfg) (m : msg) : result bool :=
  if negb (c_dump_on c) then Ok false
  else if (zlen (c_dump_pgns c) + zlen (c_dump_ids c) =? 0) then Ok true
  else if existsb (Z.eqb (m_pgn m)) (c_dump_pgns c) then Ok true
  else do l <- py_lower (m_id m); Ok (existsb (bytes_eqb l) (c_dump_ids c)).

Section Tail.
  Variable md5 : bytes -> zstr.
  Variable py_str_float : float -> bytes.
  Variable py_round_ndigits : float -> Z -> float.
  Variable math_degrees : float -> float.

  (* decoder.py 463-471: add_data, apply_preferred_units, dump, return.  Result: the returned
     message and the line (as a tree) appended to the dump file, if any.  An exception anywhere
     (to_json included) propagates: nothing is returned and nothing is written. *)
  Definition finish (c : dcfg) (a : addr) (m0 : msg) : result (msg * option jtree) :=
    do m1 <- add_data md5 py_str_float a (c_build_map c) m0;
    do m2 <- apply_units py_round_ndigits math_degrees (c_prefs c) m1;
    do dm <- dump_match c m2;
    if dm then do t <- to_tree m2; Ok (m2, Some t) else Ok (m2, None).

  (* a history of decode events (addressing, message built by the per-PGN function); events on which the
     tail raises return nothing and write nothing *)
  Fixpoint run (c : dcfg) (evs : list (addr * msg)) : list msg * list jtree :=
    match evs with
    | [] => ([], [])
    | (a, m0) :: r =>
        let '(ms, ls) := run c r in
        match finish c a m0 with
        | Ok (m, Some t) => (m :: ms, t :: ls)
        | Ok (m, None) => (m :: ms, ls)
        | _ => (ms, ls)
        end
    end.
End Tail.

(* ------------------------------------------------------------------ boolean equalities (correspondence) *)
Definition value_eqb (a b : value) : bool :=
  match a, b with
  | VNone, VNone => true
  | VInt x, VInt y => x =? y
  | VFloat x, VFloat y => fsame x y
  | VText x, VText y | VBytes x, VBytes y => bytes_eqb x y
  | VDate x, VDate y | VTime x, VTime y => x =? y
  | _, _ => false
  end.
Definition ozs_eqb := option_eqb Z.eqb.
Definition pq_eqb (a b : pqv) : bool :=
  match a, b with PqNone, PqNone => true | PqEnum x, PqEnum y | PqList x, PqList y => x =? y | _, _ => false end.
Definition ty_eqb (a b : tyv) : bool :=
  match a, b with TyEnum x, TyEnum y | TyList x, TyList y => x =? y | _, _ => false end.
Definition field_eqb (a b : field) : bool :=
  bytes_eqb (f_id a) (f_id b) && ozs_eqb (f_name a) (f_name b) && ozs_eqb (f_descr a) (f_descr b) &&
  ozs_eqb (f_unit a) (f_unit b) && value_eqb (f_value a) (f_value b) && value_eqb (f_raw a) (f_raw b) &&
  pq_eqb (f_pq a) (f_pq b) && ty_eqb (f_type a) (f_type b) && Bool.eqb (f_pk a) (f_pk b).
Definition isoname_eqb (a b : isoname) : bool :=
  (i_name a =? i_name b) && (i_unique a =? i_unique b) && ozs_eqb (i_mfr a) (i_mfr b) &&
  (i_devinst a =? i_devinst b) && ozs_eqb (i_func a) (i_func b) && ozs_eqb (i_class a) (i_class b) &&
  (i_sysinst a =? i_sysinst b) && ozs_eqb (i_group a) (i_group b) && Bool.eqb (i_aac a) (i_aac b).
Definition iso_eqb (a b : isov) : bool :=
  match a, b with
  | IsoNone, IsoNone => true
  | IsoObj x, IsoObj y | IsoDict x, IsoDict y => isoname_eqb x y
  | _, _ => false
  end.
Definition ttl_eqb (a b : ttlv) : bool :=
  match a, b with TtlNone, TtlNone => true | TtlMs x, TtlMs y => x =? y | TtlSecs x, TtlSecs y => fsame x y | _, _ => false end.
Definition raw_eqb (a b : rawv) : bool :=
  match a, b with RawNone, RawNone => true | RawBytes x, RawBytes y => bytes_eqb x y | RawStr x, RawStr y => x =? y | _, _ => false end.
Definition msg_eqb (a b : msg) : bool :=
  (m_pgn a =? m_pgn b) && bytes_eqb (m_id a) (m_id b) && (m_descr a =? m_descr b) && ttl_eqb (m_ttl a) (m_ttl b) &&
  list_eqb field_eqb (m_fields a) (m_fields b) && (m_src a =? m_src b) && (m_dst a =? m_dst b) &&
  (m_prio a =? m_prio b) && (m_ts a =? m_ts b) && iso_eqb (m_iso a) (m_iso b) && ozs_eqb (m_hash a) (m_hash b) &&
  raw_eqb (m_raw a) (m_raw b).
