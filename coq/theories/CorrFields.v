(* CorrFields.v — checkers for the decode-side correspondence cases (C01): the real utils decoders
   and the real generated decode_pgn_* functions versus Fields.v / run_ddef on the translated tables. *)
From NV Require Import Base Bits Defn PyNum Fields.
From Coq Require Import PrimFloat.

(* observed values: floats as bit patterns *)
Inductive oval :=
| ONone | OInt (z : Z) | OFloat (bits : Z) | ONan | OText (b : list Z) | OBytes (b : list Z)
| ODate (d : Z) | OTime (s : Z).
Definition zlist_eqb := list_eqb Z.eqb.
Definition val_matches (v : value) (o : oval) : bool :=
  match v, o with
  | VNone, ONone => true
  | VInt a, OInt b => a =? b
  | VFloat f, OFloat b => bits_of_float f =? b
  | VFloat f, ONan => is_nan f
  | VText a, OText b => zlist_eqb a b
  | VBytes a, OBytes b => zlist_eqb a b
  | VDate a, ODate b => a =? b
  | VTime a, OTime b => a =? b
  | _, _ => false
  end.

Record ofield := mkOF { o_id : str; o_name : str; o_descr : option str; o_unit : option str;
                        o_val : oval; o_raw : oval; o_pq : option str; o_type : str; o_pk : bool }.
Inductive ores := OMsg (pgn : Z) (id descr : str) (ttl : option Z) (fs : list ofield) | OErr (e : err).

Definition field_matches (f : field) (o : ofield) : bool :=
  (fl_id f =? o_id o) && (fl_name f =? o_name o) && oz_eqb (fl_descr f) (o_descr o)
  && oz_eqb (fl_unit f) (o_unit o) && val_matches (fl_val f) (o_val o) && val_matches (fl_raw f) (o_raw o)
  && oz_eqb (fl_pq f) (o_pq o) && (fl_type f =? o_type o) && Bool.eqb (fl_pk f) (o_pk o).

Fixpoint list_match {A B} (m : A -> B -> bool) (a : list A) (b : list B) : bool :=
  match a, b with
  | [], [] => true
  | x :: a', y :: b' => m x y && list_match m a' b'
  | _, _ => false
  end.
Definition res_matches (r : result msg) (o : ores) : bool :=
  match r, o with
  | Ok m, OMsg pgn id descr ttl fs =>
      (m_pgn m =? pgn) && (m_id m =? id) && (m_descr m =? descr) && oz_eqb (m_ttl m) ttl
      && list_match field_matches (m_fields m) fs
  | Err e, OErr e' => err_eqb e e'
  | Unmodelled, _ => true          (* counted separately by is_unmodelled *)
  | _, _ => false
  end.

Inductive ovals := OVals (vs : list (oval * oval)) | OValsErr (e : err).

Section Tables.
  Variable L LB : lookups.
  Variable LI : ilookups.
  Variable code_dec : list (fname * ddef).
  Definition run_named (fn : fname) (p : Z) : result msg :=
    match find_fname fn code_dec with
    | Some d => run_ddef L LB LI p d
    | None => Err EMissing
    end.
  Definition chk_decode (c : fname * Z * ores) : bool :=
    let '(fn, p, o) := c in res_matches (run_named fn p) o.
  (* values only (the metadata of a function is compared by the full cases) *)
  Definition chk_decode_vals (c : fname * Z * ovals) : bool :=
    let '(fn, p, o) := c in
    match run_named fn p, o with
    | Ok m, OVals vs => list_match (fun f vr => val_matches (fl_val f) (fst vr) && val_matches (fl_raw f) (snd vr)) (m_fields m) vs
    | Err e, OValsErr e' => err_eqb e e'
    | Unmodelled, _ => true
    | _, _ => false
    end.
  Definition is_unmodelled_vals (c : fname * Z * ovals) : bool :=
    let '(fn, p, o) := c in match run_named fn p with Unmodelled => true | _ => false end.
  Definition is_unmodelled (c : fname * Z * ores) : bool :=
    let '(fn, p, o) := c in match run_named fn p with Unmodelled => true | _ => false end.
End Tables.

(* ---- unit-level cases for the utils decoders ---- *)
Inductive ovres := OV (v : oval) | OVE (e : err).
Definition vres_matches (r : result value) (o : ovres) : bool :=
  match r, o with
  | Ok v, OV ov => val_matches v ov
  | Err e, OVE e' => err_eqb e e'
  | Unmodelled, _ => true
  | _, _ => false
  end.
(* decode_number(p, off, len, signed, res, min, max) *)
Definition chk_number (c : (Z * Z * Z * bool * num * num * num) * ovres) : bool :=
  let '((p, off, len, sg, r, mn, mx), o) := c in
  vres_matches (decode_number p off len sg (pynum_of_num r) (pynum_of_num mn) (pynum_of_num mx)) o.
Definition chk_float (c : (Z * Z * Z * num * num) * ovres) : bool :=
  let '((p, off, len, mn, mx), o) := c in
  vres_matches (decode_float p off len (pynum_of_num mn) (pynum_of_num mx)) o.
Definition oval_to_value (o : oval) : value :=
  match o with
  | ONone => VNone | OInt z => VInt z | OFloat b => VFloat (float_of_bits b) | ONan => VFloat nan
  | OText b => VText b | OBytes b => VBytes b | ODate d => VDate d | OTime s => VTime s end.
Definition chk_time (c : oval * ovres) : bool := vres_matches (decode_time (oval_to_value (fst c))) (snd c).
Definition chk_date (c : oval * ovres) : bool := vres_matches (decode_date (oval_to_value (fst c))) (snd c).
Definition chk_strfix (c : (Z * Z * Z) * ovres) : bool :=
  let '((p, off, len), o) := c in vres_matches (decode_string_fix p off len) o.
Definition chk_strlz (c : (Z * Z) * ovres) : bool :=
  let '((p, off), o) := c in vres_matches (decode_string_lz p off) o.
Definition chk_strlau (c : (Z * Z) * (ovres * Z)) : bool :=
  let '((p, off), (o, skip)) := c in
  match decode_string_lau p off with
  | Ok (v, s) => vres_matches (Ok v) o && (s =? skip)
  | Err e => vres_matches (Err e) o
  | Unmodelled => true
  end.
Definition chk_int_to_bytes (c : Z * list Z) : bool := zlist_eqb (int_to_bytes (fst c)) (snd c).
Definition chk_decode_int (c : (Z * Z * Z) * Z) : bool :=
  let '((p, off, len), o) := c in decode_int p off len =? o.
