(* EndToEndProofs.v — the end-to-end composition theorem for single-frame PGNs.

   Part 1 (generic in `decode`, `is_fast`, `ts_ok`): for a decoder without filters, any state, any frame whose
   PGN is single-frame and is not the address claim, every rendering of the frame in the five input grammars
   (the renderings of WireProofs.frontends = C07) makes `e2e_step_gen` return exactly the message the decode
   function yields for the little-endian payload integer, completed with source / destination / priority of
   the identifier and the identity the source has claimed; the state is unchanged.
   Part 2 (generic in the tables): `tbl_decode` on a database group whose table obligations hold (C08's
   `group_ok`, C01's `def_ok`) is `spec_decode` of the definition `spec_select` picks.
   Part 3: the two composed (`e2e_single_frame_tables`); the per-run instance for the tables regenerated from
   /repo is tools/templates/OblE2E.v (theorem E2E_single_frame).
   Parts 2 and 3 are proved once for an ARBITRARY per-definition specification `sp : Z -> dbdef -> result msg` that
   names the definition's PGN and id in what it returns (`spec_head`); the statements about `spec_decode` (fixed-layout
   definitions) and about `spec_decode_var` (every definition of the class var_def: variable-length strings, fields
   without BitOffset, BitLengthField, INDIRECT_LOOKUP) are its two instances (`*_of` = generic). *)
From NV Require Import Base Bits Defn PyNum Fields Dispatch DispatchProofs Template Spec SpecProofs SpecVar SpecVarProofs
                       Header HeaderProofs PyText Wire WireProofs DecoderCtl EndToEnd.

(* the configuration of NMEA2000Decoder() — no filter, no manufacturer list, no network map *)
Definition cfg0 : cfg :=
  {| ex_nums := []; ex_ids := []; inc_nums := []; inc_ids := []; ex_mfr := []; inc_mfr := [];
     netmap := false; claim_filter := false |}.
Lemma mk_cfg0 : mk_cfg [] [] [] [] false = Ok cfg0.
Proof. reflexivity. Qed.

(* what the caller receives for what the decode function returned (no filter, not an address claim):
   `add_data` completes the message; a non-ASCII id is outside the model of the id filter *)
Definition lift (src dst : Z) (i : option iso) (r : result (option dmsg)) : result (option DecoderCtl.msg) :=
  match r with
  | Ok (Some dm) =>
      if ascii (d_id dm)
      then Ok (Some {| DecoderCtl.m_pgn := d_pgn dm; DecoderCtl.m_id := d_id dm; m_src := src; m_dst := dst;
                       m_iso := i; m_body := d_body dm |})
      else Unmodelled
  | Ok None => Ok None
  | Err e => Err e
  | Unmodelled => Unmodelled
  end.

(* ====================================================================== *)
(* Part 1 — front-end + control layer, generic in the decode functions     *)
(* ====================================================================== *)
Section Generic.
  Variable decode : Z -> Z -> result (option dmsg).
  Variable is_fast : Z -> result (option bool).
  Variable ts_ok : Z -> list Z -> bool.

  (* the single-frame branch of `_decode` / `_call_decode_function` for an unfiltered decoder *)
  Lemma ctl_single (fast : Z -> result (option bool)) st cl :
    c_pgn cl <> CLAIM ->
    (forall i, zlookup (c_src cl) (srcmap st) = Some i -> mfr_modelled i = true) ->
    fast (c_pgn cl) = Ok (Some false) ->
    (forall dm, decode (c_pgn cl) (le_int (c_data cl)) = Ok (Some dm) -> d_pgn dm <> CLAIM) ->
    ctl_step decode fast cfg0 st cl
    = (st, lift (c_src cl) (c_dst cl) (zlookup (c_src cl) (srcmap st)) (decode (c_pgn cl) (le_int (c_data cl)))).
  Proof.
    intros Hp Hi Hf Hd. unfold ctl_step.
    assert (Pre : prefilter cfg0 st cl = PreGo (zlookup (c_src cl) (srcmap st))).
    { unfold prefilter. replace (c_pgn cl =? CLAIM) with false by (symmetry; apply Z.eqb_neq; exact Hp).
      cbn [ex_nums inc_nums inc_ids cfg0 mem_z existsb is_nil negb andb netmap].
      destruct (zlookup (c_src cl) (srcmap st)) as [i|] eqn:E; [|reflexivity].
      rewrite (Hi i eq_refl). cbn [negb]. unfold mfr_blocked.
      destruct (i_mfr i); cbn [ex_mfr inc_mfr cfg0 mem_s existsb is_nil negb andb orb]; reflexivity. }
    rewrite Pre, Hf. unfold call_decode, decode_and_claim.
    destruct (decode (c_pgn cl) (le_int (c_data cl))) as [[dm|]|e|] eqn:D; cbn [lift].
    - specialize (Hd dm eq_refl).
      replace (d_pgn dm =? CLAIM) with false by (symmetry; apply Z.eqb_neq; exact Hd).
      destruct (ascii (d_id dm)); cbn [negb]; destruct st; cbn; [|reflexivity].
      unfold id_filter. cbn [DecoderCtl.m_pgn DecoderCtl.m_id claim_filter cfg0].
      rewrite andb_false_r. unfold id_dropped, has_inc.
      cbn [ex_ids inc_nums inc_ids cfg0 mem_s existsb is_nil negb orb andb]. reflexivity.
    - destruct st; reflexivity.
    - destruct st; reflexivity.
    - destruct st; reflexivity.
  Qed.

  (* from what a front-end hands to `_decode` to the outcome of the call *)
  Lemma e2e_of_parse c st i pgn prio src dst data comb :
    parse_with ts_ok (e_fmt i) (e_data i) = Ok (Some (pgn, prio, src, dst, rev data, comb)) ->
    e2e_step_gen decode is_fast ts_ok c st i
    = let sr := ctl_step decode (fast_of is_fast comb) c st
                         {| c_pgn := pgn; c_src := src; c_dst := dst; c_data := data; c_win := e_win i |} in
      (fst sr, with_prio prio (snd sr)).
  Proof.
    intros P. unfold e2e_step_gen. rewrite P. unfold call_of. rewrite rev_involutive. reflexivity.
  Qed.

  (* GENERIC COMPOSITION: whatever entry point accepted the input and handed `_decode` the frame
     (pgn, prio, src, dst, data), already combined or of a single-frame PGN *)
  Theorem e2e_single_of_parse st i pgn prio src dst data comb :
    parse_with ts_ok (e_fmt i) (e_data i) = Ok (Some (pgn, prio, src, dst, rev data, comb)) ->
    pgn <> CLAIM ->
    (forall n, zlookup src (srcmap st) = Some n -> mfr_modelled n = true) ->
    (comb = true \/ is_fast pgn = Ok (Some false)) ->
    (forall dm, decode pgn (le_int data) = Ok (Some dm) -> d_pgn dm <> CLAIM) ->
    e2e_step_gen decode is_fast ts_ok cfg0 st i
    = (st, with_prio prio (lift src dst (zlookup src (srcmap st)) (decode pgn (le_int data)))).
  Proof.
    intros P Hp Hi Hf Hd. rewrite (e2e_of_parse cfg0 st i pgn prio src dst data comb P). cbv zeta.
    rewrite (ctl_single (fast_of is_fast comb) st
               {| c_pgn := pgn; c_src := src; c_dst := dst; c_data := data; c_win := e_win i |}); try assumption.
    - reflexivity.
    - cbn [c_pgn]. unfold fast_of. destruct Hf as [-> | Hf]; [reflexivity|].
      destruct comb; [reflexivity | exact Hf].
  Qed.

  (* ---- the address claim (PGN 60928): the message carries the identity built from its own fields, and the source
          map is updated (IsoName.__init__, or the stored identity when the NAME is unchanged) ---- *)
  Definition claim_result (st : state) (cl : call) (r : result (option dmsg)) : state * result (option DecoderCtl.msg) :=
    match r with
    | Ok (Some dm) =>
        match claim_update (srcmap st) (c_src cl) (le_int (c_data cl)) dm with
        | Ok (sm', n) =>
            ({| reasm := reasm st; srcmap := sm' |},
             if ascii (d_id dm)
             then Ok (Some {| DecoderCtl.m_pgn := d_pgn dm; DecoderCtl.m_id := d_id dm; m_src := c_src cl;
                              m_dst := c_dst cl; m_iso := Some n; m_body := d_body dm |})
             else Unmodelled)
        | Err e => (st, Err e)
        | Unmodelled => (st, Unmodelled)
        end
    | Ok None => (st, Ok None)
    | Err e => (st, Err e)
    | Unmodelled => (st, Unmodelled)
    end.

  Lemma ctl_claim (fast : Z -> result (option bool)) st cl :
    c_pgn cl = CLAIM -> fast CLAIM = Ok (Some false) ->
    (forall dm, decode CLAIM (le_int (c_data cl)) = Ok (Some dm) -> d_pgn dm = CLAIM) ->
    ctl_step decode fast cfg0 st cl = claim_result st cl (decode CLAIM (le_int (c_data cl))).
  Proof.
    intros Hp Hf Hd. unfold ctl_step, prefilter. rewrite Hp. cbn [Z.eqb CLAIM Pos.eqb]. rewrite Hf.
    unfold call_decode, decode_and_claim, claim_result.
    destruct (decode CLAIM (le_int (c_data cl))) as [[dm|]|e|] eqn:D; try (destruct st; reflexivity).
    rewrite (Hd dm eq_refl). cbn [Z.eqb CLAIM Pos.eqb].
    destruct (claim_update (srcmap st) (c_src cl) (le_int (c_data cl)) dm) as [[sm' n]| |]; cbn [bind fst snd];
      try (destruct st; reflexivity).
    destruct (ascii (d_id dm)); cbn [negb]; [|reflexivity].
    unfold id_filter. cbn [DecoderCtl.m_pgn DecoderCtl.m_id claim_filter cfg0].
    rewrite andb_false_r. unfold id_dropped, has_inc.
    cbn [ex_ids inc_nums inc_ids cfg0 mem_s existsb is_nil negb orb andb]. reflexivity.
  Qed.

  Theorem e2e_claim_of_parse st i prio src dst data comb :
    parse_with ts_ok (e_fmt i) (e_data i) = Ok (Some (CLAIM, prio, src, dst, rev data, comb)) ->
    (comb = true \/ is_fast CLAIM = Ok (Some false)) ->
    (forall dm, decode CLAIM (le_int data) = Ok (Some dm) -> d_pgn dm = CLAIM) ->
    e2e_step_gen decode is_fast ts_ok cfg0 st i
    = let sr := claim_result st {| c_pgn := CLAIM; c_src := src; c_dst := dst; c_data := data; c_win := e_win i |}
                             (decode CLAIM (le_int data)) in
      (fst sr, with_prio prio (snd sr)).
  Proof.
    intros P Hf Hd. rewrite (e2e_of_parse cfg0 st i CLAIM prio src dst data comb P). cbv zeta.
    rewrite (ctl_claim (fast_of is_fast comb) st
               {| c_pgn := CLAIM; c_src := src; c_dst := dst; c_data := data; c_win := e_win i |}); try assumption.
    - reflexivity.
    - reflexivity.
    - unfold fast_of. destruct Hf as [-> | Hf]; [reflexivity|]. destruct comb; [reflexivity | exact Hf].
  Qed.

  (* END TO END, all five entry points (the renderings are those of C07_frontends): the same CAN frame of a
     single-frame PGN, written in any of the five input grammars, comes back as the same message *)
  Theorem e2e_frontends st id data win :
    0 <= id < 536870912 -> bytes_ok data = true ->
    let '(pgn, src, dst, prio) := extract_header id in
    pgn <> CLAIM ->
    (forall n, zlookup src (srcmap st) = Some n -> mfr_modelled n = true) ->
    (forall dm, decode pgn (le_int data) = Ok (Some dm) -> d_pgn dm <> CLAIM) ->
    let R := (st, with_prio prio (lift src dst (zlookup src (srcmap st)) (decode pgn (le_int data)))) in
    let run := fun f inp => e2e_step_gen decode is_fast ts_ok cfg0 st {| e_fmt := f; e_data := inp; e_win := win |} in
    (is_fast pgn = Ok (Some false) ->
       forall t pad, Z.land t 15 = zlen data -> run WTcp (t :: be4 id ++ data ++ pad) = R) /\
    (is_fast pgn = Ok (Some false) ->
       forall b2 b3 b4 pad r, (length data + length pad = 8)%nat ->
       run WUsb (usb_render b2 b3 b4 id data pad r) = R) /\
    (forall ts ptok gtok stok dtok ltok dts extra c,
       (c = true \/ is_fast pgn = Ok (Some false)) ->
       basic_ts ts_ok ts -> dec_tok ptok prio -> dec_tok gtok pgn -> dec_tok stok src -> dec_tok dtok dst ->
       dec_tok ltok (zlen data) -> Forall2 (fun t b => tokval 16 t = Some b) dts data ->
       Forall (fun t => nocomma t /\ all_ascii t = true) extra -> dts ++ extra <> [] ->
       run (WBasic c) (basic_line ts ptok gtok stok dtok ltok dts extra) = R) /\
    (data <> [] -> is_fast pgn = Ok (Some false) ->
       forall ts dir idt dts tail,
       ts_tok ts_ok 0 ts -> dir_tok dir -> tokval 16 idt = Some id ->
       Forall2 (fun t b => tokval 16 t = Some b) dts data -> forallb is_ws tail = true ->
       run WYd (yd_line ts dir idt dts tail) = R) /\
    (data <> [] ->
       forall sec ms ntok ptok dtoks tail,
       acti_ts_ok sec ms -> tokval 16 ntok = Some (acti_build src dst prio) -> tokval 16 ptok = Some pgn ->
       Forall2 (fun t b => length t = 2%nat /\ tokval 16 t = Some b) dtoks data -> forallb is_ws tail = true ->
       run WActi (acti_line sec ms ntok ptok (concat dtoks) tail) = R).
  Proof.
    intros Hid Hb. pose proof (frontends ts_ok id data Hid Hb) as F.
    destruct (extract_header id) as [[[pgn src] dst] prio].
    intros Hp Hi Hd. cbv zeta. cbv zeta in F. destruct F as (F1 & F2 & F3 & F4 & F5).
    repeat split.
    - intros Hf t pad Ht.
      apply (e2e_single_of_parse st {| e_fmt := WTcp; e_data := t :: be4 id ++ data ++ pad; e_win := win |}
               pgn prio src dst data false); try assumption; [|right; exact Hf].
      cbn [parse_with e_fmt e_data]. apply F1. exact Ht.
    - intros Hf b2 b3 b4 pad r Hl.
      apply (e2e_single_of_parse st {| e_fmt := WUsb; e_data := usb_render b2 b3 b4 id data pad r; e_win := win |}
               pgn prio src dst data false); try assumption; [|right; exact Hf].
      cbn [parse_with e_fmt e_data]. apply F2. exact Hl.
    - intros ts ptok gtok stok dtok ltok dts extra c Hc H1 H2 H3 H4 H5 H6 H7 H8 H9.
      apply (e2e_single_of_parse st {| e_fmt := WBasic c;
                                       e_data := basic_line ts ptok gtok stok dtok ltok dts extra; e_win := win |}
               pgn prio src dst data c); try assumption.
      cbn [parse_with e_fmt e_data]. apply F3; assumption.
    - intros Hne Hf ts dir idt dts tail H1 H2 H3 H4 H5.
      apply (e2e_single_of_parse st {| e_fmt := WYd; e_data := yd_line ts dir idt dts tail; e_win := win |}
               pgn prio src dst data false); try assumption; [|right; exact Hf].
      cbn [parse_with e_fmt e_data]. apply F4; assumption.
    - intros Hne sec ms ntok ptok dtoks tail H1 H2 H3 H4 H5.
      apply (e2e_single_of_parse st {| e_fmt := WActi; e_data := acti_line sec ms ntok ptok (concat dtoks) tail;
                                       e_win := win |}
               pgn prio src dst data true); try assumption; [|left; reflexivity].
      cbn [parse_with e_fmt e_data]. apply F5; assumption.
  Qed.
End Generic.

(* ====================================================================== *)
(* Part 2 — the decode function found in the tables is the specification   *)
(* ====================================================================== *)
(* a per-definition specification: payload integer, database definition -> the message or the exception *)
Definition spec_fn := Z -> dbdef -> result Fields.msg.
(* ... whose messages carry the definition's PGN and id *)
Definition spec_head (sp : spec_fn) : Prop :=
  forall p d m, sp p d = Ok m -> Fields.m_pgn m = Defn.d_pgn d /\ Fields.m_id m = Defn.d_id d.
(* what the decode function of a definition returns, as the control layer sees it *)
Definition spec_dmsg_of (sp : spec_fn) (p : Z) (d : dbdef) : result (option dmsg) :=
  do m <- sp p d; Ok (Some (to_dmsg m)).

Lemma spec_decode_head L LB p d m : spec_decode L LB p d = Ok m ->
  Fields.m_pgn m = Defn.d_pgn d /\ Fields.m_id m = Defn.d_id d.
Proof.
  unfold spec_decode. destruct (spec_fields L LB p (Defn.d_fields d)); cbn [bind]; try discriminate.
  intros E. inversion E. split; reflexivity.
Qed.
Lemma spec_decode_var_head L LB LI p d m : spec_decode_var L LB LI p d = Ok m ->
  Fields.m_pgn m = Defn.d_pgn d /\ Fields.m_id m = Defn.d_id d.
Proof.
  unfold spec_decode_var. destruct (spec_fields_var L LB LI p _ 0 true [] (Defn.d_fields d)); cbn [bind]; try discriminate.
  intros E. inversion E. split; reflexivity.
Qed.
Lemma spec_head_fixed L LB : spec_head (spec_decode L LB).
Proof. intros p d m. apply spec_decode_head. Qed.
Lemma spec_head_var L LB LI : spec_head (spec_decode_var L LB LI).
Proof. intros p d m. apply spec_decode_var_head. Qed.

Lemma spec_select_in g p d : spec_select g p = Some d -> In d g.
Proof.
  unfold spec_select. destruct (find _ g) as [s|] eqn:F.
  - intros E. inversion E; subst. apply find_some in F. tauto.
  - apply last_fallback_in.
Qed.

Lemma bound_defs_in g d : In d (bound_defs g) -> In d g.
Proof.
  unfold bound_defs. destruct (is_dispatched g); [tauto|].
  destruct (rev g) as [|x r] eqn:E; [intros []|].
  intros [<-|[]]. apply in_rev. rewrite E. left. reflexivity.
Qed.

Section Tables.
  Variable code_dec : list (fname * ddef).
  Variable code_disp : list disp.
  Variable code_ids : list (fname * (Z * Defn.str)).
  Variable L LB : lookups.
  Variable LI : ilookups.

  (* what the decode function of a definition returns, as the control layer sees it *)
  Definition spec_dmsg (Ls LBs : lookups) (p : Z) (d : dbdef) : result (option dmsg) :=
    do m <- spec_decode Ls LBs p d; Ok (Some (to_dmsg m)).

  (* `decode_pgn_<PGN>` of a group that satisfies the C08 table obligation *)
  Lemma tbl_decode_group g p :
    group_ok code_disp code_ids g = true -> in_scope g = true ->
    tbl_decode code_dec code_disp L LB LI (group_pgn g) p
    = if is_dispatched g
      then match spec_select g p with
           | Some d => run_fn code_dec L LB LI (Defn.d_pgn d, Some (Defn.d_id d)) p
           | None => Ok None
           end
      else match find_fname (group_pgn g, None) code_dec with
           | Some cd => do m <- run_ddef L LB LI p cd; Ok (Some (to_dmsg m))
           | None => Ok None
           end.
  Proof.
    unfold group_ok, tbl_decode. intros H Sc.
    apply andb_true_iff in H. destruct H as [W H].
    destruct (is_dispatched g) eqn:D.
    - destruct (find_disp code_disp (group_pgn g)) as [dsp|]; [|discriminate].
      apply andb_true_iff in H. destruct H as [H _].
      apply andb_true_iff in H. destruct H as [H _].
      apply andb_true_iff in H. destruct H as [Harms Hf].
      rewrite (arm_list_eq _ _ Harms). rewrite (fname_opt_eq _ _ Hf).
      rewrite (run_template_is_spec g p W).
      destruct (spec_select g p); reflexivity.
    - destruct (find_disp code_disp (group_pgn g)); [discriminate|]. reflexivity.
  Qed.

  (* ... and of the C01 table obligation: the specification of the selected definition *)
  Theorem tbl_decode_is_spec_of (sp : spec_fn) g d p :
    group_ok code_disp code_ids g = true -> in_scope g = true ->
    spec_select g p = Some d -> In d (bound_defs g) -> Defn.d_pgn d = group_pgn g ->
    (exists cd, find_fname (fname_of g d) code_dec = Some cd /\
                forall q, run_ddef L LB LI q cd = sp q d) ->
    tbl_decode code_dec code_disp L LB LI (group_pgn g) p = spec_dmsg_of sp p d.
  Proof.
    intros G Sc S B Pg (cd & Fd & Sp). rewrite (tbl_decode_group g p G Sc). unfold fname_of in Fd.
    unfold spec_dmsg_of. destruct (is_dispatched g).
    - rewrite S. unfold run_fn. rewrite Fd, Sp. reflexivity.
    - rewrite Pg in Fd. rewrite Fd, Sp. reflexivity.
  Qed.

  Theorem tbl_decode_is_spec Ls LBs g d p :
    group_ok code_disp code_ids g = true -> in_scope g = true ->
    spec_select g p = Some d -> In d (bound_defs g) -> Defn.d_pgn d = group_pgn g ->
    (exists cd, find_fname (fname_of g d) code_dec = Some cd /\
                forall q, run_ddef L LB LI q cd = spec_decode Ls LBs q d) ->
    tbl_decode code_dec code_disp L LB LI (group_pgn g) p = spec_dmsg Ls LBs p d.
  Proof. exact (tbl_decode_is_spec_of (spec_decode Ls LBs) g d p). Qed.

  (* a PGN without dispatcher: decode_pgn_<PGN> is the function of the bound definition, whatever the payload
     (this includes the single definitions that carry match fields, which are outside C08: nothing to select) *)
  Theorem tbl_decode_undispatched_of (sp : spec_fn) g d p :
    group_ok code_disp code_ids g = true -> is_dispatched g = false ->
    In d (bound_defs g) -> Defn.d_pgn d = group_pgn g ->
    (exists cd, find_fname (fname_of g d) code_dec = Some cd /\
                forall q, run_ddef L LB LI q cd = sp q d) ->
    tbl_decode code_dec code_disp L LB LI (group_pgn g) p = spec_dmsg_of sp p d.
  Proof.
    unfold group_ok, tbl_decode. intros H D B Pg (cd & Fd & Sp).
    apply andb_true_iff in H. destruct H as [_ H]. rewrite D in H.
    destruct (find_disp code_disp (group_pgn g)); [discriminate|].
    unfold fname_of in Fd. rewrite D, Pg in Fd. unfold spec_dmsg_of. rewrite Fd, Sp. reflexivity.
  Qed.

  Theorem tbl_decode_undispatched Ls LBs g d p :
    group_ok code_disp code_ids g = true -> is_dispatched g = false ->
    In d (bound_defs g) -> Defn.d_pgn d = group_pgn g ->
    (exists cd, find_fname (fname_of g d) code_dec = Some cd /\
                forall q, run_ddef L LB LI q cd = spec_decode Ls LBs q d) ->
    tbl_decode code_dec code_disp L LB LI (group_pgn g) p = spec_dmsg Ls LBs p d.
  Proof. exact (tbl_decode_undispatched_of (spec_decode Ls LBs) g d p). Qed.

  (* a dispatcher that finds no definition returns None *)
  Theorem tbl_decode_none g p :
    group_ok code_disp code_ids g = true -> is_dispatched g = true -> spec_select g p = None ->
    tbl_decode code_dec code_disp L LB LI (group_pgn g) p = Ok None.
  Proof.
    intros G D S. rewrite (tbl_decode_group g p G); [|unfold in_scope; rewrite D; reflexivity].
    rewrite D, S. reflexivity.
  Qed.
End Tables.

(* ====================================================================== *)
(* Part 3 — composition                                                    *)
(* ====================================================================== *)
(* the message the caller receives for a decoded definition *)
Definition e2e_expected_of (sp : spec_fn) (d : dbdef) (p src dst prio : Z) (i : option iso)
  : result (option (DecoderCtl.msg * Z)) :=
  match sp p d with
  | Ok m => Ok (Some ({| DecoderCtl.m_pgn := Defn.d_pgn d; DecoderCtl.m_id := bytes_of_str (Defn.d_id d);
                         m_src := src; m_dst := dst; m_iso := i; m_body := ser_msg m |}, prio))
  | Err e => Err e
  | Unmodelled => Unmodelled
  end.
Definition e2e_expected (Ls LBs : lookups) (d : dbdef) (p src dst prio : Z) (i : option iso)
  : result (option (DecoderCtl.msg * Z)) :=
  match spec_decode Ls LBs p d with
  | Ok m => Ok (Some ({| DecoderCtl.m_pgn := Defn.d_pgn d; DecoderCtl.m_id := bytes_of_str (Defn.d_id d);
                         m_src := src; m_dst := dst; m_iso := i; m_body := ser_msg m |}, prio))
  | Err e => Err e
  | Unmodelled => Unmodelled
  end.
(* the instances for the position-threading specification of SpecVar.v (every definition of var_def) *)
Definition spec_dmsg_var (Ls LBs : lookups) (LIs : ilookups) : Z -> dbdef -> result (option dmsg) :=
  spec_dmsg_of (spec_decode_var Ls LBs LIs).
Definition e2e_expected_var (Ls LBs : lookups) (LIs : ilookups) := e2e_expected_of (spec_decode_var Ls LBs LIs).

(* on fixed-layout definitions they are the statements about spec_decode *)
Lemma e2e_expected_var_simple Ls LBs LIs d p src dst prio i : simple_def d = true ->
  e2e_expected_var Ls LBs LIs d p src dst prio i = e2e_expected Ls LBs d p src dst prio i.
Proof.
  intros S. unfold e2e_expected_var, e2e_expected_of, e2e_expected.
  rewrite (spec_decode_var_simple Ls LBs LIs p d S). reflexivity.
Qed.
Lemma spec_dmsg_var_simple Ls LBs LIs p d : simple_def d = true ->
  spec_dmsg_var Ls LBs LIs p d = spec_dmsg Ls LBs p d.
Proof.
  intros S. unfold spec_dmsg_var, spec_dmsg_of, spec_dmsg. rewrite (spec_decode_var_simple Ls LBs LIs p d S). reflexivity.
Qed.

Lemma lift_spec_of (sp : spec_fn) d p src dst prio i : spec_head sp ->
  ascii (bytes_of_str (Defn.d_id d)) = true ->
  with_prio prio (lift src dst i (spec_dmsg_of sp p d)) = e2e_expected_of sp d p src dst prio i.
Proof.
  intros Hd A. unfold spec_dmsg_of, e2e_expected_of.
  destruct (sp p d) as [m| |] eqn:E; cbn [bind lift with_prio]; try reflexivity.
  destruct (Hd _ _ _ E) as [E1 E2].
  cbn [to_dmsg d_id d_pgn d_body]. rewrite E2, A, E1. reflexivity.
Qed.
Lemma lift_spec Ls LBs d p src dst prio i :
  ascii (bytes_of_str (Defn.d_id d)) = true ->
  with_prio prio (lift src dst i (spec_dmsg Ls LBs p d)) = e2e_expected Ls LBs d p src dst prio i.
Proof. exact (lift_spec_of (spec_decode Ls LBs) d p src dst prio i (spec_head_fixed Ls LBs)). Qed.

Section Composition.
  Variable code_dec : list (fname * ddef).
  Variable code_disp : list disp.
  Variable code_ids : list (fname * (Z * Defn.str)).
  Variable code_fast : list (Z * fastkind).
  Variable L LB : lookups.
  Variable LI : ilookups.
  Variable ts_ok : Z -> list Z -> bool.

  (* core: the decode function found for the PGN is the specification of definition d on this payload *)
  Lemma e2e_single_frame_core_of (sp : spec_fn) d st i pgn prio src dst data comb :
    spec_head sp ->
    tbl_decode code_dec code_disp L LB LI pgn (le_int data) = spec_dmsg_of sp (le_int data) d ->
    Defn.d_pgn d = pgn -> ascii (bytes_of_str (Defn.d_id d)) = true ->
    parse_with ts_ok (e_fmt i) (e_data i) = Ok (Some (pgn, prio, src, dst, rev data, comb)) ->
    pgn <> CLAIM ->
    (comb = true \/ tbl_is_fast code_fast pgn = Ok (Some false)) ->
    (forall n, zlookup src (srcmap st) = Some n -> mfr_modelled n = true) ->
    e2e_step code_dec code_disp code_fast L LB LI ts_ok cfg0 st i
    = (st, e2e_expected_of sp d (le_int data) src dst prio (zlookup src (srcmap st))).
  Proof.
    intros Hd T Pg A P Hp Hf Hi. unfold e2e_step.
    rewrite (e2e_single_of_parse _ _ ts_ok st i pgn prio src dst data comb P Hp Hi Hf).
    - rewrite T. rewrite (lift_spec_of sp) by assumption. reflexivity.
    - intros dm. rewrite T. unfold spec_dmsg_of.
      destruct (sp (le_int data) d) as [m| |] eqn:E; cbn [bind]; try discriminate.
      intros X. inversion X. cbn [to_dmsg d_pgn].
      destruct (Hd _ _ _ E) as [E1 _]. rewrite E1, Pg. exact Hp.
  Qed.
  Lemma e2e_single_frame_core Ls LBs d st i pgn prio src dst data comb :
    tbl_decode code_dec code_disp L LB LI pgn (le_int data) = spec_dmsg Ls LBs (le_int data) d ->
    Defn.d_pgn d = pgn -> ascii (bytes_of_str (Defn.d_id d)) = true ->
    parse_with ts_ok (e_fmt i) (e_data i) = Ok (Some (pgn, prio, src, dst, rev data, comb)) ->
    pgn <> CLAIM ->
    (comb = true \/ tbl_is_fast code_fast pgn = Ok (Some false)) ->
    (forall n, zlookup src (srcmap st) = Some n -> mfr_modelled n = true) ->
    e2e_step code_dec code_disp code_fast L LB LI ts_ok cfg0 st i
    = (st, e2e_expected Ls LBs d (le_int data) src dst prio (zlookup src (srcmap st))).
  Proof. exact (e2e_single_frame_core_of (spec_decode Ls LBs) d st i pgn prio src dst data comb (spec_head_fixed Ls LBs)). Qed.

  (* END TO END on given tables: hypotheses are the two table obligations for the group of the PGN *)
  Theorem e2e_single_frame_tables_of (sp : spec_fn) g d st i pgn prio src dst data comb :
    spec_head sp ->
    group_ok code_disp code_ids g = true -> in_scope g = true ->
    In d (bound_defs g) -> Defn.d_pgn d = group_pgn g -> ascii (bytes_of_str (Defn.d_id d)) = true ->
    (exists cd, find_fname (fname_of g d) code_dec = Some cd /\
                forall q, run_ddef L LB LI q cd = sp q d) ->
    parse_with ts_ok (e_fmt i) (e_data i) = Ok (Some (pgn, prio, src, dst, rev data, comb)) ->
    pgn = group_pgn g -> pgn <> CLAIM ->
    (comb = true \/ tbl_is_fast code_fast pgn = Ok (Some false)) ->
    (forall n, zlookup src (srcmap st) = Some n -> mfr_modelled n = true) ->
    spec_select g (le_int data) = Some d ->
    e2e_step code_dec code_disp code_fast L LB LI ts_ok cfg0 st i
    = (st, e2e_expected_of sp d (le_int data) src dst prio (zlookup src (srcmap st))).
  Proof.
    intros Hd G Sc B Pg A C P Ep Hp Hf Hi S.
    apply (e2e_single_frame_core_of sp d st i pgn prio src dst data comb); try assumption; [|congruence].
    rewrite Ep. apply (tbl_decode_is_spec_of code_dec code_disp code_ids L LB LI sp g d); assumption.
  Qed.
  Theorem e2e_single_frame_tables Ls LBs g d st i pgn prio src dst data comb :
    group_ok code_disp code_ids g = true -> in_scope g = true ->
    In d (bound_defs g) -> Defn.d_pgn d = group_pgn g -> ascii (bytes_of_str (Defn.d_id d)) = true ->
    (exists cd, find_fname (fname_of g d) code_dec = Some cd /\
                forall q, run_ddef L LB LI q cd = spec_decode Ls LBs q d) ->
    parse_with ts_ok (e_fmt i) (e_data i) = Ok (Some (pgn, prio, src, dst, rev data, comb)) ->
    pgn = group_pgn g -> pgn <> CLAIM ->
    (comb = true \/ tbl_is_fast code_fast pgn = Ok (Some false)) ->
    (forall n, zlookup src (srcmap st) = Some n -> mfr_modelled n = true) ->
    spec_select g (le_int data) = Some d ->
    e2e_step code_dec code_disp code_fast L LB LI ts_ok cfg0 st i
    = (st, e2e_expected Ls LBs d (le_int data) src dst prio (zlookup src (srcmap st))).
  Proof. exact (e2e_single_frame_tables_of (spec_decode Ls LBs) g d st i pgn prio src dst data comb (spec_head_fixed Ls LBs)). Qed.

  (* the same for a PGN without dispatcher: the bound definition, for every payload *)
  Theorem e2e_single_frame_tables_undispatched_of (sp : spec_fn) g d st i pgn prio src dst data comb :
    spec_head sp ->
    group_ok code_disp code_ids g = true -> is_dispatched g = false ->
    In d (bound_defs g) -> Defn.d_pgn d = group_pgn g -> ascii (bytes_of_str (Defn.d_id d)) = true ->
    (exists cd, find_fname (fname_of g d) code_dec = Some cd /\
                forall q, run_ddef L LB LI q cd = sp q d) ->
    parse_with ts_ok (e_fmt i) (e_data i) = Ok (Some (pgn, prio, src, dst, rev data, comb)) ->
    pgn = group_pgn g -> pgn <> CLAIM ->
    (comb = true \/ tbl_is_fast code_fast pgn = Ok (Some false)) ->
    (forall n, zlookup src (srcmap st) = Some n -> mfr_modelled n = true) ->
    e2e_step code_dec code_disp code_fast L LB LI ts_ok cfg0 st i
    = (st, e2e_expected_of sp d (le_int data) src dst prio (zlookup src (srcmap st))).
  Proof.
    intros Hd G D B Pg A C P Ep Hp Hf Hi.
    apply (e2e_single_frame_core_of sp d st i pgn prio src dst data comb); try assumption; [|congruence].
    rewrite Ep. apply (tbl_decode_undispatched_of code_dec code_disp code_ids L LB LI sp g d); assumption.
  Qed.
  Theorem e2e_single_frame_tables_undispatched Ls LBs g d st i pgn prio src dst data comb :
    group_ok code_disp code_ids g = true -> is_dispatched g = false ->
    In d (bound_defs g) -> Defn.d_pgn d = group_pgn g -> ascii (bytes_of_str (Defn.d_id d)) = true ->
    (exists cd, find_fname (fname_of g d) code_dec = Some cd /\
                forall q, run_ddef L LB LI q cd = spec_decode Ls LBs q d) ->
    parse_with ts_ok (e_fmt i) (e_data i) = Ok (Some (pgn, prio, src, dst, rev data, comb)) ->
    pgn = group_pgn g -> pgn <> CLAIM ->
    (comb = true \/ tbl_is_fast code_fast pgn = Ok (Some false)) ->
    (forall n, zlookup src (srcmap st) = Some n -> mfr_modelled n = true) ->
    e2e_step code_dec code_disp code_fast L LB LI ts_ok cfg0 st i
    = (st, e2e_expected Ls LBs d (le_int data) src dst prio (zlookup src (srcmap st))).
  Proof.
    exact (e2e_single_frame_tables_undispatched_of (spec_decode Ls LBs) g d st i pgn prio src dst data comb (spec_head_fixed Ls LBs)).
  Qed.

  (* a dispatcher PGN whose payload matches no definition and has no fallback: nothing is returned *)
  Theorem e2e_single_frame_tables_none g st i pgn prio src dst data comb :
    group_ok code_disp code_ids g = true -> is_dispatched g = true ->
    parse_with ts_ok (e_fmt i) (e_data i) = Ok (Some (pgn, prio, src, dst, rev data, comb)) ->
    pgn = group_pgn g -> pgn <> CLAIM ->
    (comb = true \/ tbl_is_fast code_fast pgn = Ok (Some false)) ->
    (forall n, zlookup src (srcmap st) = Some n -> mfr_modelled n = true) ->
    spec_select g (le_int data) = None ->
    e2e_step code_dec code_disp code_fast L LB LI ts_ok cfg0 st i = (st, Ok None).
  Proof.
    intros G D P Ep Hp Hf Hi S. unfold e2e_step.
    assert (T : tbl_decode code_dec code_disp L LB LI pgn (le_int data) = Ok None).
    { rewrite Ep. apply (tbl_decode_none code_dec code_disp code_ids L LB LI g); assumption. }
    rewrite (e2e_single_of_parse _ _ ts_ok st i pgn prio src dst data comb P Hp Hi Hf).
    - rewrite T. reflexivity.
    - intros dm. rewrite T. discriminate.
  Qed.
  (* the address claim on given tables: PGN 60928 has no dispatcher; its bound definition d decodes the NAME, the
     identity is read from the decoded fields, the source map is updated *)
  Theorem e2e_claim_tables_of (sp : spec_fn) g d st i prio src dst data comb :
    spec_head sp ->
    group_ok code_disp code_ids g = true -> is_dispatched g = false -> group_pgn g = CLAIM ->
    In d (bound_defs g) -> Defn.d_pgn d = group_pgn g ->
    (exists cd, find_fname (fname_of g d) code_dec = Some cd /\
                forall q, run_ddef L LB LI q cd = sp q d) ->
    parse_with ts_ok (e_fmt i) (e_data i) = Ok (Some (CLAIM, prio, src, dst, rev data, comb)) ->
    (comb = true \/ tbl_is_fast code_fast CLAIM = Ok (Some false)) ->
    e2e_step code_dec code_disp code_fast L LB LI ts_ok cfg0 st i
    = let sr := claim_result st {| c_pgn := CLAIM; c_src := src; c_dst := dst; c_data := data; c_win := e_win i |}
                             (spec_dmsg_of sp (le_int data) d) in
      (fst sr, with_prio prio (snd sr)).
  Proof.
    intros Hd G D Eg B Pg C P Hf. unfold e2e_step.
    assert (T : tbl_decode code_dec code_disp L LB LI CLAIM (le_int data) = spec_dmsg_of sp (le_int data) d).
    { rewrite <- Eg. apply (tbl_decode_undispatched_of code_dec code_disp code_ids L LB LI sp g d); assumption. }
    rewrite (e2e_claim_of_parse _ _ ts_ok st i prio src dst data comb P Hf).
    - rewrite T. reflexivity.
    - intros dm. rewrite T. unfold spec_dmsg_of.
      destruct (sp (le_int data) d) as [m| |] eqn:E; cbn [bind]; try discriminate.
      intros X. inversion X. cbn [to_dmsg d_pgn].
      destruct (Hd _ _ _ E) as [E1 _]. rewrite E1, Pg. exact Eg.
  Qed.
  Theorem e2e_claim_tables Ls LBs g d st i prio src dst data comb :
    group_ok code_disp code_ids g = true -> is_dispatched g = false -> group_pgn g = CLAIM ->
    In d (bound_defs g) -> Defn.d_pgn d = group_pgn g ->
    (exists cd, find_fname (fname_of g d) code_dec = Some cd /\
                forall q, run_ddef L LB LI q cd = spec_decode Ls LBs q d) ->
    parse_with ts_ok (e_fmt i) (e_data i) = Ok (Some (CLAIM, prio, src, dst, rev data, comb)) ->
    (comb = true \/ tbl_is_fast code_fast CLAIM = Ok (Some false)) ->
    e2e_step code_dec code_disp code_fast L LB LI ts_ok cfg0 st i
    = let sr := claim_result st {| c_pgn := CLAIM; c_src := src; c_dst := dst; c_data := data; c_win := e_win i |}
                             (spec_dmsg Ls LBs (le_int data) d) in
      (fst sr, with_prio prio (snd sr)).
  Proof. exact (e2e_claim_tables_of (spec_decode Ls LBs) g d st i prio src dst data comb (spec_head_fixed Ls LBs)). Qed.
End Composition.
