(* ClientLTSLive.v — C13: recovery is INEVITABLE when the environment is quiet.
   Builds on ClientLTSProofs.v (all four repairs on: [trans k sd true true true true true]).

   A. [quiet a]: the labels that are steps of the client's own machinery with a gateway that accepts:
        connect():   AConnEntry, AImplOpened, AImplOk (any status-callback outcome), ABackoffDone (the retry timer),
                     AConnCbDone, ACancelWaitDone
        receive loop: ARxStart, ARxIter (every outcome of `_receive_impl` on what the reader ALREADY holds: data, EOF or an
                     exception delivered earlier by the peer), ARxSleepDone, ARxCbDone, ARxCancelled, AOldRxCancelled
        consumer:    AConsStart, AConsGot (receive callback returns / raises / suspends), AConsCbDone, AConsCancelled
        fault handler of a send() that is suspended in the status callback: ASendCbDone (it schedules the reconnect)
      NOT quiet: the application (AUserConnect, ASendEntry, ASendDrainDone, AClose, ACloseCbDone, ACloseTimer), the peer
      (AEnvFeed, AEnvEof, AEnvReset) and failing attempts (AImplFail, AImplFailOpened).
      Two over-approximations of the MODEL make the label-only notion too weak (refutations [quiet_only_refuted_*], both
      artefacts of the model, not defects of the client):
        - a read suspended in RWait may be "resumed" and suspend again without any new data (asyncio only wakes it on
          feed_data / feed_eof / set_exception, i.e. on a peer action): a self-loop;
        - `RxRet b q'` lets one `_receive_impl` call enqueue ANY number of messages (q' >= q), although a message needs at
          least one consumed byte.
      Hence [qstep x a] = quiet label that is also [realistic] at x: not (ARxIter RxSusp at RWait), and
      q' <= q + (bytes consumed) for ARxIter (RxRet b q').
   B. [lmu]: explicit measure; every qstep strictly decreases it (for EVERY state, reachable or not).
   C. no deadlock: a reachable non-CLOSED state without enabled qstep is at rest: [rest_connected] or [rest_idle].
   D. recovery_inevitable.   E. a concrete maximal quiet run. *)
From NV Require Import Base ClientLTS ClientLTSProofs.
From RecordUpdate Require Import RecordSet.
Import RecordSetNotations.
Local Arguments wait2 : simpl never.
Local Arguments ret_ok : simpl never.
Local Arguments susp_ok : simpl never.
Local Arguments raise_ok : simpl never.
Local Arguments Z.add : simpl never.
Local Arguments Z.sub : simpl never.
Local Arguments Z.max : simpl never.
Local Arguments Z.leb : simpl never.
Local Arguments Z.ltb : simpl never.
Local Arguments Z.eqb : simpl never.
Local Arguments Nat.eqb : simpl never.
Local Arguments Z.of_nat : simpl never.
Local Arguments Z.to_nat : simpl never.
Local Arguments Nat.mul : simpl never.
Local Arguments Nat.add : simpl never.
Local Arguments allowed : simpl never.

Definition quiet (a : act) : bool :=
  match a with
  | AConnEntry _ | AImplOpened | AImplOk _ | ABackoffDone | AConnCbDone | ACancelWaitDone
  | ARxStart | ARxIter _ | ARxSleepDone _ | ARxCbDone | ARxCancelled | AOldRxCancelled
  | AConsStart | AConsGot _ | AConsCbDone | AConsCancelled | ASendCbDone => true
  | ASeedStart | ASeedCbDone _ => true                         (* the seeding task: its timers, its sends ... *)
  | ASeedTimer o _ | ASeedDrainDone o _ => match o with SFault _ => false | _ => true end   (* ... unless the write fails *)
  | _ => false
  end.
Definition realistic (x : g) (a : act) : bool :=
  match a with
  | ARxIter RxSusp => match rx x with RWait => false | _ => true end
  | ARxIter (RxRet b q') => q' <=? q x + (buf x - b)
  | _ => true
  end.
Definition qstep (x : g) (a : act) : bool := quiet a && realistic x a.

Definition dirty (x : g) : bool := eof x || rexc x || (0 <? buf x).
Definition b2n (b : bool) : nat := if b then 1 else 0.
Definition hold_w (h : holder) : nat :=
  match h with HNone => 0 | HCancelWait => 21 | HStatusCb => 22 | HAwaitDrain _ => 23 | HAwaitImpl _ => 24 | HBackoff _ => 25 end.
Definition hold_late (h : holder) : bool := match h with HStatusCb | HCancelWait => true | _ => false end.
Definition hold_noreset (h : holder) : bool := match h with HAwaitDrain _ | HStatusCb | HCancelWait => true | _ => false end.
Definition rx_w (r : rxs) : nat :=
  match r with RNone | RDone => 0 | RCreated => 4 | RRun => 3 | RWait => 2 | RSleep30 => 2 | RInCb => 26 end.
Definition can_fault (x : g) : bool :=
  match rx x with RCreated | RRun | RWait => dirty x | RSleep30 => true | _ => false end.
Definition cons_w (c : conss) : nat := match c with CDone => 0 | CWait | CRun => 1 | CInCb | CNew => 2 end.
Definition st_disc (s : cst) : bool := match s with Disc => true | _ => false end.

Definition lmu (x : g) : nat :=
  25 * pending_connects x + 26 * send_cb x + old_creq x + hold_w (hold x)
  + 51 * b2n (hold_noreset (hold x) && dirty x)
  + 25 * b2n (st_disc (st x) && hold_late (hold x))
  + rx_w (rx x) + 51 * b2n (can_fault x) + cons_w (cons x)
  + 5 * Z.to_nat (buf x) + 3 * Z.to_nat (q x)
  (* seeding tasks: a task about to be created by connect() is in hold_w (15 = 5 + 2 * 5) *)
  + 5 * seed_new x + 4 * seed_sleep x + 2 * seed_drain x + 27 * seed_cb x + 5 * seed_more x + seed_susp x.

Section Facts.
Variable k : kind.
Lemma ret_ok_facts fresh x b : ret_ok k true fresh x b = true -> 0 <= b < buf x.
Proof.
  unfold ret_ok. intros H. apply andb_prop in H. destruct H as [_ H]. destruct k.
  - apply andb_prop in H. destruct H as [H1 H2]. apply Z.leb_le in H1. apply Z.eqb_eq in H2. lia.
  - cbn in H. rewrite orb_false_r in H. apply andb_prop in H. destruct H as [H1 H2].
    apply Z.leb_le in H1. apply Z.ltb_lt in H2. lia.
  - cbn in H. rewrite orb_false_r in H. apply andb_prop in H. destruct H as [H1 H2].
    apply Z.ltb_lt in H1. apply Z.eqb_eq in H2. lia.
Qed.

Lemma raise_ok_facts fresh x b : raise_ok k true fresh x b = true -> dirty x = true /\ (b = 0 \/ 0 <= b <= buf x \/ b = buf x).
Proof.
  unfold raise_ok, dirty. intros H. apply orb_prop in H. destruct H as [H|H].
  - apply andb_prop in H. destruct H as [H1 H2]. apply Z.eqb_eq in H2. rewrite H1.
    split; [destruct (eof x); reflexivity | auto].
  - apply andb_prop in H. destruct H as [_ H]. destruct k; cbn in H.
    + apply andb_prop in H. destruct H as [H H3]. apply andb_prop in H. destruct H as [H1 H2].
      apply Z.eqb_eq in H3. rewrite H2. split; [reflexivity | auto].
    + apply orb_prop in H. destruct H as [H|H].
      * apply andb_prop in H. destruct H as [H H3]. apply andb_prop in H. destruct H as [H1 H2].
        apply Z.eqb_eq in H3. rewrite H1. split; [reflexivity | auto].
      * apply andb_prop in H. destruct H as [H H3]. apply andb_prop in H. destruct H as [H1 H2].
        apply Z.ltb_lt in H1. apply Z.leb_le in H2. apply Z.leb_le in H3.
        assert ((0 <? buf x) = true) as -> by (apply Z.ltb_lt; lia).
        split; [destruct (eof x), (rexc x); reflexivity | right; left; lia].
    + apply andb_prop in H. destruct H as [H H3]. apply andb_prop in H. destruct H as [H1 H2].
      apply Z.eqb_eq in H3. rewrite H1. split; [reflexivity | auto].
Qed.

End Facts.

Ltac zhyps := repeat match goal with
  | H : ret_ok _ _ _ _ _ = true |- _ => apply (ret_ok_facts _) in H; cbn in H
  | H : raise_ok _ _ _ _ _ = true |- _ => apply (raise_ok_facts _) in H; unfold dirty in H; cbn in H; destruct H as [? ?]
  | H : Z.leb _ _ = true |- _ => apply Z.leb_le in H
  | H : Z.leb _ _ = false |- _ => apply Z.leb_gt in H
  | H : Z.ltb _ _ = true |- _ => apply Z.ltb_lt in H
  | H : Z.ltb _ _ = false |- _ => apply Z.ltb_ge in H
  | H : Z.eqb _ _ = true |- _ => apply Z.eqb_eq in H
  end.
Ltac splitb :=
  repeat match goal with
  | |- context[b2n ?e] => match e with context[?v] => is_var v; match type of v with bool => destruct v end end
  | H : context[orb ?v _] |- _ => is_var v; destruct v
  | H : context[orb _ ?v] |- _ => is_var v; destruct v
  end;
  repeat match goal with
  | |- context[Z.ltb ?a ?b] => destruct (Z.ltb_spec a b)
  | H : context[Z.ltb ?a ?b] |- _ => destruct (Z.ltb_spec a b)
  end.
Ltac destr_w :=
  repeat match goal with
  | |- context[rx_w ?v] => is_var v; destruct v
  | |- context[cons_w ?v] => is_var v; destruct v
  | |- context[hold_w ?v] => is_var v; destruct v
  | |- context[st_disc ?v] => is_var v; destruct v
  end.
Ltac mu_fin := zhyps; subst; splitb; cbn [b2n andb orb] in *; try discriminate; try lia;
  destr_w; destr_vars; cbn [b2n andb orb rx_w cons_w hold_w st_disc hold_late hold_noreset] in *; try discriminate; try lia.

Ltac zb :=
  repeat match goal with
  | |- context[Z.leb ?a ?b] =>
      first [ replace (Z.leb a b) with true by (symmetry; apply Z.leb_le; lia)
            | replace (Z.leb a b) with false by (symmetry; apply Z.leb_gt; lia) ]
  | |- context[Z.ltb ?a ?b] =>
      first [ replace (Z.ltb a b) with true by (symmetry; apply Z.ltb_lt; lia)
            | replace (Z.ltb a b) with false by (symmetry; apply Z.ltb_ge; lia) ]
  | |- context[Z.eqb ?a ?b] =>
      first [ replace (Z.eqb a b) with true by (symmetry; apply Z.eqb_eq; lia)
            | replace (Z.eqb a b) with false by (symmetry; apply Z.eqb_neq; lia) ]
  end.
Ltac ena a :=
  solve [ left; exists a; split;
          [ cbn; zb; reflexivity
          | unfold trans, allowed; unf_helpers; unfold ret_ok, susp_ok, raise_ok; cbn; zb; cbn; discriminate ] ].

(* labels whose guards involve no integer comparison: decided by the VM (robust at Qed) *)
Ltac enav a := solve [ left; exists a; split; [ reflexivity | vm_compute; discriminate ] ].
Ltac rd b qq :=
  first [ ena (ARxIter (RxRaise b CbNone)) | ena (ARxIter (RxRaise b CbRet))
        | ena (ARxIter (RxRet (b - 13) qq)) | ena (ARxIter (RxRet 0 qq)) | ena (ARxIter (RxRet (Z.max 0 (b - 100)) qq))
        | ena (ARxIter (RxRaise 0 CbNone)) | ena (ARxIter (RxRaise 0 CbRet)) | ena (ARxIter RxSusp) ].


Section Live.
Variable k : kind.
Variable sd : bool.
Notation T := (trans k sd true true true true true).
Notation R := (run k sd true true true true true).
Notation reach := (reachable k sd true true true true true).

(* ---------------- B. termination ---------------- *)
Lemma lmu_step x a y : qstep x a = true -> trans k sd true true true true true x a = Some y -> (lmu y < lmu x)%nat.
Proof.
  unfold qstep, realistic, lmu, can_fault, dirty. intros Q. destruct x; cbn in *. destruct a; try discriminate Q.
  all: step_cases ltac:(mu_fin).
Qed.

(* ---------------- invariants needed for C ---------------- *)
Definition rx_reading (r : rxs) : bool := match r with RCreated | RRun | RWait | RSleep30 => true | _ => false end.

Definition NA (x : g) : Prop :=
  (rx x = RRun -> rx_creq x = false) /\ (cons x = CRun -> cons_creq x = false /\ 0 < q x) /\ 0 <= buf x /\ 0 <= q x.

Lemma NA_step x a y : NA x -> trans k sd true true true true true x a = Some y -> NA y.
Proof.
  unfold NA. intros (A1 & A2 & A3 & A4). destruct x; cbn in *. destruct a.
  all: step_cases ltac:(
        repeat match goal with
        | H : ret_ok _ _ _ _ _ = true |- _ => apply (ret_ok_facts k) in H; cbn in H
        | H : raise_ok _ _ _ _ _ = true |- _ => apply (raise_ok_facts k) in H; cbn in H; destruct H as [_ ?]
        | H : Z.leb _ _ = true |- _ => apply Z.leb_le in H
        | H : Z.ltb _ _ = true |- _ => apply Z.ltb_lt in H
        | H : Z.ltb _ _ = false |- _ => apply Z.ltb_ge in H
        | H : Z.eqb _ _ = true |- _ => apply Z.eqb_eq in H
        end; subst;
        try solve [intuition (try congruence; try lia)];
        match goal with H : allowed _ _ = true |- _ => unfold allowed in H; cbn in H end;
        destr_vars; try solve [intuition (try congruence; try lia)]).
Qed.

Definition NB (x : g) : Prop :=
  (st x <> Closed -> cons_creq x = false /\ cons x <> CDone /\ (rx_creq x = true -> hold x = HCancelWait)) /\
  (trace x = [] -> rx x = RNone /\ st x = Disc /\ send_cb x = 0%nat /\ hold_late (hold x) = false /\
                   seed_new x = 0%nat /\ seed_sleep x = 0%nat /\ seed_drain x = 0%nat /\ seed_cb x = 0%nat) /\
  (st x = Conn -> hold x = HNone -> rx_reading (rx x) = true).

(* a further close() call is only asleep after the first one has started (part of K2, ClientLTSProofs.v) *)
Definition CQ (x : g) : Prop := (0 < c2_rx x + c2_cons x)%nat -> closing x <> KNone.

Lemma NB_step x a y : hold_lock_ok x -> closed_iff_closing x -> CQ x -> NB x ->
  trans k sd true true true true true x a = Some y -> NB y.
Proof.
  unfold hold_lock_ok, closed_iff_closing, CQ, NB, rx_reading, hold_late. intros HL C Cq (B1 & B2 & B3).
  destruct x; cbn in *. destruct a.
  all: step_cases ltac:(try (assert (closing <> KNone) by (apply Cq; lia));
                        try solve [intuition (try congruence)]; destr_vars; try solve [intuition (try congruence)]).
Qed.

(* ---------------- C. no deadlock short of recovery ---------------- *)
Definition unreadable (x : g) : Prop :=
  eof x = false /\ rexc x = false /\ match k with KEByte => buf x < 13 | _ => buf x = 0 end.
Definition rest_connected (x : g) : Prop :=
  st x = Conn /\ lock x = false /\ hold x = HNone /\ pending_connects x = 0%nat /\ send_cb x = 0%nat /\ old_creq x = 0%nat /\
  rx x = RWait /\ rx_creq x = false /\ unreadable x /\ cons x = CWait /\ cons_creq x = false /\ q x = 0 /\
  seed_new x = 0%nat /\ seed_sleep x = 0%nat /\ seed_drain x = 0%nat /\ seed_cb x = 0%nat.   (* every seeding task has finished *)
Definition rest_idle (x : g) : Prop :=
  st x = Disc /\ trace x = [] /\ lock x = false /\ hold x = HNone /\ pending_connects x = 0%nat /\ send_cb x = 0%nat /\
  old_creq x = 0%nat /\ rx x = RNone /\ cons x = CWait /\ q x = 0 /\
  seed_new x = 0%nat /\ seed_sleep x = 0%nat /\ seed_drain x = 0%nat /\ seed_cb x = 0%nat.

Theorem enabled_or_rest x : hold_lock_ok x -> NA x -> NB x -> I2 x -> st x <> Closed ->
  (exists a, qstep x a = true /\ T x a <> None) \/ rest_connected x \/ rest_idle x.
Proof.
  unfold hold_lock_ok, NA, NB, I2, reconnect_pending, rest_connected, rest_idle, unreadable, rx_reading, hold_late.
  intros HL (A1 & A2 & A3 & A4) (B1 & B2 & B3) J Hst. destruct x; cbn in *.
  specialize (B1 Hst). destruct B1 as (B1a & B1b & B1c). subst cons_creq.
  destruct rx.
  3: { (* the receive loop is in the middle of a step *)
    specialize (A1 eq_refl). subst rx_creq.
    destruct st; try congruence; destruct rexc; destruct eof; destruct k;
      destruct (Z_lt_le_dec buf 13); destruct (Z_lt_le_dec 0 buf); rd buf q. }
  all: destruct cons; try congruence.
  all: try (destruct A2 as [_ A2]; [reflexivity|]; destruct q; try lia; enav (AConsGot RcRet)).
  all: (destruct pending_connects as [|n];
        [ | destruct st; try congruence; destruct hold; cbn in HL; subst lock;
            first [enav (AConnEntry true) | enav (AConnEntry false)] ]).
  all: destruct hold; cbn in HL; subst lock.
  all: try (destruct st; try congruence;
            first [enav (AImplOk CbNone) | enav (AImplOk CbRet) | enav ABackoffDone | enav AConnCbDone | enav ACancelWaitDone]).
  all: (destruct send_cb; [| enav ASendCbDone]).
  all: (destruct old_creq; [| enav AOldRxCancelled]).
  all: (destruct seed_new; [| enav ASeedStart]).
  all: (destruct seed_sleep; [| enav (ASeedTimer SReturn false)]).
  all: (destruct seed_drain; [| enav (ASeedDrainDone SReturn false)]).
  all: (destruct seed_cb; [| enav (ASeedCbDone false)]).
  all: (destruct rx_creq; [specialize (B1c eq_refl); discriminate|]).
  all: try enav ARxStart.
  all: try enav ARxCbDone.
  all: try enav AConsStart.
  all: try enav AConsCbDone.
  all: try (destruct st; try congruence; first [enav (ARxSleepDone CbNone) | enav (ARxSleepDone CbRet)]).
  all: (destruct (Z_lt_le_dec 0 q); [destruct q; try lia; enav (AConsGot RcRet)|]).
  all: assert (q = 0) by lia; subst q.
  all: destruct st; try congruence.
  all: try (specialize (B3 eq_refl eq_refl); discriminate).
  all: try (destruct (J eq_refl) as [Jt|[Jt|[Jt|[[Jt _]|[Jt|Jt]]]]]; try discriminate; try lia;
            destruct (B2 Jt) as (B2a & _); try discriminate;
            right; right; repeat split; auto).
  (* RWait, CONNECTED or not: is anything consumable? *)
  all: destruct rexc; destruct eof; destruct k; destruct (Z_lt_le_dec buf 13); destruct (Z_lt_le_dec 0 buf); try rd buf 0.
  all: try (right; left; repeat split; auto; lia).
Qed.

(* nothing quiet is enabled *)
Definition stuck_quiet (x : g) : Prop := forall a, qstep x a = true -> T x a = None.

Lemma RNA x : reach x -> NA x.
Proof.
  apply (reachable_invariant k sd true true true true true NA).
  - unfold NA; simpl; repeat split; intros; try discriminate; lia.
  - intros y a z A H. eapply NA_step; eauto.
Qed.

Lemma RNB x : reach x -> I0 x /\ NB x.
Proof.
  intros H.
  assert (I0 x /\ K2 x /\ NB x) as (A & _ & B); [|split; assumption].
  revert x H. apply (reachable_invariant k sd true true true true true (fun x => I0 x /\ K2 x /\ NB x)).
  - split; [apply Inv_init|]. split; [unfold K2; simpl; lia|].
    unfold NB; simpl. repeat split; intros; auto; try discriminate; try congruence.
  - intros y a z (A & Kk & B) H. pose proof A as (A1 & _ & A3).
    split; [eapply I0_step; eauto|]. split; [eapply K2_step; eauto|].
    eapply NB_step; eauto. unfold CQ. intros Hp. apply (Kk Hp).
Qed.

Theorem no_deadlock x : reach x -> st x <> Closed -> stuck_quiet x -> rest_connected x \/ rest_idle x.
Proof.
  intros H C S. pose proof (RNA x H) as A. pose proof (RNB x H) as ((A0 & _) & B). pose proof (R2 k sd x H) as (_ & J).
  destruct (enabled_or_rest x A0 A B J C) as [(a & Q & E)|D]; [|exact D].
  exfalso. apply E. apply S. exact Q.
Qed.

(* the converse: at rest, no quiet step is enabled *)
Lemma rest_connected_stuck x : rest_connected x -> stuck_quiet x.
Proof.
  unfold rest_connected, unreadable, stuck_quiet, qstep, realistic.
  intros (E1 & E2 & E3 & E4 & E5 & E6 & E7 & E8 & (E9 & E10 & E11) & E12 & E13 & E14 & E15 & E16 & E17 & E18) a Q.
  destruct x; cbn in *; subst. destruct a; try discriminate Q.
  all: try solve [vm_compute; reflexivity].
  all: try match goal with o : rxout |- _ => destruct o; try discriminate Q end.
  all: unfold trans, allowed; unf_helpers; unfold ret_ok, susp_ok, raise_ok; cbn.
  all: destruct k; cbn; repeat match goal with |- context[Z.leb 0 ?b] => destruct (Z.leb_spec 0 b) end;
       zb; cbn; rewrite ?andb_false_r; try reflexivity.
Qed.

(* ---------------- quiet runs ---------------- *)
Fixpoint qrun (x : g) (ls : list act) : option g :=
  match ls with
  | [] => Some x
  | a :: t => if qstep x a then match T x a with Some y => qrun y t | None => None end else None
  end.

Lemma qrun_run ls : forall x y, qrun x ls = Some y -> R x ls = Some y /\ Forall (fun a => quiet a = true) ls.
Proof.
  induction ls as [|a t IH]; intros x y H; simpl in *; [split; [exact H|constructor]|].
  destruct (qstep x a) eqn:Q; [|discriminate]. destruct (T x a) as [z|]; [|discriminate].
  destruct (IH z y H) as [H1 H2]. split; [exact H1|]. constructor; [|exact H2].
  unfold qstep in Q. apply andb_prop in Q. tauto.
Qed.

Theorem recovery_terminates ls : forall x y, qrun x ls = Some y -> (length ls + lmu y <= lmu x)%nat.
Proof.
  induction ls as [|a t IH]; intros x y H; simpl in *.
  - injection H as <-. lia.
  - destruct (qstep x a) eqn:Q; [|discriminate]. destruct (T x a) as [z|] eqn:E; [|discriminate].
    pose proof (lmu_step x a z Q E). specialize (IH z y H). lia.
Qed.

Corollary quiet_run_bounded x ls y : qrun x ls = Some y -> (length ls <= lmu x)%nat.
Proof. intros H. pose proof (recovery_terminates ls x y H). lia. Qed.

(* a connect() has been asked for at some point: a notification happened, or a connect() owns the lock, or one is scheduled *)
Definition asked (x : g) : Prop := trace x <> [] \/ lock x = true \/ (0 < pending_connects x)%nat.

Lemma asked_step x a y : hold_lock_ok x -> NB x -> st x <> Closed -> asked x -> qstep x a = true -> T x a = Some y ->
  st y <> Closed /\ asked y.
Proof.
  unfold hold_lock_ok, NB, asked, qstep, realistic, hold_late. intros HL (B1 & B2 & B3) C G Q.
  destruct x; cbn in *. destruct a; try discriminate Q.
  all: step_cases ltac:(try solve [intuition (try congruence; try lia; try discriminate)];
                        destr_vars; try solve [intuition (try congruence; try lia; try discriminate)]).
Qed.

Lemma reconnect_pending_asked x : reach x -> reconnect_pending x -> asked x.
Proof.
  intros H P. pose proof (RNB x H) as (_ & (_ & B2 & _)). unfold reconnect_pending in P. unfold asked.
  destruct (trace x) eqn:E; [|left; discriminate]. destruct (B2 eq_refl) as (Br & _ & Bs & _ & _ & _ & _ & Bc).
  destruct P as [P|[P|[[P _]|[P|P]]]]; auto; [congruence|lia|lia].
Qed.

Lemma qrun_reach ls : forall x y, reach x -> st x <> Closed -> asked x -> qrun x ls = Some y ->
  reach y /\ st y <> Closed /\ asked y.
Proof.
  induction ls as [|a t IH]; intros x y H C G Q; simpl in *.
  - injection Q as <-. auto.
  - destruct (qstep x a) eqn:Qa; [|discriminate]. destruct (T x a) as [z|] eqn:E; [|discriminate].
    pose proof (RNB x H) as ((A0 & _) & B).
    destruct (asked_step x a z A0 B C G Qa E) as [C' G'].
    apply (IH z y); auto. exact (reachable_step _ _ _ _ _ _ _ _ _ _ H E).
Qed.

(* D. every maximal quiet run from a non-CLOSED state in which a connect() was asked for is finite (at most [lmu x] steps) and
   ends CONNECTED, the lock free, with the receive task alive, not cancelled, waiting for data, nothing consumable buffered,
   the queue drained, nothing pending *)
Theorem recovery_inevitable x ls y : reach x -> st x <> Closed -> asked x ->
  qrun x ls = Some y -> stuck_quiet y -> (length ls <= lmu x)%nat /\ rest_connected y.
Proof.
  intros H C G Q S. split; [pose proof (recovery_terminates ls x y Q); lia|].
  destruct (qrun_reach ls x y H C G Q) as (H' & C' & G').
  destruct (no_deadlock y H' C' S) as [D|D]; [exact D|].
  exfalso. unfold rest_idle in D. destruct D as (_ & D2 & D3 & _ & D5 & _). unfold asked in G'.
  destruct G' as [G'|[G'|G']]; [contradiction|congruence|lia].
Qed.

Corollary recovery_inevitable_after_fault x ls y : reach x -> st x <> Closed -> reconnect_pending x ->
  qrun x ls = Some y -> stuck_quiet y -> (length ls <= lmu x)%nat /\ rest_connected y.
Proof. intros H C P. apply recovery_inevitable; auto. now apply reconnect_pending_asked. Qed.

(* ... and such a run can always be extended until it is maximal: from every reachable non-CLOSED state that is not at
   rest some quiet step is enabled (no_deadlock), and at most [lmu] of them can follow one another (recovery_terminates) *)
End Live.

(* ---------------- the label-only notion of "quiet" is too weak for the MODEL (over-approximations, see the header) ---------------- *)
Definition rwait_state : list act := [AConsStart; AUserConnect; AConnEntry true; AImplOk CbRet; ARxStart; ARxIter RxSusp].

Lemma run_repeat_fixpoint k sd fe fc fl fd fg s a : trans k sd fe fc fl fd fg s a = Some s ->
  forall n, run k sd fe fc fl fd fg s (repeat a n) = Some s.
Proof. intros E. induction n as [|n IH]; simpl; [reflexivity|]. now rewrite E. Qed.

Example quiet_only_refuted_spurious_wakeup : exists s,
  run KEByte false true true true true true init rwait_state = Some s /\ quiet (ARxIter RxSusp) = true /\
  forall n, run KEByte false true true true true true s (repeat (ARxIter RxSusp) n) = Some s.
Proof.
  eexists. split; [vm_compute; reflexivity|]. split; [reflexivity|].
  apply run_repeat_fixpoint. vm_compute. reflexivity.
Qed.

Example quiet_only_refuted_unbounded_queue : exists s,
  run KEByte false true true true true true init (rwait_state ++ [AEnvFeed 13]) = Some s /\
  forall N, 0 <= N -> exists y, trans KEByte false true true true true true s (ARxIter (RxRet 0 N)) = Some y /\ q y = N.
Proof.
  eexists. split; [vm_compute; reflexivity|]. intros N HN.
  unfold trans, allowed; unf_helpers; unfold ret_ok; cbn. zb. cbn. eexists. split; reflexivity.
Qed.

(* ---------------- E. non-vacuity: a fault, then a maximal quiet run, ending recovered ---------------- *)
Definition post_fault : list act := rwait_state ++ [AEnvFeed 20; AEnvEof].
Definition quiet_recovery : list act :=
  [ARxIter (RxRet 7 1); ARxIter (RxRaise 0 CbRet); AConsGot RcRet; AConnEntry true; AImplOk CbRet; ARxStart; ARxIter RxSusp].

Example recovery_inevitable_example : exists x y,
  run KEByte false true true true true true init post_fault = Some x /\ st x = Conn /\ eof x = true /\
  qrun KEByte false x quiet_recovery = Some y /\ stuck_quiet KEByte false y /\ rest_connected KEByte y /\
  trace y = [Conn; Disc; Conn] /\ (length quiet_recovery <= lmu x)%nat.
Proof.
  eexists. eexists. split; [vm_compute; reflexivity|]. split; [reflexivity|]. split; [reflexivity|].
  split; [vm_compute; reflexivity|].
  assert (rest_connected KEByte
            (match qrun KEByte false
               (match run KEByte false true true true true true init post_fault with Some x => x | None => init end) quiet_recovery
             with Some y => y | None => init end)) as RC.
  { vm_compute. repeat split; reflexivity. }
  split; [apply rest_connected_stuck; exact RC|]. split; [exact RC|]. split; [reflexivity|]. vm_compute. lia.
Qed.
