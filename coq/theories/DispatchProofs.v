(* DispatchProofs.v — C08: generic theorems about dispatch, for every payload. *)
From NV Require Import Base Bits Defn Dispatch.

Lemma pow2_pos n : 0 <= n -> 0 < 2 ^ n.
Proof. intros. apply Z.pow_pos_nonneg; lia. Qed.

Lemma cond_holds_bits p off len m : 0 <= off -> 0 <= len ->
  cond_holds p (off, 2 ^ len - 1, m) = (field_bits p off len =? m).
Proof.
  intros Ho Hl. unfold cond_holds, field_bits.
  rewrite land_mask_mod by lia. rewrite Z.shiftr_div_pow2 by lia. reflexivity.
Qed.

Lemma conds_match p (fs : list dbfield) : forallb match_field_wf fs = true ->
  forallb (cond_holds p) (flat_map conds_of_field fs) = forallb (match_ok p) fs.
Proof.
  induction fs as [|f fs IH]; intros W; [reflexivity|].
  simpl in W. apply andb_true_iff in W. destruct W as [Wf W].
  cbn [flat_map forallb]. rewrite forallb_app. rewrite (IH W). f_equal.
  unfold match_ok, match_field_wf, conds_of_field in *.
  destruct (f_match f) as [m|]; [|reflexivity].
  destruct (f_bitoff f) as [off|]; [|discriminate].
  destruct (f_bitlen f) as [len|]; [|discriminate].
  apply andb_true_iff in Wf. destruct Wf as [H1 H2].
  apply Z.leb_le in H1. apply Z.leb_le in H2.
  cbn [forallb]. rewrite andb_true_r. apply cond_holds_bits; assumption.
Qed.

Lemma arm_taken_of p d : forallb match_field_wf (d_fields d) = true ->
  arm_taken p (arm_of d) = def_matches p d.
Proof. intros W. unfold arm_taken, arm_of, conds_of, def_matches. simpl. apply conds_match. exact W. Qed.

(* the template's arms, run as the code runs them, select what the database rule selects *)
Theorem run_template_is_spec g p : group_wf g = true ->
  run_disp (arms_of_group g) (fallback_of_group g) p
  = option_map (fun d => (d_pgn d, Some (d_id d))) (spec_select g p).
Proof.
  intros W. unfold spec_select, fallback_of_group, arms_of_group.
  generalize (last_fallback g) as fb. intros fb.
  induction g as [|d g IH]; [reflexivity|].
  simpl in W. apply andb_true_iff in W. destruct W as [Wd W].
  simpl. destruct (d_fallback d) eqn:Fb; simpl.
  - apply IH. exact W.
  - rewrite arm_taken_of by exact Wd.
    destruct (def_matches p d); simpl; [reflexivity | apply IH; exact W].
Qed.

(* ----- consequences stated in the property ----- *)

(* a payload never appears under a non-fallback definition whose match values it does not carry *)
Theorem selected_carries_match g p d :
  spec_select g p = Some d -> d_fallback d = false -> def_matches p d = true.
Proof.
  unfold spec_select. destruct (find _ g) as [d'|] eqn:F.
  - intros E _. inversion E; subst. apply find_some in F. destruct F as [_ F].
    apply andb_true_iff in F. tauto.
  - intros E Fb. exfalso. revert E Fb. unfold last_fallback.
    assert (G : forall l acc, (forall x, acc = Some x -> d_fallback x = true) ->
              forall x, fold_left (fun a e => if d_fallback e then Some e else a) l acc = Some x -> d_fallback x = true).
    { induction l as [|e l IHl]; simpl; intros acc H x; [apply H|].
      apply IHl. intros y. destruct (d_fallback e) eqn:Fe; [intros E; inversion E; subst; exact Fe | apply H]. }
    intros E Fb. rewrite (G g None) with (x := d) in Fb; [discriminate| |exact E]. intros x Hx; discriminate.
Qed.

(* two payloads that agree on every match-field bit range select the same definition *)
Definition agree_on_match (g : list dbdef) (p q : Z) : Prop :=
  forall d f off len, In d g -> In f (d_fields d) -> f_match f <> None ->
    f_bitoff f = Some off -> f_bitlen f = Some len -> field_bits p off len = field_bits q off len.

Theorem outside_match_irrelevant g p q : agree_on_match g p q -> spec_select g p = spec_select g q.
Proof.
  intros A. unfold spec_select.
  assert (E : forall d, In d g -> def_matches p d = def_matches q d).
  { intros d Hd. unfold def_matches. apply forallb_ext_in. intros f Hf.
    unfold match_ok. destruct (f_match f) as [m|] eqn:M; [|reflexivity].
    destruct (f_bitoff f) as [off|] eqn:O; [|reflexivity].
    destruct (f_bitlen f) as [len|] eqn:L; [|reflexivity].
    rewrite (A d f off len Hd Hf); [reflexivity | congruence | assumption | assumption]. }
  assert (F : find (fun d => negb (d_fallback d) && def_matches p d) g
            = find (fun d => negb (d_fallback d) && def_matches q d) g).
  { clear A. induction g as [|d g IH]; [reflexivity|]. simpl.
    rewrite (E d) by (left; reflexivity).
    destruct (negb (d_fallback d) && def_matches q d); [reflexivity|].
    apply IH. intros; apply E; right; assumption. }
  rewrite F. reflexivity.
Qed.

(* field_bits only depends on the bits of the range: payloads differing only outside agree *)
Lemma field_bits_local p q off len : 0 <= off -> 0 <= len ->
  (forall i, off <= i < off + len -> Z.testbit p i = Z.testbit q i) ->
  field_bits p off len = field_bits q off len.
Proof.
  intros Ho Hl H. unfold field_bits. rewrite <- !decode_int_divmod by lia.
  apply decode_int_local; assumption.
Qed.

(* ----- from the table obligation to the statement about the code ----- *)
Section Tables.
  Variable code_disp : list disp.
  Variable code_ids : list (fname * (Z * str)).

  Lemma arm_list_eq a b : list_eqb arm_eqb a b = true -> forall fb p, run_disp a fb p = run_disp b fb p.
  Proof.
    revert b. induction a as [|x a IH]; destruct b as [|y b]; simpl; intros E fb p; try discriminate; [reflexivity|].
    apply andb_true_iff in E. destruct E as [Exy E]. rewrite (IH b E).
    unfold arm_eqb in Exy. apply andb_true_iff in Exy. destruct Exy as [Exy Et].
    apply andb_true_iff in Exy. destruct Exy as [En Ec].
    assert (Hc : a_conds x = a_conds y).
    { apply (list_eqb_eq cond_eqb); [|exact Ec]. intros [[s m] v] [[s' m'] v']. unfold cond_eqb. split.
      - intros H. apply andb_true_iff in H. destruct H as [H H3]. apply andb_true_iff in H. destruct H as [H1 H2].
        apply Z.eqb_eq in H1, H2, H3. congruence.
      - intros H. inversion H; subst. rewrite !Z.eqb_refl. reflexivity. }
    assert (Hn : a_never x = a_never y) by (apply eqb_prop; exact En).
    assert (Ht : a_target x = a_target y).
    { unfold fname_eqb in Et. apply andb_true_iff in Et. destruct Et as [E1 E2]. apply Z.eqb_eq in E1.
      destruct (a_target x) as [px ix], (a_target y) as [py iy]. simpl in *. subst. f_equal.
      destruct ix, iy; simpl in E2; try discriminate; [apply Z.eqb_eq in E2; congruence | reflexivity]. }
    unfold arm_taken. rewrite Hc, Hn, Ht. reflexivity.
  Qed.

  Lemma fname_opt_eq (a b : option fname) : option_eqb fname_eqb a b = true -> a = b.
  Proof.
    destruct a as [[p i]|], b as [[q j]|]; simpl; try discriminate; [|reflexivity].
    unfold fname_eqb. simpl. intros E. apply andb_true_iff in E. destruct E as [E1 E2]. apply Z.eqb_eq in E1. subst.
    destruct i, j; simpl in E2; try discriminate; [apply Z.eqb_eq in E2; subst|]; reflexivity.
  Qed.

  Lemma target_ok_id pgn id : target_ok code_ids (pgn, Some id) = true -> id_of code_ids (pgn, Some id) = Some (pgn, id).
  Proof.
    unfold target_ok. destruct (id_of code_ids (pgn, Some id)) as [[p' i']|]; [|discriminate].
    intros E. apply andb_true_iff in E. destruct E as [E1 E2]. apply Z.eqb_eq in E1, E2. congruence.
  Qed.

  Lemma last_fallback_in g d : last_fallback g = Some d -> In d g.
  Proof.
    unfold last_fallback.
    assert (G : forall l acc, fold_left (fun a e => if d_fallback e then Some e else a) l acc = Some d ->
                              In d l \/ acc = Some d).
    { induction l as [|e l IHl]; simpl; intros acc H; [right; exact H|].
      destruct (IHl _ H) as [I|E]; [left; right; exact I|].
      destruct (d_fallback e); [inversion E; left; left; reflexivity | right; exact E]. }
    intros H. destruct (G g None H) as [I|E]; [exact I | discriminate].
  Qed.

  (* the statement of C08 for one group of the database, against the translated code *)
  Lemma no_match_const g p : existsb has_match g = false -> spec_select g p = spec_select g 0.
  Proof.
    intros NM. apply outside_match_irrelevant. intros d f off len Hd Hf Hm _ _. exfalso.
    assert (existsb has_match g = true); [|congruence].
    apply existsb_exists. exists d. split; [exact Hd|]. unfold has_match. apply existsb_exists.
    exists f. split; [exact Hf|]. destruct (f_match f); [reflexivity | congruence].
  Qed.

  Theorem group_ok_sound g : group_ok code_disp code_ids g = true -> in_scope g = true -> forall p,
    code_select code_disp code_ids (group_pgn g) p
    = option_map (fun d => (d_pgn d, d_id d)) (spec_select g p).
  Proof.
    unfold group_ok, code_select. intros H Sc p.
    apply andb_true_iff in H. destruct H as [W H].
    destruct (is_dispatched g) eqn:D.
    - destruct (find_disp code_disp (group_pgn g)) as [d|]; [|discriminate].
      apply andb_true_iff in H. destruct H as [H Hfb].
      apply andb_true_iff in H. destruct H as [H Htg].
      apply andb_true_iff in H. destruct H as [Harms Hf].
      rewrite (arm_list_eq _ _ Harms). rewrite (fname_opt_eq _ _ Hf).
      rewrite (run_template_is_spec g p W).
      destruct (spec_select g p) as [s|] eqn:S; simpl; [|reflexivity].
      (* the selected definition's function is bound and names (pgn, id) *)
      apply target_ok_id.
      unfold spec_select in S. destruct (find _ g) as [s'|] eqn:F.
      + inversion S; subst s'. apply find_some in F. destruct F as [Hin Hs].
        apply andb_true_iff in Hs. destruct Hs as [Hnf _].
        rewrite forallb_forall in Htg. apply (Htg (arm_of s)).
        unfold arms_of_group. apply in_map. apply filter_In. split; assumption.
      + unfold fallback_of_group in Hfb. rewrite S in Hfb. simpl in Hfb. exact Hfb.
    - destruct (find_disp code_disp (group_pgn g)); [discriminate|].
      destruct (id_of code_ids (group_pgn g, None)) as [[p' i']|]; [|discriminate].
      unfold in_scope in Sc. rewrite D in Sc. simpl in Sc. apply negb_true_iff in Sc. rewrite Sc in H.
      rewrite (no_match_const g p Sc).
      destruct (spec_select g 0) as [s|]; [|discriminate].
      apply andb_true_iff in H. destruct H as [H1 H2]. apply Z.eqb_eq in H1, H2. simpl. congruence.
  Qed.
End Tables.
