(* Header.v — model of NMEA2000Decoder._extract_header (decoder.py:271-295),
   NMEA2000Encoder._build_header (encoder.py:65-87) and the Actisense 5-nibble
   source/destination/priority word (decoder.py:196-203, encoder.py:146-157).
   Python ints are Z; >> << & | are Z.shiftr Z.shiftl Z.land Z.lor. *)
From NV Require Import Base.

Definition hdr := (Z * Z * Z * Z)%type.   (* (pgn, source, dest, priority) *)

Definition extract_header (id : Z) : hdr :=
  let source := Z.land id 255 in
  let pgn_raw := Z.land (Z.shiftr id 8) 262143 in
  let prio := Z.land (Z.shiftr id 26) 7 in
  let dp := Z.land (Z.shiftr pgn_raw 16) 3 in
  let pf := Z.land (Z.shiftr pgn_raw 8) 255 in
  let ps := Z.land pgn_raw 255 in
  if pf <? 240
  then (Z.lor (Z.shiftl dp 16) (Z.shiftl pf 8), source, ps, prio)
  else (Z.lor (Z.lor (Z.shiftl dp 16) (Z.shiftl pf 8)) ps, source, 255, prio).

Definition build_header (pgn source dest prio : Z) : Z :=
  let dp := Z.land (Z.shiftr pgn 16) 3 in
  let pf := Z.land (Z.shiftr pgn 8) 255 in
  let ps := if pf <? 240 then dest else Z.land pgn 255 in
  let pgn_field := Z.lor (Z.lor (Z.shiftl dp 16) (Z.shiftl pf 8)) ps in
  Z.lor (Z.lor (Z.shiftl (Z.land prio 7) 26) (Z.shiftl (Z.land pgn_field 262143) 8))
        (Z.land source 255).

(* Actisense: n = (src << 12) | (dest << 4) | priority, with the encoder's masks *)
Definition acti_build (src dest prio : Z) : Z :=
  Z.lor (Z.lor (Z.shiftl (Z.land src 255) 12) (Z.shiftl (Z.land dest 255) 4)) (Z.land prio 15).
Definition acti_parse (n : Z) : Z * Z * Z :=   (* (src, dest, priority) *)
  (Z.land (Z.shiftr n 12) 255, Z.land (Z.shiftr n 4) 255, Z.land n 15).

Definition hdr_eqb (a b : hdr) : bool :=
  let '(p,s,d,q) := a in let '(p',s',d',q') := b in
  (p =? p') && (s =? s') && (d =? d') && (q =? q').

(* canonical PGN: 18 bits and, for PDU1 (PF < 240), PS = 0 *)
Definition pgn_canonical (pgn : Z) : bool :=
  (0 <=? pgn) && (pgn <? 262144) && (((pgn / 256) mod 256 >=? 240) || (pgn mod 256 =? 0)).
Definition is_pdu1 (pgn : Z) : bool := (pgn / 256) mod 256 <? 240.
