(* CorrEncode.v — checkers for the encode-side correspondence cases (C02, C09). *)
From NV Require Import Base Bits Defn PyNum Fields CorrFields Template Encode.

Inductive ozres := OZ (z : Z) | OZE (e : err).
Definition zres_matches (r : result Z) (o : ozres) : bool :=
  match r, o with
  | Ok z, OZ z' => z =? z'
  | Err e, OZE e' => err_eqb e e'
  | Unmodelled, _ => true
  | _, _ => false
  end.
(* encode_number(value, len, signed, res) *)
Definition chk_encode_number (c : (oval * Z * bool * num) * ozres) : bool :=
  let '((v, len, sg, r), o) := c in
  zres_matches (encode_number (oval_to_value v) len sg (pynum_of_num r)) o.
Definition chk_encode_float (c : oval * ozres) : bool :=
  zres_matches (encode_float (oval_to_value (fst c))) (snd c).
Definition chk_round (c : Z * ozres) : bool :=       (* round(float from bits) *)
  zres_matches (py_round (float_of_bits (fst c))) (snd c).

Inductive obres := OB (b : list Z) | OBE (e : err).
Definition mk_field (x : str * oval * oval) : field :=
  let '(id, v, r) := x in mkField id 0 None None (oval_to_value v) (oval_to_value r) None 0 false.

Section Tables.
  Variable LE : enc_lookups.
  Variable code_enc : list (fname * edef).
  Definition run_enc_named (fn : fname) (fs : list (str * oval * oval)) : result (list Z) :=
    match find_fname fn code_enc with
    | Some e => run_edef LE e (map mk_field fs)
    | None => Err EMissing
    end.
  Definition chk_encode (c : fname * list (str * oval * oval) * obres) : bool :=
    let '(fn, fs, o) := c in
    match run_enc_named fn fs, o with
    | Ok b, OB b' => zlist_eqb b b'
    | Err e, OBE e' => err_eqb e e'
    | Unmodelled, _ => true
    | _, _ => false
    end.
  Definition is_unmodelled_enc (c : fname * list (str * oval * oval) * obres) : bool :=
    let '(fn, fs, o) := c in match run_enc_named fn fs with Unmodelled => true | _ => false end.
End Tables.
