(* SerialProofs.v — lemmas about Serial.v (property C20; C12's serial chunking).
   Structure: (1) find_marker / seek under ++, (2) trim, (3) the loop in "suffix" form and fuel independence,
   (4) drain_all (x ++ c) splits at any point (segmentation independence), (5) shape of the retained buffer
   (bound), (6) packets in a stream: no loss after marker-free noise, resynchronisation after any noise,
   (7) decode_usb's acceptance test, (8) the pinned (unrepaired) loop: chunk independence and unboundedness. *)
From NV Require Import Base Serial.
From Coq Require Import Arith.
Local Open Scope nat_scope.

(* ------------------------------------------------------------------ 1. find_marker, seek *)
Definition marker (a b : Z) : bool := (Z.eqb a 170 && Z.eqb b 85)%bool.
Definition head_marker (l : list Z) : bool := match l with a :: b :: _ => marker a b | _ => false end.

Lemma find_marker_cons2 a b t :
  find_marker (a :: b :: t) = if marker a b then Some 0 else option_map S (find_marker (b :: t)).
Proof. reflexivity. Qed.

Lemma find_marker_lt l i : find_marker l = Some i -> i + 2 <= length l.
Proof.
  revert i. induction l as [|a t IH]; intros i H; [discriminate|].
  destruct t as [|b t']; [discriminate|]. rewrite find_marker_cons2 in H.
  destruct (marker a b).
  - inversion H; simpl; lia.
  - destruct (find_marker (b :: t')) as [j|] eqn:E; [|discriminate]. inversion H; subst.
    specialize (IH j eq_refl). simpl in *. lia.
Qed.

(* the suffix of l that starts at its first marker *)
Definition seek (l : list Z) : option (list Z) := option_map (fun i => skipn i l) (find_marker l).

Lemma seek_nil : seek [] = None. Proof. reflexivity. Qed.
Lemma seek_one a : seek [a] = None. Proof. reflexivity. Qed.
Lemma seek_cons2 a b t : seek (a :: b :: t) = if marker a b then Some (a :: b :: t) else seek (b :: t).
Proof.
  unfold seek. rewrite find_marker_cons2. destruct (marker a b); [reflexivity|].
  destruct (find_marker (b :: t)); reflexivity.
Qed.
Lemma seek_none_iff l : seek l = None <-> marker_free l.
Proof. unfold seek, marker_free. destruct (find_marker l); simpl; split; congruence. Qed.

Lemma seek_head l : head_marker l = true -> seek l = Some l.
Proof.
  destruct l as [|a [|b t]]; simpl; try discriminate. intros H. rewrite seek_cons2, H. reflexivity.
Qed.

Lemma seek_some l s : seek l = Some s -> head_marker s = true /\ 2 <= length s /\ length s <= length l.
Proof.
  revert s. induction l as [|a t IH]; intros s H; [discriminate|].
  destruct t as [|b t']; [discriminate|]. rewrite seek_cons2 in H.
  destruct (marker a b) eqn:M.
  - inversion H; subst. simpl. rewrite M. repeat split; lia.
  - destruct (IH s H) as (A & B & C). repeat split; auto. simpl in *. lia.
Qed.

Lemma seek_app l c s : seek l = Some s -> seek (l ++ c) = Some (s ++ c).
Proof.
  revert s. induction l as [|a t IH]; intros s H; [discriminate|].
  destruct t as [|b t']; [discriminate|]. rewrite seek_cons2 in H. simpl. rewrite seek_cons2.
  destruct (marker a b).
  - inversion H; subst. reflexivity.
  - apply (IH s H).
Qed.

(* a marker-free prefix does not hide a marker that follows it *)
Lemma seek_none_app n r : seek n = None -> head_marker r = true -> seek (n ++ r) = Some r.
Proof.
  induction n as [|a t IH]; intros H R; [apply seek_head; exact R|].
  destruct t as [|b t'].
  - simpl. destruct r as [|x [|y r']]; simpl in R; try discriminate.
    rewrite seek_cons2. unfold marker in *.
    destruct (Z.eqb_spec x 170); simpl in R; [|discriminate]. subst x.
    replace (Z.eqb 170 85) with false by reflexivity. rewrite andb_false_r.
    apply seek_head. simpl. unfold marker. simpl. exact R.
  - rewrite seek_cons2 in H. simpl. rewrite seek_cons2.
    destruct (marker a b); [discriminate|]. apply IH; assumption.
Qed.

(* ------------------------------------------------------------------ 2. trim *)
Lemma skipn_length_sub1 (a : Z) t : ends_aa (a :: t) = true ->
  skipn (length (a :: t) - 1) (a :: t) = [170%Z].
Proof.
  revert a. induction t as [|b t IH]; intros a H.
  - simpl in *. apply Z.eqb_eq in H. subst. reflexivity.
  - change (ends_aa (a :: b :: t)) with (ends_aa (b :: t)) in H.
    specialize (IH b H). simpl length in *. replace (S (S (length t)) - 1) with (S (S (length t) - 1)) by lia.
    simpl skipn at 1. exact IH.
Qed.

Lemma trim_spec l : trim l = if ends_aa l then [170%Z] else [].
Proof.
  unfold trim. destruct (ends_aa l) eqn:E.
  - destruct l as [|a t]; [discriminate|]. apply skipn_length_sub1. exact E.
  - rewrite Nat.sub_0_r. apply skipn_all.
Qed.

Lemma trim_cases l : trim l = [] \/ trim l = [170%Z].
Proof. rewrite trim_spec. destruct (ends_aa l); auto. Qed.

Lemma ends_aa_app x c : c <> [] -> ends_aa (x ++ c) = ends_aa c.
Proof.
  intros C. induction x as [|a t IH]; [reflexivity|].
  simpl app. destruct (t ++ c) as [|y r] eqn:E.
  - destruct t; destruct c; try discriminate. congruence.
  - change (ends_aa (a :: y :: r)) with (ends_aa (y :: r)). exact IH.
Qed.

Lemma trim_idem l : trim (trim l) = trim l.
Proof. rewrite (trim_spec l). destruct (ends_aa l); reflexivity. Qed.

Lemma trim_app x c : trim (x ++ c) = trim (trim x ++ c).
Proof.
  destruct c as [|y r].
  - rewrite !app_nil_r. symmetry. apply trim_idem.
  - rewrite !trim_spec. rewrite !ends_aa_app by discriminate. reflexivity.
Qed.

Lemma seek_trim_none l : seek (trim l) = None.
Proof. destruct (trim_cases l) as [E|E]; rewrite E; reflexivity. Qed.

(* a buffer without marker can contribute only its last byte, and only if that byte is 0xAA, to a later marker *)
Lemma seek_trim x c : seek x = None -> seek (x ++ c) = seek (trim x ++ c).
Proof.
  induction x as [|a t IH]; intros H; [reflexivity|].
  destruct t as [|b t'].
  - rewrite trim_spec. simpl ends_aa. destruct (Z.eqb_spec a 170) as [->|N]; [reflexivity|].
    simpl. destruct c as [|y r]; [reflexivity|]. rewrite seek_cons2. unfold marker.
    destruct (Z.eqb_spec a 170); [contradiction|]. reflexivity.
  - rewrite seek_cons2 in H. simpl app. rewrite seek_cons2.
    destruct (marker a b); [discriminate|].
    change (seek ((b :: t') ++ c) = seek (trim (a :: b :: t') ++ c)).
    rewrite (IH H). rewrite (trim_spec (a :: b :: t')), (trim_spec (b :: t')). reflexivity.
Qed.

(* ------------------------------------------------------------------ 3. the loop in suffix form *)
Lemma skipn_plus {A} i j : forall l : list A, skipn (i + j) l = skipn j (skipn i l).
Proof.
  induction i as [|i IH]; intros l; [reflexivity|].
  destruct l as [|a l]; [simpl; rewrite skipn_nil; reflexivity|]. simpl. apply IH.
Qed.

Lemma drain_S f buf : drain (S f) buf =
  match seek buf with
  | None => ([], trim buf)
  | Some s => if 20 <=? length s
              then let '(ps, b) := drain f (skipn 20 s) in (firstn 20 s :: ps, b)
              else ([], s)
  end.
Proof.
  cbn [drain]. unfold seek. destruct (find_marker buf) as [i|] eqn:F; cbn [option_map]; [|reflexivity].
  pose proof (find_marker_lt _ _ F) as L.
  rewrite skipn_length, skipn_plus.
  destruct (Nat.leb_spec (i + 20) (length buf)), (Nat.leb_spec 20 (length buf - i)); try lia; reflexivity.
Qed.

Lemma drain_fuel f : forall g buf, length buf < f -> length buf < g -> drain f buf = drain g buf.
Proof.
  induction f as [|f IH]; intros g buf Hf Hg; [lia|].
  destruct g as [|g]; [lia|]. rewrite !drain_S.
  destruct (seek buf) as [s|] eqn:E; [|reflexivity].
  destruct (seek_some _ _ E) as (_ & _ & L).
  destruct (Nat.leb_spec 20 (length s)); [|reflexivity].
  rewrite (IH g (skipn 20 s)) by (rewrite skipn_length; lia). reflexivity.
Qed.

Lemma drain_all_eq buf : drain_all buf =
  match seek buf with
  | None => ([], trim buf)
  | Some s => if 20 <=? length s
              then let '(ps, b) := drain_all (skipn 20 s) in (firstn 20 s :: ps, b)
              else ([], s)
  end.
Proof.
  unfold drain_all. rewrite drain_S. destruct (seek buf) as [s|] eqn:E; [|reflexivity].
  destruct (seek_some _ _ E) as (_ & _ & L).
  destruct (Nat.leb_spec 20 (length s)); [|reflexivity].
  rewrite (drain_fuel (length buf) (S (length (skipn 20 s))) (skipn 20 s))
    by (rewrite skipn_length; lia). reflexivity.
Qed.

(* two buffers with the same suffix-at-first-marker and the same trim are treated alike *)
Lemma drain_all_cong x y : seek x = seek y -> trim x = trim y -> drain_all x = drain_all y.
Proof. intros S T. rewrite (drain_all_eq x), (drain_all_eq y), S, T. reflexivity. Qed.

(* ------------------------------------------------------------------ 4. segmentation independence *)
Lemma drain_all_app x : forall c,
  drain_all (x ++ c) =
  let '(ps, b) := drain_all x in let '(qs, b') := drain_all (b ++ c) in (ps ++ qs, b').
Proof.
  remember (length x) as n eqn:Hn. revert x Hn.
  induction n as [n IH] using lt_wf_ind. intros x Hn c.
  rewrite (drain_all_eq x).
  destruct (seek x) as [s|] eqn:E.
  - destruct (seek_some _ _ E) as (HM & L2 & L).
    destruct (Nat.leb_spec 20 (length s)) as [L20|L20].
    + (* a whole packet is available inside x *)
      rewrite (drain_all_eq (x ++ c)), (seek_app _ c _ E), app_length.
      destruct (Nat.leb_spec 20 (length s + length c)); [|lia].
      assert (Hf : firstn 20 (s ++ c) = firstn 20 s).
      { rewrite firstn_app. replace (20 - length s) with 0 by lia. rewrite firstn_O, app_nil_r. reflexivity. }
      assert (Hs : skipn 20 (s ++ c) = skipn 20 s ++ c).
      { rewrite skipn_app. replace (20 - length s) with 0 by lia. reflexivity. }
      rewrite Hf, Hs.
      assert (Hy : length (skipn 20 s) < n) by (rewrite skipn_length; lia).
      rewrite (IH _ Hy (skipn 20 s) eq_refl c).
      destruct (drain_all (skipn 20 s)) as [ps b].
      destruct (drain_all (b ++ c)) as [qs b']. reflexivity.
    + (* marker found, packet incomplete: the prefix is dropped *)
      simpl. assert (drain_all (x ++ c) = drain_all (s ++ c)) as ->.
      { apply drain_all_cong.
        - rewrite (seek_app _ c _ E). symmetry. apply seek_head.
          destruct s as [|a [|b t]]; simpl in *; try discriminate; exact HM.
        - destruct c as [|y r]; [|rewrite !trim_spec, !ends_aa_app by discriminate; reflexivity].
          rewrite !app_nil_r, !trim_spec. f_equal.
          (* ends_aa x = ends_aa s: s is a non-empty suffix of x *)
          clear - E L2. revert s E L2. induction x as [|a t IHx]; intros s E L2; [discriminate|].
          destruct t as [|b t']; [discriminate|]. rewrite seek_cons2 in E.
          destruct (marker a b); [inversion E; reflexivity|].
          change (ends_aa (a :: b :: t')) with (ends_aa (b :: t')). apply IHx; assumption. }
      destruct (drain_all (s ++ c)) as [qs b']. reflexivity.
  - (* no marker in x: only trim x is kept *)
    simpl. assert (drain_all (x ++ c) = drain_all (trim x ++ c)) as ->.
    { apply drain_all_cong; [apply seek_trim; exact E | apply trim_app]. }
    destruct (drain_all (trim x ++ c)) as [qs b']. reflexivity.
Qed.

(* shape of what a call leaves behind *)
Inductive residual : list Z -> Prop :=
| res_nil : residual []
| res_half : residual [170%Z]
| res_partial s : head_marker s = true -> length s < 20 -> residual s.

Lemma drain_all_residual x : residual (snd (drain_all x)).
Proof.
  remember (length x) as n eqn:Hn. revert x Hn.
  induction n as [n IH] using lt_wf_ind. intros x Hn.
  rewrite drain_all_eq. destruct (seek x) as [s|] eqn:E.
  - destruct (seek_some _ _ E) as (HM & L2 & L).
    destruct (Nat.leb_spec 20 (length s)) as [L20|L20].
    + assert (Hy : length (skipn 20 s) < n) by (rewrite skipn_length; lia).
      specialize (IH _ Hy (skipn 20 s) eq_refl).
      destruct (drain_all (skipn 20 s)) as [ps b]. exact IH.
    + simpl. apply res_partial; assumption.
  - simpl. destruct (trim_cases x) as [T|T]; rewrite T; constructor.
Qed.

Lemma residual_settled b : residual b -> drain_all b = ([], b).
Proof.
  intros R. rewrite drain_all_eq. destruct R as [| |s HM L].
  - reflexivity.
  - reflexivity.
  - rewrite (seek_head _ HM). destruct (Nat.leb_spec 20 (length s)); [lia|reflexivity].
Qed.

Definition settled (st : list Z) : Prop := drain_all st = ([], st).

Lemma settled_residual st : settled st -> residual st.
Proof. intros S. pose proof (drain_all_residual st) as R. rewrite S in R. exact R. Qed.

Lemma settled_nil : settled [].
Proof. reflexivity. Qed.

Theorem chunking_independent : forall chunks st,
  settled st -> feed st chunks = drain_all (st ++ concat chunks).
Proof.
  induction chunks as [|c cs IH]; intros st D; simpl.
  - rewrite app_nil_r, D. reflexivity.
  - unfold serial_step.
    rewrite app_assoc, (drain_all_app (st ++ c) (concat cs)).
    pose proof (drain_all_residual (st ++ c)) as R.
    destruct (drain_all (st ++ c)) as [ps b]. simpl in R.
    rewrite (IH b (residual_settled _ R)).
    destruct (drain_all (b ++ concat cs)) as [qs b']. reflexivity.
Qed.

Corollary chunking_from_empty chunks : feed [] chunks = drain_all (concat chunks).
Proof. apply (chunking_independent chunks [] settled_nil). Qed.

Corollary chunking_any_two : forall chunks chunks' st,
  settled st -> concat chunks = concat chunks' -> feed st chunks = feed st chunks'.
Proof. intros. rewrite !chunking_independent by assumption. congruence. Qed.

(* ------------------------------------------------------------------ 5. bound *)
Lemma residual_len b : residual b -> length b <= 19.
Proof. intros [| |s _ L]; simpl; lia. Qed.

Lemma step_bounded st chunk : length (fst (serial_step st chunk)) <= 19.
Proof.
  unfold serial_step. pose proof (drain_all_residual (st ++ chunk)) as R.
  destruct (drain_all (st ++ chunk)) as [ps b]. simpl in *. apply residual_len; exact R.
Qed.

Lemma step_settled st chunk : settled (fst (serial_step st chunk)).
Proof.
  unfold serial_step. pose proof (drain_all_residual (st ++ chunk)) as R.
  destruct (drain_all (st ++ chunk)) as [ps b]. simpl in *. apply residual_settled; exact R.
Qed.

Lemma feed_bufs_bounded : forall chunks st, Forall (fun b => length b <= 19) (feed_bufs st chunks).
Proof.
  induction chunks as [|c cs IH]; intros st; simpl; constructor; [apply step_bounded | apply IH].
Qed.

(* the buffer while a call is being processed: what was kept plus what was read *)
Lemma feed_peaks_bounded : forall chunks st, length st <= 19 ->
  Forall (fun c => length c <= 100) chunks -> Forall (fun n => n <= 119) (feed_peaks st chunks).
Proof.
  intros chunks st Hst Hc. revert st Hst. induction Hc as [|c cs Hc1 Hc IH]; intros st Hst; simpl; constructor.
  - rewrite app_length; lia.
  - apply IH. apply step_bounded.
Qed.

(* ------------------------------------------------------------------ 6. packets in a stream *)
Lemma pkt_shape_spec p : pkt_shape p = true -> head_marker p = true /\ length p = 20.
Proof.
  destruct p as [|a [|b t]]; try discriminate. unfold pkt_shape, head_marker, marker.
  intros H. apply andb_true_iff in H. destruct H as [H L]. apply Nat.eqb_eq in L. auto.
Qed.

Lemma head_marker_app s c : head_marker s = true -> head_marker (s ++ c) = true.
Proof. destruct s as [|a [|b t]]; simpl; try discriminate. auto. Qed.

(* after marker-free noise a packet is cut out exactly, and the loop continues right behind it *)
Lemma drain_all_packet n p rest : marker_free n -> pkt_shape p = true ->
  drain_all (n ++ p ++ rest) = let '(ps, b) := drain_all rest in (p :: ps, b).
Proof.
  intros Hn Hp. destruct (pkt_shape_spec _ Hp) as [HM L].
  rewrite drain_all_eq.
  rewrite (seek_none_app n (p ++ rest)) by (try apply seek_none_iff; auto using head_marker_app).
  rewrite app_length, L. change (20 <=? 20 + length rest) with true. cbv iota.
  assert (Hf : firstn 20 (p ++ rest) = p).
  { rewrite <- L at 1. rewrite firstn_app, Nat.sub_diag, firstn_O, app_nil_r. apply firstn_all. }
  assert (Hs : skipn 20 (p ++ rest) = rest).
  { rewrite <- L at 1. rewrite skipn_app, Nat.sub_diag, skipn_all. reflexivity. }
  rewrite Hf, Hs. reflexivity.
Qed.

Definition item_ok (it : packet * list Z) : Prop := pkt_shape (fst it) = true /\ marker_free (snd it).
Definition final_noise (n0 : list Z) (items : list (packet * list Z)) : list Z := last (map snd items) n0.

Lemma last_cons_default {A} l : forall (a d : A), last (a :: l) d = last l a.
Proof.
  induction l as [|b l IH]; intros a d; [reflexivity|].
  change (last (a :: b :: l) d) with (last (b :: l) d). rewrite (IH b d), (IH b a). reflexivity.
Qed.

Lemma stream_of_cons n0 p n1 items : stream_of n0 ((p, n1) :: items) = n0 ++ p ++ stream_of n1 items.
Proof. unfold stream_of. simpl. rewrite <- !app_assoc. reflexivity. Qed.

Lemma no_loss_whole : forall items n0, marker_free n0 -> Forall item_ok items ->
  drain_all (stream_of n0 items) = (map fst items, trim (final_noise n0 items)).
Proof.
  induction items as [|[p n1] items IH]; intros n0 H0 HI.
  - unfold stream_of, final_noise. simpl. rewrite app_nil_r, drain_all_eq.
    apply seek_none_iff in H0. rewrite H0. reflexivity.
  - inversion HI as [|? ? [Hp Hn1] HI']; subst. simpl in Hp, Hn1.
    rewrite stream_of_cons, (drain_all_packet n0 p _ H0 Hp), (IH n1 Hn1 HI').
    unfold final_noise. simpl map. rewrite last_cons_default. reflexivity.
Qed.

Lemma seek_tail_none a t : seek (a :: t) = None -> seek t = None.
Proof. destruct t as [|b t']; [reflexivity|]. rewrite seek_cons2. destruct (marker a b); [discriminate|auto]. Qed.

Lemma marker_free_skipn j : forall l, marker_free l -> marker_free (skipn j l).
Proof.
  induction j as [|j IH]; intros l H; [exact H|]. destruct l as [|a t]; [exact H|].
  simpl. apply IH. apply seek_none_iff. apply seek_none_iff in H. apply (seek_tail_none a t H).
Qed.

(* a packet whose bytes after the header are marker-free has no marker except at its start *)
Lemma packet_tail_free p k : pkt_shape p = true -> marker_free (skipn 2 p) -> 1 <= k -> marker_free (skipn k p).
Proof.
  intros Hp Hf Hk. destruct k as [|[|k]]; [lia| |].
  - destruct p as [|a [|b t]]; try discriminate. unfold pkt_shape in Hp.
    apply andb_true_iff in Hp. destruct Hp as [Hp _]. apply andb_true_iff in Hp. destruct Hp as [_ Hb].
    apply Z.eqb_eq in Hb. subst b. simpl in *. apply seek_none_iff.
    destruct t as [|c t']; [reflexivity|]. rewrite seek_cons2. unfold marker. simpl.
    apply seek_none_iff. exact Hf.
  - replace (S (S k)) with (2 + k) by lia. rewrite skipn_plus. apply marker_free_skipn. exact Hf.
Qed.

(* after ANY prefix, of two consecutive packets (the first with a marker-free body) the second is cut out
   intact and the loop continues exactly behind it *)
Lemma resync_whole noise P1 P2 rest :
  pkt_shape P1 = true -> pkt_shape P2 = true -> marker_free (skipn 2 P1) ->
  exists pre, drain_all (noise ++ P1 ++ P2 ++ rest)
              = (pre ++ P2 :: fst (drain_all rest), snd (drain_all rest)).
Proof.
  intros H1 H2 HF. rewrite drain_all_app.
  pose proof (drain_all_residual noise) as R. destruct (drain_all noise) as [ps b]. simpl in R.
  assert (Free : forall m, marker_free m ->
            drain_all (m ++ P1 ++ P2 ++ rest) = (P1 :: P2 :: fst (drain_all rest), snd (drain_all rest))).
  { intros m Hm. rewrite (drain_all_packet m P1 _ Hm H1).
    change (P2 ++ rest) with ([] ++ P2 ++ rest). rewrite (drain_all_packet [] P2 rest eq_refl H2).
    destruct (drain_all rest); reflexivity. }
  destruct R as [| |s HM L].
  - rewrite (Free [] eq_refl). exists (ps ++ [P1]). rewrite <- app_assoc. reflexivity.
  - rewrite (Free [170%Z] eq_refl). exists (ps ++ [P1]). rewrite <- app_assoc. reflexivity.
  - (* a partial window s is pending: it swallows the first k bytes of P1 *)
    destruct (pkt_shape_spec _ H1) as [HM1 L1].
    assert (L2 : 2 <= length s) by (destruct s as [|a [|b t]]; simpl in *; try discriminate; lia).
    set (k := 20 - length s).
    rewrite drain_all_eq, (seek_head _ (head_marker_app s _ HM)), app_length, app_length, L1.
    destruct (Nat.leb_spec 20 (length s + (20 + length (P2 ++ rest)))); [|lia].
    assert (Hs : skipn 20 (s ++ P1 ++ P2 ++ rest) = skipn k P1 ++ P2 ++ rest).
    { rewrite skipn_app, (skipn_all2 s) by lia. fold k. simpl app.
      rewrite skipn_app. replace (k - length P1) with 0 by (unfold k; lia). reflexivity. }
    rewrite Hs.
    rewrite (drain_all_packet (skipn k P1) P2 rest) by
      (auto; apply packet_tail_free; auto; unfold k; lia).
    exists (ps ++ [firstn 20 (s ++ P1 ++ P2 ++ rest)]).
    destruct (drain_all rest). rewrite <- app_assoc. reflexivity.
Qed.

(* ------------------------------------------------------------------ 7. decode_usb's acceptance test *)
Lemma firstn20_shape s : head_marker s = true -> 20 <= length s -> pkt_shape (firstn 20 s) = true.
Proof.
  destruct s as [|a [|b t]]; try discriminate. intros HM L.
  change (firstn 20 (a :: b :: t)) with (a :: b :: firstn 18 t).
  unfold pkt_shape. unfold head_marker, marker in HM. rewrite HM.
  change (length (a :: b :: firstn 18 t)) with (S (S (length (firstn 18 t)))).
  rewrite firstn_length_le by (simpl in L; lia). reflexivity.
Qed.

Lemma cut_shape : forall x p, In p (fst (drain_all x)) -> pkt_shape p = true.
Proof.
  intros x. remember (length x) as n eqn:Hn. revert x Hn.
  induction n as [n IH] using lt_wf_ind. intros x Hn p.
  rewrite drain_all_eq. destruct (seek x) as [s|] eqn:E; [|simpl; tauto].
  destruct (seek_some _ _ E) as (HM & L2 & L).
  destruct (Nat.leb_spec 20 (length s)) as [L20|L20]; [|simpl; tauto].
  assert (Hy : length (skipn 20 s) < n) by (rewrite skipn_length; lia).
  specialize (IH _ Hy (skipn 20 s) eq_refl p).
  destruct (drain_all (skipn 20 s)) as [ps b]. cbn [fst In] in *. intros [<-|H]; [|auto].
  apply firstn20_shape; assumption.
Qed.

Lemma step_cut_shape st chunk p : In p (snd (serial_step st chunk)) -> pkt_shape p = true.
Proof.
  unfold serial_step. pose proof (cut_shape (st ++ chunk) p) as H.
  destruct (drain_all (st ++ chunk)) as [ps b]. exact H.
Qed.

Lemma gate_of_shape p : pkt_shape p = true ->
  decode_usb_gate p = if Z.eqb (checksum p) (nth 19 p 0%Z) then GAccept else GReject.
Proof.
  destruct p as [|a [|b t]]; try discriminate. unfold pkt_shape, decode_usb_gate.
  intros H. apply andb_true_iff in H. destruct H as [H L]. apply andb_true_iff in H. destruct H as [Ha Hb].
  rewrite Ha, Hb, L. cbn [negb orb].
  destruct (Z.eqb (checksum (a :: b :: t)) (nth 19 (a :: b :: t) 0%Z)); reflexivity.
Qed.

Lemma checksum_mod p : checksum p = (fold_right Z.add 0 (firstn 17 (skipn 2 p)) mod 256)%Z.
Proof. unfold checksum. change 255%Z with (Z.ones 8). rewrite Z.land_ones by lia. reflexivity. Qed.

(* whatever reaches _decode is a 20-byte AA 55 window whose last byte is the additive checksum *)
Lemma usb_valid_sound p : usb_valid p = true ->
  pkt_shape p = true /\ nth 19 p 0%Z = (fold_right Z.add 0 (firstn 17 (skipn 2 p)) mod 256)%Z.
Proof.
  unfold usb_valid. rewrite <- checksum_mod.
  destruct p as [|a [|b t]]; try discriminate. unfold decode_usb_gate, pkt_shape.
  destruct (Z.eqb a 170); [|discriminate]. destruct (Z.eqb b 85); [|discriminate]. cbn [negb orb andb].
  destruct (length (a :: b :: t) =? 20); [|discriminate]. cbn [negb orb andb].
  destruct (Z.eqb_spec (checksum (a :: b :: t)) (nth 19 (a :: b :: t) 0%Z)); [|discriminate].
  auto.
Qed.

Lemma usb_valid_of_shape p : pkt_shape p = true ->
  (usb_valid p = true <-> nth 19 p 0%Z = (fold_right Z.add 0 (firstn 17 (skipn 2 p)) mod 256)%Z).
Proof.
  intros H. unfold usb_valid. rewrite (gate_of_shape p H), <- checksum_mod.
  destruct (Z.eqb_spec (checksum p) (nth 19 p 0%Z)); simpl; split; intros; congruence.
Qed.

Lemma step_checksum st chunk p : In p (snd (serial_step st chunk)) ->
  pkt_shape p = true /\ decode_usb_gate p <> GRaise /\
  (In p (deliveries (snd (serial_step st chunk)))
   <-> nth 19 p 0%Z = (fold_right Z.add 0 (firstn 17 (skipn 2 p)) mod 256)%Z).
Proof.
  intros H. pose proof (step_cut_shape _ _ _ H) as S. split; [exact S|]. split.
  - rewrite (gate_of_shape p S). destruct (Z.eqb (checksum p) (nth 19 p 0%Z)); discriminate.
  - unfold deliveries. rewrite filter_In, (usb_valid_of_shape p S). tauto.
Qed.

Lemma deliveries_sound ps p : In p (deliveries ps) ->
  pkt_shape p = true /\ nth 19 p 0%Z = (fold_right Z.add 0 (firstn 17 (skipn 2 p)) mod 256)%Z.
Proof. unfold deliveries. rewrite filter_In. intros [_ H]. apply usb_valid_sound; exact H. Qed.

(* ------------------------------------------------------------------ statements over read histories *)
Theorem no_loss : forall n0 items chunks,
  marker_free n0 -> Forall item_ok items -> concat chunks = stream_of n0 items ->
  feed [] chunks = (map fst items, trim (final_noise n0 items)).
Proof. intros. rewrite chunking_from_empty, H1. apply no_loss_whole; assumption. Qed.

Theorem resync : forall noise P1 P2 rest chunks,
  pkt_shape P1 = true -> pkt_shape P2 = true -> marker_free (skipn 2 P1) ->
  concat chunks = noise ++ P1 ++ P2 ++ rest ->
  exists pre, feed [] chunks = (pre ++ P2 :: fst (drain_all rest), snd (drain_all rest)).
Proof. intros. rewrite chunking_from_empty, H2. apply resync_whole; assumption. Qed.

(* ------------------------------------------------------------------ 8. the loop of the pinned tree *)
(* (DESIGN Appendix D, with drain/feed renamed drain0/feed0) *)
Lemma find_marker_app l c i : find_marker l = Some i -> find_marker (l ++ c) = Some i.
Proof.
  revert i. induction l as [|a t IH]; intros i H; [discriminate|].
  destruct t as [|b t']; [discriminate|]. rewrite find_marker_cons2 in H.
  simpl app. rewrite find_marker_cons2. destruct (marker a b); [exact H|].
  destruct (find_marker (b :: t')) as [j|] eqn:E; [|discriminate].
  inversion H; subst. specialize (IH j eq_refl).
  change ((b :: t') ++ c) with (b :: t' ++ c) in IH. rewrite IH. reflexivity.
Qed.

Lemma drain0_step f buf : drain0 (S f) buf =
  match find_marker buf with
  | None => ([], buf)
  | Some i => if i + 20 <=? length buf then
                let '(ps, b) := drain0 f (skipn (i + 20) buf) in (firstn 20 (skipn i buf) :: ps, b)
              else ([], buf)
  end.
Proof. reflexivity. Qed.

Lemma drain0_fuel f : forall g buf, length buf <= f -> length buf <= g -> drain0 f buf = drain0 g buf.
Proof.
  induction f as [|f IH]; intros g buf Hf Hg.
  - destruct buf; [|simpl in Hf; lia]. destruct g; reflexivity.
  - destruct g as [|g].
    + destruct buf; [reflexivity | simpl in Hg; lia].
    + rewrite !drain0_step.
      destruct (find_marker buf) as [i|] eqn:F; [|reflexivity].
      destruct (Nat.leb_spec (i + 20) (length buf)) as [L|L]; [|reflexivity].
      assert (Hs : length (skipn (i + 20) buf) + 20 <= length buf) by (rewrite skipn_length; lia).
      rewrite (IH g (skipn (i+20) buf)) by lia. reflexivity.
Qed.

Lemma drain0_all_app x : forall c,
  drain0_all (x ++ c) =
  let '(ps, b) := drain0_all x in let '(qs, b') := drain0_all (b ++ c) in (ps ++ qs, b').
Proof.
  unfold drain0_all.
  remember (length x) as n eqn:Hn. revert x Hn.
  induction n as [n IH] using lt_wf_ind. intros x Hn c.
  destruct n as [|n].
  - destruct x; [|discriminate]. simpl. destruct (drain0 (length c) c); reflexivity.
  - rewrite drain0_step.
    destruct (find_marker x) as [i|] eqn:F.
    2:{ cbv beta iota. destruct (drain0 (length (x ++ c)) (x ++ c)); reflexivity. }
    destruct (Nat.leb_spec (i + 20) (length x)) as [L|L].
    2:{ cbv beta iota. destruct (drain0 (length (x ++ c)) (x ++ c)); reflexivity. }
    pose proof (find_marker_app x c i F) as Fa.
    assert (Hlen : length (x ++ c) = S (n + length c)) by (rewrite app_length; lia).
    rewrite Hlen, drain0_step, Fa.
    assert (La : i + 20 <= length (x ++ c)) by (rewrite app_length; lia).
    destruct (Nat.leb_spec (i + 20) (length (x ++ c))) as [_|Bad]; [|lia].
    assert (Hsk : skipn (i + 20) (x ++ c) = skipn (i + 20) x ++ c).
    { rewrite skipn_app. replace (i + 20 - length x) with 0 by lia. reflexivity. }
    assert (Hfi : firstn 20 (skipn i (x ++ c)) = firstn 20 (skipn i x)).
    { rewrite skipn_app. rewrite firstn_app. rewrite skipn_length.
      replace (20 - (length x - i)) with 0 by lia. rewrite firstn_O, app_nil_r. reflexivity. }
    rewrite Hsk, Hfi.
    set (y := skipn (i + 20) x).
    assert (Hy : length y + 20 <= length x) by (unfold y; rewrite skipn_length; lia).
    rewrite (drain0_fuel (n + length c) (length (y ++ c)) (y ++ c)) by (rewrite app_length; lia).
    rewrite (drain0_fuel n (length y) y) by lia.
    rewrite (IH (length y) ltac:(lia) y eq_refl c).
    destruct (drain0 (length y) y) as [ps b].
    destruct (drain0 (length (b ++ c)) (b ++ c)) as [qs b']. reflexivity.
Qed.

Lemma residual0_drained x : drain0_all (snd (drain0_all x)) = ([], snd (drain0_all x)).
Proof.
  unfold drain0_all. remember (length x) as n eqn:Hn. revert x Hn.
  induction n as [n IH] using lt_wf_ind. intros x Hn.
  destruct n as [|n].
  - destruct x; [|discriminate]. reflexivity.
  - rewrite drain0_step. destruct (find_marker x) as [i|] eqn:F.
    2:{ cbn [snd]. rewrite <- Hn, drain0_step, F. reflexivity. }
    destruct (Nat.leb_spec (i + 20) (length x)) as [L|L].
    2:{ cbn [snd]. rewrite <- Hn, drain0_step, F.
        destruct (Nat.leb_spec (i + 20) (length x)); [lia | reflexivity]. }
    set (y := skipn (i + 20) x).
    assert (Hy : length y + 20 <= length x) by (unfold y; rewrite skipn_length; lia).
    rewrite (drain0_fuel n (length y) y) by lia.
    specialize (IH (length y) ltac:(lia) y eq_refl).
    destruct (drain0 (length y) y) as [ps b]. cbn [snd] in *. exact IH.
Qed.

Theorem chunking_independent0 : forall chunks st,
  drain0_all st = ([], st) -> feed0 st chunks = drain0_all (st ++ concat chunks).
Proof.
  induction chunks as [|c cs IH]; intros st D; simpl.
  - rewrite app_nil_r, D. reflexivity.
  - unfold serial_step0.
    rewrite app_assoc, (drain0_all_app (st ++ c) (concat cs)).
    pose proof (residual0_drained (st ++ c)) as R.
    destruct (drain0_all (st ++ c)) as [ps b]. simpl in R.
    rewrite (IH b R).
    destruct (drain0_all (b ++ concat cs)) as [qs b']. reflexivity.
Qed.

(* the pinned loop in suffix form *)
Lemma drain0_all_eq buf : drain0_all buf =
  match seek buf with
  | None => ([], buf)
  | Some s => if 20 <=? length s
              then let '(ps, b) := drain0_all (skipn 20 s) in (firstn 20 s :: ps, b)
              else ([], buf)
  end.
Proof.
  unfold drain0_all. destruct buf as [|a t]; [reflexivity|].
  change (length (a :: t)) with (S (length t)). rewrite drain0_step. unfold seek.
  destruct (find_marker (a :: t)) as [i|] eqn:F; cbn [option_map]; [|reflexivity].
  pose proof (find_marker_lt _ _ F) as L.
  rewrite skipn_length, skipn_plus.
  destruct (Nat.leb_spec (i + 20) (length (a :: t))), (Nat.leb_spec 20 (length (a :: t) - i)); try lia; try reflexivity.
  rewrite (drain0_fuel (length t) (length (skipn 20 (skipn i (a :: t)))) (skipn 20 (skipn i (a :: t))))
    by (rewrite ?skipn_length; simpl length in *; lia).
  reflexivity.
Qed.

(* the repair changes nothing but the retained buffer: the packets handed to decode_usb are the same *)
Lemma repair_same_packets_whole : forall x, fst (drain0_all x) = fst (drain_all x).
Proof.
  intros x. remember (length x) as n eqn:Hn. revert x Hn.
  induction n as [n IH] using lt_wf_ind. intros x Hn.
  rewrite drain0_all_eq, drain_all_eq. destruct (seek x) as [s|] eqn:E; [|reflexivity].
  destruct (seek_some _ _ E) as (HM & L2 & L).
  destruct (Nat.leb_spec 20 (length s)) as [L20|L20]; [|reflexivity].
  assert (Hy : length (skipn 20 s) < n) by (rewrite skipn_length; lia).
  specialize (IH _ Hy (skipn 20 s) eq_refl).
  destruct (drain0_all (skipn 20 s)), (drain_all (skipn 20 s)). cbn [fst] in *. congruence.
Qed.

Theorem repair_same_packets chunks : fst (feed0 [] chunks) = fst (feed [] chunks).
Proof.
  rewrite (chunking_independent0 chunks [] eq_refl), chunking_from_empty. apply repair_same_packets_whole.
Qed.

(* F-serialbuf as a statement: the pinned loop retains every byte of marker-free input *)
Lemma find_marker_zeros n : find_marker (repeat 0%Z n) = None.
Proof.
  induction n as [|n IH]; [reflexivity|]. destruct n as [|n]; [reflexivity|].
  change (repeat 0%Z (S (S n))) with (0%Z :: 0%Z :: repeat 0%Z n). rewrite find_marker_cons2.
  change (marker 0 0) with false. cbv iota. change (0%Z :: repeat 0%Z n) with (repeat 0%Z (S n)). rewrite IH. reflexivity.
Qed.

Lemma concat_repeat_singleton {A} (a : A) n : concat (repeat [a] n) = repeat a n.
Proof. induction n as [|n IH]; [reflexivity|]. simpl. rewrite IH. reflexivity. Qed.

Theorem pinned_unbounded : forall N, exists chunks,
  Forall (fun c => length c <= 100) chunks /\ length (snd (feed0 [] chunks)) = N.
Proof.
  intros N. exists (repeat [0%Z] N). split.
  - apply Forall_forall. intros c H. apply repeat_spec in H. subst. simpl. lia.
  - rewrite (chunking_independent0 _ [] eq_refl). simpl app. rewrite concat_repeat_singleton.
    rewrite drain0_all_eq. assert (seek (repeat 0%Z N) = None) as -> by (apply seek_none_iff, find_marker_zeros).
    cbn [snd]. apply repeat_length.
Qed.

(* ------------------------------------------------------------------ packaged statements for props/C20.v *)
Lemma filter_all_true {A} (f : A -> bool) l : Forall (fun x => f x = true) l -> filter f l = l.
Proof. induction 1 as [|x l Hx _ IH]; simpl; [reflexivity|]. rewrite Hx, IH. reflexivity. Qed.

Theorem no_loss_valid : forall n0 items chunks,
  marker_free n0 -> Forall (fun it => usb_valid (fst it) = true /\ marker_free (snd it)) items ->
  concat chunks = stream_of n0 items ->
  deliveries (fst (feed [] chunks)) = map fst items.
Proof.
  intros n0 items chunks H0 HI HC.
  assert (HI' : Forall item_ok items).
  { eapply Forall_impl; [|exact HI]. intros it [V F]. split; [apply usb_valid_sound; exact V | exact F]. }
  rewrite (no_loss n0 items chunks H0 HI' HC).
  cbn [fst]. unfold deliveries. apply filter_all_true.
  apply Forall_forall. intros p Hp. apply in_map_iff in Hp. destruct Hp as (it & <- & Hit).
  rewrite Forall_forall in HI. apply (HI it Hit).
Qed.

Theorem bounded : forall chunks st,
  Forall (fun c => length c <= 100) chunks -> length st <= 19 ->
  Forall (fun b => length b <= 19) (feed_bufs st chunks) /\ Forall (fun n => n <= 119) (feed_peaks st chunks).
Proof. intros. split; [apply feed_bufs_bounded | apply feed_peaks_bounded; assumption]. Qed.

(* delivery resumes: behind the (possibly lost) first packet after arbitrary bytes, the second packet and every
   later packet separated by marker-free noise only are cut out, in order, and nothing else is *)
Theorem resync_resume : forall noise P1 P2 n0 items chunks,
  pkt_shape P1 = true -> pkt_shape P2 = true -> marker_free (skipn 2 P1) ->
  marker_free n0 -> Forall item_ok items ->
  concat chunks = noise ++ P1 ++ P2 ++ stream_of n0 items ->
  exists pre, feed [] chunks = (pre ++ P2 :: map fst items, trim (final_noise n0 items)).
Proof.
  intros noise P1 P2 n0 items chunks H1 H2 HF H0 HI HC.
  destruct (resync noise P1 P2 (stream_of n0 items) chunks H1 H2 HF HC) as [pre E].
  exists pre. rewrite E, (no_loss_whole items n0 H0 HI). reflexivity.
Qed.

(* ------------------------------------------------------------------ whole streams of packets and arbitrary gaps *)
Lemma subseq_app_l {A} (pre a b : list A) : subseq a b -> subseq a (pre ++ b).
Proof. intros H. induction pre as [|x pre IH]; [exact H|]. simpl. apply sub_skip, IH. Qed.

Lemma subseq_filter {A} (f : A -> bool) a b : subseq a b -> subseq (filter f a) (filter f b).
Proof.
  induction 1 as [l|x a b H IH|x a b H IH]; simpl.
  - apply sub_nil.
  - destruct (f x); [apply sub_take|]; exact IH.
  - destruct (f x); [apply sub_skip|]; exact IH.
Qed.

Lemma free_b_iff l : free_b l = true <-> marker_free l.
Proof. unfold free_b, marker_free. destruct (find_marker l); split; congruence. Qed.

Definition consistent (st : sync) (pre : list Z) : Prop :=
  match st with
  | Sync n => pre = n /\ marker_free n
  | Lost => True
  | Half => exists pre0 P1, pre = pre0 ++ P1 /\ pkt_shape P1 = true /\ marker_free (skipn 2 P1)
  end.

Lemma must_cut_sound : forall segs st pre, Forall seg_ok segs -> consistent st pre ->
  subseq (must_cut st segs) (fst (drain_all (pre ++ flatten segs))).
Proof.
  induction segs as [|s r IH]; intros st pre HS HC; [apply sub_nil|].
  inversion HS as [|? ? Hs Hr]; subst.
  destruct s as [g|p]; cbn [must_cut flatten flat_map seg_bytes]; fold (flatten r).
  - (* a gap *)
    rewrite app_assoc.
    destruct st as [n| |].
    + destruct HC as [-> Hn]. destruct (free_b (n ++ g)) eqn:F.
      * apply IH; [exact Hr|]. split; [reflexivity | apply free_b_iff; exact F].
      * apply IH; [exact Hr | exact I].
    + apply IH; [exact Hr | exact I].
    + apply IH; [exact Hr | exact I].
  - (* a packet *)
    simpl in Hs.
    assert (Fresh : subseq (must_cut (Sync []) r) (fst (drain_all (flatten r)))).
    { apply (IH (Sync []) [] Hr). split; reflexivity. }
    destruct st as [n| |].
    + destruct HC as [-> Hn]. rewrite (drain_all_packet n p (flatten r) Hn Hs).
      destruct (drain_all (flatten r)) as [ps b]. apply sub_take. exact Fresh.
    + destruct (free_b (skipn 2 p)) eqn:F; rewrite app_assoc; apply IH; try exact Hr; try exact I.
      exists pre, p. split; [reflexivity|]. split; [exact Hs | apply free_b_iff; exact F].
    + destruct HC as (pre0 & P1 & -> & H1 & HF). rewrite <- app_assoc.
      destruct (resync_whole pre0 P1 p (flatten r) H1 Hs HF) as [pre' E]. rewrite E. cbn [fst].
      apply subseq_app_l, sub_take. exact Fresh.
Qed.

Theorem stream_sound : forall segs chunks, Forall seg_ok segs -> concat chunks = flatten segs ->
  subseq (must_cut (Sync []) segs) (fst (feed [] chunks)) /\
  subseq (filter usb_valid (must_cut (Sync []) segs)) (deliveries (fst (feed [] chunks))).
Proof.
  intros segs chunks HS HC.
  assert (H : subseq (must_cut (Sync []) segs) (fst (feed [] chunks))).
  { rewrite chunking_from_empty, HC. apply (must_cut_sound segs (Sync []) [] HS). split; reflexivity. }
  split; [exact H | apply subseq_filter; exact H].
Qed.
