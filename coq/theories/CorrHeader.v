(* CorrHeader.v — checkers used by the C05 correspondence cases (tools/c05.py). *)
From NV Require Import Base Header.
From Coq Require Import Uint63.

(* (id, observed extract_header result) *)
Definition chk_extract (c : Z * hdr) : bool := hdr_eqb (extract_header (fst c)) (snd c).
(* ((pgn, src, dest, prio), observed build_header result) *)
Definition chk_build (c : hdr * Z) : bool :=
  let '(p,s,d,q) := fst c in build_header p s d q =? snd c.
(* sweep digest: fold over a range of identifiers, as the harness does on the implementation *)
(* rolling digest in native 63-bit arithmetic: (acc * 1000003 + x) mod 2^63 *)
Definition mix (acc : int) (x : Z) : int := (acc * 1000003 + Uint63.of_Z x)%uint63.
Definition digest_hdr (acc : int) (h : hdr) : int :=
  let '(p,s,d,q) := h in mix (mix (mix (mix acc p) s) d) q.
Definition sweep_extract (n : N) (id step : Z) (acc : int) : int :=
  snd (N.iter n (fun '(id, acc) => (id + step, digest_hdr acc (extract_header id))) (id, acc)).
(* ((start, step, count), digest) *)
Definition chk_sweep (c : (Z * Z * Z) * Z) : bool :=
  let '(start, step, count) := fst c in
  Uint63.to_Z (sweep_extract (Z.to_N count) start step 0%uint63) =? snd c.
Definition chk_acti_parse (c : Z * (Z*Z*Z)) : bool :=
  let '(s,d,q) := acti_parse (fst c) in let '(s',d',q') := snd c in (s =? s') && (d =? d') && (q =? q').
Definition chk_acti_build (c : (Z*Z*Z) * Z) : bool :=
  let '(s,d,q) := fst c in acti_build s d q =? snd c.
