(* FastPacketFrames.v — corollaries of FastPacketProofs.segment_shape stated on the frames themselves (C03):
   every CAN frame the encoder produces has at most 8 bytes and at least 2, the number of frames is the closed form
   total_frames, between 1 and 32, and byte 0 of frame k is seq*32+k. *)
From NV Require Import Base Bits FastPacket FastPacketProofs.

Lemma zlen_cons {A} (x : A) l : zlen (x :: l) = 1 + zlen l.
Proof. unfold zlen. cbn [length]. lia. Qed.

Lemma number_sizes seq : forall cs fc, Forall (fun c => 1 <= zlen c <= 7) cs ->
  Forall (fun f => 2 <= zlen f <= 8) (number fc seq cs).
Proof.
  induction cs as [|c cs IH]; intros fc F; cbn [number]; [constructor|].
  inversion F as [|c' cs' Hc Hcs]; subst. constructor; [rewrite zlen_cons; lia | apply IH; exact Hcs].
Qed.

Lemma number_heads seq : forall cs fc k f, nth_error (number fc seq cs) k = Some f ->
  hd_error f = Some (seq * 32 + fc + Z.of_nat k).
Proof.
  induction cs as [|c cs IH]; intros fc k f H; cbn [number] in H.
  - destruct k; discriminate H.
  - destruct k as [|k]; cbn [nth_error] in H.
    + inversion H; subst. cbn [hd_error]. f_equal. lia.
    + apply IH in H. rewrite H. f_equal. lia.
Qed.

Theorem segment_frames seq p : 0 <= seq < 8 -> zlen p <= 223 ->
  Forall (fun f => 2 <= zlen f <= 8) (segment seq p) /\
  length (segment seq p) = Z.to_nat (total_frames (zlen p)) /\
  1 <= total_frames (zlen p) <= 32 /\
  (forall k f, nth_error (segment seq p) k = Some f -> hd_error f = Some (seq * 32 + Z.of_nat k)) /\
  (forall f, hd_error (segment seq p) = Some f -> nth_error f 1 = Some (zlen p)).
Proof.
  intros Hs Hp.
  destruct (segment_shape seq p Hs Hp) as (d0 & cs & E & _ & Hd0 & _ & F & _ & _ & _ & _).
  assert (Hd0' : 0 <= zlen d0) by (unfold zlen; lia).
  split; [|split; [|split; [|split]]].
  - rewrite E. constructor; [rewrite !zlen_cons; lia | apply number_sizes; exact F].
  - apply segment_length.
  - apply total_frames_bounds. unfold zlen in *. lia.
  - intros k f H. rewrite E in H. destruct k as [|k]; cbn [nth_error] in H.
    + inversion H; subst. cbn [hd_error]. f_equal. lia.
    + apply number_heads in H. rewrite H. f_equal. lia.
  - intros f H. rewrite E in H. cbn [hd_error] in H. inversion H; subst. reflexivity.
Qed.
