(* CorrSpecVar.v — checker for the test of the SPECIFICATION spec_decode_var against the real
   generated decode_pgn_* functions (C01, variable-layout definitions): the observed message or
   exception versus what the specification says of the database definition bound to that name. *)
From NV Require Import Base Bits Defn PyNum Fields Dispatch Template Spec SpecVar CorrFields.

(* (function name, database definition) for every definition that owns a function *)
Definition named_defs (gs : list (list dbdef)) : list (fname * dbdef) :=
  flat_map (fun g => map (fun d => (fname_of g d, d)) (bound_defs g)) gs.

Section Tables.
  Variable L LB : lookups.
  Variable LI : ilookups.
  Variable defs : list (fname * dbdef).
  Definition spec_named (fn : fname) (p : Z) : result msg :=
    match find_fname fn defs with
    | Some d => spec_decode_var L LB LI p d
    | None => Err EMissing
    end.
  Definition chk_spec_var (c : fname * Z * ores) : bool :=
    let '(fn, p, o) := c in res_matches (spec_named fn p) o.
  Definition is_unmodelled_spec (c : fname * Z * ores) : bool :=
    let '(fn, p, o) := c in match spec_named fn p with Unmodelled => true | _ => false end.
End Tables.
