(* PyNum.v — Python numeric semantics on Coq's primitive binary64 floats (DESIGN §2).
   Only computation here (PrimFloat / Uint63 / SpecFloat / FloatOps); real-number reasoning
   lives in the proof files. *)
From NV Require Import Base.
From Coq Require Import Uint63 PrimFloat SpecFloat FloatOps.

(* ---- a double from its IEEE-754 bit pattern (what struct.pack('>d') / float.hex denote) ---- *)
Definition float_of_bits (bits : Z) : float :=
  let s := Z.odd (bits / 2 ^ 63) in
  let ex := (bits / 2 ^ 52) mod 2048 in
  let fr := bits mod 2 ^ 52 in
  if ex =? 0 then
    (if fr =? 0 then (if s then neg_zero else zero)
     else SF2Prim (S754_finite s (Z.to_pos fr) (-1074)))
  else if ex =? 2047 then
    (if fr =? 0 then (if s then neg_infinity else infinity) else nan)
  else SF2Prim (S754_finite s (Z.to_pos (fr + 2 ^ 52)) (ex - 1075)).

(* the bit pattern of a double (inverse direction, for correspondence output) *)
Definition bits_of_float (f : float) : Z :=
  match Prim2SF f with
  | S754_zero s => if s then 2 ^ 63 else 0
  | S754_infinity s => (if s then 2 ^ 63 else 0) + 2047 * 2 ^ 52
  | S754_nan => 2047 * 2 ^ 52 + 2 ^ 51
  | S754_finite s m e =>
      let sgn := if s then 2 ^ 63 else 0 in
      (* Prim2SF normalises to a 53-bit mantissa for normal numbers; subnormals have e = -1074 *)
      if Z.pos m <? 2 ^ 52 then sgn + Z.pos m
      else sgn + (e + 1075) * 2 ^ 52 + (Z.pos m - 2 ^ 52)
  end.

(* ---- int -> float, correctly rounded (float(z) in CPython), for |z| < 2^64 ---- *)
Definition nat_to_float (n : Z) : float :=      (* 0 <= n < 2^64 *)
  if n <? 2 ^ 62 then of_uint63 (Uint63.of_Z n)
  else (* hi * 2^32 is exact, lo is exact, one rounding in the sum *)
    (of_uint63 (Uint63.of_Z (n / 2 ^ 32)) * 4294967296 + of_uint63 (Uint63.of_Z (n mod 2 ^ 32)))%float.
Definition Z2float (z : Z) : result float :=
  if Z.abs z <? 2 ^ 64 then
    Ok (if z <? 0 then (- nat_to_float (- z))%float else nat_to_float z)
  else Unmodelled.

(* ---- exact value of a finite double as (m, e): f = m * 2^e ---- *)
Definition float_me (f : float) : option (Z * Z) :=
  match Prim2SF f with
  | S754_zero _ => Some (0, 0)
  | S754_finite s m e => Some ((if s then - Z.pos m else Z.pos m), e)
  | _ => None
  end.

(* int(f): truncation toward zero (finite f) *)
Definition float_trunc (f : float) : result Z :=
  match float_me f with
  | Some (m, e) => Ok (if 0 <=? e then m * 2 ^ e else Z.quot m (2 ^ (- e)))
  | None => Err EOther              (* int(nan) / int(inf) raise *)
  end.

(* exact three-way comparison of an int with a double, as CPython's float_richcompare does *)
Definition cmp_Z_float (z : Z) (f : float) : option comparison :=
  match Prim2SF f with
  | S754_nan => None
  | S754_infinity s => Some (if s then Gt else Lt)
  | S754_zero _ => Some (z ?= 0)
  | S754_finite s m e =>
      let v := if s then - Z.pos m else Z.pos m in
      Some (if 0 <=? e then z ?= v * 2 ^ e else (z * 2 ^ (- e)) ?= v)
  end.

(* ---- Python numbers: int or float ---- *)
Inductive pynum := PI (z : Z) | PF (f : float).

(* a < b with Python's mixed-type rules *)
Definition py_lt (a b : pynum) : bool :=
  match a, b with
  | PI x, PI y => x <? y
  | PF x, PF y => (x <? y)%float
  | PI x, PF y => match cmp_Z_float x y with Some Lt => true | _ => false end
  | PF x, PI y => match cmp_Z_float y x with Some Gt => true | _ => false end
  end.
Definition py_gt (a b : pynum) : bool := py_lt b a.

(* int * number:  int*int exact; int*float converts the int first (one rounding), then multiplies *)
Definition py_mul_int (z : Z) (r : pynum) : result pynum :=
  match r with
  | PI k => Ok (PI (z * k))
  | PF f => do x <- Z2float z; Ok (PF (x * f)%float)
  end.

(* number / number (true division) — only the shapes the library uses *)
Definition py_div (a b : pynum) : result pynum :=
  match a, b with
  | PF x, PF y => if (y =? 0)%float then Err EOther else Ok (PF (x / y)%float)
  | PI x, PF y => if (y =? 0)%float then Err EOther else do fx <- Z2float x; Ok (PF (fx / y)%float)
  | PF x, PI y => if y =? 0 then Err EOther else do fy <- Z2float y; Ok (PF (x / fy)%float)
  | PI x, PI y =>
      if y =? 0 then Err EOther
      else if Z.abs x <? 2 ^ 53 then
        if Z.abs y <? 2 ^ 53 then
          do fx <- Z2float x; do fy <- Z2float y; Ok (PF (fx / fy)%float)
        else Unmodelled
      else if y =? 1 then do fx <- Z2float x; Ok (PF fx) else Unmodelled
  end.

(* int(x) *)
Definition py_int (a : pynum) : result Z :=
  match a with PI z => Ok z | PF f => float_trunc f end.

Definition pynum_of_bits_or_int (is_float : bool) (v : Z) : pynum :=
  if is_float then PF (float_of_bits v) else PI v.

(* binary32 bit pattern -> the double struct.unpack('<f') returns (exact widening) *)
Definition float_of_bits32 (bits : Z) : float :=
  let s := Z.odd (bits / 2 ^ 31) in
  let ex := (bits / 2 ^ 23) mod 256 in
  let fr := bits mod 2 ^ 23 in
  if ex =? 0 then
    (if fr =? 0 then (if s then neg_zero else zero)
     else SF2Prim (S754_finite s (Z.to_pos fr) (-149)))
  else if ex =? 255 then
    (if fr =? 0 then (if s then neg_infinity else infinity) else nan)
  else SF2Prim (S754_finite s (Z.to_pos (fr + 2 ^ 23)) (ex - 150)).
