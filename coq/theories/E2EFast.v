(* E2EFast.v — the end-to-end composition theorem for FAST-PACKET PGNs through the frame-level entry points.

   EndToEndProofs.v covers single-frame PGNs and the already-combined entry points.  Here: the frames
   `FastPacket.segment seq payload` of ONE fast-packet message, handed one after the other to an unfiltered decoder
   (`cfg0`) through any frame-level entry point, return `Ok None` for every frame but the last and, at the last frame,
   exactly what a single already-combined call would return for the whole payload: the decode function's message for
   the little-endian payload integer with source / destination / priority of the frames and the identity the source
   has claimed.  This holds from ANY decoder state whose reassembly record for the key (pgn, src, dst) is absent or
   carries another sequence counter; the source map is unchanged, the key's record is removed when the decode function
   returned (`del self.data[key]` is after the call), every other key's record is untouched.

   Part 1 (generic in `decode`, `is_fast`): `ctl_step` in the fast-packet branch under `cfg0` (ctl_fast_step);
           a run of calls on one key IS CtlFastBridge.c_run on the key's record (ctl_run_sim: outputs, source map,
           the key's record, every other key), hence — by CtlFastBridge.run_same — FastPacket.run.  So any frame list
           the C03 reassembler `reassembles` behaves the same inside `_decode` (ctl_fast_frames); `segment seq p` is
           such a list (segment_reassembles = FastPacketProofs.inverse_run, C03): ctl_fast_segment.
   Part 2 (front-end): inputs whose parse is the frame (e2e_run_ctl, e2e_fast_of_parse); the EByte renderings
           t :: be4 id ++ frame ++ pad with (t & 15) = len(frame) (ebyte_parses), the encoder's own rendering
           enc_ebyte1 (ebyte_canonical).
   Part 3 (tables): with the C08 / C01 table obligations of the group, the last frame returns `e2e_expected`
           (e2e_fast_tables, e2e_fast_tables_undispatched).  The per-run instance is tools/templates/OblE2Efast.v. *)
From NV Require Import Base Bits Defn PyNum Fields Dispatch DispatchProofs Template Spec SpecProofs
                       Header HeaderProofs PyText Wire WireProofs DecoderCtl DecoderCtlProofs EndToEnd EndToEndProofs.
From NV Require FastPacket FastPacketProofs CtlFastBridge.

Module FP := NV.FastPacket.
Module FPP := NV.FastPacketProofs.
Module CB := NV.CtlFastBridge.

(* ------------------------------------------------------------------ small list facts *)
Lemma map_repeat' {A B} (f : A -> B) (x : A) n : map f (repeat x n) = repeat (f x) n.
Proof. induction n as [|n IH]; [reflexivity | cbn [repeat map]; rewrite IH; reflexivity]. Qed.

Lemma Forall_repeat {A} (P : A -> Prop) x n : P x -> Forall P (repeat x n).
Proof. intros H. induction n; cbn [repeat]; constructor; assumption. Qed.

Lemma last_cons_default {A} (l : list A) : forall x d d', last (x :: l) d = last (x :: l) d'.
Proof. induction l as [|y l IH]; intros x d d'; [reflexivity|]. cbn [last] in IH |- *. apply (IH y). Qed.
Lemma last_cons_cons {A} (x y : A) l d : last (x :: y :: l) d = last (y :: l) d.
Proof. reflexivity. Qed.

Lemma Forall2_len {A B} (R : A -> B -> Prop) l l' : Forall2 R l l' -> length l = length l'.
Proof. induction 1; [reflexivity | cbn [length]; congruence]. Qed.

Lemma is_ok_with_prio prio (r : result (option DecoderCtl.msg)) : is_ok (with_prio prio r) = is_ok r.
Proof. destruct r as [[m|]|e|]; reflexivity. Qed.

(* the reassembly record of a key is absent or carries another sequence counter (FastPacketProofs.fresh, on
   DecoderCtl's record type) *)
Definition fresh_key (seq : Z) (o : option DecoderCtl.rec) : Prop :=
  o = None \/ exists r, o = Some r /\ DecoderCtl.rseq r <> seq.

Lemma fresh_key_cv seq o : fresh_key seq o -> FPP.fresh seq (option_map CB.cv o).
Proof.
  intros [->|[r [-> H]]]; [left; reflexivity|].
  right. exists (CB.cv r). split; [reflexivity | exact H].
Qed.

(* the frames of a fast-packet message are at most 8 bytes long (the same fact is EncEndToEndProofs.segment_frames) *)
Lemma seg_loop_le8 : forall cnt fc off seq p,
  Forall (fun fr => (length fr <= 8)%nat) (FP.seg_loop cnt fc off seq p).
Proof.
  induction cnt as [|c IH]; intros fc off seq p; cbn [FP.seg_loop]; constructor; [|apply IH].
  unfold FP.slice. rewrite app_length.
  pose proof (firstn_le_length (Z.to_nat (Z.min (off + (if fc =? 0 then 6 else 7)) (zlen p) - off))
                               (skipn (Z.to_nat off) p)) as F.
  destruct (fc =? 0); cbn [length]; lia.
Qed.
Lemma segment_le8 seq p : Forall (fun fr => (length fr <= 8)%nat) (FP.segment seq p).
Proof. apply seg_loop_le8. Qed.

(* the frames `fs` are reassembled to the payload `p` by the C03 reassembler (FastPacket.run) from every record state that
   is fresh for the counter `seq`: silence until the last frame, then ONE call of the decode function, on exactly p; the
   record is deleted when that call returns.  C03 (FastPacketProofs.inverse_run): `segment seq p` is such a frame list. *)
Definition reassembles (seq : Z) (fs : list (list Z)) (p : list Z) : Prop :=
  forall dok st, FPP.fresh seq st ->
    exists st', FP.run dok st fs = (st', repeat FP.Nothing (length fs - 1) ++ [FP.call dok p]) /\
                (dok p = true -> st' = None).

Lemma segment_reassembles seq p : 0 <= seq < 8 -> zlen p <= 223 -> reassembles seq (FP.segment seq p) p.
Proof.
  intros Hs Hl dok st Fr. destruct (FPP.inverse_run dok seq p st Hs Hl Fr) as [st' [E [_ D]]].
  exists st'. split; [exact E | exact D].
Qed.

(* ====================================================================== *)
(* Part 1 — the control layer on one fast-packet key, unfiltered decoder    *)
(* ====================================================================== *)
Section FastGeneric.
  Variable decode : Z -> Z -> result (option dmsg).
  Variable fast : Z -> result (option bool).

  (* the decode function does not answer an address claim for this payload integer *)
  Definition noclaim (pgn q : Z) : Prop := forall dm, decode pgn q = Ok (Some dm) -> d_pgn dm <> CLAIM.

  Lemma prefilter_cfg0 st cl :
    c_pgn cl <> CLAIM ->
    (forall i, zlookup (c_src cl) (srcmap st) = Some i -> mfr_modelled i = true) ->
    prefilter cfg0 st cl = PreGo (zlookup (c_src cl) (srcmap st)).
  Proof.
    intros Hp Hi. unfold prefilter.
    replace (c_pgn cl =? CLAIM) with false by (symmetry; apply Z.eqb_neq; exact Hp).
    cbn [ex_nums inc_nums inc_ids cfg0 mem_z existsb is_nil negb andb netmap].
    destruct (zlookup (c_src cl) (srcmap st)) as [i|] eqn:E; [|reflexivity].
    rewrite (Hi i eq_refl). cbn [negb]. unfold mfr_blocked.
    destruct (i_mfr i); cbn [ex_mfr inc_mfr cfg0 mem_s existsb is_nil negb andb orb]; reflexivity.
  Qed.

  (* `_call_decode_function` + the id filter for an unfiltered decoder, not an address claim *)
  Lemma call_decode_cfg0 sm pgn src dst q i :
    noclaim pgn q ->
    call_decode decode cfg0 sm pgn src dst q i = (sm, lift src dst i (decode pgn q)).
  Proof.
    intros Hd. unfold call_decode, decode_and_claim.
    destruct (decode pgn q) as [[dm|]|e|] eqn:D; cbn [lift]; try reflexivity.
    specialize (Hd dm D).
    replace (d_pgn dm =? CLAIM) with false by (symmetry; apply Z.eqb_neq; exact Hd).
    destruct (ascii (d_id dm)); cbn [negb]; [|reflexivity].
    unfold id_filter. cbn [DecoderCtl.m_pgn DecoderCtl.m_id claim_filter cfg0].
    rewrite andb_false_r. unfold id_dropped, has_inc.
    cbn [ex_ids inc_nums inc_ids cfg0 mem_s existsb is_nil negb orb andb]. reflexivity.
  Qed.

  (* what `_decode` does with one frame of a fast-packet PGN *)
  Definition fast_next (st : state) (cl : call) : state * result (option DecoderCtl.msg) :=
    let k := key_of cl in
    match fp_step (klookup k (reasm st)) (c_data cl) with
    | FpNothing r => ({| reasm := kset k r (reasm st); srcmap := srcmap st |}, Ok None)
    | FpRaise r => ({| reasm := kset k r (reasm st); srcmap := srcmap st |}, Err EIndex)
    | FpDeliver r p =>
        let res := lift (c_src cl) (c_dst cl) (zlookup (c_src cl) (srcmap st)) (decode (c_pgn cl) (le_int p)) in
        ({| reasm := if is_ok res then kremove k (reasm st) else kset k r (reasm st); srcmap := srcmap st |}, res)
    end.

  Lemma ctl_fast_step st cl :
    c_pgn cl <> CLAIM ->
    (forall i, zlookup (c_src cl) (srcmap st) = Some i -> mfr_modelled i = true) ->
    fast (c_pgn cl) = Ok (Some true) ->
    (forall r p, fp_step (klookup (key_of cl) (reasm st)) (c_data cl) = FpDeliver r p -> noclaim (c_pgn cl) (le_int p)) ->
    ctl_step decode fast cfg0 st cl = fast_next st cl.
  Proof.
    intros Hp Hi Hf Hd. unfold ctl_step, fast_next, key_of in *.
    rewrite (prefilter_cfg0 st cl Hp Hi), Hf.
    destruct (fp_step (klookup (c_pgn cl, c_src cl, c_dst cl) (reasm st)) (c_data cl)) as [r|r|r p]; try reflexivity.
    rewrite (call_decode_cfg0 (srcmap st) (c_pgn cl) (c_src cl) (c_dst cl) (le_int p) _ (Hd r p eq_refl)).
    reflexivity.
  Qed.

  (* ---- a run of calls on ONE key = CtlFastBridge.c_run on the key's record ---- *)
  Definition dok_of (pgn src dst : Z) (i : option iso) (q : list Z) : bool :=
    is_ok (lift src dst i (decode pgn (le_int q))).
  Definition res_of (pgn src dst : Z) (i : option iso) (o : FP.out) : result (option DecoderCtl.msg) :=
    match o with
    | FP.Nothing => Ok None
    | FP.Raise => Err EIndex
    | FP.Deliver q | FP.DecRaise q => lift src dst i (decode pgn (le_int q))
    end.
  Definition out_noclaim (pgn : Z) (o : FP.out) : Prop :=
    match o with FP.Deliver q | FP.DecRaise q => noclaim pgn (le_int q) | _ => True end.

  Lemma c_run_cons dok o f t :
    CB.c_run dok o (f :: t)
    = (fst (CB.c_run dok (CB.c_next dok (fp_step o f)) t),
       snd (CB.as_F dok (fp_step o f)) :: snd (CB.c_run dok (CB.c_next dok (fp_step o f)) t)).
  Proof. cbn [CB.c_run]. destruct (CB.c_run dok (CB.c_next dok (fp_step o f)) t). reflexivity. Qed.

  Lemma key_of_inv cl pgn src dst : key_of cl = (pgn, src, dst) -> c_pgn cl = pgn /\ c_src cl = src /\ c_dst cl = dst.
  Proof. unfold key_of. intros E. inversion E. auto. Qed.

  (* GENERAL SIMULATION: any sequence of frames on one fast-packet key (not the claim), provided no delivered payload
     decodes to an address claim: outputs, source map, the key's record and every other key's record *)
  Lemma ctl_run_sim pgn src dst :
    pgn <> CLAIM -> fast pgn = Ok (Some true) ->
    forall cls st o i,
    Forall (fun cl => key_of cl = (pgn, src, dst)) cls ->
    klookup (pgn, src, dst) (reasm st) = o -> zlookup src (srcmap st) = i ->
    (forall n, i = Some n -> mfr_modelled n = true) ->
    Forall (out_noclaim pgn) (snd (CB.c_run (dok_of pgn src dst i) o (map c_data cls))) ->
    map snd (run decode fast cfg0 st cls) = map (res_of pgn src dst i) (snd (CB.c_run (dok_of pgn src dst i) o (map c_data cls))) /\
    srcmap (final decode fast cfg0 st cls) = srcmap st /\
    klookup (pgn, src, dst) (reasm (final decode fast cfg0 st cls)) = fst (CB.c_run (dok_of pgn src dst i) o (map c_data cls)) /\
    (forall k', k' <> (pgn, src, dst) ->
       klookup k' (reasm (final decode fast cfg0 st cls)) = klookup k' (reasm st)).
  Proof.
    intros Hp Hf. induction cls as [|cl t IH]; intros st o i Hk Ho Hi Hm HF.
    - cbn. repeat split; try reflexivity. exact Ho.
    - apply Forall_cons_iff in Hk. destruct Hk as [Hk1 Hk2]. subst o i.
      destruct (key_of_inv _ _ _ _ Hk1) as (Ep & Es & Ed).
      cbn [map] in HF |- *. rewrite c_run_cons in HF |- *. cbn [fst snd] in HF |- *.
      apply Forall_cons_iff in HF. destruct HF as [HF1 HF2].
      cbn [run final fold_left map].
      change (fold_left (fun s c => fst (ctl_step decode fast cfg0 s c)) t (fst (ctl_step decode fast cfg0 st cl)))
        with (final decode fast cfg0 (fst (ctl_step decode fast cfg0 st cl)) t).
      assert (Step : ctl_step decode fast cfg0 st cl = fast_next st cl).
      { apply ctl_fast_step.
        - rewrite Ep. exact Hp.
        - rewrite Es. exact Hm.
        - rewrite Ep. exact Hf.
        - rewrite Hk1. intros r p Fp. rewrite Fp in HF1. cbn [CB.as_F] in HF1.
          rewrite Ep. revert HF1. destruct (dok_of pgn src dst (zlookup src (srcmap st)) p); intros HF1; exact HF1. }
      rewrite Step. unfold fast_next. rewrite Hk1, Ep, Es, Ed.
      set (k := (pgn, src, dst)) in *. set (i := zlookup src (srcmap st)) in *.
      set (o := klookup k (reasm st)) in *.
      destruct (fp_step o (c_data cl)) as [r|r|r p] eqn:Fp; cbn [fst snd CB.as_F CB.c_next res_of] in *.
      + specialize (IH {| reasm := kset k r (reasm st); srcmap := srcmap st |} (Some r) i Hk2).
        cbn [reasm srcmap] in IH.
        specialize (IH ltac:(rewrite klookup_kset, key_eqb_refl; reflexivity) eq_refl Hm HF2).
        destruct IH as (I1 & I2 & I3 & I4).
        split; [rewrite I1; reflexivity|]. split; [exact I2|]. split; [exact I3|].
        intros k' Hk'. rewrite (I4 k' Hk'). rewrite klookup_kset.
        apply key_eqb_neq in Hk'. rewrite Hk'. reflexivity.
      + specialize (IH {| reasm := kset k r (reasm st); srcmap := srcmap st |} (Some r) i Hk2).
        cbn [reasm srcmap] in IH.
        specialize (IH ltac:(rewrite klookup_kset, key_eqb_refl; reflexivity) eq_refl Hm HF2).
        destruct IH as (I1 & I2 & I3 & I4).
        split; [rewrite I1; reflexivity|]. split; [exact I2|]. split; [exact I3|].
        intros k' Hk'. rewrite (I4 k' Hk'). rewrite klookup_kset.
        apply key_eqb_neq in Hk'. rewrite Hk'. reflexivity.
      + fold (dok_of pgn src dst i p).
        destruct (dok_of pgn src dst i p) eqn:Dk; cbn [fst snd res_of] in *.
        * specialize (IH {| reasm := kremove k (reasm st); srcmap := srcmap st |} None i Hk2).
          cbn [reasm srcmap] in IH.
          specialize (IH ltac:(rewrite klookup_kremove, key_eqb_refl; reflexivity) eq_refl Hm HF2).
          destruct IH as (I1 & I2 & I3 & I4).
          split; [rewrite I1; reflexivity|]. split; [exact I2|]. split; [exact I3|].
          intros k' Hk'. rewrite (I4 k' Hk'). rewrite klookup_kremove.
          apply key_eqb_neq in Hk'. rewrite Hk'. reflexivity.
        * specialize (IH {| reasm := kset k r (reasm st); srcmap := srcmap st |} (Some r) i Hk2).
          cbn [reasm srcmap] in IH.
          specialize (IH ltac:(rewrite klookup_kset, key_eqb_refl; reflexivity) eq_refl Hm HF2).
          destruct IH as (I1 & I2 & I3 & I4).
          split; [rewrite I1; reflexivity|]. split; [exact I2|]. split; [exact I3|].
          intros k' Hk'. rewrite (I4 k' Hk'). rewrite klookup_kset.
          apply key_eqb_neq in Hk'. rewrite Hk'. reflexivity.
  Qed.

  (* C03 INSIDE `_decode`: the frames of one fast-packet message on a key that is fresh for the counter *)
  Theorem ctl_fast_frames pgn src dst st cls seq fs p :
    Forall (fun cl => key_of cl = (pgn, src, dst)) cls ->
    map c_data cls = fs -> reassembles seq fs p ->
    pgn <> CLAIM -> fast pgn = Ok (Some true) ->
    (forall n, zlookup src (srcmap st) = Some n -> mfr_modelled n = true) ->
    fresh_key seq (klookup (pgn, src, dst) (reasm st)) ->
    noclaim pgn (le_int p) ->
    let res := lift src dst (zlookup src (srcmap st)) (decode pgn (le_int p)) in
    let st' := final decode fast cfg0 st cls in
    map snd (run decode fast cfg0 st cls) = repeat (Ok None) (length fs - 1) ++ [res] /\
    srcmap st' = srcmap st /\
    (is_ok res = true -> klookup (pgn, src, dst) (reasm st') = None) /\
    (forall k', k' <> (pgn, src, dst) -> klookup k' (reasm st') = klookup k' (reasm st)).
  Proof.
    intros Hk Hd Re Hp Hf Hm Fr Nc. cbv zeta.
    set (i := zlookup src (srcmap st)). set (o := klookup (pgn, src, dst) (reasm st)) in *.
    set (dok := dok_of pgn src dst i).
    pose proof (fresh_key_cv seq o Fr) as Fr'.
    pose proof (CB.run_same dok fs o) as Same.
    destruct (Re dok (option_map CB.cv o) Fr') as [s' [E Del]].
    change CB.F.run with FP.run in Same. rewrite E in Same. inversion Same as [[S1 Out]]. clear Same.
    assert (HF : Forall (out_noclaim pgn) (snd (CB.c_run dok o (map c_data cls)))).
    { rewrite Hd, Out. apply Forall_app. split.
      - apply Forall_repeat. exact I.
      - constructor; [|constructor]. unfold FP.call. destruct (dok p); exact Nc. }
    destruct (ctl_run_sim pgn src dst Hp Hf cls st o i Hk eq_refl eq_refl Hm HF) as (R1 & R2 & R3 & R4).
    fold dok in R1, R3.
    split; [|split; [exact R2 | split; [|exact R4]]].
    - rewrite R1, Hd, Out.
      rewrite map_app, map_repeat'. cbn [map res_of]. f_equal. f_equal.
      unfold FP.call. destruct (dok p); reflexivity.
    - intros Ok'. rewrite R3, Hd.
      assert (Dp : dok p = true) by exact Ok'.
      specialize (Del Dp). rewrite Del in S1.
      destruct (fst (CB.c_run dok o fs)); [discriminate | reflexivity].
  Qed.
  Corollary ctl_fast_segment pgn src dst st cls seq p :
    Forall (fun cl => key_of cl = (pgn, src, dst)) cls ->
    map c_data cls = FP.segment seq p ->
    pgn <> CLAIM -> fast pgn = Ok (Some true) ->
    (forall n, zlookup src (srcmap st) = Some n -> mfr_modelled n = true) ->
    0 <= seq < 8 -> zlen p <= 223 ->
    fresh_key seq (klookup (pgn, src, dst) (reasm st)) ->
    noclaim pgn (le_int p) ->
    let res := lift src dst (zlookup src (srcmap st)) (decode pgn (le_int p)) in
    let st' := final decode fast cfg0 st cls in
    map snd (run decode fast cfg0 st cls) = repeat (Ok None) (length (FP.segment seq p) - 1) ++ [res] /\
    srcmap st' = srcmap st /\
    (is_ok res = true -> klookup (pgn, src, dst) (reasm st') = None) /\
    (forall k', k' <> (pgn, src, dst) -> klookup k' (reasm st') = klookup k' (reasm st)).
  Proof.
    intros Hk Hd Hp Hf Hm Hs Hl Fr Nc.
    exact (ctl_fast_frames pgn src dst st cls seq (FP.segment seq p) p Hk Hd (segment_reassembles seq p Hs Hl) Hp Hf Hm Fr Nc).
  Qed.
End FastGeneric.

(* ====================================================================== *)
(* Part 2 — front-end + control layer                                       *)
(* ====================================================================== *)
Section FastE2E.
  Variable decode : Z -> Z -> result (option dmsg).
  Variable is_fast : Z -> result (option bool).
  Variable ts_ok : Z -> list Z -> bool.

  (* the decoder state after a history of entry-point calls *)
  Definition e2e_final_gen (c : cfg) (st : state) (h : list einput) : state :=
    fold_left (fun s i => fst (e2e_step_gen decode is_fast ts_ok c s i)) h st.

  Lemma e2e_final_last c : forall h st,
    e2e_final_gen c st h = last (map fst (e2e_run_gen decode is_fast ts_ok c st h)) st.
  Proof.
    induction h as [|i t IH]; intros st; [reflexivity|].
    cbn [e2e_final_gen fold_left e2e_run_gen map]. fold (e2e_final_gen c (fst (e2e_step_gen decode is_fast ts_ok c st i)) t).
    rewrite IH. destruct t as [|j t']; [reflexivity|]. cbn [e2e_run_gen map]. symmetry.
    rewrite last_cons_cons. apply last_cons_default.
  Qed.

  (* the front-end of the entry point accepted the input and handed `_decode` this frame, NOT marked as combined *)
  Definition parses_to (pgn prio src dst : Z) (i : einput) (f : list Z) : Prop :=
    parse_with ts_ok (e_fmt i) (e_data i) = Ok (Some (pgn, prio, src, dst, rev f, false)).

  Fixpoint calls_of (pgn src dst : Z) (ins : list einput) (fs : list (list Z)) : list call :=
    match ins, fs with
    | i :: ti, f :: tf =>
        {| c_pgn := pgn; c_src := src; c_dst := dst; c_data := f; c_win := e_win i |} :: calls_of pgn src dst ti tf
    | _, _ => []
    end.

  Lemma calls_of_key pgn src dst : forall ins fs, Forall (fun cl => key_of cl = (pgn, src, dst)) (calls_of pgn src dst ins fs).
  Proof. induction ins as [|i ti IH]; intros [|f tf]; cbn [calls_of]; constructor; [reflexivity | apply IH]. Qed.
  Lemma calls_of_data pgn src dst : forall ins fs, length ins = length fs -> map c_data (calls_of pgn src dst ins fs) = fs.
  Proof.
    induction ins as [|i ti IH]; intros [|f tf] H; try discriminate; [reflexivity|].
    cbn [calls_of map c_data]. rewrite IH by (cbn in H; lia). reflexivity.
  Qed.

  Lemma e2e_run_ctl c pgn prio src dst : forall ins fs st,
    Forall2 (parses_to pgn prio src dst) ins fs ->
    map snd (e2e_run_gen decode is_fast ts_ok c st ins)
    = map (with_prio prio) (map snd (run decode is_fast c st (calls_of pgn src dst ins fs))) /\
    e2e_final_gen c st ins = final decode is_fast c st (calls_of pgn src dst ins fs).
  Proof.
    intros ins fs st H. revert st. induction H as [|i f ti tf P _ IH]; intros st; [split; reflexivity|].
    cbn [e2e_run_gen map calls_of run e2e_final_gen final fold_left].
    rewrite (e2e_of_parse decode is_fast ts_ok c st i pgn prio src dst f false P). cbv zeta.
    change (fast_of is_fast false) with is_fast. cbn [fst snd].
    destruct (IH (fst (ctl_step decode is_fast c st
                {| c_pgn := pgn; c_src := src; c_dst := dst; c_data := f; c_win := e_win i |}))) as [I1 I2].
    split; [rewrite I1; reflexivity | exact I2].
  Qed.

  (* GENERIC COMPOSITION for a fast-packet PGN: whatever frame-level entry points accepted the inputs and handed
     `_decode` the frames `fs` of one fast-packet message (payload p, counter seq), one per call *)
  Theorem e2e_fast_of_parse st ins pgn prio src dst seq fs p :
    Forall2 (parses_to pgn prio src dst) ins fs -> reassembles seq fs p ->
    pgn <> CLAIM -> is_fast pgn = Ok (Some true) ->
    (forall n, zlookup src (srcmap st) = Some n -> mfr_modelled n = true) ->
    fresh_key seq (klookup (pgn, src, dst) (reasm st)) ->
    (forall dm, decode pgn (le_int p) = Ok (Some dm) -> d_pgn dm <> CLAIM) ->
    let res := with_prio prio (lift src dst (zlookup src (srcmap st)) (decode pgn (le_int p))) in
    let st' := e2e_final_gen cfg0 st ins in
    map snd (e2e_run_gen decode is_fast ts_ok cfg0 st ins) = repeat (Ok None) (length fs - 1) ++ [res] /\
    srcmap st' = srcmap st /\
    (is_ok res = true -> klookup (pgn, src, dst) (reasm st') = None) /\
    (forall k', k' <> (pgn, src, dst) -> klookup k' (reasm st') = klookup k' (reasm st)).
  Proof.
    intros P Re Hp Hf Hm Fr Nc. cbv zeta.
    destruct (e2e_run_ctl cfg0 pgn prio src dst ins fs st P) as [R F].
    pose proof (Forall2_len _ _ _ P) as Len.
    destruct (ctl_fast_frames decode is_fast pgn src dst st (calls_of pgn src dst ins fs) seq fs p
                (calls_of_key pgn src dst _ _) (calls_of_data pgn src dst _ _ Len) Re Hp Hf Hm Fr Nc)
      as (C1 & C2 & C3 & C4).
    rewrite R, F, C1. split; [|split; [exact C2 | split; [|exact C4]]].
    - rewrite map_app, map_repeat'. reflexivity.
    - rewrite is_ok_with_prio. exact C3.
  Qed.

  (* ---- EByte (decode_tcp): every rendering  t :: identifier (4 bytes, big endian) ++ frame ++ pad  whose type byte
          carries the frame's length in its low nibble ---- *)
  Definition ebyte_of (id : Z) (i : einput) (f : list Z) : Prop :=
    exists t pad, e_fmt i = WTcp /\ e_data i = t :: be4 id ++ f ++ pad /\ Z.land t 15 = zlen f.

  Lemma ebyte_parses id ins fs pgn src dst prio :
    0 <= id < 4294967296 -> extract_header id = (pgn, src, dst, prio) ->
    Forall2 (ebyte_of id) ins fs -> Forall2 (parses_to pgn prio src dst) ins fs.
  Proof.
    intros Hid Hh H. induction H as [|i f ti tf (t & pad & Ef & Ed & Ht) _ IH]; constructor; [|exact IH].
    unfold parses_to. rewrite Ef, Ed. cbn [parse_with].
    rewrite (parse_tcp_render t id f pad Hid Ht). unfold target. rewrite Hh. reflexivity.
  Qed.

End FastE2E.

(* the encoder's own rendering of a frame (Wire.enc_ebyte1: type byte 0x80 | length, zero padding to 8 bytes) *)
Lemma ebyte_canonical id win fs :
  Forall (fun fr => (length fr <= 8)%nat) fs ->
  Forall2 (ebyte_of id) (map (fun f => {| e_fmt := WTcp; e_data := enc_ebyte1 (be4 id) f; e_win := win |}) fs) fs.
Proof.
  induction 1 as [|f tf Hf _ IH]; cbn [map]; constructor; [|exact IH].
  exists (Z.lor (Z.land (zlen f) 15) 128), (zeros (8 - zlen f)). cbn [e_fmt e_data].
  split; [reflexivity|]. split; [reflexivity|]. apply type_byte_len. unfold zlen. lia.
Qed.

(* packets whose parses are given as one list equation (the form WireProofs.roundtrip_ebyte / roundtrip_usb and
   OblEncE2E.ENC_E2E_fast_frames deliver) *)
Definition pkt_inputs (fmt : wfmt) (win : bool) (pkts : list (list Z)) : list einput :=
  map (fun pk => {| e_fmt := fmt; e_data := pk; e_win := win |}) pkts.

Lemma parses_of_map ts_ok fmt (parse : list Z -> result (option dec_args)) pgn prio src dst win :
  (forall inp, parse_with ts_ok fmt inp = parse inp) ->
  forall pkts fs,
  map parse pkts = map (fun fr => Ok (Some (pgn, prio, src, dst, rev fr, false))) fs ->
  Forall2 (parses_to ts_ok pgn prio src dst) (pkt_inputs fmt win pkts) fs.
Proof.
  intros Hp. induction pkts as [|pk t IH]; intros [|f tf] E; cbn [map pkt_inputs] in *; try discriminate; [constructor|].
  inversion E as [[E1 E2]]. constructor; [|apply IH; exact E2].
  unfold parses_to. cbn [e_fmt e_data]. rewrite Hp. exact E1.
Qed.

(* ====================================================================== *)
(* Part 3 — composition with the tables                                     *)
(* ====================================================================== *)
Section FastComposition.
  Variable code_dec : list (fname * ddef).
  Variable code_disp : list disp.
  Variable code_ids : list (fname * (Z * Defn.str)).
  Variable code_fast : list (Z * fastkind).
  Variable L LB : lookups.
  Variable LI : ilookups.
  Variable ts_ok : Z -> list Z -> bool.

  (* the decoder state after a history, for the composed decoder on given tables *)
  Definition e2e_final : cfg -> state -> list einput -> state :=
    e2e_final_gen (tbl_decode code_dec code_disp L LB LI) (tbl_is_fast code_fast) ts_ok.

  (* core: the decode function found for the PGN is the specification of definition d on the reassembled payload
     (`*_of`: for an arbitrary per-definition specification sp, EndToEndProofs.spec_fn) *)
  Lemma e2e_fast_core_of (sp : spec_fn) d st ins pgn prio src dst seq fs p :
    spec_head sp ->
    tbl_decode code_dec code_disp L LB LI pgn (le_int p) = spec_dmsg_of sp (le_int p) d ->
    Defn.d_pgn d = pgn -> ascii (bytes_of_str (Defn.d_id d)) = true ->
    Forall2 (parses_to ts_ok pgn prio src dst) ins fs -> reassembles seq fs p ->
    pgn <> CLAIM -> tbl_is_fast code_fast pgn = Ok (Some true) ->
    (forall n, zlookup src (srcmap st) = Some n -> mfr_modelled n = true) ->
    fresh_key seq (klookup (pgn, src, dst) (reasm st)) ->
    let res := e2e_expected_of sp d (le_int p) src dst prio (zlookup src (srcmap st)) in
    let st' := e2e_final cfg0 st ins in
    map snd (e2e_run code_dec code_disp code_fast L LB LI ts_ok cfg0 st ins) = repeat (Ok None) (length fs - 1) ++ [res] /\
    srcmap st' = srcmap st /\
    (is_ok res = true -> klookup (pgn, src, dst) (reasm st') = None) /\
    (forall k', k' <> (pgn, src, dst) -> klookup k' (reasm st') = klookup k' (reasm st)).
  Proof.
    intros Hd T Pg A P Re Hp Hf Hm Fr. cbv zeta. unfold e2e_run, e2e_final.
    assert (Nc : forall dm, tbl_decode code_dec code_disp L LB LI pgn (le_int p) = Ok (Some dm) -> d_pgn dm <> CLAIM).
    { intros dm. rewrite T. unfold spec_dmsg_of.
      destruct (sp (le_int p) d) as [m| |] eqn:E; cbn [bind]; try discriminate.
      intros X. inversion X. cbn [to_dmsg d_pgn].
      destruct (Hd _ _ _ E) as [E1 _]. rewrite E1, Pg. exact Hp. }
    pose proof (e2e_fast_of_parse (tbl_decode code_dec code_disp L LB LI) (tbl_is_fast code_fast) ts_ok
                  st ins pgn prio src dst seq fs p P Re Hp Hf Hm Fr Nc) as R.
    cbv zeta in R. rewrite T in R. rewrite (lift_spec_of sp d (le_int p) src dst prio _ Hd A) in R. exact R.
  Qed.
  Lemma e2e_fast_core Ls LBs d st ins pgn prio src dst seq fs p :
    tbl_decode code_dec code_disp L LB LI pgn (le_int p) = spec_dmsg Ls LBs (le_int p) d ->
    Defn.d_pgn d = pgn -> ascii (bytes_of_str (Defn.d_id d)) = true ->
    Forall2 (parses_to ts_ok pgn prio src dst) ins fs -> reassembles seq fs p ->
    pgn <> CLAIM -> tbl_is_fast code_fast pgn = Ok (Some true) ->
    (forall n, zlookup src (srcmap st) = Some n -> mfr_modelled n = true) ->
    fresh_key seq (klookup (pgn, src, dst) (reasm st)) ->
    let res := e2e_expected Ls LBs d (le_int p) src dst prio (zlookup src (srcmap st)) in
    let st' := e2e_final cfg0 st ins in
    map snd (e2e_run code_dec code_disp code_fast L LB LI ts_ok cfg0 st ins) = repeat (Ok None) (length fs - 1) ++ [res] /\
    srcmap st' = srcmap st /\
    (is_ok res = true -> klookup (pgn, src, dst) (reasm st') = None) /\
    (forall k', k' <> (pgn, src, dst) -> klookup k' (reasm st') = klookup k' (reasm st)).
  Proof. exact (e2e_fast_core_of (spec_decode Ls LBs) d st ins pgn prio src dst seq fs p (spec_head_fixed Ls LBs)). Qed.

  (* END TO END on given tables: hypotheses are the two table obligations for the group of the PGN *)
  Theorem e2e_fast_tables_of (sp : spec_fn) g d st ins pgn prio src dst seq fs p :
    spec_head sp ->
    group_ok code_disp code_ids g = true -> in_scope g = true ->
    In d (bound_defs g) -> Defn.d_pgn d = group_pgn g -> ascii (bytes_of_str (Defn.d_id d)) = true ->
    (exists cd, find_fname (fname_of g d) code_dec = Some cd /\
                forall q, run_ddef L LB LI q cd = sp q d) ->
    Forall2 (parses_to ts_ok pgn prio src dst) ins fs -> reassembles seq fs p ->
    pgn = group_pgn g -> pgn <> CLAIM -> tbl_is_fast code_fast pgn = Ok (Some true) ->
    (forall n, zlookup src (srcmap st) = Some n -> mfr_modelled n = true) ->
    fresh_key seq (klookup (pgn, src, dst) (reasm st)) ->
    spec_select g (le_int p) = Some d ->
    let res := e2e_expected_of sp d (le_int p) src dst prio (zlookup src (srcmap st)) in
    let st' := e2e_final cfg0 st ins in
    map snd (e2e_run code_dec code_disp code_fast L LB LI ts_ok cfg0 st ins) = repeat (Ok None) (length fs - 1) ++ [res] /\
    srcmap st' = srcmap st /\
    (is_ok res = true -> klookup (pgn, src, dst) (reasm st') = None) /\
    (forall k', k' <> (pgn, src, dst) -> klookup k' (reasm st') = klookup k' (reasm st)).
  Proof.
    intros Hd G Sc B Pg A C P Re Ep Hp Hf Hm Fr S.
    apply (e2e_fast_core_of sp d st ins pgn prio src dst seq fs p); try assumption; [|congruence].
    rewrite Ep. apply (tbl_decode_is_spec_of code_dec code_disp code_ids L LB LI sp g d); assumption.
  Qed.
  Theorem e2e_fast_tables Ls LBs g d st ins pgn prio src dst seq fs p :
    group_ok code_disp code_ids g = true -> in_scope g = true ->
    In d (bound_defs g) -> Defn.d_pgn d = group_pgn g -> ascii (bytes_of_str (Defn.d_id d)) = true ->
    (exists cd, find_fname (fname_of g d) code_dec = Some cd /\
                forall q, run_ddef L LB LI q cd = spec_decode Ls LBs q d) ->
    Forall2 (parses_to ts_ok pgn prio src dst) ins fs -> reassembles seq fs p ->
    pgn = group_pgn g -> pgn <> CLAIM -> tbl_is_fast code_fast pgn = Ok (Some true) ->
    (forall n, zlookup src (srcmap st) = Some n -> mfr_modelled n = true) ->
    fresh_key seq (klookup (pgn, src, dst) (reasm st)) ->
    spec_select g (le_int p) = Some d ->
    let res := e2e_expected Ls LBs d (le_int p) src dst prio (zlookup src (srcmap st)) in
    let st' := e2e_final cfg0 st ins in
    map snd (e2e_run code_dec code_disp code_fast L LB LI ts_ok cfg0 st ins) = repeat (Ok None) (length fs - 1) ++ [res] /\
    srcmap st' = srcmap st /\
    (is_ok res = true -> klookup (pgn, src, dst) (reasm st') = None) /\
    (forall k', k' <> (pgn, src, dst) -> klookup k' (reasm st') = klookup k' (reasm st)).
  Proof. exact (e2e_fast_tables_of (spec_decode Ls LBs) g d st ins pgn prio src dst seq fs p (spec_head_fixed Ls LBs)). Qed.

  (* the same for a PGN without dispatcher: the bound definition, for every payload *)
  Theorem e2e_fast_tables_undispatched_of (sp : spec_fn) g d st ins pgn prio src dst seq fs p :
    spec_head sp ->
    group_ok code_disp code_ids g = true -> is_dispatched g = false ->
    In d (bound_defs g) -> Defn.d_pgn d = group_pgn g -> ascii (bytes_of_str (Defn.d_id d)) = true ->
    (exists cd, find_fname (fname_of g d) code_dec = Some cd /\
                forall q, run_ddef L LB LI q cd = sp q d) ->
    Forall2 (parses_to ts_ok pgn prio src dst) ins fs -> reassembles seq fs p ->
    pgn = group_pgn g -> pgn <> CLAIM -> tbl_is_fast code_fast pgn = Ok (Some true) ->
    (forall n, zlookup src (srcmap st) = Some n -> mfr_modelled n = true) ->
    fresh_key seq (klookup (pgn, src, dst) (reasm st)) ->
    let res := e2e_expected_of sp d (le_int p) src dst prio (zlookup src (srcmap st)) in
    let st' := e2e_final cfg0 st ins in
    map snd (e2e_run code_dec code_disp code_fast L LB LI ts_ok cfg0 st ins) = repeat (Ok None) (length fs - 1) ++ [res] /\
    srcmap st' = srcmap st /\
    (is_ok res = true -> klookup (pgn, src, dst) (reasm st') = None) /\
    (forall k', k' <> (pgn, src, dst) -> klookup k' (reasm st') = klookup k' (reasm st)).
  Proof.
    intros Hd G D B Pg A C P Re Ep Hp Hf Hm Fr.
    apply (e2e_fast_core_of sp d st ins pgn prio src dst seq fs p); try assumption; [|congruence].
    rewrite Ep. apply (tbl_decode_undispatched_of code_dec code_disp code_ids L LB LI sp g d); assumption.
  Qed.
  Theorem e2e_fast_tables_undispatched Ls LBs g d st ins pgn prio src dst seq fs p :
    group_ok code_disp code_ids g = true -> is_dispatched g = false ->
    In d (bound_defs g) -> Defn.d_pgn d = group_pgn g -> ascii (bytes_of_str (Defn.d_id d)) = true ->
    (exists cd, find_fname (fname_of g d) code_dec = Some cd /\
                forall q, run_ddef L LB LI q cd = spec_decode Ls LBs q d) ->
    Forall2 (parses_to ts_ok pgn prio src dst) ins fs -> reassembles seq fs p ->
    pgn = group_pgn g -> pgn <> CLAIM -> tbl_is_fast code_fast pgn = Ok (Some true) ->
    (forall n, zlookup src (srcmap st) = Some n -> mfr_modelled n = true) ->
    fresh_key seq (klookup (pgn, src, dst) (reasm st)) ->
    let res := e2e_expected Ls LBs d (le_int p) src dst prio (zlookup src (srcmap st)) in
    let st' := e2e_final cfg0 st ins in
    map snd (e2e_run code_dec code_disp code_fast L LB LI ts_ok cfg0 st ins) = repeat (Ok None) (length fs - 1) ++ [res] /\
    srcmap st' = srcmap st /\
    (is_ok res = true -> klookup (pgn, src, dst) (reasm st') = None) /\
    (forall k', k' <> (pgn, src, dst) -> klookup k' (reasm st') = klookup k' (reasm st)).
  Proof.
    exact (e2e_fast_tables_undispatched_of (spec_decode Ls LBs) g d st ins pgn prio src dst seq fs p (spec_head_fixed Ls LBs)).
  Qed.
End FastComposition.
