(* CorrDispatch.v — checker for the C08 correspondence cases (tools/props/c08.py):
   the real decode_pgn_<PGN> dispatchers versus run_disp on the translated table. *)
From NV Require Import Base Defn Dispatch.

(* (pgn, payload, name of the decode function actually reached, if any) *)
Definition chk_disp (tbl : list disp) (c : Z * Z * option fname) : bool :=
  let '(pgn, p, obs) := c in
  match find_disp tbl pgn with
  | Some d => option_eqb fname_eqb (run_disp (dp_arms d) (dp_fallback d) p) obs
  | None => option_eqb fname_eqb (Some (pgn, None)) obs
  end.
(* (function, (PGN, id) named by the message it returns) *)
Definition chk_ids (tbl : list (fname * (Z * str))) (c : fname * (Z * str)) : bool :=
  match find_fname (fst c) tbl with
  | Some (p, i) => (p =? fst (snd c)) && (i =? snd (snd c))
  | None => false
  end.
