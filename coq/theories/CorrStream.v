(* CorrStream.v — checkers used by the C12 / C19 correspondence cases (tools/props/c12.py, c19.py).
   The real client's event log is turned into labels; the deterministic step functions of
   Stream.v / SendModel.v act as acceptors; the final observations are compared. *)
From NV Require Import Base Stream SendModel.

Definition lz_eqb := list_eqb Z.eqb.
Definition llz_eqb := list_eqb lz_eqb.

(* ------------------------------------------------------------------ (a) StreamReader op sequences *)
Definition robs_eqb (a b : robs) : bool :=
  match a, b with
  | ObOk, ObOk | ObAssert, ObAssert | ObWait, ObWait | ObLimit, ObLimit => true
  | ObData x, ObData y | ObIncomplete x, ObIncomplete y => lz_eqb x y
  | _, _ => false
  end.

(* each op with what the real reader did: (observation, buffer content afterwards) *)
Fixpoint chk_ops (r : reader) (l : list (rop * (robs * list Z))) : bool :=
  match l with
  | [] => true
  | (o, (ob, b)) :: t =>
      let '(ob', r') := apply_op r o in
      robs_eqb ob ob' && lz_eqb (buf r') b && chk_ops r' t
  end.
(* (limit, ops) *)
Definition chk_reader (c : Z * list (rop * (robs * list Z))) : bool := chk_ops (new_reader (fst c)) (snd c).

(* ------------------------------------------------------------------ (b) receive sessions *)
(* decode := replay of the real decoder's outcomes, by call position; the argument must match too.
   outcome code: -1 = returned None, -2 = raised, n >= 0 = message number n *)
Definition tdecode (table : list (list Z * Z)) (d : nat) (p : list Z) : nat * dres Z :=
  match nth_error table d with
  | Some (p', o) =>
      if lz_eqb p p' then (S d, if o =? (-1) then DNone else if o =? (-2) then DRaise else DMsg o)
      else (S d, DMsg (-99))
  | None => (S d, DMsg (-98))
  end.

Definition kind_of (z : Z) : kind := if z =? 0 then KEbyte else KText.
Definition rxstat_code (s : rxstat) : Z :=
  match s with RxRun => 0 | RxBannerSleep => 1 | RxFault => 2 | RxUnmodelled => 3 end.

Fixpoint feeds (ls : list rxlabel) : list Z :=
  match ls with [] => [] | LFeed c :: t => c ++ feeds t | _ :: t => feeds t end.
Definition has_eof (ls : list rxlabel) : bool := existsb (fun l => match l with LEof => true | _ => false end) ls.

(* ((kind, limit), labels, table, (delivered, final status, bytes left in the reader, receive task blocked)) *)
Definition rx_case := ((Z * Z) * list rxlabel * list (list Z * Z) * (list Z * Z * Z * bool))%type.

Definition chk_rx (c : rx_case) : bool :=
  let '(kl, ls, table, obs) := c in
  let '(kz, limit) := kl in
  let '(deliv, status, nleft, blocked) := obs in
  let k := kind_of kz in
  let dec := tdecode table in
  match rx_run nat Z dec k (rx_init nat Z limit O) ls with
  | None => false
  | Some g =>
      llz_eqb (seen g) (map fst table) && (dst g =? length table)%nat &&
      lz_eqb (delivered g) deliv && (match q g with [] => true | _ => false end) &&
      (rxstat_code (rxs g) =? status) && (zlen (buf (rd g)) =? nleft) &&
      (if blocked then match rx_step nat Z dec k g with None => true | Some _ => false end else true) &&
      (* the theorem's conclusion on this instance, recomputed from the byte stream alone *)
      (if (status =? 0) && negb (has_eof ls) && stream_ok k limit (feeds ls)
       then lz_eqb deliv (snd (decode_all nat Z dec O (frame k (feeds ls)))) else true)
  end.

(* queue + consumer only (serial client: its framing is Serial.v's): events put m / callback start / end *)
Inductive qev := QPut (m : Z) | QStart (o : cbout) | QEnd (o : cbout).
Definition qg0 : rxg nat Z := rx_init nat Z 0 O.
Definition qput (g : rxg nat Z) (m : Z) : rxg nat Z :=
  {| rd := rd g; dst := dst g; rxs := rxs g; raw_seen := raw_seen g; seen := seen g; q := q g ++ [m];
     cons := cons g; delivered := delivered g; fed := fed g |}.
Fixpoint qrun (g : rxg nat Z) (l : list qev) : option (rxg nat Z) :=
  match l with
  | [] => Some g
  | QPut m :: t => qrun (qput g m) t
  | QStart o :: t => match rx_lstep nat Z (tdecode []) KEbyte g (LCbStart o) with Some g' => qrun g' t | None => None end
  | QEnd o :: t => match rx_lstep nat Z (tdecode []) KEbyte g (LCbEnd o) with Some g' => qrun g' t | None => None end
  end.
Fixpoint puts (l : list qev) : list Z := match l with [] => [] | QPut m :: t => m :: puts t | _ :: t => puts t end.
(* (events, delivered) *)
Definition chk_queue (c : list qev * list Z) : bool :=
  match qrun qg0 (fst c) with
  | None => false
  | Some g => lz_eqb (delivered g) (snd c) && lz_eqb (snd c) (puts (fst c)) &&
              match q g with [] => true | _ => false end
  end.

(* ------------------------------------------------------------------ (c) send sessions *)
Definition tencode (table : list enc_outcome) (e : unit) (m : nat) : unit * enc_outcome :=
  (e, nth m table EncOther).

Definition cst_code (s : cst) : Z := match s with Disc => 0 | Conn => 1 | Closed => 2 end.
Definition cst_of (z : Z) : cst := if z =? 0 then Disc else if z =? 1 then Conn else Closed.

(* the real trace shows no separate "lock acquired" event: a write by a sender that is still
   waiting for the lock implies the acquisition just before it *)
Definition obs_step (table : list enc_outcome) (x : g unit nat) (l : label) : option (g unit nat) :=
  match l with
  | LSend i (AWrite r cb) =>
      match nth_error (pcs x) i with
      | Some (SWaitLock _ _) =>
          match step unit nat (tencode table) true x (LSend i AAcquire) with
          | Some y => step unit nat (tencode table) true y l
          | None => None
          end
      | _ => step unit nat (tencode table) true x l
      end
  | _ => step unit nat (tencode table) true x l
  end.
Fixpoint obs_run (table : list enc_outcome) (x : g unit nat) (ls : list label) : option (g unit nat) * nat :=
  match ls with
  | [] => (Some x, O)
  | l :: t => match obs_step table x l with
              | Some y => let '(r, n) := obs_run table y t in (r, S n)
              | None => (None, O)
              end
  end.

(* zero-packet sends and sends still queued on the lock at the end do not occur in the sessions *)
Definition log_eqb (a b : list (nat * nat * pkt)) : bool :=
  list_eqb (fun x y => let '(i, w, p) := x in let '(i', w', p') := y in (i =? i')%nat && (w =? w')%nat && lz_eqb p p') a b.

(* ((initial state, writer present, status callback registered), table, labels,
    (log oldest first, final state, connect tasks spawned, status trace oldest first)) *)
Definition tx_case := ((Z * bool * bool) * list enc_outcome * list label *
                       (list (nat * nat * pkt) * Z * nat * list Z))%type.

Definition chk_tx (c : tx_case) : bool :=
  let '(ini, table, ls, obs) := c in
  let '(s0, w0, cb0) := ini in
  let '(olog, ost, opend, otrace) := obs in
  let x0 := init unit nat (cst_of s0) (if w0 then Some O else None) tt cb0 (seq 0 (length table)) in
  match fst (obs_run table x0 ls) with
  | None => false
  | Some y =>
      log_eqb (rev (log y)) olog && (cst_code (st y) =? ost) && (pend y =? opend)%nat &&
      lz_eqb (map cst_code (rev (trace y))) otrace &&
      (match lockh y with None => true | Some _ => false end)
  end.
