(* CorrClientLTS.v — checkers for the C13/C14 correspondence cases (tools/props/c13.py, c14.py). *)
From NV Require Import Base ClientLTS.

(* (client kind, labelled trace of one session of a real client on the virtual loop):
   accepted by the LTS of the REPAIRED code, every snapshot matching *)
Definition chk_trace (c : kind * list label) : bool := lts_accepts (fst c) false true true true true true (snd c).
(* the same for a client constructed with build_network_map=True whose class seeds the map: connect() creates seeding tasks *)
Definition chk_trace_seeding (c : kind * list label) : bool := lts_accepts (fst c) true true true true true true (snd c).
(* diagnostic: how many labels are accepted before the first rejection *)
Definition prefix_len (c : kind * list label) : nat := fst (accepted_prefix (fst c) false true true true true true init (snd c) 0).

(* corr_retry: (attempt number, 2 * wait_exponential(multiplier=0.5, max=10)(attempt)) *)
Definition chk_wait (c : Z * Z) : bool := wait2 (fst c) =? snd c.
