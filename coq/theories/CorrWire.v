(* CorrWire.v — checkers used by the C06 / C07 correspondence cases (tools/props/c06.py, c07.py). *)
From NV Require Import Base Header PyText Wire.

Definition bytes_eqb (a b : list Z) : bool := list_eqb Z.eqb a b.
Definition args_eqb (a b : dec_args) : bool :=
  let '(p, q, s, d, l, c) := a in
  let '(p', q', s', d', l', c') := b in
  (p =? p') && (q =? q') && (s =? s') && (d =? d') && bytes_eqb l l' && Bool.eqb c c'.

(* model result vs observed result; `unm`: the harness expects the model to stop (counted, not compared) *)
Definition res_eqb {A} (eqb : A -> A -> bool) (unm : bool) (m o : result A) : bool :=
  match m, o with
  | Ok a, Ok b => eqb a b
  | Err e, Err f => err_eqb e f
  | Unmodelled, _ => unm
  | _, _ => false
  end.

(* ---- text primitives: (kind, input, expect-unmodelled), observed
   kind 0: int(s,16) 1: int(s) 2: bytes.fromhex(s) (value = bytes as list; error = EMalformed)
   3: str.split() 4: str.split(',')  (value = concatenation with 0x1F5 separators is avoided: lists compared) *)
Definition chk_int (c : (Z * list Z * bool) * result Z) : bool :=
  let '(base, s, unm) := fst c in res_eqb Z.eqb unm (py_int base s) (snd c).
Definition chk_fromhex (c : list Z * option (list Z)) : bool :=
  option_eqb bytes_eqb (fromhex (fst c)) (snd c).
Definition chk_split (c : (Z * list Z) * list (list Z)) : bool :=
  let '(k, s) := fst c in
  list_eqb bytes_eqb (if k =? 0 then split_ws s else split_on k s) (snd c).
(* formatting: (width, n), observed f"{n:0wX}" *)
Definition chk_fmt (c : (Z * Z) * list Z) : bool :=
  let '(w, n) := fst c in bytes_eqb (fmt_X (Z.to_nat w) n) (snd c).

(* ---- encoders: ((kind, (pgn, src, dst, prio), msgs), observed list of packets)
   kind 0 ebyte, 1 usb, 2 yacht devices, 3 actisense (msgs = [payload], observed = [the line]) *)
Definition enc_model (k : Z) (h : hdr) (msgs : list (list Z)) : result (list (list Z)) :=
  let '(pgn, src, dst, prio) := h in
  if k =? 0 then enc_ebyte pgn src dst prio msgs
  else if k =? 1 then enc_usb pgn src dst prio msgs
  else if k =? 2 then enc_yd pgn src dst prio msgs
  else match msgs with
       | [payload] => Ok [enc_actisense pgn src dst prio payload]
       | _ => Unmodelled
       end.
Definition chk_enc (c : (Z * hdr * list (list Z)) * result (list (list Z))) : bool :=
  let '(k, h, msgs) := fst c in
  res_eqb (list_eqb bytes_eqb) false (enc_model k h msgs) (snd c).

(* ---- parsers: ((fmt, input, combined), strptime record, expect-unmodelled), observed
   fmt 0 decode_tcp, 1 decode_usb, 2 decode_yacht_devices_string, 3 decode_actisense_string, 4 decode_basic_string.
   The strptime record is what the real run asked datetime.strptime and whether it accepted:
   (format number, token, accepted); the model's `ts_ok` answers from it and refuses any other question. *)
Definition ts_from (r : option (Z * list Z * bool)) (fmt : Z) (tok : list Z) : bool :=
  match r with
  | Some (f, t, ok) => (f =? fmt) && bytes_eqb t tok && ok
  | None => false
  end.
Definition parse_model (fmt : Z) (s : list Z) (combined : bool) (r : option (Z * list Z * bool))
  : result (option dec_args) :=
  if fmt =? 0 then parse_tcp s
  else if fmt =? 1 then parse_usb s
  else if fmt =? 2 then parse_yd (ts_from r) s
  else if fmt =? 3 then parse_acti s
  else parse_basic (ts_from r) s combined.
Definition chk_parse (c : ((Z * list Z * bool) * option (Z * list Z * bool) * bool) * result (option dec_args)) : bool :=
  let '((fmt, s, combined), r, unm) := fst c in
  res_eqb (option_eqb args_eqb) unm (parse_model fmt s combined r) (snd c).

(* ---- receive framing: (kind, stream), observed list of blocks
   kind 13 / 20: StreamReader.readexactly(kind) until IncompleteReadError; 10: readline() until EOF;
   0: the serial client's marker search *)
Definition chk_frames (c : (Z * list Z) * list (list Z)) : bool :=
  let '(k, s) := fst c in
  list_eqb bytes_eqb
    (if k =? 10 then lines s else if k =? 0 then serial_frames s else chunks (Z.to_nat k) s) (snd c).
(* checksum: packet, observed calculate_canbus_checksum *)
Definition chk_checksum (c : list Z * Z) : bool := checksum (fst c) =? snd c.
