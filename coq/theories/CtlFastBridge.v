(* CtlFastBridge.v — the two models of NMEA2000Decoder._decode_fast_message are the same function.
   FastPacket.v (C03 / C04: segmentation, reassembly under interleaving, loss, duplication) and DecoderCtl.v
   (C10 / C11 / C16: filters, identity, isolation) each carry a step function for one reassembly record, written
   independently (bit operations vs. div/mod; result pair vs. result constructor).  Here they are proved equal,
   step by step and over whole frame sequences, so every theorem about FastPacket.run (C03_inverse and the C04 theorems) is a
   theorem about the reassembly performed inside DecoderCtl.ctl_step. *)
From NV Require Import Base.
From NV Require FastPacket DecoderCtl FastPacketProofs.

Module F := NV.FastPacket.
Module C := NV.DecoderCtl.

Definition cv (r : C.rec) : F.rec :=
  {| F.frames := C.frames r; F.plen := C.plen r; F.stored := C.stored r; F.rseq := C.rseq r |}.

Lemma has_same k fs : C.has k fs = F.has k fs.
Proof. induction fs as [|[k' d] t IH]; simpl; [reflexivity | rewrite IH; reflexivity]. Qed.
Lemma ins_same k d fs : C.ins k d fs = F.ins k d fs.
Proof. induction fs as [|[k' d'] t IH]; simpl; [reflexivity | rewrite IH; reflexivity]. Qed.
Lemma payload_same fs : C.payload_of fs = F.payload_of fs.
Proof. reflexivity. Qed.

Lemma seq_bits b0 : Z.land (Z.shiftr b0 5) 7 = (b0 / 32) mod 8.
Proof. rewrite Z.shiftr_div_pow2 by lia. change 7 with (Z.ones 3). rewrite Z.land_ones by lia. reflexivity. Qed.
Lemma cnt_bits b0 : Z.land b0 31 = b0 mod 32.
Proof. change 31 with (Z.ones 5). rewrite Z.land_ones by lia. reflexivity. Qed.

(* what FastPacket's step returns for an outcome of DecoderCtl's step; `dok p` = the decode function returns
   normally on the delivered payload (DecoderCtl decides that in ctl_step, after the step) *)
Definition as_F (dok : list Z -> bool) (o : C.fp_out) : option F.rec * F.out :=
  match o with
  | C.FpNothing r => (Some (cv r), F.Nothing)
  | C.FpRaise r => (Some (cv r), F.Raise)
  | C.FpDeliver r p => if dok p then (None, F.Deliver p) else (Some (cv r), F.DecRaise p)
  end.

Lemma finish_same dok r : as_F dok (C.finish r) = F.finish dok (cv r).
Proof.
  unfold C.finish, F.finish, C.delivered. cbn [cv F.plen F.stored F.frames].
  destruct (C.plen r <=? C.stored r); [|reflexivity].
  cbn [as_F]. rewrite payload_same. reflexivity.
Qed.

Theorem fp_step_same dok st can :
  as_F dok (C.fp_step st can) = F.fp_step dok (option_map cv st) can.
Proof.
  unfold C.fp_step, F.fp_step.
  assert (R : cv (match st with Some r => r | None => C.new_rec end)
              = match option_map cv st with Some r => r | None => F.new_rec end) by (destruct st; reflexivity).
  rewrite <- R. set (r := match st with Some r => r | None => C.new_rec end).
  destruct can as [|b0 rest]; [reflexivity|].
  rewrite seq_bits, cnt_bits. cbn [cv F.plen F.rseq F.frames F.stored].
  destruct (negb (b0 mod 32 =? 0) && (C.plen r =? 0)); [reflexivity|].
  destruct ((b0 mod 32 =? 0) && negb ((b0 / 32) mod 8 =? C.rseq r)).
  - destruct rest as [|total data]; [reflexivity|]. rewrite finish_same. reflexivity.
  - destruct (negb ((b0 / 32) mod 8 =? C.rseq r)); [reflexivity|].
    rewrite has_same. destruct (F.has (b0 mod 32) (C.frames r)); [reflexivity|].
    rewrite finish_same. cbn [cv C.frames C.plen C.stored C.rseq]. rewrite ins_same. reflexivity.
Qed.

(* the record DecoderCtl.ctl_step keeps for the key after a step (lines 160-178: deleted only when the decode
   function returned), and the outcome, for one key in isolation *)
Definition c_next (dok : list Z -> bool) (o : C.fp_out) : option C.rec :=
  match o with
  | C.FpNothing r | C.FpRaise r => Some r
  | C.FpDeliver r p => if dok p then None else Some r
  end.
Fixpoint c_run (dok : list Z -> bool) (st : option C.rec) (fs : list (list Z)) : option C.rec * list F.out :=
  match fs with
  | [] => (st, [])
  | f :: t => let o := C.fp_step st f in
              let '(st', os) := c_run dok (c_next dok o) t in (st', snd (as_F dok o) :: os)
  end.

Lemma next_same dok o : option_map cv (c_next dok o) = fst (as_F dok o).
Proof. destruct o as [r|r|r p]; cbn [c_next as_F]; try reflexivity. destruct (dok p); reflexivity. Qed.

(* whole frame sequences on one key: DecoderCtl's reassembly IS FastPacket.run *)
Theorem run_same dok : forall fs st,
  (option_map cv (fst (c_run dok st fs)), snd (c_run dok st fs)) = F.run dok (option_map cv st) fs.
Proof.
  induction fs as [|f t IH]; intros st; [reflexivity|].
  cbn [c_run F.run].
  pose proof (fp_step_same dok st f) as S. rewrite <- S.
  pose proof (next_same dok (C.fp_step st f)) as N.
  destruct (as_F dok (C.fp_step st f)) as [st1 o1] eqn:A. cbn [fst snd] in *.
  specialize (IH (c_next dok (C.fp_step st f))). rewrite N in IH.
  destruct (c_run dok (c_next dok (C.fp_step st f)) t) as [st2 os2]. cbn [fst snd] in *.
  destruct (F.run dok st1 t) as [st3 os3]. inversion IH; subst. reflexivity.
Qed.

(* C03 inside the control layer: a complete in-order fast-packet message with a fresh counter, after ANY earlier
   frames on that key, makes DecoderCtl's reassembly hand exactly the payload to the decode function at the
   last frame and nothing before *)
Corollary ctl_reassembles_segment dok seq p st :
  0 <= seq < 8 -> zlen p <= 223 -> NV.FastPacketProofs.fresh seq (option_map cv st) ->
  snd (c_run dok st (F.segment seq p)) = repeat F.Nothing (length (F.segment seq p) - 1) ++ [F.call dok p].
Proof.
  intros Hs Hp Hf.
  pose proof (run_same dok (F.segment seq p) st) as R.
  destruct (NV.FastPacketProofs.inverse_run dok seq p (option_map cv st) Hs Hp Hf) as [st' [E _]].
  rewrite E in R. inversion R. reflexivity.
Qed.
