(* Bits.v — the bridge between shifts/masks and div/mod, proved once (DESIGN §2). *)
From NV Require Import Base.

Definition decode_int (x off len : Z) : Z := Z.land (Z.shiftr x off) (Z.shiftl 1 len - 1).
Definition put (acc v off len : Z) : Z := Z.lor acc (Z.shiftl (Z.land v (Z.ones len)) off).

Lemma mask_ones len : 0 <= len -> Z.shiftl 1 len - 1 = Z.ones len.
Proof. intros. rewrite Z.ones_equiv, Z.shiftl_mul_pow2 by lia. lia. Qed.

Lemma decode_int_ones x off len : 0 <= len ->
  decode_int x off len = Z.land (Z.shiftr x off) (Z.ones len).
Proof. intros. unfold decode_int. rewrite mask_ones by lia. reflexivity. Qed.

Lemma decode_int_divmod x off len : 0 <= off -> 0 <= len ->
  decode_int x off len = (x / 2^off) mod 2^len.
Proof. intros. rewrite decode_int_ones by lia. rewrite Z.land_ones, Z.shiftr_div_pow2 by lia. reflexivity. Qed.

Lemma decode_int_range x off len : 0 <= off -> 0 <= len -> 0 <= decode_int x off len < 2^len.
Proof. intros. rewrite decode_int_divmod by lia. apply Z.mod_pos_bound. apply Z.pow_pos_nonneg; lia. Qed.

Lemma land_mask_mod x n : 0 <= n -> Z.land x (2^n - 1) = x mod 2^n.
Proof. intros. replace (2^n - 1) with (Z.ones n) by (rewrite Z.ones_equiv; lia). apply Z.land_ones; lia. Qed.

Lemma lor_disjoint_add a b n : 0 <= n -> 0 <= b < 2^n -> Z.lor (a * 2^n) b = a * 2^n + b.
Proof.
  intros Hn Hb.
  assert (L : Z.land (a * 2^n) b = 0).
  { apply Z.bits_inj'. intros i Hi. rewrite Z.land_spec, Z.bits_0.
    destruct (Z.ltb_spec i n).
    - rewrite Z.mul_pow2_bits_low by lia. reflexivity.
    - assert (Z.testbit b i = false).
      { destruct (Z.eq_dec b 0) as [->|]. apply Z.bits_0.
        apply Z.bits_above_log2; try lia. apply Z.log2_lt_pow2; try lia.
        apply Z.lt_le_trans with (2^n); try lia. apply Z.pow_le_mono_r; lia. }
      rewrite H0. apply andb_false_r. }
  rewrite <- Z.lxor_lor by exact L. symmetry. apply Z.add_nocarry_lxor. exact L.
Qed.

Lemma testbit_decode_int x off len i : 0 <= off -> 0 <= len -> 0 <= i ->
  Z.testbit (decode_int x off len) i = (i <? len) && Z.testbit x (i + off).
Proof.
  intros. rewrite decode_int_ones by lia. rewrite Z.land_spec, Z.shiftr_spec by lia.
  destruct (Z.ltb_spec i len).
  - rewrite Z.ones_spec_low by lia. rewrite andb_true_r. reflexivity.
  - rewrite Z.ones_spec_high by lia. rewrite andb_false_r. reflexivity.
Qed.

Lemma testbit_put acc v off len i : 0 <= off -> 0 <= len -> 0 <= i ->
  Z.testbit (put acc v off len) i =
  Z.testbit acc i || ((off <=? i) && (i <? off + len) && Z.testbit v (i - off)).
Proof.
  intros. unfold put. rewrite Z.lor_spec. f_equal.
  destruct (Z.leb_spec off i).
  - rewrite Z.shiftl_spec by lia. rewrite Z.land_spec.
    destruct (Z.ltb_spec i (off+len)).
    + rewrite Z.ones_spec_low by lia. simpl. rewrite andb_true_r. reflexivity.
    + rewrite Z.ones_spec_high by lia. simpl. rewrite andb_false_r. reflexivity.
  - rewrite Z.shiftl_spec_low by lia. reflexivity.
Qed.

(* a field list: (value, off, len) *)
Definition fld := (Z * Z * Z)%type.
Definition put_all (fs : list fld) : Z := fold_left (fun acc '(v,off,len) => put acc v off len) fs 0.
Definition fwf (f : fld) := let '(_,off,len) := f in 0 <= off /\ 0 <= len.
Definition disj (f g : fld) := let '(_,o1,l1) := f in let '(_,o2,l2) := g in o1 + l1 <= o2 \/ o2 + l2 <= o1.

Lemma testbit_fold fs : forall acc i, 0 <= i -> Forall fwf fs ->
  Z.testbit (fold_left (fun acc '(v,off,len) => put acc v off len) fs acc) i =
  Z.testbit acc i || existsb (fun '(v,off,len) => (off <=? i) && (i <? off + len) && Z.testbit v (i - off)) fs.
Proof.
  induction fs as [|[[v off] len] fs IH]; intros acc i Hi Hwf; simpl.
  - rewrite orb_false_r. reflexivity.
  - inversion Hwf as [|? ? Hw Hwf']; subst. destruct Hw as [Ho Hl].
    rewrite IH by assumption. rewrite testbit_put by assumption.
    rewrite orb_assoc. reflexivity.
Qed.

(* insert-then-extract: a field written by mask-shift-or among pairwise disjoint fields reads back *)
Theorem insert_then_extract fs v off len :
  Forall fwf fs -> In (v,off,len) fs ->
  (forall g, In g fs -> g = (v,off,len) \/ disj (v,off,len) g) ->
  decode_int (put_all fs) off len = v mod 2^len.
Proof.
  intros Hwf Hin Hd.
  assert (Hw : fwf (v,off,len)) by (rewrite Forall_forall in Hwf; apply Hwf; exact Hin).
  destruct Hw as [Ho Hl].
  rewrite <- Z.land_ones by lia.
  apply Z.bits_inj'. intros i Hi.
  rewrite testbit_decode_int by lia.
  unfold put_all. rewrite testbit_fold by (try lia; assumption).
  rewrite Z.testbit_0_l. simpl orb. rewrite Z.land_spec.
  destruct (Z.ltb_spec i len) as [Hlt|Hge].
  - rewrite Z.ones_spec_low by lia. rewrite andb_true_r. simpl andb.
    apply eq_true_iff_eq. rewrite existsb_exists. split.
    + intros [[[v' off'] len'] [Hin' Hb]].
      destruct (Hd _ Hin') as [E|D].
      * inversion E; subst.
        rewrite !andb_true_iff in Hb. destruct Hb as [_ Hb]. replace (i + off - off) with i in Hb by lia. exact Hb.
      * simpl in D. rewrite !andb_true_iff in Hb. destruct Hb as [[H1 H2] _].
        apply Z.leb_le in H1. apply Z.ltb_lt in H2. lia.
    + intros Hb. exists (v,off,len). split; [exact Hin|].
      rewrite !andb_true_iff. repeat split.
      * apply Z.leb_le. lia.
      * apply Z.ltb_lt. lia.
      * replace (i + off - off) with i by lia. exact Hb.
  - rewrite Z.ones_spec_high by lia. rewrite andb_false_r. reflexivity.
Qed.

(* locality: decode_int only looks at bits [off, off+len) *)
Lemma decode_int_local x y off len : 0 <= off -> 0 <= len ->
  (forall i, off <= i < off + len -> Z.testbit x i = Z.testbit y i) ->
  decode_int x off len = decode_int y off len.
Proof.
  intros Ho Hl H. apply Z.bits_inj'. intros i Hi.
  rewrite !testbit_decode_int by lia.
  destruct (Z.ltb_spec i len); [|reflexivity]. simpl. apply H. lia.
Qed.
