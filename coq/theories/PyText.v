(* PyText.v — the ASCII-only text layer of CPython 3.12 used by the wire-format code
   (encoder.py:144-183, decoder.py:180-269).  Models only, no proofs.

   A character is its code point (Z); a str / bytes object is a `list Z`.
   Everything here is exact for ASCII input.  A text that contains a code point
   outside 0..127 is `Unmodelled` in the callers (Unicode whitespace in str.split,
   Unicode decimal digits in int(), strptime on non-ASCII).

   str.split()          -> split_ws      (str.isspace on ASCII: 9..13, 28..32)
   str.split(c)         -> split_on c
   int(s, 16) / int(s)  -> py_int 16 / py_int 10  (PyLong_FromString: Py_ISSPACE strip = 9..13,32 — NOT
                           28..31 for an ASCII str —, optional sign, `0x`/`0X` prefix in base 16 followed
                           by at most one `_`, single underscores between digits, at least one digit)
   bytes.fromhex(s)     -> fromhex       (_PyBytes_FromHex: whitespace between pairs only)
   f"{n:02X}" f"{n:05X}"-> fmt_X 2 / fmt_X 5;   bytes.hex().upper() -> hex_bytes_u
   n.to_bytes(4,'big'/'little') -> to_be4 / to_le4;   int.from_bytes -> from_be / from_le
   l[a:b], l[i]         -> py_slice, py_index *)
From NV Require Import Base.

Definition is_ascii (c : Z) : bool := (0 <=? c) && (c <? 128).
Definition all_ascii (s : list Z) : bool := forallb is_ascii s.

(* str.isspace() restricted to ASCII: TAB LF VT FF CR, FS GS RS US, SPACE *)
Definition is_ws (c : Z) : bool := ((9 <=? c) && (c <=? 13)) || ((28 <=? c) && (c <=? 32)).
(* Py_ISSPACE (C locale): TAB LF VT FF CR SPACE *)
Definition is_cspace (c : Z) : bool := ((9 <=? c) && (c <=? 13)) || (c =? 32).

Definition str_eqb (a b : list Z) : bool := list_eqb Z.eqb a b.

(* ---- str.split() : runs of whitespace separate, no empty strings *)
Fixpoint split_ws_aux (cur : list Z) (s : list Z) : list (list Z) :=
  match s with
  | [] => match cur with [] => [] | _ => [rev cur] end
  | c :: t =>
      if is_ws c
      then match cur with [] => split_ws_aux [] t | _ => rev cur :: split_ws_aux [] t end
      else split_ws_aux (c :: cur) t
  end.
Definition split_ws (s : list Z) : list (list Z) := split_ws_aux [] s.

(* ---- str.split(sep) for a one-character separator: always at least one string *)
Fixpoint split_on_aux (sep : Z) (cur : list Z) (s : list Z) : list (list Z) :=
  match s with
  | [] => [rev cur]
  | c :: t => if c =? sep then rev cur :: split_on_aux sep [] t else split_on_aux sep (c :: cur) t
  end.
Definition split_on (sep : Z) (s : list Z) : list (list Z) := split_on_aux sep [] s.

(* ---- slices and indices with Python's treatment of negative / out-of-range bounds *)
Definition clamp_idx (n x : Z) : Z := if x <? 0 then Z.max 0 (n + x) else Z.min x n.
Definition py_slice {A} (l : list A) (a b : Z) : list A :=
  let n := zlen l in
  let lo := clamp_idx n a in
  let hi := clamp_idx n b in
  firstn (Z.to_nat (hi - lo)) (skipn (Z.to_nat lo) l).
Definition py_index {A} (l : list A) (i : Z) : result A :=
  let n := zlen l in
  let j := if i <? 0 then n + i else i in
  if (0 <=? j) && (j <? n) then match nth_error l (Z.to_nat j) with Some x => Ok x | None => Err EIndex end
  else Err EIndex.

(* ---- int(s, base), base 10 or 16 *)
Definition digit_val (c : Z) : option Z :=
  if (48 <=? c) && (c <=? 57) then Some (c - 48)
  else if (97 <=? c) && (c <=? 122) then Some (c - 87)
  else if (65 <=? c) && (c <=? 90) then Some (c - 55)
  else None.

(* digits with single underscores between them; `prev_us`: the previous character was `_`;
   `nd`: at least one digit seen *)
Fixpoint digits_us (base acc : Z) (prev_us nd : bool) (s : list Z) : option Z :=
  match s with
  | [] => if prev_us then None else if nd then Some acc else None
  | c :: t =>
      if c =? 95 then (if prev_us then None else digits_us base acc true nd t)
      else match digit_val c with
           | Some d => if d <? base then digits_us base (acc * base + d) false true t else None
           | None => None
           end
  end.

Fixpoint lstrip_c (s : list Z) : list Z :=
  match s with
  | c :: t => if is_cspace c then lstrip_c t else s
  | [] => []
  end.
Definition strip_c (s : list Z) : list Z := rev (lstrip_c (rev (lstrip_c s))).

Definition strip_sign (s : list Z) : bool * list Z :=
  match s with
  | c :: t => if c =? 43 then (false, t) else if c =? 45 then (true, t) else (false, s)
  | [] => (false, s)
  end.
Definition strip_0x (s : list Z) : list Z :=
  match s with
  | z :: x :: t =>
      if (z =? 48) && ((x =? 120) || (x =? 88))
      then match t with u :: t' => if u =? 95 then t' else t | [] => t end
      else s
  | _ => s
  end.
Definition starts_us (s : list Z) : bool := match s with c :: _ => c =? 95 | [] => false end.

(* sys.int_info.default_max_str_digits = 4300 applies to base 10 only; longer inputs are not modelled *)
Definition py_int (base : Z) (s : list Z) : result Z :=
  if negb (all_ascii s) then Unmodelled
  else if (base =? 10) && (4300 <? zlen s) then Unmodelled
  else
    let '(neg, s2) := strip_sign (strip_c s) in
    let s3 := if base =? 16 then strip_0x s2 else s2 in
    if starts_us s3 then Err EMalformed
    else match digits_us base 0 false false s3 with
         | Some v => Ok (if neg then - v else v)
         | None => Err EMalformed
         end.

(* ---- bytes.fromhex on a str *)
Definition hexd (c : Z) : option Z :=
  match digit_val c with Some d => if d <? 16 then Some d else None | None => None end.
Fixpoint fromhex_aux (s : list Z) : option (list Z) :=
  match s with
  | [] => Some []
  | a :: t =>
      if is_cspace a then fromhex_aux t
      else match t with
           | b :: t' =>
               match hexd a, hexd b with
               | Some x, Some y =>
                   match fromhex_aux t' with Some r => Some (x * 16 + y :: r) | None => None end
               | _, _ => None
               end
           | [] => None
           end
  end.
(* ValueError also for any non-ASCII character *)
Definition fromhex (s : list Z) : option (list Z) := if all_ascii s then fromhex_aux s else None.

(* ---- upper-case hexadecimal formatting *)
Definition hexchar_u (d : Z) : Z := if d <? 10 then 48 + d else 55 + d.
(* exactly k digits, most significant first, of n mod 16^k *)
Fixpoint hex_fixed (k : nat) (n : Z) : list Z :=
  match k with
  | O => []
  | S k' => hexchar_u ((n / 16 ^ Z.of_nat k') mod 16) :: hex_fixed k' n
  end.
Definition ndigits16 (n : Z) : nat := if n <=? 0 then 1%nat else S (Z.to_nat (Z.log2 n / 4)).
(* f"{n:0wX}" *)
Definition fmt_X (w : nat) (n : Z) : list Z :=
  if n <? 0 then 45 :: hex_fixed (Nat.max (w - 1) (ndigits16 (- n))) (- n)
  else hex_fixed (Nat.max w (ndigits16 n)) n.
(* bytes.hex().upper() *)
Definition hex_bytes_u (l : list Z) : list Z := flat_map (hex_fixed 2) l.
(* sep.join(...) *)
Fixpoint join (sep : list Z) (l : list (list Z)) : list Z :=
  match l with
  | [] => []
  | [x] => x
  | x :: t => x ++ sep ++ join sep t
  end.

(* ---- 4-byte conversions *)
Definition be4 (n : Z) : list Z := [n / 16777216; (n / 65536) mod 256; (n / 256) mod 256; n mod 256].
Definition to_be4 (n : Z) : result (list Z) :=
  if (0 <=? n) && (n <? 4294967296) then Ok (be4 n) else Err ERange.   (* OverflowError *)
Definition to_le4 (n : Z) : result (list Z) :=
  if (0 <=? n) && (n <? 4294967296) then Ok (rev (be4 n)) else Err ERange.
Definition from_be (l : list Z) : Z := fold_left (fun acc b => acc * 256 + b) l 0.
Definition from_le (l : list Z) : Z := from_be (rev l).

(* sequential map with the first failure *)
Fixpoint map_result {A B} (f : A -> result B) (l : list A) : result (list B) :=
  match l with
  | [] => Ok []
  | x :: t => do y <- f x; do r <- map_result f t; Ok (y :: r)
  end.
Definition zsum (l : list Z) : Z := fold_right Z.add 0 l.

(* ---- specification vocabulary for the theorems (not used by the models): a plain digit token ----
   `tokval base s = Some v`: s is a non-empty string of digits valid in `base` (either letter case, leading
   zeros allowed, no sign / prefix / underscore / whitespace) and v is its value *)
Fixpoint digs (base acc : Z) (s : list Z) : option Z :=
  match s with
  | [] => Some acc
  | c :: t => match digit_val c with
              | Some d => if d <? base then digs base (acc * base + d) t else None
              | None => None
              end
  end.
Definition tokval (base : Z) (s : list Z) : option Z :=
  match s with [] => None | _ => digs base 0 s end.
(* a token: non-empty, no ASCII whitespace *)
Definition clean (t : list Z) : Prop := t <> [] /\ forallb (fun c => negb (is_ws c)) t = true.
