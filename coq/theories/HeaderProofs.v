(* HeaderProofs.v — C05: identifier packing and parsing are mutually inverse.
   All statements are for every integer in the stated ranges; no enumeration. *)
From NV Require Import Base Bits Header.
From Coq Require Import ZifyBool.
Ltac Zify.zify_post_hook ::= Z.to_euclidean_division_equations.

(* arithmetic characterisations: the only place shifts and masks are unfolded *)
Lemma land255 x : Z.land x 255 = x mod 256.  Proof. apply (land_mask_mod x 8); lia. Qed.
Lemma land7 x : Z.land x 7 = x mod 8.        Proof. apply (land_mask_mod x 3); lia. Qed.
Lemma land3 x : Z.land x 3 = x mod 4.        Proof. apply (land_mask_mod x 2); lia. Qed.
Lemma land15 x : Z.land x 15 = x mod 16.     Proof. apply (land_mask_mod x 4); lia. Qed.
Lemma land18 x : Z.land x 262143 = x mod 262144. Proof. apply (land_mask_mod x 18); lia. Qed.
Lemma shr8 x : Z.shiftr x 8 = x / 256.       Proof. apply (Z.shiftr_div_pow2 x 8); lia. Qed.
Lemma shr16 x : Z.shiftr x 16 = x / 65536.   Proof. apply (Z.shiftr_div_pow2 x 16); lia. Qed.
Lemma shr26 x : Z.shiftr x 26 = x / 67108864. Proof. apply (Z.shiftr_div_pow2 x 26); lia. Qed.
Lemma shr12 x : Z.shiftr x 12 = x / 4096.    Proof. apply (Z.shiftr_div_pow2 x 12); lia. Qed.
Lemma shr4 x : Z.shiftr x 4 = x / 16.        Proof. apply (Z.shiftr_div_pow2 x 4); lia. Qed.
Lemma shl8 x : Z.shiftl x 8 = x * 256.       Proof. apply (Z.shiftl_mul_pow2 x 8); lia. Qed.
Lemma shl16 x : Z.shiftl x 16 = x * 65536.   Proof. apply (Z.shiftl_mul_pow2 x 16); lia. Qed.
Lemma shl26 x : Z.shiftl x 26 = x * 67108864. Proof. apply (Z.shiftl_mul_pow2 x 26); lia. Qed.
Lemma shl12 x : Z.shiftl x 12 = x * 4096.    Proof. apply (Z.shiftl_mul_pow2 x 12); lia. Qed.
Lemma shl4 x : Z.shiftl x 4 = x * 16.        Proof. apply (Z.shiftl_mul_pow2 x 4); lia. Qed.

Lemma lor_add a b n : 0 <= n -> a mod 2^n = 0 -> 0 <= b < 2^n -> Z.lor a b = a + b.
Proof.
  intros Hn Ha Hb. assert (0 < 2^n) by (apply Z.pow_pos_nonneg; lia).
  assert (E : a = (a / 2^n) * 2^n) by (pose proof (Z.div_mod a (2^n)); lia).
  rewrite E. apply lor_disjoint_add; assumption.
Qed.
Lemma lor8 a b : a mod 256 = 0 -> 0 <= b < 256 -> Z.lor a b = a + b.
Proof. apply (lor_add a b 8); lia. Qed.
Lemma lor16 a b : a mod 65536 = 0 -> 0 <= b < 65536 -> Z.lor a b = a + b.
Proof. apply (lor_add a b 16); lia. Qed.
Lemma lor26 a b : a mod 67108864 = 0 -> 0 <= b < 67108864 -> Z.lor a b = a + b.
Proof. apply (lor_add a b 26); lia. Qed.
Lemma lor12 a b : a mod 4096 = 0 -> 0 <= b < 4096 -> Z.lor a b = a + b.
Proof. apply (lor_add a b 12); lia. Qed.
Lemma lor4 a b : a mod 16 = 0 -> 0 <= b < 16 -> Z.lor a b = a + b.
Proof. apply (lor_add a b 4); lia. Qed.

(* extract_header in arithmetic form *)
Definition extract_arith (id : Z) : hdr :=
  let source := id mod 256 in
  let pr := (id / 256) mod 262144 in
  let prio := (id / 67108864) mod 8 in
  let dp := (pr / 65536) mod 4 in
  let pf := (pr / 256) mod 256 in
  let ps := pr mod 256 in
  if pf <? 240 then (dp * 65536 + pf * 256, source, ps, prio)
  else (dp * 65536 + pf * 256 + ps, source, 255, prio).

Lemma extract_header_arith id : extract_header id = extract_arith id.
Proof.
  unfold extract_header, extract_arith.
  rewrite !land255, !land18, !land7, !land3, !shr8, !shr16, !shr26, !shl8, !shl16.
  set (pr := (id / 256) mod 262144).
  assert (Hpf : 0 <= (pr / 256) mod 256 < 256) by (apply Z.mod_pos_bound; lia).
  assert (Hps : 0 <= pr mod 256 < 256) by (apply Z.mod_pos_bound; lia).
  rewrite (lor16 _ ((pr / 256) mod 256 * 256)) by lia.
  rewrite (lor8 _ (pr mod 256)) by lia.
  reflexivity.
Qed.

(* build_header in arithmetic form, for in-range arguments *)
Definition build_arith (pgn source dest prio : Z) : Z :=
  let dp := (pgn / 65536) mod 4 in
  let pf := (pgn / 256) mod 256 in
  let ps := if pf <? 240 then dest else pgn mod 256 in
  prio * 67108864 + (dp * 65536 + pf * 256 + ps) * 256 + source.

Lemma build_header_arith pgn source dest prio :
  0 <= prio < 8 -> 0 <= source < 256 -> 0 <= dest < 256 ->
  build_header pgn source dest prio = build_arith pgn source dest prio.
Proof.
  intros Hq Hs Hd. unfold build_header, build_arith.
  rewrite !land255, !land18, !land7, !land3, !shr8, !shr16, !shl8, !shl16, !shl26.
  set (dp := (pgn / 65536) mod 4). set (pf := (pgn / 256) mod 256).
  assert (Hdp : 0 <= dp < 4) by (apply Z.mod_pos_bound; lia).
  assert (Hpf : 0 <= pf < 256) by (apply Z.mod_pos_bound; lia).
  assert (Hlo : 0 <= pgn mod 256 < 256) by (apply Z.mod_pos_bound; lia).
  set (ps := if pf <? 240 then dest else pgn mod 256).
  assert (Hps : 0 <= ps < 256) by (unfold ps; destruct (pf <? 240); lia).
  rewrite (lor16 (dp * 65536) (pf * 256)) by lia.
  rewrite (lor8 _ ps) by lia.
  rewrite (Z.mod_small prio 8) by lia.
  rewrite (Z.mod_small source 256) by lia.
  rewrite (Z.mod_small (dp * 65536 + pf * 256 + ps) 262144) by lia.
  rewrite (lor26 (prio * 67108864)) by lia.
  rewrite (lor8 _ source) by lia.
  reflexivity.
Qed.

(* --- C05, direction 1: build then extract --- *)
Theorem build_then_extract pgn source dest prio :
  0 <= prio < 8 -> 0 <= source < 256 -> 0 <= dest < 256 -> pgn_canonical pgn = true ->
  extract_header (build_header pgn source dest prio)
  = (pgn, source, (if is_pdu1 pgn then dest else 255), prio).
Proof.
  intros Hq Hs Hd Hc.
  rewrite build_header_arith by assumption. rewrite extract_header_arith.
  unfold build_arith, extract_arith, pgn_canonical, is_pdu1 in *.
  set (dp := (pgn / 65536) mod 4) in *. set (pf := (pgn / 256) mod 256) in *.
  assert (Hdp : 0 <= dp < 4) by (apply Z.mod_pos_bound; lia).
  assert (Hpf : 0 <= pf < 256) by (apply Z.mod_pos_bound; lia).
  assert (Hlo : 0 <= pgn mod 256 < 256) by (apply Z.mod_pos_bound; lia).
  set (ps := if pf <? 240 then dest else pgn mod 256) in *.
  assert (Hps : 0 <= ps < 256) by (unfold ps; destruct (pf <? 240); lia).
  set (id := prio * 67108864 + (dp * 65536 + pf * 256 + ps) * 256 + source).
  assert (E1 : id mod 256 = source) by (unfold id; lia).
  assert (E2 : (id / 256) mod 262144 = dp * 65536 + pf * 256 + ps) by (unfold id; lia).
  assert (E3 : (id / 67108864) mod 8 = prio) by (unfold id; lia).
  rewrite E1, E2, E3.
  assert (F1 : ((dp * 65536 + pf * 256 + ps) / 65536) mod 4 = dp) by lia.
  assert (F2 : ((dp * 65536 + pf * 256 + ps) / 256) mod 256 = pf) by lia.
  assert (F3 : (dp * 65536 + pf * 256 + ps) mod 256 = ps) by lia.
  rewrite F1, F2, F3.
  assert (Hpgn : 0 <= pgn < 262144) by lia.
  assert (Dec : pgn = dp * 65536 + pf * 256 + pgn mod 256) by (unfold dp, pf; lia).
  unfold ps. destruct (pf <? 240) eqn:Epf.
  - assert (pgn mod 256 = 0) by lia. f_equal; f_equal; f_equal; lia.
  - f_equal; f_equal; f_equal; lia.
Qed.

(* --- C05, direction 2: extract then build, for every 29-bit identifier --- *)
Theorem extract_then_build id :
  0 <= id < 536870912 ->
  let '(p, s, d, q) := extract_header id in
  build_header p s d q = id /\ pgn_canonical p = true
  /\ 0 <= q < 8 /\ 0 <= s < 256 /\ 0 <= d < 256.
Proof.
  intros Hid. rewrite extract_header_arith. unfold extract_arith.
  set (source := id mod 256). set (pr := (id / 256) mod 262144).
  set (prio := (id / 67108864) mod 8).
  set (dp := (pr / 65536) mod 4). set (pf := (pr / 256) mod 256). set (ps := pr mod 256).
  assert (Hs : 0 <= source < 256) by (apply Z.mod_pos_bound; lia).
  assert (Hq : 0 <= prio < 8) by (apply Z.mod_pos_bound; lia).
  assert (Hdp : 0 <= dp < 4) by (apply Z.mod_pos_bound; lia).
  assert (Hpf : 0 <= pf < 256) by (apply Z.mod_pos_bound; lia).
  assert (Hps : 0 <= ps < 256) by (apply Z.mod_pos_bound; lia).
  assert (Hpr : pr = dp * 65536 + pf * 256 + ps) by (unfold dp, pf, ps, pr; lia).
  assert (Hidd : id = prio * 67108864 + pr * 256 + source) by (unfold prio, pr, source; lia).
  destruct (pf <? 240) eqn:Epf.
  - rewrite build_header_arith by lia. unfold build_arith, pgn_canonical.
    assert (G1 : ((dp * 65536 + pf * 256) / 65536) mod 4 = dp) by lia.
    assert (G2 : ((dp * 65536 + pf * 256) / 256) mod 256 = pf) by lia.
    rewrite G1, G2, Epf.
    repeat split; try lia.
  - rewrite build_header_arith by lia. unfold build_arith, pgn_canonical.
    assert (G1 : ((dp * 65536 + pf * 256 + ps) / 65536) mod 4 = dp) by lia.
    assert (G2 : ((dp * 65536 + pf * 256 + ps) / 256) mod 256 = pf) by lia.
    assert (G3 : (dp * 65536 + pf * 256 + ps) mod 256 = ps) by lia.
    rewrite G1, G2, G3, Epf.
    repeat split; try lia.
Qed.

(* injectivity on the 2^29 identifiers: no two identifiers are confused *)
Corollary extract_injective a b :
  0 <= a < 536870912 -> 0 <= b < 536870912 -> extract_header a = extract_header b -> a = b.
Proof.
  intros Ha Hb E. pose proof (extract_then_build a Ha) as A. pose proof (extract_then_build b Hb) as B.
  rewrite E in A. destruct (extract_header b) as [[[p s] d] q].
  destruct A as [A _]. destruct B as [B _]. congruence.
Qed.

(* non-canonical encode input: a broadcast (PDU2) PGN with any destination yields the
   identifier of destination 255 — the destination is not written at all *)
Theorem build_pdu2_ignores_dest pgn source dest dest' prio :
  is_pdu1 pgn = false -> build_header pgn source dest prio = build_header pgn source dest' prio.
Proof.
  unfold is_pdu1, build_header. intros H.
  rewrite land255, shr8. rewrite H. reflexivity.
Qed.

(* Actisense header word *)
Theorem acti_roundtrip src dest prio :
  0 <= src < 256 -> 0 <= dest < 256 -> 0 <= prio < 8 ->
  acti_parse (acti_build src dest prio) = (src, dest, prio).
Proof.
  intros Hs Hd Hq. unfold acti_parse, acti_build.
  rewrite !land255, !land15, !shl12, !shl4.
  rewrite (Z.mod_small src 256), (Z.mod_small dest 256), (Z.mod_small prio 16) by lia.
  rewrite (lor12 (src * 4096)) by lia. rewrite (lor4 _ prio) by lia.
  rewrite !shr12, !shr4.
  f_equal; [f_equal|]; lia.
Qed.
