(* RangeProofs.v — two IEEE-754 results about the number decoder / encoder models.

   1. C01 (totality on in-range raw values): a raw value that is not the not-available pattern and
      whose scaled value lies inside the database range (exactly, or up to the 1e-12 relative
      tolerance the library applies) is decoded — never rejected — and the result is n*k (integer
      resolution) or the correctly rounded product fl(n*r) (float resolution).
   2. C09 (half a resolution step): whenever encode_num accepts a value, the raw value n it writes
      satisfies |n*res - value| <= |res|/2 + 2^-53 |value| (rounding of the quotient and ties
      included); for integer value and resolution, 2|n*k - v| <= k + 1, and <= k when |v| < 2^52.

   Everything is about the executable model functions of PyNum.v / Fields.v / Encode.v (Coq's
   primitive binary64 floats), bridged to the reals through Flocq. *)
From Coq Require Import ZArith Reals Lra Lia Psatz.
From Flocq Require Import Core Relative.
From Coq Require Import Floats Uint63.
From Flocq Require Import BinarySingleNaN.
From Flocq Require Import IEEE754.PrimFloat.
From NV Require Import Base PyNum Fields Encode SpecProofs EncodeProofs FloatRT.
Local Open Scope R_scope.

Local Notation fexp := (FLT_exp (-1074) 53).
Local Notation rnd := (round radix2 fexp ZnearestE).
Local Instance Hprec'' : FLX.Prec_gt_0 prec := eq_refl _.
Local Instance Hmax'' : Prec_lt_emax prec emax := eq_refl _.
Local Instance P53' : Prec_gt_0 53 := eq_refl _.

(* the real number a Python int/float denotes (0 for nan/inf, which the hypotheses exclude) *)
Definition pyR (x : pynum) : R :=
  match x with PI z => IZR z | PF f => B2R (Prim2B f) end.

(* ------------------------------------------------------------------------------------------
   Bridge lemmas: abs, +, -, <, and the mixed int/float comparison
   ------------------------------------------------------------------------------------------ *)
Lemma abs_B2R f :
  B2R (Prim2B (abs f)) = Rabs (B2R (Prim2B f)) /\ is_finite (Prim2B (abs f)) = is_finite (Prim2B f).
Proof. rewrite abs_equiv. split; [apply B2R_Babs | apply is_finite_Babs]. Qed.

Lemma sub_B2R x y :
  is_finite (Prim2B x) = true -> is_finite (Prim2B y) = true ->
  Rabs (rnd (B2R (Prim2B x) - B2R (Prim2B y))) < bpow radix2 1024 ->
  B2R (Prim2B (x - y)) = rnd (B2R (Prim2B x) - B2R (Prim2B y)) /\ is_finite (Prim2B (x - y)) = true.
Proof.
  intros Fx Fy H. rewrite sub_equiv.
  pose proof (Bminus_correct prec emax Hprec'' Hmax'' mode_NE (Prim2B x) (Prim2B y) Fx Fy) as C.
  simpl round_mode in C.
  rewrite Rlt_bool_true in C by exact H.
  destruct C as [C1 [C2 _]]. split; assumption.
Qed.

Lemma add_B2R x y :
  is_finite (Prim2B x) = true -> is_finite (Prim2B y) = true ->
  Rabs (rnd (B2R (Prim2B x) + B2R (Prim2B y))) < bpow radix2 1024 ->
  B2R (Prim2B (x + y)) = rnd (B2R (Prim2B x) + B2R (Prim2B y)) /\ is_finite (Prim2B (x + y)) = true.
Proof.
  intros Fx Fy H. rewrite add_equiv.
  pose proof (Bplus_correct prec emax Hprec'' Hmax'' mode_NE (Prim2B x) (Prim2B y) Fx Fy) as C.
  simpl round_mode in C.
  rewrite Rlt_bool_true in C by exact H.
  destruct C as [C1 [C2 _]]. split; assumption.
Qed.

Lemma ltb_false x y :
  is_finite (Prim2B x) = true -> is_finite (Prim2B y) = true ->
  B2R (Prim2B y) <= B2R (Prim2B x) -> (x <? y)%float = false.
Proof.
  intros Fx Fy H. rewrite ltb_equiv, Bltb_correct by assumption.
  apply Rlt_bool_false. exact H.
Qed.

Lemma format_B2R f : generic_format radix2 fexp (B2R (Prim2B f)).
Proof. apply (generic_format_B2R prec emax). Qed.

(* CPython's exact int/float comparison is the comparison of the real values *)
Lemma cmp_Z_float_correct z f m e : float_me f = Some (m, e) ->
  cmp_Z_float z f = Some (Rcompare (IZR z) (B2R (Prim2B f))).
Proof.
  intros Me. destruct (float_me_B2R f m e Me) as [V _]. rewrite V. clear V.
  unfold float_me in Me. unfold cmp_Z_float.
  destruct (Prim2SF f) as [s|s| |s mm ee]; try discriminate.
  - inversion Me; subst. f_equal. rewrite Rmult_0_l. symmetry. apply Rcompare_IZR.
  - inversion Me; subst. clear Me. f_equal.
    set (v := if s then (- Z.pos mm)%Z else Z.pos mm).
    destruct (Z.leb_spec 0 e) as [He|He].
    + rewrite <- IZR_Zpower by lia. rewrite <- mult_IZR. symmetry. apply Rcompare_IZR.
    + rewrite <- (Rcompare_mult_r (bpow radix2 (- e)) (IZR z)) by apply bpow_gt_0.
      rewrite Rmult_assoc, <- bpow_plus. replace (e + - e)%Z with 0%Z by lia.
      rewrite Rmult_1_r. rewrite <- IZR_Zpower by lia. rewrite <- mult_IZR. symmetry. apply Rcompare_IZR.
Qed.

(* ------------------------------------------------------------------------------------------
   Boolean side conditions and their meaning
   ------------------------------------------------------------------------------------------ *)
(* a finite double below 2^1000 in magnitude *)
Definition float_small (f : PrimFloat.float) : bool :=
  match float_me f with
  | Some (m, e) => (Z.abs m <? 2 ^ 53)%Z && (e + 53 <=? 1000)%Z
  | None => false
  end.
Lemma float_small_sound f : float_small f = true ->
  is_finite (Prim2B f) = true /\ Rabs (B2R (Prim2B f)) < bpow radix2 1000.
Proof.
  unfold float_small. destruct (float_me f) as [[m e]|] eqn:Me; [|discriminate]. intros H.
  destruct (float_me_B2R f m e Me) as [V F]. split; [exact F|]. rewrite V.
  apply andb_true_iff in H. destruct H as [H1 H2]. apply Z.ltb_lt in H1. apply Z.leb_le in H2.
  rewrite Rabs_mult, <- abs_IZR, (Rabs_pos_eq (bpow radix2 e)) by apply bpow_ge_0.
  assert (M : IZR (Z.abs m) < bpow radix2 53).
  { change (bpow radix2 53) with (IZR (2 ^ 53)). apply IZR_lt. exact H1. }
  pose proof (bpow_gt_0 radix2 e) as Pe.
  apply Rlt_le_trans with (bpow radix2 53 * bpow radix2 e).
  - apply Rmult_lt_compat_r; assumption.
  - rewrite <- bpow_plus. apply bpow_le. lia.
Qed.

(* a range bound the theorem covers: any finite double below 2^1000; any int when the resolution is
   an int (the comparison is then exact integer arithmetic); an int below 2^53 when the resolution
   is a float (the bound is then converted to a double before the tolerance is applied) *)
Definition bound_okb (res b : pynum) : bool :=
  match b with
  | PF f => float_small f
  | PI z => match res with PI _ => true | PF _ => (Z.abs z <? 2 ^ 53)%Z end
  end.

(* the raw value and resolution the theorem covers: any int with an int resolution; |n| < 2^53 with
   an ordinary float resolution (finite, non-zero, 2^-300 <= |r| <= 2^300: FloatRT.res_ok) *)
Definition raw_okb (n : Z) (res : pynum) : bool :=
  match res with PI _ => true | PF r => (Z.abs n <? 2 ^ 53)%Z && res_ok r end.

(* the scaled value the decoder computes, and the tolerance it grants, as real numbers *)
Definition scaledR (n : Z) (res : pynum) : R :=
  match res with PI k => IZR (n * k) | PF r => rnd (IZR n * B2R (Prim2B r)) end.
Definition tolR (n : Z) (res : pynum) : R :=
  match res with PI _ => 0 | PF _ => rnd (B2R (Prim2B rel_tol) * Rabs (scaledR n res)) end.

Lemma rel_tol_me : float_me rel_tol = Some (0x119799812dea11%Z, (-92)%Z).
Proof. vm_compute. reflexivity. Qed.
Lemma rel_tol_facts : is_finite (Prim2B rel_tol) = true /\ 0 <= B2R (Prim2B rel_tol) <= 1.
Proof.
  destruct (float_me_B2R _ _ _ rel_tol_me) as [V F]. split; [exact F|]. rewrite V.
  pose proof (bpow_gt_0 radix2 (-92)) as P.
  assert (M0 : 0 <= IZR 0x119799812dea11) by (apply IZR_le; lia).
  assert (M1 : IZR 0x119799812dea11 <= bpow radix2 53).
  { change (bpow radix2 53) with (IZR (2 ^ 53)). apply IZR_le. lia. }
  split; [nra|].
  apply Rle_trans with (bpow radix2 53 * bpow radix2 (-92)); [nra|].
  rewrite <- bpow_plus. change 1 with (bpow radix2 0). apply bpow_le. lia.
Qed.

Lemma bpow_format e : (-1074 <= e)%Z -> generic_format radix2 fexp (bpow radix2 e).
Proof. intros H. apply generic_format_bpow. unfold FLT_exp. lia. Qed.

(* what the decoder computes for a float resolution: v = fl(fl(n) * r) and tol = fl(1e-12 * |v|) *)
Lemma scaled_facts n r : (Z.abs n < 2 ^ 53)%Z -> res_ok r = true ->
  exists x, Z2float n = Ok x /\
    is_finite (Prim2B (x * r)) = true /\ B2R (Prim2B (x * r)) = scaledR n (PF r) /\
    is_finite (Prim2B (rel_tol * abs (x * r))) = true /\
    B2R (Prim2B (rel_tol * abs (x * r))) = tolR n (PF r) /\
    Rabs (scaledR n (PF r)) <= bpow radix2 353 /\ 0 <= tolR n (PF r) <= bpow radix2 353.
Proof.
  intros Hn Hr. destruct (res_ok_sound r Hr) as [Fr [_ Rhi]].
  destruct (Z2float_exact n Hn) as [x [Zx [Ex Fx]]]. exists x. split; [exact Zx|].
  set (Rr := B2R (Prim2B r)) in *.
  assert (Hn53 : Rabs (IZR n) <= bpow radix2 53).
  { rewrite <- abs_IZR. change (bpow radix2 53) with (IZR (2 ^ 53)). apply IZR_le. lia. }
  assert (Pb : Rabs (IZR n * Rr) <= bpow radix2 353).
  { rewrite Rabs_mult. change 353%Z with (53 + 300)%Z. rewrite bpow_plus.
    apply Rmult_le_compat; try apply Rabs_pos; assumption. }
  assert (Sb : Rabs (scaledR n (PF r)) <= bpow radix2 353).
  { unfold scaledR. fold Rr. apply abs_round_le_generic; [typeclasses eauto | typeclasses eauto | | exact Pb].
    apply bpow_format. lia. }
  assert (Big : bpow radix2 353 < bpow radix2 1024) by (apply bpow_lt; lia).
  destruct (mul_B2R x r) as [M1 M2].
  { rewrite Ex. fold Rr. apply Rle_lt_trans with (2 := Big). exact Sb. }
  rewrite Ex in M1. fold Rr in M1. rewrite Fx, Fr in M2. simpl in M2.
  split; [exact M2|]. split; [exact M1|].
  destruct (abs_B2R (x * r)%float) as [A1 A2]. rewrite M1 in A1. rewrite M2 in A2.
  destruct rel_tol_facts as [FT [T0 T1]].
  set (S := rnd (IZR n * Rr)) in *.
  assert (Tb : Rabs (B2R (Prim2B rel_tol) * Rabs S) <= bpow radix2 353).
  { rewrite Rabs_mult, Rabs_Rabsolu, (Rabs_pos_eq _ T0).
    pose proof (Rabs_pos S). unfold scaledR in Sb. fold Rr S in Sb. nra. }
  assert (Tb' : Rabs (rnd (B2R (Prim2B rel_tol) * Rabs S)) <= bpow radix2 353).
  { apply abs_round_le_generic; [typeclasses eauto | typeclasses eauto | | exact Tb]. apply bpow_format. lia. }
  destruct (mul_B2R rel_tol (abs (x * r))) as [N1 N2].
  { rewrite A1. apply Rle_lt_trans with (2 := Big). exact Tb'. }
  rewrite A1 in N1. rewrite FT, A2 in N2. simpl in N2.
  split; [exact N2|]. split; [exact N1|]. split; [exact Sb|].
  unfold tolR, scaledR. fold Rr S. split.
  - apply round_ge_generic; try typeclasses eauto.
    + apply generic_format_0.
    + apply Rmult_le_pos; [exact T0 | apply Rabs_pos].
  - apply Rabs_le_inv in Tb'. lra.
Qed.

(* relative error of one rounding, outside the subnormal range *)
Lemma rel_err_abs x : bpow radix2 (-1022) <= Rabs x \/ x = 0 ->
  Rabs (rnd x - x) <= bpow radix2 (-53) * Rabs x.
Proof.
  intros [H| ->].
  - destruct (rel_err x H) as [eps [He E]]. rewrite E.
    assert (Heps : / 2 * bpow radix2 (-53 + 1) = bpow radix2 (-53)).
    { change (/2) with (bpow radix2 (-1)). rewrite <- bpow_plus. reflexivity. }
    rewrite Heps in He.
    replace (x * (1 + eps) - x) with (eps * x) by ring. rewrite Rabs_mult.
    apply Rmult_le_compat_r; [apply Rabs_pos | exact He].
  - rewrite round_0 by typeclasses eauto. rewrite Rminus_0_r, Rabs_R0. lra.
Qed.

(* ------------------------------------------------------------------------------------------
   The range test: rounding is monotone, so a bound that holds of the reals holds of the doubles
   ------------------------------------------------------------------------------------------ *)
Lemma sum_range a t :
  Rabs a < bpow radix2 1000 -> Rabs t <= bpow radix2 353 ->
  Rabs (rnd (a - t)) < bpow radix2 1024 /\ Rabs (rnd (a + t)) < bpow radix2 1024.
Proof.
  intros Ba Bt.
  assert (L : bpow radix2 353 <= bpow radix2 1000) by (apply bpow_le; lia).
  assert (E : bpow radix2 1001 = 2 * bpow radix2 1000).
  { replace 1001%Z with (1 + 1000)%Z by lia. rewrite bpow_plus. reflexivity. }
  assert (Big : bpow radix2 1001 < bpow radix2 1024) by (apply bpow_lt; lia).
  apply Rabs_lt_inv in Ba. apply Rabs_le_inv in Bt.
  split; (apply Rle_lt_trans with (2 := Big); apply abs_round_le_generic; try typeclasses eauto;
    [apply bpow_format; lia | apply Rabs_le; lra]).
Qed.

Lemma lo_ok a t v :
  is_finite (Prim2B a) = true -> Rabs (B2R (Prim2B a)) < bpow radix2 1000 ->
  is_finite (Prim2B t) = true -> Rabs (B2R (Prim2B t)) <= bpow radix2 353 ->
  is_finite (Prim2B v) = true ->
  B2R (Prim2B a) - B2R (Prim2B t) <= B2R (Prim2B v) ->
  (v <? a - t)%float = false.
Proof.
  intros Fa Ba Ft Bt Fv H.
  destruct (sum_range _ _ Ba Bt) as [Rg _].
  destruct (sub_B2R a t Fa Ft Rg) as [S1 S2].
  apply ltb_false; try assumption. rewrite S1.
  apply round_le_generic; try typeclasses eauto; [apply format_B2R | exact H].
Qed.

Lemma hi_ok b t v :
  is_finite (Prim2B b) = true -> Rabs (B2R (Prim2B b)) < bpow radix2 1000 ->
  is_finite (Prim2B t) = true -> Rabs (B2R (Prim2B t)) <= bpow radix2 353 ->
  is_finite (Prim2B v) = true ->
  B2R (Prim2B v) <= B2R (Prim2B b) + B2R (Prim2B t) ->
  (b + t <? v)%float = false.
Proof.
  intros Fb Bb Ft Bt Fv H.
  destruct (sum_range _ _ Bb Bt) as [_ Rg].
  destruct (add_B2R b t Fb Ft Rg) as [S1 S2].
  apply ltb_false; try assumption. rewrite S1.
  apply round_ge_generic; try typeclasses eauto; [apply format_B2R | exact H].
Qed.

(* a bound, as the double the tolerance is subtracted from / added to (float resolutions) *)
Lemma bound_as_float r b : bound_okb (PF r) b = true ->
  exists fb, is_finite (Prim2B fb) = true /\ B2R (Prim2B fb) = pyR b /\ Rabs (pyR b) < bpow radix2 1000 /\
    (forall t, py_sub_tol b (Some t) = Ok (PF (fb - t)%float)) /\
    (forall t, py_add_tol b (Some t) = Ok (PF (fb + t)%float)).
Proof.
  destruct b as [z|f]; cbn [bound_okb pyR]; intros H.
  - apply Z.ltb_lt in H. destruct (Z2float_exact z H) as [fz [Zz [Ez Fz]]].
    exists fz. split; [exact Fz|]. split; [exact Ez|]. split.
    + rewrite <- abs_IZR. apply Rlt_trans with (bpow radix2 53).
      * change (bpow radix2 53) with (IZR (2 ^ 53)). apply IZR_lt. exact H.
      * apply bpow_lt. lia.
    + split; intros t; cbn [py_sub_tol py_add_tol]; rewrite Zz; reflexivity.
  - destruct (float_small_sound f H) as [F B]. exists f.
    split; [exact F|]. split; [reflexivity|]. split; [exact B|]. split; intros t; reflexivity.
Qed.

(* int value against an int or finite-double bound: the exact comparison of the real values *)
Lemma py_lt_int_false z k b : bound_okb (PI k) b = true -> pyR b <= IZR z -> py_lt (PI z) b = false.
Proof.
  destruct b as [y|f]; simpl; intros H L.
  - apply le_IZR in L. apply Z.ltb_ge. exact L.
  - unfold float_small in H. destruct (float_me f) as [[m e]|] eqn:Me; [|discriminate].
    rewrite (cmp_Z_float_correct z f m e Me).
    destruct (Rcompare_spec (IZR z) (B2R (Prim2B f))); try reflexivity. lra.
Qed.
Lemma py_gt_int_false z k b : bound_okb (PI k) b = true -> IZR z <= pyR b -> py_gt (PI z) b = false.
Proof.
  unfold py_gt. destruct b as [y|f]; simpl; intros H L.
  - apply le_IZR in L. apply Z.ltb_ge. exact L.
  - unfold float_small in H. destruct (float_me f) as [[m e]|] eqn:Me; [|discriminate].
    rewrite (cmp_Z_float_correct z f m e Me).
    destruct (Rcompare_spec (IZR z) (B2R (Prim2B f))); try reflexivity. lra.
Qed.

(* ------------------------------------------------------------------------------------------
   RESULT 1 — decode_number is total, and correctly rounded, on in-range raw values
   ------------------------------------------------------------------------------------------ *)
(* what the decoded value is: n*k for an integer resolution; for a float resolution r the finite
   double fl(n*r), within 2^-53 relative of the real product *)
Definition decoded_as (n : Z) (res : pynum) (v : value) : Prop :=
  match res with
  | PI k => v = VInt (n * k)
  | PF r => exists f, v = VFloat f /\ is_finite (Prim2B f) = true /\
      B2R (Prim2B f) = rnd (IZR n * B2R (Prim2B r)) /\
      Rabs (B2R (Prim2B f) - IZR n * B2R (Prim2B r)) <= bpow radix2 (-53) * Rabs (IZR n * B2R (Prim2B r))
  end.

(* the general form: the computed value may even lie outside [mn, mx] by the tolerance
   fl(1e-12 * |value|) the library grants (utils.py, the F-range-boundary repair) *)
Theorem number_within_tolerance_decodes n len signed res mn mx :
  not_available signed len n = false ->
  raw_okb n res = true -> bound_okb res mn = true -> bound_okb res mx = true ->
  pyR mn - tolR n res <= scaledR n res <= pyR mx + tolR n res ->
  exists v, number_of_raw n len signed res mn mx = Ok v /\ decoded_as n res v.
Proof.
  intros NA Hraw Hmn Hmx [Lo Hi]. unfold number_of_raw. rewrite NA.
  destruct res as [k|r].
  - (* integer resolution: exact arithmetic, no tolerance *)
    simpl in Lo, Hi. rewrite Rminus_0_r in Lo. rewrite Rplus_0_r in Hi.
    exists (VInt (n * k)). split; [|reflexivity].
    cbn [py_mul_int bind]. unfold range_check. cbn [py_sub_tol py_add_tol bind].
    rewrite (py_lt_int_false _ k mn Hmn Lo). rewrite (py_gt_int_false _ k mx Hmx Hi). reflexivity.
  - simpl in Hraw. apply andb_true_iff in Hraw. destruct Hraw as [Hn Hr]. apply Z.ltb_lt in Hn.
    destruct (scaled_facts n r Hn Hr) as [x [Zx [Fv [Ev [Ft [Et [Sb [T0 T1]]]]]]]].
    destruct (bound_as_float r mn Hmn) as [fa [Fa [Ea [Ba [Sa _]]]]].
    destruct (bound_as_float r mx Hmx) as [fb [Fb [Eb [Bb [_ Ab]]]]].
    assert (Bt : Rabs (B2R (Prim2B (rel_tol * abs (x * r)))) <= bpow radix2 353).
    { rewrite Et. apply Rabs_le. pose proof (bpow_gt_0 radix2 353). lra. }
    exists (VFloat (x * r)%float). split.
    + cbn [py_mul_int]. rewrite Zx. cbn [bind]. unfold range_check.
      rewrite Sa. cbn [bind]. cbn [py_lt].
      rewrite (lo_ok fa _ (x * r)%float Fa ltac:(rewrite Ea; exact Ba) Ft Bt Fv ltac:(rewrite Ea, Et, Ev; exact Lo)).
      rewrite Ab. cbn [bind]. unfold py_gt. cbn [py_lt].
      rewrite (hi_ok fb _ (x * r)%float Fb ltac:(rewrite Eb; exact Bb) Ft Bt Fv ltac:(rewrite Eb, Et, Ev; exact Hi)).
      reflexivity.
    + simpl. exists (x * r)%float. split; [reflexivity|]. split; [exact Fv|]. split; [exact Ev|].
      rewrite Ev. unfold scaledR. apply rel_err_abs.
      destruct (Z.eq_dec n 0) as [->|Hn0]; [right; ring|left].
      destruct (res_ok_sound r Hr) as [_ [Rlo _]].
      assert (H1 : 1 <= Rabs (IZR n)) by (rewrite <- abs_IZR; apply IZR_le; lia).
      assert (Hb : bpow radix2 (-1022) <= bpow radix2 (-300)) by (apply bpow_le; lia).
      pose proof (bpow_gt_0 radix2 (-300)). rewrite Rabs_mult. nra.
Qed.

(* the form asked for: the exact product n*res lies inside the database range *)
Lemma exact_in_range_scaled n res mn mx :
  raw_okb n res = true -> bound_okb res mn = true -> bound_okb res mx = true ->
  pyR mn <= IZR n * pyR res <= pyR mx ->
  pyR mn - tolR n res <= scaledR n res <= pyR mx + tolR n res.
Proof.
  intros Hraw Hmn Hmx [Lo Hi]. destruct res as [k|r].
  - simpl in *. rewrite mult_IZR. lra.
  - simpl in Hraw. apply andb_true_iff in Hraw. destruct Hraw as [Hn Hr]. apply Z.ltb_lt in Hn.
    destruct (scaled_facts n r Hn Hr) as [x [_ [_ [_ [_ [_ [_ [T0 _]]]]]]]].
    destruct (bound_as_float r mn Hmn) as [fa [_ [Ea _]]].
    destruct (bound_as_float r mx Hmx) as [fb [_ [Eb _]]].
    simpl pyR in Lo, Hi.
    assert (L : pyR mn <= scaledR n (PF r)).
    { unfold scaledR. apply round_ge_generic; try typeclasses eauto; [rewrite <- Ea; apply format_B2R | exact Lo]. }
    assert (H : scaledR n (PF r) <= pyR mx).
    { unfold scaledR. apply round_le_generic; try typeclasses eauto; [rewrite <- Eb; apply format_B2R | exact Hi]. }
    lra.
Qed.

Theorem number_in_range_decodes n len signed res mn mx :
  not_available signed len n = false ->
  raw_okb n res = true -> bound_okb res mn = true -> bound_okb res mx = true ->
  pyR mn <= IZR n * pyR res <= pyR mx ->
  exists v, number_of_raw n len signed res mn mx = Ok v /\ decoded_as n res v.
Proof.
  intros NA Hraw Hmn Hmx H. apply number_within_tolerance_decodes; try assumption.
  apply exact_in_range_scaled; assumption.
Qed.

(* ------------------------------------------------------------------------------------------
   Kernel-computable forms of the range hypothesis: exact integer arithmetic on (mantissa, exponent)
   ------------------------------------------------------------------------------------------ *)
Definition me_of (x : pynum) : option (Z * Z) :=
  match x with PI z => Some (z, 0%Z) | PF f => float_me f end.
(* m1 * 2^e1 <= m2 * 2^e2 *)
Definition me_le (a b : Z * Z) : bool :=
  let e := Z.min (snd a) (snd b) in
  (fst a * 2 ^ (snd a - e) <=? fst b * 2 ^ (snd b - e))%Z.
Definition me_add (a b : Z * Z) : Z * Z :=
  let e := Z.min (snd a) (snd b) in
  ((fst a * 2 ^ (snd a - e) + fst b * 2 ^ (snd b - e))%Z, e).
Definition meR (a : Z * Z) : R := IZR (fst a) * bpow radix2 (snd a).

Lemma me_of_sound x a : me_of x = Some a -> pyR x = meR a.
Proof.
  destruct x as [z|f]; simpl; intros H.
  - inversion H; subst. unfold meR. simpl. ring.
  - destruct a as [m e]. destruct (float_me_B2R f m e H) as [V _]. exact V.
Qed.
Lemma me_shift m e e0 : (e0 <= e)%Z -> IZR m * bpow radix2 e = IZR (m * 2 ^ (e - e0)) * bpow radix2 e0.
Proof.
  intros H. rewrite mult_IZR. rewrite (IZR_Zpower radix2) by lia.
  rewrite Rmult_assoc, <- bpow_plus. f_equal. f_equal. lia.
Qed.
Lemma me_le_sound a b : me_le a b = true -> meR a <= meR b.
Proof.
  unfold me_le, meR. destruct a as [m1 e1], b as [m2 e2]. cbn [fst snd]. intros H.
  apply Z.leb_le in H. set (e := Z.min e1 e2) in *.
  rewrite (me_shift m1 e1 e), (me_shift m2 e2 e) by lia.
  apply Rmult_le_compat_r; [apply bpow_ge_0 | apply IZR_le; exact H].
Qed.
Lemma me_add_sound a b : meR (me_add a b) = meR a + meR b.
Proof.
  unfold me_add, meR. destruct a as [m1 e1], b as [m2 e2]. cbn [fst snd].
  set (e := Z.min e1 e2).
  rewrite (me_shift m1 e1 e), (me_shift m2 e2 e) by lia. rewrite plus_IZR. ring.
Qed.

(* mn <= n * res <= mx, decided exactly *)
Definition in_range_exact (n : Z) (res mn mx : pynum) : bool :=
  match me_of res, me_of mn, me_of mx with
  | Some (m, e), Some a, Some b => me_le a ((n * m)%Z, e) && me_le ((n * m)%Z, e) b
  | _, _, _ => false
  end.
Lemma in_range_exact_sound n res mn mx : in_range_exact n res mn mx = true ->
  pyR mn <= IZR n * pyR res <= pyR mx.
Proof.
  unfold in_range_exact.
  destruct (me_of res) as [[m e]|] eqn:E1; [|discriminate].
  destruct (me_of mn) as [a|] eqn:E2; [|discriminate].
  destruct (me_of mx) as [b|] eqn:E3; [|discriminate].
  intros H. apply andb_true_iff in H. destruct H as [H1 H2].
  apply me_le_sound in H1, H2.
  rewrite (me_of_sound _ _ E1), (me_of_sound _ _ E2), (me_of_sound _ _ E3).
  unfold meR in *. cbn [fst snd] in *. rewrite mult_IZR in H1, H2. lra.
Qed.

(* mn - tol <= v <= mx + tol on the computed double v = fl(n*r) and tolerance tol = fl(1e-12*|v|),
   decided exactly; for an integer resolution the same as in_range_exact *)
Definition in_range_tol (n : Z) (res mn mx : pynum) : bool :=
  match res with
  | PI _ => in_range_exact n res mn mx
  | PF r =>
      match Z2float n with
      | Ok x =>
          let v := (x * r)%float in
          let t := (rel_tol * abs v)%float in
          match float_me v, float_me t, me_of mn, me_of mx with
          | Some v', Some t', Some a, Some b => me_le a (me_add v' t') && me_le v' (me_add b t')
          | _, _, _, _ => false
          end
      | _ => false
      end
  end.
Lemma in_range_tol_sound n res mn mx : raw_okb n res = true -> in_range_tol n res mn mx = true ->
  pyR mn - tolR n res <= scaledR n res <= pyR mx + tolR n res.
Proof.
  intros Hraw. destruct res as [k|r]; cbn [in_range_tol].
  - intros H. apply in_range_exact_sound in H. simpl in *. rewrite mult_IZR. lra.
  - simpl in Hraw. apply andb_true_iff in Hraw. destruct Hraw as [Hn Hr]. apply Z.ltb_lt in Hn.
    destruct (scaled_facts n r Hn Hr) as [x [Zx [_ [Ev [_ [Et _]]]]]].
    rewrite Zx. cbv zeta.
    destruct (float_me (x * r)) as [[vm ve]|] eqn:E1; [|discriminate].
    destruct (float_me (rel_tol * abs (x * r))) as [[tm te]|] eqn:E2; [|discriminate].
    destruct (me_of mn) as [a|] eqn:E3; [|discriminate].
    destruct (me_of mx) as [b|] eqn:E4; [|discriminate].
    intros H. apply andb_true_iff in H. destruct H as [H1 H2].
    apply me_le_sound in H1, H2. rewrite me_add_sound in H1, H2.
    destruct (float_me_B2R _ _ _ E1) as [V1 _]. destruct (float_me_B2R _ _ _ E2) as [V2 _].
    rewrite Ev in V1. rewrite Et in V2.
    rewrite (me_of_sound _ _ E3), (me_of_sound _ _ E4).
    change (meR (vm, ve)) with (IZR vm * bpow radix2 ve) in H1, H2.
    change (meR (tm, te)) with (IZR tm * bpow radix2 te) in H1, H2.
    rewrite <- V1, <- V2 in H1, H2. lra.
Qed.

(* RESULT 1 with boolean hypotheses only *)
Theorem number_in_range_decodes_b n len signed res mn mx :
  not_available signed len n = false ->
  raw_okb n res = true -> bound_okb res mn = true -> bound_okb res mx = true ->
  in_range_exact n res mn mx = true ->
  exists v, number_of_raw n len signed res mn mx = Ok v /\ decoded_as n res v.
Proof.
  intros NA Hraw Hmn Hmx H. apply number_in_range_decodes; try assumption.
  apply in_range_exact_sound. exact H.
Qed.

Theorem number_within_tolerance_decodes_b n len signed res mn mx :
  not_available signed len n = false ->
  raw_okb n res = true -> bound_okb res mn = true -> bound_okb res mx = true ->
  in_range_tol n res mn mx = true ->
  exists v, number_of_raw n len signed res mn mx = Ok v /\ decoded_as n res v.
Proof.
  intros NA Hraw Hmn Hmx H. apply number_within_tolerance_decodes; try assumption.
  apply in_range_tol_sound; assumption.
Qed.

(* ------------------------------------------------------------------------------------------
   RESULT 2 — an accepted value is encoded to within half a resolution step
   ------------------------------------------------------------------------------------------ *)
(* Python's round(): the result is within 1/2 of the (finite) argument *)
Lemma py_round_spec f n : py_round f = Ok n ->
  is_finite (Prim2B f) = true /\ Rabs (B2R (Prim2B f) - IZR n) <= / 2.
Proof.
  unfold py_round. destruct (float_me f) as [[m e]|] eqn:Me; [|discriminate].
  destruct (float_me_B2R f m e Me) as [V F]. intros H. split; [exact F|]. rewrite V. clear V F Me.
  destruct (Z.leb_spec 0 e) as [He|He].
  - inversion H; subst. rewrite mult_IZR, (IZR_Zpower radix2) by lia.
    rewrite Rminus_diag_eq by reflexivity. rewrite Rabs_R0. lra.
  - cbv zeta in H.
    set (d := (2 ^ (- e))%Z) in *.
    assert (Hd : (2 <= d)%Z).
    { unfold d. replace (- e)%Z with (1 + (- e - 1))%Z by lia. rewrite Z.pow_add_r by lia.
      assert (0 < 2 ^ (- e - 1))%Z by (apply Z.pow_pos_nonneg; lia). lia. }
    assert (Hde : (d = 2 * (d / 2))%Z).
    { unfold d. replace (- e)%Z with (1 + (- e - 1))%Z by lia. rewrite Z.pow_add_r by lia.
      change (2 ^ 1)%Z with 2%Z. rewrite Z.mul_comm, Z.div_mul by lia. lia. }
    assert (B : bpow radix2 e = / IZR d).
    { assert (E1 : IZR d = bpow radix2 (- e)) by (unfold d; apply (IZR_Zpower radix2); lia).
      rewrite E1, <- bpow_opp. f_equal. lia. }
    rewrite B.
    assert (Dpos : 0 < IZR d) by (apply IZR_lt; lia).
    (* 2 |m - n d| <= d, in Z *)
    assert (Hz : (2 * Z.abs (m - n * d) <= d)%Z).
    { set (h := (d / 2)%Z) in *.
      pose proof (Z.div_mod (Z.abs m) d ltac:(lia)) as DM.
      pose proof (Z.mod_pos_bound (Z.abs m) d ltac:(lia)) as MB.
      set (q := (Z.abs m / d)%Z) in *. set (r := (Z.abs m mod d)%Z) in *.
      inversion H as [Hn]. clear H.
      destruct (Z.ltb_spec m 0) as [Mn|Mp].
      - assert (Am : Z.abs m = (- m)%Z) by lia. rewrite Am in DM.
        destruct (Z.ltb_spec r h) as [R1|R1]; [nia|].
        destruct (Z.ltb_spec h r) as [R2|R2]; [nia|].
        destruct (Z.even q); nia.
      - assert (Am : Z.abs m = m) by lia. rewrite Am in DM.
        destruct (Z.ltb_spec r h) as [R1|R1]; [nia|].
        destruct (Z.ltb_spec h r) as [R2|R2]; [nia|].
        destruct (Z.even q); nia. }
    assert (E : IZR m * / IZR d - IZR n = (IZR m - IZR n * IZR d) / IZR d) by (field; lra).
    rewrite E. unfold Rdiv. rewrite Rabs_mult, (Rabs_pos_eq (/ IZR d))
      by (left; apply Rinv_0_lt_compat; exact Dpos).
    apply IZR_le in Hz. rewrite mult_IZR, abs_IZR, minus_IZR, mult_IZR in Hz.
    apply (Rmult_le_reg_r (IZR d)); [exact Dpos|].
    rewrite Rmult_assoc, Rinv_l, Rmult_1_r by lra. lra.
Qed.

(* a float that compares unequal to 0.0 and is finite has a non-zero value *)
Lemma eqb_zero_false_inv r : is_finite (Prim2B r) = true -> (r =? 0)%float = false -> B2R (Prim2B r) <> 0.
Proof.
  intros F N. rewrite eqb_equiv in N.
  assert (Z0 : Prim2B 0%float = B754_zero false).
  { change 0%float with zero. rewrite zero_equiv. apply Prim2B_B2Prim. }
  rewrite Z0 in N. rewrite Beqb_correct in N by (try exact F; reflexivity).
  simpl B2R in N. intro E. rewrite E in N. rewrite Req_bool_true in N by reflexivity. discriminate.
Qed.

(* a finite quotient is the correctly rounded real quotient, and its dividend is finite *)
Lemma div_finite x y :
  B2R (Prim2B y) <> 0 -> is_finite (Prim2B (x / y)) = true ->
  B2R (Prim2B (x / y)) = rnd (B2R (Prim2B x) / B2R (Prim2B y)) /\ is_finite (Prim2B x) = true.
Proof.
  intros Hy F. rewrite div_equiv in *.
  pose proof (Bdiv_correct prec emax Flocq.IEEE754.PrimFloat.Hprec Flocq.IEEE754.PrimFloat.Hmax
                mode_NE (Prim2B x) (Prim2B y) Hy) as C.
  simpl round_mode in C.
  destruct (Rlt_bool _ _) in C.
  - destruct C as [C1 [C2 _]]. split; [exact C1 | rewrite <- C2; exact F].
  - exfalso. rewrite <- is_finite_SF_B2SF in F. rewrite C in F. discriminate.
Qed.

(* the core: n = round(fl(V/R)) is within |R|/2 + 2^-53 |V| of V, in units of the value *)
Lemma quotient_half_step fv r n :
  is_finite (Prim2B r) = true -> (r =? 0)%float = false -> py_round (fv / r) = Ok n ->
  is_finite (Prim2B fv) = true /\
  Rabs (IZR n * B2R (Prim2B r) - B2R (Prim2B fv)) <=
    Rabs (B2R (Prim2B r)) / 2 + bpow radix2 (-53) * Rabs (B2R (Prim2B fv)).
Proof.
  intros Fr Nz Rd.
  pose proof (eqb_zero_false_inv r Fr Nz) as R0.
  destruct (py_round_spec _ _ Rd) as [Fq Cl].
  destruct (div_finite fv r R0 Fq) as [Eq Fv]. split; [exact Fv|].
  rewrite Eq in Cl. clear Eq Fq Rd Nz.
  set (V := B2R (Prim2B fv)) in *. set (Rr := B2R (Prim2B r)) in *.
  assert (RP : 0 < Rabs Rr) by (apply Rabs_pos_lt; exact R0).
  assert (EV : Rabs V = Rabs (V / Rr) * Rabs Rr).
  { rewrite <- Rabs_mult. f_equal. field. exact R0. }
  pose proof (bpow_gt_0 radix2 (-53)) as P53.
  destruct (Rle_or_lt (bpow radix2 (-1022)) (Rabs (V / Rr))) as [Big|Small].
  - (* normal range: one relative rounding error on the quotient *)
    pose proof (rel_err_abs (V / Rr) (or_introl Big)) as RE.
    set (Q := rnd (V / Rr)) in *.
    replace (IZR n * Rr - V) with ((IZR n - Q) * Rr + (Q - V / Rr) * Rr) by (field; exact R0).
    eapply Rle_trans; [apply Rabs_triang|]. rewrite !Rabs_mult.
    rewrite Rabs_minus_sym in Cl.
    assert (A1 : Rabs (IZR n - Q) * Rabs Rr <= Rabs Rr / 2) by nra.
    assert (A2 : Rabs (Q - V / Rr) * Rabs Rr <= bpow radix2 (-53) * Rabs V).
    { rewrite EV. rewrite <- Rmult_assoc. apply Rmult_le_compat_r; [lra | exact RE]. }
    lra.
  - (* quotient below 2^-1022: it rounds to at most 2^-1022, so n = 0, and |V| < 2^-1022 |R| *)
    assert (Qs : Rabs (rnd (V / Rr)) <= bpow radix2 (-1022)).
    { apply abs_round_le_generic; try typeclasses eauto; [apply bpow_format; lia | lra]. }
    assert (T : bpow radix2 (-1022) <= / 4).
    { change (/4) with (bpow radix2 (-2)). apply bpow_le. lia. }
    assert (N0 : n = 0%Z).
    { assert (Hlt : Rabs (IZR n) < 1).
      { replace (IZR n) with (rnd (V / Rr) - (rnd (V / Rr) - IZR n)) by ring.
        eapply Rle_lt_trans; [apply Rabs_triang|]. rewrite Rabs_Ropp. lra. }
      rewrite <- abs_IZR in Hlt. apply lt_IZR in Hlt. lia. }
    subst n. rewrite Rmult_0_l, Rminus_0_l, Rabs_Ropp.
    pose proof (Rabs_pos V). nra.
Qed.

(* the values and resolutions covered: any float value, an int value below 2^53; any finite float
   resolution, a non-zero int resolution below 2^53 (py_div converts ints to doubles, exactly) *)
Definition float_finite (f : PrimFloat.float) : bool :=
  match float_me f with Some _ => true | None => false end.
Lemma float_finite_sound f : float_finite f = true -> is_finite (Prim2B f) = true.
Proof.
  unfold float_finite. destruct (float_me f) as [[m e]|] eqn:Me; [|discriminate].
  intros _. exact (proj2 (float_me_B2R f m e Me)).
Qed.
Lemma res_ok_finite r : res_ok r = true -> float_finite r = true.
Proof. unfold res_ok, float_finite. destruct (float_me r) as [[m e]|]; [reflexivity | discriminate]. Qed.

Definition enc_okb (v res : pynum) : bool :=
  (match v with PI x => (Z.abs x <? 2 ^ 53)%Z | PF _ => true end) &&
  (match res with PI k => negb (k =? 0)%Z && (Z.abs k <? 2 ^ 53)%Z | PF r => float_finite r end).

(* value / resolution, whatever the int/float typing, is one division of two doubles that carry the
   exact values of the operands *)
Lemma div_as_floats v res : enc_okb v res = true ->
  exists fv fr, is_finite (Prim2B fr) = true /\ B2R (Prim2B fr) = pyR res /\ B2R (Prim2B fv) = pyR v /\
    (py_div v res = Err EOther \/ ((fr =? 0)%float = false /\ py_div v res = Ok (PF (fv / fr)%float))).
Proof.
  unfold enc_okb. intros H. apply andb_true_iff in H. destruct H as [Hv Hr].
  assert (Xv : exists fv, B2R (Prim2B fv) = pyR v /\
                match v with PI x => Z2float x = Ok fv /\ (Z.abs x <? 2 ^ 53)%Z = true | PF f => fv = f end).
  { destruct v as [x|f].
    - pose proof Hv as Hv'. apply Z.ltb_lt in Hv'. destruct (Z2float_exact x Hv') as [fx [Zx [Ex _]]].
      exists fx. split; [exact Ex|]. split; assumption.
    - exists f. split; reflexivity. }
  destruct Xv as [fv [Ev Sv]].
  destruct res as [k|r].
  - apply andb_true_iff in Hr. destruct Hr as [K0 K53].
    apply negb_true_iff in K0. pose proof K53 as K53'. apply Z.ltb_lt in K53'.
    destruct (Z2float_exact k K53') as [fk [Zk [Ek Fk]]].
    assert (Nk : IZR k <> 0) by (apply not_0_IZR; apply Z.eqb_neq; exact K0).
    exists fv, fk. split; [exact Fk|]. split; [exact Ek|]. split; [exact Ev|]. right.
    split; [apply eqb_zero_false; [exact Fk | rewrite Ek; exact Nk]|].
    destruct v as [x|f]; cbn [py_div]; rewrite K0.
    + destruct Sv as [Zx X53]. rewrite X53, K53, Zx, Zk. reflexivity.
    + subst fv. rewrite Zk. reflexivity.
  - exists fv, r. split; [apply float_finite_sound; exact Hr|]. split; [reflexivity|]. split; [exact Ev|].
    destruct (r =? 0)%float eqn:Z0.
    + left. destruct v; cbn [py_div]; rewrite Z0; reflexivity.
    + right. split; [reflexivity|].
      destruct v as [x|f]; cbn [py_div]; rewrite Z0.
      * destruct Sv as [Zx _]. rewrite Zx. reflexivity.
      * subst fv. reflexivity.
Qed.

(* RESULT 2: an accepted value is encoded to the raw value n — the one the decoder's sign extension
   reads back, never the not-available pattern — with |n*res - value| <= |res|/2 + 2^-53 |value| *)
Theorem encode_half_step v res len signed z :
  (1 <= len)%Z -> (signed = true -> (4 <= len)%Z) ->
  enc_okb v res = true ->
  encode_num v len signed res = Ok z ->
  exists n, rounded_quotient v res = Ok n /\ sign_extend signed len z = n /\
    not_available signed len n = false /\
    Rabs (IZR n * pyR res - pyR v) <= Rabs (pyR res) / 2 + bpow radix2 (-53) * Rabs (pyR v).
Proof.
  intros Hl Hs Hok H.
  destruct (encode_num_reads_back v len signed res z Hl Hs H) as [n [RQ [_ [SE NA]]]].
  exists n. split; [exact RQ|]. split; [exact SE|]. split; [exact NA|].
  destruct (div_as_floats v res Hok) as [fv [fr [Fr [Er [Ev [D|[Nz D]]]]]]];
    unfold rounded_quotient in RQ; rewrite D in RQ; cbn [bind] in RQ; [discriminate|].
  destruct (quotient_half_step fv fr n Fr Nz RQ) as [_ B]. rewrite Er, Ev in B. exact B.
Qed.

(* integer value and integer resolution: in integers. The quotient is computed in doubles, and a
   quotient just below a half-integer can round up to it and then to the even neighbour; hence
   k + 1 in general (attained, e.g., k = 2^26 + 1, v = k*k + 2^25), and k exactly when |v| < 2^52 *)
Theorem encode_int_half_step x k len signed z :
  (1 <= len)%Z -> (signed = true -> (4 <= len)%Z) ->
  (1 <= k < 2 ^ 53)%Z -> (Z.abs x < 2 ^ 53)%Z ->
  encode_num (PI x) len signed (PI k) = Ok z ->
  exists n, rounded_quotient (PI x) (PI k) = Ok n /\ sign_extend signed len z = n /\
    (2 * Z.abs (n * k - x) <= k + 1)%Z /\
    ((Z.abs x < 2 ^ 52)%Z -> (2 * Z.abs (n * k - x) <= k)%Z).
Proof.
  intros Hl Hs Hk Hx H.
  assert (Hok : enc_okb (PI x) (PI k) = true).
  { unfold enc_okb. apply andb_true_iff. split; [apply Z.ltb_lt; exact Hx|].
    apply andb_true_iff. split; [apply negb_true_iff; apply Z.eqb_neq; lia | apply Z.ltb_lt; lia]. }
  destruct (encode_half_step _ _ _ _ _ Hl Hs Hok H) as [n [RQ [SE [_ B]]]].
  exists n. split; [exact RQ|]. split; [exact SE|].
  cbn [pyR] in B. rewrite <- mult_IZR, <- minus_IZR, <- !abs_IZR in B.
  rewrite (Z.abs_eq k) in B by lia.
  set (D := Z.abs (n * k - x)) in *.
  assert (E53 : bpow radix2 (-53) * bpow radix2 53 = 1).
  { rewrite <- bpow_plus. reflexivity. }
  assert (E52 : bpow radix2 (-53) * bpow radix2 52 = / 2).
  { rewrite <- bpow_plus. reflexivity. }
  pose proof (bpow_gt_0 radix2 (-53)) as P.
  split.
  - assert (X : IZR (Z.abs x) < bpow radix2 53).
    { change (bpow radix2 53) with (IZR (2 ^ 53)). apply IZR_lt. exact Hx. }
    assert (L : IZR (2 * D) < IZR (k + 2)).
    { rewrite mult_IZR, plus_IZR. nra. }
    apply lt_IZR in L. lia.
  - intros Hx52.
    assert (X : IZR (Z.abs x) < bpow radix2 52).
    { change (bpow radix2 52) with (IZR (2 ^ 52)). apply IZR_lt. exact Hx52. }
    assert (L : IZR (2 * D) < IZR (k + 1)).
    { rewrite mult_IZR, plus_IZR. nra. }
    apply lt_IZR in L. lia.
Qed.

(* C09's reading "decoding it again gives the value back": for a float resolution and a field of at
   most 53 bits, the scaled value the decoder computes from the written raw value is within
   |r|/2 + 2^-53 |value| + 2^-53 |n*r| of the value that was encoded *)
Lemma scaled_close n r : res_ok r = true ->
  Rabs (scaledR n (PF r) - IZR n * B2R (Prim2B r)) <= bpow radix2 (-53) * Rabs (IZR n * B2R (Prim2B r)).
Proof.
  intros Hr. unfold scaledR. apply rel_err_abs.
  destruct (Z.eq_dec n 0) as [->|Hn0]; [right; ring|left].
  destruct (res_ok_sound r Hr) as [_ [Rlo _]].
  assert (H1 : 1 <= Rabs (IZR n)) by (rewrite <- abs_IZR; apply IZR_le; lia).
  assert (Hb : bpow radix2 (-1022) <= bpow radix2 (-300)) by (apply bpow_le; lia).
  pose proof (bpow_gt_0 radix2 (-300)). rewrite Rabs_mult. nra.
Qed.

Theorem encode_then_decode_close v r len signed z :
  (1 <= len <= 53)%Z -> (signed = true -> (4 <= len)%Z) ->
  enc_okb v (PF r) = true -> res_ok r = true ->
  encode_num v len signed (PF r) = Ok z ->
  exists n w, sign_extend signed len z = n /\ not_available signed len n = false /\
    py_mul_int n (PF r) = Ok (PF w) /\ is_finite (Prim2B w) = true /\
    Rabs (B2R (Prim2B w) - pyR v) <=
      Rabs (B2R (Prim2B r)) / 2 + bpow radix2 (-53) * Rabs (pyR v)
      + bpow radix2 (-53) * Rabs (IZR n * B2R (Prim2B r)).
Proof.
  intros Hl Hs Hok Hr H.
  destruct (encode_half_step v (PF r) len signed z ltac:(lia) Hs Hok H) as [n [RQ [SE [NA B]]]].
  destruct (encode_num_inv _ _ _ _ _ H) as [q [n' [Q [Rn [In _]]]]].
  unfold rounded_quotient in RQ. rewrite Q in RQ. cbn [bind] in RQ. rewrite Rn in RQ.
  inversion RQ; subst n'. clear RQ Rn Q.
  assert (Hn : (Z.abs n < 2 ^ 53)%Z).
  { rewrite !shiftl1 in In by lia.
    assert (P : (2 ^ len = 2 * 2 ^ (len - 1))%Z).
    { replace len with ((len - 1) + 1)%Z at 1 by lia. rewrite Z.pow_add_r by lia. lia. }
    assert (P1 : (0 < 2 ^ (len - 1))%Z) by (apply Z.pow_pos_nonneg; lia).
    assert (P2 : (2 ^ len <= 2 ^ 53)%Z) by (apply Z.pow_le_mono_r; lia).
    destruct signed; lia. }
  destruct (scaled_facts n r Hn Hr) as [x [Zx [Fv [Ev _]]]].
  exists n, (x * r)%float. split; [exact SE|]. split; [exact NA|].
  split; [cbn [py_mul_int]; rewrite Zx; reflexivity|]. split; [exact Fv|].
  rewrite Ev. pose proof (scaled_close n r Hr) as C. cbn [pyR] in B.
  replace (scaledR n (PF r) - pyR v)
    with ((scaledR n (PF r) - IZR n * B2R (Prim2B r)) + (IZR n * B2R (Prim2B r) - pyR v)) by ring.
  eapply Rle_trans; [apply Rabs_triang|]. lra.
Qed.
