(* Stream.v — receive side of nmea2000.ioclient (C12). Models only, no proofs.

   1. CPython 3.12 asyncio.StreamReader as a record (buffer, eof, limit) with feed_data,
      feed_eof, readexactly n, readline, read n (one non-suspending attempt each: a read that
      would suspend is RdWait and leaves the reader untouched; the coroutine retries after the
      next feed, and a retry is memoryless — see the note at [readline]).
   2. Whole-stream framing functions: frame_ebyte (13-byte blocks), split_lines (split after LF),
      line_of (bytes.decode('utf-8','ignore').strip() on ASCII input), frame_lines.
   3. The receive task, the queue and the single consumer of AsyncIOClient as a labelled
      transition system; decode is a Section variable (a state-passing function); the callback
      outcome (return / raise / suspend) is carried by the label, i.e. chosen by the environment.

   Code anchored: ioclient.py EByteNmea2000Gateway._receive_impl (378-400),
   TextNmea2000Gateway._receive_impl (473-494), _receive_loop (216-231), _process_queue (277-298). *)
From NV Require Import Base.

(* ------------------------------------------------------------------ 1. StreamReader *)
Record reader := { buf : list Z; eof : bool; lim : Z }.

Definition new_reader (limit : Z) : reader := {| buf := []; eof := false; lim := limit |}.
Definition default_limit : Z := 65536.                       (* asyncio.streams._DEFAULT_LIMIT = 2**16 *)

Definition set_buf (r : reader) (b : list Z) : reader := {| buf := b; eof := eof r; lim := lim r |}.

(* feed_data: `assert not self._eof` is checked by the callers below (apply_op / the LTS) *)
Definition feed (r : reader) (d : list Z) : reader := set_buf r (buf r ++ d).
Definition feed_eof (r : reader) : reader := {| buf := buf r; eof := true; lim := lim r |}.

Inductive rdres :=
| RdData (d : list Z)            (* the await completes with these bytes *)
| RdWait                         (* the coroutine suspends in _wait_for_data; reader unchanged *)
| RdIncomplete (partial : list Z)(* readexactly: IncompleteReadError(partial, n) *)
| RdLimit.                       (* readline: ValueError (LimitOverrunError) *)

(* readexactly(n), n >= 0 *)
Definition readexactly (n : nat) (r : reader) : rdres * reader :=
  match n with
  | O => (RdData [], r)
  | _ =>
    if (length (buf r) <? n)%nat then
      if eof r then (RdIncomplete (buf r), set_buf r []) else (RdWait, r)
    else (RdData (firstn n (buf r)), set_buf r (skipn n (buf r)))
  end.

(* read(n), n >= 0 *)
Definition read (n : nat) (r : reader) : rdres * reader :=
  match n with
  | O => (RdData [], r)
  | _ =>
    match buf r with
    | [] => if eof r then (RdData [], r) else (RdWait, r)
    | _ => (RdData (firstn n (buf r)), set_buf r (skipn n (buf r)))
    end
  end.

(* index of the first LF (bytearray.find(b'\n')) *)
Fixpoint find_lf (l : list Z) : option nat :=
  match l with
  | [] => None
  | b :: t => if b =? 10 then Some O else option_map S (find_lf t)
  end.

(* readline() = readuntil(b'\n') with the two limit branches and the EOF branch.
   readuntil keeps a scan offset across its waits; since it only ever skips bytes it has seen
   not to contain LF, and raises LimitOverrun exactly when the LF-free buffer has grown beyond
   the limit, one attempt on the current buffer decides the same outcome (memoryless). *)
Definition readline (r : reader) : rdres * reader :=
  match find_lf (buf r) with
  | Some i =>
      if lim r <? Z.of_nat i
      then (RdLimit, set_buf r (skipn (i + 1) (buf r)))      (* separator found, chunk too long: line dropped *)
      else (RdData (firstn (i + 1) (buf r)), set_buf r (skipn (i + 1) (buf r)))
  | None =>
      if lim r <? zlen (buf r) then (RdLimit, set_buf r [])   (* no separator and over the limit: buffer cleared *)
      else if eof r then (RdData (buf r), set_buf r [])       (* IncompleteReadError -> partial line (maybe empty) *)
      else (RdWait, r)
  end.

(* operation sequences, for the correspondence with the real StreamReader *)
Inductive rop := OpFeed (d : list Z) | OpEof | OpReadExactly (n : nat) | OpReadLine | OpRead (n : nat).
Inductive robs := ObOk | ObAssert | ObData (d : list Z) | ObWait | ObIncomplete (d : list Z) | ObLimit.

Definition obs_of (x : rdres) : robs :=
  match x with RdData d => ObData d | RdWait => ObWait | RdIncomplete d => ObIncomplete d | RdLimit => ObLimit end.

Definition apply_op (r : reader) (o : rop) : robs * reader :=
  match o with
  | OpFeed d => if eof r then (ObAssert, r) else (ObOk, feed r d)
  | OpEof => (ObOk, feed_eof r)
  | OpReadExactly n => let '(x, r') := readexactly n r in (obs_of x, r')
  | OpReadLine => let '(x, r') := readline r in (obs_of x, r')
  | OpRead n => let '(x, r') := read n r in (obs_of x, r')
  end.

(* ------------------------------------------------------------------ 2. whole-stream framing *)
(* 13-byte blocks; a trailing remainder shorter than 13 is not a packet (yet) *)
Fixpoint blocks_fuel (fuel n : nat) (s : list Z) : list (list Z) :=
  match fuel with
  | O => []
  | S f => if (length s <? n)%nat then [] else firstn n s :: blocks_fuel f n (skipn n s)
  end.
Definition frame_ebyte (s : list Z) : list (list Z) := blocks_fuel (length s) 13 s.

(* complete lines, each including its LF; the trailing partial line is not a line (yet) *)
Fixpoint lines_acc (cur : list Z) (s : list Z) : list (list Z) :=
  match s with
  | [] => []
  | b :: t => if b =? 10 then (cur ++ [b]) :: lines_acc [] t else lines_acc (cur ++ [b]) t
  end.
Definition split_lines (s : list Z) : list (list Z) := lines_acc [] s.

(* str.strip() on an ASCII str: Python's whitespace below 128 is 9..13, 28..31, 32 *)
Definition is_space (b : Z) : bool := ((9 <=? b) && (b <=? 13)) || ((28 <=? b) && (b <=? 32)).
Fixpoint lstrip (l : list Z) : list Z :=
  match l with [] => [] | b :: t => if is_space b then lstrip t else l end.
Definition strip (l : list Z) : list Z := rev (lstrip (rev (lstrip l))).
Definition ascii_ok (l : list Z) : bool := forallb (fun b => (0 <=? b) && (b <? 128)) l.

(* data.decode('utf-8', errors='ignore').strip(): modelled on ASCII only *)
Definition line_of (raw : list Z) : option (list Z) := if ascii_ok raw then Some (strip raw) else None.

Definition frame_lines (s : list Z) : list (list Z) := map strip (split_lines s).

(* every line (and the unterminated tail) is at most `limit` bytes before its LF *)
Fixpoint short_acc (limit n : Z) (s : list Z) : bool :=
  match s with
  | [] => n <=? limit
  | b :: t => if b =? 10 then (n <=? limit) && short_acc limit 0 t else short_acc limit (n + 1) t
  end.
Definition lines_short (limit : Z) (s : list Z) : bool := short_acc limit 0 s.

(* the gateway's "too many connections" banner: b'Sorry,Limited' *)
Definition banner : list Z := [83; 111; 114; 114; 121; 44; 76; 105; 109; 105; 116; 101; 100].
Definition is_banner (p : list Z) : bool := list_eqb Z.eqb p banner.

(* ------------------------------------------------------------------ 3. receive task + queue + consumer *)
Inductive kind := KEbyte | KText.
Inductive dres (M : Type) := DMsg (m : M) | DNone | DRaise.
Arguments DMsg {M} m. Arguments DNone {M}. Arguments DRaise {M}.

Inductive rxstat :=
| RxRun                 (* inside `while self._state != CLOSED: await self._receive_impl()` *)
| RxBannerSleep         (* EByte: saw the banner, in asyncio.sleep(30) *)
| RxFault               (* _receive_impl raised: the loop's except branch runs (DISCONNECTED, reconnect: C13) *)
| RxUnmodelled.         (* the model stops: non-ASCII line; empty read at EOF of a text client (F-eofspin, C13) *)

Inductive cpc := CIdle | CInCb.                 (* consumer: awaiting queue.get() | suspended inside the callback *)
Inductive cbout := CbReturn | CbRaise | CbSuspend.

Inductive rxlabel :=
| LFeed (c : list Z)     (* environment: the transport delivers a chunk (StreamReaderProtocol.data_received) *)
| LEof                   (* environment: end of stream *)
| LRx                    (* the receive task completes one read and runs to the end of _receive_impl *)
| LBannerWake            (* timer: the 30 s sleep is over -> raise Exception("Gateway busy") *)
| LCbStart (o : cbout)   (* consumer: queue.get() returns, callback invoked; o = what the callback does first *)
| LCbEnd (o : cbout).    (* a suspended callback is resumed and returns / raises / suspends again *)

Section Client.
Variables D M : Type.
Variable decode : D -> list Z -> D * dres M.     (* the client's decoder on one packet / one stripped line *)
Variable k : kind.

Record rxg := {
  rd : reader; dst : D; rxs : rxstat;
  raw_seen : list (list Z);      (* ghost: the byte blocks / raw lines taken from the reader, in order *)
  seen : list (list Z);          (* ghost: the arguments of the decode calls, in order *)
  q : list M;                    (* asyncio.Queue (unbounded FIFO) *)
  cons : cpc;
  delivered : list M;            (* ghost: arguments of the receive-callback invocations, in order *)
  fed : list Z                   (* ghost: all bytes fed so far *)
}.

Definition rx_init (limit : Z) (d0 : D) : rxg :=
  {| rd := new_reader limit; dst := d0; rxs := RxRun; raw_seen := []; seen := []; q := []; cons := CIdle;
     delivered := []; fed := [] |}.

Definition with_rd (g : rxg) (r : reader) : rxg :=
  {| rd := r; dst := dst g; rxs := rxs g; raw_seen := raw_seen g; seen := seen g; q := q g; cons := cons g;
     delivered := delivered g; fed := fed g |}.
Definition with_rxs (g : rxg) (s : rxstat) : rxg :=
  {| rd := rd g; dst := dst g; rxs := s; raw_seen := raw_seen g; seen := seen g; q := q g; cons := cons g;
     delivered := delivered g; fed := fed g |}.

(* decode one packet and enqueue the message if there is one (decode errors are caught and logged) *)
Definition deliver (g : rxg) (r : reader) (raw pkt : list Z) : rxg :=
  let '(d', o) := decode (dst g) pkt in
  {| rd := r; dst := d'; rxs := rxs g; raw_seen := raw_seen g ++ [raw]; seen := seen g ++ [pkt];
     q := match o with DMsg m => q g ++ [m] | _ => q g end;
     cons := cons g; delivered := delivered g; fed := fed g |}.

(* one completed _receive_impl; None = the read would suspend (LRx is not enabled) *)
Definition rx_step (g : rxg) : option rxg :=
  match rxs g with
  | RxRun =>
    match k with
    | KEbyte =>
      match readexactly 13 (rd g) with
      | (RdData p, r) => if is_banner p then Some (with_rxs (with_rd g r) RxBannerSleep) else Some (deliver g r p p)
      | (RdWait, _) => None
      | (_, r) => Some (with_rxs (with_rd g r) RxFault)              (* IncompleteReadError at EOF *)
      end
    | KText =>
      match readline (rd g) with
      | (RdData raw, r) =>
        match raw with
        | [] => Some (with_rxs (with_rd g r) RxUnmodelled)            (* empty read at EOF: C13 / F-eofspin *)
        | _ => match line_of raw with
               | Some line => Some (deliver g r raw line)
               | None => Some (with_rxs (with_rd g r) RxUnmodelled)   (* non-ASCII text *)
               end
        end
      | (RdWait, _) => None
      | (_, r) => Some (with_rxs (with_rd g r) RxFault)              (* ValueError: line over the limit *)
      end
    end
  | _ => None
  end.

Definition rx_lstep (g : rxg) (l : rxlabel) : option rxg :=
  match l with
  | LFeed c =>
      if eof (rd g) then None
      else Some {| rd := feed (rd g) c; dst := dst g; rxs := rxs g; raw_seen := raw_seen g; seen := seen g;
                   q := q g; cons := cons g; delivered := delivered g; fed := fed g ++ c |}
  | LEof => Some (with_rd g (feed_eof (rd g)))
  | LRx => rx_step g
  | LBannerWake => match rxs g with RxBannerSleep => Some (with_rxs g RxFault) | _ => None end
  | LCbStart o =>
      match cons g, q g with
      | CIdle, m :: q' =>
          Some {| rd := rd g; dst := dst g; rxs := rxs g; raw_seen := raw_seen g; seen := seen g; q := q';
                  cons := match o with CbSuspend => CInCb | _ => CIdle end;
                  delivered := delivered g ++ [m]; fed := fed g |}
      | _, _ => None
      end
  | LCbEnd o =>
      match cons g with
      | CInCb =>
          Some {| rd := rd g; dst := dst g; rxs := rxs g; raw_seen := raw_seen g; seen := seen g; q := q g;
                  cons := match o with CbSuspend => CInCb | _ => CIdle end;
                  delivered := delivered g; fed := fed g |}
      | CIdle => None
      end
  end.

Fixpoint rx_run (g : rxg) (ls : list rxlabel) : option rxg :=
  match ls with
  | [] => Some g
  | l :: t => match rx_lstep g l with Some g' => rx_run g' t | None => None end
  end.

(* the specification side: run the decoder over a packet list, keep the messages *)
Fixpoint decode_all (d : D) (ps : list (list Z)) : D * list M :=
  match ps with
  | [] => (d, [])
  | p :: t => let '(d', o) := decode d p in
              let '(d'', ms) := decode_all d' t in
              (d'', match o with DMsg m => m :: ms | _ => ms end)
  end.

Definition frame (s : list Z) : list (list Z) :=
  match k with KEbyte => frame_ebyte s | KText => frame_lines s end.
Definition raw_frame (s : list Z) : list (list Z) :=
  match k with KEbyte => frame_ebyte s | KText => split_lines s end.

(* scope guard of C12 on the whole fed stream *)
Definition stream_ok (limit : Z) (s : list Z) : bool :=
  match k with
  | KEbyte => forallb (fun p => negb (is_banner p)) (frame_ebyte s)
  | KText => ascii_ok s && lines_short limit s
  end.

(* nothing left to do without new input: the read would suspend, the queue is empty, the consumer idle *)
Definition quiescent (g : rxg) : Prop := rx_step g = None /\ q g = [] /\ cons g = CIdle.

(* the schedule "after every chunk, let the receive task run until it suspends" *)
Fixpoint rx_drain (fuel : nat) (g : rxg) : rxg :=
  match fuel with
  | O => g
  | S f => match rx_step g with Some g' => rx_drain f g' | None => g end
  end.
Definition feed_drain (g : rxg) (c : list Z) : rxg :=
  match rx_lstep g (LFeed c) with
  | Some g' => rx_drain (S (length (buf (rd g')))) g'
  | None => g
  end.
Definition feed_all (g : rxg) (chunks : list (list Z)) : rxg := fold_left feed_drain chunks g.
Definition packets_seen (g : rxg) : list (list Z) := seen g.

End Client.

Arguments rd {D M}. Arguments dst {D M}. Arguments rxs {D M}. Arguments raw_seen {D M}. Arguments seen {D M}.
Arguments q {D M}. Arguments cons {D M}. Arguments delivered {D M}. Arguments fed {D M}.
