(* CorrMessage.v — checkers used by the C15/C17/C18 correspondence cases (tools/props/c15.py, c17.py,
   c18.py).  The Section variables of Message.v (md5, str(float), round(x, n), math.degrees) are
   instantiated by finite tables that the harness recorded from the real calls; a lookup that misses
   yields a value that cannot equal the observation, so a model that asks the oracle a different
   question than the code did fails the case. *)
From NV Require Import Base Message MessageProofs.
From Coq Require Import PrimFloat.

Definition md5_tbl := list (bytes * zstr).
Definition fstr_tbl := list (float * bytes).
Definition round_tbl := list (float * Z * float).
Definition deg_tbl := list (float * float).

Definition lookup_md5 (t : md5_tbl) (k : bytes) : zstr :=
  match find (fun p => bytes_eqb (fst p) k) t with Some p => snd p | None => 0 end.
Definition lookup_fstr (t : fstr_tbl) (f : float) : bytes :=
  match find (fun p => fsame (fst p) f) t with Some p => snd p | None => [0] end.
Definition lookup_round (t : round_tbl) (x : float) (n : Z) : float :=
  match find (fun p => fsame (fst (fst p)) x && (snd (fst p) =? n)) t with Some p => snd p | None => nan end.
Definition lookup_deg (t : deg_tbl) (x : float) : float :=
  match find (fun p => fsame (fst p) x) t with Some p => snd p | None => nan end.

(* observed outcome of a call: Some value | None = an exception was raised *)
Definition res_eqb {A} (eqb : A -> A -> bool) (r : result A) (o : option A) : bool :=
  match r, o with
  | Ok a, Some b => eqb a b
  | Err _, None => true
  | _, _ => false
  end.

(* ---------------- C17 *)
(* ((build_network_map, message as returned), (md5 table, str(float) table)): add_data overwrites the
   addressing attributes and the hash, so the message before the call is the returned one with those
   attributes at their constructor defaults *)
Definition strip (m : msg) : msg :=
  mkMsg (m_pgn m) (m_id m) (m_descr m) (m_ttl m) (m_fields m) 0 0 0 1 IsoNone None RawNone.
Definition addr_of (m : msg) : addr := mkAddr (m_src m) (m_dst m) (m_prio m) (m_ts m) (m_iso m) (m_raw m).
(* (message, str(float) table, the byte string the real code handed to md5) *)
Definition chk_key (c : msg * fstr_tbl * bytes) : bool :=
  let '(m, ft, k) := c in res_eqb bytes_eqb (hash_key (lookup_fstr ft) m) (Some k).
(* decoder output conforms to the key signature its own field types give (text only for STRING_* types) *)
Definition kind_of_type (t : tyv) : kkind :=
  let n := ty_num t in if (n =? 15) || (n =? 16) || (n =? 17) then KText else KNum.
Definition msg_sig (m : msg) : list kkind := map (fun f => kind_of_type (f_type f)) (filter f_pk (m_fields m)).
Definition chk_conf (m : msg) : bool := conf_b (fun _ => msg_sig m) m && sig_ok (msg_sig m).
(* ((build_network_map, also check conformance, message as returned), tables) *)
Definition chk_hash (c : (bool * bool * msg) * (md5_tbl * fstr_tbl)) : bool :=
  let '((b, cf, m), (mt, ft)) := c in
  res_eqb msg_eqb (add_data (lookup_md5 mt) (lookup_fstr ft) (addr_of m) b (strip m)) (Some m) &&
  (if cf then chk_conf m else true).

(* ---------------- C18 *)
Definition prefs_eqb (a b : prefs) : bool := list_eqb (fun x y => (fst x =? fst y) && bytes_eqb (snd x) (snd y)) a b.
(* (preferred_units as given to the constructor, decoder.preferred_units) *)
Definition chk_prefs (c : prefs * prefs) : bool := res_eqb prefs_eqb (decoder_prefs (fst c)) (Some (snd c)).
(* ((preference map handed to apply_preferred_units, message), (round table, degrees table), message after | raised) *)
Definition chk_units (c : (prefs * msg) * (round_tbl * deg_tbl) * option msg) : bool :=
  let '((p, m), (rt, dt), obs) := c in
  res_eqb msg_eqb (apply_units (lookup_round rt) (lookup_deg dt) p m) obs.

(* ---------------- C15 *)
Definition chk_to_tree (c : msg * option jtree) : bool := res_eqb jeqb (to_tree (fst c)) (snd c).
Definition chk_of_tree (c : jtree * option msg) : bool := res_eqb msg_eqb (of_tree (fst c)) (snd c).
(* hypotheses of C15_fields / C15_reencode on real decoder output: well-formed byte strings, and (unless a
   non-finite double is present: F-nan-json) every component the library's encoders read is carried exactly *)
Definition chk_shape (m : msg) : bool :=
  msg_wf m && implb (json_ok m) (forallb (reads_exact lib_reads) (m_fields m)).
(* to_json then from_json, evaluated: (message, tree observed, parsed message observed) *)
Definition chk_json (c : msg * option (jtree * msg)) : bool :=
  let '(m, o) := c in
  match to_tree m, o with
  | Ok t, Some (ot, om) => jeqb t ot && res_eqb msg_eqb (of_tree ot) (Some om) && chk_shape m
  | Err _, None => true
  | _, _ => false
  end.
Definition chk_dump_ids (c : list bytes * list bytes) : bool :=
  res_eqb (list_eqb bytes_eqb) (split_ids (fst c)) (Some (snd c)).
(* ((config, history of (addressing, message from the per-PGN decoder)), tables, (returned messages, dump lines)) *)
Definition chk_run (c : (dcfg * list (addr * msg)) * ((md5_tbl * fstr_tbl) * (round_tbl * deg_tbl)) * (list msg * list jtree)) : bool :=
  let '((cfg, evs), ((mt, ft), (rt, dt)), (oms, ols)) := c in
  let '(ms, ls) := run (lookup_md5 mt) (lookup_fstr ft) (lookup_round rt) (lookup_deg dt) cfg evs in
  list_eqb msg_eqb ms oms && list_eqb jeqb ls ols.
