(* Base.v — conventions shared by all models (DESIGN §2). Models only, no axioms. *)
From Coq Require Export ZArith List Bool Lia.
Export ListNotations.
Open Scope Z_scope.

(* Python exceptions / deliberate model stops *)
Inductive err := ERange | EMissing | EUnsupported | EMalformed | EAssert | EIndex | EOther.
Inductive result (A : Type) := Ok (a : A) | Err (e : err) | Unmodelled.
Arguments Ok {A} a. Arguments Err {A} e. Arguments Unmodelled {A}.

Definition bind {A B} (r : result A) (f : A -> result B) : result B :=
  match r with Ok a => f a | Err e => Err e | Unmodelled => Unmodelled end.
Notation "'do' x <- r ; k" := (bind r (fun x => k)) (at level 200, x pattern, r at level 100, k at level 200).

Definition err_eqb (a b : err) : bool :=
  match a, b with
  | ERange, ERange | EMissing, EMissing | EUnsupported, EUnsupported | EMalformed, EMalformed
  | EAssert, EAssert | EIndex, EIndex | EOther, EOther => true
  | _, _ => false
  end.

Definition zlen {A} (l : list A) : Z := Z.of_nat (length l).

Definition byte_ok (b : Z) : bool := (0 <=? b) && (b <? 256).
Definition bytes_ok (l : list Z) : bool := forallb byte_ok l.

Fixpoint list_eqb {A} (eqb : A -> A -> bool) (a b : list A) : bool :=
  match a, b with
  | [], [] => true
  | x :: a', y :: b' => eqb x y && list_eqb eqb a' b'
  | _, _ => false
  end.

Definition option_eqb {A} (eqb : A -> A -> bool) (a b : option A) : bool :=
  match a, b with
  | None, None => true
  | Some x, Some y => eqb x y
  | _, _ => false
  end.

(* indices (0-based) of the cases on which a boolean check fails: the correspondence runner *)
Fixpoint failing_from {A} (chk : A -> bool) (l : list A) (i : nat) : list nat :=
  match l with
  | [] => []
  | x :: t => if chk x then failing_from chk t (S i) else i :: failing_from chk t (S i)
  end.
Definition failing {A} (chk : A -> bool) (l : list A) : list nat := failing_from chk l 0%nat.

Lemma list_eqb_eq {A} (eqb : A -> A -> bool) :
  (forall x y, eqb x y = true <-> x = y) -> forall a b, list_eqb eqb a b = true <-> a = b.
Proof.
  intros H. induction a as [|x a IH]; destruct b as [|y b]; simpl; split; intros E;
    try reflexivity; try discriminate.
  - apply andb_true_iff in E. destruct E as [E1 E2]. apply H in E1. apply IH in E2. congruence.
  - inversion E; subst. apply andb_true_iff. split; [apply H; reflexivity | apply IH; reflexivity].
Qed.

Lemma forallb_ext_in {A} (f g : A -> bool) l : (forall x, In x l -> f x = g x) -> forallb f l = forallb g l.
Proof.
  induction l as [|a l IH]; simpl; intros H; [reflexivity|].
  rewrite (H a) by (left; reflexivity). f_equal. apply IH. intros; apply H; right; assumption.
Qed.
