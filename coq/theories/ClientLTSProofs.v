(* ClientLTSProofs.v — theorems about ALL runs of the labelled transition system ClientLTS.v
   (nmea2000/ioclient.py) with the three repairs switched on ([fe = fc = fl = true]), and the refutations
   (concrete runs, by vm_compute) for the code as it was ([false]).  Used by props/C13.v and props/C14.v.

   Method: every invariant is proved for one transition by a generic case analysis on the action and on the
   guards that lie on the path of [trans] (tactic [step_cases]; all simplification is done on the GOAL side —
   simplifying a hypothesis that contains nested record updates makes the kernel's conversion check explode),
   and lifted to runs of any length by induction on the list of actions. *)
From NV Require Import Base ClientLTS.
From RecordUpdate Require Import RecordSet.
Import RecordSetNotations.

Local Arguments wait2 : simpl never.
Local Arguments ret_ok : simpl never.
Local Arguments susp_ok : simpl never.
Local Arguments raise_ok : simpl never.
Local Arguments Z.add : simpl never.
Local Arguments Z.sub : simpl never.
Local Arguments Z.max : simpl never.
Local Arguments Z.leb : simpl never.
Local Arguments Z.ltb : simpl never.
Local Arguments Z.eqb : simpl never.
Local Arguments Nat.eqb : simpl never.
Local Arguments Z.of_nat : simpl never.
Local Arguments Z.to_nat : simpl never.

(* ------------------------------------------------------------------------------------------------ *)
(** * Tactics *)

Ltac head_scrut t :=
  lazymatch t with
  | (if ?b then _ else _) => head_scrut b
  | (match ?x with _ => _ end) => head_scrut x
  | andb ?a _ => head_scrut a
  | orb ?a _ => head_scrut a
  | negb ?a => head_scrut a
  | cst_eqb ?a _ => head_scrut a
  | Bool.eqb ?a _ => head_scrut a
  | ?f ?a =>                    (* a projection applied to a match: [rx (match writer x with ... end)] *)
      lazymatch a with
      | (match ?x with _ => _ end) => head_scrut x
      | _ => t
      end
  | _ => t
  end.

Ltac unf_helpers :=
  repeat progress unfold impl_ok, fault, rx_fault, rx_iter, upd, post_status, start_rx, send_out, close_rest,
    close_cons, close2_cons, close_returned, seed_task, seed_next, seed_send, cons_after_cb, rx_loop_test, rx_done, spawn_connect, release, start_attempt, new_conn,
    close_cur_writer, is_closed, rx_alive, cons_alive.
Ltac unf := unfold trans; unf_helpers.

(* goal: [<expression made of matches> = Some y -> Q]: follow the path of the expression, one goal per path *)
(* destruct the scrutinee [s]; a projection of a chain of record updates that [cbn] left alone is reduced first *)
Ltac destruct_scrut s :=
  let v := eval cbn in s in
  tryif constr_eq s v then destruct s eqn:? else (change s with v; destruct v eqn:?).

Ltac split_goal :=
  repeat (cbn;
    lazymatch goal with
    | |- Some ?e = Some _ -> _ =>
        lazymatch e with
        | context[match ?s with _ => _ end] => let s' := head_scrut s in destruct_scrut s'
        | _ => fail
        end
    | |- None = Some _ -> _ => let H := fresh in intro H; discriminate H
    | |- ?L = Some _ -> _ => let s := head_scrut L in destruct_scrut s
    end).

Ltac bool_hyps :=
  repeat match goal with
  | H : andb _ _ = true |- _ => apply andb_prop in H; destruct H
  | H : negb _ = true |- _ => apply negb_true_iff in H
  | H : negb _ = false |- _ => apply negb_false_iff in H
  | H : (_ =? _)%nat = true |- _ => apply Nat.eqb_eq in H
  | H : (_ =? _)%nat = false |- _ => apply Nat.eqb_neq in H
  end.

(* goal: [trans k sd fe fc fl fd fg x a = Some y -> Q x y] with x a constructor application ([destruct x] first) *)
Ltac step_cases fin :=
  unf; split_goal;
  (let H := fresh in intro H; injection H as <-); subst; cbn in *; bool_hyps; fin.

(* finishing tactics *)
Ltac destr_vars :=
  repeat match goal with
  | H : context[match ?v with _ => _ end] |- _ => is_var v; destruct v; cbn in *
  | |- context[match ?v with _ => _ end] => is_var v; destruct v; cbn in *
  end.
Ltac nw_fin D nxt :=
  let D' := fresh "D'" in
  intros ? ? ?; try lia;
  match goal with
  | Hw : (_ <= ?v < _)%nat |- _ =>
      destruct (Nat.eq_dec v nxt);
      pose proof (fun h => D h v) as D'; clear D;
      match type of D' with _ -> ?P -> _ => try (assert P by lia) end
  end;
  try solve [intuition (try congruence; try lia)]; destr_vars; try solve [intuition (try congruence; try lia)].

(* ------------------------------------------------------------------------------------------------ *)
(** * Runs *)

Section Runs.
Variable k : kind.
Variable sd : bool.
Variables fe fc fl fd fg : bool.
Notation T := (trans k sd fe fc fl fd fg).
Notation R := (run k sd fe fc fl fd fg).

Lemma run_app x l1 l2 : R x (l1 ++ l2) = match R x l1 with Some y => R y l2 | None => None end.
Proof. revert x; induction l1 as [|a t IH]; intros x; simpl; [reflexivity|]. destruct (T x a); auto. Qed.

Lemma run_snoc x l a y z : R x l = Some y -> T y a = Some z -> R x (l ++ [a]) = Some z.
Proof. intros H1 H2. rewrite run_app, H1. simpl. now rewrite H2. Qed.

(* an invariant of single steps is an invariant of runs *)
Lemma run_invariant (P : g -> Prop) :
  (forall x a y, P x -> T x a = Some y -> P y) ->
  forall ls x y, P x -> R x ls = Some y -> P y.
Proof.
  intros Hs. induction ls as [|a t IH]; intros x y Hx Hr; simpl in Hr.
  - injection Hr as <-. exact Hx.
  - destruct (T x a) as [z|] eqn:E; [|discriminate]. eapply IH; [|exact Hr]. eapply Hs; eauto.
Qed.
End Runs.

Definition reachable (k : kind) (sd fe fc fl fd fg : bool) (x : g) : Prop := exists ls, run k sd fe fc fl fd fg init ls = Some x.

Lemma reachable_invariant k sd fe fc fl fd fg (P : g -> Prop) :
  P init -> (forall x a y, P x -> trans k sd fe fc fl fd fg x a = Some y -> P y) ->
  forall x, reachable k sd fe fc fl fd fg x -> P x.
Proof. intros H0 Hs x [ls Hr]. eapply run_invariant; eauto. Qed.

Lemma reachable_step k sd fe fc fl fd fg x a y :
  reachable k sd fe fc fl fd fg x -> trans k sd fe fc fl fd fg x a = Some y -> reachable k sd fe fc fl fd fg y.
Proof. intros [ls Hr] Ht. exists (ls ++ [a]). eapply run_snoc; eauto. Qed.

Lemma reachable_run k sd fe fc fl fd fg x ls y :
  reachable k sd fe fc fl fd fg x -> run k sd fe fc fl fd fg x ls = Some y -> reachable k sd fe fc fl fd fg y.
Proof. intros [l0 Hr] Ht. exists (l0 ++ ls). rewrite run_app, Hr. exact Ht. Qed.

(* ------------------------------------------------------------------------------------------------ *)
(** * C13 (c): the back-off of tenacity.wait_exponential(multiplier=0.5, max=10), in half-seconds *)

Lemma wait2_small n : 1 <= n -> n <= 5 -> wait2 n = 2 ^ (n - 1).
Proof.
  intros H1 H2. assert (n = 1 \/ n = 2 \/ n = 3 \/ n = 4 \/ n = 5) as C by lia.
  destruct C as [->|[->|[->|[->| ->]]]]; vm_compute; reflexivity.
Qed.

Lemma wait2_cap n : 6 <= n -> wait2 n = 20.
Proof.
  intros H. unfold wait2. destruct (2 ^ 1024 <=? 2 ^ (n - 1)) eqn:E; [reflexivity|].
  assert (2 ^ 5 <= 2 ^ (n - 1)) by (apply Z.pow_le_mono_r; lia).
  change (2 ^ 5) with 32 in *. lia.
Qed.

Lemma wait2_bounds n : 1 <= n -> 1 <= wait2 n <= 20.
Proof.
  intros H. destruct (Z_le_gt_dec 6 n) as [L|L].
  - rewrite wait2_cap by lia. lia.
  - assert (n = 1 \/ n = 2 \/ n = 3 \/ n = 4 \/ n = 5) as C by lia.
    destruct C as [->|[->|[->|[->| ->]]]]; vm_compute; split; discriminate.
Qed.

Lemma wait2_mono_succ n : 1 <= n -> wait2 n <= wait2 (n + 1).
Proof.
  intros H. destruct (Z_le_gt_dec 6 n) as [L|L].
  - rewrite !wait2_cap by lia. lia.
  - assert (n = 1 \/ n = 2 \/ n = 3 \/ n = 4 \/ n = 5) as C by lia.
    destruct C as [->|[->|[->|[->| ->]]]]; vm_compute; discriminate.
Qed.

Lemma wait2_mono n m : 1 <= n -> n <= m -> wait2 n <= wait2 m.
Proof.
  intros H1 H2. replace m with (n + Z.of_nat (Z.to_nat (m - n))) by lia.
  induction (Z.to_nat (m - n)) as [|j IH].
  - replace (n + Z.of_nat 0) with n by lia. lia.
  - replace (n + Z.of_nat (S j)) with ((n + Z.of_nat j) + 1) by lia.
    etransitivity; [exact IH|]. apply wait2_mono_succ. lia.
Qed.

(* doubling below the cap: 0.5 s, 1 s, 2 s, 4 s, 8 s, then 10 s for ever *)
Lemma wait2_values : map wait2 [1; 2; 3; 4; 5; 6; 7] = [1; 2; 4; 8; 16; 20; 20].
Proof. vm_compute. reflexivity. Qed.

Theorem backoff_spec : forall n, 1 <= n ->
  0 < wait2 n <= 20 /\ wait2 n <= wait2 (n + 1) /\ (n <= 5 -> wait2 n = 2 ^ (n - 1)) /\ (6 <= n -> wait2 n = 20).
Proof.
  intros n H. pose proof (wait2_bounds n H). repeat split; try lia.
  - now apply wait2_mono_succ.
  - intros; now apply wait2_small.
  - intros; now apply wait2_cap.
Qed.

Local Arguments allowed : simpl never.

(* ------------------------------------------------------------------------------------------------ *)
(** * Invariants of single transitions *)

Section Inv.
Variable k : kind.
Variable sd : bool.
Variable fd : bool.
Variable fg : bool.

Definition hold_lock_ok (x : g) : Prop := lock x = match hold x with HNone => false | _ => true end.
Definition attempt_no_ok (x : g) : Prop :=
  match hold x with HAwaitImpl n | HAwaitDrain n | HBackoff n => (1 <= n)%nat | _ => True end.
Definition closed_iff_closing (x : g) : Prop := st x = Closed <-> closing x <> KNone.
Definition I0 (x : g) : Prop := hold_lock_ok x /\ attempt_no_ok x /\ closed_iff_closing x.

Lemma I0_step fe fl x a y : I0 x -> trans k sd fe true fl fd fg x a = Some y -> I0 y.
Proof.
  unfold I0, hold_lock_ok, attempt_no_ok, closed_iff_closing. intros (A & B & C). destruct x; cbn in *. destruct a.
  all: step_cases ltac:(intuition (try congruence; try lia)).
Qed.

(* ---- C13 (a): one receive path ---- *)
Definition I1 (x : g) : Prop :=
  old_live x = 0%nat /\ (hold x = HCancelWait -> rx_alive x = false \/ rx_creq x = true).

Lemma I1_step fe fc fl x a y : I1 x -> trans k sd fe fc fl fd fg x a = Some y -> I1 y.
Proof.
  unfold I1, rx_alive. intros (A & B). destruct x; cbn in *. destruct a.
  all: step_cases ltac:(try (split; [try congruence|]); try (intuition congruence); try (destruct rx; intuition congruence)).
Qed.

(* ---- C13 (b): a reconnect is never lost ---- *)
Definition reconnect_pending (x : g) : Prop :=
  lock x = true \/ (0 < pending_connects x)%nat \/ (rx x = RInCb /\ rx_creq x = false) \/ (0 < send_cb x)%nat \/
  (0 < seed_cb x)%nat.
Definition I2 (x : g) : Prop := st x = Disc -> trace x = [] \/ reconnect_pending x.

Lemma I2_step fe x a y : I0 x -> I2 x -> trans k sd fe true true fd fg x a = Some y -> I2 y.
Proof.
  unfold I0, hold_lock_ok, attempt_no_ok, closed_iff_closing, I2, reconnect_pending.
  intros (A & B & C) D. destruct x; cbn in *. destruct a.
  all: step_cases ltac:(try (intuition (try congruence; try lia))).
Qed.


(* ---- C14 (b): the status callback is invoked exactly at the state changes ---- *)
Lemma trace_step fe fc fl x a y : trans k sd fe fc fl fd fg x a = Some y ->
  (st y = st x /\ trace y = trace x) \/ (st y <> st x /\ trace y = st y :: trace x).
Proof.
  destruct x; cbn in *. destruct a.
  all: step_cases ltac:(try (left; split; reflexivity); try (right; split; [congruence|reflexivity])).
Qed.

(* ---- C14 (a): CLOSED is absorbing, no connection attempt starts once CLOSED ---- *)
Lemma closed_step fe fl x a y : st x = Closed -> trans k sd fe true fl fd fg x a = Some y ->
  st y = Closed /\ attempts y = attempts x /\ trace y = trace x.
Proof.
  intros C. destruct x; cbn in C; subst. destruct a.
  all: step_cases ltac:(auto).
Qed.


(* ---- C14 (d): what close() leaves behind ---- *)
Definition rx_quiet (x : g) : bool := match rx x with RNone | RDone | RCreated => true | _ => false end.
Definition I5 (x : g) : Prop :=
  (closing x = KSleepCons -> cons_alive x = false \/ cons_creq x = true) /\
  (closing x = KDone -> cons_alive x = false) /\
  (closing x = KSleepRx -> rx_quiet x = true \/ rx_creq x = true) /\
  (closing x = KSleepCons \/ closing x = KDone -> rx_quiet x = true).

Lemma I5_step fe fl x a y : I0 x -> I5 x -> trans k sd fe true fl fd fg x a = Some y -> I5 y.
Proof.
  unfold I0, hold_lock_ok, attempt_no_ok, closed_iff_closing, I5, rx_quiet, cons_alive.
  intros (A & B & C) (D1 & D2 & D3 & D4). destruct x; cbn in *. destruct a.
  all: step_cases ltac:(try (intuition (try congruence))).
Qed.


(* ---- C14 (a)/(d): the link is shut ---- *)
Definition past_close_rest (x : g) : Prop := match closing x with KSleepRx | KSleepCons | KDone => True | _ => False end.
Definition awaiting_drain (x : g) : Prop := match hold x with HAwaitDrain _ => True | _ => False end.
(* the current writer, once close() is past `self.writer.close()` *)
Definition W (x : g) : Prop :=
  past_close_rest x ->
  match writer x with Some w => In w (closed_w x) \/ In w (drainfail_w x) \/ awaiting_drain x | None => True end.
(* every connection obtained after close() was called *)
Definition NW (x : g) : Prop :=
  closing x <> KNone -> forall w, (n0 x <= w < next_w x)%nat ->
  In w (closed_w x) \/ In w (drainfail_w x) \/ (writer x = Some w /\ awaiting_drain x).

Lemma W_step fe fl x a y : closed_iff_closing x -> W x -> trans k sd fe true fl fd fg x a = Some y -> W y.
Proof.
  unfold closed_iff_closing, W, past_close_rest, awaiting_drain.
  intros C D. destruct x; cbn in *. destruct a.
  all: step_cases ltac:(try solve [intuition congruence]; destr_vars; try (intuition (try congruence))).
Qed.

Lemma NW_step fe fl x a y : closed_iff_closing x -> NW x -> trans k sd fe true fl fd fg x a = Some y -> NW y.
Proof.
  unfold closed_iff_closing, NW, awaiting_drain.
  intros C D. destruct x; cbn in *. destruct a.
  all: step_cases ltac:(nw_fin D next_w).
Qed.


(* ---- C13 (d): never monopolises the loop ---- *)
(* the receive loop and the queue consumer are never both in the middle of an event-loop step *)
Definition excl (x : g) : Prop := rx x = RRun -> cons x = CRun -> False.

Lemma excl_step fe fc fl x a y : excl x -> trans k sd fe fc fl fd fg x a = Some y -> excl y.
Proof.
  unfold excl. intros D. destruct x; cbn in *. destruct a.
  all: step_cases ltac:(try solve [intuition congruence];
        match goal with H : allowed _ _ = true |- _ => unfold allowed in H; cbn in H end;
        destr_vars; try solve [intuition congruence]).
Qed.

Lemma ret_ok_decr fresh x b : ret_ok k true fresh x b = true -> (Z.to_nat b < Z.to_nat (buf x))%nat.
Proof.
  unfold ret_ok. intros H. apply andb_prop in H. destruct H as [_ H]. destruct k.
  - apply andb_prop in H. destruct H as [H1 H2]. apply Z.leb_le in H1. apply Z.eqb_eq in H2. lia.
  - cbn in H. rewrite orb_false_r in H. apply andb_prop in H. destruct H as [H1 H2].
    apply Z.leb_le in H1. apply Z.ltb_lt in H2. lia.
  - cbn in H. rewrite orb_false_r in H. apply andb_prop in H. destruct H as [H1 H2].
    apply Z.ltb_lt in H1. apply Z.eqb_eq in H2. lia.
Qed.

(* steps a task can still take without yielding *)
Definition mu (x : g) : nat :=
  match rx x with
  | RRun => S (Z.to_nat (buf x))
  | _ => match cons x with CRun => S (Z.to_nat (q x)) | _ => O end
  end.

Lemma busy_step fc fl x a y : excl x -> busy x = true -> trans k sd true fc fl fd fg x a = Some y -> (mu y < mu x)%nat.
Proof.
  unfold excl, busy, mu. intros D E. destruct x; cbn in *. destruct a.
  all: step_cases ltac:(
        match goal with H : allowed _ _ = true |- _ => unfold allowed in H; cbn in H end;
        repeat match goal with H : ret_ok _ _ _ _ _ = true |- _ => apply ret_ok_decr in H; cbn in H end;
        repeat match goal with H : (_ <? _) = true |- _ => apply Z.ltb_lt in H end;
        destr_vars; try discriminate; try lia; try (exfalso; intuition congruence)).
Qed.


(* ---- C14 (c): an exception raised by the status callback changes nothing ---- *)
Definition cb_norm (c : cbout) : cbout := match c with CbRaise => CbRet | _ => c end.
Definition act_norm (a : act) : act :=
  match a with
  | AImplOk c => AImplOk (cb_norm c)
  | ARxIter (RxRaise b c) => ARxIter (RxRaise b (cb_norm c))
  | ARxSleepDone c => ARxSleepDone (cb_norm c)
  | ASendEntry (SFault c) => ASendEntry (SFault (cb_norm c))
  | ASendDrainDone (SFault c) => ASendDrainDone (SFault (cb_norm c))
  | AClose c => AClose (cb_norm c)
  | _ => a
  end.

Lemma cb_raise_harmless fe fc fl x a : trans k sd fe fc fl fd fg x (act_norm a) = trans k sd fe fc fl fd fg x a.
Proof.
  destruct a; try reflexivity;
  repeat match goal with
         | c : cbout |- _ => destruct c
         | o : rxout |- _ => destruct o
         | o : sendout |- _ => destruct o
         end; reflexivity.
Qed.

(* the receive callback: whether it returns or raises, the successor state is the same *)
Lemma rcb_raise_harmless fe fc fl x : trans k sd fe fc fl fd fg x (AConsGot RcRaise) = trans k sd fe fc fl fd fg x (AConsGot RcRet).
Proof. reflexivity. Qed.


(* ---- C13 (b), (e): what a fault and what a successful connect do ---- *)
Definition fault_cb (a : act) : option cbout :=
  match a with
  | ARxIter (RxRaise _ c) | ARxSleepDone c | ASendEntry (SFault c) | ASendDrainDone (SFault c)
  | ASeedTimer (SFault c) _ | ASeedDrainDone (SFault c) _ => Some c
  | _ => None
  end.

Lemma fault_step fe fc fl x a y c : fault_cb a = Some c -> st x <> Closed -> trans k sd fe fc fl fd fg x a = Some y ->
  st y = Disc /\ reconnect_pending y /\
  (st x = Conn -> c <> CbNone /\ trace y = Disc :: trace x) /\
  (st x = Disc -> c = CbNone /\ trace y = trace x).
Proof.
  unfold reconnect_pending. intros F C. destruct x; cbn in *.
  destruct a; try discriminate F;
    repeat match goal with
           | o : rxout |- _ => destruct o; try discriminate F
           | o : sendout |- _ => destruct o; try discriminate F
           end.
  all: injection F as ->.
  all: step_cases ltac:(try congruence; repeat split; try congruence; try discriminate; try lia; auto 6 with arith).
Qed.

Lemma connect_fail_step fe fc fl x a y d : a = AImplFail d \/ a = AImplFailOpened d ->
  attempt_no_ok x -> hold_lock_ok x -> trans k sd fe fc fl fd fg x a = Some y ->
  exists n, (hold x = HAwaitImpl n \/ hold x = HAwaitDrain n) /\ hold y = HBackoff n /\
            d = wait2 (Z.of_nat n) /\ 1 <= d <= 20 /\ lock y = true /\ st y = st x /\ attempts y = attempts x.
Proof.
  unfold attempt_no_ok, hold_lock_ok. intros [-> | ->] A B; destruct x; cbn in *.
  all: step_cases ltac:(
    repeat match goal with H : (_ =? _) = true |- _ => apply Z.eqb_eq in H end; subst;
    eexists; repeat split; eauto; try (apply wait2_bounds; lia)).
Qed.

Lemma backoff_done_step fe fc fl x y n : hold x = HBackoff n -> st x <> Closed ->
  trans k sd fe fc fl fd fg x ABackoffDone = Some y ->
  hold y = HAwaitImpl (S n) /\ attempts y = S (attempts x) /\ lock y = true /\ st y = st x.
Proof.
  intros A C. destruct x; cbn in *. subst.
  step_cases ltac:(try congruence; auto).
Qed.

Lemma connect_ok_step fe fl x y cb : st x <> Closed -> trans k sd fe true fl fd fg x (AImplOk cb) = Some y ->
  st y = Conn /\ (st x <> Conn -> cb <> CbNone /\ trace y = Conn :: trace x) /\
  match cb with
  | CbSusp => hold y = HStatusCb
  | _ => (rx_alive x = true /\ hold y = HCancelWait /\ rx_creq y = true) \/
         (rx_alive x = false /\ rx y = RCreated /\ rx_creq y = false /\ lock y = false)
  end.
Proof.
  unfold rx_alive. intros C. destruct x; cbn in *.
  step_cases ltac:(try congruence; repeat split; try congruence; try discriminate; auto).
Qed.

(* when the connect() coroutine that owns the lock finishes: CLOSED, or a fresh receive task has been created
   and (if a fault was reported meanwhile) another connect() has been scheduled *)
Lemma lock_release_step fe fc x a y : hold_lock_ok x -> lock x = true -> trans k sd fe fc true fd fg x a = Some y -> lock y = false ->
  st y = Closed \/
  (rx y = RCreated /\ rx_creq y = false /\ (st y = Conn \/ (st y = Disc /\ (0 < pending_connects y)%nat))).
Proof.
  unfold hold_lock_ok. intros A B. destruct x; cbn in *. subst. destruct a.
  all: step_cases ltac:(try congruence; try (intros _); auto 7 with arith).
Qed.

Lemma rx_start_step fe fc fl x y : st x <> Closed -> trans k sd fe fc fl fd fg x ARxStart = Some y ->
  rx x = RCreated /\ rx y = RRun.
Proof.
  intros C. destruct x; cbn in *.
  step_cases ltac:(try congruence; auto).
Qed.


(* ---- C14 (d): after close() has returned the background tasks finish ---- *)
Definition hold_w (h : holder) : nat :=
  match h with HNone => 0 | HBackoff _ => 1 | HAwaitDrain _ => 2 | HAwaitImpl _ => 3 | HCancelWait => 18 | HStatusCb => 19 end.
Definition fin_measure (x : g) : nat :=
  2 * pending_connects x + hold_w (hold x) + (match rx x with RCreated => 1 | _ => 0 end) + old_creq x + 3 * send_cb x
  + 2 * c2_rx x + c2_cons x
  + 5 * seed_new x + 4 * seed_sleep x + 2 * seed_drain x + 3 * seed_cb x + 5 * seed_more x + seed_susp x.
(* steps of the client's own tasks (connect retry, receive loops, queue consumer, close, fault handlers);
   the others are the application (connect(), send()) and the peer *)
Definition background (a : act) : bool :=
  match a with
  | AUserConnect | ASendEntry _ | ASendDrainDone _ | AEnvFeed _ | AEnvEof | AEnvReset | AClose2Entry => false
  | _ => true
  end.

Lemma fin_step fe fl x a y : closed_iff_closing x -> I5 x -> closing x = KDone -> background a = true ->
  trans k sd fe true fl fd fg x a = Some y -> closing y = KDone /\ (fin_measure y < fin_measure x)%nat.
Proof.
  unfold closed_iff_closing, I5, rx_quiet, cons_alive, fin_measure, hold_w.
  intros C (D1 & D2 & D3 & D4) E B. destruct x; cbn in *. subst.
  assert (st = Closed) as -> by (apply C; discriminate). clear C D1 D3.
  specialize (D2 eq_refl). specialize (D4 (or_intror eq_refl)).
  destruct a; try discriminate B.
  all: step_cases ltac:(try first [ discriminate | split; [reflexivity | try lia; destr_vars; try discriminate; try lia]]).
Qed.

(* ---- F-serial-drain-leak repaired: no port is left open by a failed configuration write ---- *)
Lemma DF_step fe fc fl x a y : drainfail_w x = [] -> trans k sd fe fc fl true fg x a = Some y -> drainfail_w y = [].
Proof.
  intros D. destruct x; cbn in *. subst. destruct a.
  all: step_cases ltac:(auto).
Qed.

End Inv.

(* ------------------------------------------------------------------------------------------------ *)
(** * All runs of the repaired client ([fe = fc = fl = true]) *)

Fixpoint nodup_adj (l : list cst) : Prop :=
  match l with a :: (b :: _) as t => a <> b /\ nodup_adj t | _ => True end.

(* the status trace (newest first) on top of the initial DISCONNECTED: its head is the current state, and no
   two neighbours are equal *)
Definition trace_ok (x : g) : Prop :=
  hd Disc (trace x ++ [Disc]) = st x /\ nodup_adj (trace x ++ [Disc]).

Lemma trace_ok_step k sd fe fc fl fd fg x a y : trace_ok x -> trans k sd fe fc fl fd fg x a = Some y -> trace_ok y.
Proof.
  unfold trace_ok. intros [A B] H. destruct (trace_step k sd fd fg fe fc fl x a y H) as [[E1 E2]|[E1 E2]].
  - rewrite E1, E2. auto.
  - rewrite E2. simpl. split; [reflexivity|].
    destruct (trace x ++ [Disc]) as [|s t] eqn:E.
    + destruct (trace x); discriminate E.
    + simpl in A. split; [congruence|exact B].
Qed.

(* sequence of states visited by a run, and the changes in a sequence of states *)
Fixpoint sts (k : kind) (sd fe fc fl fd fg : bool) (x : g) (ls : list act) : list cst :=
  match ls with
  | [] => []
  | a :: t => match trans k sd fe fc fl fd fg x a with Some y => st y :: sts k sd fe fc fl fd fg y t | None => [] end
  end.
Fixpoint changes (cur : cst) (l : list cst) : list cst :=
  match l with [] => [] | s :: t => if cst_eqb cur s then changes s t else s :: changes s t end.

Lemma cst_eqb_eq a b : cst_eqb a b = true <-> a = b.
Proof. destruct a, b; simpl; split; congruence. Qed.

Lemma status_trace_run k sd fe fc fl fd fg ls : forall x y, run k sd fe fc fl fd fg x ls = Some y ->
  rev (trace y) = rev (trace x) ++ changes (st x) (sts k sd fe fc fl fd fg x ls).
Proof.
  induction ls as [|a t IH]; intros x y H; simpl in *.
  - injection H as <-. now rewrite app_nil_r.
  - destruct (trans k sd fe fc fl fd fg x a) as [z|] eqn:E; [|discriminate].
    rewrite (IH z y H). simpl.
    destruct (trace_step k sd fd fg fe fc fl x a z E) as [[E1 E2]|[E1 E2]].
    + rewrite E2. destruct (cst_eqb (st x) (st z)) eqn:Q; [reflexivity|].
      exfalso. rewrite <- E1 in Q. destruct (st z); discriminate.
    + rewrite E2. simpl. destruct (cst_eqb (st x) (st z)) eqn:Q.
      * apply cst_eqb_eq in Q. congruence.
      * now rewrite <- app_assoc.
Qed.

Section AllRuns.
Variable k : kind.
Variable sd : bool.
Notation T := (trans k sd true true true true true).
Notation R := (run k sd true true true true true).
Notation reach := (reachable k sd true true true true true).

Definition Inv (x : g) : Prop :=
  I0 x /\ I1 x /\ I2 x /\ I5 x /\ W x /\ NW x /\ excl x /\ trace_ok x.

Lemma Inv_init : Inv init.
Proof.
  unfold Inv, I0, hold_lock_ok, attempt_no_ok, closed_iff_closing, I1, I2, I5, W, NW, excl, trace_ok,
    past_close_rest, rx_alive, cons_alive, rx_quiet; simpl.
  repeat split; intros; auto; try congruence; try discriminate; try tauto; try lia.
Qed.

Lemma Inv_step x a y : Inv x -> T x a = Some y -> Inv y.
Proof.
  intros (A0 & A1 & A2 & A5 & AW & ANW & AE & AT) H.
  pose proof A0 as (_ & _ & C).
  split; [eapply I0_step; eauto|].
  split; [eapply I1_step; eauto|].
  split; [eapply I2_step; eauto|].
  split; [eapply I5_step; eauto|].
  split; [eapply W_step; eauto|].
  split; [eapply NW_step; eauto|].
  split; [eapply excl_step; eauto|].
  eapply trace_ok_step; eauto.
Qed.

Theorem Inv_reachable x : reach x -> Inv x.
Proof. apply reachable_invariant; [exact Inv_init | exact Inv_step]. Qed.

(* the same, invariant by invariant (each theorem below depends only on the transition lemmas it needs) *)
Lemma R0 x : reach x -> I0 x.
Proof. apply reachable_invariant; [apply Inv_init | intros; eapply I0_step; eauto]. Qed.
Lemma R1 x : reach x -> I1 x.
Proof. apply reachable_invariant; [apply Inv_init | intros; eapply I1_step; eauto]. Qed.
Lemma R2 x : reach x -> I0 x /\ I2 x.
Proof.
  apply (reachable_invariant k sd true true true true true (fun x => I0 x /\ I2 x)); [split; apply Inv_init|].
  intros y a z [A B] H. split; [eapply I0_step; eauto | eapply I2_step; eauto].
Qed.
Lemma R5 x : reach x -> I0 x /\ I5 x.
Proof.
  apply (reachable_invariant k sd true true true true true (fun x => I0 x /\ I5 x)); [split; apply Inv_init|].
  intros y a z [A B] H. split; [eapply I0_step; eauto | eapply I5_step; eauto].
Qed.
Lemma RW x : reach x -> I0 x /\ W x.
Proof.
  apply (reachable_invariant k sd true true true true true (fun x => I0 x /\ W x)); [split; apply Inv_init|].
  intros y a z [A B] H. split; [eapply I0_step; eauto | eapply W_step; eauto; apply A].
Qed.
Lemma RNW x : reach x -> I0 x /\ NW x.
Proof.
  apply (reachable_invariant k sd true true true true true (fun x => I0 x /\ NW x)); [split; apply Inv_init|].
  intros y a z [A B] H. split; [eapply I0_step; eauto | eapply NW_step; eauto; apply A].
Qed.
Lemma RE x : reach x -> excl x.
Proof. apply reachable_invariant; [apply Inv_init | intros; eapply excl_step; eauto]. Qed.
Lemma RT x : reach x -> trace_ok x.
Proof. apply reachable_invariant; [apply Inv_init | intros; eapply trace_ok_step; eauto]. Qed.

(* ---------------- C13 ---------------- *)

(* (a) one receive path: a receive task that has been replaced was cancelled first *)
Theorem single_receive_path x : reach x -> old_live x = 0%nat.
Proof. intros H. apply R1 in H. destruct H as [A _]. exact A. Qed.

(* ... and when connect() is about to create the new task, the old one is finished or has been cancelled *)
Theorem old_receive_task_cancelled x : reach x -> hold x = HCancelWait -> rx_alive x = false \/ rx_creq x = true.
Proof. intros H. apply R1 in H. destruct H as [_ A]. exact A. Qed.

(* (b) DISCONNECTED after at least one notification (i.e. after a fault): a connect() owns the lock (attempting,
   backing off, or finishing - it re-checks before it releases the lock), or one is scheduled, or a fault handler
   is inside the status callback and will schedule one *)
Theorem reconnect_never_lost x : reach x -> st x = Disc -> trace x <> [] -> reconnect_pending x.
Proof.
  intros H D N. apply R2 in H. destruct H as (_ & A). destruct (A D) as [E|E]; [contradiction|exact E].
Qed.

(* the lock is held exactly while a connect() coroutine is between its first and last suspension *)
Theorem lock_iff_holder x : reach x -> (lock x = true <-> hold x <> HNone).
Proof.
  intros H. apply R0 in H. destruct H as (A & _). unfold hold_lock_ok in A.
  rewrite A. destruct (hold x); split; congruence.
Qed.

Theorem fault_reported x a y c : reach x -> fault_cb a = Some c -> st x <> Closed -> T x a = Some y ->
  st y = Disc /\ reconnect_pending y /\
  (st x = Conn -> c <> CbNone /\ trace y = Disc :: trace x) /\
  (st x = Disc -> c = CbNone /\ trace y = trace x).
Proof. intros _. apply fault_step. Qed.

(* (c) a failed attempt number n is followed by a sleep of wait2 n half-seconds, 0.5 s <= . <= 10 s, and then by
   attempt n+1 - for every n (no give-up) *)
Theorem retry_delay x a y d : reach x -> a = AImplFail d \/ a = AImplFailOpened d -> T x a = Some y ->
  exists n, (1 <= n)%nat /\ (hold x = HAwaitImpl n \/ hold x = HAwaitDrain n) /\ hold y = HBackoff n /\
            d = wait2 (Z.of_nat n) /\ 1 <= d <= 20 /\ lock y = true /\ st y = st x.
Proof.
  intros H A E. apply R0 in H. destruct H as (A0 & A1 & _).
  destruct (connect_fail_step k sd _ _ _ _ _ x a y d A A1 A0 E) as (n & B1 & B2 & B3 & B4 & B5 & B6 & _).
  exists n. repeat split; auto; try lia.
  unfold attempt_no_ok in A1. destruct B1 as [B1|B1]; rewrite B1 in A1; exact A1.
Qed.

Theorem retry_continues x n : hold x = HBackoff n -> st x <> Closed -> allowed x ABackoffDone = true ->
  exists y, T x ABackoffDone = Some y /\ hold y = HAwaitImpl (S n) /\ attempts y = S (attempts x).
Proof.
  intros A C B. unfold trans. rewrite B, A. simpl. unfold is_closed.
  destruct (st x) eqn:E; try congruence; simpl; eexists; repeat split.
Qed.

(* (d) bounded bursts: a run in which every step is taken by a task in the middle of its event-loop step
   (the receive loop after a `_receive_impl` that returned without suspending, the consumer after a callback that
   did not suspend) is no longer than the buffered bytes / queued messages allow *)
Fixpoint busy_run (fe fc fl fd fg : bool) (x : g) (ls : list act) : option g :=
  match ls with
  | [] => Some x
  | a :: t => if busy x then match trans k sd fe fc fl fd fg x a with Some y => busy_run fe fc fl fd fg y t | None => None end else None
  end.

Lemma burst_bounded ls : forall x y, excl x -> busy_run true true true true true x ls = Some y -> (length ls <= mu x)%nat.
Proof.
  induction ls as [|a t IH]; intros x y E H; simpl in *; [lia|].
  destruct (busy x) eqn:B; [|discriminate]. destruct (T x a) as [z|] eqn:S; [|discriminate].
  pose proof (busy_step k sd true true true true x a z E B S). pose proof (excl_step k sd _ _ _ _ _ x a z E S) as E'.
  specialize (IH z y E' H). lia.
Qed.

Theorem never_monopolises x ls y : reach x -> busy_run true true true true true x ls = Some y ->
  (length ls <= S (Z.to_nat (Z.max (buf x) (q x))))%nat.
Proof.
  intros H B. apply RE in H.
  pose proof (burst_bounded ls x y H B) as M. unfold mu in M. destruct (rx x); try destruct (cons x); lia.
Qed.

(* (e) a successful connect in a non-CLOSED client: CONNECTED is reported; the connect() coroutine finishes by
   creating a fresh receive task (after cancelling the old one) *)
Theorem connect_succeeds x y cb : st x <> Closed -> T x (AImplOk cb) = Some y ->
  st y = Conn /\ (st x <> Conn -> cb <> CbNone /\ trace y = Conn :: trace x) /\
  match cb with
  | CbSusp => hold y = HStatusCb
  | _ => (rx_alive x = true /\ hold y = HCancelWait /\ rx_creq y = true) \/
         (rx_alive x = false /\ rx y = RCreated /\ rx_creq y = false /\ lock y = false)
  end.
Proof. apply connect_ok_step. Qed.

Theorem connect_finishes x a y : reach x -> lock x = true -> T x a = Some y -> lock y = false ->
  st y = Closed \/
  (rx y = RCreated /\ rx_creq y = false /\ old_live y = 0%nat /\
   (st y = Conn \/ (st y = Disc /\ (0 < pending_connects y)%nat))).
Proof.
  intros H L S U. pose proof (reachable_step _ _ _ _ _ _ _ _ _ _ H S) as H'. apply single_receive_path in H'.
  apply R0 in H. destruct H as (A & _).
  destruct (lock_release_step k sd _ _ _ _ x a y A L S U) as [C|(B1 & B2 & B3)]; [left; exact C|right; auto].
Qed.

Theorem fresh_receive_task_runs x y : st x <> Closed -> T x ARxStart = Some y -> rx x = RCreated /\ rx y = RRun.
Proof. apply rx_start_step. Qed.

(* ---------------- C14 ---------------- *)

(* (a) CLOSED is absorbing: no step changes the state, starts a connection attempt or invokes the status callback *)
Theorem closed_absorbing ls : forall x y, st x = Closed -> R x ls = Some y ->
  st y = Closed /\ attempts y = attempts x /\ trace y = trace x.
Proof.
  induction ls as [|a t IH]; intros x y C H; simpl in H.
  - injection H as <-. auto.
  - destruct (T x a) as [z|] eqn:S; [|discriminate].
    destruct (closed_step k sd _ _ _ _ x a z C S) as (C1 & C2 & C3).
    destruct (IH z y C1 H) as (D1 & D2 & D3). repeat split; congruence.
Qed.

Theorem closed_iff_close_called x : reach x -> (st x = Closed <-> closing x <> KNone).
Proof. intros H. apply R0 in H. destruct H as (_ & _ & A). exact A. Qed.

(* every connection that comes up after close() was called is closed at once, except a serial port whose
   configuration drain is still pending or has failed *)
Theorem link_shut_new x w : reach x -> closing x <> KNone -> (n0 x <= w < next_w x)%nat ->
  In w (closed_w x) \/ In w (drainfail_w x) \/ (writer x = Some w /\ awaiting_drain x).
Proof. intros H. apply RNW in H. destruct H as (_ & A). intros C L. exact (A C w L). Qed.

(* the current link, once close() is past `self.writer.close()` *)
Theorem link_shut_current x w : reach x -> past_close_rest x -> writer x = Some w ->
  In w (closed_w x) \/ In w (drainfail_w x) \/ awaiting_drain x.
Proof.
  intros H P E. apply RW in H. destruct H as (_ & A).
  specialize (A P). rewrite E in A. exact A.
Qed.

Lemma RDF x : reach x -> drainfail_w x = [].
Proof.
  apply (reachable_invariant k sd true true true true true (fun x => drainfail_w x = [])); [reflexivity|].
  intros y a z D H. eapply DF_step; eauto.
Qed.

(* FULL statement (needs the F-serial-drain-leak repair): once close() has returned and the connect() in flight has
   finished, EVERY connection that came up after close() was called has been closed *)
Theorem link_shut_full x w : reach x -> closing x = KDone -> hold x = HNone -> (n0 x <= w < next_w x)%nat ->
  In w (closed_w x).
Proof.
  intros H E Hh L. pose proof (RDF x H) as D.
  assert (closing x <> KNone) as N by congruence.
  destruct (link_shut_new x w H N L) as [A|[A|[_ A]]]; [exact A| |].
  - rewrite D in A. destruct A.
  - unfold awaiting_drain in A. rewrite Hh in A. destruct A.
Qed.

(* ... and the current connection is closed as soon as close() is past `self.writer.close()`, unless it is a serial
   port whose configuration drain is still pending (then it is closed when that drain returns or raises) *)
Theorem link_shut_current_full x w : reach x -> past_close_rest x -> writer x = Some w ->
  In w (closed_w x) \/ awaiting_drain x.
Proof.
  intros H P E. pose proof (RDF x H) as D. destruct (link_shut_current x w H P E) as [A|[A|A]]; auto.
  rewrite D in A. destruct A.
Qed.

(* ---- several close() calls ---- *)
(* while a further close() call is asleep: the current link is shut (or is a serial port whose configuration drain is
   pending), no receive task can read (finished, or created and not started - it exits at its first step -, or a
   cancellation is pending), and the first call has started *)
Definition K2 (x : g) : Prop :=
  (0 < c2_rx x + c2_cons x)%nat ->
  match writer x with Some w => In w (closed_w x) \/ In w (drainfail_w x) \/ awaiting_drain x | None => True end /\
  (rx_quiet x = true \/ rx_creq x = true) /\ closing x <> KNone.

Lemma K2_step x a y : closed_iff_closing x -> K2 x -> T x a = Some y -> K2 y.
Proof.
  unfold closed_iff_closing, K2, awaiting_drain, rx_quiet. intros C D. destruct x; cbn in *. destruct a.
  all: step_cases ltac:(
         let Hp := fresh "Hp" in intros Hp;
         match type of D with ?P -> _ => first [ assert P as Hq by lia; specialize (D Hq) | clear D ] end;
         try solve [intuition (try congruence; try lia)]; destr_vars;
         try solve [intuition (try congruence; try lia)]).
Qed.

Lemma RK2 x : reach x -> I0 x /\ K2 x.
Proof.
  apply (reachable_invariant k sd true true true true true (fun x => I0 x /\ K2 x)).
  - split; [apply Inv_init|]. unfold K2; simpl; lia.
  - intros y a z [A B] H. split; [eapply I0_step; eauto|]. eapply K2_step; eauto. apply A.
Qed.

(* one transition in which a close() call - the first or a later one - returns *)
Lemma close_return_step x a y : closed_iff_closing x -> I5 x -> W x -> K2 x -> T x a = Some y ->
  closes_done y = S (closes_done x) ->
  st y = Closed /\
  match writer y with Some w => In w (closed_w y) \/ In w (drainfail_w y) \/ awaiting_drain y | None => True end /\
  (rx_quiet y = true \/ rx_creq y = true).
Proof.
  unfold closed_iff_closing, I5, W, K2, past_close_rest, awaiting_drain, rx_quiet, cons_alive.
  intros C (_ & _ & D3 & D4) Dw Dk. destruct x; cbn in *. destruct a.
  all: step_cases ltac:(
         let Hp := fresh "Hp" in intros Hp; try lia;
         match type of Dk with ?P -> _ => first [ assert P as Hq by lia; specialize (Dk Hq) | clear Dk ] end;
         try solve [intuition (try congruence; try lia)]; destr_vars;
         try solve [intuition (try congruence; try lia)]).
Qed.

(* whenever ANY close() call returns: the state is CLOSED, the current link has been shut (only exception: a serial port
   that opened after close() and whose configuration drain is still pending - connect() closes it when that drain returns or
   raises, C14_link_shut_full), and no receive task can read any more *)
Theorem every_close_return_link_shut x a y : reach x -> T x a = Some y -> closes_done y = S (closes_done x) ->
  st y = Closed /\ (forall w, writer y = Some w -> In w (closed_w y) \/ awaiting_drain y) /\
  (rx_quiet y = true \/ rx_creq y = true).
Proof.
  intros H E D. pose proof (R5 x H) as ((_ & _ & C) & A5). pose proof (RW x H) as (_ & Aw). pose proof (RK2 x H) as (_ & Ak).
  destruct (close_return_step x a y C A5 Aw Ak E D) as (B1 & B2 & B3). split; [exact B1|]. split; [|exact B3].
  intros w Ew. rewrite Ew in B2. pose proof (RDF y (reachable_step _ _ _ _ _ _ _ _ _ _ H E)) as Df. rewrite Df in B2.
  destruct B2 as [B2|[B2|B2]]; auto. destruct B2.
Qed.

(* (b) the status callback: invoked exactly at the state changes, in order *)
Theorem status_trace_faithful ls y : R init ls = Some y ->
  rev (trace y) = changes Disc (sts k sd true true true true true init ls).
Proof. intros H. apply status_trace_run in H. exact H. Qed.

Theorem status_trace_no_repeat x : reach x -> hd Disc (trace x ++ [Disc]) = st x /\ nodup_adj (trace x ++ [Disc]).
Proof. intros H. apply RT in H. exact H. Qed.

Theorem status_once_per_change x a y : T x a = Some y ->
  (st y = st x /\ trace y = trace x) \/ (st y <> st x /\ trace y = st y :: trace x).
Proof. apply trace_step. Qed.

(* (c) an exception raised by the status callback (or by the receive callback) does not affect the client *)
Theorem callback_exception_harmless ls : forall x, R x (map act_norm ls) = R x ls.
Proof.
  induction ls as [|a t IH]; intros x; simpl; [reflexivity|].
  rewrite cb_raise_harmless. destruct (T x a); auto.
Qed.

(* (d) after close() has returned *)
Theorem after_close_returned x : reach x -> closing x = KDone ->
  st x = Closed /\ cons x = CDone /\ rx_quiet x = true /\
  (forall o, T x (AConsGot o) = None) /\ T x AConsCbDone = None /\
  (forall o, T x (ARxIter o) = None).
Proof.
  intros H E. apply R5 in H. destruct H as ((_ & _ & A) & (_ & B & _ & C)).
  specialize (B E). specialize (C (or_intror E)).
  assert (cons x = CDone) as F by (unfold cons_alive in B; destruct (cons x); congruence).
  repeat split; auto.
  - apply A. congruence.
  - intros o. unfold trans. destruct (negb (allowed x (AConsGot o))); [reflexivity|]. now rewrite F.
  - unfold trans. destruct (negb (allowed x AConsCbDone)); [reflexivity|]. now rewrite F.
  - intros o. unfold trans. destruct (negb (allowed x (ARxIter o))); [reflexivity|].
    unfold rx_quiet in C. destruct (rx x); congruence.
Qed.

(* ... the client's own tasks finish: at most [fin_measure x] further steps, whatever the schedule *)
Fixpoint all_background (ls : list act) : bool :=
  match ls with [] => true | a :: t => background a && all_background t end.

Theorem background_tasks_finish ls : forall x y, reach x -> closing x = KDone -> all_background ls = true ->
  R x ls = Some y -> (length ls <= fin_measure x)%nat.
Proof.
  induction ls as [|a t IH]; intros x y H E B S; simpl in *; [lia|].
  apply andb_prop in B. destruct B as [B1 B2]. destruct (T x a) as [z|] eqn:Z; [|discriminate].
  pose proof (R5 x H) as ((_ & _ & A) & A5).
  destruct (fin_step k sd _ _ _ _ x a z A A5 E B1 Z) as [E' M].
  specialize (IH z y (reachable_step _ _ _ _ _ _ _ _ _ _ H Z) E' B2 S). lia.
Qed.
End AllRuns.

(* ------------------------------------------------------------------------------------------------ *)
(** * C13 (b): the reconnect machinery is never stuck *)

Section Progress.
Variable k : kind.
Variable sd : bool.
Notation T := (trans k sd true true true true true).

Lemma not_busy_allowed x a : busy x = false -> allowed x a = true.
Proof. unfold busy, allowed. destruct (rx x), (cons x); simpl; intros; try discriminate; destruct a; reflexivity. Qed.

Definition reconnect_step (a : act) : Prop :=
  match a with
  | AConnEntry _ | AImplFail _ | ABackoffDone | AConnCbDone | ACancelWaitDone | ARxCbDone | ASendCbDone | ASeedCbDone _ => True
  | _ => False
  end.

(* the reconnect machinery is never stuck: whenever a reconnect is pending and no task is in the middle of a step,
   one of its steps is enabled (for the attempt in flight: the step "the attempt fails"; "it succeeds" is enabled too) *)
Theorem reconnect_progress x : hold_lock_ok x -> busy x = false -> reconnect_pending x ->
  exists a y, reconnect_step a /\ T x a = Some y.
Proof.
  unfold hold_lock_ok, reconnect_pending. intros A B [L|[P|[[R C]|[S|S2]]]].
  - rewrite L in A. destruct (hold x) as [|n|n|n| |] eqn:H; try discriminate A.
    + exists (AImplFail (wait2 (Z.of_nat n))). eexists. split; [exact I|].
      unfold trans. rewrite (not_busy_allowed x _ B), H. simpl. rewrite Z.eqb_refl. reflexivity.
    + exists (AImplFail (wait2 (Z.of_nat n))). eexists. split; [exact I|].
      unfold trans. rewrite (not_busy_allowed x _ B), H. simpl. rewrite Z.eqb_refl. reflexivity.
    + exists ABackoffDone. unfold trans. rewrite (not_busy_allowed x _ B), H. simpl.
      unfold is_closed. destruct (cst_eqb (st x) Closed); eexists; (split; [exact I|reflexivity]).
    + exists AConnCbDone. eexists. split; [exact I|]. unfold trans. rewrite (not_busy_allowed x _ B), H. reflexivity.
    + exists ACancelWaitDone. eexists. split; [exact I|]. unfold trans. rewrite (not_busy_allowed x _ B), H. reflexivity.
  - exists (AConnEntry (cst_eqb (st x) Disc && negb (lock x))).
    unfold trans. rewrite (not_busy_allowed x _ B).
    destruct (pending_connects x) as [|n] eqn:E; [lia|]. cbn.
    rewrite Bool.eqb_reflx. destruct (cst_eqb (st x) Disc && negb (lock x)); eexists; (split; [exact I|reflexivity]).
  - exists ARxCbDone. eexists. split; [exact I|]. unfold trans. rewrite (not_busy_allowed x _ B), R, C. reflexivity.
  - exists ASendCbDone. unfold trans. rewrite (not_busy_allowed x _ B). simpl.
    destruct (send_cb x) as [|n] eqn:E; [lia|]. eexists. split; [exact I|reflexivity].
  - exists (ASeedCbDone false). unfold trans. rewrite (not_busy_allowed x _ B). simpl.
    destruct (seed_cb x) as [|n] eqn:E; [lia|]. eexists. split; [exact I|reflexivity].
Qed.

Theorem reconnect_progress_reachable x : reachable k sd true true true true true x -> busy x = false -> reconnect_pending x ->
  exists a y, reconnect_step a /\ T x a = Some y.
Proof. intros H. apply R0 in H. destruct H as (A & _). now apply reconnect_progress. Qed.
End Progress.

(* ------------------------------------------------------------------------------------------------ *)
(** * C13: recovery is always possible (the client is never wedged) *)

Section Recovery.
Variable k : kind.
Variable sd : bool.
Notation R := (run k sd true true true true true).

(* steps of the connect machinery, plus "the attempt succeeds" *)
Definition recovery_step (a : act) : Prop :=
  match a with
  | AConnEntry _ | AImplOk _ | ABackoffDone | AConnCbDone | ACancelWaitDone | ARxCbDone | ASendCbDone | ASeedCbDone _ => True
  | _ => False
  end.
(* CONNECTED, connect() finished, a fresh receive task that nobody has cancelled *)
Definition recovered (y : g) : Prop := st y = Conn /\ lock y = false /\ rx y = RCreated /\ rx_creq y = false.

Lemma run_witness sd0 x ls (P : g -> Prop) :
  match run k sd0 true true true true true x ls with Some y => P y | None => False end ->
  exists y, run k sd0 true true true true true x ls = Some y /\ P y.
Proof. destruct (run k sd0 true true true true true x ls) as [y|]; [eauto|tauto]. Qed.

Ltac try_path l :=
  solve [ exists l; split; [ split; [ repeat constructor | simpl; lia ] |];
          apply run_witness; vm_compute; repeat split ].
Ltac find_path :=
  first [ try_path [AImplOk CbRet]
        | try_path [AImplOk CbRet; ACancelWaitDone]
        | try_path [ABackoffDone; AImplOk CbRet]
        | try_path [ABackoffDone; AImplOk CbRet; ACancelWaitDone]
        | try_path [AConnCbDone; AConnEntry true; AImplOk CbRet; ACancelWaitDone]
        | try_path [AConnCbDone; ACancelWaitDone; AConnEntry true; AImplOk CbRet; ACancelWaitDone]
        | try_path [ACancelWaitDone; AConnEntry true; AImplOk CbRet; ACancelWaitDone]
        | try_path [AConnEntry true; AImplOk CbRet]
        | try_path [AConnEntry true; AImplOk CbRet; ACancelWaitDone]
        | try_path [ARxCbDone; AConnEntry true; AImplOk CbRet]
        | try_path [ASendCbDone; AConnEntry true; AImplOk CbRet]
        | try_path [ASendCbDone; AConnEntry true; AImplOk CbRet; ACancelWaitDone]
        | try_path [ASeedCbDone false; AConnEntry true; AImplOk CbRet]
        | try_path [ASeedCbDone false; AConnEntry true; AImplOk CbRet; ACancelWaitDone] ].

Theorem recovery_possible_from x : hold_lock_ok x -> st x = Disc -> busy x = false -> reconnect_pending x ->
  exists ls, (Forall recovery_step ls /\ (length ls <= 5)%nat) /\ exists y, R x ls = Some y /\ recovered y.
Proof.
  unfold hold_lock_ok, busy, reconnect_pending, recovered. intros A D B P. destruct sd; destruct x; cbn in *; subst.
  all: destruct hold as [|n|n|n| |]; destruct rx; destruct cons; cbn in B; try discriminate B; clear B.
  all: try find_path.
  all: destruct P as [L|[Pp|[[Rr C]|[S|S2]]]]; try discriminate.
  all: try (destruct pending_connects; [lia|]; find_path).
  all: try (subst; destruct pending_connects; find_path).
  all: try (destruct send_cb; [lia|]; destruct pending_connects; find_path).
  all: try (destruct seed_cb; [lia|]; destruct pending_connects; find_path).
Qed.

Theorem recovery_possible x : reachable k sd true true true true true x -> st x = Disc -> busy x = false -> reconnect_pending x ->
  exists ls, (Forall recovery_step ls /\ (length ls <= 5)%nat) /\ exists y, R x ls = Some y /\ recovered y.
Proof. intros H. apply R0 in H. destruct H as (A & _). now apply recovery_possible_from. Qed.
End Recovery.

(* ------------------------------------------------------------------------------------------------ *)
(** * The code as it was: the three defects as runs of the model with the repair switched off *)

(* F-eofspin: after end of stream `readline()` returns b'' at once; the receive loop calls it again without ever
   suspending: an unbounded burst *)
Definition spin_prefix : list act :=
  [AUserConnect; AConnEntry true; AImplOk CbRet; AConsStart; ARxStart; ARxIter RxSusp; AEnvEof; ARxIter (RxRet 0 0)].

Lemma spin_forever k sd fe fc fl fd fg s a : busy s = true -> trans k sd fe fc fl fd fg s a = Some s ->
  forall n, busy_run k sd fe fc fl fd fg s (repeat a n) = Some s.
Proof. intros B S. induction n as [|n IH]; simpl; [reflexivity|]. now rewrite B, S. Qed.

Example eofspin_as_it_was : exists s,
  run KText false false true true true true init spin_prefix = Some s /\ busy s = true /\ st s = Conn /\
  forall n, busy_run KText false false true true true true s (repeat (ARxIter (RxRet 0 0)) n) = Some s.
Proof.
  eexists. split; [vm_compute; reflexivity|]. split; [reflexivity|]. split; [reflexivity|].
  apply spin_forever; vm_compute; reflexivity.
Qed.

(* the same prefix is a run of the repaired model up to the last step, which is refused: an empty read raises *)
Example eofspin_repaired :
  run KText false true true true true true init spin_prefix = None /\
  exists s, run KText false true true true true true init (removelast spin_prefix ++ [ARxIter (RxRaise 0 CbRet)]) = Some s /\
            st s = Disc /\ pending_connects s = 1%nat /\ rx s = RDone.
Proof. split; [vm_compute; reflexivity|]. eexists. vm_compute. repeat split. Qed.

(* F-closerace: close() while `open_connection` is pending, then the connection comes up *)
Definition closerace : list act :=
  [AConsStart; AUserConnect; AConnEntry true; AClose CbRet; AConsCancelled; ACloseTimer; AImplOk CbRet].

Example closerace_as_it_was : exists x,
  run KEByte false true false true true true init closerace = Some x /\
  st x = Conn /\ trace x = [Conn; Closed] /\ closing x = KDone /\ writer x = Some 0%nat /\ closed_w x = [] /\ rx x = RCreated.
Proof. eexists. vm_compute. repeat split. Qed.

Example closerace_repaired : exists x,
  run KEByte false true true true true true init (removelast closerace ++ [AImplOk CbNone]) = Some x /\
  st x = Closed /\ trace x = [Closed] /\ writer x = Some 0%nat /\ closed_w x = [0%nat] /\ rx x = RNone /\ lock x = false.
Proof. eexists. vm_compute. repeat split. Qed.

(* F-connect-lost: a fault is reported while connect() is still inside the status callback of CONNECTED; the
   handler's connect() finds the lock taken and returns; the first connect() releases the lock without looking *)
Definition connect_lost : list act :=
  [AConsStart; AUserConnect; AConnEntry true; AImplOk CbSusp;      (* link up; the CONNECTED status callback is slow *)
   ASendEntry (SFault CbRet);                                       (* send(): write error -> DISCONNECTED, create_task(connect()) *)
   AConnEntry false;                                                (* that connect(): "connect is already running" *)
   AConnCbDone; ARxStart; ARxIter RxSusp].                          (* the first connect() finishes and releases the lock *)

Example connect_lost_as_it_was : exists x,
  run KEByte false true true false true true init connect_lost = Some x /\
  st x = Disc /\ lock x = false /\ pending_connects x = 0%nat /\ send_cb x = 0%nat /\ rx x = RWait /\ trace x = [Disc; Conn].
Proof. eexists. vm_compute. repeat split. Qed.

Example connect_lost_repaired : exists x,
  run KEByte false true true true true true init connect_lost = Some x /\ st x = Disc /\ pending_connects x = 1%nat.
Proof. eexists. vm_compute. repeat split. Qed.

(* F-serial-drain-leak: close() while open_serial_connection() is pending; the port opens, the configuration drain raises *)
Definition drainleak : list act :=
  [AConsStart; AUserConnect; AConnEntry true; AClose CbRet; AConsCancelled; ACloseTimer; AImplOpened; AImplFail 1; ABackoffDone].

Example drainleak_as_it_was : exists x,
  run KSerial false true true true false true init drainleak = Some x /\
  st x = Closed /\ closing x = KDone /\ hold x = HNone /\ n0 x = 0%nat /\ next_w x = 1%nat /\ writer x = Some 0%nat /\ closed_w x = [].
Proof. eexists. vm_compute. repeat split. Qed.

Example drainleak_repaired : exists x,
  run KSerial false true true true true true init drainleak = Some x /\
  st x = Closed /\ closing x = KDone /\ hold x = HNone /\ writer x = Some 0%nat /\ closed_w x = [0%nat] /\ drainfail_w x = [].
Proof. eexists. vm_compute. repeat split. Qed.

(* An idempotence guard `if self._state == State.CLOSED: return` at the top of close() ([fg = false]) would break that: a second
   close() issued while the first is still inside its CLOSED status callback returns at once, with the link open and the
   receive task running *)
Definition close_twice : list act :=
  [AConsStart; AUserConnect; AConnEntry true; AImplOk CbRet; ARxStart; ARxIter RxSusp; AClose CbSusp; AClose2Entry].

Example close_guard_as_it_would_be : exists x,
  run KEByte false true true true true false init close_twice = Some x /\
  closes_done x = 1%nat /\ st x = Closed /\ closing x = KInCb /\ writer x = Some 0%nat /\ closed_w x = [] /\
  rx x = RWait /\ rx_creq x = false.
Proof. eexists. vm_compute. repeat split. Qed.

Example close_twice_as_it_is : exists x,
  run KEByte false true true true true true init (close_twice ++ [ARxCancelled; AEnvEof; AClose2Timer true; AConsCancelled; AClose2Timer false]) = Some x /\
  closes_done x = 1%nat /\ st x = Closed /\ closing x = KInCb /\ writer x = Some 0%nat /\ closed_w x = [0%nat] /\
  rx x = RDone /\ cons x = CDone.
Proof. eexists. vm_compute. repeat split. Qed.

(* The seeding task ([sd = true]): started by the successful connect(), interrupted by close() between its first and its
   second request; it still runs to its end - the remaining sleeps end, the remaining sends (one of them suspending in the
   send lock / drain) return on the CLOSED client - and nothing of it is left *)
Definition seeding_then_close : list act :=
  [AConsStart; AUserConnect; AConnEntry true; AImplOk CbRet; ARxStart; ARxIter RxSusp; ASeedStart; ASeedTimer SReturn true;
   AClose CbRet; ARxCancelled; ACloseTimer; AConsCancelled; ACloseTimer;
   ASeedTimer SDrainSusp false; ASeedDrainDone SReturn true; ASeedTimer SReturn false].

Example seeding_task_finishes_after_close : exists x,
  run KEByte true true true true true true init seeding_then_close = Some x /\
  st x = Closed /\ closing x = KDone /\ attempts x = 1%nat /\ trace x = [Closed; Conn] /\
  (seed_new x + seed_sleep x + seed_drain x + seed_cb x = 0)%nat /\ seed_more x = 0%nat.
Proof. eexists. vm_compute. repeat split. Qed.

Example no_seeding_task_without_the_parameter :
  run KEByte false true true true true true init [AConsStart; AUserConnect; AConnEntry true; AImplOk CbRet; ASeedStart] = None.
Proof. vm_compute. reflexivity. Qed.
