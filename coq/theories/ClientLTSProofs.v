(* ClientLTSProofs.v — theorems about ALL runs of the labelled transition system ClientLTS.v
   (nmea2000/ioclient.py) with the three repairs switched on ([fe = fc = fl = true]), and the refutations
   (concrete runs, by vm_compute) for the code as it was ([false]).  Used by props/C13.v and props/C14.v.

   Method: every invariant is proved for one transition by a generic case analysis on the action and on the
   guards that lie on the path of [trans] (tactic [step_cases]; all simplification is done on the GOAL side —
   simplifying a hypothesis that contains nested record updates makes the kernel's conversion check explode),
   and lifted to runs of any length by induction on the list of actions. *)
From NV Require Import Base ClientLTS.
From RecordUpdate Require Import RecordSet.
Import RecordSetNotations.

Local Arguments wait2 : simpl never.
Local Arguments ret_ok : simpl never.
Local Arguments susp_ok : simpl never.
Local Arguments raise_ok : simpl never.
Local Arguments Z.add : simpl never.
Local Arguments Z.sub : simpl never.
Local Arguments Z.max : simpl never.
Local Arguments Z.leb : simpl never.
Local Arguments Z.ltb : simpl never.
Local Arguments Z.eqb : simpl never.
Local Arguments Nat.eqb : simpl never.
Local Arguments Z.of_nat : simpl never.
Local Arguments Z.to_nat : simpl never.

(* ------------------------------------------------------------------------------------------------ *)
(** * Tactics *)

Ltac head_scrut t :=
  lazymatch t with
  | (if ?b then _ else _) => head_scrut b
  | (match ?x with _ => _ end) => head_scrut x
  | andb ?a _ => head_scrut a
  | orb ?a _ => head_scrut a
  | negb ?a => head_scrut a
  | cst_eqb ?a _ => head_scrut a
  | Bool.eqb ?a _ => head_scrut a
  | ?f ?a =>                    (* a projection applied to a match: [rx (match writer x with ... end)] *)
      lazymatch a with
      | (match ?x with _ => _ end) => head_scrut x
      | _ => t
      end
  | _ => t
  end.

Ltac unf_helpers :=
  repeat progress unfold impl_ok, fault, rx_fault, rx_iter, upd, post_status, start_rx, send_out, close_rest,
    close_cons, cons_after_cb, rx_loop_test, rx_done, spawn_connect, release, start_attempt, new_conn,
    close_cur_writer, is_closed, rx_alive, cons_alive.
Ltac unf := unfold trans; unf_helpers.

(* goal: [<expression made of matches> = Some y -> Q]: follow the path of the expression, one goal per path *)
(* destruct the scrutinee [s]; a projection of a chain of record updates that [cbn] left alone is reduced first *)
Ltac destruct_scrut s :=
  let v := eval cbn in s in
  tryif constr_eq s v then destruct s eqn:? else (change s with v; destruct v eqn:?).

Ltac split_goal :=
  repeat (cbn;
    lazymatch goal with
    | |- Some ?e = Some _ -> _ =>
        lazymatch e with
        | context[match ?s with _ => _ end] => let s' := head_scrut s in destruct_scrut s'
        | _ => fail
        end
    | |- None = Some _ -> _ => let H := fresh in intro H; discriminate H
    | |- ?L = Some _ -> _ => let s := head_scrut L in destruct_scrut s
    end).

Ltac bool_hyps :=
  repeat match goal with
  | H : andb _ _ = true |- _ => apply andb_prop in H; destruct H
  | H : negb _ = true |- _ => apply negb_true_iff in H
  | H : negb _ = false |- _ => apply negb_false_iff in H
  | H : (_ =? _)%nat = true |- _ => apply Nat.eqb_eq in H
  | H : (_ =? _)%nat = false |- _ => apply Nat.eqb_neq in H
  end.

(* goal: [trans k fe fc fl x a = Some y -> Q x y] with x a constructor application ([destruct x] first) *)
Ltac step_cases fin :=
  unf; split_goal;
  (let H := fresh in intro H; injection H as <-); subst; cbn in *; bool_hyps; fin.

(* finishing tactics *)
Ltac destr_vars :=
  repeat match goal with
  | H : context[match ?v with _ => _ end] |- _ => is_var v; destruct v; cbn in *
  | |- context[match ?v with _ => _ end] => is_var v; destruct v; cbn in *
  end.
Ltac nw_fin D nxt :=
  let D' := fresh "D'" in
  intros ? ? ?; try lia;
  match goal with
  | Hw : (_ <= ?v < _)%nat |- _ =>
      destruct (Nat.eq_dec v nxt);
      pose proof (fun h => D h v) as D'; clear D;
      match type of D' with _ -> ?P -> _ => try (assert P by lia) end
  end;
  try solve [intuition (try congruence; try lia)]; destr_vars; try solve [intuition (try congruence; try lia)].

(* ------------------------------------------------------------------------------------------------ *)
(** * Runs *)

Section Runs.
Variable k : kind.
Variables fe fc fl : bool.
Notation T := (trans k fe fc fl).
Notation R := (run k fe fc fl).

Lemma run_app x l1 l2 : R x (l1 ++ l2) = match R x l1 with Some y => R y l2 | None => None end.
Proof. revert x; induction l1 as [|a t IH]; intros x; simpl; [reflexivity|]. destruct (T x a); auto. Qed.

Lemma run_snoc x l a y z : R x l = Some y -> T y a = Some z -> R x (l ++ [a]) = Some z.
Proof. intros H1 H2. rewrite run_app, H1. simpl. now rewrite H2. Qed.

(* an invariant of single steps is an invariant of runs *)
Lemma run_invariant (P : g -> Prop) :
  (forall x a y, P x -> T x a = Some y -> P y) ->
  forall ls x y, P x -> R x ls = Some y -> P y.
Proof.
  intros Hs. induction ls as [|a t IH]; intros x y Hx Hr; simpl in Hr.
  - injection Hr as <-. exact Hx.
  - destruct (T x a) as [z|] eqn:E; [|discriminate]. eapply IH; [|exact Hr]. eapply Hs; eauto.
Qed.
End Runs.

Definition reachable (k : kind) (fe fc fl : bool) (x : g) : Prop := exists ls, run k fe fc fl init ls = Some x.

Lemma reachable_invariant k fe fc fl (P : g -> Prop) :
  P init -> (forall x a y, P x -> trans k fe fc fl x a = Some y -> P y) ->
  forall x, reachable k fe fc fl x -> P x.
Proof. intros H0 Hs x [ls Hr]. eapply run_invariant; eauto. Qed.

Lemma reachable_step k fe fc fl x a y :
  reachable k fe fc fl x -> trans k fe fc fl x a = Some y -> reachable k fe fc fl y.
Proof. intros [ls Hr] Ht. exists (ls ++ [a]). eapply run_snoc; eauto. Qed.

Lemma reachable_run k fe fc fl x ls y :
  reachable k fe fc fl x -> run k fe fc fl x ls = Some y -> reachable k fe fc fl y.
Proof. intros [l0 Hr] Ht. exists (l0 ++ ls). rewrite run_app, Hr. exact Ht. Qed.

(* ------------------------------------------------------------------------------------------------ *)
(** * C13 (c): the back-off of tenacity.wait_exponential(multiplier=0.5, max=10), in half-seconds *)

Lemma wait2_small n : 1 <= n -> n <= 5 -> wait2 n = 2 ^ (n - 1).
Proof.
  intros H1 H2. assert (n = 1 \/ n = 2 \/ n = 3 \/ n = 4 \/ n = 5) as C by lia.
  destruct C as [->|[->|[->|[->| ->]]]]; vm_compute; reflexivity.
Qed.

Lemma wait2_cap n : 6 <= n -> wait2 n = 20.
Proof.
  intros H. unfold wait2. destruct (2 ^ 1024 <=? 2 ^ (n - 1)) eqn:E; [reflexivity|].
  assert (2 ^ 5 <= 2 ^ (n - 1)) by (apply Z.pow_le_mono_r; lia).
  change (2 ^ 5) with 32 in *. lia.
Qed.

Lemma wait2_bounds n : 1 <= n -> 1 <= wait2 n <= 20.
Proof.
  intros H. destruct (Z_le_gt_dec 6 n) as [L|L].
  - rewrite wait2_cap by lia. lia.
  - assert (n = 1 \/ n = 2 \/ n = 3 \/ n = 4 \/ n = 5) as C by lia.
    destruct C as [->|[->|[->|[->| ->]]]]; vm_compute; split; discriminate.
Qed.

Lemma wait2_mono_succ n : 1 <= n -> wait2 n <= wait2 (n + 1).
Proof.
  intros H. destruct (Z_le_gt_dec 6 n) as [L|L].
  - rewrite !wait2_cap by lia. lia.
  - assert (n = 1 \/ n = 2 \/ n = 3 \/ n = 4 \/ n = 5) as C by lia.
    destruct C as [->|[->|[->|[->| ->]]]]; vm_compute; discriminate.
Qed.

Lemma wait2_mono n m : 1 <= n -> n <= m -> wait2 n <= wait2 m.
Proof.
  intros H1 H2. replace m with (n + Z.of_nat (Z.to_nat (m - n))) by lia.
  induction (Z.to_nat (m - n)) as [|j IH].
  - replace (n + Z.of_nat 0) with n by lia. lia.
  - replace (n + Z.of_nat (S j)) with ((n + Z.of_nat j) + 1) by lia.
    etransitivity; [exact IH|]. apply wait2_mono_succ. lia.
Qed.

(* doubling below the cap: 0.5 s, 1 s, 2 s, 4 s, 8 s, then 10 s for ever *)
Lemma wait2_values : map wait2 [1; 2; 3; 4; 5; 6; 7] = [1; 2; 4; 8; 16; 20; 20].
Proof. vm_compute. reflexivity. Qed.

Theorem backoff_spec : forall n, 1 <= n ->
  0 < wait2 n <= 20 /\ wait2 n <= wait2 (n + 1) /\ (n <= 5 -> wait2 n = 2 ^ (n - 1)) /\ (6 <= n -> wait2 n = 20).
Proof.
  intros n H. pose proof (wait2_bounds n H). repeat split; try lia.
  - now apply wait2_mono_succ.
  - intros; now apply wait2_small.
  - intros; now apply wait2_cap.
Qed.

Local Arguments allowed : simpl never.

(* ------------------------------------------------------------------------------------------------ *)
(** * Invariants of single transitions *)

Section Inv.
Variable k : kind.

Definition hold_lock_ok (x : g) : Prop := lock x = match hold x with HNone => false | _ => true end.
Definition attempt_no_ok (x : g) : Prop :=
  match hold x with HAwaitImpl n | HAwaitDrain n | HBackoff n => (1 <= n)%nat | _ => True end.
Definition closed_iff_closing (x : g) : Prop := st x = Closed <-> closing x <> KNone.
Definition I0 (x : g) : Prop := hold_lock_ok x /\ attempt_no_ok x /\ closed_iff_closing x.

Lemma I0_step fe fl x a y : I0 x -> trans k fe true fl x a = Some y -> I0 y.
Proof.
  unfold I0, hold_lock_ok, attempt_no_ok, closed_iff_closing. intros (A & B & C). destruct x; cbn in *. destruct a.
  all: step_cases ltac:(intuition (try congruence; try lia)).
Qed.

(* ---- C13 (a): one receive path ---- *)
Definition I1 (x : g) : Prop :=
  old_live x = 0%nat /\ (hold x = HCancelWait -> rx_alive x = false \/ rx_creq x = true).

Lemma I1_step fe fc fl x a y : I1 x -> trans k fe fc fl x a = Some y -> I1 y.
Proof.
  unfold I1, rx_alive. intros (A & B). destruct x; cbn in *. destruct a.
  all: step_cases ltac:(try (split; [try congruence|]); try (intuition congruence); try (destruct rx; intuition congruence)).
Qed.

(* ---- C13 (b): a reconnect is never lost ---- *)
Definition reconnect_pending (x : g) : Prop :=
  lock x = true \/ (0 < pending_connects x)%nat \/ (rx x = RInCb /\ rx_creq x = false) \/ (0 < send_cb x)%nat.
Definition I2 (x : g) : Prop := st x = Disc -> trace x = [] \/ reconnect_pending x.

Lemma I2_step fe x a y : I0 x -> I2 x -> trans k fe true true x a = Some y -> I2 y.
Proof.
  unfold I0, hold_lock_ok, attempt_no_ok, closed_iff_closing, I2, reconnect_pending.
  intros (A & B & C) D. destruct x; cbn in *. destruct a.
  all: step_cases ltac:(try (intuition (try congruence; try lia))).
Qed.


(* ---- C14 (b): the status callback is invoked exactly at the state changes ---- *)
Lemma trace_step fe fc fl x a y : trans k fe fc fl x a = Some y ->
  (st y = st x /\ trace y = trace x) \/ (st y <> st x /\ trace y = st y :: trace x).
Proof.
  destruct x; cbn in *. destruct a.
  all: step_cases ltac:(try (left; split; reflexivity); try (right; split; [congruence|reflexivity])).
Qed.

(* ---- C14 (a): CLOSED is absorbing, no connection attempt starts once CLOSED ---- *)
Lemma closed_step fe fl x a y : st x = Closed -> trans k fe true fl x a = Some y ->
  st y = Closed /\ attempts y = attempts x /\ trace y = trace x.
Proof.
  intros C. destruct x; cbn in C; subst. destruct a.
  all: step_cases ltac:(auto).
Qed.


(* ---- C14 (d): what close() leaves behind ---- *)
Definition rx_quiet (x : g) : bool := match rx x with RNone | RDone | RCreated => true | _ => false end.
Definition I5 (x : g) : Prop :=
  (closing x = KSleepCons -> cons_alive x = false \/ cons_creq x = true) /\
  (closing x = KDone -> cons_alive x = false) /\
  (closing x = KSleepRx -> rx_quiet x = true \/ rx_creq x = true) /\
  (closing x = KSleepCons \/ closing x = KDone -> rx_quiet x = true).

Lemma I5_step fe fl x a y : I0 x -> I5 x -> trans k fe true fl x a = Some y -> I5 y.
Proof.
  unfold I0, hold_lock_ok, attempt_no_ok, closed_iff_closing, I5, rx_quiet, cons_alive.
  intros (A & B & C) (D1 & D2 & D3 & D4). destruct x; cbn in *. destruct a.
  all: step_cases ltac:(try (intuition (try congruence))).
Qed.


(* ---- C14 (a)/(d): the link is shut ---- *)
Definition past_close_rest (x : g) : Prop := match closing x with KSleepRx | KSleepCons | KDone => True | _ => False end.
Definition awaiting_drain (x : g) : Prop := match hold x with HAwaitDrain _ => True | _ => False end.
(* the current writer, once close() is past `self.writer.close()` *)
Definition W (x : g) : Prop :=
  past_close_rest x ->
  match writer x with Some w => In w (closed_w x) \/ In w (drainfail_w x) \/ awaiting_drain x | None => True end.
(* every connection obtained after close() was called *)
Definition NW (x : g) : Prop :=
  closing x <> KNone -> forall w, (n0 x <= w < next_w x)%nat ->
  In w (closed_w x) \/ In w (drainfail_w x) \/ (writer x = Some w /\ awaiting_drain x).

Lemma W_step fe fl x a y : closed_iff_closing x -> W x -> trans k fe true fl x a = Some y -> W y.
Proof.
  unfold closed_iff_closing, W, past_close_rest, awaiting_drain.
  intros C D. destruct x; cbn in *. destruct a.
  all: step_cases ltac:(try solve [intuition congruence]; destr_vars; try (intuition (try congruence))).
Qed.

Lemma NW_step fe fl x a y : closed_iff_closing x -> NW x -> trans k fe true fl x a = Some y -> NW y.
Proof.
  unfold closed_iff_closing, NW, awaiting_drain.
  intros C D. destruct x; cbn in *. destruct a.
  all: step_cases ltac:(nw_fin D next_w).
Qed.


(* ---- C13 (d): never monopolises the loop ---- *)
(* the receive loop and the queue consumer are never both in the middle of an event-loop step *)
Definition excl (x : g) : Prop := rx x = RRun -> cons x = CRun -> False.

Lemma excl_step fe fc fl x a y : excl x -> trans k fe fc fl x a = Some y -> excl y.
Proof.
  unfold excl. intros D. destruct x; cbn in *. destruct a.
  all: step_cases ltac:(try solve [intuition congruence];
        match goal with H : allowed _ _ = true |- _ => unfold allowed in H; cbn in H end;
        destr_vars; try solve [intuition congruence]).
Qed.

Lemma ret_ok_decr fresh x b : ret_ok k true fresh x b = true -> (Z.to_nat b < Z.to_nat (buf x))%nat.
Proof.
  unfold ret_ok. intros H. apply andb_prop in H. destruct H as [_ H]. destruct k.
  - apply andb_prop in H. destruct H as [H1 H2]. apply Z.leb_le in H1. apply Z.eqb_eq in H2. lia.
  - cbn in H. rewrite orb_false_r in H. apply andb_prop in H. destruct H as [H1 H2].
    apply Z.leb_le in H1. apply Z.ltb_lt in H2. lia.
  - cbn in H. rewrite orb_false_r in H. apply andb_prop in H. destruct H as [H1 H2].
    apply Z.ltb_lt in H1. apply Z.eqb_eq in H2. lia.
Qed.

(* steps a task can still take without yielding *)
Definition mu (x : g) : nat :=
  match rx x with
  | RRun => S (Z.to_nat (buf x))
  | _ => match cons x with CRun => S (Z.to_nat (q x)) | _ => O end
  end.

Lemma busy_step fc fl x a y : excl x -> busy x = true -> trans k true fc fl x a = Some y -> (mu y < mu x)%nat.
Proof.
  unfold excl, busy, mu. intros D E. destruct x; cbn in *. destruct a.
  all: step_cases ltac:(
        match goal with H : allowed _ _ = true |- _ => unfold allowed in H; cbn in H end;
        repeat match goal with H : ret_ok _ _ _ _ _ = true |- _ => apply ret_ok_decr in H; cbn in H end;
        repeat match goal with H : (_ <? _) = true |- _ => apply Z.ltb_lt in H end;
        destr_vars; try discriminate; try lia; try (exfalso; intuition congruence)).
Qed.


(* ---- C14 (c): an exception raised by the status callback changes nothing ---- *)
Definition cb_norm (c : cbout) : cbout := match c with CbRaise => CbRet | _ => c end.
Definition act_norm (a : act) : act :=
  match a with
  | AImplOk c => AImplOk (cb_norm c)
  | ARxIter (RxRaise b c) => ARxIter (RxRaise b (cb_norm c))
  | ARxSleepDone c => ARxSleepDone (cb_norm c)
  | ASendEntry (SFault c) => ASendEntry (SFault (cb_norm c))
  | ASendDrainDone (SFault c) => ASendDrainDone (SFault (cb_norm c))
  | AClose c => AClose (cb_norm c)
  | _ => a
  end.

Lemma cb_raise_harmless fe fc fl x a : trans k fe fc fl x (act_norm a) = trans k fe fc fl x a.
Proof.
  destruct a as [| | | c | | | | | | | o | c | | | | | | | | o | o | | c | | | | |]; try reflexivity.
  - destruct c; reflexivity.
  - destruct o as [| | |b c]; try reflexivity. destruct c; try reflexivity.
  - destruct c; reflexivity.
  - destruct o as [| |c]; try reflexivity. destruct c; reflexivity.
  - destruct o as [| |c]; try reflexivity. destruct c; reflexivity.
  - destruct c; reflexivity.
Qed.

(* the receive callback: whether it returns or raises, the successor state is the same *)
Lemma rcb_raise_harmless fe fc fl x : trans k fe fc fl x (AConsGot RcRaise) = trans k fe fc fl x (AConsGot RcRet).
Proof. reflexivity. Qed.


(* ---- C13 (b), (e): what a fault and what a successful connect do ---- *)
Definition fault_cb (a : act) : option cbout :=
  match a with
  | ARxIter (RxRaise _ c) | ARxSleepDone c | ASendEntry (SFault c) | ASendDrainDone (SFault c) => Some c
  | _ => None
  end.

Lemma fault_step fe fc fl x a y c : fault_cb a = Some c -> st x <> Closed -> trans k fe fc fl x a = Some y ->
  st y = Disc /\ reconnect_pending y /\
  (st x = Conn -> c <> CbNone /\ trace y = Disc :: trace x) /\
  (st x = Disc -> c = CbNone /\ trace y = trace x).
Proof.
  unfold reconnect_pending. intros F C. destruct x; cbn in *.
  destruct a as [| | | | | | | | | | o | c' | | | | | | | | o | o | | | | | | |]; try discriminate F.
  1: destruct o; try discriminate F. 3: destruct o; try discriminate F. 4: destruct o; try discriminate F.
  all: injection F as ->.
  all: step_cases ltac:(try congruence; repeat split; try congruence; try discriminate; try lia; auto 6 with arith).
Qed.

Lemma connect_fail_step fe fc fl x a y d : a = AImplFail d \/ a = AImplFailOpened d ->
  attempt_no_ok x -> hold_lock_ok x -> trans k fe fc fl x a = Some y ->
  exists n, (hold x = HAwaitImpl n \/ hold x = HAwaitDrain n) /\ hold y = HBackoff n /\
            d = wait2 (Z.of_nat n) /\ 1 <= d <= 20 /\ lock y = true /\ st y = st x /\ attempts y = attempts x.
Proof.
  unfold attempt_no_ok, hold_lock_ok. intros [-> | ->] A B; destruct x; cbn in *.
  all: step_cases ltac:(
    repeat match goal with H : (_ =? _) = true |- _ => apply Z.eqb_eq in H end; subst;
    eexists; repeat split; eauto; try (apply wait2_bounds; lia)).
Qed.

Lemma backoff_done_step fe fc fl x y n : hold x = HBackoff n -> st x <> Closed ->
  trans k fe fc fl x ABackoffDone = Some y ->
  hold y = HAwaitImpl (S n) /\ attempts y = S (attempts x) /\ lock y = true /\ st y = st x.
Proof.
  intros A C. destruct x; cbn in *. subst.
  time step_cases ltac:(try congruence; auto).
Qed.

Lemma connect_ok_step fe fl x y cb : st x <> Closed -> trans k fe true fl x (AImplOk cb) = Some y ->
  st y = Conn /\ (st x <> Conn -> cb <> CbNone /\ trace y = Conn :: trace x) /\
  match cb with
  | CbSusp => hold y = HStatusCb
  | _ => (rx_alive x = true /\ hold y = HCancelWait /\ rx_creq y = true) \/
         (rx_alive x = false /\ rx y = RCreated /\ rx_creq y = false /\ lock y = false)
  end.
Proof.
  unfold rx_alive. intros C. destruct x; cbn in *.
  time step_cases ltac:(try congruence; repeat split; try congruence; try discriminate; auto).
Qed.

(* when the connect() coroutine that owns the lock finishes: CLOSED, or a fresh receive task has been created
   and (if a fault was reported meanwhile) another connect() has been scheduled *)
Lemma lock_release_step fe fc x a y : hold_lock_ok x -> lock x = true -> trans k fe fc true x a = Some y -> lock y = false ->
  st y = Closed \/
  (rx y = RCreated /\ rx_creq y = false /\ (st y = Conn \/ (st y = Disc /\ (0 < pending_connects y)%nat))).
Proof.
  unfold hold_lock_ok. intros A B. destruct x; cbn in *. subst. destruct a.
  all: step_cases ltac:(try congruence; try (intros _); auto 7 with arith).
Qed.

Lemma rx_start_step fe fc fl x y : st x <> Closed -> trans k fe fc fl x ARxStart = Some y ->
  rx x = RCreated /\ rx y = RRun.
Proof.
  intros C. destruct x; cbn in *.
  time step_cases ltac:(try congruence; auto).
Qed.


(* ---- C14 (d): after close() has returned the background tasks finish ---- *)
Definition hold_w (h : holder) : nat :=
  match h with HNone => 0 | HBackoff _ => 1 | HAwaitDrain _ => 2 | HAwaitImpl _ => 3 | HCancelWait => 3 | HStatusCb => 4 end.
Definition fin_measure (x : g) : nat :=
  2 * pending_connects x + hold_w (hold x) + (match rx x with RCreated => 1 | _ => 0 end) + old_creq x + 3 * send_cb x.
(* steps of the client's own tasks (connect retry, receive loops, queue consumer, close, fault handlers);
   the others are the application (connect(), send()) and the peer *)
Definition background (a : act) : bool :=
  match a with
  | AUserConnect | ASendEntry _ | ASendDrainDone _ | AEnvFeed _ | AEnvEof | AEnvReset => false
  | _ => true
  end.

Lemma fin_step fe fl x a y : closed_iff_closing x -> I5 x -> closing x = KDone -> background a = true ->
  trans k fe true fl x a = Some y -> closing y = KDone /\ (fin_measure y < fin_measure x)%nat.
Proof.
  unfold closed_iff_closing, I5, rx_quiet, cons_alive, fin_measure, hold_w.
  intros C (D1 & D2 & D3 & D4) E B. destruct x; cbn in *. subst.
  assert (st = Closed) as -> by (apply C; discriminate). clear C D1 D3.
  specialize (D2 eq_refl). specialize (D4 (or_intror eq_refl)).
  destruct a; try discriminate B.
  all: step_cases ltac:(try first [ discriminate | split; [reflexivity | try lia; destr_vars; try discriminate; try lia]]).
Qed.

End Inv.
