(* TemplateEnc.v — what python.PGNs.j2 (lines 216-256, after the DATE/TIME/DURATION repair) is meant to
   produce for the encoder of a database definition. *)
From NV Require Import Base Defn Dispatch Template.

Definition ekind_of (f : dbfield) (len : Z) : option (option ekind) :=
  (* None: cannot render;  Some None: "Encoding '<type>' not supported";  Some (Some k): kind k *)
  if is_t f T_NUMBER || is_t f T_PGN then
    match f_res f with Some r => Some (Some (ENumber len (f_signed f) r)) | None => None end
  else if is_t f T_RESERVED then Some (Some EReserved)
  else if is_t f T_FLOAT then Some (Some EFloat)
  else if is_t f T_LOOKUP then
    match f_lookup f with Some t => Some (Some (ELookup t)) | None => None end
  else if is_t f T_DATE then
    match f_res f with Some r => Some (Some (EDate len (f_signed f) r)) | None => None end
  else if is_t f T_TIME || is_t f T_DURATION then
    match f_res f with Some r => Some (Some (ETime len (f_signed f) r)) | None => None end
  else Some None.

Fixpoint esteps_of (fs : list dbfield) : option (list estep) :=
  match fs with
  | [] => Some []
  | f :: t =>
      match f_bitlen f, f_bitoff f with
      | Some len, Some off =>
          match ekind_of f len with
          | None => None
          | Some None => Some [ERaiseAfter (field_id f)]
          | Some (Some k) =>
              match esteps_of t with
              | Some r => Some (EField (field_id f) k (2 ^ len - 1) off :: r)
              | None => None
              end
          end
      | _, _ => Some [ERaise]
      end
  end.
Definition edef_of_db (d : dbdef) : option edef :=
  match esteps_of (d_fields d) with Some s => Some (mkE s (d_length d)) | None => None end.

Definition ekind_eqb (a b : ekind) : bool :=
  match a, b with
  | ENumber l1 s1 r1, ENumber l2 s2 r2 => (l1 =? l2) && Bool.eqb s1 s2 && num_eqb r1 r2
  | EReserved, EReserved | EFloat, EFloat => true
  | ELookup t1, ELookup t2 => t1 =? t2
  | EDate l1 s1 r1, EDate l2 s2 r2 => (l1 =? l2) && Bool.eqb s1 s2 && num_eqb r1 r2
  | ETime l1 s1 r1, ETime l2 s2 r2 => (l1 =? l2) && Bool.eqb s1 s2 && num_eqb r1 r2
  | _, _ => false
  end.
Definition estep_eqb (a b : estep) : bool :=
  match a, b with
  | EField i1 k1 m1 s1, EField i2 k2 m2 s2 => (i1 =? i2) && ekind_eqb k1 k2 && (m1 =? m2) && (s1 =? s2)
  | ERaise, ERaise => true
  | ERaiseAfter i1, ERaiseAfter i2 => i1 =? i2
  | _, _ => false
  end.
Definition edef_eqb (a b : edef) : bool :=
  list_eqb estep_eqb (e_steps a) (e_steps b) && oz_eqb (e_length a) (e_length b).

(* a definition is encodable when the template renders no raise *)
Definition encodable (d : dbdef) : bool :=
  match esteps_of (d_fields d) with
  | Some s => forallb (fun st => match st with EField _ _ _ _ => true | _ => false end) s
  | None => false
  end.

Section Tables.
  Variable code_enc : list (fname * edef).
  Definition edef_ok (g : list dbdef) (d : dbdef) : bool :=
    match find_fname (fname_of g d) code_enc, edef_of_db d with
    | Some ce, Some te => edef_eqb ce te
    | _, _ => false
    end.
  Definition group_edefs_ok (g : list dbdef) : bool := forallb (edef_ok g) (bound_defs g).
End Tables.
