(* CorrSerial.v — checkers used by the C20 correspondence cases (tools/props/c20.py). *)
From NV Require Import Base Serial.

Definition bytes_eqb : list Z -> list Z -> bool := list_eqb Z.eqb.

Fixpoint forallb2 {A B} (f : A -> B -> bool) (a : list A) (b : list B) : bool :=
  match a, b with
  | [], [] => true
  | x :: a', y :: b' => f x y && forallb2 f a' b'
  | _, _ => false
  end.

(* one observed call of decode_usb from inside _receive_impl: (the bytes it was given, did it reach _decode) *)
Definition chk_pkt (m : list Z) (o : list Z * bool) : bool :=
  bytes_eqb m (fst o) && Bool.eqb (usb_valid m) (snd o).

(* one observed call of _receive_impl: (decode_usb calls in order, pending bytes afterwards) *)
Definition obs := (list (list Z * bool) * Z)%type.

Fixpoint chk_steps (step : list Z -> list Z -> list Z * list packet)
                   (st : list Z) (chunks : list (list Z)) (os : list obs) : bool :=
  match chunks, os with
  | [], [] => true
  | c :: cs, (pk, pend) :: os' =>
    let '(st', ps) := step st c in
    forallb2 chk_pkt ps pk && (zlen st' =? pend) && chk_steps step st' cs os'
  | _, _ => false
  end.

(* byte strings of the sessions are written packed (length, little-endian integer): hexadecimal numerals parse
   much faster than lists of small numerals *)
Fixpoint unpack_go (k : nat) (z : Z) : list Z :=
  match k with O => [] | S k' => Z.land z 255 :: unpack_go k' (Z.shiftr z 8) end.
Definition unpack (p : Z * Z) : list Z := unpack_go (Z.to_nat (fst p)) (snd p).
Definition pobs := (list ((Z * Z) * bool) * Z)%type.
Definition unpack_obs (o : pobs) : obs := (map (fun x => (unpack (fst x), snd x)) (fst o), snd o).

(* a session: the reads, and what was observed at each; the client starts with an empty buffer *)
Definition chk_session (c : list (Z * Z) * list pobs) : bool :=
  chk_steps serial_step [] (map unpack (fst c)) (map unpack_obs (snd c)).
(* one client over several connections (it is connected again between them): every connection starts from an empty
   buffer, whatever the previous one left behind — a half packet buffered when the link broke never reaches the next link *)
Definition chk_reconnect (c : list (list (Z * Z) * list pobs)) : bool := forallb chk_session c.
(* the same against the loop of the pinned tree (diagnosis only: "the code is the unrepaired loop") *)
Definition chk_session0 (c : list (Z * Z) * list pobs) : bool :=
  chk_steps serial_step0 [] (map unpack (fst c)) (map unpack_obs (snd c)).

(* decode_usb called directly: 0 = raised before _decode, 1 = returned None before _decode, 2 = reached _decode *)
Definition gate_code (g : gate) : Z := match g with GRaise => 0 | GReject => 1 | GAccept => 2 end.
Definition chk_gate (c : list Z * Z) : bool := gate_code (decode_usb_gate (fst c)) =? snd c.
(* calculate_canbus_checksum *)
Definition chk_checksum (c : list Z * Z) : bool := checksum (fst c) =? snd c.

(* the search's oracle (tools/props/c20.py:_required) demands exactly what the theorem C20_stream states:
   (construction as [(is_packet, packed bytes)], the oracle's list of packets that must be cut out) *)
Definition mk_seg (x : bool * (Z * Z)) : seg := if fst x then Pkt (unpack (snd x)) else Gap (unpack (snd x)).
Definition chk_must (c : list (bool * (Z * Z)) * list (Z * Z)) : bool :=
  list_eqb bytes_eqb (must_cut (Sync []) (map mk_seg (fst c))) (map unpack (snd c)).
