(* Fields.v — models of the utils.py field decoders (utils.py:87-147, 203-271, 315-358),
   message.py:int_to_bytes, and the interpreter of the decoder step language of Defn.v
   (what a generated decode_pgn_* function does, statement by statement). *)
From NV Require Import Base Bits Defn PyNum.
From Coq Require Import PrimFloat.

(* ---------------- values ---------------- *)
Inductive value :=
| VNone
| VInt (z : Z)
| VFloat (f : float)
| VText (b : list Z)          (* a str, as its UTF-8 bytes *)
| VBytes (b : list Z)
| VDate (days : Z)            (* datetime.date, as days since 1970-01-01 *)
| VTime (secs : Z).           (* datetime.time, as seconds since midnight *)

Record field := mkField {
  fl_id : str; fl_name : str; fl_descr : option str; fl_unit : option str;
  fl_val : value; fl_raw : value; fl_pq : option str; fl_type : str; fl_pk : bool }.
Record msg := mkMsg { m_pgn : Z; m_id : str; m_descr : str; m_ttl : option Z; m_fields : list field }.

Definition value_of_pynum (n : pynum) : value := match n with PI z => VInt z | PF f => VFloat f end.
Definition pynum_of_num (n : num) : pynum := match n with NI z => PI z | NF b => PF (float_of_bits b) end.

(* a Z-encoded string (0x01 ++ utf8, big endian) back to its bytes *)
Fixpoint bytes_of_str_fuel (fuel : nat) (s : Z) (acc : list Z) : list Z :=
  match fuel with
  | O => acc
  | S f => if s <=? 1 then acc else bytes_of_str_fuel f (s / 256) (s mod 256 :: acc)
  end.
Definition bytes_of_str (s : str) : list Z := bytes_of_str_fuel (S (Z.to_nat (Z.log2 s / 8))) s [].

(* ---------------- utils.decode_number ---------------- *)
Definition sign_extend (signed : bool) (len n : Z) : Z :=
  if signed && negb (Z.land n (Z.shiftl 1 (len - 1)) =? 0) then n - Z.shiftl 1 len else n.
Definition not_available (signed : bool) (len n : Z) : bool :=
  if len <=? 3 then n =? Z.shiftl 1 len - 1
  else n =? (if signed then Z.shiftl 1 (len - 1) - 1 else Z.shiftl 1 len - 1).

Definition rel_tol : float := 0x1.19799812dea11p-40.     (* the double 1e-12 *)
Definition py_sub_tol (a : pynum) (t : option float) : result pynum :=
  match t, a with
  | None, _ => Ok a                                  (* tolerance is the int 0 *)
  | Some t, PF x => Ok (PF (x - t)%float)
  | Some t, PI x => do fx <- Z2float x; Ok (PF (fx - t)%float)
  end.
Definition py_add_tol (a : pynum) (t : option float) : result pynum :=
  match t, a with
  | None, _ => Ok a
  | Some t, PF x => Ok (PF (x + t)%float)
  | Some t, PI x => do fx <- Z2float x; Ok (PF (fx + t)%float)
  end.

(* the range check of decode_number (after the F-range-boundary repair: a float value within
   1e-12 relative of a bound is not rejected) *)
Definition range_check (v mn mx : pynum) : result pynum :=
  let tol := match v with PF f => Some (rel_tol * abs f)%float | PI _ => None end in
  do lo <- py_sub_tol mn tol;
  if py_lt v lo then Err ERange else
  do hi <- py_add_tol mx tol;
  if py_gt v hi then Err ERange else Ok v.

Definition number_of_raw (n len : Z) (signed : bool) (res mn mx : pynum) : result value :=
  if not_available signed len n then Ok VNone
  else do v <- py_mul_int n res;
       do v' <- range_check v mn mx;
       Ok (value_of_pynum v').
Definition decode_number (p off len : Z) (signed : bool) (res mn mx : pynum) : result value :=
  number_of_raw (sign_extend signed len (decode_int p off len)) len signed res mn mx.

(* ---------------- utils.decode_float ---------------- *)
Definition float_of_fbits (n : Z) (mn mx : pynum) : result value :=
  if negb ((0 <=? n) && (n <=? 4294967295)) then Ok (VInt 0)
  else let f := float_of_bits32 n in
       if py_lt (PF f) mn then Err ERange
       else if py_gt (PF f) mx then Err ERange
       else Ok (VFloat f).
Definition decode_float (p off len : Z) (mn mx : pynum) : result value :=
  float_of_fbits (decode_int p off len) mn mx.

(* ---------------- utils.decode_time / decode_date ---------------- *)
Definition pynum_of_value (v : value) : option pynum :=
  match v with VInt z => Some (PI z) | VFloat f => Some (PF f) | _ => None end.
Definition decode_time (raw : value) : result value :=
  match raw with
  | VNone => Ok VNone
  | _ => match pynum_of_value raw with
         | Some n => do s <- py_int n;
                     Ok (VTime (if (0 <=? s) && (s <? 86400) then s else 0))
         | None => Err EOther
         end
  end.
Definition decode_date (raw : value) : result value :=
  match raw with
  | VNone => Ok VNone
  | _ => match pynum_of_value raw with
         | Some n => do d <- py_int n;
                     (* date(1970,1,1) + timedelta(days=d): OverflowError outside 0001-01-01..9999-12-31 *)
                     if (-719162 <=? d) && (d <=? 2932896) then Ok (VDate d) else Err EOther
         | None => Err EOther
         end
  end.

(* ---------------- text ---------------- *)
(* bytes.decode('utf-8', errors='ignore') on the bytes this model covers: ASCII bytes are kept,
   bytes that can never start or continue a valid sequence on their own (0x80..0xC1, 0xF5..0xFF) are
   dropped one at a time; a possible multi-byte lead (0xC2..0xF4) stops the model. *)
Fixpoint utf8_ignore (b : list Z) : result (list Z) :=
  match b with
  | [] => Ok []
  | x :: t =>
      if x <? 128 then do r <- utf8_ignore t; Ok (x :: r)
      else if (x <? 194) || (244 <? x) then utf8_ignore t
      else Unmodelled
  end.
(* bytes.decode('utf-16', errors='ignore') as the UTF-8 bytes of the resulting str, on the bytes this
   model covers: a leading byte-order mark (FF FE = little endian, FE FF = big endian) is consumed and
   selects the byte order, otherwise little endian (the native order of the platforms the library runs
   on); every 16-bit unit outside the surrogate range D800..DFFF is one character of the basic plane
   (a later FEFF is an ordinary character); a trailing odd byte is dropped ('ignore'); a surrogate unit
   stops the model. *)
Definition utf8_of_unit (u : Z) : list Z :=
  if u <? 128 then [u]
  else if u <? 2048 then [192 + u / 64; 128 + u mod 64]
  else [224 + u / 4096; 128 + (u / 64) mod 64; 128 + u mod 64].
Fixpoint utf16_units (big : bool) (b : list Z) : result (list Z) :=
  match b with
  | b0 :: b1 :: t =>
      let u := if big then b0 * 256 + b1 else b1 * 256 + b0 in
      if (55296 <=? u) && (u <? 57344) then Unmodelled
      else do r <- utf16_units big t; Ok (utf8_of_unit u ++ r)
  | _ => Ok []
  end.
Definition utf16_ignore (b : list Z) : result (list Z) :=
  match b with
  | b0 :: b1 :: t =>
      if (b0 =? 255) && (b1 =? 254) then utf16_units false t
      else if (b0 =? 254) && (b1 =? 255) then utf16_units true t
      else utf16_units false b
  | _ => Ok []
  end.

Fixpoint cut_at (c : Z) (l : list Z) : list Z :=
  match l with [] => [] | x :: t => if x =? c then [] else x :: cut_at c t end.
(* str.strip() on ASCII text: \t \n \v \f \r, 0x1c..0x1f and space *)
Definition is_ws (c : Z) : bool := ((9 <=? c) && (c <=? 13)) || ((28 <=? c) && (c <=? 32)).
Fixpoint lstrip (l : list Z) : list Z :=
  match l with [] => [] | x :: t => if is_ws x then lstrip t else l end.
Definition strip (l : list Z) : list Z := rev (lstrip (rev (lstrip l))).

(* int.to_bytes(n, 'little') *)
Fixpoint le_bytes (n : nat) (x : Z) : list Z :=
  match n with O => [] | S k => (x mod 256) :: le_bytes k (x / 256) end.
Definition bit_length (x : Z) : Z := if x =? 0 then 0 else Z.log2 x + 1.

Definition strfix_of_bits (n len : Z) : result value :=
  let nb := Z.to_nat ((len + 7) / 8) in
  do t <- utf8_ignore (le_bytes nb n);
  Ok (VText (strip (cut_at 64 (cut_at 0 t)))).      (* split at \x00, (\xff cannot occur), '@'; strip *)
Definition decode_string_fix (p off len : Z) : result value := strfix_of_bits (decode_int p off len) len.

Definition decode_string_lz (p off : Z) : result value :=
  let x := Z.shiftr p off in
  let bytes := le_bytes (Z.to_nat ((bit_length x + 7) / 8)) x in
  match bytes with
  | [] => Ok (VText [])                   (* after the F-lz-empty repair: an empty trailing string *)
  | n :: rest => do t <- utf8_ignore (firstn (Z.to_nat n) rest); Ok (VText t)
  end.

(* the text of a STRING_LAU body under its encoding byte: 0 = UTF-16, anything else = UTF-8 *)
Definition lau_text (asc : Z) (body : list Z) : result (list Z) :=
  if asc =? 0 then utf16_ignore body else utf8_ignore body.

(* returns (text or None, bits_to_skip) *)
Definition decode_string_lau (p off : Z) : result (value * Z) :=
  let x := Z.shiftr p off in
  let bytes := le_bytes (S (Z.to_nat ((bit_length x + 7) / 8))) x in
  match bytes with
  | n :: asc :: rest =>
      do t <- lau_text asc (firstn (Z.to_nat (n - 2)) rest); Ok (VText t, n * 8)
  | _ => Ok (VNone, zlen bytes)            (* len(byte_arr) < 2: (None, len(byte_arr)) *)
  end.

(* message.int_to_bytes: (bit_length + 8) // 8 or 1 bytes, big endian *)
Definition int_to_bytes (x : Z) : list Z :=
  let n := (bit_length x + 8) / 8 in
  rev (le_bytes (Z.to_nat (if n =? 0 then 1 else n)) x).

(* ---------------- lookups ---------------- *)
Definition lookups := list (str * list (Z * str)).
Definition ilookups := list (str * list ((Z * Z) * str)).
Definition find_tbl {A} (t : str) (l : list (str * A)) : option A :=
  match find (fun e => fst e =? t) l with Some e => Some (snd e) | None => None end.
Definition get_z (k : Z) (t : list (Z * str)) : option str :=
  match find (fun e => fst e =? k) t with Some e => Some (snd e) | None => None end.
Definition get_zz (k : Z * Z) (t : list ((Z * Z) * str)) : option str :=
  match find (fun e => (fst (fst e) =? fst k) && (snd (fst e) =? snd k)) t with
  | Some e => Some (snd e) | None => None end.

(* utils.decode_bit_lookup: names of the set bits, in bit order, joined by ", " *)
Fixpoint bit_names (fuel : nat) (x bit : Z) (t : list (Z * str)) : list (list Z) :=
  match fuel with
  | O => []
  | S f => if x =? 0 then [] else
           let rest := bit_names f (x / 2) (bit + 1) t in
           if Z.odd x then match get_z bit t with Some s => bytes_of_str s :: rest | None => rest end
           else rest
  end.
Fixpoint join_comma (l : list (list Z)) : list Z :=
  match l with [] => [] | [a] => a | a :: t => a ++ [44; 32] ++ join_comma t end.
Definition decode_bit_lookup (x : Z) (t : list (Z * str)) : value :=
  VText (join_comma (bit_names (S (Z.to_nat (bit_length x))) x 0 t)).

(* ---------------- the interpreter ---------------- *)
Record ist := mkIst { i_off : Z; i_val : value; i_raw : value; i_skip : Z; i_acc : list field }.

Section Run.
  Variable L : lookups.        (* master_dict *)
  Variable LB : lookups.       (* master_flags_dict *)
  Variable LI : ilookups.      (* master_indirect_lookup_dict *)
  Variable p : Z.              (* _data_raw_ *)

  Definition set_regs (s : ist) (both : bool) (v : value) : ist :=
    mkIst (i_off s) (if both then v else i_val s) v (i_skip s) (i_acc s).
  Definition set_val (s : ist) (v : value) : ist := mkIst (i_off s) v (i_raw s) (i_skip s) (i_acc s).
  Definition set_off (s : ist) (o : Z) : ist := mkIst o (i_val s) (i_raw s) (i_skip s) (i_acc s).

  Fixpoint patch_val (k : nat) (v : value) (l : list field) : list field :=
    match l, k with
    | [], _ => []
    | f :: t, O => mkField (fl_id f) (fl_name f) (fl_descr f) (fl_unit f) v (fl_raw f) (fl_pq f) (fl_type f) (fl_pk f) :: t
    | f :: t, S k' => f :: patch_val k' v t
    end.

  Definition step (s : ist) (st : dstep) : result ist :=
    match st with
    | SSetOff n => Ok (set_off s n)
    | SAddOff n => Ok (set_off s (i_off s + n))
    | SAddSkip => Ok (set_off s (i_off s + i_skip s))
    | SNumber both len signed res mn mx =>
        do v <- decode_number p (i_off s) len signed (pynum_of_num res) (pynum_of_num mn) (pynum_of_num mx);
        Ok (set_regs s both v)
    | SInt both len => Ok (set_regs s both (VInt (decode_int p (i_off s) len)))
    | SLookup tbl =>
        match find_tbl tbl L, i_raw s with
        | Some t, VInt k => Ok (set_val s (match get_z k t with Some nm => VText (bytes_of_str nm) | None => VNone end))
        | _, _ => Err EOther
        end
    | SBitLookup tbl =>
        match find_tbl tbl LB, i_raw s with
        | Some t, VInt k => Ok (set_val s (decode_bit_lookup k t))
        | _, _ => Err EOther
        end
    | STime => do v <- decode_time (i_raw s); Ok (set_val s v)
    | SDate => do v <- decode_date (i_raw s); Ok (set_val s v)
    | SFloat len mn mx =>
        do v <- decode_float p (i_off s) len (pynum_of_num mn) (pynum_of_num mx); Ok (set_regs s true v)
    | SStrFix len => do v <- decode_string_fix p (i_off s) len; Ok (set_regs s true v)
    | SStrLz => do v <- decode_string_lz p (i_off s); Ok (set_regs s true v)
    | SStrLau =>
        do r <- decode_string_lau p (i_off s);
        Ok (mkIst (i_off s) (i_val s) (fst r) (snd r) (i_acc s))
    | SCopyRaw => Ok (set_val s (i_raw s))
    | SBinary len => Ok (set_regs s true (VBytes (int_to_bytes (decode_int p (i_off s) len))))
    | SAssertIsInt k =>
        match nth_error (i_acc s) k with
        | Some f => match fl_val f with VInt _ => Ok s | _ => Err EAssert end
        | None => Err EOther
        end
    | SBinaryVar k =>
        match nth_error (i_acc s) k with
        | Some f => match fl_val f with
                    | VInt n => if n <? 0 then Err EOther
                                else Ok (set_regs s true (VBytes (int_to_bytes (decode_int p (i_off s) n))))
                    | _ => Err EOther
                    end
        | None => Err EOther
        end
    | STempVal => Ok (set_val s (VText [84; 69; 77; 80; 95; 86; 65; 76]))     (* 'TEMP_VAL' *)
    | SIndirect tbl rawfld patchfld =>
        match find_tbl tbl LI, i_raw s, nth_error (i_acc s) rawfld with
        | Some t, VInt a, Some f =>
            match fl_raw f with
            | VInt b =>
                let v := match get_zz (a, b) t with Some nm => VText (bytes_of_str nm) | None => VNone end in
                Ok (mkIst (i_off s) (i_val s) (i_raw s) (i_skip s) (patch_val patchfld v (i_acc s)))
            | _ => Unmodelled
            end
        | _, _, _ => Err EOther
        end
    | SRaise => Err EUnsupported
    | SAppend id name descr unit pq ftype pk =>
        Ok (mkIst (i_off s) (i_val s) (i_raw s) (i_skip s)
                  (i_acc s ++ [mkField id name descr unit (i_val s) (i_raw s) pq ftype pk]))
    end.

  Fixpoint run_steps (s : ist) (l : list dstep) : result ist :=
    match l with
    | [] => Ok s
    | st :: t => do s' <- step s st; run_steps s' t
    end.

  Definition run_ddef (d : ddef) : result msg :=
    do s <- run_steps (mkIst 0 VNone VNone 0 []) (c_steps d);
    Ok (mkMsg (c_pgn d) (c_id d) (c_descr d) (c_ttl d) (i_acc s)).
End Run.
