(* SpecProofs.v — C01: running the template's steps as the generated code runs them equals the
   declarative specification, for every database record of fixed layout and every payload. *)
From NV Require Import Base Bits Defn PyNum Fields Dispatch DispatchProofs Template Spec.

Lemma bind_ok {A B} (a : A) (f : A -> result B) : bind (Ok a) f = f a.
Proof. reflexivity. Qed.
Lemma bind_assoc {A B C} (r : result A) (f : A -> result B) (g : B -> result C) :
  bind (bind r f) g = bind r (fun x => bind (f x) g).
Proof. destruct r; reflexivity. Qed.
Lemma bind_ext {A B} (r : result A) (f g : A -> result B) : (forall x, f x = g x) -> bind r f = bind r g.
Proof. intros H. destruct r; simpl; auto. Qed.

(* ---------- bridging shifts/masks to the arithmetic of the specification ---------- *)
Lemma shiftl1 n : 0 <= n -> Z.shiftl 1 n = 2 ^ n.
Proof. intros. rewrite Z.shiftl_mul_pow2 by lia. lia. Qed.

Lemma land_pow2_zero bits k : 0 <= k -> 0 <= bits < 2 ^ (k + 1) ->
  (Z.land bits (2 ^ k) =? 0) = (bits <? 2 ^ k).
Proof.
  intros Hk Hb.
  assert (P : 0 < 2 ^ k) by (apply Z.pow_pos_nonneg; lia).
  assert (E : 2 ^ (k + 1) = 2 * 2 ^ k) by (rewrite Z.pow_add_r by lia; lia).
  destruct (Z.ltb_spec bits (2 ^ k)) as [Hlt|Hge].
  - apply Z.eqb_eq. apply Z.bits_inj'. intros i Hi. rewrite Z.land_spec, Z.bits_0.
    destruct (Z.eq_dec i k) as [->|Ne].
    + assert (Z.testbit bits k = false).
      { destruct (Z.eq_dec bits 0) as [->|Nz]; [apply Z.bits_0|].
        apply Z.bits_above_log2; [lia|]. apply Z.log2_lt_pow2; lia. }
      rewrite H. reflexivity.
    + rewrite Z.pow2_bits_false by lia. apply andb_false_r.
  - apply Z.eqb_neq. intro E0.
    assert (T : Z.testbit (Z.land bits (2 ^ k)) k = true).
    { rewrite Z.land_spec, Z.pow2_bits_true by lia. rewrite andb_true_r.
      apply Z.testbit_true; [lia|].
      assert (bits / 2 ^ k = 1) by (symmetry; apply Z.div_unique with (r := bits - 2 ^ k); lia).
      rewrite H. reflexivity. }
    rewrite E0, Z.bits_0 in T. discriminate.
Qed.

Lemma sign_extend_spec signed len bits : 1 <= len -> 0 <= bits < 2 ^ len ->
  sign_extend signed len bits = spec_signed signed len bits.
Proof.
  intros Hl Hb. unfold sign_extend, spec_signed. rewrite !shiftl1 by lia.
  destruct signed; [|reflexivity]. simpl.
  replace len with ((len - 1) + 1) in Hb by lia.
  rewrite (land_pow2_zero bits (len - 1)) by lia.
  destruct (Z.ltb_spec bits (2 ^ (len - 1))), (Z.leb_spec (2 ^ (len - 1)) bits); simpl; try reflexivity; lia.
Qed.

Lemma not_available_spec signed len n : 1 <= len -> not_available signed len n = spec_na signed len n.
Proof. intros. unfold not_available, spec_na. rewrite !shiftl1 by lia. reflexivity. Qed.

Lemma decode_int_bits p off len : 0 <= off -> 0 <= len -> decode_int p off len = field_bits p off len.
Proof. intros. unfold field_bits. apply decode_int_divmod; assumption. Qed.

Lemma field_bits_range p off len : 0 <= len -> 0 <= field_bits p off len < 2 ^ len.
Proof. intros. unfold field_bits. apply Z.mod_pos_bound. apply Z.pow_pos_nonneg; lia. Qed.

Lemma decode_number_spec p off len signed r mn mx : 0 <= off -> 1 <= len ->
  decode_number p off len signed (pynum_of_num r) (pynum_of_num mn) (pynum_of_num mx)
  = spec_number (field_bits p off len) len signed r mn mx.
Proof.
  intros Ho Hl. unfold decode_number, number_of_raw, spec_number.
  rewrite decode_int_bits by lia.
  rewrite sign_extend_spec by (try lia; apply field_bits_range; lia).
  rewrite not_available_spec by lia. reflexivity.
Qed.

(* ---------- composition of the interpreter ---------- *)
Section Run.
  Variable L LB : lookups.
  Variable LI : ilookups.
  Variable p : Z.
  Notation run := (run_steps L LB LI p).
  Notation stp := (step L LB LI p).

  Lemma run_app a b s : run s (a ++ b) = bind (run s a) (fun s' => run s' b).
  Proof.
    revert s. induction a as [|x a IH]; intros s; simpl; [reflexivity|].
    destruct (stp s x); simpl; [apply IH | reflexivity | reflexivity].
  Qed.

  Definition after (s : ist) (off len : Z) (x : field) : ist :=
    mkIst (off + len) (fl_val x) (fl_raw x) (i_skip s) (i_acc s ++ [x]).

  (* one field block of the template = the specification of that field *)
  Lemma field_block f s steps n' stop :
    simple_field f = true -> field_steps f ns0 = Some (steps, n', stop) ->
    n' = ns0 /\
    exists off len, f_bitoff f = Some off /\ f_bitlen f = Some len /\
      run s steps = bind (spec_field L LB p f) (fun x => Ok (after s off len x)) /\
      (stop = true -> spec_field L LB p f = Err EUnsupported).
  Proof.
    unfold simple_field. intros S F.
    destruct (f_bitoff f) as [off|] eqn:Eo; [|discriminate].
    destruct (f_bitlen f) as [len|] eqn:El; [|discriminate].
    apply andb_true_iff in S. destruct S as [S Slau]. apply andb_true_iff in S. destruct S as [S Slz].
    apply andb_true_iff in S. destruct S as [S Sind]. apply andb_true_iff in S. destruct S as [So Sl].
    apply Z.leb_le in So, Sl. apply negb_true_iff in Slau, Slz, Sind.
    unfold field_steps in F. rewrite Eo, El, Sind in F.
    unfold spec_field, spec_value. rewrite Eo, El.
    unfold body_steps in F. rewrite El, Slz, Slau, Sind in F.
    set (pk := match f_pk f with Some b => b | None => false end).
    destruct (is_numberlike f) eqn:T1.
    { destruct (f_res f) as [r|]; [|discriminate]. destruct (f_min f) as [mn|]; [|discriminate].
      destruct (f_max f) as [mx|]; [|discriminate].
      cbn in F. inversion F; subst. split; [reflexivity|]. exists off, len. repeat split; try discriminate.
      cbn [app run_steps step]. rewrite bind_ok. change (i_off (set_off s off)) with off.
      rewrite decode_number_spec by lia.
      destruct (spec_number _ _ _ _ _ _) as [v|e|]; reflexivity. }
    destruct (is_t f T_LOOKUP) eqn:T2.
    { destruct (f_lookup f) as [t|]; [|discriminate].
      cbn in F. inversion F; subst. split; [reflexivity|]. exists off, len. repeat split; try discriminate.
      cbn [app run_steps step]. rewrite bind_ok. change (i_off (set_off s off)) with off.
      rewrite decode_int_bits by lia.
      destruct (find_tbl t L) as [tb|]; reflexivity. }
    destruct (is_t f T_BITLOOKUP) eqn:T3.
    { destruct (f_bitlookup f) as [t|]; [|discriminate].
      cbn in F. inversion F; subst. split; [reflexivity|]. exists off, len. repeat split; try discriminate.
      cbn [app run_steps step]. rewrite bind_ok. change (i_off (set_off s off)) with off.
      rewrite decode_int_bits by lia.
      destruct (find_tbl t LB) as [tb|]; reflexivity. }
    destruct (is_t f T_STRING_FIX) eqn:T4.
    { cbn in F. inversion F; subst. split; [reflexivity|]. exists off, len. repeat split; try discriminate.
      cbn [app run_steps step]. rewrite bind_ok. change (i_off (set_off s off)) with off.
      unfold decode_string_fix. rewrite decode_int_bits by lia.
      destruct (strfix_of_bits _ _) as [v|e|]; reflexivity. }
    destruct (is_t f T_FLOAT) eqn:T5.
    { destruct (f_min f) as [mn|]; [|discriminate]. destruct (f_max f) as [mx|]; [|discriminate].
      cbn in F. inversion F; subst. split; [reflexivity|]. exists off, len. repeat split; try discriminate.
      cbn [app run_steps step]. rewrite bind_ok. change (i_off (set_off s off)) with off.
      unfold decode_float. rewrite decode_int_bits by lia.
      destruct (float_of_fbits _ _ _) as [v|e|]; reflexivity. }
    destruct (is_t f T_TIME) eqn:T6.
    { destruct (f_res f) as [r|]; [|discriminate]. destruct (f_min f) as [mn|]; [|discriminate].
      destruct (f_max f) as [mx|]; [|discriminate].
      cbn in F. inversion F; subst. split; [reflexivity|]. exists off, len. repeat split; try discriminate.
      cbn [app run_steps step]. rewrite bind_ok. change (i_off (set_off s off)) with off.
      rewrite decode_number_spec by lia.
      destruct (spec_number _ _ _ _ _ _) as [v|e|]; [|reflexivity|reflexivity].
      cbn [bind set_regs i_raw i_val i_off i_skip i_acc run_steps step].
      destruct (decode_time v) as [w|e|]; reflexivity. }
    destruct (is_t f T_DATE) eqn:T7.
    { destruct (f_res f) as [r|]; [|discriminate]. destruct (f_min f) as [mn|]; [|discriminate].
      destruct (f_max f) as [mx|]; [|discriminate].
      cbn in F. inversion F; subst. split; [reflexivity|]. exists off, len. repeat split; try discriminate.
      cbn [app run_steps step]. rewrite bind_ok. change (i_off (set_off s off)) with off.
      rewrite decode_number_spec by lia.
      destruct (spec_number _ _ _ _ _ _) as [v|e|]; [|reflexivity|reflexivity].
      cbn [bind set_regs i_raw i_val i_off i_skip i_acc run_steps step].
      destruct (decode_date v) as [w|e|]; reflexivity. }
    destruct (is_t f T_RESERVED || is_t f T_SPARE) eqn:T8.
    { cbn in F. inversion F; subst. split; [reflexivity|]. exists off, len. repeat split; try discriminate.
      cbn [app run_steps step]. rewrite bind_ok. change (i_off (set_off s off)) with off.
      rewrite decode_int_bits by lia. reflexivity. }
    destruct (is_t f T_BINARY) eqn:T9.
    { cbn in F. inversion F; subst. split; [reflexivity|]. exists off, len. repeat split; try discriminate.
      cbn [app run_steps step]. rewrite bind_ok. change (i_off (set_off s off)) with off.
      rewrite decode_int_bits by lia. reflexivity. }
    (* unsupported type: raise *)
    cbn in F. inversion F; subst. split; [reflexivity|]. exists off, len. repeat split; reflexivity.
  Qed.

  Lemma fields_run : forall fs steps s,
    forallb simple_field fs = true -> fields_steps fs ns0 = Some steps ->
    bind (run s steps) (fun s' => Ok (i_acc s')) = bind (spec_fields L LB p fs) (fun r => Ok (i_acc s ++ r)).
  Proof.
    induction fs as [|f fs IH]; intros steps s S F.
    - simpl in F. inversion F; subst. simpl. rewrite app_nil_r. reflexivity.
    - simpl in S. apply andb_true_iff in S. destruct S as [Sf S].
      simpl in F. destruct (field_steps f ns0) as [[[st n'] stop]|] eqn:Ef; [|discriminate].
      destruct (field_block f s st n' stop Sf Ef) as [-> [off [len [Eo [El [R Stop]]]]]].
      cbn [spec_fields]. destruct stop.
      + inversion F; subst. rewrite R, (Stop eq_refl). reflexivity.
      + destruct (fields_steps fs ns0) as [rest|] eqn:Er; [|discriminate]. inversion F; subst.
        rewrite run_app, R, !bind_assoc.
        destruct (spec_field L LB p f) as [x|e|]; [|reflexivity|reflexivity].
        cbn [bind]. rewrite (IH rest (after s off len x) S eq_refl).
        rewrite bind_assoc. apply bind_ext. intros r. cbn [bind after i_acc]. rewrite <- app_assoc. reflexivity.
  Qed.

  (* C01_sem: the whole definition *)
  Theorem run_template_is_spec_decode d td :
    simple_def d = true -> ddef_of_db d = Some td -> run_ddef L LB LI p td = spec_decode L LB p d.
  Proof.
    unfold simple_def, ddef_of_db, run_ddef, spec_decode. intros S F.
    destruct (fields_steps (d_fields d) ns0) as [steps|] eqn:Es; [|discriminate]. inversion F; subst. clear F.
    cbn [c_steps c_pgn c_id c_descr c_ttl run_steps step bind].
    change (set_off (mkIst 0 VNone VNone 0 []) 0) with (mkIst 0 VNone VNone 0 []).
    pose proof (fields_run (d_fields d) steps (mkIst 0 VNone VNone 0 []) S Es) as R.
    cbn [i_acc app] in R.
    destruct (run (mkIst 0 VNone VNone 0 []) steps) as [s'|e|];
      destruct (spec_fields L LB p (d_fields d)) as [r|e'|]; cbn [bind] in *; try congruence.
  Qed.
End Run.

(* locality: the specified value of a field depends only on the payload bits inside its range *)
Theorem spec_field_local L LB p q f off len :
  f_bitoff f = Some off -> f_bitlen f = Some len -> 0 <= off -> 0 <= len ->
  (forall i, off <= i < off + len -> Z.testbit p i = Z.testbit q i) ->
  spec_field L LB p f = spec_field L LB q f.
Proof.
  intros Eo El Ho Hl H. unfold spec_field, spec_value. rewrite Eo, El.
  rewrite (field_bits_local p q off len Ho Hl H). reflexivity.
Qed.

(* ---------- soundness of the decidable equalities used by the table obligation ---------- *)
Lemma num_eqb_eq a b : num_eqb a b = true -> a = b.
Proof. destruct a, b; simpl; intros H; try discriminate; apply Z.eqb_eq in H; congruence. Qed.
Lemma oz_eqb_eq a b : oz_eqb a b = true -> a = b.
Proof. destruct a, b; simpl; intros H; try discriminate; [apply Z.eqb_eq in H; congruence | reflexivity]. Qed.

Ltac split_andb H :=
  repeat match type of H with
         | (_ && _ = true) => let H1 := fresh "E" in let H2 := fresh "E" in
                              apply andb_true_iff in H; destruct H as [H1 H2]; try split_andb H1; try split_andb H2
         end.
Ltac eqb_to_eq :=
  repeat match goal with
         | H : (_ =? _) = true |- _ => apply Z.eqb_eq in H
         | H : Bool.eqb _ _ = true |- _ => apply eqb_prop in H
         | H : Nat.eqb _ _ = true |- _ => apply Nat.eqb_eq in H
         | H : num_eqb _ _ = true |- _ => apply num_eqb_eq in H
         | H : oz_eqb _ _ = true |- _ => apply oz_eqb_eq in H
         | H : ostr_eqb _ _ = true |- _ => apply oz_eqb_eq in H
         end.

Lemma dstep_eqb_eq a b : dstep_eqb a b = true -> a = b.
Proof.
  destruct a, b; simpl; intros H; try discriminate; try reflexivity;
    split_andb H; eqb_to_eq; subst; try reflexivity; try (apply Z.eqb_eq in H; congruence);
    try (apply Nat.eqb_eq in H; congruence).
Qed.

Lemma ddef_eqb_eq a b : ddef_eqb a b = true -> a = b.
Proof.
  unfold ddef_eqb. intros H. split_andb H. eqb_to_eq.
  assert (c_steps a = c_steps b).
  { apply (list_eqb_eq dstep_eqb); [|assumption]. intros x y. split; [apply dstep_eqb_eq|].
    intros ->. destruct y; simpl; rewrite ?Z.eqb_refl, ?Nat.eqb_refl, ?eqb_reflx; simpl; try reflexivity;
      repeat match goal with
             | |- context [num_eqb ?n ?n] => replace (num_eqb n n) with true by (destruct n; simpl; rewrite Z.eqb_refl; reflexivity)
             | |- context [ostr_eqb ?o ?o] => replace (ostr_eqb o o) with true by (destruct o; simpl; rewrite ?Z.eqb_refl; reflexivity)
             end; reflexivity. }
  destruct a, b; simpl in *; congruence.
Qed.

(* from the table obligation to the statement about the translated code *)
Theorem def_ok_sound code_dec L LB LI g d :
  def_ok code_dec g d = true -> simple_def d = true ->
  exists cd, find_fname (fname_of g d) code_dec = Some cd /\
             forall p, run_ddef L LB LI p cd = spec_decode L LB p d.
Proof.
  unfold def_ok. intros H S.
  destruct (find_fname (fname_of g d) code_dec) as [cd|]; [|discriminate].
  destruct (ddef_of_db d) as [td|] eqn:T; [|discriminate].
  apply ddef_eqb_eq in H. subst td. exists cd. split; [reflexivity|].
  intros p. apply run_template_is_spec_decode; assumption.
Qed.
