(* CorrDecoderCtl.v — checkers for the C10/C11/C16 correspondence cases
   (tools/props/ctl_common.py is not a file: see tools/props/c10.py, c11.py, c16.py).
   A case carries: the constructor arguments, the observed behaviour of the real
   decode_pgn_* / _isFastPGN on exactly the arguments the real decoder passed
   (oracle tables instantiating the Section variables of DecoderCtl), the history of
   13-byte EByte packets given to decode_tcp with the clock input, and what the
   real decoder was observed to do.  The kernel decides model = observed. *)
From NV Require Import Base Header DecoderCtl.

(* short constructor names for generated literals *)
Definition I := Build_iso.
Definition M := Build_msg.
Definition D := Build_dmsg.
Definition R := Build_rec.

Inductive obs := ONone | OErr (e : err) | OMsg (m : msg).

Record ccase := C {
  k_ex : list pitem; k_inc : list pitem; k_exm : list str; k_incm : list str; k_nm : bool;
  k_ctor : option err;                          (* None: constructor returned; Some e: it raised *)
  k_fast : list (Z * result (option bool));     (* observed _isFastPGN *)
  k_dec : list (Z * Z * result (option dmsg));  (* observed decode_pgn_<pgn>(data_int) *)
  k_hist : list (list Z * bool);                (* packet given to decode_tcp, in_window *)
  k_obs : list (obs * option iso);              (* outcome; source-map entry of the call's source afterwards *)
  k_map : list (Z * option iso);                (* final source map on the sources of the case *)
  k_reasm : list (key * rec)                    (* final reassembly dictionary *)
}.

Fixpoint fast_lookup (t : list (Z * result (option bool))) (p : Z) : result (option bool) :=
  match t with [] => Unmodelled | (p', r) :: t' => if p =? p' then r else fast_lookup t' p end.
Fixpoint dec_lookup (t : list (Z * Z * result (option dmsg))) (p d : Z) : result (option dmsg) :=
  match t with
  | [] => Unmodelled
  | (p', d', r) :: t' => if (p =? p') && (d =? d') then r else dec_lookup t' p d
  end.

(* decode_tcp (decoder.py 297-321): length nibble, big-endian identifier, data bytes *)
Definition be_int (l : list Z) : Z := fold_left (fun a b => a * 256 + b) l 0.
Definition tcp_call (pw : list Z * bool) : call :=
  let p := fst pw in
  let dl := Z.land (nth 0 p 0) 15 in
  let '(pgn, src, dst, _) := extract_header (be_int (firstn 4 (skipn 1 p))) in
  {| c_pgn := pgn; c_src := src; c_dst := dst; c_data := firstn (Z.to_nat dl) (skipn 5 p); c_win := snd pw |}.

Definition ostr_eqb := opt_str_eqb.
Definition iso_eqb (a b : iso) : bool :=
  (i_unique a =? i_unique b) && ostr_eqb (i_mfr a) (i_mfr b) && (i_inst a =? i_inst b) &&
  ostr_eqb (i_func a) (i_func b) && ostr_eqb (i_class a) (i_class b) && (i_sys a =? i_sys b) &&
  ostr_eqb (i_ind a) (i_ind b) && Bool.eqb (i_aac a) (i_aac b) && (i_name a =? i_name b).
Definition msg_eqb (a b : msg) : bool :=
  (m_pgn a =? m_pgn b) && str_eqb (m_id a) (m_id b) && (m_src a =? m_src b) && (m_dst a =? m_dst b) &&
  option_eqb iso_eqb (m_iso a) (m_iso b) && (m_body a =? m_body b).
Definition fr_eqb (a b : fr) : bool := (fst a =? fst b) && list_eqb Z.eqb (snd a) (snd b).
Definition rec_eqb (a b : rec) : bool :=
  list_eqb fr_eqb (frames a) (frames b) && (plen a =? plen b) && (stored a =? stored b) && (rseq a =? rseq b).

Definition res_obs_eqb (r : result (option msg)) (o : obs) : bool :=
  match r, o with
  | Ok None, ONone => true
  | Err e, OErr e' => err_eqb e e'
  | Ok (Some m), OMsg m' => msg_eqb m m'
  | _, _ => false
  end.

Section Case.
  Variable k : ccase.
  Definition kdecode := dec_lookup (k_dec k).
  Definition kfast := fast_lookup (k_fast k).

  Fixpoint replay (c : cfg) (st : state) (h : list (list Z * bool)) (os : list (obs * option iso)) : option state :=
    match h, os with
    | [], [] => Some st
    | pw :: h', (o, e) :: os' =>
      let cl := tcp_call pw in
      let '(st', r) := ctl_step kdecode kfast c st cl in
      if res_obs_eqb r o && option_eqb iso_eqb (zlookup (c_src cl) (srcmap st')) e
      then replay c st' h' os' else None
    | _, _ => None
    end.

  Definition chk_final (st : state) : bool :=
    forallb (fun se => option_eqb iso_eqb (zlookup (fst se) (srcmap st)) (snd se)) (k_map k) &&
    forallb (fun kr => option_eqb rec_eqb (klookup (fst kr) (reasm st)) (Some (snd kr))) (k_reasm k) &&
    (length (reasm st) =? length (k_reasm k))%nat.

  Definition chk_case_body : bool :=
    match mk_cfg (k_ex k) (k_inc k) (k_exm k) (k_incm k) (k_nm k), k_ctor k with
    | Err e, Some e' => err_eqb e e'
    | Ok c, None =>
      match replay c init (k_hist k) (k_obs k) with
      | Some st => chk_final st
      | None => false
      end
    | _, _ => false
    end.
End Case.

Definition chk_case (k : ccase) : bool := chk_case_body k.

(* number of leading calls on which model and implementation agree (diagnostics only) *)
Section Diag.
  Variable k : ccase.
  Fixpoint agree_prefix (c : cfg) (st : state) (h : list (list Z * bool)) (os : list (obs * option iso)) (n : nat) : nat :=
    match h, os with
    | pw :: h', (o, e) :: os' =>
      let cl := tcp_call pw in
      let '(st', r) := ctl_step (kdecode k) (kfast k) c st cl in
      if res_obs_eqb r o && option_eqb iso_eqb (zlookup (c_src cl) (srcmap st')) e
      then agree_prefix c st' h' os' (S n) else n
    | _, _ => n
    end.
  Definition first_disagreement : option nat :=
    match mk_cfg (k_ex k) (k_inc k) (k_exm k) (k_incm k) (k_nm k) with
    | Ok c => Some (agree_prefix c init (k_hist k) (k_obs k) 0%nat)
    | _ => None
    end.
End Diag.

(* encoder instances (encoder.py 11-13, 32-63): the only state is the 3-bit sequence counter, advanced by
   every fast-packet encode.  A case: per encode call, (is_fast, first byte of every produced frame). *)
Fixpoint enc_firsts (seq : Z) (n : nat) (k : Z) : list Z :=
  match n with O => [] | S n' => (Z.lor (Z.shiftl seq 5) k) :: enc_firsts seq n' (k + 1) end.
Fixpoint chk_enc_from (seq : Z) (l : list (bool * list Z)) : bool :=
  match l with
  | [] => true
  | (false, _) :: t => chk_enc_from seq t
  | (true, firsts) :: t =>
    list_eqb Z.eqb firsts (enc_firsts seq (length firsts) 0) && chk_enc_from ((seq + 1) mod 8) t
  end.
Definition chk_enc (l : list (bool * list Z)) : bool := chk_enc_from 0 l.
