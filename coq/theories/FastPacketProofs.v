(* FastPacketProofs.v — specifications and proofs for FastPacket.v (C03, C04).
   Built on the checked spike of DESIGN Appendix C (the frame store is `sel seen (all frames of the message)`). *)
From NV Require Import Base Bits FastPacket.
From Coq Require Import Sorted Arith DecimalZ.

(* ================================================================================================ *)
(** * Part 1 — specification vocabulary *)

(** A sender's message: sequence counter, announced length, and ALL its frames as (frame counter, data bytes);
    the data of the last frame may carry filler bytes after the payload. *)
Record msg := { m_seq : Z; m_len : Z; m_all : list fr }.

Definition keylt (a b : fr) : Prop := fst a < fst b.
Definition sum_len (fs : list fr) : Z := fold_right (fun kd a => zlen (snd kd) + a) 0 fs.

(** the payload the sender means: the first m_len bytes of the concatenated frame data *)
Definition m_payload (m : msg) : list Z := firstn (Z.to_nat (m_len m)) (payload_of (m_all m)).

Record msg_ok (m : msg) : Prop := {
  ok_seq    : 0 <= m_seq m < 8;
  ok_len    : 0 <= m_len m;
  ok_sort   : StronglySorted keylt (m_all m);
  ok_keys   : forall kd, In kd (m_all m) -> 0 <= fst kd < 32;
  ok_first  : exists d0 t, m_all m = (0, d0) :: t;
  ok_enough : m_len m <= sum_len (m_all m);                        (* all frames together suffice *)
  ok_need   : forall k d, In (k, d) (m_all m) -> k <> 0 -> sum_len (m_all m) - zlen d < m_len m
                                                                    (* every non-first frame is needed *)
}.

Definition first_data (m : msg) : list Z := match m_all m with (_, d) :: _ => d | [] => [] end.
Definition first_frame (m : msg) : list Z := m_seq m * 32 :: m_len m :: first_data m.

(** what may follow a message's first frame on its stream before the next first frame *)
Inductive ev :=
| Own (k : Z) (d : list Z)       (* a non-first frame of the message (any order, any multiplicity) *)
| Stale (b0 : Z) (d : list Z).   (* a non-first frame carrying another sequence counter *)
Definition ev_ok (m : msg) (e : ev) : Prop :=
  match e with
  | Own k d => In (k, d) (m_all m) /\ k <> 0
  | Stale b0 _ => Z.land b0 31 <> 0 /\ Z.land (Z.shiftr b0 5) 7 <> m_seq m
  end.
Definition frame_of (m : msg) (e : ev) : list Z :=
  match e with Own k d => (m_seq m * 32 + k) :: d | Stale b0 d => b0 :: d end.
Definition ep_frames (m : msg) (es : list ev) : list (list Z) := first_frame m :: map (frame_of m) es.

(** the set-based reference: `seen` = frame counters received so far in this episode *)
Definition inb (k : Z) (l : list Z) : bool := existsb (Z.eqb k) l.
Definition covers (seen : list Z) (m : msg) : bool := forallb (fun kd => inb (fst kd) seen) (m_all m).

Definition spec_step (dok : list Z -> bool) (m : msg) (seen : list Z) (e : ev) : list Z * out :=
  match e with
  | Stale _ _ => (seen, Nothing)
  | Own k _ =>
    if inb k seen then (seen, Nothing)
    else (k :: seen, if negb (covers seen m) && covers (k :: seen) m then call dok (m_payload m) else Nothing)
  end.
Fixpoint spec_go dok m (seen : list Z) (es : list ev) : list out :=
  match es with
  | [] => []
  | e :: t => let '(seen', o) := spec_step dok m seen e in o :: spec_go dok m seen' t
  end.
Definition spec_ep dok (m : msg) (es : list ev) : list out :=
  (if covers [0] m then call dok (m_payload m) else Nothing) :: spec_go dok m [0] es.

(** state predicates *)
Definition fresh (s : Z) (st : option rec) : Prop := st = None \/ exists r, st = Some r /\ rseq r <> s.
Definition settled (s : Z) (st : option rec) : Prop :=
  st = None \/ exists r, st = Some r /\ (rseq r = s \/ rseq r = -1).

Definition sel (p : Z -> bool) (l : list fr) : list fr := filter (fun kd => p (fst kd)) l.

Definition pending (m : msg) (seen : list Z) (st : option rec) : Prop :=
  exists r, st = Some r /\ rseq r = m_seq m /\ plen r = m_len m /\
            frames r = sel (fun x => inb x seen) (m_all m) /\ stored r = sum_len (frames r) /\
            stored r < m_len m.
Definition quiet (m : msg) (st : option rec) : Prop :=
  st = None \/ st = Some new_rec \/
  exists r, st = Some r /\ rseq r = m_seq m /\ forall k d, In (k, d) (m_all m) -> has k (frames r) = true.
Definition inv (m : msg) (seen : list Z) (st : option rec) : Prop :=
  if covers seen m then quiet m st else pending m seen st.

Definition is_call (o : out) : bool := match o with Deliver _ | DecRaise _ => true | _ => false end.

(* ================================================================================================ *)
(** * Part 2 — key-sorted association lists (Appendix C) *)

Lemma has_sel p l k : has k (sel p l) = p k && has k l.
Proof.
  induction l as [|[k' d'] t IH]; simpl.
  - rewrite andb_false_r; reflexivity.
  - destruct (p k') eqn:Pk'; simpl; rewrite IH; destruct (Z.eqb_spec k k') as [->|N]; simpl.
    + rewrite Pk'. reflexivity.
    + reflexivity.
    + rewrite Pk'. reflexivity.
    + reflexivity.
Qed.

Lemma has_In l k : has k l = true <-> exists d, In (k, d) l.
Proof.
  induction l as [|[k' d'] t IH]; simpl.
  - split; [discriminate | intros [d []]].
  - rewrite orb_true_iff, IH, Z.eqb_eq. split.
    + intros [->|[d H]]; [exists d'; left; reflexivity | exists d; right; exact H].
    + intros [d [E|H]]; [inversion E; left; reflexivity | right; exists d; exact H].
Qed.

Lemma ins_front k d fs : (forall kd, In kd fs -> k < fst kd) -> ins k d fs = (k, d) :: fs.
Proof.
  destruct fs as [|[k' d'] t]; simpl; intros H; [reflexivity|].
  assert (k < k') by (apply (H (k', d')); left; reflexivity).
  destruct (Z.ltb_spec k k'); [reflexivity | lia].
Qed.

Lemma sorted_head_lt (a : fr) l : StronglySorted keylt (a :: l) -> forall kd, In kd l -> fst a < fst kd.
Proof. intros S kd H. inversion S as [|? ? _ F]; subst. rewrite Forall_forall in F. apply F; exact H. Qed.

Lemma ins_sel p l k d :
  StronglySorted keylt l -> In (k, d) l -> p k = false ->
  ins k d (sel p l) = sel (fun x => p x || (x =? k)) l.
Proof.
  induction l as [|[k' d'] t IH]; intros S Hin Pk; [destruct Hin|].
  pose proof (sorted_head_lt _ _ S) as Hlt. simpl in Hlt.
  assert (St : StronglySorted keylt t) by (inversion S; assumption).
  destruct Hin as [E|Hin].
  - inversion E; subst k' d'. unfold sel at 1 2; simpl. rewrite Pk, Z.eqb_refl. simpl.
    fold (sel p t).
    rewrite ins_front.
    + f_equal. apply filter_ext_in. intros [x dx] Hx. simpl.
      specialize (Hlt _ Hx). simpl in Hlt. destruct (Z.eqb_spec x k); [lia|]. rewrite orb_false_r; reflexivity.
    + intros kd Hkd. unfold sel in Hkd. apply filter_In in Hkd. apply Hlt. tauto.
  - specialize (Hlt _ Hin). simpl in Hlt.
    unfold sel at 1 2; simpl. fold (sel p t). fold (sel (fun x => p x || (x =? k)) t).
    destruct (Z.eqb_spec k' k) as [->|N]; [lia|]. rewrite orb_false_r.
    destruct (p k'); simpl.
    + destruct (Z.ltb_spec k k'); [lia|]. f_equal. apply IH; assumption.
    + apply IH; assumption.
Qed.

Lemma sel_all p l : (forall kd, In kd l -> p (fst kd) = true) -> sel p l = l.
Proof.
  induction l as [|a t IH]; simpl; intros H; [reflexivity|].
  rewrite (H a) by (left; reflexivity). f_equal. apply IH. intros; apply H; right; assumption.
Qed.

Lemma sel_ext p q l : (forall x, p x = q x) -> sel p l = sel q l.
Proof. intros H. apply filter_ext. intros a. apply H. Qed.

Lemma sum_len_nonneg l : 0 <= sum_len l.
Proof. induction l as [|a t IH]; simpl; unfold zlen; lia. Qed.

Lemma sum_sel_le p l : sum_len (sel p l) <= sum_len l.
Proof. induction l as [|a t IH]; simpl; [lia|]. destruct (p (fst a)); simpl; unfold zlen in *; lia. Qed.

Lemma sum_sel_missing p l k d : In (k, d) l -> p k = false -> sum_len (sel p l) + zlen d <= sum_len l.
Proof.
  induction l as [|[k' d'] t IH]; intros Hin Pk; [destruct Hin|]. simpl.
  destruct Hin as [E|Hin].
  - inversion E; subst. simpl. rewrite Pk. pose proof (sum_sel_le p t). unfold sel in *. simpl. lia.
  - specialize (IH Hin Pk). simpl. destruct (p k'); simpl; unfold zlen in *; lia.
Qed.

Lemma sum_ins k d l : sum_len (ins k d l) = sum_len l + zlen d.
Proof. induction l as [|[k' d'] t IH]; simpl; [lia|]. destruct (k <? k'); simpl; lia. Qed.

(* ================================================================================================ *)
(** * Part 3 — header byte *)

Lemma hdr_own s k : 0 <= s < 8 -> 0 <= k < 32 ->
  Z.land (Z.shiftr (s * 32 + k) 5) 7 = s /\ Z.land (s * 32 + k) 31 = k.
Proof.
  intros Hs Hk. change 7 with (Z.ones 3). change 31 with (Z.ones 5).
  rewrite !Z.land_ones by lia. rewrite Z.shiftr_div_pow2 by lia.
  change (2 ^ 5) with 32. change (2 ^ 3) with 8. split.
  - replace (s * 32 + k) with (k + s * 32) by ring. rewrite Z.div_add by lia.
    rewrite Z.div_small by lia. rewrite Z.add_0_l. apply Z.mod_small; lia.
  - replace (s * 32 + k) with (k + s * 32) by ring. rewrite Z.mod_add by lia. apply Z.mod_small; lia.
Qed.

Lemma hdr_byte s k : 0 <= s -> 0 <= k < 32 -> Z.lor (Z.shiftl s 5) k = s * 32 + k.
Proof.
  intros Hs Hk. rewrite Z.shiftl_mul_pow2 by lia. change (2 ^ 5) with 32.
  apply (lor_disjoint_add s k 5); [lia | change (2 ^ 5) with 32; lia].
Qed.

(* ================================================================================================ *)
(** * Part 4 — one episode refines the set-based reference *)

Lemma inb_cons k x l : inb x (k :: l) = (x =? k) || inb x l.
Proof. reflexivity. Qed.

Lemma covers_spec seen m : covers seen m = true <-> forall kd, In kd (m_all m) -> inb (fst kd) seen = true.
Proof. unfold covers. rewrite forallb_forall. reflexivity. Qed.

(** completion test of the code (byte count) = completeness of the set of frames, for a well-formed sender *)
Lemma complete_iff m p : msg_ok m -> p 0 = true ->
  (m_len m <= sum_len (sel p (m_all m)) <-> forall kd, In kd (m_all m) -> p (fst kd) = true).
Proof.
  intros OK P0. split.
  - intros Hle [x dx] Hx. simpl. destruct (p x) eqn:Px; [reflexivity|exfalso].
    assert (x <> 0) by (intro; subst x; congruence).
    pose proof (ok_need m OK x dx Hx H) as Need.
    pose proof (sum_sel_missing p (m_all m) x dx Hx Px). lia.
  - intros Hall. rewrite sel_all by exact Hall. apply (ok_enough m OK).
Qed.

Lemma covers_complete m seen : msg_ok m -> inb 0 seen = true ->
  (m_len m <=? sum_len (sel (fun x => inb x seen) (m_all m))) = covers seen m.
Proof.
  intros OK P0. apply eq_true_iff_eq. rewrite Z.leb_le, covers_spec.
  apply (complete_iff m (fun x => inb x seen) OK P0).
Qed.

Lemma quiet_step dok m st e : msg_ok m -> quiet m st -> ev_ok m e ->
  exists st', fp_step dok st (frame_of m e) = (st', Nothing) /\ quiet m st'.
Proof.
  intros OK Q E.
  (* the frame counter of the event is non-zero, and when the record's counter is the message's, the frame is
     either of another counter or already stored *)
  assert (Hfc : exists b0 rest, frame_of m e = b0 :: rest /\ Z.land b0 31 <> 0 /\
            (forall r, rseq r = m_seq m -> (forall k d, In (k, d) (m_all m) -> has k (frames r) = true) ->
                       Z.land (Z.shiftr b0 5) 7 <> rseq r \/ has (Z.land b0 31) (frames r) = true)).
  { destruct e as [k d|b0 d]; simpl in *.
    - destruct E as [Hin Hk]. pose proof (ok_keys m OK _ Hin) as Kr. simpl in Kr.
      destruct (hdr_own (m_seq m) k (ok_seq m OK) Kr) as [Hsc Hfc].
      eexists _, _. split; [reflexivity|]. rewrite Hfc. split; [exact Hk|].
      intros r _ Hall. right. apply (Hall k d Hin).
    - destruct E as [Hfc Hsc]. eexists _, _. split; [reflexivity|]. split; [exact Hfc|].
      intros r Hr _. left. rewrite Hr. exact Hsc. }
  destruct Hfc as [b0 [rest [F [Hfc Hfull]]]]. rewrite F.
  assert (Hnew : fp_step dok (Some new_rec) (b0 :: rest) = (Some new_rec, Nothing)).
  { unfold fp_step. destruct (Z.eqb_spec (Z.land b0 31) 0); [contradiction|]. reflexivity. }
  destruct Q as [->|[->|[r [-> [Hs Hall]]]]].
  - exists (Some new_rec). split; [exact Hnew | right; left; reflexivity].
  - exists (Some new_rec). split; [exact Hnew | right; left; reflexivity].
  - exists (Some r). split; [| right; right; exists r; auto].
    unfold fp_step. destruct (Z.eqb_spec (Z.land b0 31) 0); [contradiction|]. simpl.
    destruct (plen r =? 0); [reflexivity|].
    destruct (Hfull r Hs Hall) as [Hne|Hhas].
    + destruct (Z.eqb_spec (Z.land (Z.shiftr b0 5) 7) (rseq r)); [contradiction|]. reflexivity.
    + destruct (Z.land (Z.shiftr b0 5) 7 =? rseq r); simpl; [|reflexivity]. rewrite Hhas. reflexivity.
Qed.

(** the completion step, shared by the first frame and the later frames: a record holding exactly the frames
    `seen'` with the right byte count either waits (set incomplete) or calls the decode function with the payload *)
Lemma finish_inv dok m seen r : msg_ok m -> inb 0 seen = true ->
  rseq r = m_seq m -> plen r = m_len m ->
  frames r = sel (fun x => inb x seen) (m_all m) -> stored r = sum_len (frames r) ->
  exists st', finish dok r = (st', if covers seen m then call dok (m_payload m) else Nothing) /\ inv m seen st'.
Proof.
  intros OK P0 Hs Hp Hf Hst. unfold finish, inv.
  rewrite Hp, Hst, Hf, (covers_complete m seen OK P0).
  destruct (covers seen m) eqn:C.
  - assert (Hall : sel (fun x => inb x seen) (m_all m) = m_all m).
    { apply sel_all. apply covers_spec. exact C. }
    rewrite Hall. fold (m_payload m). unfold call.
    destruct (dok (m_payload m)).
    + eexists; split; [reflexivity | left; reflexivity].
    + eexists; split; [reflexivity|]. right; right. exists r. repeat split; try assumption.
      intros k d Hin. rewrite Hf, Hall. apply has_In. exists d; exact Hin.
  - eexists; split; [reflexivity|]. exists r. repeat split; try assumption.
    rewrite Hst, Hf. pose proof (covers_complete m seen OK P0) as E. rewrite C in E.
    apply Z.leb_gt in E. exact E.
Qed.

Lemma covers_mono m seen k : covers seen m = true -> covers (k :: seen) m = true.
Proof.
  rewrite !covers_spec. intros H kd Hin. rewrite inb_cons, (H kd Hin). apply orb_true_r.
Qed.

Lemma step_inv dok m seen st e : msg_ok m -> inb 0 seen = true -> inv m seen st -> ev_ok m e ->
  exists st', fp_step dok st (frame_of m e) = (st', snd (spec_step dok m seen e)) /\
              inv m (fst (spec_step dok m seen e)) st' /\ inb 0 (fst (spec_step dok m seen e)) = true.
Proof.
  intros OK P0 I E. unfold inv in I.
  destruct (covers seen m) eqn:C.
  - (* already complete: everything is ignored *)
    destruct (quiet_step dok m st e OK I E) as [st' [St Q]].
    exists st'. destruct e as [k d|b0 d]; unfold spec_step.
    + destruct (inb k seen) eqn:Sk; cbn [fst snd].
      * split; [exact St|]. split; [unfold inv; rewrite C; exact Q | exact P0].
      * rewrite C. cbn [negb andb]. split; [exact St|]. split.
        -- unfold inv. rewrite (covers_mono m seen k C). exact Q.
        -- rewrite inb_cons, P0. apply orb_true_r.
    + cbn [fst snd]. split; [exact St|]. split; [unfold inv; rewrite C; exact Q | exact P0].
  - destruct I as [r [-> [Hs [Hp [Hf [Hst Hlt]]]]]].
    pose proof (ok_seq m OK) as Sr.
    assert (Hpl : plen r <> 0) by (pose proof (sum_len_nonneg (frames r)); lia).
    destruct e as [k d|b0 d]; simpl in E |- *.
    + destruct E as [Hin Hk]. pose proof (ok_keys m OK _ Hin) as Kr. simpl in Kr.
      destruct (hdr_own (m_seq m) k Sr Kr) as [Hsc Hfc].
      unfold fp_step. rewrite Hsc, Hfc.
      destruct (Z.eqb_spec k 0); [contradiction|]. destruct (Z.eqb_spec (plen r) 0); [contradiction|]. simpl.
      rewrite Hs, Z.eqb_refl. simpl.
      rewrite Hf, has_sel.
      assert (Hhas : has k (m_all m) = true) by (apply has_In; exists d; exact Hin).
      rewrite Hhas, andb_true_r.
      destruct (inb k seen) eqn:Sk; cbn [fst snd].
      * exists (Some r). split; [reflexivity|]. split; [|exact P0].
        unfold inv. rewrite C. exists r. repeat split; assumption.
      * rewrite C. cbn [negb andb].
        rewrite (ins_sel (fun x => inb x seen) (m_all m) k d (ok_sort m OK) Hin Sk).
        assert (P0' : inb 0 (k :: seen) = true) by (rewrite inb_cons, P0; apply orb_true_r).
        assert (Hsel : sel (fun x => inb x seen || (x =? k)) (m_all m) = sel (fun x => inb x (k :: seen)) (m_all m)).
        { apply sel_ext. intros x. rewrite inb_cons. apply orb_comm. }
        rewrite Hsel.
        destruct (finish_inv dok m (k :: seen)
                     {| frames := sel (fun x => inb x (k :: seen)) (m_all m); plen := plen r;
                        stored := stored r + zlen d; rseq := m_seq m |} OK P0') as [st' [Fi I']].
        -- reflexivity.
        -- exact Hp.
        -- reflexivity.
        -- cbn [stored frames].
           rewrite <- Hsel, <- (ins_sel (fun x => inb x seen) (m_all m) k d (ok_sort m OK) Hin Sk).
           rewrite sum_ins, <- Hf, Hst. reflexivity.
        -- exists st'. split; [exact Fi|]. split; [exact I' | exact P0'].
    + destruct E as [Hfc Hsc]. unfold fp_step.
      destruct (Z.eqb_spec (Z.land b0 31) 0); [contradiction|]. destruct (Z.eqb_spec (plen r) 0); [contradiction|]. simpl.
      rewrite Hs. destruct (Z.eqb_spec (Z.land (Z.shiftr b0 5) 7) (m_seq m)); [contradiction|]. simpl.
      exists (Some r). split; [reflexivity|]. split; [|exact P0].
      unfold inv. rewrite C. exists r. repeat split; assumption.
Qed.

(* ================================================================================================ *)
(** * Part 5 — first frame, one episode, a whole stream *)

Lemma sel_none p l : (forall kd, In kd l -> p (fst kd) = false) -> sel p l = [].
Proof.
  induction l as [|a t IH]; simpl; intros H; [reflexivity|].
  rewrite (H a) by (left; reflexivity). apply IH. intros; apply H; right; assumption.
Qed.

Lemma first_step dok m st : msg_ok m -> fresh (m_seq m) st ->
  exists st', fp_step dok st (first_frame m) = (st', if covers [0] m then call dok (m_payload m) else Nothing) /\
              inv m [0] st'.
Proof.
  intros OK F. pose proof (ok_seq m OK) as Sr.
  destruct (ok_first m OK) as [d0 [t Hall]].
  assert (Hr : rseq (match st with Some r => r | None => new_rec end) <> m_seq m).
  { destruct F as [->|[r [-> Hr]]]; [simpl; lia | exact Hr]. }
  unfold fp_step, first_frame. set (r := match st with Some r => r | None => new_rec end) in *.
  destruct (hdr_own (m_seq m) 0 Sr ltac:(lia)) as [Hsc Hfc]. rewrite Z.add_0_r in Hsc, Hfc.
  rewrite Hsc, Hfc. cbn [Z.eqb negb andb].
  destruct (Z.eqb_spec (m_seq m) (rseq r)) as [E|_]; [symmetry in E; contradiction|]. cbn [negb].
  assert (Hsel : sel (fun x => inb x [0]) (m_all m) = [(0, first_data m)]).
  { unfold first_data. rewrite Hall. unfold sel. cbn [filter fst]. change (inb 0 [0]) with true. cbv iota.
    f_equal. apply (sel_none (fun x => inb x [0])).
    intros kd Hkd. pose proof (ok_sort m OK) as S. rewrite Hall in S.
    pose proof (sorted_head_lt _ _ S kd Hkd) as L. simpl in L.
    unfold inb. simpl. destruct (Z.eqb_spec (fst kd) 0); [lia | reflexivity]. }
  apply (finish_inv dok m [0]); try reflexivity; try assumption.
  - cbn [frames]. symmetry. exact Hsel.
  - cbn [stored frames]. simpl. lia.
Qed.

Lemma run_app dok st a b :
  run dok st (a ++ b) = let '(st', o1) := run dok st a in let '(st'', o2) := run dok st' b in (st'', o1 ++ o2).
Proof.
  revert st. induction a as [|f a IH]; intros st; simpl.
  - destruct (run dok st b); reflexivity.
  - destruct (fp_step dok st f) as [st1 o]. rewrite IH.
    destruct (run dok st1 a) as [st2 o1]. destruct (run dok st2 b) as [st3 o2]. reflexivity.
Qed.

Lemma go_refines dok m : msg_ok m -> forall es seen st,
  inb 0 seen = true -> inv m seen st -> Forall (ev_ok m) es ->
  exists st' seen', run dok st (map (frame_of m) es) = (st', spec_go dok m seen es) /\ inv m seen' st'.
Proof.
  intros OK. induction es as [|e es IH]; intros seen st P0 I Hev; simpl.
  - exists st, seen. split; [reflexivity | exact I].
  - inversion Hev as [|? ? He Hes]; subst.
    destruct (step_inv dok m seen st e OK P0 I He) as [st1 [St [I1 P1]]].
    rewrite St. destruct (spec_step dok m seen e) as [seen1 o] eqn:Sp. cbn [fst snd] in *.
    destruct (IH seen1 st1 P1 I1 Hes) as [st' [seen' [R I']]].
    rewrite R. exists st', seen'. split; [reflexivity | exact I'].
Qed.

Lemma inv_settled m seen st : inv m seen st -> settled (m_seq m) st.
Proof.
  unfold inv. destruct (covers seen m).
  - intros [->|[->|[r [-> [Hs _]]]]]; [left; reflexivity | right; exists new_rec; split; [reflexivity | right; reflexivity] |].
    right. exists r. split; [reflexivity | left; exact Hs].
  - intros [r [-> [Hs _]]]. right. exists r. split; [reflexivity | left; exact Hs].
Qed.

(** one episode: from any state whose record is absent or belongs to another counter, the outputs are exactly the
    set-based reference *)
Theorem episode_refines dok m es st : msg_ok m -> Forall (ev_ok m) es -> fresh (m_seq m) st ->
  exists st', run dok st (ep_frames m es) = (st', spec_ep dok m es) /\ settled (m_seq m) st'.
Proof.
  intros OK Hev F. unfold ep_frames, spec_ep. cbn [run].
  destruct (first_step dok m st OK F) as [st1 [St I1]]. rewrite St.
  destruct (go_refines dok m OK es [0] st1 eq_refl I1 Hev) as [st' [seen' [R I']]].
  rewrite R. exists st'. split; [reflexivity | exact (inv_settled m seen' st' I')].
Qed.

Definition episode := (msg * list ev)%type.
Definition ep_ok (ep : episode) : Prop := msg_ok (fst ep) /\ Forall (ev_ok (fst ep)) (snd ep).
(** consecutive messages of a stream carry different counters; `s` = the counter before the first one *)
Fixpoint chain_from (s : Z) (eps : list episode) : Prop :=
  match eps with
  | [] => True
  | ep :: t => m_seq (fst ep) <> s /\ chain_from (m_seq (fst ep)) t
  end.
Definition stream_frames (eps : list episode) : list (list Z) :=
  concat (map (fun ep => ep_frames (fst ep) (snd ep)) eps).
Definition stream_spec dok (eps : list episode) : list (list out) :=
  map (fun ep => spec_ep dok (fst ep) (snd ep)) eps.

Lemma settled_fresh s s' st : settled s st -> s' <> s -> 0 <= s' -> fresh s' st.
Proof.
  intros [->|[r [-> H]]] Hne Hpos; [left; reflexivity|]. right. exists r. split; [reflexivity|].
  destruct H as [->| ->]; lia.
Qed.

Theorem stream_refines dok : forall eps s st,
  Forall ep_ok eps -> chain_from s eps -> settled s st ->
  exists st', run dok st (stream_frames eps) = (st', concat (stream_spec dok eps)).
Proof.
  induction eps as [|[m es] eps IH]; intros s st Hok Hch Hst.
  - exists st. reflexivity.
  - inversion Hok as [|? ? [OK Hev] Hoks]; subst. destruct Hch as [Hne Hch]. cbn [fst snd] in *.
    unfold stream_frames, stream_spec. cbn [map concat fst snd].
    rewrite run_app.
    destruct (episode_refines dok m es st OK Hev
                (settled_fresh s (m_seq m) st Hst Hne (proj1 (ok_seq m OK)))) as [st1 [R S1]].
    rewrite R. destruct (IH (m_seq m) st1 Hoks Hch S1) as [st' R'].
    unfold stream_frames, stream_spec in R'. rewrite R'. exists st'. reflexivity.
Qed.

(** frames with a non-zero frame counter arriving before any first frame (new decoder, or after a delivery)
    are all ignored *)
Lemma prologue_ignored dok : forall fs st,
  (st = None \/ st = Some new_rec) ->
  Forall (fun f => match f with [] => False | b0 :: _ => Z.land b0 31 <> 0 end) fs ->
  exists st', run dok st fs = (st', repeat Nothing (length fs)) /\ (st' = None \/ st' = Some new_rec).
Proof.
  induction fs as [|f fs IH]; intros st Hst Hfs.
  - exists st. split; [reflexivity | exact Hst].
  - inversion Hfs as [|? ? Hf Hfs']; subst. destruct f as [|b0 rest]; [contradiction|].
    assert (E : fp_step dok st (b0 :: rest) = (Some new_rec, Nothing)).
    { unfold fp_step. destruct Hst as [-> | ->]; destruct (Z.eqb_spec (Z.land b0 31) 0); try contradiction; reflexivity. }
    cbn [run]. rewrite E. destruct (IH (Some new_rec) (or_intror eq_refl) Hfs') as [st' [R S']].
    rewrite R. exists st'. split; [reflexivity | exact S'].
Qed.

(** malformed frames (0 or 1 byte) raise IndexError and leave the record as it was *)
Lemma raise_harmless dok st can st' : fp_step dok st can = (st', Raise) ->
  st' = Some (match st with Some r => r | None => new_rec end).
Proof.
  unfold fp_step, finish. destruct can as [|b0 rest]; [intros E; inversion E; reflexivity|].
  repeat match goal with
         | |- context [if ?c then _ else _] => destruct c
         | |- context [match ?x with [] => _ | _ :: _ => _ end] => destruct x
         end; intros E; inversion E; reflexivity.
Qed.

(* ================================================================================================ *)
(** * Part 6 — what the reference says: safety, at most once, completeness *)

Definition add_ev (seen : list Z) (e : ev) : list Z :=
  match e with Own k _ => if inb k seen then seen else k :: seen | Stale _ _ => seen end.
Definition received (seen : list Z) (es : list ev) : list Z := fold_left add_ev es seen.

Lemma covers_add m seen e : covers seen m = true -> covers (add_ev seen e) m = true.
Proof. destruct e as [k d|]; simpl; [|auto]. destruct (inb k seen); [auto | apply covers_mono]. Qed.

Lemma covers_received m es : forall seen, covers seen m = true -> covers (received seen es) m = true.
Proof. induction es as [|e es IH]; intros seen C; simpl; [exact C | apply IH, covers_add, C]. Qed.

Lemma spec_step_eq dok m seen e :
  spec_step dok m seen e =
  (add_ev seen e, if negb (covers seen m) && covers (add_ev seen e) m then call dok (m_payload m) else Nothing).
Proof.
  destruct e as [k d|b0 d]; simpl.
  - destruct (inb k seen); [|reflexivity]. destruct (covers seen m); reflexivity.
  - destruct (covers seen m); reflexivity.
Qed.

Lemma is_call_call dok p : is_call (call dok p) = true.
Proof. unfold call. destruct (dok p); reflexivity. Qed.

Lemma spec_go_calls dok m : forall es seen,
  filter is_call (spec_go dok m seen es) =
  if negb (covers seen m) && covers (received seen es) m then [call dok (m_payload m)] else [].
Proof.
  induction es as [|e es IH]; intros seen; simpl.
  - destruct (covers seen m); reflexivity.
  - rewrite spec_step_eq. cbn [filter]. rewrite IH.
    destruct (covers seen m) eqn:C.
    + rewrite (covers_add m seen e C). reflexivity.
    + cbn [negb andb]. destruct (covers (add_ev seen e) m) eqn:C1.
      * rewrite is_call_call. rewrite (covers_received m es _ C1). reflexivity.
      * reflexivity.
Qed.

(** every output of an episode is nothing or the call with the message's own payload *)
Lemma spec_ep_safe dok m es o : In o (spec_ep dok m es) -> o = Nothing \/ o = call dok (m_payload m).
Proof.
  unfold spec_ep. intros [<-|H].
  - destruct (covers [0] m); auto.
  - revert H. generalize [0]. induction es as [|e es IH]; intros seen; simpl; [tauto|].
    rewrite spec_step_eq. intros [<-|H]; [|exact (IH _ H)].
    destruct (negb (covers seen m) && covers (add_ev seen e) m); auto.
Qed.

(** exactly one call when the set of frames becomes complete during the episode, none otherwise *)
Lemma spec_ep_calls dok m es :
  filter is_call (spec_ep dok m es) = if covers (received [0] es) m then [call dok (m_payload m)] else [].
Proof.
  unfold spec_ep. cbn [filter]. rewrite spec_go_calls.
  destruct (covers [0] m) eqn:C.
  - rewrite is_call_call. cbn [negb andb]. rewrite (covers_received m es _ C). reflexivity.
  - cbn [is_call negb andb]. reflexivity.
Qed.

Lemma spec_ep_once dok m es : (length (filter is_call (spec_ep dok m es)) <= 1)%nat.
Proof. rewrite spec_ep_calls. destruct (covers (received [0] es) m); simpl; lia. Qed.

Lemma spec_go_length dok m : forall es seen, length (spec_go dok m seen es) = length es.
Proof. induction es as [|e es IH]; intros seen; simpl; [reflexivity|]. rewrite spec_step_eq. simpl. rewrite IH. reflexivity. Qed.

Lemma spec_ep_length dok m es : length (spec_ep dok m es) = length (ep_frames m es).
Proof. unfold spec_ep, ep_frames. simpl. rewrite spec_go_length, map_length. reflexivity. Qed.

(** WHEN: the output for the i-th event after the first frame is the call iff the set of received frame counters
    is complete after it and was not complete before it *)
Lemma spec_go_nth dok m : forall es seen i, (i < length es)%nat ->
  nth_error (spec_go dok m seen es) i =
  Some (if negb (covers (received seen (firstn i es)) m) && covers (received seen (firstn (S i) es)) m
        then call dok (m_payload m) else Nothing).
Proof.
  induction es as [|e es IH]; intros seen i Hi; simpl in Hi; [lia|].
  cbn [spec_go]. rewrite spec_step_eq. destruct i as [|i].
  - reflexivity.
  - cbn [nth_error]. rewrite IH by lia. reflexivity.
Qed.

(** the set semantics of `received` *)
Definition is_own (x : Z) (e : ev) : bool := match e with Own k _ => x =? k | Stale _ _ => false end.
Lemma received_spec x : forall es seen, inb x (received seen es) = inb x seen || existsb (is_own x) es.
Proof.
  induction es as [|e es IH]; intros seen; simpl; [rewrite orb_false_r; reflexivity|].
  rewrite IH. destruct e as [k d|b0 d]; simpl.
  - destruct (inb k seen) eqn:Sk.
    + destruct (Z.eqb_spec x k) as [->|]; [rewrite Sk; reflexivity | reflexivity].
    + rewrite inb_cons. rewrite orb_assoc. f_equal. apply orb_comm.
  - reflexivity.
Qed.

(* ================================================================================================ *)
(** * Part 7 — the dictionary of records: frame lemma, global run = product of per-stream runs *)

Lemma key_eqb_eq a b : key_eqb a b = true <-> a = b.
Proof.
  destruct a as [[p s] d], b as [[p' s'] d']. unfold key_eqb.
  rewrite !andb_true_iff, !Z.eqb_eq. split; [intros [[-> ->] ->]; reflexivity | intros E; inversion E; auto].
Qed.
Lemma key_eqb_refl k : key_eqb k k = true.
Proof. apply key_eqb_eq. reflexivity. Qed.
Lemma key_eqb_neq a b : key_eqb a b = false <-> a <> b.
Proof. rewrite <- key_eqb_eq. destruct (key_eqb a b); split; congruence. Qed.

Lemma lookup_remove_same k g : lookup k (remove_key k g) = None.
Proof.
  induction g as [|[k' r] t IH]; simpl; [reflexivity|].
  destruct (key_eqb k k') eqn:E; [exact IH|]. simpl. rewrite E. exact IH.
Qed.
Lemma lookup_remove_other k k' g : k <> k' -> lookup k (remove_key k' g) = lookup k g.
Proof.
  intros N. induction g as [|[k'' r] t IH]; simpl; [reflexivity|].
  destruct (key_eqb k' k'') eqn:E.
  - apply key_eqb_eq in E. subst k''. apply key_eqb_neq in N. rewrite N. exact IH.
  - simpl. destruct (key_eqb k k''); [reflexivity | exact IH].
Qed.
Lemma lookup_set_same k r g : lookup k (set_key k r g) = Some r.
Proof. unfold set_key. simpl. rewrite key_eqb_refl. reflexivity. Qed.
Lemma lookup_set_other k k' r g : k <> k' -> lookup k (set_key k' r g) = lookup k g.
Proof.
  intros N. unfold set_key. simpl. pose proof N as N'. apply key_eqb_neq in N'. rewrite N'.
  apply lookup_remove_other. exact N.
Qed.

(** the frame lemma: a step on key k leaves every other key's record untouched *)
Lemma g_step_other dok g k can k' : k' <> k -> lookup k' (fst (g_step dok g k can)) = lookup k' g.
Proof.
  intros N. unfold g_step. destruct (fp_step (dok k) (lookup k g) can) as [[r|] o]; cbn [fst].
  - apply lookup_set_other. exact N.
  - apply lookup_remove_other. exact N.
Qed.
Lemma g_step_same dok g k can :
  lookup k (fst (g_step dok g k can)) = fst (fp_step (dok k) (lookup k g) can) /\
  snd (g_step dok g k can) = snd (fp_step (dok k) (lookup k g) can).
Proof.
  unfold g_step. destruct (fp_step (dok k) (lookup k g) can) as [[r|] o]; cbn [fst snd].
  - split; [apply lookup_set_same | reflexivity].
  - split; [apply lookup_remove_same | reflexivity].
Qed.

Lemma dec_step_other isfast dok g k can k' : k' <> k -> lookup k' (fst (dec_step isfast dok g k can)) = lookup k' g.
Proof.
  intros N. unfold dec_step. destruct k as [[pgn s] d]. destruct (isfast pgn) as [[|]|]; cbn [fst]; try reflexivity.
  apply g_step_other. exact N.
Qed.
Lemma dec_step_same isfast dok g k can : isfast (fst (fst k)) = Some true ->
  dec_step isfast dok g k can = g_step dok g k can.
Proof. destruct k as [[pgn s] d]. simpl. unfold dec_step. intros ->. reflexivity. Qed.

(** every global history is an interleaving of its per-key projections; the outputs and the final record of key k
    are those of running k's projection alone — any number of other streams, any interleaving *)
Theorem dec_run_proj isfast dok k : isfast (fst (fst k)) = Some true -> forall h g,
  lookup k (fst (dec_run isfast dok g h)) = fst (run (dok k) (lookup k g) (proj k h)) /\
  proj k (snd (dec_run isfast dok g h)) = snd (run (dok k) (lookup k g) (proj k h)).
Proof.
  intros Hf. induction h as [|[k1 f] t IH]; intros g.
  - split; reflexivity.
  - cbn [dec_run]. destruct (dec_step isfast dok g k1 f) as [g' o] eqn:St.
    specialize (IH g'). destruct (dec_run isfast dok g' t) as [g'' os] eqn:R. cbn [fst snd] in *.
    unfold proj in *. cbn [filter fst snd map].
    destruct (key_eqb k k1) eqn:E.
    + apply key_eqb_eq in E. subst k1. rewrite (dec_step_same isfast dok g k f Hf) in St.
      destruct (g_step_same dok g k f) as [L O]. rewrite St in L, O. cbn [fst snd] in L, O.
      cbn [map snd run]. destruct (fp_step (dok k) (lookup k g) f) as [st1 o1]. cbn [fst snd] in L, O. subst o.
      rewrite L in IH. destruct (run (dok k) st1 _) as [st2 os2]. cbn [fst snd] in *.
      destruct IH as [IH1 IH2]. split; [exact IH1 | rewrite IH2; reflexivity].
    + apply key_eqb_neq in E.
      pose proof (dec_step_other isfast dok g k1 f k E) as L. rewrite St in L. cbn [fst] in L.
      rewrite L in IH. exact IH.
Qed.

Theorem g_run_proj dok k : forall h g,
  lookup k (fst (g_run dok g h)) = fst (run (dok k) (lookup k g) (proj k h)) /\
  proj k (snd (g_run dok g h)) = snd (run (dok k) (lookup k g) (proj k h)).
Proof.
  induction h as [|[k1 f] t IH]; intros g.
  - split; reflexivity.
  - cbn [g_run]. destruct (g_step dok g k1 f) as [g' o] eqn:St.
    specialize (IH g'). destruct (g_run dok g' t) as [g'' os] eqn:R. cbn [fst snd] in *.
    unfold proj in *. cbn [filter fst snd map].
    destruct (key_eqb k k1) eqn:E.
    + apply key_eqb_eq in E. subst k1.
      destruct (g_step_same dok g k f) as [L O]. rewrite St in L, O. cbn [fst snd] in L, O.
      cbn [map snd run]. destruct (fp_step (dok k) (lookup k g) f) as [st1 o1]. cbn [fst snd] in L, O. subst o.
      rewrite L in IH. destruct (run (dok k) st1 _) as [st2 os2]. cbn [fst snd] in *.
      destruct IH as [IH1 IH2]. split; [exact IH1 | rewrite IH2; reflexivity].
    + apply key_eqb_neq in E.
      pose proof (g_step_other dok g k1 f k E) as L. rewrite St in L. cbn [fst] in L.
      rewrite L in IH. exact IH.
Qed.

(** master statement for C04: in ANY global history, the outputs of stream k are the set-based reference of k's
    own episodes *)
Theorem stream_in_history isfast dok h g k eps s :
  isfast (fst (fst k)) = Some true ->
  proj k h = stream_frames eps -> Forall ep_ok eps -> chain_from s eps -> settled s (lookup k g) ->
  proj k (snd (dec_run isfast dok g h)) = concat (stream_spec (dok k) eps).
Proof.
  intros Hf Hp Hok Hch Hst.
  destruct (dec_run_proj isfast dok k Hf h g) as [_ E]. rewrite E, Hp.
  destruct (stream_refines (dok k) eps s (lookup k g) Hok Hch Hst) as [st' R]. rewrite R. reflexivity.
Qed.

Lemma Forall2_map_r {A B} (R : A -> B -> Prop) (f : A -> B) l : (forall x, In x l -> R x (f x)) -> Forall2 R l (map f l).
Proof.
  induction l as [|a l IH]; intros H; simpl; constructor.
  - apply H. left; reflexivity.
  - apply IH. intros x Hx. apply H. right; exact Hx.
Qed.

Definition ep_safe dok (ep : episode) (os : list out) : Prop :=
  length os = length (ep_frames (fst ep) (snd ep)) /\
  forall o, In o os -> o = Nothing \/ o = call dok (m_payload (fst ep)).
Definition ep_once (ep : episode) (os : list out) : Prop :=
  length os = length (ep_frames (fst ep) (snd ep)) /\ (length (filter is_call os) <= 1)%nat.
Definition ep_complete dok (ep : episode) (os : list out) : Prop :=
  let m := fst ep in let es := snd ep in
  nth_error os 0 = Some (if covers [0] m then call dok (m_payload m) else Nothing) /\
  (forall i, (i < length es)%nat ->
     nth_error os (S i) =
     Some (if negb (covers (received [0] (firstn i es)) m) && covers (received [0] (firstn (S i) es)) m
           then call dok (m_payload m) else Nothing)) /\
  (covers (received [0] es) m = true -> filter is_call os = [call dok (m_payload m)]).

Lemma spec_ep_complete dok m es : ep_complete dok (m, es) (spec_ep dok m es).
Proof.
  unfold ep_complete. cbn [fst snd]. split; [reflexivity|]. split.
  - intros i Hi. unfold spec_ep. cbn [nth_error]. apply spec_go_nth. exact Hi.
  - intros C. rewrite spec_ep_calls, C. reflexivity.
Qed.

Section Global.
  Variables (isfast : Z -> option bool) (dok : key -> list Z -> bool).
  Variables (h : list (key * list Z)) (g : gstate) (k : key) (eps : list episode) (s : Z).
  Hypothesis Hfast : isfast (fst (fst k)) = Some true.
  Hypothesis Hproj : proj k h = stream_frames eps.
  Hypothesis Hok : Forall ep_ok eps.
  Hypothesis Hchain : chain_from s eps.
  Hypothesis Hst : settled s (lookup k g).

  Lemma global_by_episode (R : episode -> list out -> Prop) :
    (forall m es, R (m, es) (spec_ep (dok k) m es)) ->
    exists oss, proj k (snd (dec_run isfast dok g h)) = concat oss /\ Forall2 R eps oss.
  Proof.
    intros HR. exists (stream_spec (dok k) eps). split.
    - apply (stream_in_history isfast dok h g k eps s); assumption.
    - apply Forall2_map_r. intros [m es] _. apply HR.
  Qed.

  Theorem global_safety :
    exists oss, proj k (snd (dec_run isfast dok g h)) = concat oss /\ Forall2 (ep_safe (dok k)) eps oss.
  Proof.
    apply global_by_episode. intros m es. split; [apply spec_ep_length | apply spec_ep_safe].
  Qed.
  Theorem global_once :
    exists oss, proj k (snd (dec_run isfast dok g h)) = concat oss /\ Forall2 ep_once eps oss.
  Proof.
    apply global_by_episode. intros m es. split; [apply spec_ep_length | apply spec_ep_once].
  Qed.
  Theorem global_complete :
    exists oss, proj k (snd (dec_run isfast dok g h)) = concat oss /\ Forall2 (ep_complete (dok k)) eps oss.
  Proof. apply global_by_episode. intros m es. apply spec_ep_complete. Qed.
End Global.

(** what "the set of received frame counters covers the message" means *)
Lemma covers_received_meaning m es :
  covers (received [0] es) m = true <->
  forall k d, In (k, d) (m_all m) -> k = 0 \/ exists d', In (Own k d') es.
Proof.
  rewrite covers_spec. split.
  - intros H k d Hin. specialize (H (k, d) Hin). cbn [fst] in H. rewrite received_spec in H.
    apply orb_true_iff in H. destruct H as [H|H].
    + left. unfold inb in H. simpl in H. rewrite orb_false_r in H. apply Z.eqb_eq in H. exact H.
    + right. apply existsb_exists in H. destruct H as [e [He Hk]]. destruct e as [k' d'|]; [|discriminate].
      simpl in Hk. apply Z.eqb_eq in Hk. subst k'. exists d'. exact He.
  - intros H [k d] Hin. cbn [fst]. rewrite received_spec. apply orb_true_iff.
    destruct (H k d Hin) as [->|[d' Hd']]; [left; reflexivity|].
    right. apply existsb_exists. exists (Own k d'). split; [exact Hd' | simpl; apply Z.eqb_refl].
Qed.

(** recovery: whatever happened in earlier episodes (losses, restarts, leftovers), the next episode is answered as
    by a brand-new decoder; if all its frames arrive it is delivered exactly once, intact *)
Theorem recover dok eps m es s st :
  Forall ep_ok eps -> ep_ok (m, es) -> chain_from s (eps ++ [(m, es)]) -> settled s st ->
  exists st' before last,
    run dok st (stream_frames eps ++ ep_frames m es) = (st', before ++ last) /\
    length before = length (stream_frames eps) /\
    last = snd (run dok None (ep_frames m es)) /\
    (forall o, In o last -> o = Nothing \/ o = call dok (m_payload m)) /\
    (covers (received [0] es) m = true -> filter is_call last = [call dok (m_payload m)]).
Proof.
  intros Hok [OK Hev] Hch Hst. cbn [fst snd] in *.
  assert (Hch' : exists s1, chain_from s eps /\ m_seq m <> s1 /\
                 forall st0, (exists st00, settled s st00 /\ fst (run dok st00 (stream_frames eps)) = st0) -> settled s1 st0).
  { clear Hst. revert s Hch Hok. induction eps as [|[m1 es1] eps IH]; intros s Hch Hok.
    - exists s. simpl in Hch. split; [exact I|]. split; [tauto|].
      intros st0 [st00 [S E]]. simpl in E. subst. exact S.
    - destruct Hch as [Hne Hch]. inversion Hok as [|? ? [OK1 Hev1] Hoks]; subst. cbn [fst snd] in *.
      destruct (IH _ Hch Hoks) as [s1 [C1 [N1 F1]]]. exists s1. split; [split; assumption|]. split; [exact N1|].
      intros st0 [st00 [S E]]. apply F1.
      unfold stream_frames in E. cbn [map concat fst snd] in E. rewrite run_app in E.
      destruct (episode_refines dok m1 es1 st00 OK1 Hev1
                  (settled_fresh s (m_seq m1) st00 S Hne (proj1 (ok_seq m1 OK1)))) as [st1 [R S1]].
      rewrite R in E. exists st1. split; [exact S1|].
      unfold stream_frames. destruct (run dok st1 _) as [a b]. exact E. }
  destruct Hch' as [s1 [Hch1 [Hne Hset]]].
  rewrite run_app.
  destruct (stream_refines dok eps s st Hok Hch1 Hst) as [st1 R1].
  rewrite R1.
  assert (S1 : settled s1 st1).
  { apply Hset. exists st. split; [exact Hst|]. rewrite R1. reflexivity. }
  destruct (episode_refines dok m es st1 OK Hev (settled_fresh s1 (m_seq m) st1 S1 Hne (proj1 (ok_seq m OK))))
    as [st' [R S']].
  rewrite R.
  destruct (episode_refines dok m es None OK Hev (or_introl eq_refl)) as [stn [Rn _]].
  exists st', (concat (stream_spec dok eps)), (spec_ep dok m es).
  split; [reflexivity|]. split.
  - assert (L : length (snd (run dok st (stream_frames eps))) = length (stream_frames eps)).
    { generalize (stream_frames eps) st. induction l as [|f l IHl]; intros st0; simpl; [reflexivity|].
      destruct (fp_step dok st0 f) as [a b]. specialize (IHl a). destruct (run dok a l). simpl in *. lia. }
    rewrite R1 in L. exact L.
  - split; [rewrite Rn; reflexivity|]. split; [apply spec_ep_safe|].
    intros C. rewrite spec_ep_calls, C. reflexivity.
Qed.

(* ================================================================================================ *)
(** * Part 8 — the segmenter: the slicing loop is chunking by 6 then 7 *)

Fixpoint chunks (c : nat) (l : list Z) : list (list Z) :=
  match c with O => [] | S c' => firstn 7 l :: chunks c' (skipn 7 l) end.
Fixpoint number (fc seq : Z) (cs : list (list Z)) : list (list Z) :=
  match cs with [] => [] | d :: t => (seq * 32 + fc :: d) :: number (fc + 1) seq t end.
Fixpoint all_but_last_full (cs : list (list Z)) : Prop :=
  match cs with
  | [] => True
  | x :: t => match t with [] => True | _ => zlen x = 7 /\ all_but_last_full t end
  end.

Lemma zlen_skipn (a : nat) (p : list Z) : (a <= length p)%nat -> zlen (skipn a p) = zlen p - Z.of_nat a.
Proof. intros H. unfold zlen. rewrite skipn_length. lia. Qed.

Lemma slice_chunk p off w : 0 <= off <= zlen p -> 0 <= w ->
  slice p off (Z.min (off + w) (zlen p)) = firstn (Z.to_nat w) (skipn (Z.to_nat off) p).
Proof.
  intros Ho Hw. unfold slice. set (l := skipn (Z.to_nat off) p).
  assert (Hl : zlen l = zlen p - off).
  { unfold l. rewrite zlen_skipn by (unfold zlen in *; lia). lia. }
  destruct (Z.le_gt_cases (off + w) (zlen p)) as [H|H].
  - rewrite Z.min_l by lia. f_equal. lia.
  - rewrite Z.min_r by lia. rewrite <- Hl. unfold zlen at 1. rewrite Nat2Z.id, firstn_all.
    symmetry. apply firstn_all2. unfold zlen in *. lia.
Qed.

Lemma skipn_skipn' {A} (x y : nat) (l : list A) : skipn x (skipn y l) = skipn (x + y) l.
Proof.
  revert l. induction y as [|y IH]; intros l.
  - rewrite Nat.add_0_r. reflexivity.
  - rewrite Nat.add_succ_r. destruct l as [|a l]; [rewrite !skipn_nil; reflexivity|]. cbn [skipn]. apply IH.
Qed.

Lemma skipn_next (p : list Z) off w : 0 <= off <= zlen p -> 0 <= w ->
  skipn (Z.to_nat (Z.min (off + w) (zlen p))) p = skipn (Z.to_nat w) (skipn (Z.to_nat off) p).
Proof.
  intros Ho Hw. rewrite skipn_skipn'.
  destruct (Z.le_gt_cases (off + w) (zlen p)) as [H|H].
  - rewrite Z.min_l by lia. f_equal. lia.
  - rewrite Z.min_r by lia. unfold zlen at 1. rewrite Nat2Z.id, skipn_all.
    symmetry. apply skipn_all2. unfold zlen in *. lia.
Qed.

Lemma seg_loop_number seq p : 0 <= seq -> forall c fc off,
  1 <= fc -> fc + Z.of_nat c <= 32 -> 0 <= off <= zlen p ->
  seg_loop c fc off seq p = number fc seq (chunks c (skipn (Z.to_nat off) p)).
Proof.
  intros Hs. induction c as [|c IH]; intros fc off Hfc Hc Ho; [reflexivity|].
  cbn [seg_loop chunks number].
  destruct (Z.eqb_spec fc 0) as [E|_]; [lia|].
  rewrite hdr_byte by lia. rewrite (slice_chunk p off 7 Ho) by lia.
  change (Z.to_nat 7) with 7%nat. cbn [app]. f_equal.
  rewrite IH by lia. rewrite (skipn_next p off 7 Ho) by lia. reflexivity.
Qed.

Lemma total_frames_bounds n : 0 <= n <= 223 -> 1 <= total_frames n <= 32.
Proof.
  intros H. unfold total_frames. destruct (Z.leb_spec n 6); [lia|].
  replace (n - 6 + 7 - 1) with n by lia.
  pose proof (Z.div_mod n 7 ltac:(lia)). pose proof (Z.mod_pos_bound n 7 ltac:(lia)). lia.
Qed.

Definition rest_count (p : list Z) : nat := Z.to_nat (total_frames (zlen p) - 1).

(** the frames as numbered chunks *)
Lemma segment_struct seq p : 0 <= seq -> zlen p <= 223 ->
  segment seq p = (seq * 32 :: zlen p :: firstn 6 p) :: number 1 seq (chunks (rest_count p) (skipn 6 p)).
Proof.
  intros Hs Hn. assert (Hz : 0 <= zlen p) by (unfold zlen; lia).
  pose proof (total_frames_bounds (zlen p) ltac:(lia)) as Ht.
  unfold segment, rest_count.
  replace (Z.to_nat (total_frames (zlen p))) with (S (Z.to_nat (total_frames (zlen p) - 1))) by lia.
  cbn [seg_loop]. cbn [Z.eqb]. rewrite hdr_byte by lia. rewrite Z.add_0_r.
  rewrite (slice_chunk p 0 6) by lia. change (Z.to_nat 6) with 6%nat. change (Z.to_nat 0) with 0%nat.
  cbn [skipn app]. f_equal.
  rewrite seg_loop_number by lia. rewrite (skipn_next p 0 6) by lia. reflexivity.
Qed.

Lemma seg_loop_length seq p : forall c fc off, length (seg_loop c fc off seq p) = c.
Proof. induction c as [|c IH]; intros; simpl; [reflexivity | rewrite IH; reflexivity]. Qed.
Lemma segment_length seq p : length (segment seq p) = Z.to_nat (total_frames (zlen p)).
Proof. apply seg_loop_length. Qed.

(** how many 7-byte chunks follow the first frame: none when at most 6 bytes, else ceil((n-6)/7) *)
Lemma rest_count_spec p : zlen p <= 223 ->
  let L := zlen (skipn 6 p) in let C := Z.of_nat (rest_count p) in
  (L = 0 /\ C = 0) \/ (7 * (C - 1) < L <= 7 * C /\ 1 <= C /\ zlen (firstn 6 p) = 6).
Proof.
  intros Hn. cbv zeta. unfold rest_count. assert (Hz : 0 <= zlen p) by (unfold zlen; lia).
  unfold total_frames. destruct (Z.leb_spec (zlen p) 6) as [H|H].
  - left. split; [|reflexivity]. unfold zlen in *. rewrite skipn_length. lia.
  - right. assert (HL : zlen (skipn 6 p) = zlen p - 6) by (rewrite zlen_skipn; unfold zlen in *; lia).
    rewrite HL. replace (zlen p - 6 + 7 - 1) with (zlen p) by lia.
    replace (1 + zlen p / 7 - 1) with (zlen p / 7) by lia.
    assert (0 <= zlen p / 7) by (apply Z.div_pos; lia). rewrite Z2Nat.id by lia.
    pose proof (Z.div_mod (zlen p) 7 ltac:(lia)). pose proof (Z.mod_pos_bound (zlen p) 7 ltac:(lia)).
    split; [lia|]. split; [lia|]. unfold zlen in *. rewrite firstn_length. lia.
Qed.

Lemma chunks_length c l : length (chunks c l) = c.
Proof. revert l. induction c as [|c IH]; intros l; simpl; [reflexivity | rewrite IH; reflexivity]. Qed.

Lemma chunks_concat : forall c l, (length l <= 7 * c)%nat -> concat (chunks c l) = l.
Proof.
  induction c as [|c IH]; intros l H; cbn [chunks concat].
  - destruct l; [reflexivity | simpl in H; lia].
  - rewrite IH by (rewrite skipn_length; lia). apply firstn_skipn.
Qed.

Lemma chunks_sizes : forall c l, (7 * c < length l + 7)%nat ->
  Forall (fun d => 1 <= zlen d <= 7) (chunks c l) /\ all_but_last_full (chunks c l).
Proof.
  induction c as [|c IH]; intros l H; [split; [constructor | exact I]|].
  cbn [chunks]. assert (Hf : zlen (firstn 7 l) = Z.of_nat (Nat.min 7 (length l))) by (unfold zlen; rewrite firstn_length; reflexivity).
  destruct c as [|c'].
  - split; [|exact I]. constructor; [|constructor]. lia.
  - destruct (IH (skipn 7 l)) as [F A]; [rewrite skipn_length; lia|].
    split; [constructor; [lia | exact F]|]. cbn [all_but_last_full]. cbn [chunks] in A |- *.
    split; [lia | exact A].
Qed.

(** C03_shape, structural form *)
Theorem segment_shape seq p : 0 <= seq < 8 -> zlen p <= 223 ->
  exists d0 cs,
    segment seq p = (seq * 32 :: zlen p :: d0) :: number 1 seq cs /\
    d0 ++ concat cs = p /\ zlen d0 <= 6 /\ (cs <> [] -> zlen d0 = 6) /\
    Forall (fun c => 1 <= zlen c <= 7) cs /\ all_but_last_full cs /\ zlen cs <= 31 /\
    next_seq seq <> seq /\ 0 <= next_seq seq < 8.
Proof.
  intros Hs Hn. exists (firstn 6 p), (chunks (rest_count p) (skipn 6 p)).
  pose proof (rest_count_spec p Hn) as R. cbv zeta in R.
  assert (Hz : 0 <= zlen p) by (unfold zlen; lia).
  pose proof (total_frames_bounds (zlen p) ltac:(lia)) as Ht.
  split; [apply segment_struct; lia|].
  split.
  { rewrite chunks_concat; [apply firstn_skipn|]. unfold zlen in R. lia. }
  split; [unfold zlen; rewrite firstn_length; lia|].
  split.
  { intros Hne. destruct R as [[_ C0]|[_ [_ H6]]]; [|exact H6].
    exfalso. apply Hne. assert (rest_count p = 0%nat) by lia. rewrite H. reflexivity. }
  assert (HS : (7 * rest_count p < length (skipn 6 p) + 7)%nat).
  { unfold zlen in R. lia. }
  destruct (chunks_sizes _ _ HS) as [F A].
  split; [exact F|]. split; [exact A|].
  split; [unfold zlen; rewrite chunks_length; unfold rest_count; lia|].
  unfold next_seq. pose proof (Z.mod_pos_bound (seq + 1) 8 ltac:(lia)).
  split; [|lia]. intros E.
  destruct (Z.eq_dec seq 7) as [->|]; [vm_compute in E; discriminate|].
  rewrite Z.mod_small in E by lia. lia.
Qed.

(* ================================================================================================ *)
(** * Part 9 — the segmenter's output is a well-formed message, also with up to 6 filler bytes *)

Fixpoint index_from (k : Z) (cs : list (list Z)) : list fr :=
  match cs with [] => [] | d :: t => (k, d) :: index_from (k + 1) t end.
Fixpoint app_last (pad : list Z) (cs : list (list Z)) : list (list Z) :=
  match cs with [] => [] | x :: t => match t with [] => [x ++ pad] | _ => x :: app_last pad t end end.
Definition data_chunks (p : list Z) : list (list Z) := firstn 6 p :: chunks (rest_count p) (skipn 6 p).
(** the message a sender makes of payload p: segment's chunks, the last frame followed by `pad` filler bytes *)
Definition mk_msg (seq : Z) (p pad : list Z) : msg :=
  {| m_seq := seq; m_len := zlen p; m_all := index_from 0 (app_last pad (data_chunks p)) |}.
Definition own_events (fs : list fr) : list ev := map (fun kd => Own (fst kd) (snd kd)) fs.

Lemma zlen_app {A} (a b : list A) : zlen (a ++ b) = zlen a + zlen b.
Proof. unfold zlen. rewrite app_length. lia. Qed.

Lemma payload_index : forall cs k, payload_of (index_from k cs) = concat cs.
Proof. unfold payload_of. induction cs as [|d t IH]; intros k; simpl; [reflexivity | rewrite IH; reflexivity]. Qed.
Lemma sum_index : forall cs k, sum_len (index_from k cs) = zlen (concat cs).
Proof.
  induction cs as [|d t IH]; intros k; cbn [index_from sum_len fold_right concat snd]; [reflexivity|].
  fold (sum_len (index_from (k + 1) t)). rewrite IH, zlen_app. reflexivity.
Qed.
Lemma index_keys : forall cs k x d, In (x, d) (index_from k cs) -> k <= x < k + zlen cs /\ In d cs.
Proof.
  induction cs as [|c t IH]; intros k x d H; simpl in H; [contradiction|].
  unfold zlen. cbn [length]. destruct H as [E|H].
  - inversion E; subst. split; [lia | left; reflexivity].
  - destruct (IH _ _ _ H) as [R I]. unfold zlen in R. split; [lia | right; exact I].
Qed.
Lemma index_sorted : forall cs k, StronglySorted keylt (index_from k cs).
Proof.
  induction cs as [|c t IH]; intros k; simpl; constructor; [apply IH|].
  apply Forall_forall. intros [x d] H. apply index_keys in H. unfold keylt. simpl. lia.
Qed.
Lemma index_fst_length : forall cs1 cs2 k, length cs1 = length cs2 ->
  map fst (index_from k cs1) = map fst (index_from k cs2).
Proof.
  induction cs1 as [|a t IH]; intros [|b t2] k H; simpl in *; try discriminate; [reflexivity|].
  f_equal. apply IH. lia.
Qed.
Lemma index_nodup : forall cs k, NoDup (map fst (index_from k cs)).
Proof.
  induction cs as [|c t IH]; intros k; simpl; constructor; [|apply IH].
  intros H. apply in_map_iff in H. destruct H as [[x d] [E H]]. simpl in E. subst x.
  apply index_keys in H. lia.
Qed.

Lemma app_last_concat pad : forall cs, cs <> [] -> concat (app_last pad cs) = concat cs ++ pad.
Proof.
  induction cs as [|x t IH]; intros H; [contradiction|]. cbn [app_last]. destruct t as [|y t'].
  - simpl. rewrite !app_nil_r. reflexivity.
  - cbn [concat]. rewrite IH by discriminate. cbn [concat]. rewrite <- !app_assoc. reflexivity.
Qed.
Lemma app_last_length pad : forall cs, length (app_last pad cs) = length cs.
Proof.
  induction cs as [|x t IH]; [reflexivity|]. cbn [app_last]. destruct t; [reflexivity|].
  cbn [length] in *. rewrite IH. reflexivity.
Qed.
Lemma app_last_nil : forall cs, app_last [] cs = cs.
Proof.
  induction cs as [|x t IH]; [reflexivity|]. cbn [app_last]. destruct t; [rewrite app_nil_r; reflexivity|].
  rewrite IH. reflexivity.
Qed.
Lemma app_last_big pad : zlen pad <= 6 -> forall cs,
  Forall (fun c => 1 <= zlen c <= 7) cs -> all_but_last_full cs ->
  Forall (fun d => zlen pad < zlen d) (app_last pad cs).
Proof.
  intros Hp. induction cs as [|x t IH]; intros F A; [constructor|].
  inversion F as [|? ? Hx Ft]; subst. cbn [app_last]. destruct t as [|y t'].
  - constructor; [rewrite zlen_app; lia | constructor].
  - cbn [all_but_last_full] in A. destruct A as [H7 A]. constructor; [lia|]. apply IH; assumption.
Qed.

Lemma data_chunks_facts p : zlen p <= 223 ->
  concat (data_chunks p) = p /\ (length (data_chunks p) <= 32)%nat /\
  Forall (fun c => 1 <= zlen c <= 7) (chunks (rest_count p) (skipn 6 p)) /\
  all_but_last_full (chunks (rest_count p) (skipn 6 p)).
Proof.
  intros Hn. pose proof (rest_count_spec p Hn) as R. cbv zeta in R.
  assert (Hz : 0 <= zlen p) by (unfold zlen; lia).
  pose proof (total_frames_bounds (zlen p) ltac:(lia)) as Ht.
  unfold data_chunks. split.
  { cbn [concat]. rewrite chunks_concat; [apply firstn_skipn|]. unfold zlen in R. lia. }
  split; [cbn [length]; rewrite chunks_length; unfold rest_count; lia|].
  apply chunks_sizes. unfold zlen in R. lia.
Qed.

Theorem padded_msg_ok seq p pad : 0 <= seq < 8 -> zlen p <= 223 -> zlen pad <= 6 ->
  msg_ok (mk_msg seq p pad) /\ m_payload (mk_msg seq p pad) = p.
Proof.
  intros Hs Hn Hp. destruct (data_chunks_facts p Hn) as [Hc [Hl [F A]]].
  assert (Hne : data_chunks p <> []) by (unfold data_chunks; discriminate).
  assert (Hsum : sum_len (m_all (mk_msg seq p pad)) = zlen p + zlen pad).
  { cbn [m_all mk_msg]. rewrite sum_index, app_last_concat, Hc, zlen_app by exact Hne. reflexivity. }
  assert (Hzp : 0 <= zlen pad) by (unfold zlen; lia).
  split.
  - constructor.
    + exact Hs.
    + cbn [m_len mk_msg]. unfold zlen; lia.
    + apply index_sorted.
    + intros [x d] H. cbn [m_all mk_msg] in H. apply index_keys in H. cbn [fst].
      unfold zlen in H. rewrite app_last_length in H. lia.
    + cbn [m_all mk_msg]. unfold data_chunks. cbn [app_last].
      destruct (chunks (rest_count p) (skipn 6 p)); cbn [index_from]; eexists _, _; reflexivity.
    + rewrite Hsum. cbn [m_len mk_msg]. lia.
    + intros k d Hin Hk. rewrite Hsum. cbn [m_len mk_msg]. cbn [m_all mk_msg] in Hin.
      enough (zlen pad < zlen d) by lia.
      unfold data_chunks in Hin. cbn [app_last] in Hin.
      destruct (chunks (rest_count p) (skipn 6 p)) as [|y t] eqn:Ec.
      * cbn [index_from In] in Hin. destruct Hin as [E|[]]. inversion E; subst; contradiction.
      * cbn [index_from In] in Hin. destruct Hin as [E|Hin]; [inversion E; subst; contradiction|].
        apply index_keys in Hin. destruct Hin as [_ Hin].
        pose proof (app_last_big pad Hp (y :: t) F A) as B. rewrite Forall_forall in B. apply B, Hin.
  - unfold m_payload. cbn [m_len m_all mk_msg]. rewrite payload_index, app_last_concat, Hc by exact Hne.
    unfold zlen. rewrite Nat2Z.id, firstn_app, firstn_all, Nat.sub_diag. cbn [firstn]. apply app_nil_r.
Qed.

Lemma number_index m : forall cs k, map (frame_of m) (own_events (index_from k cs)) = number k (m_seq m) cs.
Proof. induction cs as [|c t IH]; intros k; simpl; [reflexivity | rewrite IH; reflexivity]. Qed.

(** segment's frames are the first frame of mk_msg followed by its other frames in order *)
Lemma segment_as_episode seq p : 0 <= seq -> zlen p <= 223 ->
  segment seq p = ep_frames (mk_msg seq p []) (own_events (tl (m_all (mk_msg seq p [])))).
Proof.
  intros Hs Hn. rewrite segment_struct by assumption.
  unfold ep_frames, first_frame, first_data. cbn [m_all m_seq m_len mk_msg].
  rewrite app_last_nil. unfold data_chunks. cbn [index_from tl]. rewrite number_index. reflexivity.
Qed.

(* ================================================================================================ *)
(** * Part 10 — in-order arrival: C03_inverse, C03_sequence *)

Lemma in_order_go dok m : forall t2 t1 seen d0,
  m_all m = (0, d0) :: t1 ++ t2 -> NoDup (map fst (m_all m)) ->
  (forall x, inb x seen = true <-> x = 0 \/ In x (map fst t1)) ->
  spec_go dok m seen (own_events t2) =
  match t2 with [] => [] | _ :: t2' => repeat Nothing (length t2') ++ [call dok (m_payload m)] end.
Proof.
  induction t2 as [|[k d] t2 IH]; intros t1 seen d0 Hall Hnd Hseen; [reflexivity|].
  cbn [own_events map spec_go fst snd]. rewrite spec_step_eq. cbn [add_ev].
  assert (Hkeys : map fst (m_all m) = 0 :: map fst t1 ++ k :: map fst t2).
  { rewrite Hall. cbn [map fst]. rewrite map_app. reflexivity. }
  rewrite Hkeys in Hnd.
  assert (Hk : inb k seen = false).
  { destruct (inb k seen) eqn:E; [|reflexivity]. exfalso. apply Hseen in E.
    inversion Hnd as [|? ? N0 Nd]; subst. destruct E as [->|E].
    - apply N0. apply in_or_app. right. left. reflexivity.
    - apply NoDup_remove_2 in Nd. apply Nd. apply in_or_app. left. exact E. }
  rewrite Hk.
  assert (Hc : covers seen m = false).
  { destruct (covers seen m) eqn:E; [|reflexivity]. rewrite covers_spec in E.
    specialize (E (k, d)). cbn [fst] in E. rewrite Hk in E. symmetry. apply E.
    rewrite Hall. right. apply in_or_app. right. left. reflexivity. }
  rewrite Hc. cbn [negb andb].
  assert (Hseen' : forall x, inb x (k :: seen) = true <-> x = 0 \/ In x (map fst (t1 ++ [(k, d)]))).
  { intros x. rewrite inb_cons, orb_true_iff, Hseen, map_app, in_app_iff, Z.eqb_eq. simpl. intuition. }
  specialize (IH (t1 ++ [(k, d)]) (k :: seen) d0).
  rewrite <- app_assoc in IH. specialize (IH Hall).
  rewrite Hkeys in IH. specialize (IH Hnd Hseen'). unfold own_events in IH. rewrite IH.
  destruct t2 as [|[k' d'] t2'].
  - assert (C : covers (k :: seen) m = true).
    { apply covers_spec. intros [x dx] Hx. cbn [fst]. apply Hseen'. rewrite Hall in Hx.
      destruct Hx as [E|Hx]; [inversion E; left; reflexivity|]. right.
      replace x with (fst (x, dx)) by reflexivity. apply in_map. exact Hx. }
    rewrite C. reflexivity.
  - assert (C : covers (k :: seen) m = false).
    { destruct (covers (k :: seen) m) eqn:E; [|reflexivity]. exfalso. rewrite covers_spec in E.
      assert (Hin : In (k', d') (m_all m)).
      { rewrite Hall. right. apply in_or_app. right. right. left. reflexivity. }
      specialize (E _ Hin). cbn [fst] in E. apply Hseen' in E.
      inversion Hnd as [|? ? N0 Nd]; subst. destruct E as [->|E].
      - apply N0. apply in_or_app. right. right. left. reflexivity.
      - rewrite map_app in E. cbn [map fst] in E.
        replace (map fst t1 ++ k :: k' :: map fst t2') with ((map fst t1 ++ [k]) ++ k' :: map fst t2') in Nd
          by (rewrite <- app_assoc; reflexivity).
        apply NoDup_remove_2 in Nd. apply Nd. apply in_or_app. left. exact E. }
    rewrite C. reflexivity.
Qed.

Lemma in_order_ep dok m d0 t : m_all m = (0, d0) :: t -> NoDup (map fst (m_all m)) ->
  spec_ep dok m (own_events t) = repeat Nothing (length t) ++ [call dok (m_payload m)].
Proof.
  intros Hall Hnd. unfold spec_ep.
  assert (Hs : forall x, inb x [0] = true <-> x = 0 \/ In x (map fst (@nil fr))).
  { intros x. unfold inb. simpl. rewrite orb_false_r, Z.eqb_eq. tauto. }
  rewrite (in_order_go dok m t [] [0] d0 Hall Hnd Hs).
  destruct t as [|[k d] t'].
  - assert (C : covers [0] m = true) by (unfold covers; rewrite Hall; reflexivity). rewrite C. reflexivity.
  - assert (C : covers [0] m = false).
    { unfold covers. rewrite Hall. cbn [forallb fst]. change (inb 0 [0]) with true. cbn [andb].
      assert (k <> 0).
      { rewrite Hall in Hnd. cbn [map fst] in Hnd. inversion Hnd as [|? ? N0 _]; subst.
        intros ->. apply N0. left. reflexivity. }
      unfold inb. simpl. destruct (Z.eqb_spec k 0); [contradiction | reflexivity]. }
    rewrite C. reflexivity.
Qed.

Lemma deliver_deletes dok st can st' p : fp_step dok st can = (st', Deliver p) -> st' = None.
Proof.
  unfold fp_step, finish. destruct can as [|b0 rest]; [intros E; inversion E|].
  repeat match goal with
         | |- context [if ?c then _ else _] => destruct c
         | |- context [match ?x with [] => _ | _ :: _ => _ end] => destruct x
         end; intros E; inversion E; reflexivity.
Qed.

Lemma run_last_deliver dok : forall fs st st' os p, run dok st fs = (st', os ++ [Deliver p]) -> st' = None.
Proof.
  induction fs as [|f fs _] using rev_ind; intros st st' os p H.
  - simpl in H. inversion H. destruct os; discriminate.
  - rewrite run_app in H. destruct (run dok st fs) as [st1 o1]. cbn [run] in H.
    destruct (fp_step dok st1 f) as [st2 o] eqn:St. inversion H; subst.
    apply app_inj_tail in H2. destruct H2 as [_ ->]. exact (deliver_deletes dok st1 f st' p St).
Qed.

(** C03_inverse for one key *)
Theorem inverse_run dok seq p st : 0 <= seq < 8 -> zlen p <= 223 -> fresh seq st ->
  exists st', run dok st (segment seq p) = (st', repeat Nothing (length (segment seq p) - 1) ++ [call dok p]) /\
              settled seq st' /\ (dok p = true -> st' = None).
Proof.
  intros Hs Hn F.
  destruct (padded_msg_ok seq p [] Hs Hn ltac:(unfold zlen; simpl; lia)) as [OK Hpay].
  set (m := mk_msg seq p []) in *.
  destruct (ok_first m OK) as [d0 [t Hall]].
  assert (Hev : Forall (ev_ok m) (own_events t)).
  { apply Forall_forall. intros e He. unfold own_events in He. apply in_map_iff in He.
    destruct He as [[k d] [<- Hin]]. cbn [ev_ok fst snd]. split; [rewrite Hall; right; exact Hin|].
    pose proof (ok_sort m OK) as S. rewrite Hall in S. pose proof (sorted_head_lt _ _ S _ Hin) as L.
    simpl in L. lia. }
  assert (Hseg : segment seq p = ep_frames m (own_events t)).
  { rewrite segment_as_episode by lia. fold m. rewrite Hall. reflexivity. }
  destruct (episode_refines dok m (own_events t) st OK Hev F) as [st' [R S']].
  assert (Hnd : NoDup (map fst (m_all m))) by apply index_nodup.
  rewrite (in_order_ep dok m d0 t Hall Hnd), Hpay in R.
  exists st'. rewrite Hseg.
  assert (Hlen : (length (ep_frames m (own_events t)) - 1 = length t)%nat).
  { unfold ep_frames, own_events. cbn [length]. rewrite !map_length. lia. }
  rewrite Hlen. split; [exact R|]. split; [exact S'|].
  intros Hd. unfold call in R. rewrite Hd in R. exact (run_last_deliver dok _ _ _ _ _ R).
Qed.

(** C03_sequence: any list of payloads through one encoder, counter wrap-around included *)
Theorem sequence_run dok : forall ps seq st, 0 <= seq < 8 -> Forall (fun p => zlen p <= 223) ps -> fresh seq st ->
  snd (run dok st (concat (enc_run seq ps))) =
  concat (map (fun p => repeat Nothing (Z.to_nat (total_frames (zlen p)) - 1) ++ [call dok p]) ps).
Proof.
  induction ps as [|p ps IH]; intros seq st Hs Hps F; [reflexivity|].
  inversion Hps as [|? ? Hp Hps']; subst. cbn [enc_run concat map].
  rewrite run_app. destruct (inverse_run dok seq p st Hs Hp F) as [st1 [R [S1 _]]].
  rewrite R, segment_length.
  assert (Hn : next_seq seq <> seq /\ 0 <= next_seq seq < 8).
  { destruct (segment_shape seq p Hs Hp) as [? [? H]]. tauto. }
  specialize (IH (next_seq seq) st1 (proj2 Hn) Hps' (settled_fresh seq _ st1 S1 (proj1 Hn) (proj1 (proj2 Hn)))).
  destruct (run dok st1 (concat (enc_run (next_seq seq) ps))) as [st2 os]. cbn [snd] in *. rewrite IH. reflexivity.
Qed.

(* ================================================================================================ *)
(** * Part 11 — padding independence (repaired code) and its failure before the repair *)

Definition ev_key (e : ev) : option Z := match e with Own k _ => Some k | Stale _ _ => None end.

Lemma covers_keys seen m : covers seen m = forallb (fun k => inb k seen) (map fst (m_all m)).
Proof. unfold covers. induction (m_all m) as [|a l IH]; simpl; [reflexivity | rewrite IH; reflexivity]. Qed.

(** the reference depends on the message only through its payload and its set of frame counters, and on the
    events only through their frame counters *)
Lemma spec_ep_keys dok m1 m2 es1 es2 :
  m_payload m1 = m_payload m2 -> map fst (m_all m1) = map fst (m_all m2) -> map ev_key es1 = map ev_key es2 ->
  spec_ep dok m1 es1 = spec_ep dok m2 es2.
Proof.
  intros Hp Hk He.
  assert (Hc : forall seen, covers seen m1 = covers seen m2) by (intros; rewrite !covers_keys, Hk; reflexivity).
  unfold spec_ep. rewrite Hc, Hp. f_equal.
  generalize [0]. revert es2 He. induction es1 as [|e1 es1 IH]; intros [|e2 es2] He seen; simpl in He; try discriminate; [reflexivity|].
  inversion He as [[Hk1 Hrest]]. cbn [spec_go]. rewrite !spec_step_eq.
  assert (Ha : add_ev seen e1 = add_ev seen e2).
  { destruct e1, e2; simpl in Hk1; try discriminate; [inversion Hk1; subst; reflexivity | reflexivity]. }
  rewrite Ha, !Hc, Hp. f_equal. apply IH. exact Hrest.
Qed.

(** C04_padding: two transmissions of the same payload that differ in the filler bytes after the announced length
    (and in the content of stale frames), received under the same schedule of frame counters, produce the same
    outputs, and every call carries exactly the payload *)
Theorem padding_independent dok seq p pad1 pad2 es1 es2 st1 st2 :
  0 <= seq < 8 -> zlen p <= 223 -> zlen pad1 <= 6 -> zlen pad2 <= 6 ->
  Forall (ev_ok (mk_msg seq p pad1)) es1 -> Forall (ev_ok (mk_msg seq p pad2)) es2 ->
  map ev_key es1 = map ev_key es2 -> fresh seq st1 -> fresh seq st2 ->
  snd (run dok st1 (ep_frames (mk_msg seq p pad1) es1)) = snd (run dok st2 (ep_frames (mk_msg seq p pad2) es2)) /\
  forall o, In o (snd (run dok st1 (ep_frames (mk_msg seq p pad1) es1))) -> o = Nothing \/ o = call dok p.
Proof.
  intros Hs Hn Hp1 Hp2 He1 He2 Hk F1 F2.
  destruct (padded_msg_ok seq p pad1 Hs Hn Hp1) as [OK1 Pay1].
  destruct (padded_msg_ok seq p pad2 Hs Hn Hp2) as [OK2 Pay2].
  destruct (episode_refines dok _ es1 st1 OK1 He1 F1) as [st1' [R1 _]].
  destruct (episode_refines dok _ es2 st2 OK2 He2 F2) as [st2' [R2 _]].
  rewrite R1, R2. cbn [snd]. split.
  - apply spec_ep_keys; [rewrite Pay1, Pay2; reflexivity | | exact Hk].
    cbn [m_all mk_msg]. apply index_fst_length. rewrite !app_last_length. reflexivity.
  - intros o Ho. rewrite <- Pay1. exact (spec_ep_safe dok _ es1 o Ho).
Qed.

(** before fixes/F-pad.patch: the same 10-byte message with filler 0xFF / 0x00 is delivered differently *)
Fixpoint run_unrepaired (dok : list Z -> bool) (st : option rec) (fs : list (list Z)) : list out :=
  match fs with
  | [] => []
  | f :: t => let '(st', o) := fp_step_unrepaired dok st f in o :: run_unrepaired dok st' t
  end.
Example unrepaired_depends_on_padding :
  run_unrepaired (fun _ => true) None [[64; 10; 1; 2; 3; 4; 5; 6]; [65; 7; 8; 9; 10; 255; 255; 255]]
  <> run_unrepaired (fun _ => true) None [[64; 10; 1; 2; 3; 4; 5; 6]; [65; 7; 8; 9; 10; 0; 0; 0]].
Proof. vm_compute. discriminate. Qed.
Example repaired_ignores_padding :
  snd (run (fun _ => true) None [[64; 10; 1; 2; 3; 4; 5; 6]; [65; 7; 8; 9; 10; 255; 255; 255]])
  = [Nothing; Deliver [1; 2; 3; 4; 5; 6; 7; 8; 9; 10]].
Proof. vm_compute. reflexivity. Qed.

(* ================================================================================================ *)
(** * Part 12 — C03 inside an arbitrary global history; the encoder method *)

Theorem inverse_in_history isfast dok h g k seq p :
  isfast (fst (fst k)) = Some true -> proj k h = segment seq p ->
  0 <= seq < 8 -> zlen p <= 223 -> fresh seq (lookup k g) ->
  proj k (snd (dec_run isfast dok g h)) = repeat Nothing (length (segment seq p) - 1) ++ [call (dok k) p] /\
  (dok k p = true -> lookup k (fst (dec_run isfast dok g h)) = None).
Proof.
  intros Hf Hp Hs Hn F. destruct (dec_run_proj isfast dok k Hf h g) as [E1 E2]. rewrite E1, E2, Hp.
  destruct (inverse_run (dok k) seq p (lookup k g) Hs Hn F) as [st' [R [_ D]]]. rewrite R. split; [reflexivity | exact D].
Qed.

Lemma encode_fast_ok seq p : zlen p <= 223 -> encode_fast seq p = (Ok (segment seq p), next_seq seq).
Proof. intros H. unfold encode_fast. destruct (Z.ltb_spec 255 (zlen p)); [lia | reflexivity]. Qed.

(** concrete instances used as non-vacuity examples in props/C03.v, props/C04.v *)
Definition ex_isfast (pgn : Z) : option bool := if (pgn =? 126720) || (pgn =? 130816) then Some true else None.
Definition ex_payload : list Z := [1; 2; 3; 4; 5; 6; 7; 8; 9; 10; 11; 12; 13; 14; 15].
Definition ex_msg : msg := mk_msg 7 ex_payload [255; 255; 255; 255; 255].
Definition ex_events : list ev :=
  [Own 2 [14; 15; 255; 255; 255; 255; 255]; Stale 33 [9; 9; 9]; Own 2 [14; 15; 255; 255; 255; 255; 255];
   Own 1 [7; 8; 9; 10; 11; 12; 13]; Own 1 [7; 8; 9; 10; 11; 12; 13]].
Definition ex_history : list (key * list Z) :=
  let a := (126720, 5, 9) in let b := (126720, 6, 9) in
  match ep_frames ex_msg ex_events with
  | f0 :: f1 :: rest => (a, f0) :: (b, [64; 3; 1; 2; 3]) :: (a, f1) :: (b, [33; 1]) :: map (fun f => (a, f)) rest
  | _ => []
  end.
Lemma ex_hyps :
  ep_ok (ex_msg, ex_events) /\ chain_from (-1) [(ex_msg, ex_events)] /\
  proj (126720, 5, 9) ex_history = stream_frames [(ex_msg, ex_events)] /\
  map snd (snd (dec_run ex_isfast (fun _ _ => true) [] ex_history)) =
  [Nothing; Deliver [1; 2; 3]; Nothing; Nothing; Nothing; Nothing; Deliver ex_payload; Nothing].
Proof.
  split; [split|].
  - apply (padded_msg_ok 7 ex_payload [255; 255; 255; 255; 255]); vm_compute; intuition discriminate.
  - cbn [fst snd]. unfold ex_events.
    repeat (apply Forall_cons || apply Forall_nil);
      (solve [split; [vm_compute; auto 10 | discriminate]] || solve [split; vm_compute; intro; discriminate]).
  - split; [vm_compute; intuition discriminate|]. split; vm_compute; reflexivity.
Qed.

(* ================================================================================================ *)
(** * Part 13 — the dictionary key f"{pgn}_{src}_{dest}" (decoder.py:96) is injective on integers *)

Fixpoint digits (u : Decimal.uint) : list Z :=
  match u with
  | Decimal.Nil => []
  | Decimal.D0 u => 48 :: digits u | Decimal.D1 u => 49 :: digits u | Decimal.D2 u => 50 :: digits u
  | Decimal.D3 u => 51 :: digits u | Decimal.D4 u => 52 :: digits u | Decimal.D5 u => 53 :: digits u
  | Decimal.D6 u => 54 :: digits u | Decimal.D7 u => 55 :: digits u | Decimal.D8 u => 56 :: digits u
  | Decimal.D9 u => 57 :: digits u
  end.
(** str(z) of a Python int as ASCII codes: '-' = 45, '0'..'9' = 48..57 *)
Definition pystr (z : Z) : list Z :=
  match Z.to_int z with Decimal.Pos u => digits u | Decimal.Neg u => 45 :: digits u end.
(** '_' = 95 *)
Definition key_string (k : key) : list Z :=
  let '(p, s, d) := k in pystr p ++ 95 :: pystr s ++ 95 :: pystr d.

Lemma digits_inj : forall u v, digits u = digits v -> u = v.
Proof. induction u; destruct v; simpl; intros E; try discriminate; try reflexivity; inversion E; f_equal; auto. Qed.

Lemma digits_range u : Forall (fun c => 48 <= c <= 57) (digits u).
Proof. induction u; simpl; constructor; try lia; assumption. Qed.

Lemma pystr_inj a b : pystr a = pystr b -> a = b.
Proof.
  unfold pystr. intros E. rewrite <- (DecimalZ.of_to a), <- (DecimalZ.of_to b).
  destruct (Z.to_int a) as [u|u], (Z.to_int b) as [v|v].
  - apply digits_inj in E. subst. reflexivity.
  - exfalso. pose proof (digits_range u) as R. rewrite E in R. inversion R; lia.
  - exfalso. pose proof (digits_range v) as R. rewrite <- E in R. inversion R; lia.
  - inversion E as [E']. apply digits_inj in E'. subst. reflexivity.
Qed.

Lemma pystr_no_sep a : ~ In 95 (pystr a).
Proof.
  unfold pystr. destruct (Z.to_int a) as [u|u]; intros H.
  - pose proof (digits_range u) as R. rewrite Forall_forall in R. specialize (R _ H). lia.
  - destruct H as [H|H]; [discriminate|].
    pose proof (digits_range u) as R. rewrite Forall_forall in R. specialize (R _ H). lia.
Qed.

Lemma split_at_sep (c : Z) : forall a a' b b', ~ In c a -> ~ In c a' ->
  a ++ c :: b = a' ++ c :: b' -> a = a' /\ b = b'.
Proof.
  induction a as [|x a IH]; intros [|y a'] b b' Ha Ha' E; simpl in E.
  - inversion E. auto.
  - inversion E; subst. exfalso. apply Ha'. left. reflexivity.
  - inversion E; subst. exfalso. apply Ha. left. reflexivity.
  - inversion E; subst. destruct (IH a' b b') as [-> ->]; auto.
    + intros H. apply Ha. right. exact H.
    + intros H. apply Ha'. right. exact H.
Qed.

Theorem key_string_inj k k' : key_string k = key_string k' -> k = k'.
Proof.
  destruct k as [[p s] d], k' as [[p' s'] d']. unfold key_string. intros E.
  apply split_at_sep in E; try apply pystr_no_sep. destruct E as [Ep E].
  apply split_at_sep in E; try apply pystr_no_sep. destruct E as [Es Ed].
  apply pystr_inj in Ep, Es, Ed. subst. reflexivity.
Qed.

Example key_string_example : key_string (126720, 5, 255) = [49; 50; 54; 55; 50; 48; 95; 53; 95; 50; 53; 53].
Proof. vm_compute. reflexivity. Qed.

(* ================================================================================================ *)
(** * Part 14 — a stream that starts with stray non-first frames (e.g. the very first frame was lost) *)

Theorem stream_with_prologue dok pro eps st :
  (st = None \/ st = Some new_rec) ->
  Forall (fun f => match f with [] => False | b0 :: _ => Z.land b0 31 <> 0 end) pro ->
  Forall ep_ok eps -> chain_from (-1) eps ->
  snd (run dok st (pro ++ stream_frames eps)) = repeat Nothing (length pro) ++ concat (stream_spec dok eps).
Proof.
  intros Hst Hpro Hok Hch. rewrite run_app.
  destruct (prologue_ignored dok pro st Hst Hpro) as [st1 [R S1]]. rewrite R.
  assert (Hs : settled (-1) st1).
  { destruct S1 as [-> | ->]; [left; reflexivity | right; exists new_rec; split; [reflexivity | right; reflexivity]]. }
  destruct (stream_refines dok eps (-1) st1 Hok Hch Hs) as [st' R']. rewrite R'. reflexivity.
Qed.

(** * n-ary interleaving as an inductive relation, and its link to the projections used above *)
Inductive Interleave {A : Type} : list (key * list A) -> list (key * A) -> Prop :=
| il_done : forall ss, Forall (fun s => snd s = []) ss -> Interleave ss []
| il_step : forall ss1 k x xs ss2 h,
    Interleave (ss1 ++ (k, xs) :: ss2) h -> Interleave (ss1 ++ (k, x :: xs) :: ss2) ((k, x) :: h).

Lemma nodup_mid_unique {A} (ss1 ss2 : list (key * list A)) k xs k' ys :
  NoDup (map fst (ss1 ++ (k, xs) :: ss2)) -> In (k', ys) (ss1 ++ (k, xs) :: ss2) ->
  (k' = k /\ ys = xs) \/ (k' <> k /\ (In (k', ys) ss1 \/ In (k', ys) ss2)).
Proof.
  intros Hnd Hin. rewrite map_app in Hnd. cbn [map fst] in Hnd.
  pose proof (NoDup_remove_2 _ _ _ Hnd) as Hk.
  apply in_app_or in Hin. destruct Hin as [H|[E|H]].
  - right. split; [|left; exact H]. intros ->. apply Hk. apply in_or_app. left.
    change k with (fst (k, ys)). apply in_map. exact H.
  - inversion E; subst. left. split; reflexivity.
  - right. split; [|right; exact H]. intros ->. apply Hk. apply in_or_app. right.
    change k with (fst (k, ys)). apply in_map. exact H.
Qed.

(** every interleaving of streams with distinct keys projects back onto each stream *)
Theorem interleave_proj {A} (ss : list (key * list A)) h :
  Interleave ss h -> NoDup (map fst ss) -> forall k xs, In (k, xs) ss -> proj k h = xs.
Proof.
  induction 1 as [ss Hall | ss1 k x xs ss2 h HI IH]; intros Hnd k' ys Hin.
  - rewrite Forall_forall in Hall. specialize (Hall _ Hin). simpl in Hall. subst. reflexivity.
  - assert (Hnd' : NoDup (map fst (ss1 ++ (k, xs) :: ss2))).
    { rewrite map_app in *. exact Hnd. }
    unfold proj. cbn [filter fst].
    destruct (nodup_mid_unique ss1 ss2 k (x :: xs) k' ys Hnd Hin) as [[-> ->] | [Hne Hin']].
    + rewrite key_eqb_refl. cbn [map snd]. f_equal.
      apply (IH Hnd' k xs). apply in_or_app. right. left. reflexivity.
    + apply key_eqb_neq in Hne. rewrite Hne. apply (IH Hnd' k' ys).
      apply in_or_app. destruct Hin' as [H|H]; [left; exact H | right; right; exact H].
Qed.

(** C04 master statement phrased with the inductive interleaving: any number of streams with distinct keys, merged
    in any order; the outputs of each stream are the set-based reference of its own episodes *)
Theorem interleaved_streams isfast dok (ss : list (key * list (list Z))) h g k eps s :
  Interleave ss h -> NoDup (map fst ss) -> In (k, stream_frames eps) ss ->
  isfast (fst (fst k)) = Some true -> Forall ep_ok eps -> chain_from s eps -> settled s (lookup k g) ->
  proj k (snd (dec_run isfast dok g h)) = concat (stream_spec (dok k) eps).
Proof.
  intros HI Hnd Hin Hf Hok Hch Hst.
  apply (stream_in_history isfast dok h g k eps s Hf); try assumption.
  exact (interleave_proj ss h HI Hnd k _ Hin).
Qed.
