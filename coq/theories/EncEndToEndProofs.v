(* EncEndToEndProofs.v — the composition theorems for the encoder end to end (model: EncEndToEnd.v).

   Part A (encoder side, generic in the tables): what `enc_step` emits —
     enc_step_single   a single-frame PGN: the wire encoder applied to the ONE payload, counter unchanged
     enc_step_fast     a fast-packet PGN: the wire encoder applied to `segment seq payload`, counter advanced
     enc_step_acti     Actisense: one line with the whole payload, counter untouched
     find_encoder_of_def  the name lookup of `_call_encode_function` reaches the function the template binds
     run_edef_of_def   the length check `x < 256^n` of the generated `to_bytes` cannot fail for a `layout_ok`
                       definition (every field ends inside the declared length), and le_int (payload) = x
   Part B (decoder side): decoding depends only on the bits of the fields (Spec's locality, in the form used here):
     spec_decode_agree / spec_select_agree
   Part C: the generic composition lemmas used by the per-run instance tools/templates/OblEncE2E.v
     (theorems ENC_E2E_ebyte / ENC_E2E_usb / ENC_E2E_actisense / ENC_E2E_fast_frames). *)
From NV Require Import Base Bits Defn PyNum Fields Dispatch DispatchProofs Template TemplateEnc Encode Spec SpecProofs
                       EncodeProofs RoundTrip Header HeaderProofs PyText Wire WireProofs FastPacket FastPacketProofs
                       DecoderCtl EndToEnd EndToEndProofs EncEndToEnd.

(* ====================================================================== *)
(* Part A — the encoder                                                     *)
(* ====================================================================== *)

(* ---- little-endian bytes ---- *)
Lemma le_bytes_length : forall n x, length (le_bytes n x) = n.
Proof. induction n as [|n IH]; intros x; cbn [le_bytes length]; [reflexivity | rewrite IH; reflexivity]. Qed.

Lemma le_bytes_ok : forall n x, bytes_ok (le_bytes n x) = true.
Proof.
  induction n as [|n IH]; intros x; cbn [le_bytes bytes_ok forallb]; [reflexivity|].
  fold (bytes_ok (le_bytes n (x / 256))). rewrite IH. unfold byte_ok.
  pose proof (Z.mod_pos_bound x 256 ltac:(lia)). replace (0 <=? x mod 256) with true by lia.
  replace (x mod 256 <? 256) with true by lia. reflexivity.
Qed.

(* int.from_bytes(x.to_bytes(n, "little"), "little") = x *)
Lemma le_int_le_bytes : forall n x, 0 <= x < 256 ^ Z.of_nat n -> le_int (le_bytes n x) = x.
Proof.
  induction n as [|n IH]; intros x Hx.
  - cbn [le_bytes le_int]. change (256 ^ Z.of_nat 0) with 1 in Hx. lia.
  - cbn [le_bytes le_int].
    assert (E : 256 ^ Z.of_nat (S n) = 256 * 256 ^ Z.of_nat n).
    { rewrite Nat2Z.inj_succ, Z.pow_succ_r by lia. reflexivity. }
    rewrite E in Hx.
    rewrite IH.
    + pose proof (Z.div_mod x 256 ltac:(lia)). lia.
    + split; [apply Z.div_pos; lia | apply Z.div_lt_upper_bound; lia].
Qed.

(* ---- the integer a generated encoder builds is non-negative and ends where its last field ends ---- *)
Lemma put_nonneg acc v off len : 0 <= acc -> 0 <= len -> 0 <= put acc v off len.
Proof.
  intros Ha Hl. unfold put. apply Z.lor_nonneg. split; [exact Ha|].
  apply Z.shiftl_nonneg. apply Z.land_nonneg. right.
  rewrite Z.ones_equiv. pose proof (Z.pow_pos_nonneg 2 len ltac:(lia) Hl). lia.
Qed.

Lemma fold_put_nonneg : forall vs acc, Forall fwf vs -> 0 <= acc -> 0 <= fold_left put_fld vs acc.
Proof.
  induction vs as [|[[v o] l] vs IH]; intros acc W Ha; cbn [fold_left put_fld]; [exact Ha|].
  inversion W as [|? ? Wa W']; subst. destruct Wa as [_ Hl]. apply IH; [exact W'|]. apply put_nonneg; assumption.
Qed.

Lemma high_bits_bound x N : 0 <= x -> 0 <= N -> (forall i, N <= i -> Z.testbit x i = false) -> x < 2 ^ N.
Proof.
  intros Hx HN Hb. destruct (Z.eq_dec x 0) as [->|Nz]; [apply Z.pow_pos_nonneg; lia|].
  assert (Hp : 0 < x) by lia.
  apply Z.log2_lt_pow2; [exact Hp|].
  destruct (Z.lt_ge_cases (Z.log2 x) N) as [L|G]; [exact L|].
  pose proof (Z.bit_log2 x Hp) as B. rewrite (Hb _ G) in B. discriminate.
Qed.

Lemma fold_put_bound vs N : Forall fwf vs -> 0 <= N ->
  (forall v off len, In (v, off, len) vs -> off + len <= N) ->
  0 <= fold_left put_fld vs 0 < 2 ^ N.
Proof.
  intros W HN Hb. split; [apply fold_put_nonneg; [exact W | lia]|].
  apply high_bits_bound; [apply fold_put_nonneg; [exact W | lia] | exact HN |].
  intros i Hi. rewrite fold_put_fld, testbit_fold by (try lia; exact W).
  rewrite Z.bits_0. cbn [orb].
  match goal with |- existsb ?f vs = false => destruct (existsb f vs) eqn:E end; [|reflexivity]. exfalso.
  apply existsb_exists in E. destruct E as [[[v off] len] [Hin Hx]].
  specialize (Hb v off len Hin).
  apply andb_true_iff in Hx. destruct Hx as [Hx _]. apply andb_true_iff in Hx. destruct Hx as [_ Hx].
  apply Z.ltb_lt in Hx. lia.
Qed.

Lemma pow256 n : 0 <= n -> 256 ^ n = 2 ^ (8 * n).
Proof. intros. rewrite Z.pow_mul_r by lia. reflexivity. Qed.

(* the generated encoder of a database definition whose translated table entry passes the C02 table check: the integer
   it builds is below 256^Length (so `to_bytes(Length, "little")` never overflows) *)
Theorem run_edef_of_def code_enc LE g d :
  edef_ok code_enc g d = true -> encodable d = true -> layout_ok d = true ->
  exists ce, find_fname (fname_of g d) code_enc = Some ce /\ e_length ce = Defn.d_length d /\
    forall mf x, run_esteps LE 0 (e_steps ce) mf = Ok x ->
      0 <= x /\ (forall n, Defn.d_length d = Some n -> 0 <= n -> x < 256 ^ n).
Proof.
  unfold edef_ok, encodable, layout_ok, edef_of_db. intros H En Lo.
  destruct (find_fname (fname_of g d) code_enc) as [ce|]; [|discriminate].
  destruct (esteps_of (Defn.d_fields d)) as [steps|] eqn:Es; [|discriminate].
  apply edef_eqb_eq in H. subst ce. exists (mkE steps (Defn.d_length d)). split; [reflexivity|]. split; [reflexivity|].
  cbn [e_steps]. intros mf x R.
  apply andb_true_iff in Lo. destruct Lo as [Lo Ll]. apply andb_true_iff in Lo. destruct Lo as [Lo L1].
  apply andb_true_iff in Lo. destruct Lo as [Lw Lp].
  assert (W : forallb (fun f => match f_bitlen f with Some l => 0 <=? l | None => false end) (Defn.d_fields d) = true).
  { apply forallb_forall. intros f Hf. rewrite forallb_forall in L1. specialize (L1 f Hf).
    destruct (f_bitlen f); [|discriminate]. apply Z.leb_le in L1. apply Z.leb_le. lia. }
  destruct (encoder_fields_read_back LE (Defn.d_fields d) steps mf x Es En W R) as [vs [Ev [Ex _]]].
  pose proof (enc_vals_layout LE _ _ _ Ev) as Lay.
  assert (Wf : Forall fwf vs) by (apply wf_of_layout; rewrite Lay; exact Lw).
  subst x. split; [apply fold_put_nonneg; [exact Wf | lia]|].
  intros n En' Hn. rewrite En' in Ll. rewrite pow256 by exact Hn.
  apply (fold_put_bound vs (8 * n) Wf ltac:(lia)).
  intros v off len Hin. rewrite forallb_forall in Ll.
  assert (I : In (off, len) (db_layout (Defn.d_fields d))).
  { rewrite <- Lay. unfold layout_of. change (off, len) with ((fun x : fld => (snd (fst x), snd x)) (v, off, len)).
    apply in_map. exact Hin. }
  specialize (Ll _ I). cbn [fst snd] in Ll. apply Z.leb_le in Ll. exact Ll.
Qed.

(* `run_edef` on such an integer: the declared number of bytes, whose little-endian value is the integer *)
Lemma run_edef_bytes LE ce mf x n :
  run_esteps LE 0 (e_steps ce) mf = Ok x -> e_length ce = Some n -> 0 <= n -> 0 <= x < 256 ^ n ->
  run_edef LE ce mf = Ok (le_bytes (Z.to_nat n) x) /\ le_int (le_bytes (Z.to_nat n) x) = x.
Proof.
  intros R El Hn Hx. unfold run_edef. rewrite R. cbn [bind]. rewrite El.
  replace (x <? 256 ^ n) with true by (symmetry; apply Z.ltb_lt; lia).
  split; [reflexivity|]. apply le_int_le_bytes. rewrite Z2Nat.id by exact Hn. exact Hx.
Qed.

(* the lookup of `_call_encode_function`: `encode_pgn_<PGN>` first, then `encode_pgn_<PGN>_<id>` *)
Lemma find_encoder_of_def code_enc g d ce :
  find_fname (fname_of g d) code_enc = Some ce ->
  (is_dispatched g = true -> find_fname (Defn.d_pgn d, None) code_enc = None) ->
  find_encoder code_enc (Defn.d_pgn d) (Defn.d_id d) = Some ce.
Proof.
  unfold fname_of, find_encoder. intros F N. destruct (is_dispatched g).
  - rewrite (N eq_refl). exact F.
  - rewrite F. reflexivity.
Qed.

Section Step.
  Variable encode : Z * Defn.str -> list field -> result (list Z).
  Variable is_fast : Z -> result (option bool).

  Lemma enc_step_single f seq m payload :
    f <> FActi -> enc_check (em_pgn m) (em_src m) (em_prio m) = Ok tt ->
    encode (em_pgn m, em_id m) (em_fields m) = Ok payload ->
    (is_fast (em_pgn m) = Ok (Some false) \/ is_fast (em_pgn m) = Ok None) ->
    enc_step encode is_fast f seq m = (wire f m [payload], seq).
  Proof.
    intros Hf Hc He Hi. unfold enc_step, encode_frames. rewrite Hc, He.
    destruct Hi as [-> | ->]; destruct f; try contradiction; reflexivity.
  Qed.

  (* FRAME LEVEL, fast packet: the frames are `segment seq payload`, each wrapped by the wire encoder; the counter advances *)
  Lemma enc_step_fast f seq m payload :
    f <> FActi -> enc_check (em_pgn m) (em_src m) (em_prio m) = Ok tt ->
    encode (em_pgn m, em_id m) (em_fields m) = Ok payload ->
    is_fast (em_pgn m) = Ok (Some true) -> zlen payload <= 255 ->
    enc_step encode is_fast f seq m = (wire f m (segment seq payload), next_seq seq).
  Proof.
    intros Hf Hc He Hi Hl. unfold enc_step, encode_frames, encode_fast. rewrite Hc, He, Hi.
    replace (255 <? zlen payload) with false by lia.
    destruct f; try contradiction; reflexivity.
  Qed.

  Lemma enc_step_acti seq m :
    enc_step encode is_fast FActi seq m
    = (do payload <- encode (em_pgn m, em_id m) (em_fields m);
       Ok [enc_actisense (em_pgn m) (em_src m) (em_dst m) (em_prio m) payload], seq).
  Proof. reflexivity. Qed.

  (* the counter is 3 bits wide whatever is encoded, and only a fast-packet message that was encoded advances it *)
  Lemma enc_step_counter f seq m : 0 <= seq < 8 ->
    0 <= snd (enc_step encode is_fast f seq m) < 8 /\
    (snd (enc_step encode is_fast f seq m) = seq \/ snd (enc_step encode is_fast f seq m) = next_seq seq).
  Proof.
    intros Hs.
    assert (G : forall s', s' = seq \/ s' = next_seq seq -> 0 <= s' < 8 /\ (s' = seq \/ s' = next_seq seq)).
    { intros s' [-> | ->]; (split; [|tauto]); [exact Hs|]. unfold next_seq. apply Z.mod_pos_bound. lia. }
    apply G.
    unfold enc_step, encode_frames, encode_fast.
    destruct f; cbn [snd]; try (left; reflexivity);
      destruct (enc_check _ _ _) as [[]|e|]; cbn [snd]; try (left; reflexivity);
      destruct (encode _ _) as [pl|e|]; cbn [snd]; try (left; reflexivity);
      destruct (is_fast _) as [[[|]|]|e|]; cbn [snd]; try (left; reflexivity);
      destruct (255 <? zlen pl); cbn [snd]; tauto.
  Qed.
End Step.

(* the frames of a fast-packet message are at most 8 bytes long (so every wire format carries them whole) *)
Lemma seg_loop_frames : forall cnt fc off seq p,
  Forall (fun fr => (length fr <= 8)%nat) (seg_loop cnt fc off seq p).
Proof.
  induction cnt as [|c IH]; intros fc off seq p; cbn [seg_loop]; constructor; [|apply IH].
  unfold slice. rewrite app_length.
  pose proof (firstn_le_length (Z.to_nat (Z.min (off + (if fc =? 0 then 6 else 7)) (zlen p) - off))
                               (skipn (Z.to_nat off) p)) as F.
  destruct (fc =? 0); cbn [length]; lia.
Qed.
Lemma segment_frames seq p : Forall (fun fr => (length fr <= 8)%nat) (segment seq p).
Proof. apply seg_loop_frames. Qed.

(* ====================================================================== *)
(* Part B — decoding looks only at the bits of the fields                   *)
(* ====================================================================== *)
Lemma spec_field_agree L LB p q f :
  (forall off len, f_bitoff f = Some off -> f_bitlen f = Some len -> field_bits q off len = field_bits p off len) ->
  spec_field L LB q f = spec_field L LB p f.
Proof.
  intros H. unfold spec_field, spec_value.
  destruct (f_bitoff f) as [off|]; [|reflexivity]. destruct (f_bitlen f) as [len|]; [|reflexivity].
  rewrite (H off len eq_refl eq_refl). reflexivity.
Qed.

Lemma spec_fields_agree L LB p q : forall fs,
  (forall f off len, In f fs -> f_bitoff f = Some off -> f_bitlen f = Some len ->
                     field_bits q off len = field_bits p off len) ->
  spec_fields L LB q fs = spec_fields L LB p fs.
Proof.
  induction fs as [|f fs IH]; intros H; cbn [spec_fields]; [reflexivity|].
  rewrite (spec_field_agree L LB p q f) by (intros off len; apply H; left; reflexivity).
  rewrite IH by (intros g off len Hg; apply H; right; exact Hg). reflexivity.
Qed.

(* decode(re-encoded payload) = decode(payload) as soon as the two agree on every field's bits *)
Theorem spec_decode_agree L LB p q d :
  (forall f off len, In f (Defn.d_fields d) -> f_bitoff f = Some off -> f_bitlen f = Some len ->
                     field_bits q off len = field_bits p off len) ->
  spec_decode L LB q d = spec_decode L LB p d.
Proof. intros H. unfold spec_decode. rewrite (spec_fields_agree L LB p q _ H). reflexivity. Qed.

Lemma find_ext_in {A} (f g : A -> bool) : forall l, (forall x, In x l -> f x = g x) -> find f l = find g l.
Proof.
  induction l as [|a l IH]; intros H; cbn [find]; [reflexivity|].
  rewrite (H a) by (left; reflexivity). destruct (g a); [reflexivity|]. apply IH. intros x Hx. apply H. right. exact Hx.
Qed.

(* the database's Match rule looks only at the bits of the match fields *)
Theorem spec_select_agree g p q :
  (forall d' f off len, In d' g -> In f (Defn.d_fields d') -> f_match f <> None ->
                        f_bitoff f = Some off -> f_bitlen f = Some len -> field_bits q off len = field_bits p off len) ->
  spec_select g q = spec_select g p.
Proof.
  intros H. unfold spec_select.
  rewrite (find_ext_in (fun d => negb (d_fallback d) && def_matches q d) (fun d => negb (d_fallback d) && def_matches p d)).
  - reflexivity.
  - intros d' Hd. f_equal. unfold def_matches. apply forallb_ext_in. intros f Hf. unfold match_ok.
    destruct (f_match f) as [mv|] eqn:M; [|reflexivity].
    destruct (f_bitoff f) as [off|] eqn:Eo; [|reflexivity]. destruct (f_bitlen f) as [len|] eqn:El; [|reflexivity].
    rewrite (H d' f off len Hd Hf); [reflexivity | congruence | exact Eo | exact El].
Qed.

(* two payloads that agree on a field agree on each of its bits *)
Lemma field_bits_testbit x p off len i : 0 <= off -> 0 <= len ->
  field_bits x off len = field_bits p off len -> off <= i < off + len -> Z.testbit x i = Z.testbit p i.
Proof.
  intros Ho Hl E Hi. rewrite <- (decode_int_bits x off len), <- (decode_int_bits p off len) in E by lia.
  assert (T := f_equal (fun z => Z.testbit z (i - off)) E). cbv beta in T.
  rewrite !testbit_decode_int in T by lia.
  replace (i - off <? len) with true in T by lia. replace (i - off + off) with i in T by lia. exact T.
Qed.

(* every bit of every match field of every definition of the group lies inside a (non-FLOAT) field of d — decided per run.
   (Definitions of one PGN place their match fields differently: 8 or 16 bits at offset 16, 4 or 8 bits at offset 24, ...) *)
Definition bit_in_field (i : Z) (f : dbfield) : bool :=
  exact_field f &&
  match f_bitoff f, f_bitlen f with
  | Some fo, Some fl => (0 <=? fo) && (fo <=? i) && (i <? fo + fl)
  | _, _ => false
  end.
Definition range_covered (d : dbdef) (o l : Z) : bool :=
  (0 <=? o) && (0 <=? l) &&
  forallb (fun k => existsb (bit_in_field (o + Z.of_nat k)) (Defn.d_fields d)) (seq 0 (Z.to_nat l)).
Definition def_covered (d d' : dbdef) : bool :=
  forallb (fun f' =>
     match f_match f', f_bitoff f', f_bitlen f' with
     | Some _, Some o, Some l => range_covered d o l
     | _, _, _ => true
     end) (Defn.d_fields d').
Definition match_covered (g : list dbdef) (d : dbdef) : bool := forallb (def_covered d) g.

Lemma range_covered_sound d p q o l : range_covered d o l = true ->
  (forall f off len, In f (Defn.d_fields d) -> f_bitoff f = Some off -> f_bitlen f = Some len -> exact_field f = true ->
                     field_bits q off len = field_bits p off len) ->
  field_bits q o l = field_bits p o l.
Proof.
  unfold range_covered. intros C H.
  apply andb_true_iff in C. destruct C as [C Cb]. apply andb_true_iff in C. destruct C as [Co Cl].
  apply Z.leb_le in Co, Cl. rewrite forallb_forall in Cb.
  apply field_bits_local; [exact Co | exact Cl |]. intros i Hi.
  assert (Hk : In (Z.to_nat (i - o)) (seq 0 (Z.to_nat l))) by (apply in_seq; lia).
  specialize (Cb _ Hk). rewrite Z2Nat.id in Cb by lia. replace (o + (i - o)) with i in Cb by lia.
  apply existsb_exists in Cb. destruct Cb as [f [Hin B]]. unfold bit_in_field in B.
  apply andb_true_iff in B. destruct B as [Ex B].
  destruct (f_bitoff f) as [fo|] eqn:Eo; [|discriminate]. destruct (f_bitlen f) as [fl|] eqn:El; [|discriminate].
  apply andb_true_iff in B. destruct B as [B B3]. apply andb_true_iff in B. destruct B as [B1 B2].
  apply Z.leb_le in B1, B2. apply Z.ltb_lt in B3.
  apply (field_bits_testbit q p fo fl i B1 ltac:(lia) (H f fo fl Hin Eo El Ex)). lia.
Qed.

Lemma def_covered_sound d d' p q : def_covered d d' = true ->
  (forall f off len, In f (Defn.d_fields d) -> f_bitoff f = Some off -> f_bitlen f = Some len -> exact_field f = true ->
                     field_bits q off len = field_bits p off len) ->
  def_matches q d' = def_matches p d'.
Proof.
  intros C H. unfold def_matches. apply forallb_ext_in. intros f' Hf. unfold match_ok.
  unfold def_covered in C. rewrite forallb_forall in C. specialize (C f' Hf).
  destruct (f_match f') as [mv|]; [|reflexivity].
  destruct (f_bitoff f') as [o|]; [|reflexivity]. destruct (f_bitlen f') as [l|]; [|reflexivity].
  rewrite (range_covered_sound d p q o l C H). reflexivity.
Qed.

Lemma match_covered_sound g d p q : match_covered g d = true ->
  (forall f off len, In f (Defn.d_fields d) -> f_bitoff f = Some off -> f_bitlen f = Some len -> exact_field f = true ->
                     field_bits q off len = field_bits p off len) ->
  spec_select g q = spec_select g p.
Proof.
  intros C H. unfold spec_select.
  rewrite (find_ext_in (fun d => negb (d_fallback d) && def_matches q d) (fun d => negb (d_fallback d) && def_matches p d)).
  - reflexivity.
  - intros d' Hd. unfold match_covered in C. rewrite forallb_forall in C.
    rewrite (def_covered_sound d d' p q (C d' Hd) H). reflexivity.
Qed.

(* ---- a second way to keep the selection: the OTHER definitions of the group are excluded by d's own match values ----
   `pin d i` = the value the match fields of d prescribe for payload bit i; two definitions CONFLICT when they prescribe
   different values for some bit: no payload matches both. *)
Lemma field_bits_bit q o l k : 0 <= o -> 0 <= l -> 0 <= k ->
  Z.testbit (field_bits q o l) k = (k <? l) && Z.testbit q (k + o).
Proof. intros Ho Hl Hk. rewrite <- decode_int_bits by assumption. apply testbit_decode_int; assumption. Qed.

Definition pins_at (i : Z) (f : dbfield) : bool :=
  match f_match f, f_bitoff f, f_bitlen f with
  | Some _, Some o, Some l => (0 <=? o) && (o <=? i) && (i <? o + l)
  | _, _, _ => false
  end.
Definition pin (d : dbdef) (i : Z) : option bool :=
  match find (pins_at i) (Defn.d_fields d) with
  | Some f => match f_match f, f_bitoff f with Some mv, Some o => Some (Z.testbit mv (i - o)) | _, _ => None end
  | None => None
  end.
Definition match_bits (d : dbdef) : list Z :=
  flat_map (fun f => match f_match f, f_bitoff f, f_bitlen f with
                     | Some _, Some o, Some l => map (fun k => o + Z.of_nat k) (seq 0 (Z.to_nat l))
                     | _, _, _ => []
                     end) (Defn.d_fields d).
Definition conflict (d d' : dbdef) : bool :=
  existsb (fun i => match pin d i, pin d' i with Some b, Some b' => negb (Bool.eqb b b') | _, _ => false end) (match_bits d').

Lemma pin_sound q d i b : def_matches q d = true -> pin d i = Some b -> Z.testbit q i = b.
Proof.
  unfold pin. intros M P. destruct (find (pins_at i) (Defn.d_fields d)) as [f|] eqn:F; [|discriminate].
  apply find_some in F. destruct F as [Hin Pa]. unfold pins_at in Pa.
  destruct (f_match f) as [mv|] eqn:Em; [|discriminate]. destruct (f_bitoff f) as [o|] eqn:Eo; [|discriminate].
  destruct (f_bitlen f) as [l|] eqn:El; [|discriminate]. inversion P; subst b.
  apply andb_true_iff in Pa. destruct Pa as [Pa P3]. apply andb_true_iff in Pa. destruct Pa as [P1 P2].
  apply Z.leb_le in P1, P2. apply Z.ltb_lt in P3.
  unfold def_matches in M. rewrite forallb_forall in M. specialize (M f Hin). unfold match_ok in M.
  rewrite Em, Eo, El in M. apply Z.eqb_eq in M.
  rewrite <- M. rewrite field_bits_bit by lia. replace (i - o <? l) with true by lia.
  replace (i - o + o) with i by lia. reflexivity.
Qed.

Lemma conflict_sound q d d' : conflict d d' = true -> def_matches q d = true -> def_matches q d' = false.
Proof.
  intros C M. destruct (def_matches q d') eqn:M'; [|reflexivity]. exfalso.
  apply existsb_exists in C. destruct C as [i [_ C]].
  destruct (pin d i) as [b|] eqn:P; [|discriminate]. destruct (pin d' i) as [b'|] eqn:P'; [|discriminate].
  rewrite <- (pin_sound q d i b M P), <- (pin_sound q d' i b' M' P') in C. rewrite eqb_reflx in C. discriminate.
Qed.

(* d is not a fallback, its own match fields are fields of d, and every other definition of the group is a fallback, or has
   all its match fields inside fields of d, or conflicts with d *)
Definition sel_stable (g : list dbdef) (d : dbdef) : bool :=
  negb (d_fallback d) && def_covered d d &&
  forallb (fun d' => d_fallback d' || def_covered d d' || conflict d d') g.

Lemma last_fallback_fb g d : last_fallback g = Some d -> d_fallback d = true.
Proof.
  unfold last_fallback.
  assert (G : forall l acc, (forall a, acc = Some a -> d_fallback a = true) ->
              fold_left (fun acc d => if d_fallback d then Some d else acc) l acc = Some d -> d_fallback d = true).
  { induction l as [|x l IH]; intros acc Ha; cbn [fold_left]; [apply Ha|].
    apply IH. destruct (d_fallback x) eqn:Fx; [|exact Ha]. intros a E. inversion E; subst a. exact Fx. }
  apply G. intros a E. discriminate.
Qed.

Theorem sel_stable_sound g d p q : sel_stable g d = true ->
  (forall f off len, In f (Defn.d_fields d) -> f_bitoff f = Some off -> f_bitlen f = Some len -> exact_field f = true ->
                     field_bits q off len = field_bits p off len) ->
  spec_select g p = Some d -> spec_select g q = Some d.
Proof.
  unfold sel_stable. intros C H S.
  apply andb_true_iff in C. destruct C as [C Call]. apply andb_true_iff in C. destruct C as [Nf Own].
  unfold spec_select in *.
  destruct (find (fun d0 => negb (d_fallback d0) && def_matches p d0) g) as [d0|] eqn:F.
  - inversion S; subst d0. pose proof (find_some _ _ F) as [Hin Pd].
    apply andb_true_iff in Pd. destruct Pd as [_ Mp].
    assert (Mq : def_matches q d = true) by (rewrite (def_covered_sound d d p q Own H); exact Mp).
    rewrite (find_ext_in (fun d0 => negb (d_fallback d0) && def_matches q d0) (fun d0 => negb (d_fallback d0) && def_matches p d0)).
    + rewrite F. reflexivity.
    + intros d' Hd'. rewrite forallb_forall in Call. specialize (Call d' Hd').
      apply orb_true_iff in Call. destruct Call as [Call | Cf].
      * apply orb_true_iff in Call. destruct Call as [Fb | Cv].
        -- rewrite Fb. reflexivity.
        -- rewrite (def_covered_sound d d' p q Cv H). reflexivity.
      * rewrite (conflict_sound q d d' Cf Mq), (conflict_sound p d d' Cf Mp). reflexivity.
  - apply last_fallback_fb in S. rewrite S in Nf. discriminate.
Qed.

(* ====================================================================== *)
(* Part C — composition                                                     *)
(* ====================================================================== *)
Section Compose.
  Variable code_enc : list (fname * edef).
  Variable LE : enc_lookups.
  Variable code_fast : list (Z * fastkind).

  (* what `_call_encode_function` returns for the decoded message m of definition d *)
  Lemma tbl_encode_of_def g d ce (m : Fields.msg) x n :
    find_fname (fname_of g d) code_enc = Some ce ->
    (is_dispatched g = true -> find_fname (Defn.d_pgn d, None) code_enc = None) ->
    Fields.m_pgn m = Defn.d_pgn d -> Fields.m_id m = Defn.d_id d ->
    run_esteps LE 0 (e_steps ce) (Fields.m_fields m) = Ok x -> e_length ce = Some n -> 0 <= n -> 0 <= x < 256 ^ n ->
    tbl_encode code_enc LE (Fields.m_pgn m, Fields.m_id m) (Fields.m_fields m) = Ok (le_bytes (Z.to_nat n) x).
  Proof.
    intros F N Ep Ei R El Hn Hx. unfold tbl_encode. cbn [fst snd]. rewrite Ep, Ei.
    rewrite (find_encoder_of_def code_enc g d ce F N).
    exact (proj1 (run_edef_bytes LE ce _ x n R El Hn Hx)).
  Qed.

  (* SINGLE FRAME, EByte / USB: the one packet the encoder emits is parsed back to the frame
     (pgn, prio, src, dst or 255, payload) by the matching front-end *)
  Theorem enc_single_frame g d ce (m : Fields.msg) x n src dst prio seq :
    find_fname (fname_of g d) code_enc = Some ce ->
    (is_dispatched g = true -> find_fname (Defn.d_pgn d, None) code_enc = None) ->
    Fields.m_pgn m = Defn.d_pgn d -> Fields.m_id m = Defn.d_id d ->
    run_esteps LE 0 (e_steps ce) (Fields.m_fields m) = Ok x -> e_length ce = Some n -> 0 <= n <= 8 -> 0 <= x < 256 ^ n ->
    hdr_ok (Defn.d_pgn d) src dst prio ->
    (tbl_is_fast code_fast (Defn.d_pgn d) = Ok (Some false) \/ tbl_is_fast code_fast (Defn.d_pgn d) = Ok None) ->
    let b := le_bytes (Z.to_nat n) x in
    let tgt := Ok (Some (Defn.d_pgn d, prio, src, (if is_pdu1 (Defn.d_pgn d) then dst else 255), rev b, false)) in
    le_int b = x /\
    (exists pkt, enc_e2e_step code_enc LE code_fast FEbyte seq (emsg_of m src dst prio) = (Ok [pkt], seq) /\
                 length pkt = 13%nat /\ parse_tcp pkt = tgt) /\
    (exists pkt, enc_e2e_step code_enc LE code_fast FUsb seq (emsg_of m src dst prio) = (Ok [pkt], seq) /\
                 length pkt = 20%nat /\ parse_usb pkt = tgt).
  Proof.
    intros F N Ep Ei R El Hn Hx Hh Hf b tgt.
    pose proof (tbl_encode_of_def g d ce m x n F N Ep Ei R El ltac:(lia) Hx) as T.
    assert (Lb : (length b <= 8)%nat) by (unfold b; rewrite le_bytes_length; lia).
    assert (Hc : enc_check (em_pgn (emsg_of m src dst prio)) (em_src (emsg_of m src dst prio)) (em_prio (emsg_of m src dst prio)) = Ok tt).
    { cbn [emsg_of em_pgn em_src em_prio]. rewrite Ep. exact (enc_check_ok _ _ _ _ Hh). }
    assert (Hi : tbl_is_fast code_fast (em_pgn (emsg_of m src dst prio)) = Ok (Some false)
                 \/ tbl_is_fast code_fast (em_pgn (emsg_of m src dst prio)) = Ok None).
    { cbn [emsg_of em_pgn]. rewrite Ep. exact Hf. }
    split; [apply le_int_le_bytes; rewrite Z2Nat.id by lia; exact Hx|].
    split.
    - destruct (roundtrip_ebyte (Defn.d_pgn d) src dst prio [b] Hh ltac:(constructor; [exact Lb | constructor]))
        as [pkts [E P]].
      destruct pkts as [|pkt [|? ?]]; try discriminate P. exists pkt. cbn [map] in P. inversion P as [P1].
      split; [|split; [|exact P1]].
      + unfold enc_e2e_step.
        rewrite (enc_step_single _ _ FEbyte seq (emsg_of m src dst prio) b ltac:(discriminate) Hc T Hi).
        cbn [wire emsg_of em_pgn em_src em_dst em_prio]. rewrite Ep, E. reflexivity.
      + unfold enc_ebyte in E. rewrite (enc_check_ok _ _ _ _ Hh) in E. cbn [bind] in E.
        rewrite to_be4_ok in E by (apply build_header_range; exact Hh). cbn [bind map] in E. inversion E.
        apply ebyte_size; [reflexivity | exact Lb].
    - destruct (roundtrip_usb (Defn.d_pgn d) src dst prio [b] Hh ltac:(constructor; [exact Lb | constructor]))
        as [pkts [E P]].
      destruct pkts as [|pkt [|? ?]]; try discriminate P. exists pkt. cbn [map] in P. inversion P as [P1].
      split; [|split; [|exact P1]].
      + unfold enc_e2e_step.
        rewrite (enc_step_single _ _ FUsb seq (emsg_of m src dst prio) b ltac:(discriminate) Hc T Hi).
        cbn [wire emsg_of em_pgn em_src em_dst em_prio]. rewrite Ep, E. reflexivity.
      + assert (E' : enc_usb (Defn.d_pgn d) src dst prio [b]
                     = Ok [usb_render 1 2 1 (build_header (Defn.d_pgn d) src dst prio) b (zeros (8 - zlen b)) 0]).
        { unfold enc_usb. rewrite (enc_check_ok _ _ _ _ Hh). cbn [bind].
          rewrite to_le4_ok by (apply build_header_range; exact Hh). cbn [bind map_result].
          rewrite (enc_usb1_render (build_header (Defn.d_pgn d) src dst prio) b Lb). reflexivity. }
        assert (Ek : pkt = usb_render 1 2 1 (build_header (Defn.d_pgn d) src dst prio) b (zeros (8 - zlen b)) 0) by congruence.
        rewrite Ek. apply usb_size. rewrite zeros_length. unfold zlen. lia.
  Qed.

  (* ACTISENSE, any PGN (the whole payload travels in one line; the decoder does not consult is_fast): the line,
     after any accepted time stamp, is parsed back to (pgn, prio, src, dst, payload, already combined) *)
  Theorem enc_actisense_line g d ce (m : Fields.msg) x n src dst prio seq sec ms :
    find_fname (fname_of g d) code_enc = Some ce ->
    (is_dispatched g = true -> find_fname (Defn.d_pgn d, None) code_enc = None) ->
    Fields.m_pgn m = Defn.d_pgn d -> Fields.m_id m = Defn.d_id d ->
    run_esteps LE 0 (e_steps ce) (Fields.m_fields m) = Ok x -> e_length ce = Some n -> 1 <= n -> 0 <= x < 256 ^ n ->
    0 <= Defn.d_pgn d < 16777216 -> 0 <= src < 256 -> 0 <= dst < 256 -> 0 <= prio < 8 -> acti_ts_ok sec ms ->
    let b := le_bytes (Z.to_nat n) x in
    le_int b = x /\
    exists line, enc_e2e_step code_enc LE code_fast FActi seq (emsg_of m src dst prio) = (Ok [line], seq) /\
      parse_acti (acti_ts sec ms ++ [32] ++ line) = Ok (Some (Defn.d_pgn d, prio, src, dst, rev b, true)).
  Proof.
    intros F N Ep Ei R El Hn Hx Hp Hs Hd Hq Hts b.
    pose proof (tbl_encode_of_def g d ce m x n F N Ep Ei R El ltac:(lia) Hx) as T.
    split; [apply le_int_le_bytes; rewrite Z2Nat.id by lia; exact Hx|].
    eexists. split.
    - unfold enc_e2e_step. rewrite enc_step_acti. cbn [emsg_of em_pgn em_id em_fields em_src em_dst em_prio].
      rewrite T. cbn [bind]. reflexivity.
    - rewrite Ep. apply roundtrip_actisense; try assumption.
      + apply le_bytes_ok.
      + intros E. apply (f_equal (@length Z)) in E. unfold b in E. rewrite le_bytes_length in E. cbn [length] in E. lia.
  Qed.

  (* FAST PACKET, frame formats: the encoder emits `segment seq payload`, one packet per frame, and advances its counter;
     each EByte / USB packet is parsed back to its frame; the C03 reassembler, fed these frames from any state that is
     fresh for the counter, stays silent until the last frame and then hands the decode function exactly the payload *)
  Theorem enc_fast_frames g d ce (m : Fields.msg) x n src dst prio seq :
    find_fname (fname_of g d) code_enc = Some ce ->
    (is_dispatched g = true -> find_fname (Defn.d_pgn d, None) code_enc = None) ->
    Fields.m_pgn m = Defn.d_pgn d -> Fields.m_id m = Defn.d_id d ->
    run_esteps LE 0 (e_steps ce) (Fields.m_fields m) = Ok x -> e_length ce = Some n -> 0 <= n <= 223 -> 0 <= x < 256 ^ n ->
    hdr_ok (Defn.d_pgn d) src dst prio -> 0 <= seq < 8 ->
    tbl_is_fast code_fast (Defn.d_pgn d) = Ok (Some true) ->
    let b := le_bytes (Z.to_nat n) x in
    let tgt := fun fr => Ok (Some (Defn.d_pgn d, prio, src, (if is_pdu1 (Defn.d_pgn d) then dst else 255), rev fr, false)) in
    le_int b = x /\
    (exists pkts, enc_e2e_step code_enc LE code_fast FEbyte seq (emsg_of m src dst prio) = (Ok pkts, next_seq seq) /\
                  map parse_tcp pkts = map tgt (segment seq b)) /\
    (exists pkts, enc_e2e_step code_enc LE code_fast FUsb seq (emsg_of m src dst prio) = (Ok pkts, next_seq seq) /\
                  map parse_usb pkts = map tgt (segment seq b)) /\
    (forall dok st, fresh seq st ->
       exists st', FastPacket.run dok st (segment seq b)
                   = (st', repeat Nothing (length (segment seq b) - 1) ++ [FastPacket.call dok b]) /\
                   (dok b = true -> st' = None)) /\
    next_seq seq <> seq.
  Proof.
    intros F N Ep Ei R El Hn Hx Hh Hs Hf b tgt.
    pose proof (tbl_encode_of_def g d ce m x n F N Ep Ei R El ltac:(lia) Hx) as T.
    assert (Lb : zlen b = n) by (unfold b, zlen; rewrite le_bytes_length, Z2Nat.id; lia).
    assert (Hc : enc_check (em_pgn (emsg_of m src dst prio)) (em_src (emsg_of m src dst prio)) (em_prio (emsg_of m src dst prio)) = Ok tt).
    { cbn [emsg_of em_pgn em_src em_prio]. rewrite Ep. exact (enc_check_ok _ _ _ _ Hh). }
    assert (Hi : tbl_is_fast code_fast (em_pgn (emsg_of m src dst prio)) = Ok (Some true)).
    { cbn [emsg_of em_pgn]. rewrite Ep. exact Hf. }
    split; [apply le_int_le_bytes; rewrite Z2Nat.id by lia; exact Hx|].
    split; [|split; [|split]].
    - destruct (roundtrip_ebyte (Defn.d_pgn d) src dst prio (segment seq b) Hh (segment_frames seq b)) as [pkts [E P]].
      exists pkts. split; [|exact P]. unfold enc_e2e_step.
      rewrite (enc_step_fast _ _ FEbyte seq (emsg_of m src dst prio) b ltac:(discriminate) Hc T Hi ltac:(lia)).
      cbn [wire emsg_of em_pgn em_src em_dst em_prio]. rewrite Ep, E. reflexivity.
    - destruct (roundtrip_usb (Defn.d_pgn d) src dst prio (segment seq b) Hh (segment_frames seq b)) as [pkts [E P]].
      exists pkts. split; [|exact P]. unfold enc_e2e_step.
      rewrite (enc_step_fast _ _ FUsb seq (emsg_of m src dst prio) b ltac:(discriminate) Hc T Hi ltac:(lia)).
      cbn [wire emsg_of em_pgn em_src em_dst em_prio]. rewrite Ep, E. reflexivity.
    - intros dok st Fr. destruct (inverse_run dok seq b st Hs ltac:(lia) Fr) as [st' [Rn [_ D]]].
      exists st'. split; [exact Rn | exact D].
    - destruct (segment_shape seq b Hs ltac:(lia)) as (d0 & cs & _ & _ & _ & _ & _ & _ & _ & Hne & _). exact Hne.
  Qed.
End Compose.
