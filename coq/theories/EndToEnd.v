(* EndToEnd.v — the COMPOSED model of the decoder: from the bytes / text line given to
     NMEA2000Decoder.decode_tcp / decode_usb / decode_yacht_devices_string /
     decode_actisense_string / decode_basic_string           (decoder.py 180-363)
   through `_decode` (383-423), `_isFastPGN` (365-375), `_decode_fast_message` (94-178),
   `_call_decode_function` (425-471), the generated `decode_pgn_<pgn>` (dispatcher or
   single definition, pgns.py) and `NMEA2000Message.add_data` (message.py 37-44)
   to the message handed back to the caller, with all its fields.

   Nothing new is modelled here: the layers are the existing models
     Wire.v        parse_tcp / parse_usb / parse_yd / parse_acti / parse_basic
     DecoderCtl.v  ctl_step (generic in `decode` and `is_fast`)
     Dispatch.v    run_disp on the translated dispatcher table
     Fields.v      run_ddef on the translated decoder table
   and this file is the glue between them, written the way the code glues them:
     getattr-style lookup of decode_pgn_<pgn> / is_fast_pgn_<pgn> by NUMBER in the translated
     tables (`tbl_decode`, `tbl_is_fast`), conversion of the decoded message to what
     `_call_decode_function` / `IsoName.__init__` read of it (`to_dmsg`), the byte order of the
     data handed from the front-ends (reversed) to `int.from_bytes(data, "big")`, the
     `already_combined` flag (skips `_isFastPGN`), and the priority passed to `add_data`.
   Models only, no proofs (EndToEndProofs.v).

   Not in the composed model (stated, not hidden): the time stamp, `raw_can_data`, the `hash`
   attribute (C17), preferred units (C18) and the dump file (C15) — the decoder is constructed
   without them; logging.  `Unmodelled` is inherited from the layers: non-ASCII text lines,
   Actisense time offsets beyond 10^10, base-10 tokens over 4300 characters (Wire.v); non-ASCII
   filter ids / manufacturer names (DecoderCtl.v); UTF-8 multi-byte / UTF-16 text fields, |int| >= 2^64
   times a float resolution, indirect lookups keyed by a non-integer (Fields.v / PyNum.v). *)
From NV Require Import Base Bits Defn PyNum Fields Dispatch Header PyText Wire DecoderCtl.
From Coq Require Import PrimFloat.

(* ------------------------------------------------------------------ serialisation of a decoded message *)
(* A self-delimiting serialisation of the WHOLE content of a Fields.msg as one integer, so that it can
   travel through DecoderCtl's `d_body` / `m_body : Z`.  The same function is written in Python in
   tools/props/e2e.py (`ser_chunks`, `pack`) and applied to the real NMEA2000Message.
   A chunk is (width in bits, value) with 0 <= value < 2^width; the integer is the chunks written one after
   the other below a leading 1 bit (i.e. int.from_bytes(b'\x01' + bytes, 'big'); every width is a multiple
   of 8).  Appending at the low-order end keeps the evaluation linear.
   Every variable-length item carries a 32-bit length and every alternative a tag byte, so the chunk sequence
   can be read back unambiguously (lengths below 2^32 bytes). *)
Definition chunk := (Z * Z)%type.
Definition pack (l : list chunk) : Z := fold_left (fun acc c => Z.shiftl acc (fst c) + snd c) l 1.

Definition ck_u8 (n : Z) : chunk := (8, n).
Definition ck_u32 (n : Z) : chunk := (32, n).
Definition nbytes (x : Z) : Z := (bit_length x + 7) / 8.
(* a non-negative integer: byte length, then the minimal big-endian bytes (none for 0) *)
Definition ck_nat (x : Z) : list chunk := [ck_u32 (nbytes x); (8 * nbytes x, x)].
(* a Python int: sign byte, magnitude *)
Definition ck_int (z : Z) : list chunk := ck_u8 (if z <? 0 then 1 else 0) :: ck_nat (Z.abs z).
(* a table string (Defn.str: the integer 0x01 ++ utf8): as a non-negative integer — its bytes are 01 ++ utf8 *)
Definition ck_str (s : Defn.str) : list chunk := ck_nat s.
Definition ck_ostr (o : option Defn.str) : list chunk :=
  match o with None => [ck_u8 0] | Some s => ck_u8 1 :: ck_str s end.
Definition ck_oint (o : option Z) : list chunk :=
  match o with None => [ck_u8 0] | Some z => ck_u8 1 :: ck_int z end.
Definition ck_bytes (b : list Z) : list chunk := ck_u32 (zlen b) :: map ck_u8 b.
Definition ck_bool (b : bool) : chunk := ck_u8 (if b then 1 else 0).

(* a field value: tag byte + content.  A NaN has no content (its payload bits are not observable in the model) *)
Definition ck_value (v : value) : list chunk :=
  match v with
  | VNone => [ck_u8 0]
  | VInt z => ck_u8 1 :: ck_int z
  | VFloat f => if is_nan f then [ck_u8 3] else [ck_u8 2; (64, bits_of_float f)]
  | VText b => ck_u8 4 :: ck_bytes b
  | VBytes b => ck_u8 5 :: ck_bytes b
  | VDate d => ck_u8 6 :: ck_int d
  | VTime s => ck_u8 7 :: ck_int s
  end.

Definition ck_field (f : field) : list chunk :=
  ck_str (fl_id f) ++ ck_str (fl_name f) ++ ck_ostr (fl_descr f) ++ ck_ostr (fl_unit f)
  ++ ck_value (fl_val f) ++ ck_value (fl_raw f) ++ ck_ostr (fl_pq f) ++ ck_str (fl_type f) ++ [ck_bool (fl_pk f)].

Definition ck_msg (m : Fields.msg) : list chunk :=
  ck_int (Fields.m_pgn m) ++ ck_str (Fields.m_id m) ++ ck_str (m_descr m) ++ ck_oint (m_ttl m)
  ++ ck_u32 (zlen (m_fields m)) :: flat_map ck_field (m_fields m).

Definition ser_msg (m : Fields.msg) : Z := pack (ck_msg m).

(* ------------------------------------------------------------------ what the control layer reads of a message *)
(* the type test of get_field_int_value_by_id / get_field_str_value_by_id on `field.value` *)
Definition fval_of_value (v : value) : fval :=
  match v with
  | VInt z => FInt z
  | VText b => FStr b
  | VNone => FNone
  | _ => FOther
  end.

(* PGN, id (the bytes of the ASCII text), the (id, value) pairs IsoName.__init__ looks up — only an address claim
   is ever asked for them —, and the whole content *)
Definition to_dmsg (m : Fields.msg) : dmsg :=
  {| d_pgn := Fields.m_pgn m;
     d_id := bytes_of_str (Fields.m_id m);
     d_fields := if Fields.m_pgn m =? CLAIM
                 then map (fun f => (bytes_of_str (fl_id f), fval_of_value (fl_val f))) (m_fields m)
                 else [];
     d_body := ser_msg m |}.

(* ------------------------------------------------------------------ the regenerated tables as `decode` / `is_fast` *)
Section Tables.
  Variable code_dec : list (fname * ddef).      (* NVGen.GenCode.code_dec *)
  Variable code_disp : list disp.               (* NVGen.GenDisp.code_disp *)
  Variable code_fast : list (Z * fastkind).     (* NVGen.GenDisp.code_fast *)
  Variable L LB : lookups.                      (* master_dict, master_flags_dict *)
  Variable LI : ilookups.                       (* master_indirect_lookup_dict *)

  (* calling a per-definition decode function that a dispatcher names; a name without function would be a
     NameError (the C08 table obligation shows there is none) *)
  Definition run_fn (fn : fname) (p : Z) : result (option dmsg) :=
    match find_fname fn code_dec with
    | Some cd => do m <- run_ddef L LB LI p cd; Ok (Some (to_dmsg m))
    | None => Err EOther
    end.

  (* _call_decode_function lines 426-436: globals().get(f"decode_pgn_{pgn}"), then decode_func(data_int).
     A multi-definition PGN's decode_pgn_<pgn> is its dispatcher (returns None when no arm is taken and there is
     no fallback); a single-definition PGN's is the definition's own function; no function at all: None. *)
  Definition tbl_decode (pgn p : Z) : result (option dmsg) :=
    match find_disp code_disp pgn with
    | Some d =>
        match run_disp (dp_arms d) (dp_fallback d) p with
        | Some fn => run_fn fn p
        | None => Ok None
        end
    | None =>
        match find_fname (pgn, None) code_dec with
        | Some cd => do m <- run_ddef L LB LI p cd; Ok (Some (to_dmsg m))
        | None => Ok None
        end
    end.

  (* _isFastPGN: globals().get(f"is_fast_pgn_{pgn}"); two generated functions raise Exception("... not supported") *)
  Definition tbl_is_fast (pgn : Z) : result (option bool) :=
    match find (fun e => fst e =? pgn) code_fast with
    | Some (_, FastTrue) => Ok (Some true)
    | Some (_, FastFalse) => Ok (Some false)
    | Some (_, FastRaises) => Err EUnsupported
    | None => Ok None
    end.
End Tables.

(* ------------------------------------------------------------------ one call of an entry point *)
Inductive wfmt :=
| WTcp                       (* decode_tcp(packet: bytes) *)
| WUsb                       (* decode_usb(packet: bytes) *)
| WYd                        (* decode_yacht_devices_string(line: str) *)
| WActi                      (* decode_actisense_string(line: str) *)
| WBasic (combined : bool).  (* decode_basic_string(line: str, already_combined) *)

(* the input is the bytes of the packet, or the code points of the line *)
Record einput := { e_fmt : wfmt; e_data : list Z; e_win : bool (* started_at > now - 10 min *) }.

Definition parse_with (ts_ok : Z -> list Z -> bool) (f : wfmt) (inp : list Z) : result (option dec_args) :=
  match f with
  | WTcp => parse_tcp inp
  | WUsb => parse_usb inp
  | WYd => parse_yd ts_ok inp
  | WActi => parse_acti inp
  | WBasic c => parse_basic ts_ok inp c
  end.

(* the outcome of a call: the message as DecoderCtl describes it, plus the priority add_data stores *)
Definition with_prio (prio : Z) (r : result (option msg)) : result (option (msg * Z)) :=
  match r with
  | Ok (Some m) => Ok (Some (m, prio))
  | Ok None => Ok None
  | Err e => Err e
  | Unmodelled => Unmodelled
  end.

(* `_decode(..., already_combined)`: `is_fast = False; if not already_combined: is_fast = _isFastPGN(pgn)` *)
Definition fast_of (is_fast : Z -> result (option bool)) (combined : bool) : Z -> result (option bool) :=
  if combined then fun _ => Ok (Some false) else is_fast.

Section Step.
  Variable decode : Z -> Z -> result (option dmsg).
  Variable is_fast : Z -> result (option bool).
  Variable ts_ok : Z -> list Z -> bool.        (* datetime.strptime accepts the token (format number, token) *)

  (* the front-ends hand `_decode` the data REVERSED (they work on packet[...][::-1]); DecoderCtl's `c_data` is in
     wire order (its `le_int` is `int.from_bytes(reversed bytes, "big")`, its fp_step reads `can_data[-1]` first) *)
  Definition call_of (a : dec_args) (win : bool) : call * Z * bool :=
    let '(pgn, prio, src, dst, rdata, comb) := a in
    ({| c_pgn := pgn; c_src := src; c_dst := dst; c_data := rev rdata; c_win := win |}, prio, comb).

  Definition e2e_step_gen (c : cfg) (st : state) (i : einput) : state * result (option (msg * Z)) :=
    match parse_with ts_ok (e_fmt i) (e_data i) with
    | Err e => (st, Err e)                    (* the front-end raised: `_decode` was not reached *)
    | Unmodelled => (st, Unmodelled)
    | Ok None => (st, Ok None)                (* USB: wrong length / checksum *)
    | Ok (Some a) =>
        let '(cl, prio, comb) := call_of a (e_win i) in
        let sr := ctl_step decode (fast_of is_fast comb) c st cl in
        (fst sr, with_prio prio (snd sr))
    end.

  Fixpoint e2e_run_gen (c : cfg) (st : state) (h : list einput) : list (state * result (option (msg * Z))) :=
    match h with
    | [] => []
    | i :: t => let so := e2e_step_gen c st i in so :: e2e_run_gen c (fst so) t
    end.
End Step.

(* ------------------------------------------------------------------ the composed decoder on given tables *)
Section Composed.
  Variable code_dec : list (fname * ddef).
  Variable code_disp : list disp.
  Variable code_fast : list (Z * fastkind).
  Variable L LB : lookups.
  Variable LI : ilookups.
  Variable ts_ok : Z -> list Z -> bool.

  Definition e2e_step : cfg -> state -> einput -> state * result (option (msg * Z)) :=
    e2e_step_gen (tbl_decode code_dec code_disp L LB LI) (tbl_is_fast code_fast) ts_ok.
  Definition e2e_run : cfg -> state -> list einput -> list (state * result (option (msg * Z))) :=
    e2e_run_gen (tbl_decode code_dec code_disp L LB LI) (tbl_is_fast code_fast) ts_ok.
End Composed.
