(* Serial.v — model of the Waveshare USB/serial framing (property C20, also C12's serial chunking).

   Code modelled:
     nmea2000/ioclient.py  WaveShareNmea2000Gateway._receive_impl, the buffer loop (lines 688-718):
         self._buffer.extend(data)
         while True:
             start = self._buffer.find(b"\xaa\x55")
             if start == -1:                       (repaired: keep at most a trailing 0xAA)  break
             if start + 20 > len(self._buffer):    (repaired: del self._buffer[:start])      break
             packet = self._buffer[start:start+20]; decode_usb(packet) ...; self._buffer = self._buffer[start+20:]
     nmea2000/decoder.py   decode_usb, the acceptance test in front of _decode (lines 323-349)
     nmea2000/utils.py     calculate_canbus_checksum

   Two loops are modelled: `drain` / `serial_step` is the loop WITH the repair fixes/F-serialbuf.patch (the
   code the theorems of props/C20.v are about); `drain0` / `serial_step0` is the loop of the pinned tree
   (never trims) and is kept so that the defect F-serialbuf is itself a statement (SerialProofs.pinned_unbounded)
   and so that the harness can tell "the code is the unrepaired loop" from "the code is something else".

   bytes = list Z; positions and lengths = nat.  What the loop does with a cut packet (decode_usb -> _decode ->
   queue.put) is not modelled beyond decode_usb's acceptance test: `serial_step` returns the packets handed to
   decode_usb, in order; `usb_valid` says which of them reach `_decode`. *)
From NV Require Import Base.
Local Open Scope nat_scope.

Definition packet := list Z.

(* bytearray.find(b"\xaa\x55"): index of the first occurrence, None for -1 *)
Fixpoint find_marker (l : list Z) : option nat :=
  match l with
  | a :: t => match t with
              | b :: _ => if (Z.eqb a 170 && Z.eqb b 85)%bool then Some 0 else option_map S (find_marker t)
              | [] => None
              end
  | [] => None
  end.

(* bytearray.endswith(b"\xaa") *)
Fixpoint ends_aa (l : list Z) : bool :=
  match l with
  | [] => false
  | a :: t => match t with [] => Z.eqb a 170 | _ :: _ => ends_aa t end
  end.

(* repaired no-marker branch: keep = 1 if buf.endswith(b"\xaa") else 0; del buf[:len(buf) - keep] *)
Definition trim (buf : list Z) : list Z :=
  let keep := if ends_aa buf then 1 else 0 in skipn (length buf - keep) buf.

(* the while-loop of the REPAIRED _receive_impl; every iteration that continues removes 20 bytes or more, so
   fuel = S (length buf) is never exhausted (SerialProofs.drain_fuel) *)
Fixpoint drain (fuel : nat) (buf : list Z) : list packet * list Z :=
  match fuel with
  | 0 => ([], buf)
  | S f =>
    match find_marker buf with
    | None => ([], trim buf)
    | Some i =>
      if i + 20 <=? length buf then
        let '(ps, b) := drain f (skipn (i + 20) buf) in (firstn 20 (skipn i buf) :: ps, b)
      else ([], skipn i buf)
    end
  end.
Definition drain_all (buf : list Z) : list packet * list Z := drain (S (length buf)) buf.

(* one call of _receive_impl with `data = chunk`: (buffer kept for the next call, packets handed to decode_usb) *)
Definition serial_step (st : list Z) (chunk : list Z) : list Z * list packet :=
  let '(ps, b) := drain_all (st ++ chunk) in (b, ps).

(* a history of reads: (all packets handed to decode_usb in order, final buffer) *)
Fixpoint feed (st : list Z) (chunks : list (list Z)) : list packet * list Z :=
  match chunks with
  | [] => ([], st)
  | c :: cs => let '(st', ps) := serial_step st c in let '(qs, st'') := feed st' cs in (ps ++ qs, st'')
  end.

(* the buffer retained after each read of a history *)
Fixpoint feed_bufs (st : list Z) (chunks : list (list Z)) : list (list Z) :=
  match chunks with
  | [] => []
  | c :: cs => let st' := fst (serial_step st c) in st' :: feed_bufs st' cs
  end.

(* the buffer length right after `self._buffer.extend(data)` in each call of a history (transient peak) *)
Fixpoint feed_peaks (st : list Z) (chunks : list (list Z)) : list nat :=
  match chunks with
  | [] => []
  | c :: cs => length (st ++ c) :: feed_peaks (fst (serial_step st c)) cs
  end.

(* ---- the loop of the pinned tree (no trimming), DESIGN Appendix D ---- *)
Fixpoint drain0 (fuel : nat) (buf : list Z) : list packet * list Z :=
  match fuel with
  | 0 => ([], buf)
  | S f =>
    match find_marker buf with
    | None => ([], buf)
    | Some i =>
      if i + 20 <=? length buf then
        let '(ps, b) := drain0 f (skipn (i + 20) buf) in (firstn 20 (skipn i buf) :: ps, b)
      else ([], buf)
    end
  end.
Definition drain0_all (buf : list Z) := drain0 (length buf) buf.
Definition serial_step0 (st chunk : list Z) : list Z * list packet :=
  let '(ps, b) := drain0_all (st ++ chunk) in (b, ps).
Fixpoint feed0 (st : list Z) (chunks : list (list Z)) : list packet * list Z :=
  match chunks with
  | [] => ([], st)
  | c :: cs => let '(st', ps) := serial_step0 st c in let '(qs, st'') := feed0 st' cs in (ps ++ qs, st'')
  end.

(* ---- decode_usb's acceptance test ---- *)
(* calculate_canbus_checksum: sum(data[2:19]) & 0xff   (a slice never raises) *)
Definition checksum (p : list Z) : Z := Z.land (fold_right Z.add 0%Z (firstn 17 (skipn 2 p))) 255.

Inductive gate := GRaise   (* packet[0]/packet[1] missing (IndexError) or not AA 55 (Exception) *)
                | GReject  (* returns None before _decode: wrong length or checksum mismatch *)
                | GAccept. (* reaches self._decode(...) *)
Definition gate_eqb (a b : gate) : bool :=
  match a, b with GRaise, GRaise | GReject, GReject | GAccept, GAccept => true | _, _ => false end.

Definition decode_usb_gate (p : list Z) : gate :=
  match p with
  | a :: b :: _ =>
    if (negb (Z.eqb a 170) || negb (Z.eqb b 85))%bool then GRaise
    else if negb (length p =? 20) then GReject
    else if negb (Z.eqb (checksum p) (nth 19 p 0%Z)) then GReject
    else GAccept
  | _ => GRaise
  end.
Definition usb_valid (p : list Z) : bool := gate_eqb (decode_usb_gate p) GAccept.

(* what a step passes on to _decode *)
Definition deliveries (ps : list packet) : list packet := filter usb_valid ps.

(* ---- vocabulary of the statements ---- *)
Definition marker_free (l : list Z) : Prop := find_marker l = None.
(* a 20-byte packet that starts with the marker *)
Definition pkt_shape (p : list Z) : bool :=
  match p with a :: b :: _ => (Z.eqb a 170 && Z.eqb b 85 && (length p =? 20))%bool | _ => false end.
(* n0 P1 n1 P2 n2 ... Pk nk *)
Definition stream_of (n0 : list Z) (items : list (packet * list Z)) : list Z :=
  n0 ++ flat_map (fun it => fst it ++ snd it) items.

(* a stream described by its construction: packets (20 bytes, AA 55 ...) and gaps of arbitrary bytes (noise, damaged or
   truncated packets) between them *)
Inductive seg := Gap (g : list Z) | Pkt (p : packet).
Definition seg_bytes (s : seg) : list Z := match s with Gap g => g | Pkt p => p end.
Definition flatten (segs : list seg) : list Z := flat_map seg_bytes segs.
Definition seg_ok (s : seg) : Prop := match s with Gap _ => True | Pkt p => pkt_shape p = true end.
Definition free_b (l : list Z) : bool := match find_marker l with None => true | Some _ => false end.

(* what the property demands, as a function of the construction alone.  The reader of the stream is
     Sync n : in step with the sender, n = the marker-free noise seen since the last packet;
     Lost   : out of step (some gap contained the marker);
     Half   : out of step, directly behind a packet whose bytes after the header are marker-free.
   In step, every packet must be cut out; out of step, the first packet may be lost, the one directly behind it
   must be cut out, and from there on the reader is in step again. *)
Inductive sync := Sync (n : list Z) | Lost | Half.
Fixpoint must_cut (st : sync) (segs : list seg) : list packet :=
  match segs with
  | [] => []
  | Gap g :: r =>
    match st with
    | Sync n => if free_b (n ++ g) then must_cut (Sync (n ++ g)) r else must_cut Lost r
    | _ => must_cut Lost r
    end
  | Pkt p :: r =>
    match st with
    | Sync _ | Half => p :: must_cut (Sync []) r
    | Lost => if free_b (skipn 2 p) then must_cut Half r else must_cut Lost r
    end
  end.

Inductive subseq {A} : list A -> list A -> Prop :=
| sub_nil l : subseq [] l
| sub_take x a b : subseq a b -> subseq (x :: a) (x :: b)
| sub_skip x a b : subseq a b -> subseq a (x :: b).
