(* EncEndToEnd.v — the COMPOSED model of the encoder: from the NMEA2000Message given to
     NMEA2000Encoder.encode_ebyte / encode_usb / encode_yacht_devices / encode_actisense   (encoder.py 107-183)
   through `_encode` (89-105), `_call_encode_function` (15-30), the generated `encode_pgn_<pgn>[_<id>]`
   (pgns.py), `NMEA2000Decoder._isFastPGN` (decoder.py 368-378), `_encode_fast_message` (32-63) and
   `_build_header` (65-87) to the packets (bytes / text line) handed back to the caller, with the sequence counter
   the encoder object keeps between calls.  The mirror image of EndToEnd.v.

   Nothing new is modelled here: the layers are the existing models
     Encode.v      run_edef on the translated encoder table (what a generated encode function does)
     EndToEnd.v    tbl_is_fast on the translated is_fast table (the SAME table the decoder consults)
     FastPacket.v  encode_fast (segment, next_seq)
     Wire.v        enc_check, enc_ebyte / enc_usb / enc_yd / enc_actisense (with Header.build_header)
   and this file is the glue between them, written the way the code glues them:
     - the getattr-style lookup of the encode function: `encode_pgn_<PGN>` FIRST, `encode_pgn_<PGN>_<id>` only when
       the first name is not bound, ValueError when neither is (lines 16-24).  A PGN whose database group has
       several definitions WITHOUT match fields binds encode_pgn_<PGN> to the last one: the id of the message is
       then not consulted;
     - the order of `_encode`: the three range checks, THEN the encode function, THEN `_isFastPGN` (None = no
       is_fast function = treated as single frame; an is_fast function that raises propagates), THEN the
       segmentation, which advances the counter only when it returns;
     - every exception of the encode function is re-raised as ValueError(e) (line 29): the model keeps the inner
       kind (the harness reads it back from `e.args[0]`);
     - encode_actisense does NOT go through `_encode`: no range check, no is_fast, no counter; masks only.
   BYTE ORDER: `run_edef` returns `data_raw.to_bytes(n, "little")` = the payload in WIRE order; `segment` and
   `Wire.enc_*` work in wire order (Wire.v, FastPacket.v headers).
   Models only, no proofs (EncEndToEndProofs.v). *)
From NV Require Import Base Bits Defn PyNum Fields Template Encode Header PyText Wire FastPacket EndToEnd.

(* what the encoder reads of an NMEA2000Message *)
Record emsg := { em_pgn : Z; em_id : Defn.str; em_src : Z; em_dst : Z; em_prio : Z; em_fields : list field }.

(* ------------------------------------------------------------------ _call_encode_function on the translated table *)
Section Tables.
  Variable code_enc : list (fname * edef).      (* NVGen.GenCode.code_enc *)
  Variable LE : enc_lookups.                    (* NVGen.GenLookups.code_enc_lookups *)

  (* lines 16-22: globals().get(f"encode_pgn_{PGN}") or globals().get(f"encode_pgn_{PGN}_{id}") *)
  Definition find_encoder (pgn : Z) (id : Defn.str) : option edef :=
    match find_fname (pgn, None) code_enc with
    | Some e => Some e
    | None => find_fname (pgn, Some id) code_enc
    end.

  (* lines 15-30; EMalformed = ValueError("No encoding function found ...") *)
  Definition tbl_encode (key : Z * Defn.str) (fs : list field) : result (list Z) :=
    match find_encoder (fst key) (snd key) with
    | Some e => run_edef LE e fs
    | None => Err EMalformed
    end.
End Tables.

(* ------------------------------------------------------------------ one call of an encode_* method *)
Inductive efmt := FEbyte | FUsb | FYd | FActi.

Section Step.
  Variable encode : Z * Defn.str -> list field -> result (list Z).
  Variable is_fast : Z -> result (option bool).

  (* `_encode` (89-105): the list of CAN-frame data byte strings, and the sequence counter afterwards *)
  Definition encode_frames (seq : Z) (m : emsg) : result (list (list Z)) * Z :=
    match enc_check (em_pgn m) (em_src m) (em_prio m) with
    | Err e => (Err e, seq)
    | Unmodelled => (Unmodelled, seq)
    | Ok _ =>
        match encode (em_pgn m, em_id m) (em_fields m) with
        | Err e => (Err e, seq)
        | Unmodelled => (Unmodelled, seq)
        | Ok payload =>
            match is_fast (em_pgn m) with
            | Err e => (Err e, seq)                      (* is_fast_pgn_<PGN>() raised *)
            | Unmodelled => (Unmodelled, seq)
            | Ok (Some true) => encode_fast seq payload
            | Ok (Some false) | Ok None => (Ok [payload], seq)
            end
        end
    end.

  (* the format's wire encoder on the frames (header from PGN, source, destination, priority of the message) *)
  Definition wire (f : efmt) (m : emsg) (frames : list (list Z)) : result (list (list Z)) :=
    match f with
    | FEbyte => enc_ebyte (em_pgn m) (em_src m) (em_dst m) (em_prio m) frames
    | FUsb => enc_usb (em_pgn m) (em_src m) (em_dst m) (em_prio m) frames
    | FYd => enc_yd (em_pgn m) (em_src m) (em_dst m) (em_prio m) frames
    | FActi => Unmodelled                                (* not reached: see enc_step *)
    end.

  (* encode_ebyte / encode_usb / encode_yacht_devices: `_encode`, then the packets; encode_actisense: the encode function,
     then ONE text line (returned as a one-element list of code points) *)
  Definition enc_step (f : efmt) (seq : Z) (m : emsg) : result (list (list Z)) * Z :=
    match f with
    | FActi =>
        (do payload <- encode (em_pgn m, em_id m) (em_fields m);
         Ok [enc_actisense (em_pgn m) (em_src m) (em_dst m) (em_prio m) payload], seq)
    | _ =>
        let fr := encode_frames seq m in
        (do frames <- fst fr; wire f m frames, snd fr)
    end.

  (* a list of messages through ONE encoder object *)
  Fixpoint enc_run (f : efmt) (seq : Z) (ms : list emsg) : list (result (list (list Z)) * Z) :=
    match ms with
    | [] => []
    | m :: t => let so := enc_step f seq m in so :: enc_run f (snd so) t
    end.
End Step.

(* ------------------------------------------------------------------ the composed encoder on given tables *)
Section Composed.
  Variable code_enc : list (fname * edef).
  Variable LE : enc_lookups.
  Variable code_fast : list (Z * fastkind).     (* NVGen.GenDisp.code_fast — the decoder's table *)

  Definition enc_e2e_step : efmt -> Z -> emsg -> result (list (list Z)) * Z :=
    enc_step (tbl_encode code_enc LE) (tbl_is_fast code_fast).
  Definition enc_e2e_run : efmt -> Z -> list emsg -> list (result (list (list Z)) * Z) :=
    enc_run (tbl_encode code_enc LE) (tbl_is_fast code_fast).
End Composed.

(* the message object a decoder returned, as the encoder reads it: PGN, id, addressing and the decoded fields *)
Definition emsg_of (m : Fields.msg) (src dst prio : Z) : emsg :=
  {| em_pgn := Fields.m_pgn m; em_id := Fields.m_id m; em_src := src; em_dst := dst; em_prio := prio;
     em_fields := Fields.m_fields m |}.
