From Coq Require Import ZArith Reals Lra Lia Psatz.
From Flocq Require Import Core Relative.
Open Scope R_scope.

Section RT.
Let fexp := FLT_exp (-1074) 53.
Let rnd := round radix2 fexp ZnearestE.

Lemma rel_err x : bpow radix2 (-1022) <= Rabs x ->
  exists eps, Rabs eps <= / 2 * bpow radix2 (-53 + 1) /\ rnd x = x * (1 + eps).
Proof.
  intros H. unfold rnd, fexp.
  assert (Hp : (0 < 53)%Z) by lia.
  pose proof (relative_error_N_FLT_ex radix2 (-1074) 53 Hp (fun z => negb (Z.even z)) x) as P.
  apply P. exact H.
Qed.

Lemma roundtrip_close (n : Z) (r : R) :
  (Z.abs n <= 2 ^ 48)%Z ->
  bpow radix2 (-300) <= Rabs r -> 
  Rabs (rnd (rnd (IZR n * r) / r) - IZR n) < / 4.
Proof.
  intros Hn Hr.
  assert (Hr0 : r <> 0).
  { intro E. rewrite E, Rabs_R0 in Hr. pose proof (bpow_gt_0 radix2 (-300)). lra. }
  destruct (Z.eq_dec n 0) as [->|Hn0].
  - unfold rnd. rewrite Rmult_0_l, round_0 by typeclasses eauto.
    unfold Rdiv. rewrite Rmult_0_l, round_0 by typeclasses eauto.
    rewrite Rminus_0_r, Rabs_R0. lra.
  - assert (H1 : 1 <= Rabs (IZR n)).
    { rewrite <- abs_IZR. apply IZR_le. lia. }
    assert (Hn48 : Rabs (IZR n) <= bpow radix2 48).
    { rewrite <- abs_IZR. change (bpow radix2 48) with (IZR (2^48)). apply IZR_le. exact Hn. }
    assert (Hb : bpow radix2 (-1022) <= bpow radix2 (-300)) by (apply bpow_le; lia).
    destruct (rel_err (IZR n * r)) as [e1 [He1 E1]].
    { rewrite Rabs_mult. 
      assert (0 <= bpow radix2 (-300)) by apply bpow_ge_0.
      assert (bpow radix2 (-300) <= Rabs (IZR n) * Rabs r) by nra. lra. }
    rewrite E1.
    replace (IZR n * r * (1 + e1) / r) with (IZR n * (1 + e1)) by (field; exact Hr0).
    assert (Heps : / 2 * bpow radix2 (-53 + 1) = bpow radix2 (-53)).
    { change (/2) with (bpow radix2 (-1)). rewrite <- bpow_plus. reflexivity. }
    rewrite Heps in He1.
    assert (Hs : bpow radix2 (-53) <= / 1024).
    { change (/1024) with (bpow radix2 (-10)). apply bpow_le. lia. }
    assert (Hpos : 0 < bpow radix2 (-53)) by apply bpow_gt_0.
    destruct (rel_err (IZR n * (1 + e1))) as [e2 [He2 E2]].
    { rewrite Rabs_mult.
      assert (Rabs (1 + e1) >= /2).
      { apply Rabs_le_inv in He1. rewrite Rabs_pos_eq; lra. }
      assert (bpow radix2 (-1022) <= /2).
      { change (/2) with (bpow radix2 (-1)). apply bpow_le. lia. }
      nra. }
    rewrite Heps in He2.
    rewrite E2.
    replace (IZR n * (1 + e1) * (1 + e2) - IZR n) with (IZR n * (e1 + e2 + e1 * e2)) by ring.
    rewrite Rabs_mult.
    assert (Hsum : Rabs (e1 + e2 + e1 * e2) <= 3 * bpow radix2 (-53)).
    { apply Rabs_le_inv in He1. apply Rabs_le_inv in He2. apply Rabs_le. nra. }
    assert (Hprod : bpow radix2 48 * (3 * bpow radix2 (-53)) < /4).
    { replace (bpow radix2 48 * (3 * bpow radix2 (-53))) with (3 * (bpow radix2 48 * bpow radix2 (-53))) by ring.
      rewrite <- bpow_plus. change (48 + -53)%Z with (-5)%Z.
      change (bpow radix2 (-5)) with (/32). lra. }
    assert (0 <= Rabs (e1 + e2 + e1 * e2)) by apply Rabs_pos.
    assert (0 <= Rabs (IZR n)) by apply Rabs_pos.
    nra.
Qed.
End RT.

(* ------------------------------------------------------------------------------------------
   Bridge from the executable model (PyNum.v / Encode.v on Coq's primitive floats) to the reals.
   ------------------------------------------------------------------------------------------ *)
From Coq Require Import Floats Uint63.
From Flocq Require Import BinarySingleNaN.
From Flocq Require Import IEEE754.PrimFloat.
From NV Require Import Base PyNum Encode.
Open Scope R_scope.

Local Notation fexp := (FLT_exp (-1074) 53).
Local Notation rnd := (round radix2 fexp ZnearestE).
Local Instance Hprec' : FLX.Prec_gt_0 prec := eq_refl _.
Local Instance Hmax' : Prec_lt_emax prec emax := eq_refl _.
Local Instance P53 : Prec_gt_0 53 := eq_refl _.

(* the float product / quotient, when in range *)
Lemma mul_B2R x y :
  Rabs (rnd (B2R (Prim2B x) * B2R (Prim2B y))) < bpow radix2 1024 ->
  B2R (Prim2B (x * y)) = rnd (B2R (Prim2B x) * B2R (Prim2B y))
  /\ is_finite (Prim2B (x*y)) = andb (is_finite (Prim2B x)) (is_finite (Prim2B y)).
Proof.
  intros H. rewrite mul_equiv.
  pose proof (Bmult_correct prec emax Hprec' Hmax' mode_NE (Prim2B x) (Prim2B y)) as C.
  simpl round_mode in C.
  rewrite Rlt_bool_true in C by exact H.
  destruct C as [C1 [C2 _]]. split; assumption.
Qed.

Lemma div_B2R x y :
  B2R (Prim2B y) <> 0 ->
  Rabs (rnd (B2R (Prim2B x) / B2R (Prim2B y))) < bpow radix2 1024 ->
  B2R (Prim2B (x / y)) = rnd (B2R (Prim2B x) / B2R (Prim2B y))
  /\ is_finite (Prim2B (x/y)) = is_finite (Prim2B x).
Proof.
  intros Hy H. rewrite div_equiv.
  pose proof (Bdiv_correct prec emax Hprec' Hmax' mode_NE (Prim2B x) (Prim2B y) Hy) as C.
  simpl round_mode in C.
  rewrite Rlt_bool_true in C by exact H.
  destruct C as [C1 [C2 _]]. split; assumption.
Qed.

Lemma int_in_format (n : Z) : (Z.abs n < 2^53)%Z -> generic_format radix2 fexp (IZR n).
Proof.
  intros H. apply generic_format_FLT.
  apply (FLT_spec radix2 (-1074) 53 (IZR n) (Float radix2 n 0)).
  - unfold F2R; simpl. ring.
  - simpl. exact H.
  - simpl. lia.
Qed.

Lemma of_nat_exact (n : Z) : (0 <= n < 2^53)%Z ->
  B2R (Prim2B (of_uint63 (Uint63.of_Z n))) = IZR n /\ is_finite (Prim2B (of_uint63 (Uint63.of_Z n))) = true.
Proof.
  intros H. rewrite of_int63_equiv.
  assert (Hz : Uint63.to_Z (Uint63.of_Z n) = n).
  { rewrite Uint63.of_Z_spec. apply Z.mod_small. change wB with (2^63)%Z. lia. }
  rewrite Hz.
  pose proof (binary_normalize_correct prec emax Hprec' Hmax' mode_NE n 0 false) as C.
  simpl in C.
  assert (F : F2R (Float radix2 n 0) = IZR n) by (unfold F2R; simpl; ring).
  rewrite F in C.
  assert (G : rnd (IZR n) = IZR n).
  { apply round_generic; [typeclasses eauto | apply int_in_format; lia]. }
  change (SpecFloat.fexp prec emax) with fexp in C.
  rewrite G in C.
  rewrite Rlt_bool_true in C.
  - destruct C as [C1 [C2 _]]. split; assumption.
  - rewrite <- abs_IZR. change (bpow radix2 emax) with (IZR (2^1024)). apply IZR_lt.
    assert (2^53 < 2^1024)%Z by (apply Z.pow_lt_mono_r; lia). lia.
Qed.

(* PyNum.Z2float is exact below 2^53, for both signs *)
Lemma Z2float_exact (n : Z) : (Z.abs n < 2^53)%Z ->
  exists f, Z2float n = Ok f /\ B2R (Prim2B f) = IZR n /\ is_finite (Prim2B f) = true.
Proof.
  intros H. unfold Z2float.
  assert (H64 : (Z.abs n <? 2 ^ 64)%Z = true).
  { apply Z.ltb_lt. assert (2^53 < 2^64)%Z by (apply Z.pow_lt_mono_r; lia). lia. }
  rewrite H64. eexists. split; [reflexivity|].
  assert (L62 : forall k, (0 <= k < 2^53)%Z -> nat_to_float k = of_uint63 (Uint63.of_Z k)).
  { intros k Hk. unfold nat_to_float.
    assert ((k <? 2 ^ 62)%Z = true) by (apply Z.ltb_lt; assert (2^53 < 2^62)%Z by (apply Z.pow_lt_mono_r; lia); lia).
    rewrite H0. reflexivity. }
  destruct (Z.ltb_spec n 0).
  - rewrite L62 by lia. destruct (of_nat_exact (- n)) as [E F]; [lia|].
    rewrite opp_equiv. rewrite B2R_Bopp, is_finite_Bopp. rewrite E, F. split; [|reflexivity].
    rewrite opp_IZR. ring.
  - rewrite L62 by lia. apply of_nat_exact. lia.
Qed.

(* the real value of a primitive float in terms of PyNum.float_me *)
Lemma float_me_B2R f m e : float_me f = Some (m, e) ->
  B2R (Prim2B f) = IZR m * bpow radix2 e /\ is_finite (Prim2B f) = true.
Proof.
  unfold float_me. intros H.
  rewrite <- (SF2R_B2SF prec emax (Prim2B f)).
  assert (Fin : is_finite (Prim2B f) = is_finite_SF (B2SF (Prim2B f))) by (destruct (Prim2B f); reflexivity).
  rewrite Fin. rewrite B2SF_Prim2B.
  destruct (Prim2SF f) as [s|s| |s mm ee]; try discriminate.
  - inversion H; subst. simpl. split; [ring | reflexivity].
  - inversion H; subst. simpl. split; [|reflexivity].
    unfold F2R. simpl. destruct s; simpl; reflexivity.
Qed.

Lemma finite_float_me f : is_finite (Prim2B f) = true -> exists m e, float_me f = Some (m, e).
Proof.
  intros H. unfold float_me.
  assert (Fin : is_finite (Prim2B f) = is_finite_SF (B2SF (Prim2B f))) by (destruct (Prim2B f); reflexivity).
  rewrite Fin, B2SF_Prim2B in H.
  destruct (Prim2SF f) as [s|s| |s mm ee]; try discriminate; eexists; eexists; reflexivity.
Qed.

(* Python's round() as modelled in Encode.py_round (integer arithmetic on mantissa and exponent):
   if the real value of the float is strictly within 1/2 of an integer n, the result is n *)
Lemma py_round_close f n :
  is_finite (Prim2B f) = true -> Rabs (B2R (Prim2B f) - IZR n) < /2 -> py_round f = Ok n.
Proof.
  intros Fin Cl. destruct (finite_float_me f Fin) as [m [e Me]].
  destruct (float_me_B2R f m e Me) as [V _]. rewrite V in Cl. clear V.
  unfold py_round. rewrite Me.
  destruct (Z.leb_spec 0 e) as [He|He].
  - (* an integer *)
    f_equal. rewrite <- IZR_Zpower in Cl by lia. rewrite <- mult_IZR, <- minus_IZR, <- abs_IZR in Cl.
    assert (Hlt : IZR (Z.abs (m * 2 ^ e - n)) < 1) by (eapply Rlt_trans; [exact Cl | lra]).
    apply lt_IZR in Hlt. lia.
  - (* m / d with d = 2^(-e) >= 2 *)
    set (d := (2 ^ (- e))%Z).
    assert (Hd : (2 <= d)%Z).
    { unfold d. replace (- e)%Z with (1 + (- e - 1))%Z by lia. rewrite Z.pow_add_r by lia.
      assert (0 < 2 ^ (- e - 1))%Z by (apply Z.pow_pos_nonneg; lia). lia. }
    assert (Hde : (d = 2 * (d / 2))%Z).
    { unfold d. replace (- e)%Z with (1 + (- e - 1))%Z by lia. rewrite Z.pow_add_r by lia.
      change (2 ^ 1)%Z with 2%Z. rewrite Z.mul_comm, Z.div_mul by lia. lia. }
    assert (B : bpow radix2 e = / IZR d).
    { assert (E1 : IZR d = bpow radix2 (- e)) by (unfold d; apply (IZR_Zpower radix2); lia).
      rewrite E1, <- bpow_opp. f_equal. lia. }
    rewrite B in Cl.
    assert (Dpos : 0 < IZR d) by (apply IZR_lt; lia).
    (* 2 |m - n d| < d, in Z *)
    assert (Hz : (2 * Z.abs (m - n * d) < d)%Z).
    { apply lt_IZR. rewrite mult_IZR, abs_IZR, minus_IZR, mult_IZR.
      assert (E : IZR m * / IZR d - IZR n = (IZR m - IZR n * IZR d) / IZR d) by (field; lra).
      rewrite E in Cl. unfold Rdiv in Cl. rewrite Rabs_mult, (Rabs_pos_eq (/ IZR d)) in Cl
        by (left; apply Rinv_0_lt_compat; exact Dpos).
      apply (Rmult_lt_compat_r (IZR d)) in Cl; [|exact Dpos].
      rewrite Rmult_assoc, Rinv_l, Rmult_1_r in Cl by lra. simpl. lra. }
    clear Cl B.
    set (h := (d / 2)%Z) in *.
    f_equal.
    pose proof (Z.div_mod (Z.abs m) d ltac:(lia)) as DM.
    pose proof (Z.mod_pos_bound (Z.abs m) d ltac:(lia)) as MB.
    set (q := (Z.abs m / d)%Z) in *. set (r := (Z.abs m mod d)%Z) in *.
    destruct (Z.ltb_spec m 0) as [Mn|Mp].
    + (* negative: |m| = -m; n <= 0 *)
      assert (Am : Z.abs m = (- m)%Z) by lia. rewrite Am in DM.
      destruct (Z.ltb_spec r h) as [R1|R1].
      * assert (n = - q)%Z by nia. lia.
      * destruct (Z.ltb_spec h r) as [R2|R2].
        -- assert (n = - (q + 1))%Z by nia. lia.
        -- exfalso. assert (r = h) by lia.
           destruct (Z_le_gt_dec 0 (q + n)) as [K|K].
           ++ assert (0 <= (q + n) * d)%Z by (apply Z.mul_nonneg_nonneg; lia). lia.
           ++ assert ((q + n) * d <= - d)%Z by nia. lia.
    + assert (Am : Z.abs m = m) by lia. rewrite Am in DM.
      destruct (Z.ltb_spec r h) as [R1|R1].
      * nia.
      * destruct (Z.ltb_spec h r) as [R2|R2].
        -- nia.
        -- exfalso. assert (r = h) by lia.
           destruct (Z_le_gt_dec 0 (q - n)) as [K|K].
           ++ assert (0 <= (q - n) * d)%Z by (apply Z.mul_nonneg_nonneg; lia). lia.
           ++ assert ((q - n) * d <= - d)%Z by nia. lia.
Qed.

Lemma eqb_zero_false r : is_finite (Prim2B r) = true -> B2R (Prim2B r) <> 0 -> (r =? 0)%float = false.
Proof.
  intros F N. rewrite eqb_equiv.
  assert (Z0 : Prim2B 0%float = B754_zero false).
  { change 0%float with zero. rewrite zero_equiv. apply Prim2B_B2Prim. }
  rewrite Z0. rewrite Beqb_correct by (try exact F; reflexivity).
  simpl B2R. apply Req_bool_false. exact N.
Qed.

(* ------------------------------------------------------------------------------------------
   The round trip: decode_number computes v = fl(fl(n) * r); encode_number computes
   round(fl(v / r)). For |n| <= 2^48 and a finite resolution r with 2^-300 <= |r| <= 2^300 the
   result is n — on the executable model functions themselves.
   ------------------------------------------------------------------------------------------ *)
Theorem number_roundtrip (n : Z) (r : PrimFloat.float) :
  (Z.abs n <= 2^48)%Z ->
  is_finite (Prim2B r) = true ->
  bpow radix2 (-300) <= Rabs (B2R (Prim2B r)) <= bpow radix2 300 ->
  exists v, py_mul_int n (PF r) = Ok (PF v) /\ is_finite (Prim2B v) = true /\
            bind (py_div (PF v) (PF r)) (fun q => match q with PF f => py_round f | PI k => Ok k end) = Ok n.
Proof.
  intros Hn Hf [Hlo Hhi].
  assert (Hn53 : (Z.abs n < 2^53)%Z).
  { assert (2^48 < 2^53)%Z by (apply Z.pow_lt_mono_r; lia). lia. }
  destruct (Z2float_exact n Hn53) as [x [Zx [Ex Fx]]].
  set (R := B2R (Prim2B r)) in *.
  assert (HR0 : R <> 0).
  { intro E. rewrite E, Rabs_R0 in Hlo. pose proof (bpow_gt_0 radix2 (-300)). lra. }
  pose proof (roundtrip_close n R Hn Hlo) as Close.
  assert (Hn48 : Rabs (IZR n) <= bpow radix2 48).
  { rewrite <- abs_IZR. change (bpow radix2 48) with (IZR (2^48)). apply IZR_le. lia. }
  assert (Pbound : Rabs (IZR n * R) <= bpow radix2 348).
  { rewrite Rabs_mult. change 348%Z with (48 + 300)%Z. rewrite bpow_plus.
    apply Rmult_le_compat; try apply Rabs_pos; assumption. }
  assert (Prange : Rabs (rnd (IZR n * R)) < bpow radix2 1024).
  { apply Rle_lt_trans with (bpow radix2 348).
    - apply abs_round_le_generic; [typeclasses eauto | typeclasses eauto | | exact Pbound].
      apply generic_format_bpow. unfold FLT_exp. lia.
    - apply bpow_lt. lia. }
  destruct (mul_B2R x r) as [M1 M2].
  { rewrite Ex. fold R. exact Prange. }
  rewrite Ex in M1. fold R in M1. rewrite Fx, Hf in M2. simpl in M2.
  assert (Qrange : Rabs (rnd (rnd (IZR n * R) / R)) < bpow radix2 1024).
  { apply Rle_lt_trans with (bpow radix2 49).
    - apply Rabs_lt_inv in Close.
      assert (bpow radix2 48 + 1 <= bpow radix2 49).
      { change (bpow radix2 49) with (IZR (2^49)). change (bpow radix2 48) with (IZR (2^48)).
        rewrite <- plus_IZR. apply IZR_le. lia. }
      apply Rabs_le. apply Rabs_le_inv in Hn48. lra.
    - apply bpow_lt. lia. }
  destruct (div_B2R (x*r)%float r) as [D1 D2].
  { exact HR0. }
  { rewrite M1. exact Qrange. }
  rewrite M1 in D1. rewrite M2 in D2.
  exists (x * r)%float. split; [|split; [exact M2|]].
  - unfold py_mul_int. rewrite Zx. reflexivity.
  - unfold py_div. rewrite (eqb_zero_false r Hf HR0). cbn [bind].
    apply py_round_close; [exact D2|]. rewrite D1. apply Rlt_trans with (1 := Close). lra.
Qed.

(* ------------------------------------------------------------------------------------------
   Field level: the bits of a number field, decoded (sign extension, scaling) and re-encoded
   (division, round half even, range check, two's complement), are reproduced exactly.
   ------------------------------------------------------------------------------------------ *)
From NV Require Import Defn Bits Fields Spec SpecProofs EncodeProofs.
Open Scope Z_scope.

Lemma wrap_sign_extend signed len bits : 1 <= len -> 0 <= bits < 2 ^ len ->
  let n := sign_extend signed len bits in
  (if signed && (n <? 0) then Z.shiftl 1 len + n else n) = bits
  /\ (if signed then - Z.shiftl 1 (len - 1) <= n <= Z.shiftl 1 (len - 1) - 1 else 0 <= n <= Z.shiftl 1 len - 1).
Proof.
  intros Hl Hb. cbn zeta. rewrite sign_extend_spec by lia. unfold spec_signed. rewrite !shiftl1 by lia.
  assert (P : 2 ^ len = 2 * 2 ^ (len - 1)).
  { replace len with ((len - 1) + 1) at 1 by lia. rewrite Z.pow_add_r by lia. lia. }
  destruct signed; simpl.
  - destruct (Z.leb_spec (2 ^ (len - 1)) bits).
    + destruct (Z.ltb_spec (bits - 2 ^ len) 0); lia.
    + destruct (Z.ltb_spec bits 0); lia.
  - lia.
Qed.

(* float resolution: any field of up to 48 bits (49 when signed) *)
Theorem decoded_number_reencodes (bits len : Z) (signed : bool) (r : PrimFloat.float) :
  1 <= len -> (signed = true -> 4 <= len) -> 0 <= bits < 2 ^ len ->
  let n := sign_extend signed len bits in
  Z.abs n <= 2 ^ 48 ->
  not_available signed len n = false ->
  is_finite (Prim2B r) = true ->
  (bpow radix2 (-300) <= Rabs (B2R (Prim2B r)) <= bpow radix2 300)%R ->
  exists v, py_mul_int n (PF r) = Ok (PF v) /\ encode_num (PF v) len signed (PF r) = Ok bits.
Proof.
  intros Hl Hs Hb n Hn NA Fr Rr.
  destruct (number_roundtrip n r Hn Fr Rr) as [v [Mv [_ Q]]].
  exists v. split; [exact Mv|].
  unfold encode_num.
  destruct (py_div (PF v) (PF r)) as [q|e|]; cbn [bind] in Q |- *; try discriminate.
  rewrite Q. cbn [bind].
  destruct (wrap_sign_extend signed len bits Hl Hb) as [W B]. fold n in W, B.
  assert (P1 : 0 < 2 ^ (len - 1)) by (apply Z.pow_pos_nonneg; lia).
  unfold not_available in NA. rewrite !shiftl1 in * by lia.
  assert (In : ((if signed then - 2 ^ (len - 1) else 0) <=? n) && (n <=? (if signed then 2 ^ (len - 1) - 2 else 2 ^ len - 2)) = true).
  { apply andb_true_iff. split; apply Z.leb_le.
    - destruct signed; lia.
    - destruct signed.
      + specialize (Hs eq_refl). destruct (Z.leb_spec len 3); [lia|]. apply Z.eqb_neq in NA. lia.
      + destruct (len <=? 3); apply Z.eqb_neq in NA; lia. }
  rewrite In. rewrite W. reflexivity.
Qed.

(* integer resolution k (1, 5, 60, ...): n*k / k on doubles is exact while |n*k| < 2^53 *)
Theorem decoded_int_number_reencodes (bits len k : Z) (signed : bool) :
  1 <= len -> (signed = true -> 4 <= len) -> 0 <= bits < 2 ^ len ->
  let n := sign_extend signed len bits in
  1 <= k -> Z.abs (n * k) < 2 ^ 53 -> k < 2 ^ 53 ->
  not_available signed len n = false ->
  py_mul_int n (PI k) = Ok (PI (n * k)) /\ encode_num (PI (n * k)) len signed (PI k) = Ok bits.
Proof.
  intros Hl Hs Hb n Hk Hnk Hk53 NA. split; [reflexivity|].
  unfold encode_num, py_div.
  destruct (Z.eqb_spec k 0); [lia|].
  assert (A1 : (Z.abs (n * k) <? 2 ^ 53) = true) by (apply Z.ltb_lt; exact Hnk).
  assert (A2 : (Z.abs k <? 2 ^ 53) = true) by (apply Z.ltb_lt; lia).
  rewrite A1, A2.
  destruct (Z2float_exact (n * k) Hnk) as [fx [Zx [Ex Fx]]].
  destruct (Z2float_exact k ltac:(lia)) as [fy [Zy [Ey Fy]]].
  rewrite Zx, Zy. cbn [bind].
  assert (Hn53 : Z.abs n < 2 ^ 53) by nia.
  assert (Q : (IZR (n * k) / IZR k = IZR n)%R).
  { rewrite mult_IZR. field. apply not_0_IZR. lia. }
  assert (G : rnd (IZR n) = IZR n).
  { apply round_generic; [typeclasses eauto | apply int_in_format; exact Hn53]. }
  destruct (div_B2R fx fy) as [D1 D2].
  { rewrite Ey. apply not_0_IZR. lia. }
  { rewrite Ex, Ey, Q, G. rewrite <- abs_IZR. change (bpow radix2 1024) with (IZR (2^1024)). apply IZR_lt.
    assert (2^53 < 2^1024)%Z by (apply Z.pow_lt_mono_r; lia). lia. }
  rewrite Ex, Ey, Q, G in D1. rewrite Fx in D2.
  rewrite (py_round_close (fx / fy)%float n D2) by (rewrite D1; rewrite Rminus_diag_eq by reflexivity; rewrite Rabs_R0; lra).
  cbn [bind].
  destruct (wrap_sign_extend signed len bits Hl Hb) as [W B]. fold n in W, B.
  assert (P1 : 0 < 2 ^ (len - 1)) by (apply Z.pow_pos_nonneg; lia).
  unfold not_available in NA. rewrite !shiftl1 in * by lia.
  assert (In : ((if signed then - 2 ^ (len - 1) else 0) <=? n) && (n <=? (if signed then 2 ^ (len - 1) - 2 else 2 ^ len - 2)) = true).
  { apply andb_true_iff. split; apply Z.leb_le.
    - destruct signed; lia.
    - destruct signed.
      + specialize (Hs eq_refl). destruct (Z.leb_spec len 3); [lia|]. apply Z.eqb_neq in NA. lia.
      + destruct (len <=? 3); apply Z.eqb_neq in NA; lia. }
  rewrite In. rewrite W. reflexivity.
Qed.


(* the not-available pattern is reproduced *)
Lemma sentinel_reencodes signed len bits : 1 <= len -> 0 <= bits < 2 ^ len ->
  not_available signed len (sign_extend signed len bits) = true -> na_pattern len signed = bits.
Proof.
  intros Hl Hb NA. destruct (wrap_sign_extend signed len bits Hl Hb) as [W B].
  rewrite sign_extend_spec in * by lia. unfold spec_signed in *.
  unfold not_available in NA. unfold na_pattern. rewrite !shiftl1 in * by lia.
  assert (P : 2 ^ len = 2 * 2 ^ (len - 1)).
  { replace len with ((len - 1) + 1) at 1 by lia. rewrite Z.pow_add_r by lia. lia. }
  assert (P1 : 0 < 2 ^ (len - 1)) by (apply Z.pow_pos_nonneg; lia).
  destruct (Z.leb_spec len 3); destruct signed; simpl in *;
    try (destruct (Z.leb_spec (2 ^ (len - 1)) bits)); apply Z.eqb_eq in NA; lia.
Qed.

(* a resolution literal is "ordinary": finite, non-zero, between 2^-300 and 2^300 — a boolean test
   on mantissa and exponent that the per-run obligation evaluates for every field of the tables *)
Definition res_ok (r : PrimFloat.float) : bool :=
  match float_me r with
  | Some (m, e) => (1 <=? Z.abs m) && (Z.abs m <? 2 ^ 53) && (-300 <=? e) && (e + 53 <=? 300)
  | None => false
  end.
Lemma res_ok_sound r : res_ok r = true ->
  is_finite (Prim2B r) = true /\
  (bpow radix2 (-300) <= Rabs (B2R (Prim2B r)) <= bpow radix2 300)%R.
Proof.
  unfold res_ok. destruct (float_me r) as [[m e]|] eqn:Me; [|discriminate]. intros H.
  destruct (float_me_B2R r m e Me) as [V F]. split; [exact F|]. rewrite V. clear V F Me.
  apply andb_true_iff in H. destruct H as [H H4]. apply andb_true_iff in H. destruct H as [H H3].
  apply andb_true_iff in H. destruct H as [H1 H2].
  apply Z.leb_le in H1, H3, H4. apply Z.ltb_lt in H2.
  rewrite Rabs_mult, <- abs_IZR, (Rabs_pos_eq (bpow radix2 e)) by apply bpow_ge_0.
  assert (M1 : (1 <= IZR (Z.abs m))%R) by (apply IZR_le; exact H1).
  assert (M2 : (IZR (Z.abs m) <= bpow radix2 53)%R).
  { change (bpow radix2 53) with (IZR (2 ^ 53)). apply IZR_le. lia. }
  pose proof (bpow_gt_0 radix2 e) as Pe.
  split.
  - apply Rle_trans with (bpow radix2 e); [apply bpow_le; lia|]. nra.
  - apply Rle_trans with (bpow radix2 53 * bpow radix2 e)%R; [nra|].
    rewrite <- bpow_plus. apply bpow_le. lia.
Qed.

(* ------------------------------------------------------------------------------------------
   C02 for one numeric field: whatever the decoder produced from the field's bits — absent, or a
   value that passed the range check — the encoder turns back into exactly those bits.
   Float resolutions: fields up to 48 bits (49 signed). Integer resolution k: while |n*k| < 2^53.
   ------------------------------------------------------------------------------------------ *)
Definition num_field_ok (len : Z) (signed : bool) (res : pynum) : Prop :=
  match res with
  | PF r => res_ok r = true /\ len <= (if signed then 49 else 48)
  | PI k => 1 <= k /\ 2 ^ len * k <= 2 ^ 53
  end.

Theorem number_field_roundtrip (bits len : Z) (signed : bool) (res mn mx : pynum) (val : value) :
  1 <= len -> (signed = true -> 4 <= len) -> 0 <= bits < 2 ^ len ->
  num_field_ok len signed res ->
  number_of_raw (sign_extend signed len bits) len signed res mn mx = Ok val ->
  encode_number val len signed res = Ok bits.
Proof.
  intros Hl Hs Hb Ok_ D. unfold number_of_raw in D.
  set (n := sign_extend signed len bits) in *.
  destruct (not_available signed len n) eqn:NA.
  - inversion D; subst. simpl. f_equal. apply sentinel_reencodes; assumption.
  - destruct (wrap_sign_extend signed len bits Hl Hb) as [_ B]. fold n in B. rewrite !shiftl1 in B by lia.
    assert (P : 2 ^ len = 2 * 2 ^ (len - 1)).
    { replace len with ((len - 1) + 1) at 1 by lia. rewrite Z.pow_add_r by lia. lia. }
    assert (P1 : 0 < 2 ^ (len - 1)) by (apply Z.pow_pos_nonneg; lia).
    destruct res as [k|r]; simpl in Ok_.
    + destruct Ok_ as [K1 K2].
      assert (An : Z.abs n < 2 ^ len) by (destruct signed; lia).
      assert (Hnk : Z.abs (n * k) < 2 ^ 53) by (rewrite Z.abs_mul, (Z.abs_eq k) by lia; nia).
      assert (Hk53 : k < 2 ^ 53) by nia.
      destruct (decoded_int_number_reencodes bits len k signed Hl Hs Hb K1 Hnk Hk53 NA) as [M E].
      fold n in M, E. rewrite M in D. cbn [bind] in D.
      destruct (range_check (PI (n * k)) mn mx) as [v'|e|] eqn:RC; cbn [bind] in D; try discriminate.
      assert (v' = PI (n * k)).
      { unfold range_check in RC. cbn [bind py_sub_tol py_add_tol] in RC.
        destruct (py_lt _ _); [discriminate|]. destruct (py_gt _ _); [discriminate|]. inversion RC; reflexivity. }
      subst v'. inversion D; subst. simpl. exact E.
    + destruct Ok_ as [R1 R2]. destruct (res_ok_sound r R1) as [Fr Rr].
      assert (An : Z.abs n <= 2 ^ 48).
      { destruct signed.
        - assert (2 ^ (len - 1) <= 2 ^ 48) by (apply Z.pow_le_mono_r; lia). lia.
        - assert (2 ^ len <= 2 ^ 48) by (apply Z.pow_le_mono_r; lia). lia. }
      destruct (decoded_number_reencodes bits len signed r Hl Hs Hb An NA Fr Rr) as [v [M E]].
      fold n in M. rewrite M in D. cbn [bind] in D.
      destruct (range_check (PF v) mn mx) as [v'|e|] eqn:RC; cbn [bind] in D; try discriminate.
      assert (v' = PF v).
      { unfold range_check in RC.
        destruct (py_sub_tol mn _) as [lo|e|]; cbn [bind] in RC; try discriminate.
        destruct (py_lt _ _); [discriminate|].
        destruct (py_add_tol mx _) as [hi|e|]; cbn [bind] in RC; try discriminate.
        destruct (py_gt _ _); [discriminate|]. inversion RC; reflexivity. }
      subst v'. inversion D; subst. simpl. exact E.
Qed.

(* boolean form for the table obligation *)
Definition num_field_okb (len : Z) (signed : bool) (res : NV.Defn.num) : bool :=
  match res with
  | NF b => res_ok (float_of_bits b) && (len <=? (if signed then 49 else 48))
  | NI k => (1 <=? k) && (2 ^ len * k <=? 2 ^ 53)
  end.
Lemma num_field_okb_sound len signed res :
  num_field_okb len signed res = true -> num_field_ok len signed (pynum_of_num res).
Proof.
  destruct res as [k|b]; simpl; intros H; apply andb_true_iff in H; destruct H as [H1 H2].
  - apply Z.leb_le in H1, H2. split; assumption.
  - apply Z.leb_le in H2. split; assumption.
Qed.
