From Coq Require Import ZArith Reals Lra Lia Psatz.
From Flocq Require Import Core Relative.
Open Scope R_scope.

Section RT.
Let fexp := FLT_exp (-1074) 53.
Let rnd := round radix2 fexp ZnearestE.

Lemma rel_err x : bpow radix2 (-1022) <= Rabs x ->
  exists eps, Rabs eps <= / 2 * bpow radix2 (-53 + 1) /\ rnd x = x * (1 + eps).
Proof.
  intros H. unfold rnd, fexp.
  assert (Hp : (0 < 53)%Z) by lia.
  pose proof (relative_error_N_FLT_ex radix2 (-1074) 53 Hp (fun z => negb (Z.even z)) x) as P.
  apply P. exact H.
Qed.

Lemma roundtrip_close (n : Z) (r : R) :
  (Z.abs n <= 2 ^ 48)%Z ->
  bpow radix2 (-300) <= Rabs r -> 
  Rabs (rnd (rnd (IZR n * r) / r) - IZR n) < / 4.
Proof.
  intros Hn Hr.
  assert (Hr0 : r <> 0).
  { intro E. rewrite E, Rabs_R0 in Hr. pose proof (bpow_gt_0 radix2 (-300)). lra. }
  destruct (Z.eq_dec n 0) as [->|Hn0].
  - unfold rnd. rewrite Rmult_0_l, round_0 by typeclasses eauto.
    unfold Rdiv. rewrite Rmult_0_l, round_0 by typeclasses eauto.
    rewrite Rminus_0_r, Rabs_R0. lra.
  - assert (H1 : 1 <= Rabs (IZR n)).
    { rewrite <- abs_IZR. apply IZR_le. lia. }
    assert (Hn48 : Rabs (IZR n) <= bpow radix2 48).
    { rewrite <- abs_IZR. change (bpow radix2 48) with (IZR (2^48)). apply IZR_le. exact Hn. }
    assert (Hb : bpow radix2 (-1022) <= bpow radix2 (-300)) by (apply bpow_le; lia).
    destruct (rel_err (IZR n * r)) as [e1 [He1 E1]].
    { rewrite Rabs_mult. 
      assert (0 <= bpow radix2 (-300)) by apply bpow_ge_0.
      assert (bpow radix2 (-300) <= Rabs (IZR n) * Rabs r) by nra. lra. }
    rewrite E1.
    replace (IZR n * r * (1 + e1) / r) with (IZR n * (1 + e1)) by (field; exact Hr0).
    assert (Heps : / 2 * bpow radix2 (-53 + 1) = bpow radix2 (-53)).
    { change (/2) with (bpow radix2 (-1)). rewrite <- bpow_plus. reflexivity. }
    rewrite Heps in He1.
    assert (Hs : bpow radix2 (-53) <= / 1024).
    { change (/1024) with (bpow radix2 (-10)). apply bpow_le. lia. }
    assert (Hpos : 0 < bpow radix2 (-53)) by apply bpow_gt_0.
    destruct (rel_err (IZR n * (1 + e1))) as [e2 [He2 E2]].
    { rewrite Rabs_mult.
      assert (Rabs (1 + e1) >= /2).
      { apply Rabs_le_inv in He1. rewrite Rabs_pos_eq; lra. }
      assert (bpow radix2 (-1022) <= /2).
      { change (/2) with (bpow radix2 (-1)). apply bpow_le. lia. }
      nra. }
    rewrite Heps in He2.
    rewrite E2.
    replace (IZR n * (1 + e1) * (1 + e2) - IZR n) with (IZR n * (e1 + e2 + e1 * e2)) by ring.
    rewrite Rabs_mult.
    assert (Hsum : Rabs (e1 + e2 + e1 * e2) <= 3 * bpow radix2 (-53)).
    { apply Rabs_le_inv in He1. apply Rabs_le_inv in He2. apply Rabs_le. nra. }
    assert (Hprod : bpow radix2 48 * (3 * bpow radix2 (-53)) < /4).
    { replace (bpow radix2 48 * (3 * bpow radix2 (-53))) with (3 * (bpow radix2 48 * bpow radix2 (-53))) by ring.
      rewrite <- bpow_plus. change (48 + -53)%Z with (-5)%Z.
      change (bpow radix2 (-5)) with (/32). lra. }
    assert (0 <= Rabs (e1 + e2 + e1 * e2)) by apply Rabs_pos.
    assert (0 <= Rabs (IZR n)) by apply Rabs_pos.
    nra.
Qed.
End RT.
