(* C06 — every gateway wire format round-trips and obeys its fixed framing.
   Statements only; proofs live in WireProofs.v.  Models: Wire.v, PyText.v, Header.v.
   encode_ebyte is the repaired one (fixes/F-ebyte13.patch).  `ts_ok` stands for datetime.strptime.
   Vocabulary (WireProofs.v / PyText.v):
     hdr_ok pgn src dst prio  := 0<=prio<8, 0<=src<256, 0<=dst<256, pgn canonical (18 bits, PS = 0 for PDU1)
     frames_ok msgs           := every CAN-frame data string has bytes in 0..255 and at most 8 of them
     produced enc p           := p is one of the packets enc returns for some hdr_ok header and frames_ok frame list
     ts_tok ts_ok 0 ts        := ts is one whitespace-free ASCII token that strptime("%H:%M:%S.%f") accepts
     acti_ts_ok sec ms        := plain decimal tokens (<= 4300 chars) with values <= 10^10 ("A<sec>.<ms>") *)
From NV Require Import Base Header PyText Wire WireProofs.

Theorem C06_roundtrip_ebyte : forall pgn src dst prio msgs,
  hdr_ok pgn src dst prio -> Forall (fun d => (length d <= 8)%nat) msgs ->
  exists pkts, enc_ebyte pgn src dst prio msgs = Ok pkts /\
    map parse_tcp pkts
    = map (fun d => Ok (Some (pgn, prio, src, (if is_pdu1 pgn then dst else 255), rev d, false))) msgs.
Proof. exact roundtrip_ebyte. Qed.
Print Assumptions C06_roundtrip_ebyte.

Theorem C06_roundtrip_usb : forall pgn src dst prio msgs,
  hdr_ok pgn src dst prio -> Forall (fun d => (length d <= 8)%nat) msgs ->
  exists pkts, enc_usb pgn src dst prio msgs = Ok pkts /\
    map parse_usb pkts
    = map (fun d => Ok (Some (pgn, prio, src, (if is_pdu1 pgn then dst else 255), rev d, false))) msgs.
Proof. exact roundtrip_usb. Qed.
Print Assumptions C06_roundtrip_usb.

(* the Yacht Devices packet, once given the time stamp and direction token the gateway prepends *)
Theorem C06_roundtrip_yd : forall (ts_ok : Z -> list Z -> bool) pgn src dst prio msgs ts dir,
  hdr_ok pgn src dst prio -> ts_tok ts_ok 0 ts -> dir_tok dir ->
  Forall (fun d => bytes_ok d = true /\ d <> []) msgs ->
  exists pkts, enc_yd pgn src dst prio msgs = Ok pkts /\
    map (fun p => parse_yd ts_ok (ts ++ [32] ++ dir ++ [32] ++ p)) pkts
    = map (fun d => Ok (Some (pgn, prio, src, (if is_pdu1 pgn then dst else 255), rev d, false))) msgs.
Proof. exact roundtrip_yd. Qed.
Print Assumptions C06_roundtrip_yd.

(* the Actisense line (whole payload, any length >= 1), once given the "A<sec>.<ms>" token *)
Theorem C06_roundtrip_actisense : forall pgn src dst prio payload sec ms,
  0 <= pgn < 16777216 -> 0 <= src < 256 -> 0 <= dst < 256 -> 0 <= prio < 8 ->
  bytes_ok payload = true -> payload <> [] -> acti_ts_ok sec ms ->
  parse_acti (acti_ts sec ms ++ [32] ++ enc_actisense pgn src dst prio payload)
  = Ok (Some (pgn, prio, src, dst, rev payload, true)).
Proof. exact roundtrip_actisense. Qed.
Print Assumptions C06_roundtrip_actisense.

Theorem C06_sizes : forall p,
  (produced enc_ebyte p -> length p = 13%nat) /\
  (produced enc_usb p -> length p = 20%nat /\ checksum p = nth 19 p 0) /\
  (produced enc_yd p -> exists body, p = body ++ [13; 10] /\
                          forallb (fun c => negb (c =? 10) && negb (c =? 13)) body = true).
Proof. exact packet_sizes. Qed.
Print Assumptions C06_sizes.

(* every byte position 2..19, every different byte value: by arithmetic on the sum modulo 256 *)
Theorem C06_checksum : forall pgn src dst prio data k v,
  hdr_ok pgn src dst prio -> bytes_ok data = true -> (length data <= 8)%nat ->
  exists pkt, enc_usb pgn src dst prio [data] = Ok [pkt] /\ length pkt = 20%nat /\
    ((2 <= k <= 19)%nat -> byte_ok v = true -> v <> nth k pkt 0 -> parse_usb (set_nth k v pkt) = Ok None).
Proof. exact usb_checksum_exposes. Qed.
Print Assumptions C06_checksum.

(* the same for ANY 20-byte packet decode_usb accepts, not only encoder output *)
Theorem C06_checksum_any : forall p a k v,
  length p = 20%nat -> bytes_ok p = true -> parse_usb p = Ok (Some a) ->
  (2 <= k <= 19)%nat -> byte_ok v = true -> v <> nth k p 0 ->
  parse_usb (set_nth k v p) = Ok None.
Proof. exact usb_corruption. Qed.
Print Assumptions C06_checksum_any.

(* fixed 13-byte reads, fixed 20-byte reads and the serial client's marker search, line reads *)
Theorem C06_split : forall pkts,
  (Forall (produced enc_ebyte) pkts -> chunks 13 (concat pkts) = pkts) /\
  (Forall (produced enc_usb) pkts -> chunks 20 (concat pkts) = pkts /\ serial_frames (concat pkts) = pkts) /\
  (Forall (produced enc_yd) pkts -> lines (concat pkts) = pkts).
Proof. exact split_back. Qed.
Print Assumptions C06_split.

(* non-vacuity: the 3-byte ISO Request 59904 (PDU1, addressed to 255 from 1, priority 6) in all four formats,
   with a time-stamp oracle that accepts exactly "00:00:00.000" *)
Definition ex_ts (fmt : Z) (t : list Z) : bool := str_eqb t [48;48;58;48;48;58;48;48;46;48;48;48].
Definition ex_usb : list Z := [170; 85; 1; 2; 1; 1; 255; 234; 24; 3; 0; 238; 0; 0; 0; 0; 0; 0; 0; 247].
Definition ex_yd : list Z := [49; 56; 69; 65; 70; 70; 48; 49; 32; 48; 48; 32; 69; 69; 32; 48; 48; 13; 10].
Definition ex_stamp : list Z := [48;48;58;48;48;58;48;48;46;48;48;48].
Example C06_example_hyps :
  hdr_ok 59904 1 255 6 /\ frames_ok [[0; 238; 0]] /\ ts_tok ex_ts 0 ex_stamp /\ dir_tok [82] /\ acti_ts_ok [49] [48].
Proof.
  split; [unfold hdr_ok; repeat split; try lia; reflexivity|].
  split; [constructor; [split; [reflexivity | cbn [length]; lia] | constructor]|].
  split; [split; [split; [discriminate | reflexivity] | split; reflexivity]|].
  split; [left; reflexivity|].
  exists 1, 0. unfold ts_limit. cbn [length]. repeat split; try lia; reflexivity.
Qed.
Example C06_example :
  enc_ebyte 59904 1 255 6 [[0; 238; 0]] = Ok [[131; 24; 234; 255; 1; 0; 238; 0; 0; 0; 0; 0; 0]] /\
  parse_tcp [131; 24; 234; 255; 1; 0; 238; 0; 0; 0; 0; 0; 0] = Ok (Some (59904, 6, 1, 255, [0; 238; 0], false)) /\
  enc_usb 59904 1 255 6 [[0; 238; 0]] = Ok [ex_usb] /\
  parse_usb ex_usb = Ok (Some (59904, 6, 1, 255, [0; 238; 0], false)) /\
  parse_usb (set_nth 12 239 ex_usb) = Ok None /\
  enc_yd 59904 1 255 6 [[0; 238; 0]] = Ok [ex_yd] /\
  parse_yd ex_ts (ex_stamp ++ [32] ++ [82] ++ [32] ++ ex_yd) = Ok (Some (59904, 6, 1, 255, [0; 238; 0], false)) /\
  lines (ex_yd ++ ex_yd) = [ex_yd; ex_yd] /\ chunks 20 (ex_usb ++ ex_usb) = [ex_usb; ex_usb] /\
  serial_frames (ex_usb ++ ex_usb) = [ex_usb; ex_usb] /\
  parse_acti (acti_ts [49] [48] ++ [32] ++ enc_actisense 59904 1 255 6 [0; 238; 0])
  = Ok (Some (59904, 6, 1, 255, [0; 238; 0], true)).
Proof. vm_compute. repeat split. Qed.
