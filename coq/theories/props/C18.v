(* C18 — preferred-unit conversion rewrites only value and unit label of fields whose physical quantity
   has a recognised preference.  Statements only; proofs live in MessageProofs.v.  round(x, n) and
   math.degrees are universally quantified (their accuracy is not claimed here). *)
From NV Require Import Base Message MessageProofs.
From Coq Require Import PrimFloat.

(* frame: the result is the input with new fields; field by field (same order, same number) either the
   field is unchanged (quantity/preference not recognised) or ONLY value and unit label changed:
   value' = convert_value t value, label' = label t; id, name, description, raw value, quantity, type,
   key flag are the input's (field_frame, MessageProofs.v).  set_fields keeps PGN, id, description, ttl,
   source, destination, priority, time-stamp, source identity, hash and raw frame. *)
Theorem C18_frame : forall py_round_ndigits math_degrees p m m',
  apply_units py_round_ndigits math_degrees p m = Ok m' ->
  m' = set_fields m (m_fields m') /\
  Forall2 (field_frame py_round_ndigits math_degrees p) (m_fields m) (m_fields m').
Proof. exact apply_units_frame. Qed.
Print Assumptions C18_frame.

(* which (quantity, preference) pairs are recognised: exactly TEMPERATURE with "c"/"f", PRESSURE with
   "bar"/"psi", ANGLE with "deg", SPEED with "kts" (the map already lower-cased, see C18_lowercase) *)
Theorem C18_recognised : forall p q t, recognise p q = Some t <-> recognised_spec p q t.
Proof. exact recognise_spec. Qed.
Print Assumptions C18_recognised.

(* the decoder lower-cases the requested units (ASCII), so recognition is case-insensitive *)
Theorem C18_lowercase : forall raw p, decoder_prefs raw = Ok p ->
  forall q, pref_get q p = option_map (map ascii_lower_b) (pref_get q raw).
Proof. exact decoder_prefs_get. Qed.
Print Assumptions C18_lowercase.

(* absent in -> absent out (the label is still rewritten, by C18_frame) *)
Theorem C18_absent : forall py_round_ndigits math_degrees t,
  convert_value py_round_ndigits math_degrees t VNone = Ok VNone.
Proof. exact convert_absent. Qed.
Theorem C18_converted_float : forall py_round_ndigits math_degrees t x,
  convert_value py_round_ndigits math_degrees t (VFloat x) = Ok (VFloat (conv py_round_ndigits math_degrees t x)).
Proof. exact convert_float. Qed.
Theorem C18_converted_int : forall py_round_ndigits math_degrees t z, exact_int z = true ->
  convert_value py_round_ndigits math_degrees t (VInt z) = Ok (VFloat (conv py_round_ndigits math_degrees t (z2f z))).
Proof. exact convert_int. Qed.
Print Assumptions C18_converted_int.

(* unrecognised preferences / quantities without conversion change nothing *)
Theorem C18_unrecognised : forall py_round_ndigits math_degrees p m,
  (forall f, In f (m_fields m) -> recognise p (f_pq f) = None) ->
  apply_units py_round_ndigits math_degrees p m = Ok m.
Proof. exact apply_units_unrecognised. Qed.
Print Assumptions C18_unrecognised.

(* the conversion is defined (no exception, inside the model) whenever the recognised fields carry
   None, a float or an int of at most 53 bits — what the number decoders produce for these quantities *)
Theorem C18_total : forall py_round_ndigits math_degrees p m,
  (forall f, In f (m_fields m) -> recognise p (f_pq f) <> None -> numeric_ok (f_value f) = true) ->
  exists m', apply_units py_round_ndigits math_degrees p m = Ok m'.
Proof. exact apply_units_total. Qed.
Print Assumptions C18_total.

(* decoding with preferences = apply_units after decoding without; hash and addressing are set before *)
Theorem C18_commutes : forall md5 py_str_float py_round_ndigits math_degrees c a m0, c_dump_on c = false ->
  finish md5 py_str_float py_round_ndigits math_degrees c a m0 =
  match finish md5 py_str_float py_round_ndigits math_degrees (no_prefs c) a m0 with
  | Ok (m, _) => do m' <- apply_units py_round_ndigits math_degrees (c_prefs c) m; Ok (m', None)
  | Err e => Err e
  | Unmodelled => Unmodelled
  end.
Proof. exact finish_commutes. Qed.
Print Assumptions C18_commutes.

(* non-vacuity: kelvin 300.0 -> "C", absent angle stays absent but is relabelled, a voltage is untouched,
   the unrecognised "Kelvin" changes nothing *)
Definition ex_f (id : bytes) (v : value) (q : pqv) : field := mkField id None None (Some 0x14b) v v q (TyEnum 1) false.
Definition ex_m : msg :=
  mkMsg 130312 [116] 1 TtlNone [ex_f [97] (VFloat 300) (PqEnum 23); ex_f [98] VNone (PqEnum 12); ex_f [99] (VInt 12) (PqEnum 7)]
        1 255 2 1 IsoNone None RawNone.
Example C18_example :
  let rnd := fun (x : float) (_ : Z) => x in let deg := fun x : float => x in
  (match apply_units rnd deg [(23, [99]); (12, [100; 101; 103])] ex_m with
   | Ok m' => map f_unit (m_fields m') = [Some 0x143; Some 0x1446567; Some 0x14b] /\
              map f_raw (m_fields m') = map f_raw (m_fields ex_m) /\
              value_eqb (f_value (nth 1 (m_fields m') (ex_f [] VNone PqNone))) VNone = true
   | _ => False end) /\
  apply_units rnd deg [(23, [75; 101; 108; 118; 105; 110])] ex_m = Ok ex_m.
Proof. vm_compute. repeat split. Qed.
