(* C17 — the identity hash depends exactly on the definition id and the primary-key raw values.
   Statements only; proofs live in MessageProofs.v.  md5 and str(float) are universally quantified
   (Section variables there); the per-run table obligations are tools/templates/OblC17.v. *)
From NV Require Import Base Message MessageProofs.
From Coq Require Import PrimFloat.

(* equal id and equal key raw values => equal hash, whatever the other fields, source, destination,
   priority, time-stamp, source identity and raw frame are (a1, a2 arbitrary; m1, m2 arbitrary elsewhere) *)
Theorem C17_congruence : forall (md5 : bytes -> zstr) (py_str_float : float -> bytes) m1 m2 a1 a2,
  m_id m1 = m_id m2 -> key_raws m1 = key_raws m2 ->
  res_hash (add_data md5 py_str_float a1 true m1) = res_hash (add_data md5 py_str_float a2 true m2).
Proof. exact add_data_congruence. Qed.
Print Assumptions C17_congruence.

(* unit preferences: conversion (applied after add_data) leaves hash, id and key raw values alone *)
Theorem C17_units : forall py_round_ndigits math_degrees p m m',
  apply_units py_round_ndigits math_degrees p m = Ok m' ->
  m_hash m' = m_hash m /\ m_id m' = m_id m /\ key_raws m' = key_raws m.
Proof. exact apply_units_keeps_hash. Qed.
Print Assumptions C17_units.

(* the key is injective in (id, key raw values) for every table of key signatures in which a text-valued
   key is last, on messages that conform to it (no '_' in the id; F-none-text: a text key is not "None") *)
Theorem C17_key_injective : forall (py_str_float : float -> bytes),
  (forall a b, py_str_float a = py_str_float b -> a = b) ->
  (forall a, no_us (py_str_float a) = true) ->
  (forall a z, py_str_float a <> py_str_int z) ->
  (forall a, py_str_float a <> s_None) ->
  forall sig_of : bytes -> list kkind, (forall i, sig_ok (sig_of i) = true) ->
  forall m1 m2 k, conf_b sig_of m1 = true -> conf_b sig_of m2 = true ->
    hash_key py_str_float m1 = Ok k -> hash_key py_str_float m2 = Ok k ->
    m_id m1 = m_id m2 /\ key_raws m1 = key_raws m2.
Proof. exact hash_key_injective. Qed.
Print Assumptions C17_key_injective.

(* hashes differ whenever the id or a key raw value differs — given that md5 does not collide on the
   two keys in question *)
Theorem C17 : forall (md5 : bytes -> zstr) (py_str_float : float -> bytes),
  (forall a b, py_str_float a = py_str_float b -> a = b) ->
  (forall a, no_us (py_str_float a) = true) ->
  (forall a z, py_str_float a <> py_str_int z) ->
  (forall a, py_str_float a <> s_None) ->
  forall sig_of : bytes -> list kkind, (forall i, sig_ok (sig_of i) = true) ->
  forall m1 m2 a1 a2 r1 r2, conf_b sig_of m1 = true -> conf_b sig_of m2 = true ->
    add_data md5 py_str_float a1 true m1 = Ok r1 -> add_data md5 py_str_float a2 true m2 = Ok r2 ->
    (forall k1 k2, hash_key py_str_float m1 = Ok k1 -> hash_key py_str_float m2 = Ok k2 -> md5 k1 = md5 k2 -> k1 = k2) ->
    (m_id m1 <> m_id m2 \/ key_raws m1 <> key_raws m2) ->
    m_hash r1 <> m_hash r2.
Proof. exact hashes_differ. Qed.
Print Assumptions C17.

(* with network mapping on, every conforming message gets a hash: the md5 of its key *)
Theorem C17_on : forall (md5 : bytes -> zstr) (py_str_float : float -> bytes) sig_of a m,
  conf_b sig_of m = true ->
  exists r k, add_data md5 py_str_float a true m = Ok r /\ hash_key py_str_float m = Ok k /\ m_hash r = Some (md5 k).
Proof. exact add_data_on. Qed.
Print Assumptions C17_on.

(* with network mapping off no hash is set *)
Theorem C17_off : forall (md5 : bytes -> zstr) (py_str_float : float -> bytes) a m,
  exists r, add_data md5 py_str_float a false m = Ok r /\ m_hash r = None.
Proof. exact add_data_off. Qed.
Print Assumptions C17_off.

(* non-vacuity: two messages of one definition with keys (instance 3 | 4, text "AB_C"), conforming to a
   signature [KNum; KText]; equal keys in a third message with different non-key content *)
Definition ex_field (id : bytes) (raw v : value) (ty : Z) (pk : bool) : field :=
  mkField id None None None v raw PqNone (TyEnum ty) pk.
Definition ex_msg (inst : Z) (other : Z) : msg :=
  mkMsg 130323 [109; 101; 116] 1 TtlNone
    [ex_field [105] (VInt inst) (VInt inst) 1 true; ex_field [120] (VInt other) (VFloat 1.5) 1 false;
     ex_field [115] (VText [65; 66; 95; 67]) (VText [65; 66; 95; 67]) 17 true] 0 0 0 1 IsoNone None RawNone.
Example C17_example :
  let sig_of := fun _ : bytes => [KNum; KText] in
  let psf := fun _ : float => [46] in
  sig_ok (sig_of []) = true /\ conf_b sig_of (ex_msg 3 7) = true /\ conf_b sig_of (ex_msg 4 7) = true /\
  hash_key psf (ex_msg 3 7) = Ok [109; 101; 116; 95; 51; 95; 65; 66; 95; 67] /\
  hash_key psf (ex_msg 3 7) = hash_key psf (ex_msg 3 8) /\
  hash_key psf (ex_msg 3 7) <> hash_key psf (ex_msg 4 7).
Proof. vm_compute. repeat split; congruence. Qed.
