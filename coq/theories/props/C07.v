(* C07 — the same CAN frame decodes identically through every input format.
   Statements only; proofs live in WireProofs.v.  Models: the five front-ends of Wire.v down to the argument
   tuple (pgn, priority, source, destination, reversed data, already_combined) handed to `_decode`, which is
   the only thing the shared decode path sees.  `ts_ok` stands for datetime.strptime.
   Renderings the statement ranges over (vocabulary of PyText.v / WireProofs.v):
     tokval 16 t = Some v   t is any non-empty string of hexadecimal digits, upper / lower / mixed case, any
                            number of leading zeros, whose value is v;   dec_tok t v: the same in base 10 (<= 4300 chars)
     EByte   : any type byte whose low nibble is the data length (flag bits free), identifier big-endian, any padding
     USB     : AA 55, any three type bytes, identifier little-endian, length, data, any padding to 8, any reserved
               byte, additive checksum                                                     (usb_render)
     canboat : either time-stamp form strptime accepts (ending in Z -> ISO form, else dash form), decimal priority,
               PGN, source, destination, length, hex data tokens, any further tokens        (basic_line)
     Yacht D.: accepted time stamp, R or T, identifier token, one token per data byte, single spaces, any trailing
               whitespace such as CR LF                                                     (yd_line)
     Actisense: "A<sec>.<ms>", the 5-nibble source/destination/priority word with the EXPLICIT destination, the PGN
               (PS = 0 for PDU1), two hex digits per data byte                              (acti_line)
   Reading choice (DESIGN §5): the two line grammars cannot carry a frame without data, hence `data <> []` there. *)
From NV Require Import Base Header PyText Wire WireProofs.

Theorem C07_frontends : forall (ts_ok : Z -> list Z -> bool) id data,
  0 <= id < 536870912 -> bytes_ok data = true ->
  let '(pgn, src, dst, prio) := extract_header id in
  let T := fun c : bool => Ok (Some (pgn, prio, src, dst, rev data, c)) in
  (forall t pad, Z.land t 15 = zlen data -> parse_tcp (t :: be4 id ++ data ++ pad) = T false) /\
  (forall b2 b3 b4 pad r, (length data + length pad = 8)%nat ->
      parse_usb (usb_render b2 b3 b4 id data pad r) = T false) /\
  (forall ts ptok gtok stok dtok ltok dts extra c,
      basic_ts ts_ok ts -> dec_tok ptok prio -> dec_tok gtok pgn -> dec_tok stok src -> dec_tok dtok dst ->
      dec_tok ltok (zlen data) -> Forall2 (fun t b => tokval 16 t = Some b) dts data ->
      Forall (fun t => nocomma t /\ all_ascii t = true) extra -> dts ++ extra <> [] ->
      parse_basic ts_ok (basic_line ts ptok gtok stok dtok ltok dts extra) c = T c) /\
  (data <> [] -> forall ts dir idt dts tail,
      ts_tok ts_ok 0 ts -> dir_tok dir -> tokval 16 idt = Some id ->
      Forall2 (fun t b => tokval 16 t = Some b) dts data -> forallb is_ws tail = true ->
      parse_yd ts_ok (yd_line ts dir idt dts tail) = T false) /\
  (data <> [] -> forall sec ms ntok ptok dtoks tail,
      acti_ts_ok sec ms -> tokval 16 ntok = Some (acti_build src dst prio) -> tokval 16 ptok = Some pgn ->
      Forall2 (fun t b => length t = 2%nat /\ tokval 16 t = Some b) dtoks data -> forallb is_ws tail = true ->
      parse_acti (acti_line sec ms ntok ptok (concat dtoks) tail) = T true).
Proof. exact frontends. Qed.
Print Assumptions C07_frontends.

(* second sentence of C07, as a corollary over an ABSTRACT segmenter / reassembler (to be instantiated with the
   fast-packet functions of C03 / C04): if reassembling the reversed frames of `segment payload` yields the
   reversed payload, then delivering those frames one by one through ANY mix of the three frame-level formats
   hands `_decode` a sequence of frames whose reassembly is exactly the data that the pre-assembled formats
   (Actisense, canboat with already_combined) hand over in one call — with the same PGN and addressing *)
Theorem C07_assembled : forall (ts_ok : Z -> list Z -> bool)
    (segment : list Z -> list (list Z)) (reasm : list (list Z) -> option (list Z)),
  (forall payload, bytes_ok payload = true -> Forall (fun f => bytes_ok f = true) (segment payload)) ->
  (forall payload, bytes_ok payload = true -> payload <> [] ->
      reasm (map (@rev Z) (segment payload)) = Some (rev payload)) ->
  forall id payload inputs,
  0 <= id < 536870912 -> bytes_ok payload = true -> payload <> [] ->
  Forall2 (renders ts_ok id) (segment payload) inputs ->
  let '(pgn, src, dst, prio) := extract_header id in
  (exists datas,
      map (parse_frame_input ts_ok) inputs = map (fun d => Ok (Some (pgn, prio, src, dst, d, false))) datas /\
      reasm datas = Some (rev payload)) /\
  (forall sec ms ntok ptok dtoks tail,
      acti_ts_ok sec ms -> tokval 16 ntok = Some (acti_build src dst prio) -> tokval 16 ptok = Some pgn ->
      Forall2 (fun t b => length t = 2%nat /\ tokval 16 t = Some b) dtoks payload -> forallb is_ws tail = true ->
      parse_acti (acti_line sec ms ntok ptok (concat dtoks) tail) = Ok (Some (pgn, prio, src, dst, rev payload, true))) /\
  (forall ts ptok gtok stok dtok ltok dts extra,
      basic_ts ts_ok ts -> dec_tok ptok prio -> dec_tok gtok pgn -> dec_tok stok src -> dec_tok dtok dst ->
      dec_tok ltok (zlen payload) -> Forall2 (fun t b => tokval 16 t = Some b) dts payload ->
      Forall (fun t => nocomma t /\ all_ascii t = true) extra -> dts ++ extra <> [] ->
      parse_basic ts_ok (basic_line ts ptok gtok stok dtok ltok dts extra) true
      = Ok (Some (pgn, prio, src, dst, rev payload, true))).
Proof. exact assembled. Qed.
Print Assumptions C07_assembled.

(* the encoders' own spellings are such renderings: what encode_* writes is read back to the same tuple by the
   matching parser (the C06_roundtrip theorems), and by C07_frontends every other spelling of the same frame agrees with it *)

(* non-vacuity: identifier 0x09F8017F (prio 2, PGN 129025, source 127) with 8 data bytes, rendered five ways
   (lower-case hex for canboat, mixed case for Yacht Devices, upper case for Actisense);
   the time-stamp oracle accepts exactly the three tokens used *)
Definition ex_id : Z := 0x09F8017F.
Definition ex_data : list Z := [1; 171; 0; 255; 16; 39; 127; 253].
Definition s_iso : list Z := [50;48;50;48;45;48;49;45;48;49;84;48;48;58;48;48;58;48;48;46;48;48;48;90]. (* 2020-01-01T00:00:00.000Z *)
Definition s_yd : list Z := [48;48;58;48;48;58;48;48;46;48;48;48].                                        (* 00:00:00.000 *)
Definition ex_ts (fmt : Z) (t : list Z) : bool :=
  ((fmt =? 1) && str_eqb t s_iso) || ((fmt =? 0) && str_eqb t s_yd).
Definition ex_tcp : list Z := 136 :: be4 ex_id ++ ex_data.
Definition ex_usb : list Z := usb_render 1 2 1 ex_id ex_data [] 0.
(* "2020-01-01T00:00:00.000Z,2,129025,127,255,8,01,ab,00,ff,10,27,7f,fd" *)
Definition ex_basic : list Z :=
  s_iso ++ [44;50;44;49;50;57;48;50;53;44;49;50;55;44;50;53;53;44;56;
            44;48;49;44;97;98;44;48;48;44;102;102;44;49;48;44;50;55;44;55;102;44;102;100].
(* "00:00:00.000 T 09f8017F 01 aB 00 Ff 10 27 7F fd\r\n" *)
Definition ex_ydl : list Z :=
  s_yd ++ [32;84;32;48;57;102;56;48;49;55;70;32;48;49;32;97;66;32;48;48;32;70;102;32;49;48;32;50;55;32;55;70;32;102;100;13;10].
(* "A000001.500 7FFF2 1F801 01AB00FF10277FFD" *)
Definition ex_acti : list Z :=
  [65;48;48;48;48;48;49;46;53;48;48;32;55;70;70;70;50;32;49;70;56;48;49;32;
   48;49;65;66;48;48;70;70;49;48;50;55;55;70;70;68].
Example C07_example :
  extract_header ex_id = (129025, 127, 255, 2) /\ bytes_ok ex_data = true /\
  parse_tcp ex_tcp = Ok (Some (129025, 2, 127, 255, rev ex_data, false)) /\
  parse_usb ex_usb = Ok (Some (129025, 2, 127, 255, rev ex_data, false)) /\
  parse_basic ex_ts ex_basic true = Ok (Some (129025, 2, 127, 255, rev ex_data, true)) /\
  parse_yd ex_ts ex_ydl = Ok (Some (129025, 2, 127, 255, rev ex_data, false)) /\
  parse_acti ex_acti = Ok (Some (129025, 2, 127, 255, rev ex_data, true)).
Proof. vm_compute. repeat split. Qed.

(* C07_assembled instantiated with the CONCRETE fast-packet pair of C03 (AssembledInst.v), no abstract hypothesis left:
     segment seq payload  the encoder's frames under sequence counter seq (FastPacket.segment, wire byte order);
     reasm datas          what the decoder's reassembly state machine (FastPacket.run, fresh record, decode function
                          that returns) delivers to _call_decode_function at the last of the `can_data` arguments
                          `datas` when every earlier one returned None; None otherwise.
   A fast packet carries at most 223 bytes, hence the bound (C07_assembled's hypotheses, which range over every
   payload, are needed at the given payload only: AssembledInst.assembled_at). *)
From NV Require Import FastPacket FastPacketProofs AssembledInst.

Theorem C07_assembled_fastpacket : forall (ts_ok : Z -> list Z -> bool) seq id payload inputs,
  0 <= seq < 8 -> 0 <= id < 536870912 -> bytes_ok payload = true -> payload <> [] -> zlen payload <= 223 ->
  Forall2 (renders ts_ok id) (segment seq payload) inputs ->
  let '(pgn, src, dst, prio) := extract_header id in
  (exists datas,
      map (parse_frame_input ts_ok) inputs = map (fun d => Ok (Some (pgn, prio, src, dst, d, false))) datas /\
      reasm datas = Some (rev payload)) /\
  (forall sec ms ntok ptok dtoks tail,
      acti_ts_ok sec ms -> tokval 16 ntok = Some (acti_build src dst prio) -> tokval 16 ptok = Some pgn ->
      Forall2 (fun t b => length t = 2%nat /\ tokval 16 t = Some b) dtoks payload -> forallb is_ws tail = true ->
      parse_acti (acti_line sec ms ntok ptok (concat dtoks) tail) = Ok (Some (pgn, prio, src, dst, rev payload, true))) /\
  (forall ts ptok gtok stok dtok ltok dts extra,
      basic_ts ts_ok ts -> dec_tok ptok prio -> dec_tok gtok pgn -> dec_tok stok src -> dec_tok dtok dst ->
      dec_tok ltok (zlen payload) -> Forall2 (fun t b => tokval 16 t = Some b) dts payload ->
      Forall (fun t => nocomma t /\ all_ascii t = true) extra -> dts ++ extra <> [] ->
      parse_basic ts_ok (basic_line ts ptok gtok stok dtok ltok dts extra) true
      = Ok (Some (pgn, prio, src, dst, rev payload, true))).
Proof. exact assembled_fastpacket. Qed.
Print Assumptions C07_assembled_fastpacket.

(* non-vacuity: identifier 0x0DF8057F (prio 3, PGN 129029, source 127), the 15-byte payload of C03_example under
   counter 7 = three frames, each sent as an EByte packet (the last one, 3 data bytes, padded with FF);
   the data handed to `_decode`, frame by frame, reassemble to the reversed payload *)
Definition fp_id : Z := 0x0DF8057F.
Definition fp_packets : list (list Z) :=
  [136 :: be4 fp_id ++ [224; 15; 1; 2; 3; 4; 5; 6];
   136 :: be4 fp_id ++ [225; 7; 8; 9; 10; 11; 12; 13];
   131 :: be4 fp_id ++ [226; 14; 15] ++ [255; 255; 255; 255; 255]].
Example C07_fastpacket_example :
  extract_header fp_id = (129029, 127, 255, 3) /\ bytes_ok ex_payload = true /\ zlen ex_payload = 15 /\
  segment 7 ex_payload = [[224; 15; 1; 2; 3; 4; 5; 6]; [225; 7; 8; 9; 10; 11; 12; 13]; [226; 14; 15]] /\
  let datas := [[6; 5; 4; 3; 2; 1; 15; 224]; [13; 12; 11; 10; 9; 8; 7; 225]; [15; 14; 226]] in
  map (parse_frame_input ex_ts) (map InTcp fp_packets)
    = map (fun d => Ok (Some (129029, 3, 127, 255, d, false))) datas /\
  reasm datas = Some (rev ex_payload) /\
  reasm (firstn 2 datas) = None.
Proof. vm_compute. repeat split. Qed.
(* and these packets are renderings in the sense of the theorem's hypothesis *)
Example C07_fastpacket_example_renders :
  Forall2 (renders ex_ts fp_id) (segment 7 ex_payload) (map InTcp fp_packets).
Proof.
  change (segment 7 ex_payload) with [[224; 15; 1; 2; 3; 4; 5; 6]; [225; 7; 8; 9; 10; 11; 12; 13]; [226; 14; 15]].
  cbn [map fp_packets]. constructor; [|constructor; [|constructor; [|constructor]]].
  - exact (R_tcp ex_ts fp_id [224; 15; 1; 2; 3; 4; 5; 6] 136 [] eq_refl).
  - exact (R_tcp ex_ts fp_id [225; 7; 8; 9; 10; 11; 12; 13] 136 [] eq_refl).
  - exact (R_tcp ex_ts fp_id [226; 14; 15] 131 [255; 255; 255; 255; 255] eq_refl).
Qed.
