(* C14 — close() is final and status notifications are faithful.
   Statements only; proofs live in ClientLTSProofs.v.  Model: ClientLTS.v (see props/C13.v for the conventions):
   the labelled transition system of nmea2000/ioclient.py; [trans k sd true true true true true] = the code with the repairs
   F-eofspin, F-closerace, F-connect-lost, F-serial-drain-leak and without an idempotence guard in close(); every theorem holds for EVERY client kind, reachable state, schedule and peer.
   `trace x` = the arguments of the status callback so far, newest first. *)
From NV Require Import Base ClientLTS ClientLTSProofs.

(* ---- CLOSED for ever ---- *)
(* from a CLOSED state, whatever happens next (connect() calls, the connect in flight completing or failing, retry
   timers, faults, sends, peer traffic): the state stays CLOSED, no connection attempt is started, the status callback
   is not invoked again *)
Theorem C14_closed_absorbing : forall k sd ls x y,
  st x = Closed -> run k sd true true true true true x ls = Some y ->
  st y = Closed /\ attempts y = attempts x /\ trace y = trace x.
Proof. exact closed_absorbing. Qed.
Print Assumptions C14_closed_absorbing.

Theorem C14_closed_iff_close_called : forall k sd x,
  reachable k sd true true true true true x -> (st x = Closed <-> closing x <> KNone).
Proof. exact closed_iff_close_called. Qed.
Print Assumptions C14_closed_iff_close_called.

(* ---- the link is shut ---- *)
(* the current connection, once close() is past `self.writer.close()` *)
Theorem C14_link_shut_current : forall k sd x w,
  reachable k sd true true true true true x -> past_close_rest x -> writer x = Some w ->
  In w (closed_w x) \/ In w (drainfail_w x) \/ awaiting_drain x.
Proof. exact link_shut_current. Qed.
Print Assumptions C14_link_shut_current.

(* every connection that came up after close() was called ([n0] = number of connections at that moment) *)
Theorem C14_link_shut_new : forall k sd x w,
  reachable k sd true true true true true x -> closing x <> KNone -> (n0 x <= w < next_w x)%nat ->
  In w (closed_w x) \/ In w (drainfail_w x) \/ (writer x = Some w /\ awaiting_drain x).
Proof. exact link_shut_new. Qed.
Print Assumptions C14_link_shut_new.

(* FULL statement: once close() has returned and the connect() that was in flight has finished, EVERY connection that
   came up after close() was called has been closed (needs the repair F-serial-drain-leak: the serial `_connect_impl`
   closes the port when its configuration write / drain raises) *)
Theorem C14_link_shut_full : forall k sd x w,
  reachable k sd true true true true true x -> closing x = KDone -> hold x = HNone -> (n0 x <= w < next_w x)%nat -> In w (closed_w x).
Proof. exact link_shut_full. Qed.
Print Assumptions C14_link_shut_full.

(* the current connection is closed as soon as close() is past `self.writer.close()`; the only exception is a serial port
   whose configuration drain is still pending: it is closed when that drain returns or raises (C14_link_shut_full) *)
Theorem C14_link_shut_current_full : forall k sd x w,
  reachable k sd true true true true true x -> past_close_rest x -> writer x = Some w -> In w (closed_w x) \/ awaiting_drain x.
Proof. exact link_shut_current_full. Qed.
Print Assumptions C14_link_shut_current_full.

(* the code without that repair: the port that opened after close() stays open for ever *)
Theorem C14_drainleak_as_it_was : exists x,
  run KSerial false true true true false true init drainleak = Some x /\
  st x = Closed /\ closing x = KDone /\ hold x = HNone /\ n0 x = 0%nat /\ next_w x = 1%nat /\ writer x = Some 0%nat /\ closed_w x = [].
Proof. exact drainleak_as_it_was. Qed.
Print Assumptions C14_drainleak_as_it_was.

Example C14_nonvacuous_drain : exists x,
  run KSerial false true true true true true init drainleak = Some x /\
  st x = Closed /\ closing x = KDone /\ hold x = HNone /\ writer x = Some 0%nat /\ closed_w x = [0%nat] /\ drainfail_w x = [].
Proof. exact drainleak_repaired. Qed.

(* ---- several close() calls ---- *)
(* close() may be called any number of times; the first call to run is AClose..., every further call is a small task of its
   own (AClose2Entry, AClose2Timer).  [closes_done] counts the calls that have returned.  Whenever ANY close() call returns:
   the state is CLOSED, the current link has been shut (only exception: a serial port that opened after close() and whose
   configuration drain is still pending - connect() closes it when that drain ends, C14_link_shut_full), and no receive task can
   read any more (finished; or created and not started: it exits at its first step; or a cancellation is pending) *)
Theorem C14_every_close_return_link_shut : forall k sd x a y,
  reachable k sd true true true true true x -> trans k sd true true true true true x a = Some y ->
  closes_done y = S (closes_done x) ->
  st y = Closed /\ (forall w, writer y = Some w -> In w (closed_w y) \/ awaiting_drain y) /\
  (rx_quiet y = true \/ rx_creq y = true).
Proof. exact every_close_return_link_shut. Qed.
Print Assumptions C14_every_close_return_link_shut.

(* an idempotence guard `if self._state == State.CLOSED: return` at the top of close() (switch fg = false) would break it: a
   second close() issued while the first is inside its CLOSED status callback returns with the link open and the receive
   task running *)
Theorem C14_close_guard_as_it_would_be : exists x,
  run KEByte false true true true true false init close_twice = Some x /\
  closes_done x = 1%nat /\ st x = Closed /\ closing x = KInCb /\ writer x = Some 0%nat /\ closed_w x = [] /\
  rx x = RWait /\ rx_creq x = false.
Proof. exact close_guard_as_it_would_be. Qed.
Print Assumptions C14_close_guard_as_it_would_be.

Example C14_nonvacuous_close_twice : exists x,
  run KEByte false true true true true true init
      (close_twice ++ [ARxCancelled; AEnvEof; AClose2Timer true; AConsCancelled; AClose2Timer false]) = Some x /\
  closes_done x = 1%nat /\ st x = Closed /\ closing x = KInCb /\ writer x = Some 0%nat /\ closed_w x = [0%nat] /\
  rx x = RDone /\ cons x = CDone.
Proof. exact close_twice_as_it_is. Qed.

(* ---- after close() has returned ---- *)
(* Scope: close() awaited on a task of its own (the application, as in every schedule of the model).  close() awaited from
   INSIDE a callback - i.e. on the queue-consumer task (receive callback) or on the receive-loop / send() task (status
   callback) - cancels the very task it runs on and is unwound by CancelledError; that is not a schedule of this transition
   system.  Those sessions are decided on the real clients by the oracle of tools/props/c14.py (state CLOSED for ever, link
   shut, no attempt, no receive callback afterwards, no pending task); the repair F-close-self-cancel (the consumer is
   cancelled in a `finally`) was found and is checked there, and leaves the steps of close() on every modelled schedule
   unchanged, so the model needs no switch for it. *)
(* the queue consumer is finished: no receive callback can start or resume; the receive task is finished or was created
   after close() and will exit at its first step without reading: no `_receive_impl` call *)
Theorem C14_after_close_returned : forall k sd x,
  reachable k sd true true true true true x -> closing x = KDone ->
  st x = Closed /\ cons x = CDone /\ rx_quiet x = true /\
  (forall o, trans k sd true true true true true x (AConsGot o) = None) /\ trans k sd true true true true true x AConsCbDone = None /\
  (forall o, trans k sd true true true true true x (ARxIter o) = None).
Proof. exact after_close_returned. Qed.
Print Assumptions C14_after_close_returned.

(* the client's own tasks (connect retry, receive loops, consumer, fault handlers) finish: after close() has returned
   they can take at most [fin_measure x] further steps in total, under any schedule; the steps excluded from
   [background] are the application's (connect(), send()) and the peer's *)
Theorem C14_background_tasks_finish : forall k sd ls x y,
  reachable k sd true true true true true x -> closing x = KDone -> all_background ls = true ->
  run k sd true true true true true x ls = Some y -> (length ls <= fin_measure x)%nat.
Proof. exact background_tasks_finish. Qed.
Print Assumptions C14_background_tasks_finish.

(* ---- the network-map seeding task (sd = true) ---- *)
(* C14_background_tasks_finish above includes the seeding tasks: [fin_measure] weighs every phase a task still has to go
   through (and the task a connect() that is finishing will still create): after close() has returned every seeding task
   ends - its sleeps end, its sends return on the CLOSED client.  A concrete run: close() between the first and the second
   request; and without the parameter no seeding step is possible *)
Theorem C14_seeding_task_finishes_after_close : exists x,
  run KEByte true true true true true true init seeding_then_close = Some x /\
  st x = Closed /\ closing x = KDone /\ attempts x = 1%nat /\ trace x = [Closed; Conn] /\
  (seed_new x + seed_sleep x + seed_drain x + seed_cb x = 0)%nat /\ seed_more x = 0%nat.
Proof. exact seeding_task_finishes_after_close. Qed.
Print Assumptions C14_seeding_task_finishes_after_close.

Example C14_no_seeding_task_without_the_parameter :
  run KEByte false true true true true true init [AConsStart; AUserConnect; AConnEntry true; AImplOk CbRet; ASeedStart] = None.
Proof. exact no_seeding_task_without_the_parameter. Qed.

(* ---- the status callback ---- *)
(* invoked once per state change and only then: every step either leaves state and trace alone or changes the state
   and pushes exactly the new state *)
Theorem C14_status_once_per_change : forall k sd x a y,
  trans k sd true true true true true x a = Some y ->
  (st y = st x /\ trace y = trace x) \/ (st y <> st x /\ trace y = st y :: trace x).
Proof. exact status_once_per_change. Qed.
Print Assumptions C14_status_once_per_change.

(* in order: the whole trace of a run is the sequence of state changes of that run ([sts] = states after each step,
   [changes] = that sequence with repetitions dropped, starting from the initial DISCONNECTED) *)
Theorem C14_status_trace_faithful : forall k sd ls y,
  run k sd true true true true true init ls = Some y -> rev (trace y) = changes Disc (sts k sd true true true true true init ls).
Proof. exact status_trace_faithful. Qed.
Print Assumptions C14_status_trace_faithful.

(* never twice in a row for the same state (the first notification is not DISCONNECTED either), and the last one is the
   current state *)
Theorem C14_status_trace_no_repeat : forall k sd x,
  reachable k sd true true true true true x -> hd Disc (trace x ++ [Disc]) = st x /\ nodup_adj (trace x ++ [Disc]).
Proof. exact status_trace_no_repeat. Qed.
Print Assumptions C14_status_trace_no_repeat.

(* an exception raised by the status callback does not affect the client: replacing "raised" by "returned" in any
   sequence of steps gives the same result (same successor states, same refusals) *)
Theorem C14_callback_exception_harmless : forall k sd ls x,
  run k sd true true true true true x (map act_norm ls) = run k sd true true true true true x ls.
Proof. exact callback_exception_harmless. Qed.
Print Assumptions C14_callback_exception_harmless.

(* ---- the code as it was: close() while open_connection() is pending (F-closerace) ---- *)
Theorem C14_closerace_as_it_was : exists x,
  run KEByte false true false true true true init closerace = Some x /\
  st x = Conn /\ trace x = [Conn; Closed] /\ closing x = KDone /\ writer x = Some 0%nat /\ closed_w x = [] /\ rx x = RCreated.
Proof. exact closerace_as_it_was. Qed.
Print Assumptions C14_closerace_as_it_was.

(* ---- non-vacuity: the same schedule on the repaired model, and a close() during a slow callback with a connect() after it ---- *)
Example C14_nonvacuous_race : exists x,
  run KEByte false true true true true true init (removelast closerace ++ [AImplOk CbNone]) = Some x /\
  st x = Closed /\ trace x = [Closed] /\ writer x = Some 0%nat /\ closed_w x = [0%nat] /\ rx x = RNone /\ lock x = false.
Proof. exact closerace_repaired. Qed.

Example C14_nonvacuous : exists x,
  run KText false true true true true true init
    [AConsStart; AUserConnect; AConnEntry true; AImplOk CbRaise; ARxStart; ARxIter RxSusp; AEnvFeed 40;
     ARxIter (RxRet 0 1); ARxIter RxSusp; AConsGot RcSusp;
     AClose CbSusp; AEnvEof; ACloseCbDone; ARxCancelled; ACloseTimer; AConsCancelled; ACloseTimer;
     AUserConnect; AConnEntry false; ASendEntry SReturn] = Some x /\
  st x = Closed /\ closing x = KDone /\ trace x = [Closed; Conn] /\ cons x = CDone /\ rx x = RDone /\
  closed_w x = [0%nat] /\ attempts x = 1%nat /\ fin_measure x = 0%nat.
Proof. eexists. vm_compute. repeat split. Qed.
