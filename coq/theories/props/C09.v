(* C09 — encoding never silently corrupts a value (bit-level and decision-rule statements). *)
From NV Require Import Base Bits Defn PyNum Fields Dispatch Template TemplateEnc Encode Spec SpecProofs EncodeProofs.

(* a number whose rounded quotient lies outside the representable interval (top code reserved for
   "not available"; negative for unsigned) is rejected: an accepted one is inside, and is stored in
   two's complement — never wrapped or clipped *)
Theorem C09_range : forall v len signed res z,
  encode_num v len signed res = Ok z ->
  exists q n, py_div v res = Ok q /\ (match q with PF f => py_round f | PI k => Ok k end) = Ok n /\
    (if signed then - Z.shiftl 1 (len - 1) <= n <= Z.shiftl 1 (len - 1) - 2 else 0 <= n <= Z.shiftl 1 len - 2) /\
    z = (if signed && (n <? 0) then Z.shiftl 1 len + n else n).
Proof. exact encode_num_inv. Qed.
Print Assumptions C09_range.

(* a message that lacks a field the definition lists is never encoded *)
Theorem C09_missing : forall LE steps mf acc id k m s,
  In (EField id k m s) steps -> get_field id mf = None ->
  forall x, run_esteps LE acc steps mf <> Ok x.
Proof. exact missing_field_is_error. Qed.
Print Assumptions C09_missing.

(* changing field values changes no payload bit outside the ranges of the fields that changed *)
Theorem C09_local : forall vs ws i,
  Forall fwf vs -> Forall fwf ws -> 0 <= i ->
  map (fun x => (snd (fst x), snd x)) vs = map (fun x => (snd (fst x), snd x)) ws ->
  (forall n a b, nth_error vs n = Some a -> nth_error ws n = Some b ->
                 snd (fst a) <= i < snd (fst a) + snd a -> fst (fst a) = fst (fst b)) ->
  Z.testbit (fold_left put_fld vs 0) i = Z.testbit (fold_left put_fld ws 0) i.
Proof. exact encoded_bits_local. Qed.
Print Assumptions C09_local.

(* what is written is what is read: each field of the produced payload is the converted value mod 2^len *)
Theorem C09_reads_back : forall vs v off len,
  Forall fwf vs -> In (v, off, len) vs ->
  (forall g, In g vs -> g = (v, off, len) \/ disj (v, off, len) g) ->
  decode_int (fold_left put_fld vs 0) off len = v mod 2 ^ len.
Proof. exact encoded_field_reads_back. Qed.
Print Assumptions C09_reads_back.

(* absent -> absent *)
Theorem C09_absent : forall len signed, 1 <= len -> (signed = true -> 4 <= len) ->
  let z := na_pattern len signed in
  0 <= z < 2 ^ len /\ not_available signed len (sign_extend signed len z) = true.
Proof. exact absent_roundtrip. Qed.
Print Assumptions C09_absent.

Example C09_example :
  encode_num (PI 65535) 16 false (PI 1) = Err ERange /\ encode_num (PI (-1)) 16 false (PI 1) = Err ERange /\
  encode_num (PI 65534) 16 false (PI 1) = Ok 65534 /\ encode_num (PI 32767) 16 true (PI 1) = Err ERange.
Proof. vm_compute. auto. Qed.
