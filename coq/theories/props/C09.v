(* C09 — encoding never silently corrupts a value (bit-level and decision-rule statements). *)
From NV Require Import Base Bits Defn PyNum Fields Dispatch Template TemplateEnc Encode Spec SpecProofs EncodeProofs RangeProofs.

(* a number whose rounded quotient lies outside the representable interval (top code reserved for
   "not available"; negative for unsigned) is rejected: an accepted one is inside, and is stored in
   two's complement — never wrapped or clipped *)
Theorem C09_range : forall v len signed res z,
  encode_num v len signed res = Ok z ->
  exists q n, py_div v res = Ok q /\ (match q with PF f => py_round f | PI k => Ok k end) = Ok n /\
    (if signed then - Z.shiftl 1 (len - 1) <= n <= Z.shiftl 1 (len - 1) - 2 else 0 <= n <= Z.shiftl 1 len - 2) /\
    z = (if signed && (n <? 0) then Z.shiftl 1 len + n else n).
Proof. exact encode_num_inv. Qed.
Print Assumptions C09_range.

(* a message that lacks a field the definition lists is never encoded *)
Theorem C09_missing : forall LE steps mf acc id k m s,
  In (EField id k m s) steps -> get_field id mf = None ->
  forall x, run_esteps LE acc steps mf <> Ok x.
Proof. exact missing_field_is_error. Qed.
Print Assumptions C09_missing.

(* changing field values changes no payload bit outside the ranges of the fields that changed *)
Theorem C09_local : forall vs ws i,
  Forall fwf vs -> Forall fwf ws -> 0 <= i ->
  map (fun x => (snd (fst x), snd x)) vs = map (fun x => (snd (fst x), snd x)) ws ->
  (forall n a b, nth_error vs n = Some a -> nth_error ws n = Some b ->
                 snd (fst a) <= i < snd (fst a) + snd a -> fst (fst a) = fst (fst b)) ->
  Z.testbit (fold_left put_fld vs 0) i = Z.testbit (fold_left put_fld ws 0) i.
Proof. exact encoded_bits_local. Qed.
Print Assumptions C09_local.

(* what is written is what is read: each field of the produced payload is the converted value mod 2^len *)
Theorem C09_reads_back : forall vs v off len,
  Forall fwf vs -> In (v, off, len) vs ->
  (forall g, In g vs -> g = (v, off, len) \/ disj (v, off, len) g) ->
  decode_int (fold_left put_fld vs 0) off len = v mod 2 ^ len.
Proof. exact encoded_field_reads_back. Qed.
Print Assumptions C09_reads_back.

(* absent -> absent *)
Theorem C09_absent : forall len signed, 1 <= len -> (signed = true -> 4 <= len) ->
  let z := na_pattern len signed in
  0 <= z < 2 ^ len /\ not_available signed len (sign_extend signed len z) = true.
Proof. exact absent_roundtrip. Qed.
Print Assumptions C09_absent.

Example C09_example :
  encode_num (PI 65535) 16 false (PI 1) = Err ERange /\ encode_num (PI (-1)) 16 false (PI 1) = Err ERange /\
  encode_num (PI 65534) 16 false (PI 1) = Ok 65534 /\ encode_num (PI 32767) 16 true (PI 1) = Err ERange.
Proof. vm_compute. auto. Qed.

(* ---- half a resolution step (IEEE-754; proofs in RangeProofs.v) ----
   "a value that is accepted is encoded to the raw value nearest to value/resolution, so that decoding
   it again gives the value back to within half a resolution step": whenever encode_number accepts a
   number, the raw value n it writes — the one the decoder's sign extension reads back, never the
   not-available pattern — satisfies |n*res - value| <= |res|/2 + 2^-53 |value|. The second term is the
   one rounding of the double quotient value/res (ties to even included; a quotient in the subnormal
   range needs no extra hypothesis: it rounds to n = 0 and |value| < 2^-1022 |res|).
   enc_okb (boolean, RangeProofs.v): any float value or an int value below 2^53; any finite float
   resolution or a non-zero int resolution below 2^53. pyR x is the real number x denotes. *)
From Coq Require Import Reals Floats.
From Flocq Require Import Core BinarySingleNaN IEEE754.PrimFloat.
From NV Require Import PyNum.   (* again, so that PI is the Python int constructor, not the real number pi *)

Theorem C09_half_step : forall (v res : pynum) (len : Z) (signed : bool) (z : Z),
  (1 <= len)%Z -> (signed = true -> (4 <= len)%Z) ->
  enc_okb v res = true ->
  encode_num v len signed res = Ok z ->
  exists n, rounded_quotient v res = Ok n /\ sign_extend signed len z = n /\
    not_available signed len n = false /\
    (Rabs (IZR n * pyR res - pyR v) <= Rabs (pyR res) / 2 + bpow radix2 (-53) * Rabs (pyR v))%R.
Proof. exact encode_half_step. Qed.
Print Assumptions C09_half_step.

(* integer value and integer resolution k, in integers. Python divides in doubles: a quotient just
   below a half-integer can round up to it and then to the even neighbour, so the bound is k + 1 in
   general (attained: k = 2^26 + 1, v = k*k + 2^25, below) and exactly k when |v| < 2^52 *)
Theorem C09_half_step_int : forall (x k len : Z) (signed : bool) (z : Z),
  (1 <= len)%Z -> (signed = true -> (4 <= len)%Z) ->
  (1 <= k < 2 ^ 53)%Z -> (Z.abs x < 2 ^ 53)%Z ->
  encode_num (PI x) len signed (PI k) = Ok z ->
  exists n, rounded_quotient (PI x) (PI k) = Ok n /\ sign_extend signed len z = n /\
    (2 * Z.abs (n * k - x) <= k + 1)%Z /\
    ((Z.abs x < 2 ^ 52)%Z -> (2 * Z.abs (n * k - x) <= k)%Z).
Proof. exact encode_int_half_step. Qed.
Print Assumptions C09_half_step_int.

(* decoding again: for a float resolution and a field of at most 53 bits, the scaled value w = fl(n*r)
   the decoder computes from the written raw value is within |r|/2 + 2^-53 |value| + 2^-53 |n*r| of
   the encoded value *)
Theorem C09_decodes_back_close : forall (v : pynum) (r : PrimFloat.float) (len : Z) (signed : bool) (z : Z),
  (1 <= len <= 53)%Z -> (signed = true -> (4 <= len)%Z) ->
  enc_okb v (PF r) = true -> NV.FloatRT.res_ok r = true ->
  encode_num v len signed (PF r) = Ok z ->
  exists n w, sign_extend signed len z = n /\ not_available signed len n = false /\
    py_mul_int n (PF r) = Ok (PF w) /\ is_finite (Prim2B w) = true /\
    (Rabs (B2R (Prim2B w) - pyR v) <=
       Rabs (B2R (Prim2B r)) / 2 + bpow radix2 (-53) * Rabs (pyR v)
       + bpow radix2 (-53) * Rabs (IZR n * B2R (Prim2B r)))%R.
Proof. exact encode_then_decode_close. Qed.
Print Assumptions C09_decodes_back_close.

(* non-vacuity: 6553.2 at resolution 0.1 into a 16-bit unsigned field is accepted as 65532, and the
   half-step inequality holds of these numbers (checked exactly on mantissas and exponents:
   2 |65532 * r - v| <= r); int and float values against int and float resolutions; the integer
   example where 2 |n*k - v| = k + 1 *)
Example C09_half_step_example :
  let r := 0x1.999999999999ap-4%float in let v := 0x1.9993333333333p+12%float in
  (enc_okb (PF v) (PF r) = true /\ encode_num (PF v) 16 false (PF r) = Ok 65532 /\
   rounded_quotient (PF v) (PF r) = Ok 65532 /\
   match float_me r, float_me v with
   | Some (mr, er), Some (mv, ev) =>
       let d := me_add ((65532 * mr)%Z, er) ((- mv)%Z, ev) in
       me_le ((2 * Z.abs (fst d))%Z, snd d) (mr, er)
   | _, _ => false
   end = true) /\
  (enc_okb (PI 6553) (PF r) = true /\ encode_num (PI 6553) 16 false (PF r) = Ok 65530 /\
   enc_okb (PF v) (PI 5) = true /\ encode_num (PF v) 16 false (PI 5) = Ok 1311 /\
   encode_num (PI (-52)) 16 true (PI 5) = Ok (65536 - 10)) /\
  (let k := (2 ^ 26 + 1)%Z in let x := (k * k + 2 ^ 25)%Z in
   (Z.abs x <? 2 ^ 53)%Z = true /\ rounded_quotient (PI x) (PI k) = Ok (k + 1)%Z /\
   (2 * Z.abs ((k + 1) * k - x) = k + 1)%Z).
Proof. vm_compute. repeat split. Qed.
