(* C13 — gateway clients recover from every connection fault and never stall the loop.
   Statements only; proofs live in ClientLTSProofs.v.  Model: ClientLTS.v — nmea2000/ioclient.py
   (AsyncIOClient.connect / _receive_loop / send / close / _process_queue / _update_state, the read behaviour of the
   four `_receive_impl`s, tenacity's AsyncRetrying + wait_exponential) as a labelled transition system with a
   nondeterministic scheduler and peer.  `trans k sd fe fc fl fd fg` : [k] = client kind (readexactly / readline / read),
   [fe fc fl fd] = the repairs F-eofspin, F-closerace, F-connect-lost, F-serial-drain-leak, [fg] = close() without idempotence guard (the code as it is); the theorems are about
   [true true true true true], for EVERY kind, EVERY reachable state and EVERY run (any length, any schedule, any peer behaviour).
   `reachable k sd fe fc fl fd fg x` := exists ls, run k sd fe fc fl fd fg init ls = Some x.  Delays are in units of 0.5 s. *)
From NV Require Import Base ClientLTS ClientLTSProofs ClientLTSLive.

(* ---- after a fault: DISCONNECTED is reported (once), and a reconnect is on its way ---- *)
(* `fault_cb a = Some c`: [a] is a read fault in the receive loop (exception from `_receive_impl`, incl. end of stream and
   the EByte 'Sorry,Limited' path) or a write fault in send(); [c] is what the status callback did.
   `reconnect_pending y`: a connect() owns the lock, or one is scheduled (create_task), or the fault handler is still
   inside the status callback and will schedule one. *)
Theorem C13_fault_reported : forall k sd x a y c,
  reachable k sd true true true true true x -> fault_cb a = Some c -> st x <> Closed -> trans k sd true true true true true x a = Some y ->
  st y = Disc /\ reconnect_pending y /\
  (st x = Conn -> c <> CbNone /\ trace y = Disc :: trace x) /\
  (st x = Disc -> c = CbNone /\ trace y = trace x).
Proof. exact fault_reported. Qed.
Print Assumptions C13_fault_reported.

(* no reconnect request is ever lost: in EVERY reachable state that is DISCONNECTED after a notification (i.e. after a
   connection had been up), a reconnect is pending - this is what F-connect-lost broke *)
Theorem C13_reconnect_never_lost : forall k sd x,
  reachable k sd true true true true true x -> st x = Disc -> trace x <> [] -> reconnect_pending x.
Proof. exact reconnect_never_lost. Qed.
Print Assumptions C13_reconnect_never_lost.

(* ... and the reconnect machinery is never stuck: with a reconnect pending and no task in the middle of a step, one of
   its steps (connect() entry, attempt outcome, back-off timer, end of the status callback / cancel wait, the fault
   handler leaving the status callback) is enabled *)
Theorem C13_reconnect_progress : forall k sd x,
  reachable k sd true true true true true x -> busy x = false -> reconnect_pending x ->
  exists a y, reconnect_step a /\ trans k sd true true true true true x a = Some y.
Proof. exact reconnect_progress_reachable. Qed.
Print Assumptions C13_reconnect_progress.

Theorem C13_lock_iff_connect_running : forall k sd x,
  reachable k sd true true true true true x -> (lock x = true <-> hold x <> HNone).
Proof. exact lock_iff_holder. Qed.
Print Assumptions C13_lock_iff_connect_running.

(* ---- recovery is always possible: the client is never wedged ---- *)
(* from EVERY reachable DISCONNECTED state with a reconnect pending (C13_reconnect_never_lost: every DISCONNECTED state
   after a fault) in which no task is in the middle of a step (such bursts are bounded: C13_never_monopolises) there is a
   run of at most 5 steps - steps of the connect machinery plus "the gateway accepts the attempt" - that ends CONNECTED,
   the lock released, with a fresh receive task that nobody has cancelled.  (Possibility, not inevitability: that the
   scheduler takes these steps and the gateway accepts is the fairness assumption.) *)
Theorem C13_recovery_possible : forall k sd x,
  reachable k sd true true true true true x -> st x = Disc -> busy x = false -> reconnect_pending x ->
  exists ls, (Forall recovery_step ls /\ (length ls <= 5)%nat) /\
             exists y, run k sd true true true true true x ls = Some y /\ recovered y.
Proof. exact recovery_possible. Qed.
Print Assumptions C13_recovery_possible.

(* ---- recovery is inevitable when the environment is quiet (ClientLTSLive.v) ---- *)
(* `qstep x a`: [a] is a step of the client's own machinery (connect(), receive loop, queue consumer, fault handlers) with a
   gateway that accepts - no application call, no peer action, no failing attempt - that is realistic at x (a suspended read
   is only resumed when it can make progress; a read enqueues at most one message per consumed byte).
   `qrun k sd x ls = Some y`: ls is a run of such steps from x to y.  `stuck_quiet k sd y`: no such step is enabled in y. *)

(* every quiet step strictly decreases the explicit measure [lmu], in EVERY state: a quiet run from x has at most lmu x steps *)
Theorem C13_recovery_terminates : forall k sd,
  (forall x a y, qstep x a = true -> trans k sd true true true true true x a = Some y -> (lmu y < lmu x)%nat) /\
  (forall ls x y, qrun k sd x ls = Some y -> (length ls + lmu y <= lmu x)%nat).
Proof. intros k sd. split; [exact (lmu_step k sd) | exact (recovery_terminates k sd)]. Qed.
Print Assumptions C13_recovery_terminates.

(* a reachable non-CLOSED state in which no quiet step is enabled is at rest: CONNECTED, lock free, nothing pending, the
   receive task alive, not cancelled and waiting for data, nothing consumable buffered, queue drained - or it was never
   asked to connect.  In particular every state with a reconnect pending has an enabled quiet step. *)
Theorem C13_no_deadlock_before_recovery : forall k sd x,
  reachable k sd true true true true true x -> st x <> Closed -> stuck_quiet k sd x -> rest_connected k x \/ rest_idle x.
Proof. exact no_deadlock. Qed.
Print Assumptions C13_no_deadlock_before_recovery.

(* every maximal quiet run from a reachable non-CLOSED state in which a connect() was asked for (in particular: a reconnect
   is pending after a fault) is finite - at most lmu x steps - and ends recovered *)
Theorem C13_recovery_inevitable : forall k sd x ls y,
  reachable k sd true true true true true x -> st x <> Closed -> asked x ->
  qrun k sd x ls = Some y -> stuck_quiet k sd y -> (length ls <= lmu x)%nat /\ rest_connected k y.
Proof. exact recovery_inevitable. Qed.
Print Assumptions C13_recovery_inevitable.

Example C13_recovery_inevitable_nonvacuous : exists x y,
  run KEByte false true true true true true init post_fault = Some x /\ st x = Conn /\ eof x = true /\
  qrun KEByte false x quiet_recovery = Some y /\ stuck_quiet KEByte false y /\ rest_connected KEByte y /\
  trace y = [Conn; Disc; Conn] /\ (length quiet_recovery <= lmu x)%nat.
Proof. exact recovery_inevitable_example. Qed.

Theorem C13_recovery_inevitable_after_fault : forall k sd x ls y,
  reachable k sd true true true true true x -> st x <> Closed -> reconnect_pending x ->
  qrun k sd x ls = Some y -> stuck_quiet k sd y -> (length ls <= lmu x)%nat /\ rest_connected k y.
Proof. exact recovery_inevitable_after_fault. Qed.
Print Assumptions C13_recovery_inevitable_after_fault.

(* why "own step" needs the realism side condition: with the label alone the model (an over-approximation) has a
   self-loop - a suspended read "resumed" without new data *)
Theorem C13_quiet_only_refuted_spurious_wakeup : exists s,
  run KEByte false true true true true true init rwait_state = Some s /\ quiet (ARxIter RxSusp) = true /\
  forall n, run KEByte false true true true true true s (repeat (ARxIter RxSusp) n) = Some s.
Proof. exact quiet_only_refuted_spurious_wakeup. Qed.
Print Assumptions C13_quiet_only_refuted_spurious_wakeup.

(* ---- retries: growing, capped, never-zero delay; for as long as needed ---- *)
Theorem C13_backoff : forall n, 1 <= n ->
  0 < wait2 n <= 20 /\ wait2 n <= wait2 (n + 1) /\ (n <= 5 -> wait2 n = 2 ^ (n - 1)) /\ (6 <= n -> wait2 n = 20).
Proof. exact backoff_spec. Qed.
Print Assumptions C13_backoff.

Theorem C13_backoff_monotone : forall n m, 1 <= n -> n <= m -> wait2 n <= wait2 m.
Proof. exact wait2_mono. Qed.
Print Assumptions C13_backoff_monotone.

(* a failing attempt number n (n >= 1 in every reachable state) is followed by a sleep of exactly wait2 n, between 0.5 s and
   10 s, with the lock kept ... *)
Theorem C13_retry_delay : forall k sd x a y d,
  reachable k sd true true true true true x -> a = AImplFail d \/ a = AImplFailOpened d -> trans k sd true true true true true x a = Some y ->
  exists n, (1 <= n)%nat /\ (hold x = HAwaitImpl n \/ hold x = HAwaitDrain n) /\ hold y = HBackoff n /\
            d = wait2 (Z.of_nat n) /\ 1 <= d <= 20 /\ lock y = true /\ st y = st x.
Proof. exact retry_delay. Qed.
Print Assumptions C13_retry_delay.

(* ... and, unless the client was closed, by attempt n+1: for every n (stop_never) *)
Theorem C13_retry_continues : forall k sd x n,
  hold x = HBackoff n -> st x <> Closed -> allowed x ABackoffDone = true ->
  exists y, trans k sd true true true true true x ABackoffDone = Some y /\ hold y = HAwaitImpl (S n) /\ attempts y = S (attempts x).
Proof. exact retry_continues. Qed.
Print Assumptions C13_retry_continues.

(* ---- the gateway accepts again: CONNECTED is reported, a fresh receive task is created and runs ---- *)
Theorem C13_connect_succeeds : forall k sd x y cb,
  st x <> Closed -> trans k sd true true true true true x (AImplOk cb) = Some y ->
  st y = Conn /\ (st x <> Conn -> cb <> CbNone /\ trace y = Conn :: trace x) /\
  match cb with
  | CbSusp => hold y = HStatusCb
  | _ => (rx_alive x = true /\ hold y = HCancelWait /\ rx_creq y = true) \/
         (rx_alive x = false /\ rx y = RCreated /\ rx_creq y = false /\ lock y = false)
  end.
Proof. exact connect_succeeds. Qed.
Print Assumptions C13_connect_succeeds.

(* whenever the connect() that owns the lock finishes (any path: directly, after the status callback, after the cancel
   wait), the client is CLOSED or a fresh, not-cancelled receive task exists, no other receive task is live, and if a
   fault was reported meanwhile another connect() is already scheduled *)
Theorem C13_connect_finishes : forall k sd x a y,
  reachable k sd true true true true true x -> lock x = true -> trans k sd true true true true true x a = Some y -> lock y = false ->
  st y = Closed \/
  (rx y = RCreated /\ rx_creq y = false /\ old_live y = 0%nat /\
   (st y = Conn \/ (st y = Disc /\ (0 < pending_connects y)%nat))).
Proof. exact connect_finishes. Qed.
Print Assumptions C13_connect_finishes.

Theorem C13_fresh_receive_task_runs : forall k sd x y,
  st x <> Closed -> trans k sd true true true true true x ARxStart = Some y -> rx x = RCreated /\ rx y = RRun.
Proof. exact fresh_receive_task_runs. Qed.
Print Assumptions C13_fresh_receive_task_runs.

(* ---- only one receive path ---- *)
(* `old_live` counts receive tasks that were replaced by a new one without having finished or been cancelled *)
Theorem C13_single_receive_path : forall k sd x, reachable k sd true true true true true x -> old_live x = 0%nat.
Proof. exact single_receive_path. Qed.
Print Assumptions C13_single_receive_path.

Theorem C13_old_receive_task_cancelled : forall k sd x,
  reachable k sd true true true true true x -> hold x = HCancelWait -> rx_alive x = false \/ rx_creq x = true.
Proof. exact old_receive_task_cancelled. Qed.
Print Assumptions C13_old_receive_task_cancelled.

(* ---- never monopolises the event loop ---- *)
(* `busy x`: the receive loop or the queue consumer is in the middle of an event-loop step (it continued without
   suspending).  `busy_run`: every step of the run is taken from a busy state, i.e. nobody else got the loop.  Such a burst
   is bounded by the bytes already buffered / messages already queued, whatever the peer does (incl. end of stream). *)
Theorem C13_never_monopolises : forall k sd x ls y,
  reachable k sd true true true true true x -> busy_run k sd true true true true true x ls = Some y ->
  (length ls <= S (Z.to_nat (Z.max (buf x) (q x))))%nat.
Proof. exact never_monopolises. Qed.
Print Assumptions C13_never_monopolises.

(* ---- the code as it was (repair switched off): the defects are runs of the model ---- *)
(* F-eofspin: the text (and serial) client after end of stream: an unbounded burst, for every n *)
Theorem C13_eofspin_as_it_was : exists s,
  run KText false false true true true true init spin_prefix = Some s /\ busy s = true /\ st s = Conn /\
  forall n, busy_run KText false false true true true true s (repeat (ARxIter (RxRet 0 0)) n) = Some s.
Proof. exact eofspin_as_it_was. Qed.
Print Assumptions C13_eofspin_as_it_was.

(* F-connect-lost: DISCONNECTED, nothing pending, for ever *)
Theorem C13_connect_lost_as_it_was : exists x,
  run KEByte false true true false true true init connect_lost = Some x /\
  st x = Disc /\ lock x = false /\ pending_connects x = 0%nat /\ send_cb x = 0%nat /\ rx x = RWait /\ trace x = [Disc; Conn].
Proof. exact connect_lost_as_it_was. Qed.
Print Assumptions C13_connect_lost_as_it_was.

(* ---- non-vacuity: a session with a refused attempt, a connection, end of stream mid-frame, back-off and recovery is a
   run of the repaired model, and reaches the states the theorems talk about ---- *)
Example C13_nonvacuous : exists x,
  run KEByte false true true true true true init
    [AConsStart; AUserConnect; AConnEntry true; AImplFail 1; ABackoffDone; AImplOk CbRet; ARxStart; ARxIter RxSusp;
     AEnvFeed 20; ARxIter (RxRet 7 1); ARxIter RxSusp; AConsGot RcRet;
     AEnvEof; ARxIter (RxRaise 0 CbRet); AConnEntry true; AImplFail 1; ABackoffDone; AImplFail 2; ABackoffDone;
     AImplOk CbRet; ARxStart; ARxIter RxSusp] = Some x /\
  st x = Conn /\ trace x = [Conn; Disc; Conn] /\ attempts x = 5%nat /\ rx x = RWait /\ old_live x = 0%nat /\ writer x = Some 1%nat.
Proof. eexists. vm_compute. repeat split. Qed.
