(* placeholder — replaced below *)
From NV Require Import Base ClientLTS.
