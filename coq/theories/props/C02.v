From NV Require Import Base.
