(* C02 — decoding then re-encoding a payload reproduces it on all defined bits.
   Generic statements; the instance for the regenerated tables is tools/templates/OblC02.v.
   Structure: (1) payload level, integers only — the generated encoder ORs masked, shifted field
   values, so with a disjoint layout each field reads back as the value its conversion produced;
   (2) field level — absent values, lookups and reserved bits reproduce the decoded bits exactly;
   an accepted number reads back (after the decoder's sign extension) as round(value/resolution),
   never as "not available". (3) C02_float: round(fl(fl(n)*r)/r) = n on IEEE doubles — the
   decoded value of a number field re-encodes to exactly the original bits. *)
From NV Require Import Base Bits Defn PyNum Fields Dispatch Template TemplateEnc Encode Spec SpecProofs EncodeProofs FloatRT RoundTrip.

Theorem C02_payload : forall code_enc LE g d,
  edef_ok code_enc g d = true -> encodable d = true -> layout_ok d = true ->
  exists ce, find_fname (fname_of g d) code_enc = Some ce /\ e_length ce = d_length d /\
    forall mf x, run_esteps LE 0 (e_steps ce) mf = Ok x ->
      exists vs, enc_vals LE (d_fields d) mf = Ok vs /\ layout_of vs = db_layout (d_fields d) /\
        forall v off len, In (v, off, len) vs -> decode_int x off len = v mod 2 ^ len.
Proof. exact edef_ok_sound. Qed.
Print Assumptions C02_payload.

(* absent stays absent: the not-available pattern written for None is the pattern the decoder reports as None *)
Theorem C02_absent : forall len signed, 1 <= len -> (signed = true -> 4 <= len) ->
  let z := na_pattern len signed in
  0 <= z < 2 ^ len /\ not_available signed len (sign_extend signed len z) = true.
Proof. exact absent_roundtrip. Qed.
Print Assumptions C02_absent.

(* an accepted number: the bits written, read back with the decoder's sign extension, are exactly the
   rounded quotient n = round(value / resolution), which is in the representable interval and is not
   the not-available code (signed values keep their sign) *)
Theorem C02_number : forall v len signed res z, 1 <= len -> (signed = true -> 4 <= len) ->
  encode_num v len signed res = Ok z ->
  exists n, rounded_quotient v res = Ok n /\ 0 <= z < 2 ^ len /\
            sign_extend signed len z = n /\ not_available signed len n = false.
Proof. exact encode_num_reads_back. Qed.
Print Assumptions C02_number.

(* lookups and reserved bits: the decoded raw bits are written back unchanged *)
Theorem C02_lookup_reserved : forall LE tbl f bits,
  (fl_raw f = VInt bits -> field_value LE (ELookup tbl) f = Ok bits) /\
  (fl_val f = VInt bits -> field_value LE EReserved f = Ok bits).
Proof. intros LE tbl f bits. split; intros H; simpl; rewrite H; reflexivity. Qed.
Print Assumptions C02_lookup_reserved.

(* THE FLOATING-POINT PART. Whatever decode_number produced from a field's bits — None for the
   not-available pattern, otherwise the double fl(fl(n) * resolution) (or the int n * k) that passed
   the range check — encode_number turns back into exactly those bits: IEEE-754 binary64 error
   analysis (Flocq) of the product, the quotient and Python's round-half-even, on the executable
   model functions. Float resolutions (finite, 2^-300 <= |r| <= 2^300): fields of up to 48 bits
   (49 signed) — the width the property names; integer resolution k: while 2^len * k <= 2^53. *)
Theorem C02_float : forall bits len signed res mn mx val,
  1 <= len -> (signed = true -> 4 <= len) -> 0 <= bits < 2 ^ len ->
  num_field_ok len signed res ->
  number_of_raw (sign_extend signed len bits) len signed res mn mx = Ok val ->
  encode_number val len signed res = Ok bits.
Proof. exact number_field_roundtrip. Qed.
Print Assumptions C02_float.

(* END TO END, one database definition: if the translated encoder equals the encoder template of d (edef_ok, decided
   per run for every definition), d is encodable with a disjoint layout, and its fields satisfy rt_def_ok (fixed
   position; number/date/time/duration fields within the hypotheses of C02_float; pairwise different ids), then for
   EVERY payload p: whatever message the decoder specification returns for p (C01: the generated decoder computes
   exactly spec_decode), the encoder run on that message writes an integer that agrees with p on the bits of every
   field that is not a FLOAT (binary32) field, and the encoder does return one when d has no FLOAT field.
   The instance for the regenerated tables (262 of 263 encodable definitions) is tools/templates/OblC02rt.v. *)
Theorem C02_roundtrip_def : forall code_enc LE L LB g d,
  edef_ok code_enc g d = true -> encodable d = true -> layout_ok d = true -> rt_def_ok d = true ->
  exists ce, find_fname (fname_of g d) code_enc = Some ce /\
    forall p m, spec_decode L LB p d = Ok m ->
      (forall x, run_esteps LE 0 (e_steps ce) (m_fields m) = Ok x ->
         forall f off len, In f (d_fields d) -> f_bitoff f = Some off -> f_bitlen f = Some len ->
           exact_field f = true -> decode_int x off len = field_bits p off len) /\
      (no_float d = true -> exists x, run_esteps LE 0 (e_steps ce) (m_fields m) = Ok x).
Proof. exact roundtrip_def. Qed.
Print Assumptions C02_roundtrip_def.

(* non-vacuity: a 16-bit signed number field at offset 8 next to an 8-bit field *)
Example C02_example :
  encode_num (PI (-3)) 16 true (PI 1) = Ok 65533 /\ sign_extend true 16 65533 = -3 /\
  decode_int (fold_left put_fld [(7, 0, 8); (65533, 8, 16)] 0) 8 16 = 65533 /\
  na_pattern 16 true = 32767.
Proof. vm_compute. auto. Qed.
(* the hypotheses of C02_float are satisfiable: 16-bit field at resolution 0.0001, raw 49 *)
Example C02_float_example :
  num_field_ok 16 false (PF (float_of_bits 4547007122018943789)) /\
  exists v, number_of_raw 49 16 false (PF (float_of_bits 4547007122018943789)) (PI 0) (PI 7) = Ok v /\
            encode_number v 16 false (PF (float_of_bits 4547007122018943789)) = Ok 49.
Proof. split; [split; vm_compute; [reflexivity | discriminate] | eexists; split; [vm_compute; reflexivity | vm_compute; reflexivity]]. Qed.
