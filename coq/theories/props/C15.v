(* C15 — JSON round-trips to an equivalent, re-encodable message; the dump is faithful.
   Statements only; proofs live in MessageProofs.v.  to_tree / of_tree are to_json / from_json ABOVE the
   text layer of orjson (that the text is valid JSON denoting the tree and that doubles and 64-bit integers
   survive the text round trip is assumed, exercised by the correspondence with the standard json module). *)
From NV Require Import Base Message MessageProofs.
From Coq Require Import PrimFloat.

(* the full statement on fields: same PGN, id, addressing; per field the same id and the same value / raw
   value up to the stated renderings (binary as hex, dates and times as ISO text) *)
Definition C15_full : Prop := fields_statement (fun _ => true).
(* ... is false for the code as it is: a NaN FLOAT becomes JSON null and parses back as None (F-nan-json) *)
Theorem C15_full_is_false : ~ C15_full.
Proof. exact fields_unguarded_false. Qed.
Print Assumptions C15_full_is_false.

(* partial: the same statement for every message without a non-finite double (json_ok) *)
Theorem C15_fields_partial : fields_statement json_ok.
Proof. exact fields_guarded. Qed.
Print Assumptions C15_fields_partial.

(* without the guard: what every attribute looks like after the round trip (render: non-finite -> None) *)
Theorem C15_fields : forall m t, msg_wf m = true -> to_tree m = Ok t ->
  exists m', of_tree t = Ok m' /\
    m_pgn m' = m_pgn m /\ m_id m' = m_id m /\ m_descr m' = m_descr m /\
    m_src m' = m_src m /\ m_dst m' = m_dst m /\ m_prio m' = m_prio m /\ m_ts m' = m_ts m /\
    m_hash m' = m_hash m /\ m_iso m' = iso_parsed (m_iso m) /\
    Forall2 field_rt (m_fields m) (m_fields m').
Proof. exact to_of_tree. Qed.
Print Assumptions C15_fields.

(* re-encoding: ANY encoder that reads, per field, only components that JSON carries exactly (reads_exact:
   None, int, text, finite double) produces the same bytes — or the same failure — from the parsed message *)
Theorem C15_reencode : forall (enc : msg -> result bytes) (reads : field -> bool * bool),
  (forall m m', agree reads m m' -> enc m' = enc m) ->
  forall m t, msg_wf m = true -> to_tree m = Ok t -> forallb (reads_exact reads) (m_fields m) = true ->
  exists m', of_tree t = Ok m' /\ enc m' = enc m.
Proof. exact reencode. Qed.
Print Assumptions C15_reencode.

(* dump: the lines written are exactly the JSON of the returned messages that match the filter, in order,
   and every returned message that matches has its line *)
Theorem C15_dump : forall md5 py_str_float py_round_ndigits math_degrees c evs,
  let '(ms, ls) := run md5 py_str_float py_round_ndigits math_degrees c evs in
  ls = dump_of c ms /\ Forall (dumpable c) ms.
Proof. exact run_dump. Qed.
Print Assumptions C15_dump.

(* the filter: dumping on and (empty filter, or PGN listed, or lower-cased id listed) *)
Theorem C15_dump_filter : forall c m b, dump_match c m = Ok b ->
  b = c_dump_on c && ((zlen (c_dump_pgns c) + zlen (c_dump_ids c) =? 0) || existsb (Z.eqb (m_pgn m)) (c_dump_pgns c) ||
                      existsb (bytes_eqb (map ascii_lower_b (m_id m))) (c_dump_ids c)).
Proof. exact dump_match_spec. Qed.
Print Assumptions C15_dump_filter.

(* non-vacuity: a message with binary, date, time, 64-bit and absent values round-trips; its dump by id *)
Definition ex15_f (id : bytes) (v r : value) (ty : Z) : field := mkField id (Some 0x14e) None None v r PqNone (TyEnum ty) false.
Definition ex15 : msg :=
  mkMsg 129033 [100; 97; 116; 101; 84] 1 (TtlMs 1000)
    [ex15_f [97] (VDate 18262) (VInt 18262) 12; ex15_f [98] (VTime 86399) (VFloat 86399.5) 10;
     ex15_f [99] (VBytes [0; 255]) (VBytes [0; 255]) 18; ex15_f [100] (VInt 18446744073709551615) (VInt 18446744073709551615) 1;
     ex15_f [101] VNone VNone 1] 7 255 3 1 IsoNone None (RawBytes [1; 2]).
Example C15_example :
  msg_wf ex15 = true /\ json_ok ex15 = true /\ forallb (reads_exact lib_reads) (m_fields ex15) = true /\
  (match to_tree ex15 with
   | Ok t => match of_tree t with
             | Ok m' => map f_value (m_fields m') =
                        [VText [50;48;50;48;45;48;49;45;48;49]; VText [50;51;58;53;57;58;53;57]; VText [48;48;102;102];
                         VInt 18446744073709551615; VNone]
             | _ => False end
   | _ => False end) /\
  dump_match (mkCfg false [] true [] [[100; 97; 116; 101; 116]]) ex15 = Ok true /\
  dump_match (mkCfg false [] true [127250] []) ex15 = Ok false.
Proof. vm_compute. repeat split. Qed.
