(* C20 — the serial (USB) stream resynchronises after noise with bounded buffering.
   Statements only; proofs live in SerialProofs.v.  Model: Serial.v, the buffer loop of
   WaveShareNmea2000Gateway._receive_impl WITH the repair fixes/F-serialbuf.patch (`serial_step`, `feed`),
   decode_usb's acceptance test (`usb_valid`), and the loop of the pinned tree (`serial_step0`, `feed0`).
   `feed st chunks` = (all packets handed to decode_usb in order, buffer kept after the last read);
   `drain_all s` = the same for the whole stream `s` arriving in one read. *)
From NV Require Import Base Serial SerialProofs.
Local Open Scope nat_scope.

(* any read segmentation of a stream cuts out the same packets and leaves the same buffer as one read of the
   whole stream (from any buffer the loop itself can have left behind; [] in particular) *)
Theorem C20_chunking : forall chunks st,
  drain_all st = ([], st) -> feed st chunks = drain_all (st ++ concat chunks).
Proof. exact chunking_independent. Qed.
Print Assumptions C20_chunking.

Theorem C20_chunking_any_two : forall chunks chunks' st,
  drain_all st = ([], st) -> concat chunks = concat chunks' -> feed st chunks = feed st chunks'.
Proof. exact chunking_any_two. Qed.
Print Assumptions C20_chunking_any_two.

(* n0 P1 n1 ... Pk nk with every Pi a 20-byte AA 55 packet and every noise run free of the marker, under any
   segmentation: exactly P1 ... Pk are handed to decode_usb, in order; nothing is kept but a trailing 0xAA *)
Theorem C20_no_loss : forall n0 items chunks,
  marker_free n0 ->
  Forall (fun it => pkt_shape (fst it) = true /\ marker_free (snd it)) items ->
  concat chunks = stream_of n0 items ->
  feed [] chunks = (map fst items, trim (last (map snd items) n0)).
Proof. exact no_loss. Qed.
Print Assumptions C20_no_loss.

(* ... and if the packets are valid (decode_usb's test), every one of them reaches _decode, and nothing else does *)
Theorem C20_no_loss_valid : forall n0 items chunks,
  marker_free n0 ->
  Forall (fun it => usb_valid (fst it) = true /\ marker_free (snd it)) items ->
  concat chunks = stream_of n0 items ->
  deliveries (fst (feed [] chunks)) = map fst items.
Proof. exact no_loss_valid. Qed.
Print Assumptions C20_no_loss_valid.

(* after ANY bytes (noise of any content, earlier traffic, damaged packets), of two consecutive packets P1 P2,
   P1's bytes after its header being marker-free, P2 is cut out intact and the loop continues exactly behind it
   (as a fresh loop on the rest of the stream): at most P1 is lost.  Under any segmentation. *)
Theorem C20_resync : forall noise P1 P2 rest chunks,
  pkt_shape P1 = true -> pkt_shape P2 = true -> marker_free (skipn 2 P1) ->
  concat chunks = noise ++ P1 ++ P2 ++ rest ->
  exists pre, feed [] chunks = (pre ++ P2 :: fst (drain_all rest), snd (drain_all rest)).
Proof. exact resync. Qed.
Print Assumptions C20_resync.

(* delivery resumes: behind P2 every later packet separated from its predecessor by marker-free noise only is cut
   out too, in order, and nothing else is *)
Theorem C20_resync_resume : forall noise P1 P2 n0 items chunks,
  pkt_shape P1 = true -> pkt_shape P2 = true -> marker_free (skipn 2 P1) ->
  marker_free n0 -> Forall (fun it => pkt_shape (fst it) = true /\ marker_free (snd it)) items ->
  concat chunks = noise ++ P1 ++ P2 ++ stream_of n0 items ->
  exists pre, feed [] chunks = (pre ++ P2 :: map fst items, trim (last (map snd items) n0)).
Proof. exact resync_resume. Qed.
Print Assumptions C20_resync_resume.

(* whole streams: packets (any 20 bytes starting AA 55) with gaps of ARBITRARY bytes between them (noise of any
   content, damaged and truncated packets), any number of either, under any segmentation.  `must_cut` (Serial.v)
   reads the demand off the construction: in step, every packet; after a gap containing the marker, the first
   packet may be lost (if its body is marker-free), the packet directly behind it must be cut out and the reader is
   in step again.  The demanded packets are cut out, in order; the valid ones among them reach _decode. *)
Theorem C20_stream : forall segs chunks,
  Forall (fun s => match s with Gap _ => True | Pkt p => pkt_shape p = true end) segs ->
  concat chunks = flatten segs ->
  subseq (must_cut (Sync []) segs) (fst (feed [] chunks)) /\
  subseq (filter usb_valid (must_cut (Sync []) segs)) (deliveries (fst (feed [] chunks))).
Proof. exact stream_sound. Qed.
Print Assumptions C20_stream.

(* every packet the loop hands to decode_usb is a 20-byte AA 55 window (decode_usb never raises on it), and it
   reaches _decode exactly when its last byte is the sum of bytes 2..18 mod 256 *)
Theorem C20_checksum : forall st chunk p, In p (snd (serial_step st chunk)) ->
  pkt_shape p = true /\ decode_usb_gate p <> GRaise /\
  (In p (deliveries (snd (serial_step st chunk)))
   <-> nth 19 p 0%Z = (fold_right Z.add 0 (firstn 17 (skipn 2 p)) mod 256)%Z).
Proof. exact step_checksum. Qed.
Print Assumptions C20_checksum.

(* decode_usb's test on ANY byte string: what passes is 20 bytes, AA 55, with a matching checksum byte *)
Theorem C20_checksum_any : forall p, usb_valid p = true ->
  pkt_shape p = true /\ nth 19 p 0%Z = (fold_right Z.add 0 (firstn 17 (skipn 2 p)) mod 256)%Z.
Proof. exact usb_valid_sound. Qed.
Print Assumptions C20_checksum_any.

(* for read histories of ANY length with reads of at most 100 bytes: at most 19 bytes are kept between reads
   (and at most 119 are held while a read is processed) *)
Theorem C20_bounded : forall chunks st,
  Forall (fun c => length c <= 100) chunks -> length st <= 19 ->
  Forall (fun b => length b <= 19) (feed_bufs st chunks) /\ Forall (fun n => n <= 119) (feed_peaks st chunks).
Proof. exact bounded. Qed.
Print Assumptions C20_bounded.

(* the bound on what is kept holds after every single call, whatever was kept before and whatever was read *)
Theorem C20_bounded_step : forall st chunk, length (fst (serial_step st chunk)) <= 19.
Proof. exact step_bounded. Qed.
Print Assumptions C20_bounded_step.

(* the repair changes only what is kept: the packets handed to decode_usb are those of the pinned loop *)
Theorem C20_repair_same_packets : forall chunks, fst (feed0 [] chunks) = fst (feed [] chunks).
Proof. exact repair_same_packets. Qed.
Print Assumptions C20_repair_same_packets.

(* F-serialbuf: the loop of the pinned tree has no bound (N one-byte reads of 0x00 leave N bytes behind) *)
Theorem C20_pinned_unbounded : forall N, exists chunks,
  Forall (fun c => length c <= 100) chunks /\ length (snd (feed0 [] chunks)) = N.
Proof. exact pinned_unbounded. Qed.
Print Assumptions C20_pinned_unbounded.

(* non-vacuity: PGN 127250 (vessel heading) and PGN 59904 (ISO request) as encode_usb emits them; noise that is
   marker-free and ends in half a marker; noise that contains a marker; a read segmentation that cuts inside a
   marker and inside a packet *)
Definition pA : list Z := [170;85;1;2;1;1;18;241;9;8;1;16;39;255;127;255;127;253;0;74]%Z.
Definition pB : list Z := [170;85;1;2;1;1;255;234;24;3;0;238;0;0;0;0;0;0;0;247]%Z.
Example C20_example_no_loss :
  let n0 := [1;85;170;170]%Z in let n1 := [85;170]%Z in
  marker_free n0 /\ marker_free n1 /\ usb_valid pA = true /\ usb_valid pB = true /\
  feed [] [ [1;85;170]; [170;170]; [85;1;2;1;1;18;241;9;8;1;16;39]; [255;127;255;127;253;0;74;85;170;170;85];
            [1;2;1;1;255;234;24;3;0;238;0;0;0;0;0;0;0;247;85]; [170] ]%Z
  = ([pA; pB], [170%Z]) /\
  concat [ [1;85;170]; [170;170]; [85;1;2;1;1;18;241;9;8;1;16;39]; [255;127;255;127;253;0;74;85;170;170;85];
           [1;2;1;1;255;234;24;3;0;238;0;0;0;0;0;0;0;247;85]; [170] ]%Z
  = stream_of n0 [(pA, n1); (pB, n1)].
Proof. vm_compute. auto 10. Qed.
Example C20_example_resync :
  marker_free (skipn 2 pA) /\ pkt_shape pA = true /\ pkt_shape pB = true /\
  (* the noise 00 AA 55 07 opens a false window that swallows the first 17 bytes of pA: pA is lost, pB is not *)
  feed [] [ [0;170]; [85;7] ++ firstn 5 pA; skipn 5 pA ++ pB ++ [9] ]%Z
  = ([ [170;85;7] ++ firstn 17 pA; pB ]%Z, []) /\
  deliveries (fst (feed [] [ [0;170]; [85;7] ++ firstn 5 pA; skipn 5 pA ++ pB ++ [9] ]%Z)) = [pB] /\
  (* a corrupted copy of pA (checksum byte 75 instead of 74) is cut out but not delivered *)
  deliveries (fst (feed [] [ firstn 19 pA ++ [75%Z] ++ pB ])) = [pB].
Proof. vm_compute. auto 10. Qed.
Example C20_example_stream :
  (* gap with a marker, pA (may be lost), pB (must be cut), marker-free gap ending in 0xAA, pA (must be cut),
     gap with a marker, pB alone (may be lost), marker-free gap, pA (no demand: the reader may still be out of step) *)
  must_cut (Sync []) [Gap [0;170;85;7]; Pkt pA; Pkt pB; Gap [1;170]; Pkt pA; Gap [170;85]; Pkt pB; Gap [3]; Pkt pA]%Z
  = [pB; pA].
Proof. vm_compute. reflexivity. Qed.
