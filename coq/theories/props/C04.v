(* C04 — fast-packet reassembly is exact under interleaving, reordering, duplication, loss and padding.
   Statements only; models in FastPacket.v (wire byte order, code WITH fixes/F-pad.patch), proofs in FastPacketProofs.v.

   Vocabulary (FastPacketProofs.v Part 1): a stream (one (pgn,src,dst) key) is a list of episodes; an episode is a
   message m (counter, announced length, all frames incl. filler bytes) and the list of events that follow its first
   frame before the next first frame: `Own k d` = non-first frame k of m (any order, multiplicity, omission),
   `Stale b0 d` = non-first frame of another counter.  ep_ok = msg_ok m /\ every event is ev_ok.  chain_from s eps =
   consecutive counters differ (s = counter before the first episode).  A global history h is ANY list of
   (key, frame): it is an interleaving of its projections `proj k h`, with any number of streams.
   received [0] es = the set of frame counters received in the episode; covers S m = S contains every frame of m.
   `dok k p` = the PGN decode function returns normally on p; call = Deliver p if so, else DecRaise p. *)
From NV Require Import Base FastPacket FastPacketProofs.

(* frame lemma: a step on key k leaves every other key's record untouched ... *)
Theorem C04_frame : forall isfast dok g k can k', k' <> k ->
  lookup k' (fst (dec_step isfast dok g k can)) = lookup k' g.
Proof. exact dec_step_other. Qed.
Print Assumptions C04_frame.

(* ... so the global run is the product of the per-stream runs: unbounded history, unbounded number of streams *)
Theorem C04_product : forall isfast dok k, isfast (fst (fst k)) = Some true -> forall h g,
  lookup k (fst (dec_run isfast dok g h)) = fst (run (dok k) (lookup k g) (proj k h)) /\
  proj k (snd (dec_run isfast dok g h)) = snd (run (dok k) (lookup k g) (proj k h)).
Proof. exact dec_run_proj. Qed.
Print Assumptions C04_product.

(* refinement: in ANY global history the outputs of stream k are the set-based reference of k's own episodes *)
Theorem C04_refines : forall isfast dok h g k eps s,
  isfast (fst (fst k)) = Some true ->
  proj k h = stream_frames eps -> Forall ep_ok eps -> chain_from s eps -> settled s (lookup k g) ->
  proj k (snd (dec_run isfast dok g h)) = concat (stream_spec (dok k) eps).
Proof. exact stream_in_history. Qed.
Print Assumptions C04_refines.

(* the same with interleaving as an inductive relation: any number of streams with distinct keys, merged in any order *)
Theorem C04_interleave : forall isfast dok (ss : list (key * list (list Z))) h g k eps s,
  Interleave ss h -> NoDup (map fst ss) -> In (k, stream_frames eps) ss ->
  isfast (fst (fst k)) = Some true -> Forall ep_ok eps -> chain_from s eps -> settled s (lookup k g) ->
  proj k (snd (dec_run isfast dok g h)) = concat (stream_spec (dok k) eps).
Proof. exact interleaved_streams. Qed.
Print Assumptions C04_interleave.

(* safety: whatever is handed to the PGN decoder during episode j of stream k is exactly payload(M_j) — no byte of
   another stream, another message, or the filler *)
Theorem C04_safety : forall isfast dok h g k eps s,
  isfast (fst (fst k)) = Some true ->
  proj k h = stream_frames eps -> Forall ep_ok eps -> chain_from s eps -> settled s (lookup k g) ->
  exists oss, proj k (snd (dec_run isfast dok g h)) = concat oss /\ Forall2 (ep_safe (dok k)) eps oss.
Proof. exact global_safety. Qed.
Print Assumptions C04_safety.

(* at most one delivery per episode *)
Theorem C04_once : forall isfast dok h g k eps s,
  isfast (fst (fst k)) = Some true ->
  proj k h = stream_frames eps -> Forall ep_ok eps -> chain_from s eps -> settled s (lookup k g) ->
  exists oss, proj k (snd (dec_run isfast dok g h)) = concat oss /\ Forall2 ep_once eps oss.
Proof. exact global_once. Qed.
Print Assumptions C04_once.

(* completeness and WHEN: the i-th event of an episode is answered with the payload iff the set of received frame
   counters is complete after it and was not before it; if all frames arrive there is exactly one delivery *)
Theorem C04_complete : forall isfast dok h g k eps s,
  isfast (fst (fst k)) = Some true ->
  proj k h = stream_frames eps -> Forall ep_ok eps -> chain_from s eps -> settled s (lookup k g) ->
  exists oss, proj k (snd (dec_run isfast dok g h)) = concat oss /\ Forall2 (ep_complete (dok k)) eps oss.
Proof. exact global_complete. Qed.
Print Assumptions C04_complete.

Theorem C04_complete_meaning : forall m es,
  covers (received [0] es) m = true <->
  forall k d, In (k, d) (m_all m) -> k = 0 \/ exists d', In (Own k d') es.
Proof. exact covers_received_meaning. Qed.
Print Assumptions C04_complete_meaning.

(* recovery: whatever earlier episodes left behind, the next episode is answered as by a brand-new decoder *)
Theorem C04_recover : forall dok eps m es s st,
  Forall ep_ok eps -> ep_ok (m, es) -> chain_from s (eps ++ [(m, es)]) -> settled s st ->
  exists st' before last,
    run dok st (stream_frames eps ++ ep_frames m es) = (st', before ++ last) /\
    length before = length (stream_frames eps) /\
    last = snd (run dok None (ep_frames m es)) /\
    (forall o, In o last -> o = Nothing \/ o = call dok (m_payload m)) /\
    (covers (received [0] es) m = true -> filter is_call last = [call dok (m_payload m)]).
Proof. exact recover. Qed.
Print Assumptions C04_recover.

(* the sender-side conditions hold for this library's segmenter, also with up to 6 filler bytes after the payload *)
Theorem C04_sender : forall seq p pad, 0 <= seq < 8 -> zlen p <= 223 -> zlen pad <= 6 ->
  msg_ok (mk_msg seq p pad) /\ m_payload (mk_msg seq p pad) = p.
Proof. exact padded_msg_ok. Qed.
Print Assumptions C04_sender.

(* padding independence (repaired code): same payload, different filler (and different stale-frame content), same
   schedule of frame counters => same outputs; every call carries exactly the payload *)
Theorem C04_padding : forall dok seq p pad1 pad2 es1 es2 st1 st2,
  0 <= seq < 8 -> zlen p <= 223 -> zlen pad1 <= 6 -> zlen pad2 <= 6 ->
  Forall (ev_ok (mk_msg seq p pad1)) es1 -> Forall (ev_ok (mk_msg seq p pad2)) es2 ->
  map ev_key es1 = map ev_key es2 -> fresh seq st1 -> fresh seq st2 ->
  snd (run dok st1 (ep_frames (mk_msg seq p pad1) es1)) = snd (run dok st2 (ep_frames (mk_msg seq p pad2) es2)) /\
  forall o, In o (snd (run dok st1 (ep_frames (mk_msg seq p pad1) es1))) -> o = Nothing \/ o = call dok p.
Proof. exact padding_independent. Qed.
Print Assumptions C04_padding.

(* frames with a non-zero frame counter before any first frame are ignored; malformed frames raise and change nothing *)
Theorem C04_prologue : forall dok fs st,
  (st = None \/ st = Some new_rec) ->
  Forall (fun f => match f with [] => False | b0 :: _ => Z.land b0 31 <> 0 end) fs ->
  exists st', run dok st fs = (st', repeat Nothing (length fs)) /\ (st' = None \/ st' = Some new_rec).
Proof. exact prologue_ignored. Qed.
Print Assumptions C04_prologue.
(* a stream that begins with stray non-first frames (its very first frame was lost), then episodes *)
Theorem C04_stream_prologue : forall dok pro eps st,
  (st = None \/ st = Some new_rec) ->
  Forall (fun f => match f with [] => False | b0 :: _ => Z.land b0 31 <> 0 end) pro ->
  Forall ep_ok eps -> chain_from (-1) eps ->
  snd (run dok st (pro ++ stream_frames eps)) = repeat Nothing (length pro) ++ concat (stream_spec dok eps).
Proof. exact stream_with_prologue. Qed.
Print Assumptions C04_stream_prologue.
Theorem C04_malformed : forall dok st can st', fp_step dok st can = (st', Raise) ->
  st' = Some (match st with Some r => r | None => new_rec end).
Proof. exact raise_harmless. Qed.
Print Assumptions C04_malformed.

(* the dictionary key f"{pgn}_{src}_{dest}" (as ASCII codes of Python's str of each int, joined by '_') is
   injective on integers, so keying the model's records by the triple is faithful *)
Theorem C04_key : forall k k', key_string k = key_string k' -> k = k'.
Proof. exact key_string_inj. Qed.
Print Assumptions C04_key.

(* the code before fixes/F-pad.patch is NOT padding independent *)
Theorem C04_unrepaired_refuted :
  run_unrepaired (fun _ => true) None [[64; 10; 1; 2; 3; 4; 5; 6]; [65; 7; 8; 9; 10; 255; 255; 255]]
  <> run_unrepaired (fun _ => true) None [[64; 10; 1; 2; 3; 4; 5; 6]; [65; 7; 8; 9; 10; 0; 0; 0]].
Proof. exact unrepaired_depends_on_padding. Qed.
Print Assumptions C04_unrepaired_refuted.

(* non-vacuity: a 15-byte message with 5 filler bytes on stream (126720,5,9): frame 2 first, a stale frame, a
   duplicate, frame 1 (delivery), another duplicate — interleaved with a second source sending the same PGN *)
Example C04_example :
  ep_ok (ex_msg, ex_events) /\ chain_from (-1) [(ex_msg, ex_events)] /\
  proj (126720, 5, 9) ex_history = stream_frames [(ex_msg, ex_events)] /\
  map snd (snd (dec_run ex_isfast (fun _ _ => true) [] ex_history)) =
  [Nothing; Deliver [1; 2; 3]; Nothing; Nothing; Nothing; Nothing; Deliver ex_payload; Nothing].
Proof. exact ex_hyps. Qed.

(* THE CONTROL LAYER PERFORMS THIS REASSEMBLY.  DecoderCtl.v (the model of _decode with filters, identity and the
   source map: C10, C11, C16) carries its own, independently written, step function for a reassembly record; it
   is the same function as fp_step above — for every record, every frame (no assumption on the bytes) and every
   decode outcome — and so are whole frame sequences on a key.  Hence the theorems of this file and of C03 hold
   for the reassembly inside DecoderCtl.ctl_step. *)
From NV Require CtlFastBridge.
Theorem C04_control_layer_step : forall dok st can,
  NV.CtlFastBridge.as_F dok (NV.DecoderCtl.fp_step st can)
  = fp_step dok (option_map NV.CtlFastBridge.cv st) can.
Proof. exact NV.CtlFastBridge.fp_step_same. Qed.
Print Assumptions C04_control_layer_step.

Theorem C04_control_layer_run : forall dok fs st,
  (option_map NV.CtlFastBridge.cv (fst (NV.CtlFastBridge.c_run dok st fs)), snd (NV.CtlFastBridge.c_run dok st fs))
  = run dok (option_map NV.CtlFastBridge.cv st) fs.
Proof. exact NV.CtlFastBridge.run_same. Qed.
Print Assumptions C04_control_layer_run.

Theorem C04_control_layer_inverse : forall dok seq p st,
  0 <= seq < 8 -> zlen p <= 223 -> fresh seq (option_map NV.CtlFastBridge.cv st) ->
  snd (NV.CtlFastBridge.c_run dok st (segment seq p)) = repeat Nothing (length (segment seq p) - 1) ++ [call dok p].
Proof. exact NV.CtlFastBridge.ctl_reassembles_segment. Qed.
Print Assumptions C04_control_layer_inverse.
