(* C12 — gateway clients deliver every decodable frame once, in order, for any chunking.
   Statements only; proofs live in StreamProofs.v. The model is Stream.v (CPython StreamReader,
   EByte and text receive steps, queue + single consumer); `decode` (the client's decoder on one
   packet: a state-passing function returning a message, None, or raising) is universally quantified.
   Scope guards are in the statements: EByte — no 13-byte block of the stream equals the gateway's
   b'Sorry,Limited' banner (a control message: the client sleeps 30 s and reconnects); text clients
   (Actisense, Yacht Devices) — ASCII stream, every line (and the unterminated tail) at most `limit`
   bytes before its LF (limit = StreamReader's 64 KiB default). *)
From NV Require Import Base Stream StreamProofs.
From NV Require Serial SerialProofs.

Section C12.
Variables D M : Type.
Variable decode : D -> list Z -> D * dres M.

(* the packets cut out do not depend on the segmentation (schedule: the receive task runs after every chunk) *)
Theorem C12_chunking_ebyte : forall limit d0 chunks, 0 <= limit ->
  forallb (fun p => negb (is_banner p)) (frame_ebyte (concat chunks)) = true ->
  packets_seen D M (feed_all D M decode KEbyte (rx_init D M limit d0) chunks) = frame_ebyte (concat chunks).
Proof. exact (chunking_feed_all D M decode KEbyte). Qed.

Theorem C12_chunking_lines : forall limit d0 chunks, 0 <= limit ->
  ascii_ok (concat chunks) && lines_short limit (concat chunks) = true ->
  packets_seen D M (feed_all D M decode KText (rx_init D M limit d0) chunks) = frame_lines (concat chunks).
Proof. exact (chunking_feed_all D M decode KText). Qed.

(* ... nor on the schedule: for EVERY interleaving of arriving chunks, receive-task steps, callback
   starts/ends (any outcome), what the decoder has been shown plus what is still cut out of the
   buffer is the framing of everything fed *)
Theorem C12_chunking_any_schedule : forall k limit d0 ls g,
  rx_run D M decode k (rx_init D M limit d0) ls = Some g -> eof (rd g) = false ->
  stream_ok k limit (concat (chunks_of ls)) = true ->
  seen g ++ frame k (buf (rd g)) = frame k (concat (chunks_of ls)).
Proof. exact (chunking_run D M decode). Qed.

(* SERIAL: the Waveshare client's framing (the AA 55 marker loop of Serial.v): for any two segmentations of the
   same byte stream into reads (1 byte at a time ... everything at once; boundaries inside the marker) the loop
   hands exactly the same 20-byte packets, in the same order, to decode_usb and is left with the same buffer *)
Theorem C12_chunking_serial : forall chunks chunks',
  concat chunks = concat chunks' -> NV.Serial.feed [] chunks = NV.Serial.feed [] chunks'.
Proof. intros c c' E. apply NV.SerialProofs.chunking_any_two; [reflexivity | exact E]. Qed.

(* the key lemmas: a completed read does not depend on bytes that arrive later *)
Theorem C12_first_lf_stable : forall b c i, find_lf b = Some i -> find_lf (b ++ c) = Some i.
Proof. exact find_lf_app. Qed.
Theorem C12_readline_stable : forall r raw r' c, readline r = (RdData raw, r') -> eof r = false ->
  readline (feed r c) = (RdData raw, feed r' c).
Proof. exact readline_stable. Qed.
Theorem C12_readexactly_stable : forall n r p r' c, n <> O -> readexactly n r = (RdData p, r') ->
  readexactly n (feed r c) = (RdData p, feed r' c).
Proof. exact readexactly_stable. Qed.

(* the framing functions are what their names say *)
Theorem C12_frame_ebyte_spec : forall p s, length p = 13%nat -> frame_ebyte (p ++ s) = p :: frame_ebyte s.
Proof. exact frame_ebyte_app. Qed.
Theorem C12_frame_ebyte_short : forall s, (length s < 13)%nat -> frame_ebyte s = [].
Proof. exact frame_ebyte_short. Qed.
Theorem C12_split_lines_spec : forall l s, find_lf l = None ->
  split_lines ((l ++ [10]) ++ s) = (l ++ [10]) :: split_lines s.
Proof. exact split_lines_spec. Qed.
Theorem C12_split_lines_tail : forall l, find_lf l = None -> split_lines l = [].
Proof. exact split_lines_nolf. Qed.

(* delivery: in every run, the callback has been invoked on a prefix of the expected message list
   (the rest of that prefix is in the queue, in order) — nothing else, nothing twice, nothing out of
   order, whatever the callback outcomes were; when nothing is left to do, on exactly the list *)
Theorem C12_delivery : forall k limit d0 ls g,
  rx_run D M decode k (rx_init D M limit d0) ls = Some g -> eof (rd g) = false ->
  stream_ok k limit (concat (chunks_of ls)) = true ->
  let expected := snd (decode_all D M decode d0 (frame k (concat (chunks_of ls)))) in
  (exists later, expected = delivered g ++ q g ++ later) /\
  (quiescent D M decode k g -> delivered g = expected).
Proof. exact (delivery_run D M decode). Qed.

(* a decode error contributes nothing and changes nothing else *)
Theorem C12_decode_error_skipped : forall d p d' ps,
  decode d p = (d', DRaise) ->
  snd (decode_all D M decode d (p :: ps)) = snd (decode_all D M decode d' ps).
Proof. exact (decode_error_skipped D M decode). Qed.

(* nothing stops the delivery: while the receive loop runs and something is left to do, a step that
   makes progress is enabled, and every such step decreases a measure *)
Theorem C12_progress_enabled : forall k g, rxs g = RxRun -> ~ quiescent D M decode k g ->
  exists l g', progressing l = true /\ rx_lstep D M decode k g l = Some g'.
Proof. exact (progress_enabled D M decode). Qed.
Theorem C12_progress_measure : forall k g l g',
  rx_lstep D M decode k g l = Some g' -> progressing l = true -> (work D M g' < work D M g)%nat.
Proof. exact (progress_measure D M decode). Qed.

End C12.

Print Assumptions C12_chunking_ebyte.
Print Assumptions C12_chunking_lines.
Print Assumptions C12_chunking_serial.
Print Assumptions C12_chunking_any_schedule.
Print Assumptions C12_readline_stable.
Print Assumptions C12_readexactly_stable.
Print Assumptions C12_delivery.
Print Assumptions C12_decode_error_skipped.
Print Assumptions C12_progress_enabled.
Print Assumptions C12_progress_measure.

(* non-vacuity: a toy decoder (message = first byte when it is even, raise when it is 1, else None);
   two blocks and a half, cut inside the first block; the guards hold, the run exists, the consumer's
   first callback raises, the second suspends *)
Definition toy (d : nat) (p : list Z) : nat * dres Z :=
  (S d, match p with b :: _ => if Z.even b then DMsg b else if b =? 1 then DRaise else DNone | [] => DNone end).
Definition blockA : list Z := [2;0;0;0;0;0;0;0;0;0;0;0;0].
Definition blockB : list Z := [1;0;0;0;0;0;0;0;0;0;0;0;0].
Definition blockC : list Z := [4;0;0;0;0;0;0;0;0;0;0;0;0].
Example C12_example_ebyte :
  let chunks := [[2;0;0]; [0;0;0;0;0;0;0;0;0;0] ++ blockB ++ [4;0]; [0;0;0;0;0;0;0;0;0;0;0;7;7]] in
  stream_ok KEbyte 65536 (concat chunks) = true /\
  packets_seen nat Z (feed_all nat Z toy KEbyte (rx_init nat Z 65536 O) chunks) = [blockA; blockB; blockC] /\
  exists g, rx_run nat Z toy KEbyte (rx_init nat Z 65536 O)
              [LFeed [2;0;0]; LFeed ([0;0;0;0;0;0;0;0;0;0] ++ blockB ++ [4;0]); LRx; LCbStart CbRaise; LRx;
               LFeed [0;0;0;0;0;0;0;0;0;0;0;7;7]; LRx; LCbStart CbSuspend; LCbEnd CbReturn] = Some g /\
            delivered g = [2; 4] /\ q g = [] /\ buf (rd g) = [7; 7].
Proof. vm_compute. repeat split. eexists. repeat split. Qed.
Example C12_example_lines :
  let chunks := [[65;32;49;13]; [10;66]; [32;50;13;10;67]] in
  stream_ok KText 65536 (concat chunks) = true /\
  packets_seen nat Z (feed_all nat Z toy KText (rx_init nat Z 65536 O) chunks) = [[65;32;49]; [66;32;50]].
Proof. vm_compute. auto. Qed.
