(* C10 — PGN include/exclude filters are a pure selection of the unfiltered output.
   Statements only; proofs live in DecoderCtlProofs.v.  The model (DecoderCtl.v) is the REPAIRED decoder
   (fixes/F-include.patch).  `decode` / `is_fast` range over ALL databases that satisfy the two hypotheses
   (decode_pgn_N builds a message with PGN N; the id isoAddressClaim belongs to PGN 60928 and only to it), which
   tools/tr_init.py: db_hypotheses checks on pgns.py at every run. *)
From NV Require Import Base DecoderCtl DecoderCtlProofs.

(* for every configuration the constructor accepts and every history: position by position the filtered decoder
   returns exactly the unfiltered decoder's message when it is permitted (same content: the same msg value) and
   nothing otherwise (a raising call counts as nothing), and the source maps are equal after every call *)
Theorem C10 : forall decode is_fast, db_pgn_ok decode -> db_claim_id_ok decode ->
  forall ex inc exm incm nm cF cU,
  mk_cfg ex inc exm incm nm = Ok cF -> mk_cfg [] [] exm incm nm = Ok cU ->
  forall h,
  outs (run decode is_fast cF init h) = map (restrict (permitted ex inc)) (outs (run decode is_fast cU init h)) /\
  maps (run decode is_fast cF init h) = maps (run decode is_fast cU init h).
Proof. exact c10_main. Qed.
Print Assumptions C10.

(* non-vacuity: a database satisfying the hypotheses; include list ["RUDDER"] (an id, upper case) on a history of
   heading (dropped), claim (dropped but recorded), rudder (returned, carrying the claimed identity), a rudder
   payload that raises, and a fast-packet PGN (dropped before reassembly by nothing: include list has ids) *)
Definition ex_hist : list call :=
  [ Build_call 127250 5 255 [1;2] false; Build_call CLAIM 5 255 [7] false; Build_call 127245 5 255 [3] false;
    Build_call 127245 5 255 [] false; Build_call 129029 5 255 [0; 3; 9; 9; 9] false ].
Example C10_example :
  db_pgn_ok ex_decode /\ db_claim_id_ok ex_decode /\
  exists cF cU, mk_cfg [] [PStr s_RUDDER] [] [] false = Ok cF /\ mk_cfg [] [] [] [] false = Ok cU /\
    map (option_map m_pgn) (outs (run ex_decode ex_fast cF init ex_hist)) = [None; None; Some 127245; None; None] /\
    map (option_map m_pgn) (outs (run ex_decode ex_fast cU init ex_hist)) = [Some 127250; Some CLAIM; Some 127245; None; Some 129029] /\
    map (fun o => match o with Some m => match m_iso m with Some i => i_name i | None => -1 end | None => -2 end)
        (outs (run ex_decode ex_fast cF init ex_hist)) = [-2; -2; 7; -2; -2].
Proof.
  split; [exact ex_db_pgn|]. split; [exact ex_db_claim_id|].
  eexists. eexists. split; [vm_compute; reflexivity|]. split; [vm_compute; reflexivity|].
  split; [vm_compute; reflexivity|]. split; vm_compute; reflexivity.
Qed.

(* the two database hypotheses are DECIDABLE conditions on the translated tables: for the composed decode function of
   any tables passing these boolean checks (EndToEnd.tbl_decode: dispatcher, then the per-definition decoder) the
   hypotheses of C10 hold.  tools/templates/OblC10.v evaluates the checks on the tables regenerated from /repo and
   instantiates C10 (C10_for_this_code) and the C11 theorems with no hypothesis left. *)
From NV Require Import Defn Fields Dispatch EndToEnd DbHyps.
Theorem C10_hypotheses_decidable : forall code_dec code_disp L LB LI,
  dec_pgn_okb code_dec = true -> disp_okb code_disp = true ->
  db_pgn_ok (tbl_decode code_dec code_disp L LB LI) /\
  (claim_id_okb code_dec = true -> db_claim_id_ok (tbl_decode code_dec code_disp L LB LI)).
Proof.
  intros cd cp L LB LI A B. split; [exact (tbl_db_pgn_ok cd cp L LB LI A B) | intros C; exact (tbl_db_claim_id_ok cd cp L LB LI A B C)].
Qed.
Print Assumptions C10_hypotheses_decidable.
