(* C01 — decoded fields match the canboat definition for every PGN and payload.
   Generic statements (any database record, any lookup tables, any payload); the instance for the
   tables regenerated from /repo is tools/templates/OblC01.v, compiled on every run. *)
From NV Require Import Base Bits Defn PyNum Fields Dispatch Template Spec SpecProofs SpecVar SpecVarProofs RangeProofs.

(* Running the steps the generator is meant to emit for a database definition — statement by
   statement as the generated Python runs (running offset, registers, appends) — yields exactly the
   declarative specification: message metadata from the record; per field the database's id, name,
   description, unit, physical quantity, type and primary-key flag; the value computed from exactly
   (payload / 2^BitOffset) mod 2^BitLength under signedness (two's complement by cases), the
   not-available pattern (reported as no value), resolution (with Python's int/float typing) and the
   range check; lookup by the named table. For every payload p (any size) and every fixed-layout
   definition; an unsupported field type yields "not supported" on both sides. *)
Theorem C01_sem : forall L LB LI p d td,
  simple_def d = true -> ddef_of_db d = Some td ->
  run_ddef L LB LI p td = spec_decode L LB p d.
Proof. exact run_template_is_spec_decode. Qed.
Print Assumptions C01_sem.

(* the value of a field depends on no payload bit outside [BitOffset, BitOffset + BitLength) *)
Theorem C01_local : forall L LB p q f off len,
  f_bitoff f = Some off -> f_bitlen f = Some len -> 0 <= off -> 0 <= len ->
  (forall i, off <= i < off + len -> Z.testbit p i = Z.testbit q i) ->
  spec_field L LB p f = spec_field L LB q f.
Proof. exact spec_field_local. Qed.
Print Assumptions C01_local.

(* a definition whose translated code passes the table check decodes every payload as specified *)
Theorem C01_code : forall code_dec L LB LI g d,
  def_ok code_dec g d = true -> simple_def d = true ->
  exists cd, find_fname (fname_of g d) code_dec = Some cd /\
             forall p, run_ddef L LB LI p cd = spec_decode L LB p d.
Proof. exact def_ok_sound. Qed.
Print Assumptions C01_code.

(* sign extension and the not-available rule, arithmetically *)
Theorem C01_number : forall p off len signed r mn mx, 0 <= off -> 1 <= len ->
  decode_number p off len signed (pynum_of_num r) (pynum_of_num mn) (pynum_of_num mx)
  = spec_number (field_bits p off len) len signed r mn mx.
Proof. exact decode_number_spec. Qed.
Print Assumptions C01_number.

(* non-vacuity: a two-field definition (8-bit unsigned SID, 16-bit signed value at 0.5 per bit... as int 5) *)
Definition ex_num (id off len : Z) (sg : bool) : dbfield :=
  mkF 1 id id None None T_NUMBER (Some len) (Some off) sg (Some (NI 5)) None (Some (NI (-100000))) (Some (NI 100000))
      None None None None None None None None.
Definition ex_def : dbdef := mkDb 127250 7 7 1 false (Some 3) None [ex_num 11 0 8 false; ex_num 12 8 16 true].
Example C01_example :
  simple_def ex_def = true /\
  (exists td, ddef_of_db ex_def = Some td /\
     option_map (fun m => map fl_val (m_fields m))
       (match run_ddef [] [] [] (3 + 256 * 65534) td with Ok m => Some m | _ => None end)
     = Some [VInt 15; VInt (-10)]) /\
  option_map (fun m => map fl_val (m_fields m))
       (match spec_decode [] [] (255 + 256 * 32767) ex_def with Ok m => Some m | _ => None end)
     = Some [VNone; VNone].
Proof. split; [reflexivity|]. split; [eexists; split; [reflexivity|]; vm_compute; reflexivity | vm_compute; reflexivity]. Qed.

(* ---- variable layout (SpecVar.v): fields after a STRING_LAU, fields without BitOffset, STRING_LZ, BINARY
   with BitLengthField, INDIRECT_LOOKUP. spec_decode_var threads the bit position through the fields: a
   field without BitOffset starts where the previous one ended; STRING_LAU occupies 8 * (its first byte)
   bits, its text being the bytes after the two header bytes under the encoding the second byte names;
   BINARY with BitLengthField has the number of bits the named field's decoded value announces;
   INDIRECT_LOOKUP is looked up under (bits of the field named by its IndirectOrder, own bits). Running
   the template's steps as the generated code runs them (running_bit_offset, bits_to_skip, the
   'TEMP_VAL' placeholder patched later) yields exactly this, for EVERY payload and every definition of
   the class var_def (which contains simple_def). ---- *)
Theorem C01_var_sem : forall L LB LI p d td,
  var_def d = true -> indirect_tables_ok LI d = true -> ddef_of_db d = Some td ->
  run_ddef L LB LI p td = spec_decode_var L LB LI p d.
Proof. exact run_template_is_spec_decode_var. Qed.
Print Assumptions C01_var_sem.

Theorem C01_var_code : forall code_dec L LB LI g d,
  def_ok code_dec g d = true -> var_def d = true -> indirect_tables_ok LI d = true ->
  exists cd, find_fname (fname_of g d) code_dec = Some cd /\
             forall p, run_ddef L LB LI p cd = spec_decode_var L LB LI p d.
Proof. exact def_ok_sound_var. Qed.
Print Assumptions C01_var_code.

(* nothing is weakened: on fixed-layout definitions the new specification is the old one *)
Theorem C01_var_extends : forall L LB LI p d, simple_def d = true ->
  var_def d = true /\ spec_decode_var L LB LI p d = spec_decode L LB p d.
Proof. intros. split; [apply simple_is_var; assumption | apply spec_decode_var_simple; assumption]. Qed.
Print Assumptions C01_var_extends.

(* where the database gives a BitOffset and the offsets are consistent (each equals the sum of the sizes
   before it — true of every definition of canboat.json, evaluated per run), specifying a field at its
   BitOffset and specifying it at the running position are the same specification *)
Theorem C01_var_offsets : forall L LB LI p all fs pos acc,
  offsets_consistent pos fs = true ->
  spec_fields_gen L LB LI p all true pos true acc fs = spec_fields_gen L LB LI p all false pos true acc fs.
Proof. exact spec_offsets_agree. Qed.
Print Assumptions C01_var_offsets.

(* a STRING_LAU whose declared length stays within the payload is exactly: n = first byte, encoding =
   second byte, text = the n-2 bytes that follow, size 8*n bits *)
Theorem C01_var_lau : forall p pos, 0 <= pos -> p / 2 ^ pos <> 0 ->
  let n := field_bits p pos 8 in
  (Z.to_nat (n - 2) <= present p pos)%nat ->
  spec_string_lau p pos =
    do t <- lau_text (field_bits p (pos + 8) 8) (payload_bytes p (pos + 16) (Z.to_nat (n - 2)));
    Ok (VText t, 8 * n).
Proof. exact lau_declared. Qed.
Print Assumptions C01_var_lau.

(* non-vacuity: PGN 126998 (three STRING_LAU fields, only the first has a BitOffset) on the payload of
   tests/test_decoder.py::test_STRING_LAU_parse: 07 01 "hello" | 0c 00 "wórld" in UTF-16 | nothing.
   The specification yields 'hello', 'wórld' (UTF-8 bytes of the str) and None; so does the template. *)
Definition ex_lau (ord id : Z) (off : option Z) : dbfield :=
  mkF ord id id None None T_STRING_LAU None off false None None None None None None None None None None None None.
Definition ex_var_def : dbdef :=
  mkDb 126998 7 7 1 false None None [ex_lau 1 11 (Some 0); ex_lau 2 12 None; ex_lau 3 13 None].
Definition ex_var_payload : Z := 0x64006c007200f30077000c6f6c6c65680107.
Example C01_var_example :
  var_def ex_var_def = true /\ simple_def ex_var_def = false /\
  option_map (fun m => map fl_val (m_fields m))
    (match spec_decode_var [] [] [] ex_var_payload ex_var_def with Ok m => Some m | _ => None end)
  = Some [VText [104; 101; 108; 108; 111]; VText [119; 195; 179; 114; 108; 100]; VNone] /\
  (exists td, ddef_of_db ex_var_def = Some td /\
     run_ddef [] [] [] ex_var_payload td = spec_decode_var [] [] [] ex_var_payload ex_var_def).
Proof.
  split; [reflexivity|]. split; [reflexivity|]. split; [vm_compute; reflexivity|].
  eexists; split; [reflexivity|]; vm_compute; reflexivity.
Qed.

(* ---- totality and correct rounding on in-range raw values (IEEE-754; proofs in RangeProofs.v) ----
   "payloads whose fields are inside the database range decode to a message instead of failing", and
   "the value obtained from exactly those bits under its resolution": a raw value n that is not the
   not-available pattern and whose exact product with the resolution lies inside [mn, mx] is never
   rejected by decode_number's range test; the result is the int n*k for an integer resolution k, and
   for a float resolution r the finite double fl(n*r) — the correctly rounded product (round to nearest
   even, binary64), hence within 2^-53 relative of n*r.
   Side conditions (booleans, RangeProofs.v): raw_okb — nothing for an int resolution; |n| < 2^53 and an
   ordinary float resolution (finite, 2^-300 <= |r| <= 2^300) otherwise. bound_okb — a finite double
   bound below 2^1000; any int bound with an int resolution; an int bound below 2^53 with a float one.
   pyR x is the real number the Python int/float x denotes. *)
From Coq Require Import Reals Floats.
From Flocq Require Import Core BinarySingleNaN IEEE754.PrimFloat.
From NV Require Import PyNum.   (* again, so that PI is the Python int constructor, not the real number pi *)

Theorem C01_in_range_total : forall (n len : Z) (signed : bool) (res mn mx : pynum),
  not_available signed len n = false ->
  raw_okb n res = true -> bound_okb res mn = true -> bound_okb res mx = true ->
  (pyR mn <= IZR n * pyR res <= pyR mx)%R ->
  exists v, number_of_raw n len signed res mn mx = Ok v /\
    match res with
    | PI k => v = VInt (n * k)%Z
    | PF r => exists f, v = VFloat f /\ is_finite (Prim2B f) = true /\
        B2R (Prim2B f) = round radix2 (FLT_exp (-1074) 53) ZnearestE (IZR n * B2R (Prim2B r)) /\
        (Rabs (B2R (Prim2B f) - IZR n * B2R (Prim2B r))
           <= bpow radix2 (-53) * Rabs (IZR n * B2R (Prim2B r)))%R
    end.
Proof. exact number_in_range_decodes. Qed.
Print Assumptions C01_in_range_total.

(* the same with the range hypothesis decided by exact integer arithmetic on mantissas and exponents
   (in_range_exact), so that every hypothesis is a boolean the kernel evaluates *)
Theorem C01_in_range_total_b : forall (n len : Z) (signed : bool) (res mn mx : pynum),
  not_available signed len n = false ->
  raw_okb n res = true -> bound_okb res mn = true -> bound_okb res mx = true ->
  in_range_exact n res mn mx = true ->
  exists v, number_of_raw n len signed res mn mx = Ok v /\ decoded_as n res v.
Proof. exact number_in_range_decodes_b. Qed.
Print Assumptions C01_in_range_total_b.

(* the general form, tolerance included: with v = fl(n*r) the computed value (scaledR) and
   tol = fl(1e-12 * |v|) the tolerance the library grants (tolR; 0 for an int resolution), a value with
   mn - tol <= v <= mx + tol is decoded. This covers a top-of-range raw value whose product exceeds
   the bound by an ulp (raw 65532 at 0.1 against 6553.2, below) *)
Theorem C01_within_tolerance_total : forall (n len : Z) (signed : bool) (res mn mx : pynum),
  not_available signed len n = false ->
  raw_okb n res = true -> bound_okb res mn = true -> bound_okb res mx = true ->
  (pyR mn - tolR n res <= scaledR n res <= pyR mx + tolR n res)%R ->
  exists v, number_of_raw n len signed res mn mx = Ok v /\ decoded_as n res v.
Proof. exact number_within_tolerance_decodes. Qed.
Print Assumptions C01_within_tolerance_total.

Theorem C01_within_tolerance_total_b : forall (n len : Z) (signed : bool) (res mn mx : pynum),
  not_available signed len n = false ->
  raw_okb n res = true -> bound_okb res mn = true -> bound_okb res mx = true ->
  in_range_tol n res mn mx = true ->
  exists v, number_of_raw n len signed res mn mx = Ok v /\ decoded_as n res v.
Proof. exact number_within_tolerance_decodes_b. Qed.
Print Assumptions C01_within_tolerance_total_b.

(* non-vacuity: a 16-bit unsigned field at resolution 0.1 (the double 0x1.999999999999ap-4), range
   0 .. 6553.2. Raw 65531 is inside the range exactly and decodes to fl(65531 * 0.1) = 6553.1; raw 65532
   has 65532 * 0.1 > 6553.2 (by 4915 * 2^-53), is outside the exact range but inside the tolerance, and
   decodes to 6553.200000000001; integer resolution 5 with int bounds *)
Example C01_in_range_example :
  let r := PF 0x1.999999999999ap-4 in let mx := PF 0x1.9993333333333p+12 in
  (not_available false 16 65531 = false /\ raw_okb 65531 r = true /\ bound_okb r (PI 0) = true /\
   bound_okb r mx = true /\ in_range_exact 65531 r (PI 0) mx = true /\
   number_of_raw 65531 16 false r (PI 0) mx = Ok (VFloat 0x1.999199999999ap+12)) /\
  (not_available false 16 65532 = false /\ in_range_exact 65532 r (PI 0) mx = false /\
   in_range_tol 65532 r (PI 0) mx = true /\
   number_of_raw 65532 16 false r (PI 0) mx = Ok (VFloat 0x1.9993333333334p+12)) /\
  (raw_okb (-10) (PI 5) = true /\ bound_okb (PI 5) (PI (-100000)) = true /\
   in_range_exact (-10) (PI 5) (PI (-100000)) (PI 100000) = true /\
   number_of_raw (-10) 16 true (PI 5) (PI (-100000)) (PI 100000) = Ok (VInt (-50))).
Proof. vm_compute. repeat split. Qed.
