(* C01 — decoded fields match the canboat definition for every PGN and payload.
   Generic statements (any database record, any lookup tables, any payload); the instance for the
   tables regenerated from /repo is tools/templates/OblC01.v, compiled on every run. *)
From NV Require Import Base Bits Defn PyNum Fields Dispatch Template Spec SpecProofs.

(* Running the steps the generator is meant to emit for a database definition — statement by
   statement as the generated Python runs (running offset, registers, appends) — yields exactly the
   declarative specification: message metadata from the record; per field the database's id, name,
   description, unit, physical quantity, type and primary-key flag; the value computed from exactly
   (payload / 2^BitOffset) mod 2^BitLength under signedness (two's complement by cases), the
   not-available pattern (reported as no value), resolution (with Python's int/float typing) and the
   range check; lookup by the named table. For every payload p (any size) and every fixed-layout
   definition; an unsupported field type yields "not supported" on both sides. *)
Theorem C01_sem : forall L LB LI p d td,
  simple_def d = true -> ddef_of_db d = Some td ->
  run_ddef L LB LI p td = spec_decode L LB p d.
Proof. exact run_template_is_spec_decode. Qed.
Print Assumptions C01_sem.

(* the value of a field depends on no payload bit outside [BitOffset, BitOffset + BitLength) *)
Theorem C01_local : forall L LB p q f off len,
  f_bitoff f = Some off -> f_bitlen f = Some len -> 0 <= off -> 0 <= len ->
  (forall i, off <= i < off + len -> Z.testbit p i = Z.testbit q i) ->
  spec_field L LB p f = spec_field L LB q f.
Proof. exact spec_field_local. Qed.
Print Assumptions C01_local.

(* a definition whose translated code passes the table check decodes every payload as specified *)
Theorem C01_code : forall code_dec L LB LI g d,
  def_ok code_dec g d = true -> simple_def d = true ->
  exists cd, find_fname (fname_of g d) code_dec = Some cd /\
             forall p, run_ddef L LB LI p cd = spec_decode L LB p d.
Proof. exact def_ok_sound. Qed.
Print Assumptions C01_code.

(* sign extension and the not-available rule, arithmetically *)
Theorem C01_number : forall p off len signed r mn mx, 0 <= off -> 1 <= len ->
  decode_number p off len signed (pynum_of_num r) (pynum_of_num mn) (pynum_of_num mx)
  = spec_number (field_bits p off len) len signed r mn mx.
Proof. exact decode_number_spec. Qed.
Print Assumptions C01_number.

(* non-vacuity: a two-field definition (8-bit unsigned SID, 16-bit signed value at 0.5 per bit... as int 5) *)
Definition ex_num (id off len : Z) (sg : bool) : dbfield :=
  mkF 1 id id None None T_NUMBER (Some len) (Some off) sg (Some (NI 5)) None (Some (NI (-100000))) (Some (NI 100000))
      None None None None None None None None.
Definition ex_def : dbdef := mkDb 127250 7 7 1 false (Some 3) None [ex_num 11 0 8 false; ex_num 12 8 16 true].
Example C01_example :
  simple_def ex_def = true /\
  (exists td, ddef_of_db ex_def = Some td /\
     option_map (fun m => map fl_val (m_fields m))
       (match run_ddef [] [] [] (3 + 256 * 65534) td with Ok m => Some m | _ => None end)
     = Some [VInt 15; VInt (-10)]) /\
  option_map (fun m => map fl_val (m_fields m))
       (match spec_decode [] [] (255 + 256 * 32767) ex_def with Ok m => Some m | _ => None end)
     = Some [VNone; VNone].
Proof. split; [reflexivity|]. split; [eexists; split; [reflexivity|]; vm_compute; reflexivity | vm_compute; reflexivity]. Qed.
