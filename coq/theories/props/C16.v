(* C16 — decoder instances are isolated and unharmed by bad input.
   Statements only; proofs live in DecoderCtlProofs.v.  Instances are values of the model, so what a functional
   model can say is: results are a function of configuration and inputs (C16_deterministic), a system of
   decoders is the product of its members (C16_product), and which parts of the state a later call can see
   (C16_single, C16_fast_fresh) and a bad call can touch (C16_error_neutral, C16_ignored).  Aliasing between
   Python objects is covered by tools/tr_init.py (ast, fail closed) and the corr_multi correspondence.
   All statements hold from ANY state (reachable by any history of valid and malformed frames or not). *)
From NV Require Import Base DecoderCtl DecoderCtlProofs.

(* a call that raises leaves the source map alone, every other key's reassembly record alone, and at its own key
   leaves the record as it was, or creates an empty one, or keeps a completed one (decode raised on delivery) *)
Theorem C16_error_neutral : forall decode is_fast c st cl e,
  snd (ctl_step decode is_fast c st cl) = Err e ->
  let st' := fst (ctl_step decode is_fast c st cl) in
  srcmap st' = srcmap st /\
  (forall k, k <> key_of cl -> klookup k (reasm st') = klookup k (reasm st)) /\
  (klookup (key_of cl) (reasm st') = klookup (key_of cl) (reasm st) \/
   (klookup (key_of cl) (reasm st) = None /\ klookup (key_of cl) (reasm st') = Some new_rec) \/
   (exists r, klookup (key_of cl) (reasm st') = Some r /\ plen r <= stored r)).
Proof. exact c16_error_neutral. Qed.
Print Assumptions C16_error_neutral.

(* ignored calls (numerically filtered, withheld, manufacturer-filtered, unknown PGN, is_fast raises) change nothing *)
Theorem C16_ignored : forall decode is_fast c st cl,
  prefilter c st cl = PreDrop \/ is_fast (c_pgn cl) = Ok None \/ (exists e, is_fast (c_pgn cl) = Err e) ->
  fst (ctl_step decode is_fast c st cl) = st.
Proof. exact c16_ignored. Qed.
Print Assumptions C16_ignored.

(* no call touches the reassembly record of another (pgn, source, destination) *)
Theorem C16_frame : forall decode is_fast c st cl k',
  k' <> key_of cl -> klookup k' (reasm (fst (ctl_step decode is_fast c st cl))) = klookup k' (reasm st).
Proof. exact step_frame. Qed.
Print Assumptions C16_frame.

(* a single-frame call's result depends only on the configuration, the source-map entry of its source and the
   clock input it carries — not on anything else of the history *)
Theorem C16_single : forall decode is_fast c st1 st2 cl,
  is_fast (c_pgn cl) = Ok (Some false) ->
  zlookup (c_src cl) (srcmap st1) = zlookup (c_src cl) (srcmap st2) ->
  snd (ctl_step decode is_fast c st1 cl) = snd (ctl_step decode is_fast c st2 cl).
Proof. exact c16_single. Qed.
Print Assumptions C16_single.

(* a fast-packet message whose first frame carries a sequence counter different from the one stored for its key:
   the results of all its frames (any order / duplicates / losses after the first frame) are the same after any
   two histories that agree on the source-map entry of the source; the clock input is constant over the message *)
Theorem C16_fast_fresh : forall decode is_fast, db_pgn_ok decode ->
  forall c st1 st2 cl rest,
  c_pgn cl <> CLAIM -> is_fast (c_pgn cl) = Ok (Some true) ->
  Forall (fun cl' => key_of cl' = key_of cl /\ c_win cl' = c_win cl) rest ->
  zlookup (c_src cl) (srcmap st1) = zlookup (c_src cl) (srcmap st2) ->
  fresh_first st1 cl -> fresh_first st2 cl ->
  map snd (run decode is_fast c st1 (cl :: rest)) = map snd (run decode is_fast c st2 (cl :: rest)).
Proof. exact c16_fast_fresh. Qed.
Print Assumptions C16_fast_fresh.

(* ... and that common result is the decode of the message's payload: a complete in-order fast-packet message (first
   frame: counter sq, frame 0, announced length `total`, data d0; then frames 1..n carrying `rest`, the last one
   possibly padded) with a fresh sequence counter returns nothing until its last frame and then exactly what
   _call_decode_function returns on the first `total` bytes of the concatenated data — after ANY history *)
Theorem C16_fast_inorder : forall decode is_fast c st p s d w i sq total d0 rest,
  p <> CLAIM -> is_fast p = Ok (Some true) -> 0 <= sq < 8 ->
  sq <> rseq (rec_at st (p, s, d)) ->
  prefilter c st (mk_call p s d w []) = PreGo i ->
  zlen rest < 31 ->
  (rest <> [] -> total_len (d0 :: removelast rest) < total) ->
  total <= total_len (d0 :: rest) ->
  map snd (run decode is_fast c st
             (mk_call p s d w ((sq * 32) :: total :: d0) :: later_calls p s d w sq 1 rest)) =
  map (fun _ => Ok None) (removelast (d0 :: rest)) ++
    [snd (call_decode decode c (srcmap st) p s d (le_int (firstn (Z.to_nat total) (concat (d0 :: rest)))) i)].
Proof. exact c16_fast_inorder. Qed.
Print Assumptions C16_fast_inorder.

(* a decoder that holds no record for the key (e.g. a new one) is fresh for every first frame *)
Theorem C16_fresh_decoder : forall st cl b0 total data,
  c_data cl = b0 :: total :: data -> b0 mod 32 = 0 -> klookup (key_of cl) (reasm st) = None -> fresh_first st cl.
Proof. exact fresh_first_new. Qed.
Print Assumptions C16_fresh_decoder.

Theorem C16_deterministic : forall decode is_fast c h1 h2, h1 = h2 ->
  run decode is_fast c init h1 = run decode is_fast c init h2.
Proof. exact c16_deterministic. Qed.
Print Assumptions C16_deterministic.

(* several decoders alive at once: decoder j returns what it returns alone on the calls addressed to it *)
Theorem C16_product : forall decode is_fast h s j c st, nth_error s j = Some (c, st) ->
  proj j (sys_run decode is_fast s h) = map snd (run decode is_fast c st (proj j h)).
Proof. exact c16_product. Qed.
Print Assumptions C16_product.

(* non-vacuity: garbage (empty fast frame -> IndexError, unknown PGN 5, raising rudder payload, stale frame), then a
   fresh two-frame fast-packet probe: same results as on a new decoder *)
Definition ex16_garbage : list call :=
  [ Build_call 129029 5 255 [] false; Build_call 5 5 255 [1;2;3] false; Build_call 127245 5 255 [] false;
    Build_call 129029 5 255 [64; 9; 1; 1] false; Build_call 129029 5 255 [33; 1] false ].
Definition ex16_probe : list call :=
  [ Build_call 129029 5 255 [96; 8; 1; 2; 3; 4; 5; 6] false; Build_call 129029 5 255 [97; 7; 8; 255] false ].
Example C16_example :
  db_pgn_ok ex_decode /\
  exists c, mk_cfg [] [] [] [] false = Ok c /\
    map snd (run ex_decode ex_fast c init ex16_garbage) = [Err EIndex; Ok None; Err ERange; Ok None; Ok None] /\
    let st := final ex_decode ex_fast c init ex16_garbage in
    reasm st <> [] /\
    map (fun r => option_map m_body (as_msg r)) (map snd (run ex_decode ex_fast c st ex16_probe))
      = [None; Some 578437695752307201] /\
    map snd (run ex_decode ex_fast c st ex16_probe) = map snd (run ex_decode ex_fast c init ex16_probe).
Proof.
  split; [exact ex_db_pgn|].
  eexists. split; [vm_compute; reflexivity|]. split; [vm_compute; reflexivity|].
  split; [vm_compute; discriminate|]. split; vm_compute; reflexivity.
Qed.
