(* C08 — proprietary PGN definitions are selected exactly by their match fields.
   Generic statements (for every database group, every code table, every payload); the instance
   for the tables regenerated from /repo is tools/templates/OblC08.v, compiled on every run. *)
From NV Require Import Base Defn Dispatch DispatchProofs.

(* the arms the generator is meant to emit, run as the code runs them (if-chain of masked
   comparisons, then fallback), select what the database rule selects — for every payload *)
Theorem C08_sem : forall g p, group_wf g = true ->
  run_disp (arms_of_group g) (fallback_of_group g) p
  = option_map (fun d => (d_pgn d, Some (d_id d))) (spec_select g p).
Proof. exact run_template_is_spec. Qed.
Print Assumptions C08_sem.

(* a group whose translated code passes the table check selects, for every payload, the first
   non-fallback definition in database order all of whose match fields equal the payload's bits,
   else the fallback, else nothing *)
Theorem C08_code : forall code_disp code_ids g,
  group_ok code_disp code_ids g = true -> in_scope g = true -> forall p,
  code_select code_disp code_ids (group_pgn g) p
  = option_map (fun d => (d_pgn d, d_id d)) (spec_select g p).
Proof. exact group_ok_sound. Qed.
Print Assumptions C08_code.

(* a payload never appears under a (non-fallback) definition whose match values it does not carry *)
Theorem C08_carries : forall g p d,
  spec_select g p = Some d -> d_fallback d = false -> def_matches p d = true.
Proof. exact selected_carries_match. Qed.
Print Assumptions C08_carries.

(* two payloads that differ only outside match fields select the same definition *)
Theorem C08_outside : forall g p q, agree_on_match g p q -> spec_select g p = spec_select g q.
Proof. exact outside_match_irrelevant. Qed.
Print Assumptions C08_outside.
Theorem C08_outside_bits : forall p q off len, 0 <= off -> 0 <= len ->
  (forall i, off <= i < off + len -> Z.testbit p i = Z.testbit q i) ->
  field_bits p off len = field_bits q off len.
Proof. exact field_bits_local. Qed.
Print Assumptions C08_outside_bits.

(* non-vacuity: a two-definition group with a fallback; manufacturer code 135 at bits 0..10 *)
Definition ex_f (m : option Z) : dbfield :=
  mkF 1 1 1 None None 1 (Some 11) (Some 0) false None None None None None None None None m None None None.
Definition ex_g : list dbdef :=
  [ mkDb 61184 10 10 1 true None None [ex_f None];
    mkDb 61184 11 11 1 false None None [ex_f (Some 135)] ].
Example C08_example :
  group_wf ex_g = true /\ is_dispatched ex_g = true /\
  option_map d_id (spec_select ex_g (135 + 2048 * 77)) = Some 11 /\
  option_map d_id (spec_select ex_g 136) = Some 10 /\
  run_disp (arms_of_group ex_g) (fallback_of_group ex_g) (135 + 2048 * 77) = Some (61184, Some 11).
Proof. vm_compute. auto. Qed.
