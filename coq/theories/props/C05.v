(* C05 — CAN identifier packing and parsing are mutually inverse (PDU1/PDU2 aware).
   Statements only; proofs live in HeaderProofs.v. *)
From NV Require Import Base Header HeaderProofs.

Theorem C05_build_extract : forall pgn source dest prio,
  0 <= prio < 8 -> 0 <= source < 256 -> 0 <= dest < 256 -> pgn_canonical pgn = true ->
  extract_header (build_header pgn source dest prio)
  = (pgn, source, (if is_pdu1 pgn then dest else 255), prio).
Proof. exact build_then_extract. Qed.
Print Assumptions C05_build_extract.

Theorem C05_extract_build : forall id, 0 <= id < 536870912 ->
  let '(p, s, d, q) := extract_header id in
  build_header p s d q = id /\ pgn_canonical p = true /\ 0 <= q < 8 /\ 0 <= s < 256 /\ 0 <= d < 256.
Proof. exact extract_then_build. Qed.
Print Assumptions C05_extract_build.

Theorem C05_injective : forall a b,
  0 <= a < 536870912 -> 0 <= b < 536870912 -> extract_header a = extract_header b -> a = b.
Proof. exact extract_injective. Qed.
Print Assumptions C05_injective.

Theorem C05_noncanonical : forall pgn source dest dest' prio,
  is_pdu1 pgn = false -> build_header pgn source dest prio = build_header pgn source dest' prio.
Proof. exact build_pdu2_ignores_dest. Qed.
Print Assumptions C05_noncanonical.

Theorem C05_actisense : forall src dest prio,
  0 <= src < 256 -> 0 <= dest < 256 -> 0 <= prio < 8 ->
  acti_parse (acti_build src dest prio) = (src, dest, prio).
Proof. exact acti_roundtrip. Qed.
Print Assumptions C05_actisense.

(* non-vacuity: PGN 59904 (PDU1, addressed) and 127250 (PDU2, broadcast) *)
Example C05_example_pdu1 :
  pgn_canonical 59904 = true /\ is_pdu1 59904 = true /\
  extract_header (build_header 59904 35 17 6) = (59904, 35, 17, 6).
Proof. vm_compute. auto. Qed.
Example C05_example_pdu2 :
  pgn_canonical 127250 = true /\ is_pdu1 127250 = false /\
  extract_header (build_header 127250 35 17 2) = (127250, 35, 255, 2).
Proof. vm_compute. auto. Qed.
