(* C19 — send() writes the encoder's packets contiguously; bad messages are harmless.
   Statements only; proofs live in SendProofs.v. The model is SendModel.v: the labelled transition
   system of any number of concurrent send() calls of the REPAIRED client (F-sendlock: a dedicated
   asyncio.Lock around the write/drain loop; F-actisense-send: a missing encoder is an encoding
   failure), with the environment choosing every write/drain outcome (returns, suspends, raises),
   the status callback's behaviour, reconnections and close(). `encode` (the client's _encode_impl,
   a state-passing function: packet list | ValueError | other exception) is universally quantified.
   `run ... true` = the repaired code (lock); `false` = the code as it was. *)
From NV Require Import Base SendModel SendProofs.

Section C19.
Variables E M : Type.
Variable encode : E -> M -> E * enc_outcome.

(* the packets written by one send are exactly the encoder's packets for its message, in order:
   all of them when it completed; a prefix while in flight or after a fault; none after a failed encoding *)
Theorem C19_exact : forall x ls y i pc,
  initial E M x -> run E M encode true x ls = Some y -> nth_error (pcs y) i = Some pc ->
  match pc with
  | SDone c OSent => enc_of E M encode c = EncOk (sent i (log y))
  | SDone c OEncFail => enc_of E M encode c = EncValueError /\ sent i (log y) = []
  | SNew _ | SWaitLock _ _ => sent i (log y) = []
  | SWrite c rest | SDrain c rest => enc_of E M encode c = EncOk (sent i (log y) ++ rest)
  | SFaultCb c | SDone c _ =>
      (enc_of E M encode c = EncOther /\ sent i (log y) = []) \/
      exists rest, enc_of E M encode c = EncOk (sent i (log y) ++ rest)
  end.
Proof. exact (exact E M encode true). Qed.

(* ... where the recorded call is the encoder's own outcome at the moment send() ran *)
Theorem C19_exact_call : forall x i m cb y pc',
  sender_step E M encode true x i (SNew m) (AStart cb) = Some (y, pc') ->
  encst y = fst (encode (encst x) m) /\
  match pc' with
  | SWaitLock c _ | SWrite c _ | SDrain c _ | SFaultCb c | SDone c _ => c = (encst x, m)
  | SNew _ => False
  end.
Proof. exact (start_records_call E M encode true). Qed.

(* in every run, the writes of two sends do not interleave *)
Theorem C19_contiguous : forall x ls y,
  initial E M x -> run E M encode true x ls = Some y -> ~ interleaved (senders (log y)).
Proof. exact (contiguous E M encode). Qed.

Theorem C19_writer_holds_lock : forall x ls y i c p rest,
  initial E M x -> run E M encode true x ls = Some y ->
  nth_error (pcs y) i = Some (SWrite c (p :: rest)) -> lockh y = Some i.
Proof. exact (writer_holds_lock E M encode). Qed.

(* an encoding failure writes nothing and leaves state, writer, lock, reconnect trigger, status trace
   and every other send unchanged; the failed send never acts again *)
Theorem C19_bad_message : forall x x' i m cb,
  nth_error (pcs x) i = Some (SNew m) -> snd (encode (encst x) m) = EncValueError ->
  step E M encode true x (LSend i (AStart cb)) = Some x' ->
  log x' = log x /\ st x' = st x /\ wr x' = wr x /\ next_w x' = next_w x /\ lockh x' = lockh x /\
  pend x' = pend x /\ trace x' = trace x /\ has_cb x' = has_cb x /\
  pcs x' = upd i (SDone (encst x, m) OEncFail) (pcs x) /\
  (forall j, j <> i -> nth_error (pcs x') j = nth_error (pcs x) j) /\
  (forall a, step E M encode true x' (LSend i a) = None).
Proof. exact (bad_message E M encode true). Qed.

(* a client without an encoder: every message is a bad message *)
Theorem C19_no_encoder : forall x x' i m cb,
  (forall e m, snd (encode e m) = EncValueError) ->
  nth_error (pcs x) i = Some (SNew m) -> step E M encode true x (LSend i (AStart cb)) = Some x' ->
  log x' = log x /\ st x' = st x /\ wr x' = wr x /\ lockh x' = lockh x /\ pend x' = pend x /\ trace x' = trace x /\
  (forall j, j <> i -> nth_error (pcs x') j = nth_error (pcs x) j) /\
  (forall a, step E M encode true x' (LSend i a) = None).
Proof. exact (bad_message_no_encoder E M encode true). Qed.

(* a failing write or drain: the lock is released; unless CLOSED the state becomes DISCONNECTED
   (one status notification if it was CONNECTED) and a connect task is created — at once, or as the
   only thing this send still does once the status callback it awaits has finished *)
Theorem C19_write_fault : forall x x' i pc a,
  nth_error (pcs x) i = Some pc -> is_write_fault a = true ->
  step E M encode true x (LSend i a) = Some x' ->
  lockh x' = None /\
  exists c pc', nth_error (pcs x') i = Some pc' /\
  match st x with
  | Closed => st x' = Closed /\ pend x' = pend x /\ trace x' = trace x /\ pc' = SDone c OFaultClosed
  | Disc => st x' = Disc /\ trace x' = trace x /\ pend x' = S (pend x) /\ pc' = SDone c OFault
  | Conn => st x' = Disc /\ trace x' = (if has_cb x then Disc :: trace x else trace x) /\
            ((pend x' = S (pend x) /\ pc' = SDone c OFault) \/
             (pend x' = pend x /\ pc' = SFaultCb c /\
              forall x'', step E M encode true x' (LSend i AFaultCbDone) = Some x'' ->
                          pend x'' = S (pend x') /\ st x'' = st x' /\ nth_error (pcs x'') i = Some (SDone c OFault)))
  end.
Proof. exact (write_fault E M encode true). Qed.

End C19.

Print Assumptions C19_exact.
Print Assumptions C19_exact_call.
Print Assumptions C19_contiguous.
Print Assumptions C19_writer_holds_lock.
Print Assumptions C19_bad_message.
Print Assumptions C19_no_encoder.
Print Assumptions C19_write_fault.

(* non-vacuity: two senders, two packets each, every drain suspends; sender 1 has to wait for the lock;
   the log is 0,0,1,1. (The same environment behaviour on the code as it was gives 0,1,0,1:
   SendProofs.unlocked_interleaves, and that schedule is not a run here: SendProofs.locked_rejects_demo.) *)
Example C19_example :
  let x0 := init unit nat Conn (Some 0%nat) tt true [0%nat; 1%nat] in
  initial unit nat x0 /\
  exists y, run unit nat demo_encode true x0
     [LSend 0 (AStart CbNow); LSend 0 AAcquire; LSend 0 (AWrite DrSusp CbNow); LSend 1 (AStart CbNow);
      LSend 0 (ADrained true CbNow); LSend 0 (AWrite DrSusp CbNow); LSend 0 (ADrained true CbNow);
      LSend 1 AAcquire; LSend 1 (AWrite DrRet CbNow); LSend 1 (AWrite DrRaise CbSusp); LSend 1 AFaultCbDone] = Some y /\
     rev (senders (log y)) = [0; 0; 1; 1]%nat /\ st y = Disc /\ pend y = 1%nat /\ lockh y = None.
Proof. split; [apply init_initial|]. eexists. vm_compute. repeat split. Qed.
