(* C03 — fast-packet segmentation and reassembly are inverse for every payload length 0..223 and every state of
   the sender's 3-bit sequence counter.  Statements only; models in FastPacket.v (wire byte order, code with
   fixes/F-pad.patch), proofs in FastPacketProofs.v.
   `dok p` = "the PGN decode function returns normally on payload p"; call dok p = Deliver p if so, else DecRaise p. *)
From NV Require Import Base FastPacket FastPacketProofs FastPacketFrames.

(* the encoder method on 0..223 bytes returns segment's frames and advances the counter *)
Theorem C03_encode : forall seq p, zlen p <= 223 -> encode_fast seq p = (Ok (segment seq p), next_seq seq).
Proof. exact encode_fast_ok. Qed.
Print Assumptions C03_encode.

(* shape: frame 0 = [seq*32+0; length; d0], frame k = [seq*32+k; chunk k]; the data concatenated is the payload;
   frame 0 carries at most 6 and, when more frames follow, exactly 6 bytes; every later frame carries 1..7 bytes
   (no frame for data that does not exist) and all but the last exactly 7 (so the number of frames is minimal); at most
   32 frames; the next counter differs from this one and stays in 0..7 *)
Theorem C03_shape : forall seq p, 0 <= seq < 8 -> zlen p <= 223 ->
  exists d0 cs,
    segment seq p = (seq * 32 :: zlen p :: d0) :: number 1 seq cs /\
    d0 ++ concat cs = p /\ zlen d0 <= 6 /\ (cs <> [] -> zlen d0 = 6) /\
    Forall (fun c => 1 <= zlen c <= 7) cs /\ all_but_last_full cs /\ zlen cs <= 31 /\
    next_seq seq <> seq /\ 0 <= next_seq seq < 8.
Proof. exact segment_shape. Qed.
Print Assumptions C03_shape.

(* on the frames themselves: every frame has 2..8 bytes (never more than a CAN frame holds), their number is the closed
   form total_frames (1..32), byte 0 of frame k is seq*32+k (frame counters 0,1,2,... under one sequence counter) and
   byte 1 of the first frame announces the total length *)
Theorem C03_frames : forall seq p, 0 <= seq < 8 -> zlen p <= 223 ->
  Forall (fun f => 2 <= zlen f <= 8) (segment seq p) /\
  length (segment seq p) = Z.to_nat (total_frames (zlen p)) /\
  1 <= total_frames (zlen p) <= 32 /\
  (forall k f, nth_error (segment seq p) k = Some f -> hd_error f = Some (seq * 32 + Z.of_nat k)) /\
  (forall f, hd_error (segment seq p) = Some f -> nth_error f 1 = Some (zlen p)).
Proof. exact segment_frames. Qed.
Print Assumptions C03_frames.

(* inverse, one key: from ANY state whose record is absent or carries another counter, the frames in order give
   nothing for every proper prefix and exactly the payload at the last frame; the record is gone afterwards *)
Theorem C03_inverse : forall dok seq p st, 0 <= seq < 8 -> zlen p <= 223 -> fresh seq st ->
  exists st', run dok st (segment seq p) = (st', repeat Nothing (length (segment seq p) - 1) ++ [call dok p]) /\
              settled seq st' /\ (dok p = true -> st' = None).
Proof. exact inverse_run. Qed.
Print Assumptions C03_inverse.

(* the same inside an arbitrary global history: frames of any other (pgn,src,dst) keys interleaved anywhere *)
Theorem C03_inverse_interleaved : forall isfast dok h g k seq p,
  isfast (fst (fst k)) = Some true -> proj k h = segment seq p ->
  0 <= seq < 8 -> zlen p <= 223 -> fresh seq (lookup k g) ->
  proj k (snd (dec_run isfast dok g h)) = repeat Nothing (length (segment seq p) - 1) ++ [call (dok k) p] /\
  (dok k p = true -> lookup k (fst (dec_run isfast dok g h)) = None).
Proof. exact inverse_in_history. Qed.
Print Assumptions C03_inverse_interleaved.

(* any list of payloads through one encoder (counter wrap-around included): every one is delivered, in order *)
Theorem C03_sequence : forall dok ps seq st,
  0 <= seq < 8 -> Forall (fun p => zlen p <= 223) ps -> fresh seq st ->
  snd (run dok st (concat (enc_run seq ps))) =
  concat (map (fun p => repeat Nothing (Z.to_nat (total_frames (zlen p)) - 1) ++ [call dok p]) ps).
Proof. exact sequence_run. Qed.
Print Assumptions C03_sequence.

(* non-vacuity: 15 bytes under counter 7 make three frames that reassemble to the payload; then the counter wraps *)
Example C03_example :
  segment 7 ex_payload = [[224; 15; 1; 2; 3; 4; 5; 6]; [225; 7; 8; 9; 10; 11; 12; 13]; [226; 14; 15]] /\
  run (fun _ => true) None (segment 7 ex_payload) = (None, [Nothing; Nothing; Deliver ex_payload]) /\
  next_seq 7 = 0 /\
  snd (run (fun _ => true) None (concat (enc_run 6 [[1]; []; ex_payload]))) =
  [Deliver [1]; Deliver []; Nothing; Nothing; Deliver ex_payload].
Proof. vm_compute. auto. Qed.
