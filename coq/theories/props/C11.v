(* C11 — messages carry the identity of their source's latest address claim; manufacturer filters; discovery.
   Statements only; proofs live in DecoderCtlProofs.v.  The model (DecoderCtl.v) is the REPAIRED decoder
   (fixes/F-unknown-mfr.patch).  Hypotheses on the database, checked on pgns.py at every run by
   tools/tr_init.py: db_hypotheses: decode_pgn_N builds a message with PGN N; PGN 60928 is single-frame.
   "history h followed by call cl" ranges over every position of every history.
   identity_after h s = the identity decoded (IsoName.__init__) from the most recent claim from s in h whose
   payload decodes and yields an identity; None if there is none. *)
From NV Require Import Base DecoderCtl DecoderCtlProofs.

(* every returned message is from the call's source and carries the identity of that source's latest decodable
   claim up to and including this call, or none *)
Theorem C11_identity : forall decode is_fast, db_pgn_ok decode -> is_fast CLAIM = Ok (Some false) ->
  forall c h cl m,
  snd (ctl_step decode is_fast c (final decode is_fast c init h) cl) = Ok (Some m) ->
  m_src m = c_src cl /\ m_iso m = identity_after decode (h ++ [cl]) (c_src cl).
Proof. exact c11_identity. Qed.
Print Assumptions C11_identity.

(* the source map after any history IS the specification (so "same NAME -> keep the old object" is harmless) *)
Theorem C11_srcmap : forall decode is_fast, db_pgn_ok decode -> is_fast CLAIM = Ok (Some false) ->
  forall c h s, zlookup s (srcmap (final decode is_fast c init h)) = identity_after decode h s.
Proof. exact c11_srcmap. Qed.
Print Assumptions C11_srcmap.

(* a call from one address never changes another address's identity (any state, any database) *)
Theorem C11_isolation : forall decode is_fast c st cl s',
  s' <> c_src cl ->
  zlookup s' (srcmap (fst (ctl_step decode is_fast c st cl))) = zlookup s' (srcmap st).
Proof. exact step_isolation. Qed.
Print Assumptions C11_isolation.

(* a returned non-claim message of a source that has claimed: the claimed manufacturer is not excluded and,
   if an include list is given, is in it (case-insensitively); an unknown manufacturer passes no include list *)
Theorem C11_manufacturer : forall decode is_fast, db_pgn_ok decode -> is_fast CLAIM = Ok (Some false) ->
  forall ex inc exm incm nm c h cl m o,
  mk_cfg ex inc exm incm nm = Ok c ->
  snd (ctl_step decode is_fast c (final decode is_fast c init h) cl) = Ok (Some m) ->
  m_pgn m <> CLAIM -> identity_after decode h (c_src cl) = Some o ->
  mfr_pass exm incm o = true.
Proof. exact c11_manufacturer. Qed.
Print Assumptions C11_manufacturer.

(* network mapping on, inside the discovery window: nothing but claims is returned for an unclaimed source *)
Theorem C11_discovery : forall decode is_fast, db_pgn_ok decode -> is_fast CLAIM = Ok (Some false) ->
  forall c h cl m,
  netmap c = true -> c_win cl = true ->
  snd (ctl_step decode is_fast c (final decode is_fast c init h) cl) = Ok (Some m) ->
  m_pgn m = CLAIM \/ identity_after decode h (c_src cl) <> None.
Proof. exact c11_discovery. Qed.
Print Assumptions C11_discovery.

(* non-vacuity: claim with NAME 7 (Garmin) from 5, re-claim with NAME 60 (unknown manufacturer), an undecodable
   claim (NAME 99), data before / between / after, a second source; include list ["GARMIN"], network map on *)
Definition ex11_hist : list call :=
  [ Build_call 127250 5 255 [1] true;      (* before any claim, in window: withheld *)
    Build_call CLAIM 5 255 [7] true;       (* claim: Garmin *)
    Build_call 127250 5 255 [1] true;      (* returned, identity NAME 7 *)
    Build_call 127250 9 255 [1] false;     (* other source, window over: returned without identity *)
    Build_call CLAIM 5 255 [99] true;      (* undecodable claim: identity stays *)
    Build_call 127250 5 255 [2] true;      (* returned, identity NAME 7 *)
    Build_call CLAIM 5 255 [60] true;      (* re-claim, unknown manufacturer *)
    Build_call 127250 5 255 [3] true ].    (* not returned: unknown manufacturer passes no include list *)
Example C11_example :
  db_pgn_ok ex_decode /\ ex_fast CLAIM = Ok (Some false) /\
  exists c, mk_cfg [] [] [] [s_GARMIN] true = Ok c /\
    map (fun so => match as_msg (snd so) with
                   | Some m => (m_pgn m, match m_iso m with Some i => i_name i | None => -1 end)
                   | None => (0, 0) end) (run ex_decode ex_fast c init ex11_hist)
    = [(0,0); (CLAIM,7); (127250,7); (127250,-1); (0,0); (127250,7); (CLAIM,60); (0,0)] /\
    option_map i_name (identity_after ex_decode ex11_hist 5) = Some 60 /\
    identity_after ex_decode ex11_hist 9 = None.
Proof.
  split; [exact ex_db_pgn|]. split; [exact ex_fast_claim|].
  eexists. split; [vm_compute; reflexivity|]. split; [vm_compute; reflexivity|]. split; vm_compute; reflexivity.
Qed.
