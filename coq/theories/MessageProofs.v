(* MessageProofs.v — lemmas about Message.v (C17, C18, C15).  No axioms; external behaviour is a
   Section variable with Section hypotheses. *)
From NV Require Import Base Message.
From Coq Require Import PrimFloat Uint63 DecimalZ.

(* ------------------------------------------------------------------ generic *)
Lemma bytes_eqb_eq a b : bytes_eqb a b = true <-> a = b.
Proof. apply list_eqb_eq. intros; apply Z.eqb_eq. Qed.
Lemma bytes_eqb_neq a b : bytes_eqb a b = false <-> a <> b.
Proof.
  split; intros H.
  - intros E. apply bytes_eqb_eq in E. congruence.
  - destruct (bytes_eqb a b) eqn:E; [apply bytes_eqb_eq in E; contradiction | reflexivity].
Qed.

Lemma bind_ok {A B} (r : result A) (f : A -> result B) b :
  bind r f = Ok b -> exists a, r = Ok a /\ f a = Ok b.
Proof. destruct r; simpl; intros H; try discriminate. eauto. Qed.

Lemma mapM_ok_Forall2 {A B} (f : A -> result B) l l' :
  mapM f l = Ok l' -> Forall2 (fun x y => f x = Ok y) l l'.
Proof.
  revert l'. induction l as [|x l IH]; simpl; intros l' H.
  - inversion H. constructor.
  - apply bind_ok in H. destruct H as [y [Hy H]]. apply bind_ok in H. destruct H as [ys [Hys H]].
    inversion H; subst. constructor; auto.
Qed.
Lemma Forall2_mapM_ok {A B} (f : A -> result B) l l' :
  Forall2 (fun x y => f x = Ok y) l l' -> mapM f l = Ok l'.
Proof. induction 1; simpl; [reflexivity|]. rewrite H, IHForall2. reflexivity. Qed.
Lemma mapM_id {A} (f : A -> result A) l : (forall x, In x l -> f x = Ok x) -> mapM f l = Ok l.
Proof.
  induction l as [|x l IH]; simpl; intros H; [reflexivity|].
  rewrite (H x) by (left; reflexivity). simpl. rewrite IH by (intros; apply H; right; assumption). reflexivity.
Qed.
Lemma mapM_total {A B} (f : A -> result B) l :
  (forall x, In x l -> exists y, f x = Ok y) -> exists l', mapM f l = Ok l'.
Proof.
  induction l as [|x l IH]; simpl; intros H; [eexists; reflexivity|].
  destruct (H x) as [y Hy]; [left; reflexivity|]. destruct IH as [l' Hl']; [intros; apply H; right; assumption|].
  rewrite Hy, Hl'. simpl. eexists; reflexivity.
Qed.

Lemma set_fields_same m : set_fields m (m_fields m) = m.
Proof. destruct m; reflexivity. Qed.

(* ================================================================== C17 *)
Lemma no_us_spec s : no_us s = true <-> ~ In US s.
Proof.
  unfold no_us. rewrite forallb_forall. split.
  - intros H I. specialize (H _ I). rewrite Z.eqb_refl in H. discriminate.
  - intros H x I. destruct (x =? US) eqn:E; [|reflexivity]. apply Z.eqb_eq in E. subst. contradiction.
Qed.

(* splitting at the first separator *)
Lemma split_us a b r1 r2 :
  no_us a = true -> no_us b = true -> a ++ US :: r1 = b ++ US :: r2 -> a = b /\ r1 = r2.
Proof.
  revert b. induction a as [|x a IH]; intros [|y b] Ha Hb E; simpl in *.
  - inversion E. auto.
  - inversion E; subst. apply andb_true_iff in Hb. destruct Hb as [Hb _]. rewrite Z.eqb_refl in Hb. discriminate.
  - inversion E; subst. apply andb_true_iff in Ha. destruct Ha as [Ha _]. rewrite Z.eqb_refl in Ha. discriminate.
  - inversion E; subst. apply andb_true_iff in Ha. apply andb_true_iff in Hb.
    destruct (IH b (proj2 Ha) (proj2 Hb) H1) as [-> ->]. auto.
Qed.
Lemma no_us_not_app a b r : no_us a = true -> a = b ++ US :: r -> False.
Proof.
  intros Ha E. apply no_us_spec in Ha. apply Ha. rewrite E. apply in_or_app. right. left. reflexivity.
Qed.

(* --- str(int) *)
Definition digit_or_minus (b : Z) : Prop := b = 45 \/ 48 <= b <= 57.
Lemma uint_bytes_digits u : Forall (fun b => 48 <= b <= 57) (uint_bytes u).
Proof. induction u; simpl; constructor; auto; lia. Qed.
Lemma uint_bytes_inj u : forall v, uint_bytes u = uint_bytes v -> u = v.
Proof.
  induction u; intros v H; destruct v; simpl in H; try discriminate; try reflexivity;
    injection H as H; f_equal; auto.
Qed.
Lemma py_str_int_chars z : Forall digit_or_minus (py_str_int z).
Proof.
  unfold py_str_int. destruct (Z.to_int z) as [u|u].
  - eapply Forall_impl; [|apply uint_bytes_digits]. intros b Hb. right. exact Hb.
  - constructor; [left; reflexivity|]. eapply Forall_impl; [|apply uint_bytes_digits]. intros b Hb. right. exact Hb.
Qed.
Lemma py_str_int_inj a b : py_str_int a = py_str_int b -> a = b.
Proof.
  unfold py_str_int. intros H. apply DecimalZ.to_int_inj.
  destruct (Z.to_int a) as [u|u], (Z.to_int b) as [v|v].
  - f_equal. apply uint_bytes_inj. exact H.
  - exfalso. pose proof (uint_bytes_digits u) as D. rewrite H in D. inversion D; subst. lia.
  - exfalso. pose proof (uint_bytes_digits v) as D. rewrite <- H in D. inversion D; subst. lia.
  - f_equal. apply uint_bytes_inj. injection H as H. exact H.
Qed.
Lemma py_str_int_no_us z : no_us (py_str_int z) = true.
Proof.
  apply no_us_spec. intros I. pose proof (py_str_int_chars z) as F. rewrite Forall_forall in F.
  specialize (F _ I). unfold digit_or_minus, US in F. lia.
Qed.
Lemma py_str_int_not_none z : py_str_int z <> s_None.
Proof.
  intros E. pose proof (py_str_int_chars z) as F. rewrite E in F. inversion F; subst.
  unfold digit_or_minus in *. lia.
Qed.
Lemma s_None_no_us : no_us s_None = true. Proof. reflexivity. Qed.

Lemma key_parts_raws py_str_float fs :
  key_parts py_str_float fs = mapM (py_str py_str_float) (map f_raw (filter f_pk fs)).
Proof.
  induction fs as [|f r IH]; simpl; [reflexivity|]. destruct (f_pk f); simpl; rewrite IH; reflexivity.
Qed.

Lemma kconf_b_spec k v : kconf_b k v = true <-> kconf k v.
Proof.
  destruct k, v; simpl; try tauto; try (split; [discriminate|contradiction]).
  rewrite negb_true_iff, bytes_eqb_neq. tauto.
Qed.
Lemma conf_list_spec s : forall vs, conf_list s vs = true <-> Forall2 kconf s vs.
Proof.
  induction s as [|k s IH]; intros [|v vs]; simpl; split; intros H; try discriminate; try constructor;
    try solve [inversion H].
  - apply andb_true_iff in H. apply kconf_b_spec. tauto.
  - apply andb_true_iff in H. apply IH. tauto.
  - inversion H; subst. apply andb_true_iff. split; [apply kconf_b_spec|apply IH]; assumption.
Qed.

Section HashProofs.
  Variable md5 : bytes -> zstr.
  Variable py_str_float : float -> bytes.
  (* trusted facts about CPython's repr of a double: injective (shortest round-trip repr; -0.0 and 0.0,
     inf, nan are distinct texts), never contains '_', always contains one of . e n (so it is never the
     text of an int and never "None") *)
  Hypothesis psf_inj : forall a b, py_str_float a = py_str_float b -> a = b.
  Hypothesis psf_no_us : forall a, no_us (py_str_float a) = true.
  Hypothesis psf_not_int : forall a z, py_str_float a <> py_str_int z.
  Hypothesis psf_not_none : forall a, py_str_float a <> s_None.

  Notation py_str := (py_str py_str_float).
  Notation hash_key := (hash_key py_str_float).
  Notation add_data := (add_data md5 py_str_float).

  Lemma py_str_conf_total k v : kconf k v -> exists s, py_str v = Ok s.
  Proof. destruct k, v; simpl; intros H; try contradiction; eexists; reflexivity. Qed.

  Lemma py_str_num_no_us v s : kconf KNum v -> py_str v = Ok s -> no_us s = true.
  Proof.
    destruct v; simpl; intros K H; try contradiction; inversion H; subst.
    - reflexivity. - apply py_str_int_no_us. - apply psf_no_us.
  Qed.

  Lemma py_str_conf_inj k v1 v2 s : kconf k v1 -> kconf k v2 -> py_str v1 = Ok s -> py_str v2 = Ok s -> v1 = v2.
  Proof.
    destruct k, v1, v2; simpl; intros K1 K2 H1 H2; try contradiction; try reflexivity;
      rewrite <- H2 in H1; injection H1 as E; try reflexivity;
      try solve [exfalso; first [ apply (py_str_int_not_none _ E) | apply (py_str_int_not_none _ (eq_sym E))
                                | apply (psf_not_none _ E) | apply (psf_not_none _ (eq_sym E))
                                | apply (psf_not_int _ _ E) | apply (psf_not_int _ _ (eq_sym E)) ]];
      try solve [f_equal; first [apply py_str_int_inj | apply psf_inj | idtac]; congruence];
      try congruence.
  Qed.

  Lemma parts_inj sig : sig_ok sig = true -> forall vs1 vs2 ps1 ps2,
    Forall2 kconf sig vs1 -> Forall2 kconf sig vs2 ->
    mapM py_str vs1 = Ok ps1 -> mapM py_str vs2 = Ok ps2 ->
    concat (map (cons US) ps1) = concat (map (cons US) ps2) -> vs1 = vs2.
  Proof.
    induction sig as [|k sig IH]; intros Hs vs1 vs2 ps1 ps2 F1 F2 M1 M2 E.
    - inversion F1; inversion F2; reflexivity.
    - inversion F1 as [|? v1 ? r1 K1 F1']; subst. inversion F2 as [|? v2 ? r2 K2 F2']; subst.
      simpl in M1, M2.
      apply bind_ok in M1. destruct M1 as [s1 [S1 M1]]. apply bind_ok in M1. destruct M1 as [t1 [T1 M1]].
      apply bind_ok in M2. destruct M2 as [s2 [S2 M2]]. apply bind_ok in M2. destruct M2 as [t2 [T2 M2]].
      inversion M1; inversion M2; subst. simpl in E. injection E as E.
      destruct sig as [|k' sig'].
      + inversion F1'; inversion F2'; subst. simpl in T1, T2. inversion T1; inversion T2; subst.
        simpl in E. rewrite !app_nil_r in E. subst. f_equal. eapply py_str_conf_inj; eassumption.
      + assert (k = KNum) as -> by (destruct k; [reflexivity | simpl in Hs; discriminate]).
        assert (Hs' : sig_ok (k' :: sig') = true) by exact Hs.
        inversion F1' as [|? v1' ? r1' K1' F1'']; subst. inversion F2' as [|? v2' ? r2' K2' F2'']; subst.
        simpl in T1, T2.
        destruct (py_str v1') as [s1'| |] eqn:S1'; simpl in T1; try discriminate.
        destruct (mapM py_str r1') as [t1'| |] eqn:T1'; simpl in T1; try discriminate.
        destruct (py_str v2') as [s2'| |] eqn:S2'; simpl in T2; try discriminate.
        destruct (mapM py_str r2') as [t2'| |] eqn:T2'; simpl in T2; try discriminate.
        inversion T1; inversion T2; subst. simpl in E.
        apply split_us in E; [| exact (py_str_num_no_us _ _ K1 S1) | exact (py_str_num_no_us _ _ K2 S2)].
        destruct E as [-> E].
        f_equal; [eapply py_str_conf_inj; eassumption|].
        eapply (IH Hs' (v1' :: r1') (v2' :: r2') (s1' :: t1') (s2' :: t2')); try assumption.
        * simpl. rewrite S1', T1'. reflexivity.
        * simpl. rewrite S2', T2'. reflexivity.
        * simpl. f_equal. exact E.
  Qed.

  Lemma join_key_split id1 id2 ps1 ps2 :
    no_us id1 = true -> no_us id2 = true -> join_key id1 ps1 = join_key id2 ps2 ->
    id1 = id2 /\ concat (map (cons US) ps1) = concat (map (cons US) ps2).
  Proof.
    unfold join_key. intros H1 H2 E. destruct ps1 as [|s1 r1], ps2 as [|s2 r2]; simpl in *.
    - rewrite !app_nil_r in E. auto.
    - rewrite app_nil_r in E. exact (False_ind _ (no_us_not_app _ _ _ H1 E)).
    - rewrite app_nil_r in E. symmetry in E. exact (False_ind _ (no_us_not_app _ _ _ H2 E)).
    - apply split_us in E; try assumption. destruct E as [-> ->]. auto.
  Qed.

  Lemma hash_key_eq m : hash_key m = do ps <- mapM py_str (key_raws m); Ok (join_key (m_id m) ps).
  Proof. unfold hash_key, key_raws. rewrite key_parts_raws. reflexivity. Qed.

  (* the key is injective in (id, key raw values) *)
  Theorem hash_key_injective (sig_of : bytes -> list kkind) :
    (forall i, sig_ok (sig_of i) = true) ->
    forall m1 m2 k, conf_b sig_of m1 = true -> conf_b sig_of m2 = true ->
      hash_key m1 = Ok k -> hash_key m2 = Ok k ->
      m_id m1 = m_id m2 /\ key_raws m1 = key_raws m2.
  Proof.
    intros Hsig m1 m2 k C1 C2 K1 K2. unfold conf_b in *.
    apply andb_true_iff in C1. destruct C1 as [U1 C1]. apply andb_true_iff in C2. destruct C2 as [U2 C2].
    rewrite hash_key_eq in K1, K2.
    apply bind_ok in K1. destruct K1 as [ps1 [P1 K1]]. apply bind_ok in K2. destruct K2 as [ps2 [P2 K2]].
    inversion K1 as [J1]. inversion K2 as [J2]. rewrite <- J2 in J1.
    destruct (join_key_split _ _ _ _ U1 U2 J1) as [Eid Ec]. split; [exact Eid|].
    rewrite conf_list_spec in C1, C2. rewrite <- Eid in C2.
    eapply parts_inj; try eassumption. apply Hsig.
  Qed.

  (* the key (hence the hash) depends on nothing but the id and the key raw values *)
  Theorem hash_key_congruence m1 m2 :
    m_id m1 = m_id m2 -> key_raws m1 = key_raws m2 -> hash_key m1 = hash_key m2.
  Proof. intros E1 E2. rewrite !hash_key_eq, E1, E2. reflexivity. Qed.

  Definition res_hash (r : result msg) : result (option zstr) :=
    match r with Ok m => Ok (m_hash m) | Err e => Err e | Unmodelled => Unmodelled end.

  Theorem add_data_congruence m1 m2 a1 a2 :
    m_id m1 = m_id m2 -> key_raws m1 = key_raws m2 ->
    res_hash (add_data a1 true m1) = res_hash (add_data a2 true m2).
  Proof.
    intros E1 E2. unfold add_data. rewrite (hash_key_congruence m1 m2 E1 E2).
    destruct (hash_key m2); reflexivity.
  Qed.

  Theorem add_data_has_hash a m r : add_data a true m = Ok r ->
    exists k, hash_key m = Ok k /\ m_hash r = Some (md5 k).
  Proof.
    unfold add_data. intros H. apply bind_ok in H. destruct H as [k [K H]]. inversion H; subst. eauto.
  Qed.

  Theorem add_data_total sig_of a m : conf_b sig_of m = true -> exists r, add_data a true m = Ok r.
  Proof.
    unfold conf_b. intros C. apply andb_true_iff in C. destruct C as [_ C]. rewrite conf_list_spec in C.
    unfold add_data. rewrite hash_key_eq.
    destruct (mapM_total py_str (key_raws m)) as [ps P].
    { revert C. generalize (sig_of (m_id m)) (key_raws m). intros s vs F.
      induction F as [|k0 v0 s0 vs0 K0 _ IH0]; intros w I; [inversion I|].
      destruct I as [<-|I]; [eapply py_str_conf_total; eassumption | auto]. }
    rewrite P. simpl. eexists; reflexivity.
  Qed.

  Theorem add_data_off a m : exists r, add_data a false m = Ok r /\ m_hash r = None.
  Proof. unfold add_data. eexists; split; reflexivity. Qed.

  Theorem add_data_addressing a b m r : add_data a b m = Ok r ->
    m_pgn r = m_pgn m /\ m_id r = m_id m /\ m_fields r = m_fields m /\ m_descr r = m_descr m /\ m_ttl r = m_ttl m /\
    m_src r = a_src a /\ m_dst r = a_dst a /\ m_prio r = a_prio a /\ m_ts r = a_ts a /\ m_iso r = a_iso a /\
    m_raw r = a_raw a.
  Proof.
    unfold add_data. destruct b.
    - intros H. apply bind_ok in H. destruct H as [k [_ H]]. inversion H; subst; simpl. repeat split.
    - intros H. inversion H; subst; simpl. repeat split.
  Qed.

  (* different (id, key raw values) => different hash, when md5 does not collide on the two keys *)
  Theorem hashes_differ (sig_of : bytes -> list kkind) :
    (forall i, sig_ok (sig_of i) = true) ->
    forall m1 m2 a1 a2 r1 r2, conf_b sig_of m1 = true -> conf_b sig_of m2 = true ->
      add_data a1 true m1 = Ok r1 -> add_data a2 true m2 = Ok r2 ->
      (forall k1 k2, hash_key m1 = Ok k1 -> hash_key m2 = Ok k2 -> md5 k1 = md5 k2 -> k1 = k2) ->
      (m_id m1 <> m_id m2 \/ key_raws m1 <> key_raws m2) ->
      m_hash r1 <> m_hash r2.
  Proof.
    intros Hsig m1 m2 a1 a2 r1 r2 C1 C2 A1 A2 Hmd5 D E.
    apply add_data_has_hash in A1. destruct A1 as [k1 [K1 H1]].
    apply add_data_has_hash in A2. destruct A2 as [k2 [K2 H2]].
    rewrite H1, H2 in E. injection E as E. apply (Hmd5 _ _ K1 K2) in E. subst k2.
    destruct (hash_key_injective sig_of Hsig m1 m2 k1 C1 C2 K1 K2) as [Ei Ek]. tauto.
  Qed.
  Theorem add_data_on sig_of a m : conf_b sig_of m = true ->
    exists r k, add_data a true m = Ok r /\ hash_key m = Ok k /\ m_hash r = Some (md5 k).
  Proof.
    intros C. destruct (add_data_total sig_of a m C) as [r R]. exists r.
    destruct (add_data_has_hash _ _ _ R) as [k [K H]]. exists k. auto.
  Qed.
End HashProofs.

(* ================================================================== C18 *)
Lemma pref_get_map_lower q raw :
  pref_get q (map (fun kv => (fst kv, map ascii_lower_b (snd kv))) raw)
  = option_map (map ascii_lower_b) (pref_get q raw).
Proof.
  induction raw as [|[k v] r IH]; simpl; [reflexivity|]. destruct (k =? q); [reflexivity | exact IH].
Qed.
Lemma decoder_prefs_spec raw p : decoder_prefs raw = Ok p ->
  p = map (fun kv => (fst kv, map ascii_lower_b (snd kv))) raw.
Proof.
  unfold decoder_prefs. revert p. induction raw as [|[k v] r IH]; simpl; intros p H.
  - inversion H; reflexivity.
  - apply bind_ok in H. destruct H as [y [Hy H]]. apply bind_ok in H. destruct H as [ys [Hys H]].
    inversion H; subst. apply bind_ok in Hy. destruct Hy as [l [Hl Hy]]. inversion Hy; subst.
    unfold py_lower in Hl. destruct (forallb _ v); inversion Hl; subst. f_equal. apply IH. exact Hys.
Qed.

Lemma decoder_prefs_get raw p : decoder_prefs raw = Ok p ->
  forall q, pref_get q p = option_map (map ascii_lower_b) (pref_get q raw).
Proof. intros H q. rewrite (decoder_prefs_spec _ _ H). apply pref_get_map_lower. Qed.

(* which (quantity, preference) pairs are recognised *)
Definition recognised_spec (p : prefs) (q : pqv) (t : target) : Prop :=
  (q = PqEnum PQ_TEMPERATURE /\ pref_get PQ_TEMPERATURE p = Some u_c /\ t = TCelsius) \/
  (q = PqEnum PQ_TEMPERATURE /\ pref_get PQ_TEMPERATURE p = Some u_f /\ t = TFahrenheit) \/
  (q = PqEnum PQ_PRESSURE /\ pref_get PQ_PRESSURE p = Some u_bar /\ t = TBar) \/
  (q = PqEnum PQ_PRESSURE /\ pref_get PQ_PRESSURE p = Some u_psi /\ t = TPsi) \/
  (q = PqEnum PQ_ANGLE /\ pref_get PQ_ANGLE p = Some u_deg /\ t = TDeg) \/
  (q = PqEnum PQ_SPEED /\ pref_get PQ_SPEED p = Some u_kts /\ t = TKts).

Lemma recognise_spec p q t : recognise p q = Some t <-> recognised_spec p q t.
Proof.
  unfold recognise, recognised_spec. split.
  - destruct q as [|n|n]; try discriminate.
    destruct (n =? PQ_TEMPERATURE) eqn:E1; [apply Z.eqb_eq in E1; subst|].
    { destruct (pref_get PQ_TEMPERATURE p) as [u|]; try discriminate.
      destruct (bytes_eqb u u_c) eqn:Ec; [apply bytes_eqb_eq in Ec; subst; intros H; inversion H; tauto|].
      destruct (bytes_eqb u u_f) eqn:Ef; [apply bytes_eqb_eq in Ef; subst; intros H; inversion H; tauto|]. discriminate. }
    destruct (n =? PQ_PRESSURE) eqn:E2; [apply Z.eqb_eq in E2; subst|].
    { destruct (pref_get PQ_PRESSURE p) as [u|]; try discriminate.
      destruct (bytes_eqb u u_bar) eqn:Ec; [apply bytes_eqb_eq in Ec; subst; intros H; inversion H; tauto|].
      destruct (bytes_eqb u u_psi) eqn:Ef; [apply bytes_eqb_eq in Ef; subst; intros H; inversion H; tauto|]. discriminate. }
    destruct (n =? PQ_ANGLE) eqn:E3; [apply Z.eqb_eq in E3; subst|].
    { destruct (pref_get PQ_ANGLE p) as [u|]; try discriminate.
      destruct (bytes_eqb u u_deg) eqn:Ec; [apply bytes_eqb_eq in Ec; subst; intros H; inversion H; tauto|]. discriminate. }
    destruct (n =? PQ_SPEED) eqn:E4; [apply Z.eqb_eq in E4; subst|].
    { destruct (pref_get PQ_SPEED p) as [u|]; try discriminate.
      destruct (bytes_eqb u u_kts) eqn:Ec; [apply bytes_eqb_eq in Ec; subst; intros H; inversion H; tauto|]. discriminate. }
    discriminate.
  - intros [H|[H|[H|[H|[H|H]]]]]; destruct H as [-> [-> ->]]; reflexivity.
Qed.

Lemma recognise_nil q : recognise [] q = None.
Proof.
  destruct q as [|n|n]; try reflexivity. unfold recognise.
  destruct (n =? PQ_TEMPERATURE); [reflexivity|]. destruct (n =? PQ_PRESSURE); [reflexivity|].
  destruct (n =? PQ_ANGLE); [reflexivity|]. destruct (n =? PQ_SPEED); reflexivity.
Qed.

Section UnitProofs.
  Variable py_round_ndigits : float -> Z -> float.
  Variable math_degrees : float -> float.
  Notation conv := (conv py_round_ndigits math_degrees).
  Notation convert_value := (convert_value py_round_ndigits math_degrees).
  Notation apply_field := (apply_field py_round_ndigits math_degrees).
  Notation apply_units := (apply_units py_round_ndigits math_degrees).

  (* what may differ between a field and its image *)
  Definition field_frame (p : prefs) (f f' : field) : Prop :=
    match recognise p (f_pq f) with
    | None => f' = f
    | Some t =>
        convert_value t (f_value f) = Ok (f_value f') /\ f_unit f' = Some (label t) /\
        f_id f' = f_id f /\ f_name f' = f_name f /\ f_descr f' = f_descr f /\ f_raw f' = f_raw f /\
        f_pq f' = f_pq f /\ f_type f' = f_type f /\ f_pk f' = f_pk f
    end.

  Lemma apply_field_frame p f f' : apply_field p f = Ok f' -> field_frame p f f'.
  Proof.
    unfold apply_field, field_frame. destruct (recognise p (f_pq f)) as [t|].
    - intros H. apply bind_ok in H. destruct H as [v [Hv H]]. inversion H; subst; simpl. repeat split. exact Hv.
    - intros H. inversion H. reflexivity.
  Qed.

  Theorem apply_units_frame p m m' : apply_units p m = Ok m' ->
    m' = set_fields m (m_fields m') /\ Forall2 (field_frame p) (m_fields m) (m_fields m').
  Proof.
    unfold apply_units. destruct p as [|kv p].
    - intros H. inversion H; subst. split; [symmetry; apply set_fields_same|].
      induction (m_fields m') as [|f l IH]; constructor; auto. unfold field_frame. rewrite recognise_nil. reflexivity.
    - intros H. apply bind_ok in H. destruct H as [fs [Hfs H]]. inversion H; subst. simpl. split; [reflexivity|].
      apply mapM_ok_Forall2 in Hfs. induction Hfs; constructor; auto. apply apply_field_frame. assumption.
  Qed.

  Lemma convert_absent t : convert_value t VNone = Ok VNone.
  Proof. reflexivity. Qed.
  Lemma convert_float t x : convert_value t (VFloat x) = Ok (VFloat (conv t x)).
  Proof. reflexivity. Qed.
  Lemma convert_int t z : exact_int z = true -> convert_value t (VInt z) = Ok (VFloat (conv t (z2f z))).
  Proof. unfold convert_value. intros ->. reflexivity. Qed.

  Theorem apply_units_unrecognised p m :
    (forall f, In f (m_fields m) -> recognise p (f_pq f) = None) -> apply_units p m = Ok m.
  Proof.
    intros H. unfold apply_units. destruct p as [|kv p]; [reflexivity|].
    rewrite mapM_id; [simpl; rewrite set_fields_same; reflexivity|].
    intros f I. unfold apply_field. rewrite (H f I). reflexivity.
  Qed.

  Definition numeric_ok (v : value) : bool :=
    match v with VNone | VFloat _ => true | VInt z => exact_int z | _ => false end.
  Theorem apply_units_total p m :
    (forall f, In f (m_fields m) -> recognise p (f_pq f) <> None -> numeric_ok (f_value f) = true) ->
    exists m', apply_units p m = Ok m'.
  Proof.
    intros H. unfold apply_units. destruct p as [|kv p]; [eexists; reflexivity|].
    destruct (mapM_total (apply_field (kv :: p)) (m_fields m)) as [fs Hfs].
    - intros f I. unfold apply_field. destruct (recognise (kv :: p) (f_pq f)) as [t|] eqn:R; [|eexists; reflexivity].
      assert (N : numeric_ok (f_value f) = true) by (apply H; [exact I | rewrite R; discriminate]).
      unfold Message.convert_value. destruct (f_value f); simpl in N; try discriminate; try rewrite N; simpl; eexists; reflexivity.
    - rewrite Hfs. simpl. eexists; reflexivity.
  Qed.

  Lemma frame_keeps_keys p fs fs' : Forall2 (field_frame p) fs fs' ->
    map f_raw (filter f_pk fs') = map f_raw (filter f_pk fs) /\ map f_raw fs' = map f_raw fs /\ map f_id fs' = map f_id fs.
  Proof.
    induction 1 as [|f f' l l' F _ IH]; simpl; [auto|]. destruct IH as [I1 [I2 I3]].
    assert (E : f_raw f' = f_raw f /\ f_pk f' = f_pk f /\ f_id f' = f_id f).
    { unfold field_frame in F. destruct (recognise p (f_pq f)); [tauto | subst; auto]. }
    destruct E as [E1 [E2 E3]]. rewrite E1, E2, E3, I2, I3. repeat split. destruct (f_pk f); simpl; rewrite ?I1, ?E1; reflexivity.
  Qed.

  Theorem apply_units_keeps_identity p m m' : apply_units p m = Ok m' ->
    m_hash m' = m_hash m /\ m_id m' = m_id m /\ key_raws m' = key_raws m /\ m_pgn m' = m_pgn m /\
    m_src m' = m_src m /\ m_dst m' = m_dst m /\ m_prio m' = m_prio m /\ m_ts m' = m_ts m /\ m_iso m' = m_iso m /\
    m_raw m' = m_raw m /\ m_descr m' = m_descr m /\ m_ttl m' = m_ttl m.
  Proof.
    intros H. apply apply_units_frame in H. destruct H as [E F]. apply frame_keeps_keys in F.
    unfold key_raws. rewrite (proj1 F). rewrite E. simpl. repeat split.
  Qed.
  Theorem apply_units_keeps_hash p m m' : apply_units p m = Ok m' ->
    m_hash m' = m_hash m /\ m_id m' = m_id m /\ key_raws m' = key_raws m.
  Proof. intros H. apply apply_units_keeps_identity in H. tauto. Qed.
End UnitProofs.

(* ================================================================== decoder tail *)
Section TailProofs.
  Variable md5 : bytes -> zstr.
  Variable py_str_float : float -> bytes.
  Variable py_round_ndigits : float -> Z -> float.
  Variable math_degrees : float -> float.
  Notation finish := (finish md5 py_str_float py_round_ndigits math_degrees).
  Notation apply_units := (apply_units py_round_ndigits math_degrees).

  Definition no_prefs (c : dcfg) : dcfg := mkCfg (c_build_map c) [] (c_dump_on c) (c_dump_pgns c) (c_dump_ids c).

  (* decoding with preferences = unit conversion applied to the result of decoding without (dump off) *)
  Theorem finish_commutes c a m0 : c_dump_on c = false ->
    finish c a m0 =
    match finish (no_prefs c) a m0 with
    | Ok (m, _) => do m' <- apply_units (c_prefs c) m; Ok (m', None)
    | Err e => Err e
    | Unmodelled => Unmodelled
    end.
  Proof.
    intros H. unfold Message.finish, dump_match, no_prefs. simpl. rewrite H. simpl.
    destruct (add_data md5 py_str_float a (c_build_map c) m0) as [m1| |]; simpl; reflexivity.
  Qed.

  (* ... and the message decoded without preferences already carries the addressing and the hash *)
  Theorem finish_plain c a m0 m o : finish (no_prefs c) a m0 = Ok (m, o) ->
    add_data md5 py_str_float a (c_build_map c) m0 = Ok m.
  Proof.
    unfold Message.finish, no_prefs. simpl.
    destruct (add_data md5 py_str_float a (c_build_map c) m0) as [m1| |]; simpl; try discriminate.
    destruct (dump_match _ m1) as [[|]| |]; simpl; try discriminate.
    - destruct (to_tree m1); simpl; try discriminate. intros E; inversion E; reflexivity.
    - intros E; inversion E; reflexivity.
  Qed.
End TailProofs.

(* ================================================================== C15 *)
(* ---- zstr <-> bytes *)
Lemma fold_bytes_lower b : bytes_ok b = true -> forall a0, 1 <= a0 ->
  a0 * 2 ^ (Z.of_nat (length b)) <= fold_left (fun a x => a * 256 + x) b a0.
Proof.
  induction b as [|x b IH]; intros Hb a0 Ha.
  - simpl. lia.
  - simpl in Hb. apply andb_true_iff in Hb. destruct Hb as [Hx Hb]. unfold byte_ok in Hx.
    apply andb_true_iff in Hx. destruct Hx as [Hx1 Hx2]. apply Z.leb_le in Hx1. apply Z.ltb_lt in Hx2.
    change (fold_left (fun a x => a * 256 + x) (x :: b) a0) with (fold_left (fun a x => a * 256 + x) b (a0 * 256 + x)).
    change (length (x :: b)) with (S (length b)). rewrite Nat2Z.inj_succ, Z.pow_succ_r by lia.
    assert (P : 0 < 2 ^ Z.of_nat (length b)) by (apply Z.pow_pos_nonneg; lia).
    eapply Z.le_trans; [| apply IH; [assumption | lia]]. nia.
Qed.

Lemma str_bytes_aux_S n z acc :
  str_bytes_aux (S n) z acc = if z <=? 1 then acc else str_bytes_aux n (z / 256) (z mod 256 :: acc).
Proof. reflexivity. Qed.

Lemma str_bytes_aux_fold b : bytes_ok b = true -> forall a0 acc k, 1 <= a0 ->
  str_bytes_aux (length b + k) (fold_left (fun a x => a * 256 + x) b a0) acc = str_bytes_aux k a0 (b ++ acc).
Proof.
  induction b as [|x b IH] using rev_ind; intros Hb a0 acc k Ha.
  - reflexivity.
  - unfold bytes_ok in Hb. rewrite forallb_app in Hb. apply andb_true_iff in Hb. destruct Hb as [Hb Hx].
    simpl in Hx. rewrite andb_true_r in Hx. unfold byte_ok in Hx.
    apply andb_true_iff in Hx. destruct Hx as [Hx1 Hx2]. apply Z.leb_le in Hx1. apply Z.ltb_lt in Hx2.
    rewrite fold_left_app. simpl fold_left at 1.
    set (v := fold_left (fun a x => a * 256 + x) b a0).
    assert (Hv : 1 <= v).
    { pose proof (fold_bytes_lower b Hb a0 Ha) as L. fold v in L.
      assert (0 < 2 ^ Z.of_nat (length b)) by (apply Z.pow_pos_nonneg; lia). nia. }
    rewrite app_length. simpl length. replace (length b + 1 + k)%nat with (S (length b + k)) by lia.
    rewrite str_bytes_aux_S.
    destruct (v * 256 + x <=? 1) eqn:E; [apply Z.leb_le in E; lia|].
    replace ((v * 256 + x) / 256) with v by (Z.div_mod_to_equations; lia).
    replace ((v * 256 + x) mod 256) with x by (Z.div_mod_to_equations; lia).
    unfold v. rewrite IH by assumption. rewrite <- app_assoc. reflexivity.
Qed.

Theorem str_bytes_roundtrip b : bytes_ok b = true -> str_bytes (bytes_str b) = b.
Proof.
  intros Hb. unfold str_bytes, bytes_str. set (z := fold_left (fun a x => a * 256 + x) b 1).
  pose proof (fold_bytes_lower b Hb 1 ltac:(lia)) as L. rewrite Z.mul_1_l in L. fold z in L.
  assert (P : 0 < 2 ^ Z.of_nat (length b)) by (apply Z.pow_pos_nonneg; lia).
  assert (Hz : 0 < z) by lia.
  assert (Hl : Z.of_nat (length b) <= Z.log2 z) by (apply Z.log2_le_pow2; assumption).
  replace (S (Z.to_nat (Z.log2 z))) with (length b + (S (Z.to_nat (Z.log2 z)) - length b))%nat by lia.
  unfold z. rewrite str_bytes_aux_fold by (assumption || lia). rewrite app_nil_r.
  match goal with |- str_bytes_aux ?k _ _ = _ => destruct k; reflexivity end.
Qed.

(* ---- renderings are byte strings *)
Lemma byte_ok_intro x : 0 <= x < 256 -> byte_ok x = true.
Proof. intros H. unfold byte_ok. apply andb_true_iff. split; [apply Z.leb_le | apply Z.ltb_lt]; lia. Qed.
Lemma hexd_ok n : 0 <= n < 16 -> byte_ok (hexd n) = true.
Proof. intros H. apply byte_ok_intro. unfold hexd. destruct (n <? 10) eqn:E; [apply Z.ltb_lt in E | apply Z.ltb_ge in E]; lia. Qed.
Lemma hex_bytes_ok b : bytes_ok b = true -> bytes_ok (hex_bytes b) = true.
Proof.
  induction b as [|x b IH]; intros H; [reflexivity|].
  change (bytes_ok (x :: b)) with (byte_ok x && bytes_ok b) in H.
  apply andb_true_iff in H. destruct H as [Hx Hb]. unfold byte_ok in Hx. apply andb_true_iff in Hx.
  destruct Hx as [H1 H2]. apply Z.leb_le in H1. apply Z.ltb_lt in H2.
  change (hex_bytes (x :: b)) with ([hexd (x / 16); hexd (x mod 16)] ++ hex_bytes b).
  unfold bytes_ok. rewrite forallb_app. fold (bytes_ok (hex_bytes b)). rewrite (IH Hb).
  change (forallb byte_ok [hexd (x / 16); hexd (x mod 16)]) with (byte_ok (hexd (x / 16)) && (byte_ok (hexd (x mod 16)) && true)).
  assert (A : 0 <= x / 16 < 16) by (Z.div_mod_to_equations; lia).
  assert (B : 0 <= x mod 16 < 16) by (Z.div_mod_to_equations; lia).
  rewrite (hexd_ok _ A), (hexd_ok _ B). reflexivity.
Qed.
Lemma dig2_ok n : 0 <= n < 100 -> bytes_ok (dig2 n) = true.
Proof.
  intros H. unfold dig2.
  assert (A : 0 <= 48 + n / 10 < 256) by (Z.div_mod_to_equations; lia).
  assert (B : 0 <= 48 + n mod 10 < 256) by (Z.div_mod_to_equations; lia).
  change (bytes_ok [48 + n / 10; 48 + n mod 10]) with (byte_ok (48 + n / 10) && (byte_ok (48 + n mod 10) && true)).
  rewrite (byte_ok_intro _ A), (byte_ok_intro _ B). reflexivity.
Qed.
Lemma dig4_ok n : 0 <= n < 10000 -> bytes_ok (dig4 n) = true.
Proof.
  intros H. unfold dig4.
  assert (A : 0 <= 48 + n / 1000 < 256) by (Z.div_mod_to_equations; lia).
  assert (B : 0 <= 48 + (n / 100) mod 10 < 256) by (Z.div_mod_to_equations; lia).
  assert (C : 0 <= 48 + (n / 10) mod 10 < 256) by (Z.div_mod_to_equations; lia).
  assert (D : 0 <= 48 + n mod 10 < 256) by (Z.div_mod_to_equations; lia).
  change (bytes_ok [48 + n / 1000; 48 + (n / 100) mod 10; 48 + (n / 10) mod 10; 48 + n mod 10])
    with (byte_ok (48 + n / 1000) && (byte_ok (48 + (n / 100) mod 10) && (byte_ok (48 + (n / 10) mod 10) && (byte_ok (48 + n mod 10) && true)))).
  rewrite (byte_ok_intro _ A), (byte_ok_intro _ B), (byte_ok_intro _ C), (byte_ok_intro _ D). reflexivity.
Qed.
Lemma bytes_ok_app a b : bytes_ok (a ++ b) = bytes_ok a && bytes_ok b.
Proof. apply forallb_app. Qed.

Lemma civil_md_bounds days : let '(y, m, d) := civil days in 1 <= m <= 12 /\ 1 <= d <= 31.
Proof.
  unfold civil.
  set (z := days + 719468). set (doe := z mod 146097).
  assert (Hdoe : 0 <= doe < 146097) by (apply Z.mod_pos_bound; lia).
  clearbody doe. clear z.
  set (yoe := (doe - doe / 1460 + doe / 36524 - doe / 146096) / 365).
  set (doy := doe - (365 * yoe + yoe / 4 - yoe / 100)).
  assert (Hdoy : 0 <= doy <= 365) by (unfold doy, yoe; Z.div_mod_to_equations; lia).
  clearbody doy.
  set (mp := (5 * doy + 2) / 153).
  assert (Hmp : 0 <= mp <= 11) by (unfold mp; Z.div_mod_to_equations; lia).
  assert (Hd : 1 <= doy - (153 * mp + 2) / 5 + 1 <= 31) by (unfold mp; Z.div_mod_to_equations; lia).
  clearbody mp.
  destruct (mp <? 10) eqn:E; [apply Z.ltb_lt in E | apply Z.ltb_ge in E]; split; lia.
Qed.

Lemma iso_date_ok d s : iso_date d = Ok s -> bytes_ok s = true.
Proof.
  unfold iso_date. pose proof (civil_md_bounds d) as B. destruct (civil d) as [[y m] dd].
  change ((if (1 <=? y) && (y <=? 9999) then Ok (dig4 y ++ [45] ++ dig2 m ++ [45] ++ dig2 dd) else Unmodelled) = Ok s
          -> bytes_ok s = true).
  destruct ((1 <=? y) && (y <=? 9999)) eqn:E; [|discriminate]. intros H.
  assert (Hs : dig4 y ++ [45] ++ dig2 m ++ [45] ++ dig2 dd = s) by congruence. subst s.
  apply andb_true_iff in E. destruct E as [E1 E2]. apply Z.leb_le in E1. apply Z.leb_le in E2.
  rewrite !bytes_ok_app. rewrite dig4_ok, !dig2_ok by lia. reflexivity.
Qed.
Lemma iso_time_ok t s : iso_time t = Ok s -> bytes_ok s = true.
Proof.
  unfold iso_time. destruct ((0 <=? t) && (t <? 86400)) eqn:E; [|discriminate]. intros H.
  assert (Hs : dig2 (t / 3600) ++ [58] ++ dig2 ((t mod 3600) / 60) ++ [58] ++ dig2 (t mod 60) = s) by congruence. subst s.
  apply andb_true_iff in E. destruct E as [E1 E2]. apply Z.leb_le in E1. apply Z.ltb_lt in E2.
  rewrite !bytes_ok_app. rewrite !dig2_ok by (Z.div_mod_to_equations; lia). reflexivity.
Qed.

(* ---- leaves *)
Definition text_ok (v : value) : bool := match v with VText s | VBytes s => bytes_ok s | _ => true end.

Lemma value_roundtrip v t : text_ok v = true -> value_tree v = Ok t ->
  exists v', render v = Ok v' /\ t_value t = Ok v'.
Proof.
  destruct v; simpl; intros W H.
  - inversion H; subst. eexists; split; reflexivity.
  - unfold j_int in H. destruct (_ && _); inversion H; subst. eexists; split; reflexivity.
  - inversion H; subst. unfold j_float. destruct (Message.is_finite f); eexists; split; reflexivity.
  - inversion H; subst. simpl. rewrite str_bytes_roundtrip by exact W. eexists; split; reflexivity.
  - inversion H; subst. simpl. rewrite str_bytes_roundtrip by (apply hex_bytes_ok; exact W). eexists; split; reflexivity.
  - destruct (iso_date days) as [s| |] eqn:E; simpl in H; inversion H; subst. simpl.
    rewrite str_bytes_roundtrip by (eapply iso_date_ok; eassumption). eexists; split; reflexivity.
  - destruct (iso_time secs) as [s| |] eqn:E; simpl in H; inversion H; subst. simpl.
    rewrite str_bytes_roundtrip by (eapply iso_time_ok; eassumption). eexists; split; reflexivity.
Qed.

Lemma t_ostr_j_ostr o : t_ostr (j_ostr o) = Ok o.
Proof. destruct o; reflexivity. Qed.
Definition pq_parsed (q : pqv) : pqv := match q with PqNone => PqNone | PqEnum n | PqList n => PqList n end.
Definition ty_parsed (t : tyv) : tyv := match t with TyEnum n | TyList n => TyList n end.
Lemma t_pq_tree q : t_pq (pq_tree q) = Ok (pq_parsed q).
Proof. destruct q; reflexivity. Qed.
Lemma t_ty_tree t : t_ty (ty_tree t) = Ok (ty_parsed t).
Proof. destruct t; reflexivity. Qed.

(* ---- fields *)
Definition field_wf (f : field) : bool := bytes_ok (f_id f) && text_ok (f_value f) && text_ok (f_raw f).
(* a field and its image under to_json / from_json *)
Definition field_rt (f f' : field) : Prop :=
  f_id f' = f_id f /\ f_name f' = f_name f /\ f_descr f' = f_descr f /\ f_unit f' = f_unit f /\
  render (f_value f) = Ok (f_value f') /\ render (f_raw f) = Ok (f_raw f') /\
  f_pq f' = pq_parsed (f_pq f) /\ f_type f' = ty_parsed (f_type f) /\ f_pk f' = f_pk f.

Lemma field_obj_of a1 a2 a3 a4 a5 a6 a7 a8 a9 :
  field_of_tree (JObj [(k_id, a1); (k_name, a2); (k_description, a3); (k_unit, a4); (k_value, a5); (k_raw_value, a6);
                       (k_pq, a7); (k_type, a8); (k_pk, a9)])
  = do i <- t_str a1; do n <- t_ostr a2; do d <- t_ostr a3; do u <- t_ostr a4; do v <- t_value a5;
    do r <- t_value a6; do q <- t_pq a7; do ty <- t_ty a8; do pk <- t_bool a9;
    Ok (mkField (str_bytes i) n d u v r q ty pk).
Proof. reflexivity. Qed.

Lemma field_roundtrip f t : field_wf f = true -> field_tree f = Ok t ->
  exists f', field_of_tree t = Ok f' /\ field_rt f f'.
Proof.
  unfold field_wf, field_tree. intros W H.
  apply andb_true_iff in W. destruct W as [W Wr]. apply andb_true_iff in W. destruct W as [Wi Wv].
  apply bind_ok in H. destruct H as [v [Hv H]]. apply bind_ok in H. destruct H as [r [Hr H]].
  inversion H; subst; clear H.
  destruct (value_roundtrip _ _ Wv Hv) as [v' [Rv Tv]]. destruct (value_roundtrip _ _ Wr Hr) as [r' [Rr Tr]].
  exists (mkField (f_id f) (f_name f) (f_descr f) (f_unit f) v' r' (pq_parsed (f_pq f)) (ty_parsed (f_type f)) (f_pk f)).
  split; [| unfold field_rt; simpl; repeat split; assumption].
  rewrite field_obj_of. rewrite !t_ostr_j_ostr, Tv, Tr, t_pq_tree, t_ty_tree.
  unfold t_str, t_bool, bind. rewrite str_bytes_roundtrip by exact Wi. reflexivity.
Qed.

(* ---- messages *)
Lemma fields_roundtrip fs : forall ts, forallb field_wf fs = true -> mapM field_tree fs = Ok ts ->
  exists fs', mapM field_of_tree ts = Ok fs' /\ Forall2 field_rt fs fs'.
Proof.
  induction fs as [|f fs IH]; simpl; intros ts W H.
  - inversion H; subst. exists []. split; [reflexivity | constructor].
  - apply andb_true_iff in W. destruct W as [Wf Wfs].
    apply bind_ok in H. destruct H as [t [Ht H]]. apply bind_ok in H. destruct H as [ts' [Hts H]].
    inversion H; subst; clear H.
    destruct (field_roundtrip _ _ Wf Ht) as [f' [Hf R]]. destruct (IH _ Wfs Hts) as [fs' [Hfs F]].
    exists (f' :: fs'). simpl. rewrite Hf, Hfs. split; [reflexivity | constructor; assumption].
Qed.

Lemma j_int_inv z t : j_int z = Ok t -> t = JInt z.
Proof. unfold j_int. destruct (_ && _); intros H; inversion H; reflexivity. Qed.

Lemma iso_obj_of a1 a2 a3 a4 a5 a6 a7 a8 a9 :
  iso_of_tree (JObj [(k_name, a1); (k_unique_number, a2); (k_manufacturer_code, a3); (k_device_instance, a4);
                     (k_device_function, a5); (k_device_class, a6); (k_system_instance, a7); (k_industry_group, a8);
                     (k_aac, a9)])
  = do n <- t_int a1; do u <- t_int a2; do m <- t_ostr a3; do d <- t_int a4; do f <- t_ostr a5; do c <- t_ostr a6;
    do s <- t_int a7; do g <- t_ostr a8; do a <- t_bool a9; Ok (IsoDict (mkIso n u m d f c s g a)).
Proof. reflexivity. Qed.

Definition iso_parsed (i : isov) : isov := match i with IsoNone => IsoNone | IsoObj x | IsoDict x => IsoDict x end.
Lemma iso_roundtrip i t : iso_tree i = Ok t -> iso_of_tree t = Ok (iso_parsed i).
Proof.
  assert (G : forall x, iso_fields x = Ok t -> iso_of_tree t = Ok (IsoDict x)).
  { intros x H. unfold iso_fields in H.
    apply bind_ok in H. destruct H as [n [Hn H]]. apply bind_ok in H. destruct H as [u [Hu H]].
    apply bind_ok in H. destruct H as [d [Hd H]]. apply bind_ok in H. destruct H as [s [Hs H]].
    apply j_int_inv in Hn, Hu, Hd, Hs. subst. inversion H; subst; clear H.
    rewrite iso_obj_of. rewrite !t_ostr_j_ostr. simpl. destruct x; reflexivity. }
  destruct i; simpl; intros H; [inversion H; reflexivity | apply G; exact H | apply G; exact H].
Qed.

Lemma ttl_roundtrip x t : ttl_tree x = Ok t -> exists x', t_ttl t = Ok x'.
Proof.
  assert (G : forall f, exists x', t_ttl (j_float f) = Ok x').
  { intros f. unfold j_float. destruct (Message.is_finite f); eexists; reflexivity. }
  destruct x; simpl; intros H.
  - inversion H. eexists; reflexivity.
  - destruct (exact_int (n * 1000)); inversion H. apply G.
  - inversion H. apply G.
Qed.
Lemma raw_roundtrip r : exists r', t_raw (raw_tree r) = Ok r'.
Proof. destruct r; eexists; reflexivity. Qed.

Lemma msg_obj_of a1 a2 a3 a4 a5 a6 a7 a8 a9 a10 a11 a12 :
  of_tree (JObj [(k_PGN, a1); (k_id, a2); (k_description, a3); (k_ttl, a4); (k_fields, a5); (k_source, a6);
                 (k_destination, a7); (k_priority, a8); (k_timestamp, a9); (k_source_iso_name, a10); (k_hash, a11);
                 (k_raw_can_data, a12)])
  = do pgn <- t_int a1; do i <- t_str a2; do de <- t_str a3; do ttl <- t_ttl a4;
    do fs <- match a5 with JList l => mapM field_of_tree l | _ => Unmodelled end;
    do src <- t_int a6; do dst <- t_int a7; do prio <- t_int a8; do ts <- t_str a9;
    do iso <- iso_of_tree a10; do h <- t_ostr a11; do raw <- t_raw a12;
    Ok (mkMsg pgn (str_bytes i) de ttl fs src dst prio ts iso h raw).
Proof. reflexivity. Qed.

Definition msg_wf (m : msg) : bool := bytes_ok (m_id m) && forallb field_wf (m_fields m).

(* from_json (to_json m), above the text layer *)
Theorem to_of_tree m t : msg_wf m = true -> to_tree m = Ok t ->
  exists m', of_tree t = Ok m' /\
    m_pgn m' = m_pgn m /\ m_id m' = m_id m /\ m_descr m' = m_descr m /\
    m_src m' = m_src m /\ m_dst m' = m_dst m /\ m_prio m' = m_prio m /\ m_ts m' = m_ts m /\
    m_hash m' = m_hash m /\ m_iso m' = iso_parsed (m_iso m) /\
    Forall2 field_rt (m_fields m) (m_fields m').
Proof.
  unfold msg_wf, to_tree. intros W H. apply andb_true_iff in W. destruct W as [Wi Wf].
  apply bind_ok in H. destruct H as [pgn [Hpgn H]]. apply bind_ok in H. destruct H as [ttl [Httl H]].
  apply bind_ok in H. destruct H as [fs [Hfs H]]. apply bind_ok in H. destruct H as [src [Hsrc H]].
  apply bind_ok in H. destruct H as [dst [Hdst H]]. apply bind_ok in H. destruct H as [prio [Hprio H]].
  apply bind_ok in H. destruct H as [iso [Hiso H]]. inversion H; subst; clear H.
  apply j_int_inv in Hpgn, Hsrc, Hdst, Hprio. subst.
  destruct (ttl_roundtrip _ _ Httl) as [ttl' Tt]. destruct (fields_roundtrip _ _ Wf Hfs) as [fs' [Tf F]].
  destruct (raw_roundtrip (m_raw m)) as [raw' Tr]. pose proof (iso_roundtrip _ _ Hiso) as Ti.
  rewrite msg_obj_of. rewrite Tt, Tf, Ti, t_ostr_j_ostr, Tr. unfold t_int, t_str, bind.
  rewrite str_bytes_roundtrip by exact Wi. eexists. split; [reflexivity|]. simpl. repeat split. exact F.
Qed.

(* values that survive exactly: everything but binary, dates, times and non-finite doubles *)
Definition exact_kind (v : value) : bool :=
  match v with VNone | VInt _ | VText _ => true | VFloat f => Message.is_finite f | _ => false end.
Lemma render_exact v : exact_kind v = true -> render v = Ok v.
Proof. destruct v; simpl; intros H; try discriminate; try reflexivity. rewrite H. reflexivity. Qed.
Lemma render_finite v : value_finite v = true ->
  match v with VBytes _ | VDate _ | VTime _ => True | _ => render v = Ok v end.
Proof. destruct v; simpl; intros H; auto. rewrite H. reflexivity. Qed.

(* ---- re-encoding: an encoder that reads, per field, only components that survive exactly *)
Section Reencode.
  Variable enc : msg -> result bytes.
  Variable reads : field -> bool * bool.            (* (reads value, reads raw value), as a function of the field found *)

  Definition field_agree (f f' : field) : Prop :=
    f_id f' = f_id f /\ (fst (reads f) = true -> f_value f' = f_value f) /\ (snd (reads f) = true -> f_raw f' = f_raw f).
  Definition agree (m m' : msg) : Prop :=
    m_pgn m' = m_pgn m /\ m_src m' = m_src m /\ m_dst m' = m_dst m /\ m_prio m' = m_prio m /\
    Forall2 field_agree (m_fields m) (m_fields m').
  (* what "reads only" means *)
  Hypothesis enc_reads : forall m m', agree m m' -> enc m' = enc m.

  Definition reads_exact (f : field) : bool :=
    (if fst (reads f) then exact_kind (f_value f) else true) && (if snd (reads f) then exact_kind (f_raw f) else true).

  Theorem reencode m t : msg_wf m = true -> to_tree m = Ok t -> forallb reads_exact (m_fields m) = true ->
    exists m', of_tree t = Ok m' /\ enc m' = enc m.
  Proof.
    intros W H R. destruct (to_of_tree m t W H) as [m' [Ho [E1 [_ [_ [E2 [E3 [E4 [_ [_ [_ F]]]]]]]]]]].
    exists m'. split; [exact Ho|]. apply enc_reads. unfold agree. repeat split; try assumption.
    revert R F. generalize (m_fields m) (m_fields m'). intros l l' R F. induction F as [|f f' l l' Hf _ IH]; [constructor|].
    simpl in R. apply andb_true_iff in R. destruct R as [Rf Rl]. constructor; [|apply IH; exact Rl].
    unfold reads_exact in Rf. apply andb_true_iff in Rf. destruct Rf as [Rv Rr].
    destruct Hf as [Hid [_ [_ [_ [Hv [Hr _]]]]]]. unfold field_agree. split; [exact Hid|]. split; intros Q; rewrite Q in *.
    - rewrite (render_exact _ Rv) in Hv. congruence.
    - rewrite (render_exact _ Rr) in Hr. congruence.
  Qed.
End Reencode.

(* the library's generated encoders (python.PGNs.j2 233-247): NUMBER, PGN, FLOAT, RESERVED read the value;
   LOOKUP, DATE, TIME, DURATION read the raw value and fall back to the value only when it is None *)
Definition ty_num (t : tyv) : Z := match t with TyEnum n | TyList n => n end.
Definition lib_reads (f : field) : bool * bool :=
  let n := ty_num (f_type f) in
  if (n =? 1) || (n =? 13) || (n =? 2) || (n =? 19) then (true, false)
  else if (n =? 4) || (n =? 12) || (n =? 10) || (n =? 11)
       then (match f_raw f with VNone => true | _ => false end, true)
       else (false, false).

(* ---- dump *)
Section DumpProofs.
  Variable md5 : bytes -> zstr.
  Variable py_str_float : float -> bytes.
  Variable py_round_ndigits : float -> Z -> float.
  Variable math_degrees : float -> float.
  Notation finish := (finish md5 py_str_float py_round_ndigits math_degrees).
  Notation run := (run md5 py_str_float py_round_ndigits math_degrees).

  (* the lines a list of returned messages should have produced *)
  Definition dump_of (c : dcfg) (ms : list msg) : list jtree :=
    flat_map (fun m => match dump_match c m with
                       | Ok true => match to_tree m with Ok t => [t] | _ => [] end
                       | _ => [] end) ms.
  (* every returned message that matches the filter has a JSON line (nothing is silently skipped) *)
  Definition dumpable (c : dcfg) (m : msg) : Prop :=
    exists b, dump_match c m = Ok b /\ (b = true -> exists t, to_tree m = Ok t).

  Theorem run_dump c evs : let '(ms, ls) := run c evs in ls = dump_of c ms /\ Forall (dumpable c) ms.
  Proof.
    induction evs as [|[a m0] evs IH]; simpl; [split; [reflexivity | constructor]|].
    destruct (run c evs) as [ms ls]. destruct IH as [-> IH2].
    destruct (finish c a m0) as [[m [t|]]| |] eqn:F; try (split; [reflexivity | assumption]).
    - unfold Message.finish in F.
      apply bind_ok in F. destruct F as [m1 [_ F]]. apply bind_ok in F. destruct F as [m2 [_ F]].
      apply bind_ok in F. destruct F as [dm [D F]]. destruct dm.
      + apply bind_ok in F. destruct F as [t' [T F]]. inversion F; subst.
        split; [simpl; rewrite D, T; reflexivity|].
        constructor; [|exact IH2]. exists true. split; [exact D|]. intros _. eauto.
      + inversion F.
    - unfold Message.finish in F.
      apply bind_ok in F. destruct F as [m1 [_ F]]. apply bind_ok in F. destruct F as [m2 [_ F]].
      apply bind_ok in F. destruct F as [dm [D F]]. destruct dm.
      + apply bind_ok in F. destruct F as [t' [T F]]. inversion F.
      + inversion F; subst. split; [simpl; rewrite D; reflexivity|].
        constructor; [|exact IH2]. exists false. split; [exact D|]. discriminate.
  Qed.
End DumpProofs.

(* the dump filter: off | empty filter | PGN listed | lower-cased id listed *)
Theorem dump_match_spec c m b : dump_match c m = Ok b ->
  b = c_dump_on c && ((zlen (c_dump_pgns c) + zlen (c_dump_ids c) =? 0) || existsb (Z.eqb (m_pgn m)) (c_dump_pgns c) ||
                      existsb (bytes_eqb (map ascii_lower_b (m_id m))) (c_dump_ids c)).
Proof.
  unfold dump_match. destruct (c_dump_on c); simpl; [|intros H; inversion H; reflexivity].
  destruct (zlen (c_dump_pgns c) + zlen (c_dump_ids c) =? 0); simpl; [intros H; inversion H; reflexivity|].
  destruct (existsb (Z.eqb (m_pgn m)) (c_dump_pgns c)); simpl; [intros H; inversion H; reflexivity|].
  unfold py_lower. destruct (forallb _ (m_id m)); simpl; intros H; inversion H; reflexivity.
Qed.

(* ---- the statement of C15 on values, and why the unguarded form is false (F-nan-json) *)
Definition same_upto_rendering (v v' : value) : Prop :=
  match v with
  | VBytes b => v' = VText (hex_bytes b)
  | VDate d => exists s, iso_date d = Ok s /\ v' = VText s
  | VTime t => exists s, iso_time t = Ok s /\ v' = VText s
  | _ => v' = v
  end.
Lemma render_same v v' : value_finite v = true -> render v = Ok v' -> same_upto_rendering v v'.
Proof.
  destruct v; simpl; intros Hf H; try (inversion H; reflexivity).
  - rewrite Hf in H. inversion H; reflexivity.
  - destruct (iso_date days) as [s| |]; simpl in H; inversion H. eauto.
  - destruct (iso_time secs) as [s| |]; simpl in H; inversion H. eauto.
Qed.

Definition field_same (f f' : field) : Prop :=
  f_id f' = f_id f /\ same_upto_rendering (f_value f) (f_value f') /\ same_upto_rendering (f_raw f) (f_raw f').
Definition fields_statement (guard : msg -> bool) : Prop :=
  forall m t, guard m = true -> msg_wf m = true -> to_tree m = Ok t ->
  exists m', of_tree t = Ok m' /\
    m_pgn m' = m_pgn m /\ m_id m' = m_id m /\ m_src m' = m_src m /\ m_dst m' = m_dst m /\ m_prio m' = m_prio m /\
    Forall2 field_same (m_fields m) (m_fields m').

Theorem fields_guarded : fields_statement json_ok.
Proof.
  intros m t G W H. destruct (to_of_tree m t W H) as [m' [Ho [E1 [E2 [_ [E3 [E4 [E5 [_ [_ [_ F]]]]]]]]]]].
  exists m'. repeat split; try assumption.
  unfold json_ok in G. revert G F. generalize (m_fields m) (m_fields m'). intros l l' G F.
  induction F as [|f f' l l' Hf _ IH]; [constructor|]. simpl in G. apply andb_true_iff in G. destruct G as [Gf Gl].
  apply andb_true_iff in Gf. destruct Gf as [Gv Gr]. constructor; [|apply IH; exact Gl].
  destruct Hf as [Hid [_ [_ [_ [Hv [Hr _]]]]]]. unfold field_same. repeat split.
  - exact Hid. - apply render_same; assumption. - apply render_same; assumption.
Qed.

Definition nan_msg : msg :=
  mkMsg 129045 [117] 1 TtlNone [mkField [114] None None None (VFloat nan) (VFloat nan) PqNone (TyEnum 2) false]
        1 255 2 1 IsoNone None RawNone.
Theorem fields_unguarded_false : ~ fields_statement (fun _ => true).
Proof.
  intros H. destruct (H nan_msg (JObj [(k_PGN, JInt 129045); (k_id, JStr (bytes_str [117])); (k_description, JStr 1);
      (k_ttl, JNull); (k_fields, JList [JObj [(k_id, JStr (bytes_str [114])); (k_name, JNull); (k_description, JNull);
      (k_unit, JNull); (k_value, JNull); (k_raw_value, JNull); (k_pq, JNull); (k_type, JList [JInt 2]); (k_pk, JBool false)]]);
      (k_source, JInt 1); (k_destination, JInt 255); (k_priority, JInt 2); (k_timestamp, JStr 1);
      (k_source_iso_name, JNull); (k_hash, JNull); (k_raw_can_data, JNull)]) eq_refl eq_refl)
    as [m' [Ho [_ [_ [_ [_ [_ F]]]]]]].
  { vm_compute. reflexivity. }
  vm_compute in Ho. inversion Ho; subst; clear Ho. simpl in F. inversion F as [|? ? ? ? Hf _]; subst.
  destruct Hf as [_ [Hv _]]. simpl in Hv. discriminate.
Qed.
