(* StreamProofs.v — lemmas for C12 (Stream.v): framing functions under ++, the reader's reads,
   the invariant of the receive LTS, chunking independence and delivery. *)
From NV Require Import Base Stream.

(* ------------------------------------------------------------------ lists *)
Lemma firstn_skipn_len {A} n (l : list A) : (n <= length l)%nat -> length (firstn n l) = n.
Proof. intros. rewrite firstn_length. lia. Qed.

Lemma firstn_app_ge {A} n (b c : list A) : (n <= length b)%nat -> firstn n (b ++ c) = firstn n b.
Proof.
  intros H. rewrite firstn_app. replace (n - length b)%nat with O by lia. simpl. apply app_nil_r.
Qed.

Lemma skipn_app_ge {A} n (b c : list A) : (n <= length b)%nat -> skipn n (b ++ c) = skipn n b ++ c.
Proof.
  intros H. rewrite skipn_app. replace (n - length b)%nat with O by lia. reflexivity.
Qed.

(* ------------------------------------------------------------------ 13-byte blocks *)
Lemma blocks_fuel_indep n : (0 < n)%nat -> forall f1 f2 s,
  (length s <= f1)%nat -> (length s <= f2)%nat -> blocks_fuel f1 n s = blocks_fuel f2 n s.
Proof.
  intros Hn. induction f1 as [|f1 IH]; intros f2 s H1 H2.
  - destruct s; [|simpl in H1; lia]. destruct f2; simpl; [reflexivity|].
    destruct n; [lia|]. reflexivity.
  - destruct f2 as [|f2].
    + destruct s; [|simpl in H2; lia]. simpl. destruct n; [lia|]. reflexivity.
    + simpl. destruct (length s <? n)%nat eqn:E; [reflexivity|].
      apply Nat.ltb_ge in E. f_equal. apply IH; rewrite skipn_length; lia.
Qed.

Lemma frame_ebyte_short s : (length s < 13)%nat -> frame_ebyte s = [].
Proof.
  intros H. unfold frame_ebyte. destruct (length s) eqn:E; [reflexivity|].
  simpl. rewrite E. apply Nat.ltb_lt in H. rewrite H. reflexivity.
Qed.

Lemma blocks_fuel_app f n p s : (0 < n)%nat -> length p = n ->
  blocks_fuel (S f) n (p ++ s) = p :: blocks_fuel f n s.
Proof.
  intros Hn H. cbn [blocks_fuel]. rewrite app_length.
  replace (length p + length s <? n)%nat with false by (symmetry; apply Nat.ltb_ge; lia).
  rewrite firstn_app_ge by lia. rewrite skipn_app_ge by lia. subst n.
  rewrite firstn_all, skipn_all. reflexivity.
Qed.

Lemma frame_ebyte_app p s : length p = 13%nat -> frame_ebyte (p ++ s) = p :: frame_ebyte s.
Proof.
  intros H. unfold frame_ebyte. rewrite app_length, H.
  change (13 + length s)%nat with (S (12 + length s)).
  rewrite blocks_fuel_app by (try lia; exact H).
  f_equal. apply blocks_fuel_indep; lia.
Qed.

Lemma frame_ebyte_concat ps s : Forall (fun p => length p = 13%nat) ps ->
  frame_ebyte (concat ps ++ s) = ps ++ frame_ebyte s.
Proof.
  induction 1 as [|p ps Hp _ IH]; [reflexivity|].
  simpl. rewrite <- app_assoc. rewrite frame_ebyte_app by exact Hp. f_equal. exact IH.
Qed.

(* ------------------------------------------------------------------ lines *)
Lemma find_lf_none_app l b : find_lf l = None -> find_lf (l ++ [b]) = if b =? 10 then Some (length l) else None.
Proof.
  induction l as [|a l IH]; simpl; intros H.
  - destruct (b =? 10); reflexivity.
  - destruct (a =? 10); [discriminate|]. destruct (find_lf l); [discriminate|].
    rewrite IH by reflexivity. destruct (b =? 10); reflexivity.
Qed.

(* the first LF of a buffer does not move when bytes are appended *)
Lemma find_lf_app b c i : find_lf b = Some i -> find_lf (b ++ c) = Some i.
Proof.
  revert i. induction b as [|a b IH]; simpl; intros i H; [discriminate|].
  destruct (a =? 10); [exact H|].
  destruct (find_lf b) as [j|]; [|discriminate]. rewrite (IH j eq_refl). exact H.
Qed.

Lemma find_lf_some l i : find_lf l = Some i ->
  (i < length l)%nat /\ find_lf (firstn i l) = None /\ nth i l 0 = 10 /\
  firstn (i + 1) l = firstn i l ++ [10].
Proof.
  rewrite Nat.add_1_r.
  revert i. induction l as [|a l IH]; simpl; intros i H; [discriminate|].
  destruct (a =? 10) eqn:E.
  - inversion H; subst. apply Z.eqb_eq in E. subst. simpl. repeat split; try lia; reflexivity.
  - destruct (find_lf l) as [j|]; [|discriminate]. inversion H; subst.
    destruct (IH j eq_refl) as (A & B & C & Dd). simpl. rewrite E, B. repeat split; try lia; try assumption.
    simpl in Dd. rewrite Dd. reflexivity.
Qed.

Lemma find_lf_none_In l : find_lf l = None -> ~ In 10 l.
Proof.
  induction l as [|a l IH]; simpl; intros H; [tauto|].
  destruct (a =? 10) eqn:E; [discriminate|]. destruct (find_lf l); [discriminate|].
  apply Z.eqb_neq in E. intros [X|X]; [congruence | exact (IH eq_refl X)].
Qed.

Definition wf_line (p : list Z) : Prop := exists l, p = l ++ [10] /\ find_lf l = None.

Lemma lines_acc_nolf cur l : find_lf l = None -> lines_acc cur l = [].
Proof.
  revert cur. induction l as [|a l IH]; simpl; intros cur H; [reflexivity|].
  destruct (a =? 10); [discriminate|]. destruct (find_lf l); [discriminate|]. apply IH. reflexivity.
Qed.

Lemma lines_acc_app cur l s : find_lf l = None ->
  lines_acc cur (l ++ 10 :: s) = (cur ++ l ++ [10]) :: lines_acc [] s.
Proof.
  revert cur. induction l as [|a l IH]; simpl; intros cur H; [reflexivity|].
  destruct (a =? 10); [discriminate|]. destruct (find_lf l); [discriminate|].
  rewrite IH by reflexivity. rewrite <- app_assoc. reflexivity.
Qed.

Lemma split_lines_nolf l : find_lf l = None -> split_lines l = [].
Proof. apply lines_acc_nolf. Qed.

Lemma split_lines_app p s : wf_line p -> split_lines (p ++ s) = p :: split_lines s.
Proof.
  intros (l & -> & H). unfold split_lines. rewrite <- app_assoc. simpl.
  rewrite lines_acc_app by exact H. reflexivity.
Qed.

Lemma split_lines_spec l s : find_lf l = None -> split_lines ((l ++ [10]) ++ s) = (l ++ [10]) :: split_lines s.
Proof. intros H. apply split_lines_app. exists l. split; [reflexivity | exact H]. Qed.

Lemma split_lines_concat ps s : Forall wf_line ps -> split_lines (concat ps ++ s) = ps ++ split_lines s.
Proof.
  induction 1 as [|p ps Hp _ IH]; [reflexivity|].
  simpl. rewrite <- app_assoc. rewrite split_lines_app by exact Hp. f_equal. exact IH.
Qed.

(* the line-length guard *)
Lemma short_acc_prefix limit a : forall n b, short_acc limit n (a ++ b) = true -> short_acc limit n a = true.
Proof.
  induction a as [|x a IH]; simpl; intros n b H.
  - revert n H. induction b as [|y b IHb]; simpl; intros n H; [exact H|].
    destruct (y =? 10).
    + apply andb_true_iff in H. tauto.
    + apply IHb in H. apply Z.leb_le in H. apply Z.leb_le. lia.
  - destruct (x =? 10).
    + apply andb_true_iff in H. destruct H as [H1 H2]. rewrite H1. simpl. eapply IH; eassumption.
    + eapply IH; eassumption.
Qed.

Lemma short_acc_line limit l : find_lf l = None -> forall n s,
  short_acc limit n (l ++ 10 :: s) = true -> n + zlen l <= limit /\ short_acc limit 0 s = true.
Proof.
  intros Hl. induction l as [|a l IH]; simpl; intros n s H.
  - apply andb_true_iff in H. destruct H as [H1 H2]. apply Z.leb_le in H1. unfold zlen. simpl. split; [lia|exact H2].
  - simpl in Hl. destruct (a =? 10); [discriminate|]. destruct (find_lf l) eqn:E; [discriminate|].
    destruct (IH eq_refl (n + 1) s H) as [A B]. split; [|exact B].
    unfold zlen in *. simpl length. rewrite Nat2Z.inj_succ. lia.
Qed.

Lemma short_acc_nolf limit l : find_lf l = None -> forall n, short_acc limit n l = true -> n + zlen l <= limit.
Proof.
  intros Hl. induction l as [|a l IH]; simpl; intros n H.
  - apply Z.leb_le in H. unfold zlen. simpl. lia.
  - simpl in Hl. destruct (a =? 10); [discriminate|]. destruct (find_lf l) eqn:E; [discriminate|].
    specialize (IH eq_refl (n + 1) H). unfold zlen in *. simpl length. rewrite Nat2Z.inj_succ. lia.
Qed.

Lemma lines_short_skip limit ps s : Forall wf_line ps ->
  lines_short limit (concat ps ++ s) = true -> lines_short limit s = true.
Proof.
  unfold lines_short. induction 1 as [|p ps (l & -> & Hl) _ IH]; simpl; intros H; [exact H|].
  rewrite <- !app_assoc in H. simpl in H. apply short_acc_line in H; [|exact Hl]. apply IH. tauto.
Qed.

Lemma ascii_ok_app a b : ascii_ok (a ++ b) = ascii_ok a && ascii_ok b.
Proof. apply forallb_app. Qed.

Lemma ascii_ok_concat_in ps p : ascii_ok (concat ps) = true -> In p ps -> ascii_ok p = true.
Proof.
  induction ps as [|x ps IH]; simpl; intros H I; [tauto|].
  rewrite ascii_ok_app in H. apply andb_true_iff in H. destruct I as [->|I]; [tauto|]. apply IH; tauto.
Qed.

(* ------------------------------------------------------------------ the reader's reads *)
Ltac inj H := injection H; clear H; intros; subst.

Lemma readexactly_pos n r : n <> O ->
  readexactly n r =
  if (length (buf r) <? n)%nat then
    if eof r then (RdIncomplete (buf r), set_buf r []) else (RdWait, r)
  else (RdData (firstn n (buf r)), set_buf r (skipn n (buf r))).
Proof. destruct n; [congruence | reflexivity]. Qed.

Lemma readexactly_data n r p r' : n <> O -> readexactly n r = (RdData p, r') ->
  buf r = p ++ buf r' /\ length p = n /\ eof r' = eof r /\ lim r' = lim r.
Proof.
  intros Hn. rewrite readexactly_pos by exact Hn. destruct (length (buf r) <? n)%nat eqn:E.
  - destruct (eof r); intros H; inversion H.
  - apply Nat.ltb_ge in E. intros H. inversion H; subst; clear H. unfold set_buf; cbn [buf eof lim].
    rewrite firstn_skipn. repeat split. apply firstn_skipn_len. exact E.
Qed.

Lemma readexactly_wait n r r' : n <> O -> readexactly n r = (RdWait, r') ->
  (length (buf r) < n)%nat /\ eof r = false /\ r' = r.
Proof.
  intros Hn. rewrite readexactly_pos by exact Hn. destruct (length (buf r) <? n)%nat eqn:E.
  - apply Nat.ltb_lt in E. destruct (eof r); intros H; inversion H. subst. auto.
  - intros H; inversion H.
Qed.

Lemma readexactly_other n r x r' : n <> O -> readexactly n r = (x, r') ->
  (forall p, x <> RdData p) -> x <> RdWait -> eof r = true /\ eof r' = true /\ lim r' = lim r.
Proof.
  intros Hn. rewrite readexactly_pos by exact Hn. destruct (length (buf r) <? n)%nat.
  - destruct (eof r) eqn:E; intros H; inversion H; subst; [auto|]. intros _ W. congruence.
  - intros H; inversion H; subst. intros W _. exfalso. eapply W. reflexivity.
Qed.

(* a completed readexactly does not depend on what arrives later *)
Lemma readexactly_stable n r p r' c : n <> O -> readexactly n r = (RdData p, r') ->
  readexactly n (feed r c) = (RdData p, feed r' c).
Proof.
  intros Hn. rewrite !readexactly_pos by exact Hn. unfold feed. cbn [buf eof lim set_buf].
  destruct (length (buf r) <? n)%nat eqn:E.
  - destruct (eof r); intros H; inversion H.
  - apply Nat.ltb_ge in E. intros H. inversion H; subst; clear H. cbn [buf eof lim set_buf].
    rewrite app_length. replace (length (buf r) + length c <? n)%nat with false
      by (symmetry; apply Nat.ltb_ge; lia).
    rewrite firstn_app_ge by lia. rewrite skipn_app_ge by lia. reflexivity.
Qed.

Lemma readline_data r raw r' : readline r = (RdData raw, r') -> eof r = false ->
  buf r = raw ++ buf r' /\ wf_line raw /\ zlen raw <= lim r + 1 /\ eof r' = eof r /\ lim r' = lim r.
Proof.
  unfold readline. intros H He. destruct (find_lf (buf r)) as [i|] eqn:F.
  - destruct (lim r <? Z.of_nat i) eqn:L; [discriminate H|]. inj H. unfold set_buf; cbn [buf eof lim].
    destruct (find_lf_some _ _ F) as (A & B & C & Dd).
    rewrite firstn_skipn. repeat split.
    + exists (firstn i (buf r)). split; assumption.
    + apply Z.ltb_ge in L. unfold zlen. rewrite firstn_length. lia.
  - destruct (lim r <? zlen (buf r)); [inversion H|]. rewrite He in H. inversion H.
Qed.

Lemma readline_wait r r' : readline r = (RdWait, r') -> find_lf (buf r) = None /\ r' = r.
Proof.
  unfold readline. destruct (find_lf (buf r)) as [i|].
  - destruct (lim r <? Z.of_nat i); intros H; inversion H.
  - destruct (lim r <? zlen (buf r)); [intros H; inversion H|].
    destruct (eof r); intros H; inversion H. auto.
Qed.

Lemma readline_limit r r' : readline r = (RdLimit, r') ->
  (exists i, find_lf (buf r) = Some i /\ lim r < Z.of_nat i) \/ (find_lf (buf r) = None /\ lim r < zlen (buf r)).
Proof.
  unfold readline. destruct (find_lf (buf r)) as [i|].
  - destruct (lim r <? Z.of_nat i) eqn:L; intros H; inversion H. left. exists i. apply Z.ltb_lt in L. auto.
  - destruct (lim r <? zlen (buf r)) eqn:L.
    + intros _. right. apply Z.ltb_lt in L. auto.
    + destruct (eof r); intros H; inversion H.
Qed.

Lemma readline_incomplete r p r' : readline r <> (RdIncomplete p, r').
Proof.
  unfold readline. destruct (find_lf (buf r)) as [i|].
  - destruct (lim r <? Z.of_nat i); intros H; inversion H.
  - destruct (lim r <? zlen (buf r)); [intros H; inversion H|]. destruct (eof r); intros H; inversion H.
Qed.

(* a completed readline does not depend on what arrives later *)
Lemma readline_stable r raw r' c : readline r = (RdData raw, r') -> eof r = false ->
  readline (feed r c) = (RdData raw, feed r' c).
Proof.
  unfold readline, feed; cbn [buf eof lim set_buf]. intros H He. destruct (find_lf (buf r)) as [i|] eqn:F.
  - rewrite (find_lf_app _ c _ F). destruct (find_lf_some _ _ F) as (A & _).
    destruct (lim r <? Z.of_nat i); [discriminate H|]. inj H. cbn [buf eof lim set_buf].
    rewrite firstn_app_ge by lia. rewrite skipn_app_ge by lia. reflexivity.
  - destruct (lim r <? zlen (buf r)); [inversion H|]. rewrite He in H. inversion H.
Qed.

Lemma readline_flags r x r' : readline r = (x, r') -> eof r' = eof r /\ lim r' = lim r.
Proof.
  unfold readline. destruct (find_lf (buf r)) as [i|].
  - destruct (lim r <? Z.of_nat i); intros H; inj H; split; reflexivity.
  - destruct (lim r <? zlen (buf r)); [intros H; inj H; split; reflexivity|].
    destruct (eof r) eqn:E; intros H; inj H; split; simpl; congruence.
Qed.

Lemma n13 : 13%nat <> O. Proof. discriminate. Qed.

(* ------------------------------------------------------------------ the LTS *)
Section Client.
Variables D M : Type.
Variable decode : D -> list Z -> D * dres M.
Variable k : kind.

Notation rxg := (rxg D M).
Notation rx_step := (rx_step D M decode k).
Notation rx_lstep := (rx_lstep D M decode k).
Notation rx_run := (rx_run D M decode k).
Notation decode_all := (decode_all D M decode).
Notation frame := (frame k).
Notation raw_frame := (raw_frame k).
Notation stream_ok := (stream_ok k).

Definition wf_raw (p : list Z) : Prop :=
  match k with KEbyte => length p = 13%nat | KText => wf_line p end.
Definition pk (p : list Z) : list Z := match k with KEbyte => p | KText => strip p end.

Lemma frame_map s : frame s = map pk (raw_frame s).
Proof. unfold frame, raw_frame, pk, frame_lines. destruct k; [symmetry; apply map_id | reflexivity]. Qed.

Lemma raw_frame_concat ps s : Forall wf_raw ps -> raw_frame (concat ps ++ s) = ps ++ raw_frame s.
Proof. unfold raw_frame, wf_raw. destruct k; [apply frame_ebyte_concat | apply split_lines_concat]. Qed.

Inductive reach (g0 : rxg) : rxg -> Prop :=
| reach_refl : reach g0 g0
| reach_step g l g' : reach g0 g -> rx_lstep g l = Some g' -> reach g0 g'.

Lemma rx_run_reach ls : forall g0 g, rx_run g0 ls = Some g -> reach g0 g.
Proof.
  induction ls as [|l t IH] using rev_ind; intros g0 g H.
  - simpl in H. inversion H. constructor.
  - assert (R : forall a b x, rx_run x (a ++ b) = match rx_run x a with Some y => rx_run y b | None => None end).
    { induction a as [|l' a IHa]; intros b x; simpl; [reflexivity|].
      destruct (rx_lstep x l'); [apply IHa | reflexivity]. }
    rewrite R in H. destruct (rx_run g0 t) as [y|] eqn:E; [|discriminate].
    simpl in H. destruct (rx_lstep y l) as [z|] eqn:S; [|discriminate]. inversion H; subst.
    eapply reach_step; [apply IH; exact E | exact S].
Qed.

Lemma reach_trans g0 g1 g2 : reach g0 g1 -> reach g1 g2 -> reach g0 g2.
Proof. intros A B. induction B; [exact A | eapply reach_step; eassumption]. Qed.

(* --- what one step can do to the reader flags and the fed bytes --- *)
Definition same_flags (g g' : rxg) (r : reader) : Prop :=
  eof (rd g') = eof r /\ lim (rd g') = lim r /\ fed g' = fed g /\ cons g' = cons g /\ delivered g' = delivered g.

Lemma deliver_flags g r raw pkt : same_flags g (deliver D M decode g r raw pkt) r /\
  rxs (deliver D M decode g r raw pkt) = rxs g.
Proof. unfold deliver, same_flags. destruct (decode (dst g) pkt) as [d' o]. simpl. repeat split; reflexivity. Qed.

Lemma with_flags g r s : same_flags g (with_rxs D M (with_rd D M g r) s) r.
Proof. unfold same_flags. simpl. repeat split; reflexivity. Qed.

Lemma rx_step_shape g g' : rx_step g = Some g' ->
  rxs g = RxRun /\ eof (rd g') = eof (rd g) /\ lim (rd g') = lim (rd g) /\ fed g' = fed g /\
  cons g' = cons g /\ delivered g' = delivered g.
Proof.
  unfold rx_step. destruct (rxs g) eqn:S; try discriminate. intros H.
  assert (X : exists r, same_flags g g' r /\ eof r = eof (rd g) /\ lim r = lim (rd g)).
  { destruct k.
    - destruct (readexactly 13 (rd g)) as [x r] eqn:R. exists r. destruct x.
      + destruct (readexactly_data 13 _ _ _ n13 R) as (_ & _ & E1 & E2).
        destruct (is_banner d); inj H; (split; [|split; assumption]);
          [apply with_flags | apply deliver_flags].
      + discriminate.
      + destruct (readexactly_other 13 _ _ _ n13 R) as (E1 & E2 & E3); [intros; discriminate | discriminate |].
        inj H. split; [apply with_flags | split; congruence].
      + destruct (readexactly_other 13 _ _ _ n13 R) as (E1 & E2 & E3); [intros; discriminate | discriminate |].
        inj H. split; [apply with_flags | split; congruence].
    - destruct (readline (rd g)) as [x r] eqn:R. exists r.
      split; [|apply (readline_flags _ _ _ R)].
      destruct x.
      + destruct d as [|b raw]; [inj H; apply with_flags|].
        destruct (line_of (b :: raw)); inj H; [apply deliver_flags | apply with_flags].
      + discriminate.
      + inj H; apply with_flags.
      + inj H; apply with_flags. }
  destruct X as (r & (A1 & A2 & A3 & A4 & A5) & B1 & B2). repeat split; congruence.
Qed.

Lemma lstep_eof_mono g l g' : rx_lstep g l = Some g' -> eof (rd g) = true -> eof (rd g') = true.
Proof.
  destruct l; simpl.
  - destruct (eof (rd g)); [discriminate|]. intros _ X; discriminate.
  - intros H; inversion H; subst. reflexivity.
  - intros H E. apply rx_step_shape in H. destruct H as (_ & H & _). congruence.
  - destruct (rxs g); try discriminate. intros H; inversion H; subst. simpl. auto.
  - destruct (cons g); [|discriminate]. destruct (q g); [discriminate|]. intros H; inversion H; subst. simpl. auto.
  - destruct (cons g); [discriminate|]. intros H; inversion H; subst. simpl. auto.
Qed.

Lemma lstep_lim g l g' : rx_lstep g l = Some g' -> lim (rd g') = lim (rd g).
Proof.
  destruct l; simpl.
  - destruct (eof (rd g)); [discriminate|]. intros H; inversion H; subst. reflexivity.
  - intros H; inversion H; subst. reflexivity.
  - intros H. apply rx_step_shape in H. tauto.
  - destruct (rxs g); try discriminate. intros H; inversion H; subst. reflexivity.
  - destruct (cons g); [|discriminate]. destruct (q g); [discriminate|]. intros H; inversion H; subst. reflexivity.
  - destruct (cons g); [discriminate|]. intros H; inversion H; subst. reflexivity.
Qed.

Lemma lstep_fed_prefix g l g' : rx_lstep g l = Some g' -> exists c, fed g' = fed g ++ c.
Proof.
  destruct l; simpl.
  - destruct (eof (rd g)); [discriminate|]. intros H; inversion H; subst. simpl. eauto.
  - intros H; inversion H; subst. exists []. simpl. symmetry. apply app_nil_r.
  - intros H. apply rx_step_shape in H. exists []. rewrite app_nil_r. tauto.
  - destruct (rxs g); try discriminate. intros H; inversion H; subst. exists []. simpl. symmetry. apply app_nil_r.
  - destruct (cons g); [|discriminate]. destruct (q g); [discriminate|]. intros H; inversion H; subst.
    exists []. simpl. symmetry. apply app_nil_r.
  - destruct (cons g); [discriminate|]. intros H; inversion H; subst. exists []. simpl. symmetry. apply app_nil_r.
Qed.

(* ------------------------------------------------------------------ delivery invariant (unconditional) *)
Lemma decode_all_snoc d ps p :
  decode_all d (ps ++ [p]) =
  let '(d1, ms) := decode_all d ps in
  let '(d2, o) := decode d1 p in
  (d2, match o with DMsg m => ms ++ [m] | _ => ms end).
Proof.
  revert d. induction ps as [|a ps IH]; intros d; simpl.
  - destruct (decode d p) as [d2 o]. destruct o; reflexivity.
  - destruct (decode d a) as [d1 o1]. rewrite IH.
    destruct (decode_all d1 ps) as [d2 ms]. destruct (decode d2 p) as [d3 o3].
    destruct o1, o3; reflexivity.
Qed.

Definition inv_deliv (d0 : D) (g : rxg) : Prop := decode_all d0 (seen g) = (dst g, delivered g ++ q g).

Lemma deliver_inv d0 g r raw pkt : inv_deliv d0 g -> inv_deliv d0 (deliver D M decode g r raw pkt).
Proof.
  unfold inv_deliv, deliver. intros I. destruct (decode (dst g) pkt) as [d' o] eqn:E. simpl.
  rewrite decode_all_snoc, I, E. destruct o; rewrite ?app_assoc; reflexivity.
Qed.

Lemma rx_step_inv_deliv d0 g g' : rx_step g = Some g' -> inv_deliv d0 g -> inv_deliv d0 g'.
Proof.
  unfold rx_step. destruct (rxs g); try discriminate. destruct k.
  - destruct (readexactly 13 (rd g)) as [x r]. destruct x; try discriminate;
      try (intros H I; inversion H; subst; exact I).
    destruct (is_banner d); intros H I; inversion H; subst; [exact I | apply deliver_inv; exact I].
  - destruct (readline (rd g)) as [x r]. destruct x; try discriminate;
      try (intros H I; inversion H; subst; exact I).
    destruct d as [|b raw]; [intros H I; inversion H; subst; exact I|].
    destruct (line_of (b :: raw)); intros H I; inversion H; subst; [apply deliver_inv; exact I | exact I].
Qed.

Lemma lstep_inv_deliv d0 g l g' : rx_lstep g l = Some g' -> inv_deliv d0 g -> inv_deliv d0 g'.
Proof.
  destruct l; simpl.
  - destruct (eof (rd g)); [discriminate|]. intros H I; inversion H; subst. exact I.
  - intros H I; inversion H; subst. exact I.
  - apply rx_step_inv_deliv.
  - destruct (rxs g); try discriminate. intros H I; inversion H; subst. exact I.
  - unfold inv_deliv. destruct (cons g); [|discriminate]. destruct (q g) as [|m q'] eqn:Q; [discriminate|].
    intros H I; inversion H; subst; simpl. rewrite I. rewrite <- app_assoc. reflexivity.
  - unfold inv_deliv. destruct (cons g); [discriminate|]. intros H I; inversion H; subst. exact I.
Qed.

Theorem delivery_invariant limit d0 g : reach (rx_init D M limit d0) g -> inv_deliv d0 g.
Proof.
  induction 1 as [|g l g' _ IH S].
  - unfold inv_deliv. reflexivity.
  - eapply lstep_inv_deliv; eassumption.
Qed.

(* a decode error (or a None) on one packet contributes nothing and changes nothing else *)
Lemma decode_error_skipped d p d' ps :
  decode d p = (d', DRaise) -> snd (decode_all d (p :: ps)) = snd (decode_all d' ps).
Proof. intros E. simpl. rewrite E. destruct (decode_all d' ps). reflexivity. Qed.

(* ------------------------------------------------------------------ framing invariant (while running, before EOF) *)
Definition inv_frame (g : rxg) : Prop :=
  fed g = concat (raw_seen g) ++ buf (rd g) /\ Forall wf_raw (raw_seen g) /\ seen g = map pk (raw_seen g).

Lemma concat_snoc {A} (ls : list (list A)) x : concat (ls ++ [x]) = concat ls ++ x.
Proof. rewrite concat_app. simpl. rewrite app_nil_r. reflexivity. Qed.

Lemma deliver_inv_frame g r raw pkt :
  inv_frame g -> buf (rd g) = raw ++ buf r -> wf_raw raw -> pkt = pk raw ->
  inv_frame (deliver D M decode g r raw pkt).
Proof.
  unfold inv_frame, deliver. intros (A & B & C) Hb Hw ->. destruct (decode (dst g) (pk raw)) as [d' o]. simpl.
  repeat split.
  - rewrite concat_snoc, <- app_assoc, <- Hb. exact A.
  - apply Forall_app. split; [exact B | constructor; [exact Hw | constructor]].
  - rewrite map_app, C. reflexivity.
Qed.

Lemma line_of_some raw line : line_of raw = Some line -> line = strip raw /\ ascii_ok raw = true.
Proof. unfold line_of. destruct (ascii_ok raw); intros H; inversion H; auto. Qed.

(* one receive step from a running, not-yet-EOF state: either it stays running and the framing
   invariant is kept, or it leaves RxRun for a reason named by the scope guard *)
Lemma rx_step_inv_frame g g' : rx_step g = Some g' -> eof (rd g) = false -> inv_frame g ->
  (rxs g' = RxRun /\ inv_frame g') \/
  (k = KEbyte /\ exists p r, readexactly 13 (rd g) = (RdData p, r) /\ is_banner p = true) \/
  (k = KText /\ exists r, readline (rd g) = (RdLimit, r)) \/
  (k = KText /\ exists raw r, readline (rd g) = (RdData raw, r) /\ ascii_ok raw = false).
Proof.
  unfold rx_step. destruct (rxs g) eqn:S; try discriminate. intros H He I. destruct k eqn:K.
  - destruct (readexactly 13 (rd g)) as [x r] eqn:R. destruct x.
    + destruct (is_banner d) eqn:Bn.
      * right. left. split; [reflexivity|]. eauto.
      * left. inversion H; subst; clear H.
        destruct (readexactly_data 13 _ _ _ n13 R) as (Hb & Hl & _).
        split.
        -- unfold deliver. destruct (decode (dst g) d). simpl. exact S.
        -- apply deliver_inv_frame; try assumption.
           ++ unfold wf_raw. rewrite K. exact Hl.
           ++ unfold pk. rewrite K. reflexivity.
    + discriminate.
    + exfalso. destruct (readexactly_other 13 _ _ _ n13 R) as (E & _); [intros; discriminate | discriminate |].
      congruence.
    + exfalso. destruct (readexactly_other 13 _ _ _ n13 R) as (E & _); [intros; discriminate | discriminate |].
      congruence.
  - destruct (readline (rd g)) as [x r] eqn:R. destruct x.
    + destruct (readline_data _ _ _ R He) as (Hb & Hw & _).
      destruct d as [|b raw].
      * exfalso. destruct Hw as (l & E & _). destruct l; discriminate.
      * destruct (line_of (b :: raw)) as [line|] eqn:L.
        -- left. inversion H; subst; clear H. apply line_of_some in L. destruct L as [L _]. split.
           ++ unfold deliver. destruct (decode (dst g) line). simpl. exact S.
           ++ apply deliver_inv_frame; try assumption.
              ** unfold wf_raw. rewrite K. exact Hw.
              ** unfold pk. rewrite K. exact L.
        -- right. right. right. split; [reflexivity|]. exists (b :: raw), r. split; [reflexivity|].
           unfold line_of in L. destruct (ascii_ok (b :: raw)); [discriminate | reflexivity].
    + discriminate.
    + exfalso. eapply readline_incomplete. exact R.
    + right. right. left. split; [reflexivity|]. eauto.
Qed.

(* the guard excludes the three ways out *)
Lemma guard_no_banner g p r limit : k = KEbyte -> inv_frame g -> stream_ok limit (fed g) = true ->
  readexactly 13 (rd g) = (RdData p, r) -> is_banner p = false.
Proof.
  intros K (A & B & _) G R. destruct (readexactly_data 13 _ _ _ n13 R) as (Hb & Hl & _).
  unfold stream_ok in G. rewrite K in G. rewrite A, Hb in G.
  unfold wf_raw in B. rewrite K in B.
  rewrite frame_ebyte_concat in G by exact B. rewrite frame_ebyte_app in G by exact Hl.
  rewrite forallb_app in G. apply andb_true_iff in G. destruct G as [_ G]. simpl in G.
  apply andb_true_iff in G. destruct G as [G _]. apply negb_true_iff in G. exact G.
Qed.

Lemma guard_no_limit g r : k = KText -> inv_frame g -> stream_ok (lim (rd g)) (fed g) = true ->
  readline (rd g) = (RdLimit, r) -> False.
Proof.
  intros K (A & B & _) G R. unfold stream_ok in G. rewrite K in G. apply andb_true_iff in G. destruct G as [_ G].
  unfold wf_raw in B. rewrite K in B. rewrite A in G. apply lines_short_skip in G; [|exact B].
  unfold lines_short in G.
  destruct (readline_limit _ _ R) as [(i & F & L) | (F & L)].
  - destruct (find_lf_some _ _ F) as (Hi & Hn & _ & Hf).
    rewrite <- (firstn_skipn (i + 1) (buf (rd g))) in G. rewrite Hf in G. rewrite <- app_assoc in G. simpl in G.
    apply short_acc_line in G; [|exact Hn]. destruct G as [G _]. unfold zlen in G. rewrite firstn_length in G. lia.
  - apply short_acc_nolf in G; [|exact F]. lia.
Qed.

Lemma guard_ascii g raw r limit : k = KText -> inv_frame g -> stream_ok limit (fed g) = true ->
  readline (rd g) = (RdData raw, r) -> eof (rd g) = false -> ascii_ok raw = true.
Proof.
  intros K (A & _) G R He. unfold stream_ok in G. rewrite K in G. apply andb_true_iff in G. destruct G as [G _].
  destruct (readline_data _ _ _ R He) as (Hb & _). rewrite A, Hb in G.
  rewrite !ascii_ok_app in G. apply andb_true_iff in G. destruct G as [_ G]. apply andb_true_iff in G. tauto.
Qed.

Lemma stream_ok_prefix limit a b : stream_ok limit (a ++ b) = true -> stream_ok limit a = true.
Proof.
  unfold stream_ok. destruct k.
  - (* frame_ebyte a is a prefix of frame_ebyte (a ++ b) *)
    intros H. unfold frame_ebyte at 1.
    assert (P : forall fuel s t, (length s <= fuel)%nat ->
                forallb (fun p => negb (is_banner p)) (frame_ebyte (s ++ t)) = true ->
                forallb (fun p => negb (is_banner p)) (blocks_fuel fuel 13 s) = true).
    { induction fuel as [|f IH]; intros s t L G; [reflexivity|].
      cbn [blocks_fuel]. destruct (length s <? 13)%nat eqn:E; [reflexivity|]. apply Nat.ltb_ge in E.
      rewrite <- (firstn_skipn 13 s) in G. rewrite <- app_assoc in G.
      rewrite frame_ebyte_app in G by (apply firstn_skipn_len; exact E).
      cbn [forallb] in G. apply andb_true_iff in G. destruct G as [G1 G2]. cbn [forallb]. rewrite G1.
      cbn [andb]. eapply IH; [|exact G2]. rewrite skipn_length. lia. }
    eapply P; [apply Nat.le_refl | exact H].
  - rewrite ascii_ok_app. intros H. apply andb_true_iff in H. destruct H as [H1 H2].
    apply andb_true_iff in H1. destruct H1 as [H1 _]. rewrite H1. simpl.
    unfold lines_short in *. eapply short_acc_prefix. exact H2.
Qed.

(* ------------------------------------------------------------------ main invariant *)
Theorem running_invariant limit d0 g :
  reach (rx_init D M limit d0) g -> eof (rd g) = false -> stream_ok limit (fed g) = true ->
  rxs g = RxRun /\ inv_frame g /\ lim (rd g) = limit.
Proof.
  induction 1 as [|g l g' R IH S]; intros He G.
  - simpl. repeat split; constructor.
  - assert (He0 : eof (rd g) = false).
    { destruct (eof (rd g)) eqn:E; [|reflexivity]. rewrite (lstep_eof_mono _ _ _ S E) in He. discriminate. }
    destruct (lstep_fed_prefix _ _ _ S) as [c Hc].
    assert (G0 : stream_ok limit (fed g) = true) by (eapply stream_ok_prefix; rewrite <- Hc; exact G).
    destruct (IH He0 G0) as (Rn & I & Lm).
    assert (Lm' : lim (rd g') = limit) by (rewrite (lstep_lim _ _ _ S); exact Lm).
    destruct l; simpl in S.
    + rewrite He0 in S. inversion S; subst; clear S. simpl. repeat split; try assumption.
      * destruct I as (A & _). simpl. rewrite A. rewrite app_assoc. reflexivity.
      * apply I.
      * apply I.
    + inversion S; subst. simpl in He. discriminate.
    + destruct (rx_step_inv_frame _ _ S He0 I) as [(A & B) | [(K & p & r & R1 & Bn) | [(K & r & R1) | (K & raw & r & R1 & As)]]].
      * auto.
      * exfalso. rewrite (guard_no_banner g p r limit K I G0 R1) in Bn. discriminate.
      * exfalso. eapply guard_no_limit; [exact K | exact I | rewrite Lm; exact G0 | exact R1].
      * exfalso. rewrite (guard_ascii g raw r limit K I G0 R1 He0) in As. discriminate.
    + rewrite Rn in S. discriminate.
    + destruct (cons g); [|discriminate]. destruct (q g); [discriminate|]. inversion S; subst. simpl.
      repeat split; try assumption; apply I.
    + destruct (cons g); [discriminate|]. inversion S; subst. simpl. repeat split; try assumption; apply I.
Qed.

(* chunking independence, for every schedule of the receive task: what the decoder has been
   shown, plus what is still cut out of the buffer, is the framing of everything fed *)
Theorem chunking_any_schedule limit d0 g :
  reach (rx_init D M limit d0) g -> eof (rd g) = false -> stream_ok limit (fed g) = true ->
  seen g ++ frame (buf (rd g)) = frame (fed g).
Proof.
  intros R He G. destruct (running_invariant _ _ _ R He G) as (_ & (A & B & C) & _).
  rewrite !frame_map. rewrite A, raw_frame_concat by exact B. rewrite map_app, C. reflexivity.
Qed.

Lemma blocked_frame_nil g : rx_step g = None -> rxs g = RxRun -> eof (rd g) = false -> frame (buf (rd g)) = [].
Proof.
  unfold rx_step. intros H S He. rewrite S in H. rewrite frame_map. unfold raw_frame. destruct k.
  - destruct (readexactly 13 (rd g)) as [x r] eqn:R. destruct x; try discriminate.
    + destruct (is_banner d); discriminate.
    + apply (readexactly_wait 13 _ _ n13) in R. rewrite frame_ebyte_short by tauto. reflexivity.
  - destruct (readline (rd g)) as [x r] eqn:R. destruct x; try discriminate.
    + destruct d; [discriminate|]. destruct (line_of (z :: d)); discriminate.
    + apply readline_wait in R. rewrite split_lines_nolf by tauto. reflexivity.
Qed.

Theorem delivery_prefix limit d0 g :
  reach (rx_init D M limit d0) g -> eof (rd g) = false -> stream_ok limit (fed g) = true ->
  exists rest, frame (fed g) = seen g ++ rest /\
               delivered g ++ q g = snd (decode_all d0 (seen g)).
Proof.
  intros R He G. exists (frame (buf (rd g))). split.
  - symmetry. eapply chunking_any_schedule; eassumption.
  - rewrite (delivery_invariant _ _ _ R). reflexivity.
Qed.

Theorem delivery_quiescent limit d0 g :
  reach (rx_init D M limit d0) g -> eof (rd g) = false -> stream_ok limit (fed g) = true ->
  quiescent D M decode k g ->
  delivered g = snd (decode_all d0 (frame (fed g))).
Proof.
  intros R He G (Q1 & Q2 & Q3).
  destruct (running_invariant _ _ _ R He G) as (Rn & _ & _).
  rewrite <- (chunking_any_schedule _ _ _ R He G).
  rewrite (blocked_frame_nil _ Q1 Rn He), app_nil_r.
  rewrite (delivery_invariant _ _ _ R). simpl. rewrite Q2, app_nil_r. reflexivity.
Qed.

(* ------------------------------------------------------------------ progress *)
(* work left: packets still to cut out (bounded by the buffer length), queued messages, a callback in flight *)
Definition work (g : rxg) : nat :=
  (match rxs g with RxRun => 3 * S (length (buf (rd g))) | RxBannerSleep => 1 | _ => 0 end)
  + 2 * length (q g) + (match cons g with CInCb => 1 | CIdle => 0 end).

Lemma rx_step_buf_decreases g g' : rx_step g = Some g' ->
  (rxs g' <> RxRun /\ q g' = q g) \/
  (rxs g' = RxRun /\ (length (buf (rd g')) < length (buf (rd g)))%nat /\
   (length (q g') <= S (length (q g)))%nat).
Proof.
  unfold rx_step. destruct (rxs g) eqn:HS; try discriminate. destruct k.
  - destruct (readexactly 13 (rd g)) as [x r] eqn:R. destruct x; try discriminate;
      try (intros H; inj H; left; simpl; split; [discriminate | reflexivity]).
    destruct (is_banner d); intros H; inj H; [left; simpl; split; [discriminate | reflexivity]|].
    right. destruct (readexactly_data 13 _ _ _ n13 R) as (Hb & Hl & _).
    unfold deliver. destruct (decode (dst g) d) as [d' o]. simpl. split; [exact HS|]. split.
    + rewrite Hb, app_length. lia.
    + destruct o; rewrite ?app_length; simpl; lia.
  - destruct (readline (rd g)) as [x r] eqn:R. destruct x; try discriminate;
      try (intros H; inj H; left; simpl; split; [discriminate | reflexivity]).
    destruct d as [|b raw]; [intros H; inj H; left; simpl; split; [discriminate | reflexivity]|].
    destruct (line_of (b :: raw)); intros H; inj H; [|left; simpl; split; [discriminate | reflexivity]].
    right. unfold deliver. destruct (decode (dst g) l) as [d' o]. simpl. split; [exact HS|].
    assert (Hb : buf (rd g) = (b :: raw) ++ buf r).
    { unfold readline in R. destruct (find_lf (buf (rd g))) as [i|].
      - destruct (lim (rd g) <? Z.of_nat i); [discriminate R|]. injection R as R1 R2. rewrite <- R1, <- R2.
        cbn [buf set_buf]. symmetry. apply firstn_skipn.
      - destruct (lim (rd g) <? zlen (buf (rd g))); [discriminate R|].
        destruct (eof (rd g)); [|discriminate R]. injection R as R1 R2. rewrite <- R1, <- R2. simpl.
        symmetry. apply app_nil_r. }
    split.
    + rewrite Hb, app_length. simpl. lia.
    + destruct o; rewrite ?app_length; simpl; lia.
Qed.

(* a callback that eventually finishes: CbSuspend does not count as progress, everything else does *)
Definition progressing (l : rxlabel) : bool :=
  match l with LFeed _ | LEof => false | LCbEnd CbSuspend => false | _ => true end.

Theorem progress_measure g l g' : rx_lstep g l = Some g' -> progressing l = true -> (work g' < work g)%nat.
Proof.
  destruct l; simpl; try discriminate.
  - intros H _. pose proof (rx_step_shape _ _ H) as (HS & _ & _ & _ & C & _).
    destruct (rx_step_buf_decreases _ _ H) as [(N & Q) | (R & L & Q)]; unfold work; rewrite HS, C.
    + rewrite Q. destruct (rxs g'); try congruence; lia.
    + rewrite R. lia.
  - destruct (rxs g) eqn:HS; try discriminate. intros H _. inversion H; subst. unfold work. simpl. rewrite HS. lia.
  - destruct (cons g) eqn:C; [|discriminate]. destruct (q g) eqn:Q; [discriminate|].
    intros H _. inversion H; subst. unfold work. simpl. rewrite C, Q. simpl. destruct o; lia.
  - destruct (cons g) eqn:C; [discriminate|]. intros H P. inversion H; subst. unfold work. simpl. rewrite C.
    destruct o; try discriminate; lia.
Qed.

(* in a running state that is not quiescent some progressing step is enabled *)
Theorem progress_enabled g : rxs g = RxRun -> ~ quiescent D M decode k g ->
  exists l g', progressing l = true /\ rx_lstep g l = Some g'.
Proof.
  intros HS NQ. destruct (rx_step g) as [g'|] eqn:E.
  - exists LRx, g'. split; [reflexivity | exact E].
  - destruct (cons g) eqn:C.
    + destruct (q g) as [|m q'] eqn:Q.
      * exfalso. apply NQ. unfold quiescent. auto.
      * eexists (LCbStart CbReturn), _. split; [reflexivity|]. simpl. rewrite C, Q. reflexivity.
    + eexists (LCbEnd CbReturn), _. split; [reflexivity|]. simpl. rewrite C. reflexivity.
Qed.

(* ------------------------------------------------------------------ the feed-then-drain schedule *)
Notation rx_drain := (rx_drain D M decode k).
Notation feed_drain := (feed_drain D M decode k).
Notation feed_all := (feed_all D M decode k).

Lemma rx_drain_reach fuel : forall g, reach g (rx_drain fuel g).
Proof.
  induction fuel as [|f IH]; intros g; simpl; [constructor|].
  destruct (rx_step g) as [g'|] eqn:E; [|constructor].
  eapply reach_trans; [|apply IH]. apply (reach_step g g LRx g'); [constructor | exact E].
Qed.

Lemma rx_drain_blocked fuel : forall g,
  (rxs g <> RxRun \/ (length (buf (rd g)) < fuel)%nat) -> rx_step (rx_drain fuel g) = None.
Proof.
  induction fuel as [|f IH]; intros g H; simpl.
  - destruct H as [H|H]; [|lia]. unfold rx_step. destruct (rxs g); try reflexivity. congruence.
  - destruct (rx_step g) as [g'|] eqn:E; [|exact E].
    apply IH. destruct (rx_step_buf_decreases _ _ E) as [(N & _) | (_ & L & _)]; [left; exact N|].
    destruct H as [H|H]; [|right; lia].
    exfalso. apply H. apply rx_step_shape in E. tauto.
Qed.

Lemma rx_drain_fed fuel : forall g, fed (rx_drain fuel g) = fed g /\ eof (rd (rx_drain fuel g)) = eof (rd g).
Proof.
  induction fuel as [|f IH]; intros g; simpl; [auto|].
  destruct (rx_step g) as [g'|] eqn:E; [|auto].
  destruct (IH g') as [A B]. apply rx_step_shape in E. destruct E as (_ & E1 & _ & E2 & _). split; congruence.
Qed.

Lemma feed_all_props chunks : forall g, eof (rd g) = false -> rx_step g = None ->
  reach g (feed_all g chunks) /\ fed (feed_all g chunks) = fed g ++ concat chunks /\
  eof (rd (feed_all g chunks)) = false /\ rx_step (feed_all g chunks) = None.
Proof.
  induction chunks as [|c t IH]; intros g He Hb; simpl.
  - rewrite app_nil_r. repeat split; try assumption. constructor.
  - unfold feed_all in *. simpl.
    set (g1 := {| rd := feed (rd g) c; dst := dst g; rxs := rxs g; raw_seen := raw_seen g; seen := seen g;
                  q := q g; cons := cons g; delivered := delivered g; fed := fed g ++ c |}).
    assert (HS : rx_lstep g (LFeed c) = Some g1) by (simpl; rewrite He; reflexivity).
    set (g2 := rx_drain (S (length (buf (rd g1)))) g1).
    assert (FD : feed_drain g c = g2) by (unfold feed_drain; rewrite HS; reflexivity).
    rewrite FD.
    destruct (rx_drain_fed (S (length (buf (rd g1)))) g1) as [F1 F2]. fold g2 in F1, F2.
    assert (He2 : eof (rd g2) = false) by (rewrite F2; simpl; exact He).
    assert (Hb2 : rx_step g2 = None) by (apply rx_drain_blocked; right; lia).
    destruct (IH g2 He2 Hb2) as (A & B & C & E). repeat split; try assumption.
    + eapply reach_trans; [|exact A]. eapply reach_trans; [|apply rx_drain_reach].
      eapply reach_step; [constructor | exact HS].
    + rewrite B, F1. simpl. rewrite app_assoc. reflexivity.
Qed.

Theorem chunking_feed_all limit d0 chunks : 0 <= limit ->
  stream_ok limit (concat chunks) = true ->
  packets_seen D M (feed_all (rx_init D M limit d0) chunks) = frame (concat chunks).
Proof.
  intros L0 G. set (g0 := rx_init D M limit d0).
  assert (B0 : rx_step g0 = None).
  { unfold rx_step, g0; simpl. destruct k; [reflexivity|]. unfold readline. simpl.
    replace (limit <? zlen []) with false by (symmetry; apply Z.ltb_ge; exact L0). reflexivity. }
  destruct (feed_all_props chunks g0 eq_refl B0) as (R & F & He & Hb).
  simpl in F. set (g := feed_all g0 chunks) in *.
  assert (G' : stream_ok limit (fed g) = true) by (rewrite F; exact G).
  destruct (running_invariant _ _ _ R He G') as (Rn & _ & _).
  unfold packets_seen. rewrite <- F. rewrite <- (chunking_any_schedule _ _ _ R He G').
  rewrite (blocked_frame_nil _ Hb Rn He), app_nil_r. reflexivity.
Qed.


(* ------------------------------------------------------------------ statements over label lists *)
Fixpoint chunks_of (ls : list rxlabel) : list (list Z) :=
  match ls with
  | [] => []
  | LFeed c :: t => c :: chunks_of t
  | _ :: t => chunks_of t
  end.

Lemma lstep_fed g l g' : rx_lstep g l = Some g' ->
  fed g' = fed g ++ concat (chunks_of [l]).
Proof.
  destruct l; simpl.
  - destruct (eof (rd g)); [discriminate|]. intros H; inversion H; subst. simpl. rewrite app_nil_r. reflexivity.
  - intros H; inversion H; subst. simpl. rewrite app_nil_r. reflexivity.
  - intros H. apply rx_step_shape in H. rewrite app_nil_r. tauto.
  - destruct (rxs g); try discriminate. intros H; inversion H; subst. simpl. rewrite app_nil_r. reflexivity.
  - destruct (cons g); [|discriminate]. destruct (q g); [discriminate|]. intros H; inversion H; subst.
    simpl. rewrite app_nil_r. reflexivity.
  - destruct (cons g); [discriminate|]. intros H; inversion H; subst. simpl. rewrite app_nil_r. reflexivity.
Qed.

Lemma rx_run_fed ls : forall g g', rx_run g ls = Some g' -> fed g' = fed g ++ concat (chunks_of ls).
Proof.
  induction ls as [|l t IH]; simpl; intros g g' H.
  - inversion H; subst. rewrite app_nil_r. reflexivity.
  - destruct (rx_lstep g l) as [g1|] eqn:E; [|discriminate].
    rewrite (IH _ _ H), (lstep_fed _ _ _ E). rewrite <- app_assoc. f_equal.
    destruct l; simpl; rewrite ?app_nil_r; reflexivity.
Qed.

Lemma decode_all_app d a b :
  decode_all d (a ++ b) =
  let '(d1, m1) := decode_all d a in let '(d2, m2) := decode_all d1 b in (d2, m1 ++ m2).
Proof.
  revert d. induction a as [|p a IH]; intros d; simpl.
  - destruct (decode_all d b). reflexivity.
  - destruct (decode d p) as [d1 o]. rewrite IH. destruct (decode_all d1 a) as [d2 m1].
    destruct (decode_all d2 b) as [d3 m2]. destruct o; reflexivity.
Qed.

Theorem chunking_run limit d0 ls g :
  rx_run (rx_init D M limit d0) ls = Some g -> eof (rd g) = false ->
  stream_ok limit (concat (chunks_of ls)) = true ->
  seen g ++ frame (buf (rd g)) = frame (concat (chunks_of ls)).
Proof.
  intros R He G. pose proof (rx_run_fed _ _ _ R) as F. simpl in F. rewrite <- F in *.
  eapply chunking_any_schedule; [eapply rx_run_reach; exact R | exact He | exact G].
Qed.

Theorem delivery_run limit d0 ls g :
  rx_run (rx_init D M limit d0) ls = Some g -> eof (rd g) = false ->
  stream_ok limit (concat (chunks_of ls)) = true ->
  let expected := snd (decode_all d0 (frame (concat (chunks_of ls)))) in
  (exists later, expected = delivered g ++ q g ++ later) /\
  (quiescent D M decode k g -> delivered g = expected).
Proof.
  intros R He G. pose proof (rx_run_fed _ _ _ R) as F. simpl in F. rewrite <- F in *.
  pose proof (rx_run_reach _ _ _ R) as Rc. simpl. split.
  - rewrite <- (chunking_any_schedule _ _ _ Rc He G). rewrite decode_all_app.
    pose proof (delivery_invariant _ _ _ Rc) as I. unfold inv_deliv in I. rewrite I.
    destruct (decode_all (dst g) (frame (buf (rd g)))) as [d2 m2]. simpl. exists m2.
    rewrite app_assoc. reflexivity.
  - intros Q. eapply delivery_quiescent; eassumption.
Qed.

End Client.
